(** * MddOps2: [bdd_to_mdd] — the link with [collect_garbage]/[reorder],
      totality of the conversion, and the full theorem *)
From DD Require Export MddOps Sift9.

(** ** [cofactor] by all the levels of a zone [a..b]: the result is the node
    reached by walking from [u] through the zone; nothing is created *)
Lemma drop_while_subset {A} (p : A → bool) l x : x ∈ drop_while p l → x ∈ l.
Proof.
  induction l as [|y l IH]; cbn [drop_while]; [done|].
  destruct (p y); [|done]. intros H. right. by apply IH.
Qed.
Lemma drop_while_head {A} (p : A → bool) l x l' : drop_while p l = x :: l' → p x = false.
Proof.
  induction l as [|y l IH]; cbn [drop_while]; [done|].
  destruct (p y) eqn:E; [done|]. by intros [= -> _].
Qed.

Section zone.
Context (s : st) (HI : Inv s) (values : gmap nat bool) (a : nat).
(* the assigned levels at or below [a] are convex, and are levels of variables *)
Context (Hconv : ∀ i n, a ≤ i → i ≤ n → is_Some (values !! n) → is_Some (values !! i)).
Context (Hlt : ∀ k, is_Some (values !! k) → k < nvars s).

Inductive zpath : Z → Z → Prop :=
  | zp_stop u : valid s u → values !! lvl_of s u = None → zpath u u
  | zp_step u t val x : valid s u → succ s !! absn u = Some t → absn u ≠ 1%positive →
      values !! t_lvl t = Some val →
      zpath (if (val : bool) then t_hi t else t_lo t) x → zpath u (flip x u).

Lemma cofactor_rec_zone fuel : ∀ u ord cache r s',
  valid s u → a ≤ lvl_of s u →
  (∀ k, k ∈ ord → is_Some (values !! k)) → Cofactor.ord_ok s u ord values →
  (∀ k x, cache !! k = Some x → zpath k x) →
  nvars s - lvl_of s u < fuel →
  cofactor_rec fuel u ord values cache s = (r, s') →
  s' = s ∧ ∃ x cache', r = Ok (x, cache') ∧ zpath u x ∧
    ∀ k y, cache' !! k = Some y → zpath k y.
Proof.
  induction fuel as [|f IH]; intros u ord cache r s' Hu Ha Hords Hord Hc Hfuel; [lia|].
  cbn [cofactor_rec].
  destruct (decide (absn u = 1%positive ∧ u ≠ 0%Z)) as [[E1 _]|Hnt].
  { intros [= <- <-]. split; [done|]. exists u, cache. split_and!; try done.
    apply zp_stop; [done|]. rewrite (lvl_term s HI u E1).
    apply eq_None_not_Some. intros H%Hlt. lia. }
  destruct (cache !! u) as [x|] eqn:Hcu.
  { intros [= <- <-]. split; [done|]. exists x, cache. split_and!; try done. by apply Hc. }
  destruct (node_cases s HI u Hu) as [[E El]|(t&Ht&Hn1&Hlo&Hl&Hln&Hvl&Hvh&Hhp&Hll&Hlh&Hne)].
  { exfalso. apply Hnt. split; [done|apply Hu]. }
  rewrite (bind_ok _ _ _ _ _ (getsuccZ_ok s u t (proj1 Hu) Ht)).
  unfold is_term, assert. rewrite bool_decide_eq_false_2 by done. cbn [negb].
  rewrite (bind_ok _ _ s tt s) by done.
  rewrite <- Hl in Hll, Hlh.
  destruct (skip_below (t_lvl t) ord) as [|n ord'] eqn:Hsk.
  { intros [= <- <-]. split; [done|]. exists u, cache. split_and!; try done.
    apply zp_stop; [done|]. apply eq_None_not_Some. intros Hs.
    pose proof (skip_below_nil _ _ Hsk _ (Hord _ Hs ltac:(lia))). lia. }
  assert (Hn : t_lvl t ≤ n ∧ is_Some (values !! n)).
  { split.
    - pose proof (drop_while_head _ _ _ _ Hsk) as Hp. cbv beta in Hp.
      apply bool_decide_eq_false in Hp. lia.
    - apply Hords. apply (drop_while_subset (fun k => bool_decide (k < t_lvl t))).
      unfold skip_below in Hsk. rewrite Hsk. left. }
  destruct Hn as [Hn1' Hn2].
  assert (is_Some (values !! t_lvl t)) as [val Hval] by (apply (Hconv _ n); [lia|done|done]).
  assert (Hords' : ∀ k, k ∈ n :: ord' → is_Some (values !! k)).
  { intros k Hk. apply Hords. rewrite <- Hsk in Hk.
    by apply (drop_while_subset (fun k => bool_decide (k < t_lvl t))). }
  assert (Hord' : ∀ c, lvl_of s u ≤ lvl_of s c → Cofactor.ord_ok s c (n :: ord') values).
  { intros c Hl1. rewrite <- Hsk, <- Hl. by apply (Cofactor.ord_ok_child s s u). }
  cbv iota. clear Hsk. set (ord1 := n :: ord') in *. clearbody ord1.
  rewrite Hval.
  set (c := if val then t_hi t else t_lo t).
  assert (Hvc : valid s c) by (subst c; by destruct val).
  assert (Hlc : lvl_of s u < lvl_of s c) by (subst c; by destruct val).
  destruct (cofactor_rec f c ord1 values cache s) as [rp s1] eqn:Ep.
  pose proof Ep as Ep'.
  apply IH in Ep' as (->&x&c1&->&Hx&Hc1); [|done|lia|done|apply Hord'; lia|done|lia].
  rewrite (bind_ok _ _ _ _ _ Ep). intros [= <- <-]. split; [done|].
  assert (Hz : zpath u (flip x u)) by (by apply (zp_step u t val x)).
  eexists _, _. split; [done|]. split; [done|].
  intros k y Hk. destruct (decide (k = u)) as [->|Hne'].
  - rewrite lookup_insert in Hk. by injection Hk as <-.
  - rewrite lookup_insert_ne in Hk by done. by apply Hc1.
Qed.

(** facts about the node reached *)
Lemma zpath_valid u x : zpath u x → valid s x ∧ values !! lvl_of s x = None.
Proof.
  induction 1 as [u Hu Hl|u t val x Hu Ht Hn Hval _ [IH1 IH2]]; [done|].
  split; [by apply valid_flip|by rewrite lvl_flip].
Qed.
(** when the walk starts inside the zone, the node reached has a parent in
    the zone *)
Lemma zpath_parent u x : zpath u x → is_Some (values !! lvl_of s u) →
  ∃ w tw, succ s !! w = Some tw ∧ w ≠ 1%positive ∧ lvl_of s u ≤ t_lvl tw ∧
    is_Some (values !! t_lvl tw) ∧
    (absn (t_lo tw) = absn x ∨ absn (t_hi tw) = absn x).
Proof.
  induction 1 as [u Hu Hl|u t val x Hu Ht Hn Hval Hz IH].
  { intros [? H]. congruence. }
  intros Hlu.
  assert (Elu : lvl_of s u = t_lvl t) by (unfold lvl_of; by rewrite Ht).
  set (c := if val then t_hi t else t_lo t) in *.
  assert (Habs : absn (flip x u) = absn x).
  { unfold flip. case_decide; [apply absn_neg|done]. }
  destruct (inv_node _ HI _ _ Ht Hn) as (_&Hvl&Hhp&Hvh&Hll&Hlh&_).
  assert (Hvc : valid s c ∧ t_lvl t < lvl_of s c) by (subst c; by destruct val).
  destruct Hvc as [Hvc Hlc].
  destruct (values !! lvl_of s c) as [vc|] eqn:Hcb.
  - destruct (IH ltac:(by eexists)) as (w&tw&Hw&Hw1&Hlw&Hzw&Hch). exists w, tw.
    rewrite Habs. split_and!; try done; lia.
  - (* the child is already outside: [u] itself is the parent *)
    assert (x = c) as ->.
    { inversion Hz as [? ? ? E1 E2|? t' val' x' Hu' Ht' Hn' Hval' Hz' E1 E2]; [done|].
      exfalso. subst. unfold lvl_of in Hcb. rewrite Ht' in Hcb. congruence. }
    exists (absn u), t. rewrite Habs, Elu. split_and!; try done; try (by eexists).
    subst c. destruct val; [by right|by left].
Qed.
End zone.

Lemma zpath_same s s' values u x : succ s' = succ s → zpath s' values u x → zpath s values u x.
Proof.
  intros E. assert (Hv : ∀ y, valid s' y → valid s y) by (intros y; unfold valid; by rewrite E).
  assert (Hl : ∀ y, lvl_of s' y = lvl_of s y) by (intros y; unfold lvl_of; by rewrite E).
  induction 1 as [u Hu Hn|u t val x Hu Ht Hn Hval _ IH].
  - apply zp_stop; [by apply Hv|by rewrite <- Hl].
  - apply (zp_step s values u t val x); try done; [by apply Hv|by rewrite <- E].
Qed.

(** the key mapping by name succeeds when the keys are declared *)
Lemma mapM_map_key_ok s (kv : list (nat * bool)) :
  (∀ k b, (k, b) ∈ kv → is_Some (vars s !! k)) →
  ∃ ls, mapM (fun '(k, a) => l <- map_key true false k ;; ret (l, a)) kv s = (Ok ls, s).
Proof.
  induction kv as [|[k a] kv IH]; intros H; [by exists []|].
  destruct (H k a ltac:(left)) as [l Hl]. destruct IH as [ls Hls]; [intros; eapply H; by right|].
  exists ((l, a) :: ls). cbn [mapM].
  rewrite bind_assoc, (bind_ok _ _ _ _ _ (map_key_name s false k l Hl)).
  rewrite (bind_ok _ _ s (l, a) s) by done. by rewrite (bind_ok _ _ _ _ _ Hls).
Qed.
Lemma mtld_name_ok s (kv : list (nat * bool)) :
  (∀ k b, (k, b) ∈ kv → is_Some (vars s !! k)) →
  ∃ lv, map_to_level_dict true kv s = (Ok lv, s).
Proof.
  intros H. unfold map_to_level_dict. destruct kv as [|[k a] rest]; [by eexists|].
  destruct (H k a ltac:(left)) as [l Hl].
  destruct (mapM_map_key_ok s rest) as [ls Hls]; [intros; eapply H; by right|].
  eexists. rewrite (bind_ok _ _ s tt s) by done.
  rewrite (bind_ok _ _ _ _ _ (map_key_name s true k l Hl)).
  rewrite (bind_ok _ _ _ _ _ Hls). reflexivity.
Qed.

Lemma rctx_roundtrip s : s <| rctx := true |> <| rctx := rctx s |> = s.
Proof. by destruct s. Qed.

Lemma cofactor_zone s u d lv : Inv s → last_len s = None → valid s u →
  map_to_level_dict true d (s <| rctx := true |>) = (Ok lv, s <| rctx := true |>) →
  (∀ i n, lvl_of s u ≤ i → i ≤ n → is_Some (lv !! n) → is_Some (lv !! i)) →
  (∀ k, is_Some (lv !! k) → k < nvars s) →
  ∃ z, cofactor u true d s = (Ok z, s) ∧ zpath s lv u z.
Proof.
  intros HI Hoff Hu Hmap Hconv Hlt.
  set (s0 := s <| rctx := true |>) in *.
  assert (HI0 : Inv s0) by (by apply Inv_rctx).
  assert (Hu0 : valid s0 u) by done.
  destruct (cofactor_rec (S (S (nvars s0))) u (sorted_levels (dom lv)) lv ∅ s0)
    as [rr s2] eqn:Erec.
  pose proof Erec as Erec'.
  apply (cofactor_rec_zone s0 HI0 lv (lvl_of s u) Hconv Hlt) in Erec'
    as (->&z&c&->&Hz&_); [|done|done| | |done|lia].
  2:{ intros k Hk. apply elem_of_sorted_levels in Hk. by apply elem_of_dom. }
  2:{ intros k Hk _. apply elem_of_sorted_levels. by apply elem_of_dom. }
  exists z. split; [|by apply (zpath_same s s0)].
  unfold cofactor, cofactor_names, try_to_reorder. cbn [bind get modify].
  unfold bind at 1, catch at 1. fold s0.
  rewrite (bind_ok _ _ _ _ _ Hmap). cbn [bind get].
  rewrite (proj2 (mem_valid s0 u) Hu0). unfold ensure.
  rewrite (bind_ok _ _ s0 tt s0) by done.
  rewrite (bind_ok _ _ _ _ _ Erec). cbn [bind modify ret fst]. by rewrite rctx_roundtrip.
Qed.

(** ** (a) The link: the state reached after [collect_garbage ;;; reorder] *)

(** [dvars] is well formed with respect to the manager: the integer
    variables are named once and sit at the levels [0..m-1]; every bit is
    listed once (within and across variables); the bits are exactly the
    declared variables of the BDD manager *)
Definition dlevels (dvars : dvars_t) : list nat :=
  (fun x : nat * (nat * list nat) => x.2.1) <$> dvars.
Record dvars_wf (dvars : dvars_t) (s : st) : Prop := {
  dw_names : NoDup (dvars.*1);
  dw_levels : dlevels dvars ≡ₚ seq 0 (length dvars);
  dw_bits : NoDup (b2v dvars).*1;
  dw_decl : ∀ b, b ∈ (b2v dvars).*1 ↔ is_Some (vars s !! b);
}.

(** the bit lists in the order of the integer levels *)
Definition bits_at (dvars : dvars_t) (j : nat) : option (list nat) :=
  match list_find (fun '(_, (l, _)) => bool_decide (l = j)) dvars with
  | Some (_, (_, (_, bits))) => Some bits
  | None => None
  end.
Definition b2m_target (dvars : dvars_t) : list nat :=
  concat (omap (bits_at dvars) (seq 0 (length dvars))).
Definition b2m_b2s (dvars : dvars_t) : list (nat * nat) :=
  imap (fun k b => (b, k)) (b2m_target dvars).

Lemma mapM_of_opt {A B} (f : A → option B) e (l : list A) (s : st) :
  (∀ x, x ∈ l → is_Some (f x)) →
  mapM (fun x => of_opt e (f x)) l s = (Ok (omap f l), s).
Proof.
  induction l as [|x l IH]; intros H; [done|].
  destruct (H x ltac:(left)) as [y Hy]. cbn [mapM omap list_omap]. rewrite Hy.
  cbn [of_opt]. rewrite (bind_ok _ _ s y s) by done.
  rewrite (bind_ok _ _ _ _ _ (IH ltac:(intros; apply H; by right))). done.
Qed.

Lemma b2v_fst_cons v j bits (l : dvars_t) :
  (b2v ((v, (j, bits)) :: l)).*1 = bits ++ (b2v l).*1.
Proof.
  unfold b2v. cbn [flat_map]. rewrite fmap_app. f_equal.
  cbn. induction bits as [|b bits IH]; [done|]. cbn. by rewrite IH.
Qed.

Lemma b2v_bits_nodup (dvars : dvars_t) v j bits :
  NoDup (b2v dvars).*1 → (v, (j, bits)) ∈ dvars → NoDup bits.
Proof.
  induction dvars as [|[v' [j' bits']] l IH]; intros Hnd Hin; [by apply elem_of_nil in Hin|].
  rewrite b2v_fst_cons in Hnd. apply NoDup_app in Hnd as (H1&_&H2).
  apply elem_of_cons in Hin as [[= -> -> ->]|Hin]; [done|by apply IH].
Qed.

Section dwf.
Context (dvars : dvars_t) (s : st) (Hdw : dvars_wf dvars s).

Lemma dw_level_lt v j bits : (v, (j, bits)) ∈ dvars → j < length dvars.
Proof.
  intros Hin. assert (j ∈ dlevels dvars) as Hj.
  { apply elem_of_list_fmap. by exists (v, (j, bits)). }
  rewrite (dw_levels _ _ Hdw) in Hj. apply elem_of_seq in Hj. lia.
Qed.
Lemma dw_level_inj v1 v2 j b1 b2 :
  (v1, (j, b1)) ∈ dvars → (v2, (j, b2)) ∈ dvars → v1 = v2 ∧ b1 = b2.
Proof.
  intros H1 H2. assert (NoDup (dlevels dvars)) as Hnd.
  { rewrite (dw_levels _ _ Hdw). apply NoDup_seq. }
  by pose proof (NoDup_fmap_inj_elem (fun x : nat * (nat * list nat) => x.2.1) dvars
                   _ _ Hnd H1 H2 eq_refl) as [= -> ->].
Qed.
Lemma dw_name_inj v j1 j2 b1 b2 :
  (v, (j1, b1)) ∈ dvars → (v, (j2, b2)) ∈ dvars → j1 = j2 ∧ b1 = b2.
Proof.
  intros H1 H2.
  by pose proof (NoDup_fmap_inj_elem fst dvars _ _ (dw_names _ _ Hdw) H1 H2 eq_refl) as [= -> ->].
Qed.
Lemma dw_level_ex j : j < length dvars → ∃ v bits, (v, (j, bits)) ∈ dvars.
Proof.
  intros Hj. assert (j ∈ dlevels dvars) as Hin.
  { rewrite (dw_levels _ _ Hdw). apply elem_of_seq. lia. }
  apply elem_of_list_fmap in Hin as ([v [j' bits]]&->&Hin). by exists v, bits.
Qed.
Lemma dw_bits_nodup v j bits : (v, (j, bits)) ∈ dvars → NoDup bits.
Proof. apply b2v_bits_nodup, Hdw. Qed.
Lemma dw_owner b v1 v2 : (b, v1) ∈ b2v dvars → (b, v2) ∈ b2v dvars → v1 = v2.
Proof.
  intros H1 H2.
  by pose proof (NoDup_fmap_inj_elem fst (b2v dvars) _ _ (dw_bits _ _ Hdw) H1 H2 eq_refl) as [= ->].
Qed.

Lemma bits_at_Some j bits : bits_at dvars j = Some bits ↔ ∃ v, (v, (j, bits)) ∈ dvars.
Proof.
  unfold bits_at. split.
  - destruct (list_find _ dvars) as [[i [v [l bits']]]|] eqn:E; [|done]. intros [= ->].
    apply list_find_Some in E as (Hi&Hl&_). apply bool_decide_unpack in Hl. subst l.
    exists v. by eapply elem_of_list_lookup_2.
  - intros [v Hin].
    destruct (list_find (fun '(_, (l, _)) => bool_decide (l = j)) dvars)
      as [[i [v' [l bits']]]|] eqn:E.
    + apply list_find_Some in E as (Hi&Hl&_). apply bool_decide_unpack in Hl. subst l.
      apply elem_of_list_lookup_2 in Hi. by destruct (dw_level_inj _ _ _ _ _ Hi Hin) as [_ ->].
    + exfalso. apply list_find_None in E. rewrite Forall_forall in E.
      apply (E _ Hin). cbn. by apply bool_decide_pack.
Qed.

Definition bio : list (list nat) := omap (bits_at dvars) (seq 0 (length dvars)).

Lemma bio_lookup j bits : bio !! j = Some bits ↔ ∃ v, (v, (j, bits)) ∈ dvars.
Proof.
  assert (E : bio = (fun j => default [] (bits_at dvars j)) <$> seq 0 (length dvars)).
  { unfold bio. apply omap_all_Some. intros x Hx%elem_of_seq.
    destruct (dw_level_ex x ltac:(lia)) as (v&bits'&Hin).
    by rewrite (proj2 (bits_at_Some x bits') (ex_intro _ v Hin)). }
  rewrite E, list_lookup_fmap. split.
  - destruct (seq 0 (length dvars) !! j) as [j'|] eqn:Ej; [|done].
    apply lookup_seq in Ej as [-> Hj]. cbn. intros [= <-].
    destruct (dw_level_ex j Hj) as (v&bits'&Hin).
    rewrite (proj2 (bits_at_Some j bits') (ex_intro _ v Hin)). by exists v.
  - intros [v Hin]. pose proof (dw_level_lt _ _ _ Hin) as Hj.
    rewrite (proj2 (lookup_seq 0 (length dvars) j j) (conj eq_refl Hj)). cbn.
    by rewrite (proj2 (bits_at_Some j bits) (ex_intro _ v Hin)).
Qed.

Lemma target_elem b : b ∈ b2m_target dvars ↔ b ∈ (b2v dvars).*1.
Proof.
  unfold b2m_target. fold bio. rewrite elem_of_list_In, in_concat. split.
  - intros (blk&Hblk&Hb). apply elem_of_list_In, elem_of_list_lookup in Hblk as [j Hj].
    apply bio_lookup in Hj as [v Hin]. apply elem_of_list_fmap. exists (b, v). split; [done|].
    apply b2v_elem. exists j, blk. split; [done|]. by apply elem_of_list_In.
  - intros ([b' v]&->&Hin)%elem_of_list_fmap. apply b2v_elem in Hin as (j&bits&Hin&Hb).
    exists bits. split; [|by apply elem_of_list_In].
    apply elem_of_list_In, elem_of_list_lookup. exists j. apply bio_lookup. by exists v.
Qed.
End dwf.

(** *** lists of blocks *)
Lemma NoDup_concat {A} (L : list (list A)) :
  (∀ j blk, L !! j = Some blk → NoDup blk) →
  (∀ j j' blk blk' x, L !! j = Some blk → L !! j' = Some blk' → x ∈ blk → x ∈ blk' → j = j') →
  NoDup (concat L).
Proof.
  induction L as [|blk0 L IH]; intros H1 H2; [constructor|]. cbn [concat].
  apply NoDup_app. split_and!.
  - by apply (H1 0).
  - intros x Hx Hx'. apply elem_of_list_In, in_concat in Hx' as (blk&Hblk&Hxb).
    apply elem_of_list_In, elem_of_list_lookup in Hblk as [j Hj].
    by pose proof (H2 0 (S j) blk0 blk x eq_refl Hj Hx ltac:(by apply elem_of_list_In)).
  - apply IH.
    + intros j blk Hj. by apply (H1 (S j)).
    + intros j j' blk blk' x Hj Hj' Hx Hx'.
      by pose proof (H2 (S j) (S j') blk blk' x Hj Hj' Hx Hx') as [= ->].
Qed.

Lemma concat_mono {A} (L : list (list A)) : ∀ l l' b b' j j' blk blk',
  NoDup (concat L) → l ≤ l' →
  concat L !! l = Some b → concat L !! l' = Some b' →
  L !! j = Some blk → b ∈ blk → L !! j' = Some blk' → b' ∈ blk' → j ≤ j'.
Proof.
  induction L as [|blk0 L IH]; intros l l' b b' j j' blk blk' Hnd Hle Hl Hl' Hj Hb Hj' Hb'; [done|].
  cbn [concat] in *. apply NoDup_app in Hnd as (Hnd0&Hdisj&Hnd').
  assert (Hin : ∀ (i : nat) x, L !! i = Some x → ∀ y, y ∈ x → y ∈ concat L).
  { intros i x Hi y Hy. apply elem_of_list_In, in_concat. exists x.
    split; apply elem_of_list_In; [by eapply elem_of_list_lookup_2|done]. }
  (* position of an element of the tail *)
  assert (Htail : ∀ k y, (blk0 ++ concat L) !! k = Some y → y ∈ concat L → length blk0 ≤ k).
  { intros k y Hk Hy. destruct (decide (k < length blk0)) as [Hlt|]; [|lia]. exfalso.
    rewrite lookup_app_l in Hk by done. apply (Hdisj y); [by eapply elem_of_list_lookup_2|done]. }
  destruct j as [|j]; [lia|]. cbn in Hj.
  pose proof (Htail l b Hl (Hin _ _ Hj _ Hb)) as Hlk.
  destruct j' as [|j'].
  - exfalso. injection Hj' as <-.
    destruct (decide (l' < length blk0)) as [Hlt|Hge]; [lia|].
    rewrite lookup_app_r in Hl' by lia.
    apply (Hdisj b'); [done|by eapply elem_of_list_lookup_2].
  - cbn in Hj'. pose proof (Htail l' b' Hl' (Hin _ _ Hj' _ Hb')) as Hlk'.
    rewrite lookup_app_r in Hl, Hl' by lia.
    assert (j ≤ j'); [|lia].
    apply (IH (l - length blk0) (l' - length blk0) b b' j j' blk blk'); try done. lia.
Qed.

Lemma imap_index_lookup (l : list nat) b k : NoDup l →
  (list_to_map (imap (fun k b => (b, k)) l) : gmap nat nat) !! b = Some k ↔ l !! k = Some b.
Proof.
  intros Hnd.
  assert (Hfst : (imap (fun k b => (b, k)) l).*1 = l).
  { apply list_eq. intros i. rewrite list_lookup_fmap, list_lookup_imap. by destruct (l !! i). }
  rewrite <- elem_of_list_to_map by (by rewrite Hfst).
  rewrite elem_of_lookup_imap. split.
  - by intros (i&y&[= -> ->]&Hi).
  - intros Hk. by exists k, b.
Qed.

Section link.
Context (dvars : dvars_t).

Lemma target_nodup s : dvars_wf dvars s → NoDup (b2m_target dvars).
Proof.
  intros Hdw. unfold b2m_target. fold (bio dvars). apply NoDup_concat.
  - intros j blk [v Hin]%(bio_lookup dvars s Hdw). by apply (dw_bits_nodup dvars s Hdw v j).
  - intros j j' blk blk' x [v Hin]%(bio_lookup dvars s Hdw) [v' Hin']%(bio_lookup dvars s Hdw) Hx Hx'.
    assert (v = v') as <-.
    { apply (dw_owner dvars s Hdw x); apply b2v_elem; eauto. }
    by destruct (dw_name_inj dvars s Hdw _ _ _ _ _ Hin Hin').
Qed.

Lemma target_length s : dvars_wf dvars s → length (b2m_target dvars) = nvars s.
Proof.
  intros Hdw. unfold nvars. rewrite <- size_dom.
  rewrite <- (size_list_to_set (C := gset nat)) by (by apply (target_nodup s)).
  f_equal. apply stdpp.sets.set_eq. intros b.
  rewrite elem_of_list_to_set, (target_elem dvars s Hdw), (dw_decl _ _ Hdw), elem_of_dom. done.
Qed.

(** the integer level of a BDD level, when the variables are in the target order *)
Lemma ilvl_target s l b j v bits : dvars_wf dvars s → Inv s →
  vars s = list_to_map (b2m_b2s dvars) →
  b2m_target dvars !! l = Some b → (v, (j, bits)) ∈ dvars → b ∈ bits →
  ilvl dvars s l = j.
Proof.
  intros Hdw HI Hv Hl Hin Hb. unfold ilvl.
  assert (lvl2var s !! l = Some b) as ->.
  { apply (inv_vars _ HI). rewrite Hv. apply imap_index_lookup; [by apply (target_nodup s)|done]. }
  rewrite assoc_alist, (alist_get_nodup _ b v (dw_bits _ _ Hdw)) by (apply b2v_elem; eauto).
  by rewrite assoc_alist, (alist_get_nodup _ v (j, bits) (dw_names _ _ Hdw) Hin).
Qed.

Lemma b2m_wf_target s : dvars_wf dvars s → Inv s →
  vars s = list_to_map (b2m_b2s dvars) → b2m_wf dvars s.
Proof.
  intros Hdw HI Hv. split.
  - split; [|split].
    + rewrite map_fst_mdd. apply Hdw.
    + intros v1 v2 l n1 n2 H1 H2.
      apply elem_of_list_In, in_map_iff in H1 as ([v1' [l1 b1]]&[= -> -> _]&H1).
      apply elem_of_list_In, in_map_iff in H2 as ([v2' [l2 b2]]&[= -> -> _]&H2).
      apply elem_of_list_In in H1, H2. by destruct (dw_level_inj dvars s Hdw _ _ _ _ _ H1 H2).
    + intros l Hl. rewrite map_length in Hl.
      destruct (dw_level_ex dvars s Hdw l Hl) as (v&bits&Hin). exists v, (2 ^ length bits).
      apply elem_of_list_In, in_map_iff. exists (v, (l, bits)). split; [done|]. by apply elem_of_list_In.
  - apply (dw_level_lt dvars s Hdw).
  - apply (dw_bits_nodup dvars s Hdw).
  - apply (dw_owner dvars s Hdw).
  - intros l l' Hle Hl'. rewrite <- (target_length s Hdw) in Hl'.
    destruct (lookup_lt_is_Some_2 (b2m_target dvars) l ltac:(lia)) as [b Hb].
    destruct (lookup_lt_is_Some_2 (b2m_target dvars) l' Hl') as [b' Hb'].
    assert (Hblk : ∀ k x, b2m_target dvars !! k = Some x →
              ∃ j v bits, bio dvars !! j = Some bits ∧ (v, (j, bits)) ∈ dvars ∧ x ∈ bits).
    { intros k x Hk. apply elem_of_list_lookup_2, elem_of_list_In, in_concat in Hk as (blk&Hblk&Hx).
      apply elem_of_list_In, elem_of_list_lookup in Hblk as [j Hj].
      pose proof Hj as [v Hin]%(bio_lookup dvars s Hdw). exists j, v, blk.
      split_and!; try done. by apply elem_of_list_In. }
    destruct (Hblk _ _ Hb) as (j&v&bits&Hj&Hin&Hbb).
    destruct (Hblk _ _ Hb') as (j'&v'&bits'&Hj'&Hin'&Hbb').
    rewrite (ilvl_target s l b j v bits), (ilvl_target s l' b' j' v' bits') by done.
    apply (concat_mono (bio dvars) l l' b b' j j' bits bits'); try done.
    apply (target_nodup s Hdw).
Qed.
End link.

Lemma b2s_fst dvars : (b2m_b2s dvars).*1 = b2m_target dvars.
Proof.
  unfold b2m_b2s. apply list_eq. intros i. rewrite list_lookup_fmap, list_lookup_imap.
  by destruct (b2m_target dvars !! i).
Qed.

Lemma dvars_wf_vars dvars s s' : dom (vars s') = dom (vars s) → dvars_wf dvars s → dvars_wf dvars s'.
Proof.
  intros E [H1 H2 H3 H4]. split; try done. intros b. rewrite H4, <- !elem_of_dom. by rewrite E.
Qed.

(** the state after [collect_garbage ;;; reorder(order)] satisfies the
    hypotheses of the conversion proper; held nodes keep their functions *)
Theorem b2m_prefix_link dvars s L :
  Inv s → Counts s L → last_len s = None → max_nodes s = None → tape s = [] →
  (∀ u, u ∈ roots s → held L u) → dvars_wf dvars s →
  ∃ s1 s2, collect_garbage None s = (Ok tt, s1) ∧
    reorder (Some (list_to_map (b2m_b2s dvars))) s1 = (Ok tt, s2) ∧
    Inv s2 ∧ Counts s2 L ∧ last_len s2 = None ∧ tape s2 = [] ∧ nozero s2 ∧
    keepsH L s s2 ∧ vars s2 = list_to_map (b2m_b2s dvars) ∧
    dvars_wf dvars s2 ∧ b2m_wf dvars s2.
Proof.
  intros HI HC Hoff Hmx Ht Hroots Hdw.
  destruct (collect_garbage None s) as [rg s1] eqn:Eg.
  pose proof (gc_nozero s L rg s1 HI HC Eg) as Hnz1.
  destruct (nt_collect_garbage None s rg s1 Ht Eg) as [Ht1 _].
  pose proof Eg as Eg'.
  apply (gc_safe None s L) in Eg' as (->&HI1&HC1&_&Ev1&El1&Hfr1&_&_); [|done|done|done].
  assert (HK1 : keepsH L s s1).
  { intros u Hh. pose proof (held_valid L s u HI HC Hh) as Hvu.
    destruct Hh as [Hu0 Hh].
    destruct (gc_preserves_den None s L (Ok tt) s1 u HI HC I Eg Hu0) as (Hv1&_&HD).
    { destruct Hh as [|Hh]; [by left|right]. apply reach_root; [done|].
      apply elem_of_dom, Hvu. }
    split_and!; try done. intros ρ. unfold denv. by rewrite El1, HD. }
  assert (Hdw1 : dvars_wf dvars s1) by (apply (dvars_wf_vars dvars s); [by rewrite Ev1|done]).
  set (order := list_to_map (b2m_b2s dvars) : gmap nat nat).
  assert (Hoff1 : last_len s1 = None) by (destruct Hfr1 as (E&_); by rewrite E).
  assert (Hmx1 : max_nodes s1 = None) by (by rewrite (frame_max_nodes _ _ Hfr1)).
  assert (Hroots1 : ∀ u, u ∈ roots s1 → held L u).
  { destruct Hfr1 as (_&_&E&_). rewrite E. done. }
  pose proof (target_nodup dvars s1 Hdw1) as Hnd.
  assert (Hord : ∀ b k, order !! b = Some k ↔ b2m_target dvars !! k = Some b).
  { intros b k. by apply imap_index_lookup. }
  destruct (reorder (Some order) s1) as [r s2] eqn:Er.
  destruct (nt_reorder (Some order) s1 r s2 Ht1 Er) as [Ht2 Hne].
  destruct (nft_reorder (Some order) s1 r s2 Hmx1 Er) as [_ Hnr].
  pose proof Er as Er0. cbn [reorder] in Er.
  destruct (sort_to_order_correct order s1 L r s2 ltac:(by split_and!))
    as [?|[?|(->&HStp&Ev2&_)]]; [| | | |exact Er|done|done|].
  - apply stdpp.sets.set_eq. intros b. unfold order. rewrite dom_list_to_map_L, elem_of_list_to_set.
    rewrite b2s_fst, (target_elem dvars s1 Hdw1), (dw_decl _ _ Hdw1), elem_of_dom. done.
  - intros v v' l Hv Hv'. apply Hord in Hv, Hv'. congruence.
  - intros v l Hv. apply Hord in Hv. rewrite <- (target_length dvars s1 Hdw1).
    by eapply lookup_lt_Some.
  - done.
  - destruct HStp as ((HI2&HC2&Hoff2)&Hnv2&HK2&Hnz2).
    exists s1, s2. split; [done|]. split; [done|].
    assert (Hdw2 : dvars_wf dvars s2).
    { apply (dvars_wf_vars dvars s1); [|done]. rewrite Ev2.
      apply stdpp.sets.set_eq. intros b. unfold order. rewrite dom_list_to_map_L, elem_of_list_to_set.
      rewrite b2s_fst, (target_elem dvars s1 Hdw1), (dw_decl _ _ Hdw1), elem_of_dom. done. }
    split_and!; try done.
    + by apply Hnz2.
    + intros u Hh. destruct (HK1 u Hh) as (?&?&HD1). destruct (HK2 u Hh) as (_&?&HD2).
      split_and!; try done. intros ρ. by rewrite HD2, HD1.
    + by apply b2m_wf_target.
Qed.

(** ** (b) Totality of the conversion proper *)

(** *** predecessors *)
Definition b2m_preds (s : st) (u : positive) : list positive :=
  omap (M:=list) (fun pt : positive * triple =>
    if bool_decide (pt.1 ≠ 1%positive ∧ (absn (t_lo pt.2) = u ∨ absn (t_hi pt.2) = u))
    then Some pt.1 else None) (map_to_list (succ s)).

Lemma elem_of_preds s u w :
  w ∈ b2m_preds s u ↔ ∃ tw, succ s !! w = Some tw ∧ w ≠ 1%positive ∧
                            (absn (t_lo tw) = u ∨ absn (t_hi tw) = u).
Proof.
  unfold b2m_preds. rewrite elem_of_list_omap. split.
  - intros ([w' tw]&Hin&Hf). apply elem_of_map_to_list in Hin. cbn in Hf.
    case_bool_decide as Hc; [|done]. injection Hf as ->. by exists tw.
  - intros (tw&Hw&Hw1&Hc). exists (w, tw). split; [by apply elem_of_map_to_list|].
    cbn. by rewrite bool_decide_eq_true_2.
Qed.

Lemma remove_dups_length_le {A} `{EqDecision A} (l : list A) : length (remove_dups l) ≤ length l.
Proof. induction l as [|x l IH]; cbn; [done|]. case_match; cbn; lia. Qed.

Lemma preds_list_le (l : list (positive * triple)) u :
  (∀ pt, pt ∈ l → pt.1 ≠ 1%positive → t_lo pt.2 ≠ 0%Z ∧ t_hi pt.2 ≠ 0%Z) →
  length (omap (M:=list) (fun pt : positive * triple =>
    if bool_decide (pt.1 ≠ 1%positive ∧ (absn (t_lo pt.2) = u ∨ absn (t_hi pt.2) = u))
    then Some pt.1 else None) l)
  ≤ foldr (uncurry (fun (_ : positive) t acc => edges_to t u + acc)) 0 l.
Proof.
  induction l as [|[k t] l IH]; intros Hall; [done|].
  assert (IH' := IH ltac:(intros; apply Hall; [by right|done])).
  cbn. case_bool_decide as Hc; cbn; [|cbn in IH'; lia].
  cbn in IH'.
  destruct Hc as [Hk Hc]. destruct (Hall (k, t) ltac:(left) Hk) as [Hl0 Hh0]. cbn in Hl0, Hh0.
  assert (0 < edges_to t u); [|lia].
  destruct Hc as [<-|<-]; [by apply edges_to_lo|by apply edges_to_hi].
Qed.

Lemma preds_le_indeg s u : Inv s →
  length (remove_dups (b2m_preds s u)) ≤ indeg (succ s) u.
Proof.
  intros HI. etrans; [apply remove_dups_length_le|].
  apply (preds_list_le (map_to_list (succ s)) u).
  intros [k t] Hin%elem_of_map_to_list Hk. cbn [fst snd] in *.
  destruct (inv_node _ HI _ _ Hin Hk) as (_&Hvl&Hhp&_). split; [apply Hvl|lia].
Qed.

Lemma preds_of_indeg s u : Inv s → 0 < indeg (succ s) u → ∃ w, w ∈ b2m_preds s u.
Proof.
  intros HI Hi. destruct (indeg_pos _ _ Hi) as (k&t&Hk&He).
  destruct (Inv_edges_dom s k t u HI Hk He) as [_ Hk1].
  exists k. apply elem_of_preds. exists t. split_and!; try done.
  destruct (edges_to_cases _ _ He) as [[_ ?]|[_ ?]]; auto.
Qed.

Lemma foldr_min_le l ls x : x ∈ l :: ls → foldr Nat.min l ls ≤ x.
Proof.
  revert x. induction ls as [|y ls IH]; intros x Hx; cbn.
  - by apply elem_of_list_singleton in Hx as ->.
  - assert (Hx' : x = y ∨ x ∈ l :: ls).
    { apply elem_of_cons in Hx as [->|Hx]; [right; left|].
      apply elem_of_cons in Hx as [->|Hx]; [by left|right; by right]. }
    destruct Hx' as [->|Hx']; [lia|]. pose proof (IH x Hx'). lia.
Qed.

Definition keep_body (dvars : dvars_t) (b2s : list (nat * nat)) (s : st) :
    gset positive → positive * triple → MS (gset positive) :=
  fun (keep : gset positive) '(u, t) =>
      let p := b2m_preds s u in
      rc <- ref (Z.pos u) ;;
      if decide (length (remove_dups p) < rc) then ret (keep ∪ {[u]}) else
      bit <- var_at_level (t_lvl t) ;;
      var <- of_opt EKey (Mdd.assoc (b2v dvars) bit) ;;
      bits <- of_opt EKey (option_map snd (Mdd.assoc dvars var)) ;;
      lsb <- of_opt EKey (head bits) ;;
      min_level <- of_opt EKey (Mdd.assoc b2s lsb) ;;
      match List.map (fun q => lvl_of s (Z.pos q)) p with
      | [] => raise EValue
      | l :: ls =>
          if decide (foldr Nat.min l ls < min_level) then ret (keep ∪ {[u]}) else ret keep
      end.
Lemma b2m_keep_eq dvars b2s s :
  b2m_keep dvars b2s s = foldM (keep_body dvars b2s s) ∅ (map_to_list (succ s)).
Proof. reflexivity. Qed.

Section total.
Context (dvars : dvars_t) (s : st) (L : positive → nat).
Context (HI : Inv s) (HC : Counts s L) (Hoff : last_len s = None) (Hnz : nozero s).
Context (HL1 : 0 < L 1%positive).
Context (Hdw : dvars_wf dvars s) (Hv : vars s = list_to_map (b2m_b2s dvars)).
Context (Hwf : b2m_wf dvars s).

Lemma node_var u t : succ s !! u = Some t → u ≠ 1%positive →
  ∃ bit var j bits, lvl2var s !! t_lvl t = Some bit ∧
    Mdd.assoc (b2v dvars) bit = Some var ∧ Mdd.assoc dvars var = Some (j, bits) ∧
    (var, (j, bits)) ∈ dvars ∧ bit ∈ bits ∧ ilvl dvars s (t_lvl t) = j.
Proof.
  intros Hu Hu1. destruct (inv_node _ HI _ _ Hu Hu1) as (Hlt&_).
  apply (inv_lvls _ HI) in Hlt as [bit Hbit].
  assert (bit ∈ (b2v dvars).*1) as Hb.
  { apply (dw_decl _ _ Hdw). exists (t_lvl t). by apply (inv_vars _ HI). }
  apply elem_of_list_fmap in Hb as ([bit' var]&->&Hb). cbn in Hbit.
  pose proof Hb as (j&bits&Hin&Hbb)%b2v_elem.
  exists bit', var, j, bits. split_and!; try done.
  - by apply (b2v_assoc dvars s Hwf).
  - by apply (dvars_assoc dvars s Hwf).
  - by apply (ilvl_bit dvars s Hwf (t_lvl t) bit' var j bits).
Qed.

Lemma zone_min var j bits bit : (var, (j, bits)) ∈ dvars → bit ∈ bits →
  ∃ lsb ml, head bits = Some lsb ∧ Mdd.assoc (b2m_b2s dvars) lsb = Some ml ∧
            ilvl dvars s ml = j ∧ ml < nvars s.
Proof.
  intros Hin Hb. destruct bits as [|lsb bits']; [by apply elem_of_nil in Hb|].
  assert (lsb ∈ b2m_target dvars) as [ml Hml]%elem_of_list_lookup.
  { apply (target_elem dvars s Hdw). apply elem_of_list_fmap. exists (lsb, var). split; [done|].
    apply b2v_elem. exists j, (lsb :: bits'). split; [done|left]. }
  exists lsb, ml. split_and!; [done| | |].
  - rewrite assoc_alist. apply alist_get_nodup.
    + rewrite b2s_fst. apply (target_nodup dvars s Hdw).
    + unfold b2m_b2s. apply elem_of_lookup_imap. by exists ml, lsb.
  - apply (ilvl_target dvars s ml lsb j var (lsb :: bits') Hdw HI Hv Hml Hin). left.
  - rewrite <- (target_length dvars s Hdw). by eapply lookup_lt_Some.
Qed.

Lemma ref_node u t : succ s !! u = Some t →
  ref (Z.pos u) s = (Ok (indeg (succ s) u + L u), s).
Proof.
  intros Hu. unfold ref. rewrite decide_False by done. rewrite absn_pos.
  apply getref_ok. apply HC. apply elem_of_dom. by eexists.
Qed.

(** the selection loop never fails; it selects the held nodes and the nodes
    that have a parent in a zone above their own *)
Lemma keep_fold l : (∀ x, x ∈ l → x ∈ map_to_list (succ s)) → ∀ acc : gset positive,
  ∃ K : gset positive, foldM (keep_body dvars (b2m_b2s dvars) s) acc l s = (Ok K, s) ∧
    acc ⊆ K ∧
    ∀ u t, (u, t) ∈ l →
      (0 < L u → u ∈ K) ∧
      (∀ w tw, succ s !! w = Some tw → w ≠ 1%positive →
         (absn (t_lo tw) = u ∨ absn (t_hi tw) = u) →
         ilvl dvars s (t_lvl tw) < ilvl dvars s (t_lvl t) → u ∈ K).
Proof.
  induction l as [|[u t] l IH]; intros Hl acc.
  { exists acc. split; [done|]. split; [done|]. intros u t Hin. by apply elem_of_nil in Hin. }
  pose proof (Hl _ ltac:(left)) as Hu%elem_of_map_to_list.
  assert (Hstep : ∃ K1 : gset positive, keep_body dvars (b2m_b2s dvars) s acc (u, t) s = (Ok K1, s) ∧
            acc ⊆ K1 ∧ (0 < L u → u ∈ K1) ∧
            (∀ w tw, succ s !! w = Some tw → w ≠ 1%positive →
               (absn (t_lo tw) = u ∨ absn (t_hi tw) = u) →
               ilvl dvars s (t_lvl tw) < ilvl dvars s (t_lvl t) → u ∈ K1)).
  { unfold keep_body. cbv zeta. rewrite (bind_ok _ _ _ _ _ (ref_node u t Hu)).
    pose proof (preds_le_indeg s u HI) as Hle.
    destruct (decide (length (remove_dups (b2m_preds s u)) < indeg (succ s) u + L u)) as [Hlt|Hge].
    { exists (acc ∪ {[u]}). split; [done|]. split; [set_solver|]. split; intros; set_solver. }
    assert (HLu : L u = 0) by lia.
    assert (Hu1 : u ≠ 1%positive) by (intros ->; lia).
    destruct (node_var u t Hu Hu1) as (bit&var&j&bits&Hbit&Hvar0&Hvar1&Hin&Hbb&Hil).
    assert (Hvl : var_at_level (t_lvl t) s = (Ok bit, s))
      by (unfold var_at_level; cbn [bind get]; by rewrite Hbit).
    rewrite (bind_ok _ _ _ _ _ Hvl). rewrite Hvar0. rewrite (bind_ok _ _ s var s) by done.
    rewrite Hvar1. cbn [option_map snd]. rewrite (bind_ok _ _ s bits s) by done.
    destruct (zone_min var j bits bit Hin Hbb) as (lsb&ml&Hhead&Hml&Hilm&Hmlt).
    rewrite Hhead. rewrite (bind_ok _ _ s lsb s) by done.
    rewrite Hml. rewrite (bind_ok _ _ s ml s) by done.
    (* there is a predecessor *)
    assert (0 < indeg (succ s) u) as Hind.
    { assert (Hud : u ∈ dom (succ s)) by (apply elem_of_dom; by eexists).
      pose proof (Hnz u Hud Hu1) as Hr. destruct HC as [HC1 _]. rewrite (HC1 u Hud), HLu in Hr.
      destruct (indeg (succ s) u); [|lia]. by destruct Hr. }
    destruct (preds_of_indeg s u HI Hind) as [w0 Hw0].
    destruct (List.map (fun q => lvl_of s (Z.pos q)) (b2m_preds s u)) as [|l0 ls] eqn:Emap.
    { destruct (b2m_preds s u); [by apply elem_of_nil in Hw0|done]. }
    destruct (decide (foldr Nat.min l0 ls < ml)) as [Hmin|Hmin].
    - exists (acc ∪ {[u]}). split; [done|]. split; [set_solver|]. split; intros; set_solver.
    - exists acc. split; [done|]. split; [done|]. split; [lia|].
      intros w tw Hw Hw1 Hch Hil'. exfalso. apply Hmin.
      assert (w ∈ b2m_preds s u) as Hwp by (apply elem_of_preds; by exists tw).
      assert (lvl_of s (Z.pos w) ∈ l0 :: ls) as Hlw.
      { rewrite <- Emap. apply elem_of_list_In.
        apply (in_map (fun q => lvl_of s (Z.pos q))). by apply elem_of_list_In. }
      pose proof (foldr_min_le l0 ls _ Hlw) as Hle'.
      assert (lvl_of s (Z.pos w) = t_lvl tw) as Elw by (unfold lvl_of; by rewrite absn_pos, Hw).
      assert (t_lvl tw < ml); [|lia].
      destruct (decide (t_lvl tw < ml)) as [|Hnlt]; [done|]. exfalso.
      destruct (inv_node _ HI _ _ Hw Hw1) as (Hlw'&_).
      pose proof (bw_mono _ _ Hwf ml (t_lvl tw) ltac:(lia) Hlw'). lia. }
  destruct Hstep as (K1&E1&Hsub1&Hh1&Hp1).
  destruct (IH ltac:(intros; apply Hl; by right) K1) as (K&EK&HsubK&HK).
  exists K. split; [cbn [foldM]; by rewrite (bind_ok _ _ _ _ _ E1)|]. split; [set_solver|].
  intros u' t' Hin. apply elem_of_cons in Hin as [[= -> ->]|Hin]; [|by apply HK].
  split; [intros; apply HsubK; auto|]. intros w tw Hw Hw1 Hch Hil. apply HsubK. by eapply Hp1.
Qed.

Lemma keep_total : ∃ K : gset positive,
  b2m_keep dvars (b2m_b2s dvars) s s = (Ok K, s) ∧
  ∀ u t, succ s !! u = Some t →
    (0 < L u → u ∈ K) ∧
    (∀ w tw, succ s !! w = Some tw → w ≠ 1%positive →
       (absn (t_lo tw) = u ∨ absn (t_hi tw) = u) →
       ilvl dvars s (t_lvl tw) < ilvl dvars s (t_lvl t) → u ∈ K).
Proof.
  rewrite b2m_keep_eq. destruct (keep_fold (map_to_list (succ s)) ltac:(done) ∅) as (K&EK&_&HK).
  exists K. split; [done|]. intros u t Hu. apply HK. by apply elem_of_map_to_list.
Qed.
End total.

Section total2.
Context (dvars : dvars_t) (s : st) (L : positive → nat).
Context (HI : Inv s) (HC : Counts s L) (Hoff : last_len s = None) (Hnz : nozero s).
Context (HL1 : 0 < L 1%positive).
Context (Hdw : dvars_wf dvars s) (Hv : vars s = list_to_map (b2m_b2s dvars)).
Context (Hwf : b2m_wf dvars s).
Context (K : gset positive).
Context (HK : ∀ u t, succ s !! u = Some t →
    (∀ w tw, succ s !! w = Some tw → w ≠ 1%positive →
       (absn (t_lo tw) = u ∨ absn (t_hi tw) = u) →
       ilvl dvars s (t_lvl tw) < ilvl dvars s (t_lvl t) → u ∈ K)).

(** the levels assigned by one dict of [_enumerate_integer bits] *)
Lemma zone_dict var j bits d : (var, (j, bits)) ∈ dvars → d.*1 = bits →
  ∃ lv : gmap nat bool,
    map_to_level_dict true d (s <| rctx := true |>) = (Ok lv, s <| rctx := true |>) ∧
    ∀ l, is_Some (lv !! l) ↔ l < nvars s ∧ ilvl dvars s l = j.
Proof.
  intros Hin Hd.
  destruct (mtld_name_ok (s <| rctx := true |>) d) as [lv Hlv].
  { intros key b Hkb. change (vars (s <| rctx := true |>)) with (vars s).
    apply (dw_decl _ _ Hdw). apply elem_of_list_fmap. exists (key, var). split; [done|].
    apply b2v_elem. exists j, bits. split; [done|]. rewrite <- Hd. apply elem_of_list_fmap.
    by exists (key, b). }
  exists lv. split; [done|].
  pose proof (mtld_name_inv _ _ _ _ Hlv) as [Hlv1 Hlv2].
  change (vars (s <| rctx := true |>)) with (vars s) in Hlv1, Hlv2.
  intros l. split.
  - intros [b Hb]. destruct (Hlv1 l b Hb) as (key&Hkd&Hkl).
    apply (inv_vars _ HI) in Hkl. split; [apply (inv_lvls _ HI); by eexists|].
    apply (ilvl_bit dvars s Hwf l key var j bits); [done|done|].
    rewrite <- Hd. apply elem_of_list_fmap. by exists (key, b).
  - intros [Hl Hil].
    destruct (ilvl_inv dvars s Hwf l j Hil (bw_lt _ _ Hwf var j bits Hin)) as (b'&v'&bits'&Hb'&Hv'&Hin').
    destruct (dw_level_inj dvars s Hdw _ _ _ _ _ Hv' Hin) as [-> ->].
    assert (b' ∈ d.*1) as ([key bv]&->&Hkd)%elem_of_list_fmap by (by rewrite Hd).
    destruct (Hlv2 key bv Hkd) as (l'&Hl'&Hs). cbn in Hb'.
    apply (inv_vars _ HI) in Hb'. by assert (l' = l) as -> by congruence.
Qed.

(** the cofactors of a node by every value of its integer variable: they
    succeed, leave the manager unchanged, and reach selected nodes below *)
Lemma zone_cofactors u t bit var j bits :
  succ s !! u = Some t → u ≠ 1%positive → lvl2var s !! t_lvl t = Some bit →
  (var, (j, bits)) ∈ dvars → bit ∈ bits →
  ∀ ds, (∀ d, d ∈ ds → d.*1 = bits) →
  ∃ zs, mapM (fun d => cofactor (Z.pos u) true d) ds s = (Ok zs, s) ∧
    ∀ z, z ∈ zs → z ≠ 0%Z ∧
      (absn z = 1%positive ∨
       ∃ tz, succ s !! absn z = Some tz ∧ absn z ≠ 1%positive ∧
             t_lvl t < t_lvl tz ∧ absn z ∈ K).
Proof.
  intros Hu Hu1 Hbit Hin Hbb.
  assert (Hvu : valid s (Z.pos u)) by (split; [done|]; rewrite absn_pos; by eexists).
  assert (Hlu : lvl_of s (Z.pos u) = t_lvl t) by (unfold lvl_of; by rewrite absn_pos, Hu).
  assert (Hilu : ilvl dvars s (t_lvl t) = j) by (by apply (ilvl_bit dvars s Hwf _ bit var j bits)).
  destruct (inv_node _ HI _ _ Hu Hu1) as (Hltu&_).
  induction ds as [|d ds IH]; intros Hds.
  { exists []. split; [done|]. intros z Hz. by apply elem_of_nil in Hz. }
  destruct (zone_dict var j bits d Hin (Hds d ltac:(left))) as (lv&Hlv&Hdom).
  destruct (cofactor_zone s (Z.pos u) d lv HI Hoff Hvu Hlv) as (z&Ez&Hz).
  { intros i n Hi Hn [Hn1 Hn2]%Hdom. apply Hdom. split; [lia|]. rewrite Hlu in Hi.
    pose proof (bw_mono _ _ Hwf (t_lvl t) i Hi ltac:(lia)).
    pose proof (bw_mono _ _ Hwf i n Hn Hn1). lia. }
  { intros k Hk%Hdom. apply Hk. }
  destruct IH as (zs&Ezs&Hzs); [intros; apply Hds; by right|].
  exists (z :: zs). split.
  { cbn [mapM]. by rewrite (bind_ok _ _ _ _ _ Ez), (bind_ok _ _ _ _ _ Ezs). }
  intros z' Hz'. apply elem_of_cons in Hz' as [->|Hz']; [|by apply Hzs].
  destruct (zpath_valid s lv _ _ Hz) as [Hvz Hnone].
  split; [apply Hvz|].
  destruct (node_cases s HI z Hvz) as [[E _]|(tz&Htz&Hn1&_&Hlz&Hltz&_)]; [by left|right].
  exists tz. split; [done|]. split; [done|].
  destruct (zpath_parent s HI lv _ _ Hz) as (w&tw&Hw&Hw1&Hlw&Hsw&Hch).
  { apply Hdom. rewrite Hlu. done. }
  apply Hdom in Hsw as [Hlw' Hilw].
  assert (Hwz : t_lvl tw < t_lvl tz).
  { destruct (inv_node _ HI _ _ Hw Hw1) as (_&_&_&_&Hll&Hlh&_).
    rewrite <- Hlz. unfold lvl_of in *. destruct Hch as [E|E]; rewrite E in *; lia. }
  split; [rewrite Hlu in Hlw; lia|].
  apply (HK (absn z) tz Htz w tw Hw Hw1 Hch).
  rewrite Hilw. pose proof (bw_mono _ _ Hwf (t_lvl tw) (t_lvl tz) ltac:(lia) Hltz) as Hm.
  rewrite Hilw in Hm. destruct (decide (ilvl dvars s (t_lvl tz) = j)) as [E|]; [|lia].
  exfalso. rewrite Hlz in Hnone.
  assert (is_Some (lv !! t_lvl tz)) as [? Hs] by (apply Hdom; by split). congruence.
Qed.

Lemma int_succ_total (umap : list (positive * Z)) : ∀ zs,
  (∀ z, z ∈ zs → absn z ∈ umap.*1) →
  ∃ xs, mapM (fun z : Z => x <- of_opt EKey (Mdd.assoc umap (absn z)) ;;
                ret (if decide (0 < z)%Z then x else (- x)%Z)) zs s = (Ok xs, s).
Proof.
  set (f := fun z : Z => x <- of_opt EKey (Mdd.assoc umap (absn z)) ;;
                ret (if decide (0 < z)%Z then x else (- x)%Z)).
  induction zs as [|z zs IH]; intros Hzs; [by exists []|].
  destruct IH as [xs Hxs]; [intros; apply Hzs; by right|].
  assert (is_Some (Mdd.assoc umap (absn z))) as [x0 Hx0].
  { rewrite assoc_alist. apply alist_get_is_Some. apply Hzs. left. }
  assert (Hf : f z s = (Ok (if decide (0 < z)%Z then x0 else (- x0)%Z), s))
    by (unfold f; by rewrite Hx0).
  eexists. cbn [mapM]. rewrite (bind_ok _ _ _ _ _ Hf), (bind_ok _ _ _ _ _ Hxs). done.
Qed.

(** the order oracle accepted by the conversion *)
Context (order : list positive).
Context (Hord_nd : NoDup order).
Context (Hord_set : ∀ u, u ∈ order ↔ u ∈ dom (succ s) ∧ u ≠ 1%positive).
Context (Hord_sorted : Sorted (fun a b => lvl_of s (Z.pos b) <= lvl_of s (Z.pos a)) order).

(** one iteration never fails *)
Lemma step_total mdd umap u :
  B2M dvars s s mdd umap → mtape mdd = [] → 1%positive ∈ umap.*1 → u ∈ order →
  (∀ z tz, succ s !! z = Some tz → z ≠ 1%positive → z ∈ K →
           lvl_of s (Z.pos u) < t_lvl tz → z ∈ umap.*1) →
  ∃ mdd' umap', b2m_step dvars K (mdd, umap) u s = (Ok (mdd', umap'), s) ∧
    mtape mdd' = [] ∧ (u ∈ K → u ∈ umap'.*1) ∧ (∀ v, v ∈ umap.*1 → v ∈ umap'.*1).
Proof.
  intros HB Htape H1 Huo Hdeep. apply Hord_set in Huo as [Hud Hu1].
  apply elem_of_dom in Hud as [t Hu].
  unfold b2m_step. destruct (decide (u ∉ K)) as [Hnk|_].
  { exists mdd, umap. by split_and!. }
  destruct (node_var dvars s HI Hdw Hwf u t Hu Hu1) as (bit&var&j&bits&Hbit&Hvar0&Hvar1&Hin&Hbb&Hil).
  rewrite (bind_ok _ _ _ _ _ (getsucc_ok s u t Hu)).
  assert (Hvl : var_at_level (t_lvl t) s = (Ok bit, s))
    by (unfold var_at_level; cbn [bind get]; by rewrite Hbit).
  rewrite (bind_ok _ _ _ _ _ Hvl). rewrite Hvar0. rewrite (bind_ok _ _ s var s) by done.
  rewrite Hvar1. rewrite (bind_ok _ _ s (j, bits) s) by done.
  assert (Hlu : lvl_of s (Z.pos u) = t_lvl t) by (unfold lvl_of; by rewrite absn_pos, Hu).
  assert (Hvu : valid s (Z.pos u)) by (split; [done|]; rewrite absn_pos; by eexists).
  destruct (zone_cofactors u t bit var j bits Hu Hu1 Hbit Hin Hbb (enumerate_integer bits))
    as (zs&Ezs&Hzs).
  { intros d [k Hk]%elem_of_list_lookup. by apply (enumerate_integer_fst bits k). }
  rewrite (bind_ok _ _ _ _ _ Ezs).
  destruct (int_succ_total umap zs) as [xs Exs].
  { intros z Hz. destruct (Hzs z Hz) as [_ [->|(tz&Htz&Hz1&Hlt&HzK)]]; [done|].
    apply (Hdeep _ tz); try done. by rewrite Hlu. }
  rewrite (bind_ok _ _ _ _ _ Exs).
  (* the MDD node: the preconditions of [find_or_add] as in [b2m_step_spec] *)
  destruct (b2m_cofactors s HI u _ s zs s HI (reflexivity _) Hoff Hvu Ezs) as (_&_&_&HFz).
  destruct (b2m_int_succ umap zs s xs s Exs) as [_ HFx].
  assert (Hlen_x : length xs = 2 ^ length bits).
  { rewrite <- (Forall2_length _ _ _ HFx), <- (Forall2_length _ _ _ HFz).
    apply enumerate_integer_length. }
  assert (Hkid : ∀ k x', xs !! k = Some x' → mvalid mdd x' ∧ j < mlvl_of mdd x').
  { intros k x' Hk.
    destruct (Forall2_lookup_r _ _ _ _ _ HFx Hk) as (z&Hzk&Hzx).
    destruct (Forall2_lookup_r _ _ _ _ _ HFz Hzk) as (d&Hdk&Hvz&Hlz&Hlv).
    destruct (b2m_child dvars s HI Hwf s mdd umap s u t bit var j bits k d z x')
      as (?&?&_); try done. by rewrite <- Hlu. }
  pose proof (b_minv _ _ _ _ _ HB) as HM. pose proof (b_mext _ _ _ _ _ HB) as HMe.
  destruct (m_find_or_add j xs mdd) as [rx mdd'] eqn:Ef.
  pose proof Ef as Ef'.
  apply m_find_or_add_spec in Ef' as (_&_&Hfr&Hx); [|done| | |].
  2:{ intros ->. cbn in Hlen_x. pose proof (Nat.pow_nonzero 2 (length bits)). lia. }
  2:{ exists var. destruct HMe as [_ <-]. rewrite Hlen_x. by apply (mdd0_vars dvars s Hwf). }
  2:{ intros x' [k Hk]%elem_of_list_lookup. by apply (Hkid k). }
  destruct rx as [x|e]; [|by destruct Hx as [_ ?]].
  exists mdd', (umap ++ [(u, x)]). cbn [ret]. split_and!; [done|by apply Hfr| |].
  - intros _. rewrite fmap_app. apply elem_of_app. right. left.
  - intros v Hv'. rewrite fmap_app. apply elem_of_app. by left.
Qed.

Global Instance lvl_desc_trans : Transitive (fun a b => lvl_of s (Z.pos b) <= lvl_of s (Z.pos a)).
Proof. intros a b c. lia. Qed.

(** the whole loop *)
Lemma fold_total : ∀ R P mdd umap, order = P ++ R →
  B2M dvars s s mdd umap → mtape mdd = [] → 1%positive ∈ umap.*1 →
  (∀ v, v ∈ P → v ∈ K → v ∈ umap.*1) →
  ∃ mdd' umap', foldM (b2m_step dvars K) (mdd, umap) R s = (Ok (mdd', umap'), s) ∧
    B2M dvars s s mdd' umap' ∧ (∀ v, v ∈ order → v ∈ K → v ∈ umap'.*1) ∧
    (∀ v, v ∈ umap.*1 → v ∈ umap'.*1).
Proof.
  induction R as [|u R IH]; intros P mdd umap Eo HB Htape H1 HP.
  { exists mdd, umap. split; [done|]. split; [done|]. split; [|done]. rewrite Eo, app_nil_r. done. }
  assert (Huo : u ∈ order) by (rewrite Eo; apply elem_of_app; right; left).
  destruct (step_total mdd umap u HB Htape H1 Huo) as (mdd1&umap1&E1&Htape1&Hu1&Hmono1).
  { intros z tz Hz Hz1 HzK Hlt.
    assert (z ∈ order) as Hzo by (apply Hord_set; split; [apply elem_of_dom; by eexists|done]).
    rewrite Eo in Hzo. apply elem_of_app in Hzo as [HzP|HzR]; [by apply HP|]. exfalso.
    assert (Hss : StronglySorted (fun a b => lvl_of s (Z.pos b) <= lvl_of s (Z.pos a)) order)
      by (apply Sorted_StronglySorted; [apply lvl_desc_trans|exact Hord_sorted]).
    rewrite Eo in Hss. apply StronglySorted_app_inv_r in Hss.
    apply StronglySorted_inv in Hss as [_ Hall]. rewrite Forall_forall in Hall.
    apply elem_of_cons in HzR as [->|HzR].
    - unfold lvl_of in Hlt. rewrite absn_pos, Hz in Hlt. lia.
    - pose proof (Hall z HzR) as Hle. cbn in Hle.
      assert (lvl_of s (Z.pos z) = t_lvl tz) as E by (unfold lvl_of; by rewrite absn_pos, Hz). lia. }
  pose proof (b2m_step_spec dvars s HI Hwf K s mdd umap u _ _ HB
                (proj1 (proj1 (Hord_set u) Huo)) E1) as HB1. cbn in HB1.
  destruct (IH (P ++ [u]) mdd1 umap1) as (mdd'&umap'&E'&HB'&Hall'&Hmono'); try done.
  { by rewrite <- app_assoc. }
  { by apply Hmono1. }
  { intros v Hv' HvK. apply elem_of_app in Hv' as [Hv'|Hv'].
    - apply Hmono1. by apply HP.
    - apply elem_of_list_singleton in Hv' as ->. by apply Hu1. }
  exists mdd', umap'. split; [cbn [foldM]; by rewrite (bind_ok _ _ _ _ _ E1)|].
  split; [done|]. split; [done|]. intros v Hv'. by apply Hmono', Hmono1.
Qed.
End total2.

(** ** The conversion proper never fails *)
Definition b2m_order_ok (order : list positive) (s : st) : Prop :=
  NoDup order ∧
  (list_to_set order : gset positive) =
    list_to_set (filter (fun u => u ≠ 1%positive) (elements (dom (succ s)))) ∧
  Sorted (fun a b => lvl_of s (Z.pos b) <= lvl_of s (Z.pos a)) order.

Theorem bdd_to_mdd_tail_total dvars s L order :
  Inv s → Counts s L → last_len s = None → nozero s → 0 < L 1%positive →
  dvars_wf dvars s → vars s = list_to_map (b2m_b2s dvars) → b2m_wf dvars s →
  b2m_order_ok order s →
  ∃ mdd umap, bdd_to_mdd_tail dvars (b2m_b2s dvars) order s = (Ok (mdd, umap), s) ∧
    B2M dvars s s mdd umap ∧ ∀ u, 0 < L u → u ∈ umap.*1.
Proof.
  intros HI HC Hoff Hnz HL1 Hdw Hv Hwf Hord.
  destruct (keep_total dvars s L HI HC Hoff Hnz HL1 Hdw Hv Hwf) as (K&EK&HK).
  unfold bdd_to_mdd_tail. cbn [bind get]. rewrite (bind_ok _ _ _ _ _ EK).
  rewrite bool_decide_eq_true_2 by exact Hord. cbn [negb].
  destruct Hord as (Hnd&Hset&Hsorted).
  assert (Hoset : ∀ u, u ∈ order ↔ u ∈ dom (succ s) ∧ u ≠ 1%positive).
  { intros u. rewrite <- (elem_of_list_to_set (C := gset positive)), Hset.
    rewrite elem_of_list_to_set, elem_of_list_filter, elem_of_elements. tauto. }
  destruct (fold_total dvars s L HI Hoff HL1 Hdw Hwf K (fun u t Hu => proj2 (HK u t Hu))
              order Hoset Hsorted order [] (b2m_mdd0 dvars) [(1%positive, 1%Z)])
    as (mdd&umap&Ef&HB&Hall&Hmono); try done.
  { by apply B2M_start. }
  { cbn. left. }
  { intros v Hv'. by apply elem_of_nil in Hv'. }
  exists mdd, umap. rewrite (bind_ok _ _ _ _ _ Ef). split; [done|]. split; [done|].
  intros u Hu. destruct (decide (u = 1%positive)) as [->|Hu1].
  { apply Hmono. cbn. left. }
  assert (Hud : u ∈ dom (succ s)).
  { destruct (decide (u ∈ dom (succ s))) as [|Hn]; [done|]. destruct HC as [_ HC2].
    rewrite (HC2 u Hn) in Hu. lia. }
  apply Hall; [by apply Hoset|]. apply elem_of_dom in Hud as [t Ht]. by apply (HK u t Ht).
Qed.

(** ** The full theorem *)

(** the public entry point of [reorder] with requests disabled *)
Lemma reorder_pub_off o s : last_len s = None → reorder_pub o s = reorder o s.
Proof. intros H. unfold reorder_pub, guarded. cbn [bind get]. by rewrite H. Qed.

(** the bit assignment induced by an integer assignment, by variable NAME:
    bit [b] of the integer variable at level [j] gets the value that
    [_enumerate_integer] gives it in dict number [I j] *)
Definition bitval (dvars : dvars_t) (I : nat → nat) (b : nat) : bool :=
  match Mdd.assoc (b2v dvars) b with
  | Some var => match Mdd.assoc dvars var with
     | Some (j, bits) =>
         default false (enumerate_integer bits !! (I j) ≫= fun d => Mdd.assoc d b)
     | None => false
     end
  | None => false
  end.

Lemma D_bits_of_denv dvars s u I : D s u (bits_of dvars s I) = denv s u (bitval dvars I).
Proof. reflexivity. Qed.

(** binary digits: first listed bit least significant *)
Lemma bitval_testbit dvars s I b var j bits p :
  dvars_wf dvars s → (var, (j, bits)) ∈ dvars → bits !! p = Some b →
  I j < 2 ^ length bits → bitval dvars I b = Nat.testbit (I j) p.
Proof.
  intros Hdw Hin Hp HIj. unfold bitval.
  rewrite assoc_alist, (alist_get_nodup _ b var (dw_bits _ _ Hdw))
    by (apply b2v_elem; exists j, bits; split; [done|by eapply elem_of_list_lookup_2]).
  rewrite assoc_alist, (alist_get_nodup _ var (j, bits) (dw_names _ _ Hdw) Hin).
  destruct (lookup_lt_is_Some_2 (enumerate_integer bits) (I j)) as [d Hd];
    [by rewrite enumerate_integer_length|].
  rewrite Hd. cbn.
  by rewrite (enumerate_integer_testbit bits (I j) d p b
                (dw_bits_nodup dvars s Hdw var j bits Hin) Hd Hp).
Qed.

Theorem bdd_to_mdd_correct dvars order s L r s' :
  Inv s → Counts s L → last_len s = None → max_nodes s = None → tape s = [] →
  (∀ u, u ∈ roots s → held L u) → 0 < L 1%positive → dvars_wf dvars s →
  bdd_to_mdd dvars order s = (r, s') →
  ∃ s1 s2, collect_garbage None s = (Ok tt, s1) ∧
    reorder (Some (list_to_map (b2m_b2s dvars))) s1 = (Ok tt, s2) ∧ s' = s2 ∧
    Inv s' ∧ Counts s' L ∧ last_len s' = None ∧ tape s' = [] ∧ keepsH L s s' ∧
    ((¬ b2m_order_ok order s2 ∧ r = Err EOracle) ∨
     (b2m_order_ok order s2 ∧
      ∃ mdd umap, r = Ok (mdd, umap) ∧ MInv mdd ∧ mextends (b2m_mdd0 dvars) mdd ∧
        ∀ u, 0 < L u → ∃ x, (u, x) ∈ umap ∧ mvalid mdd x ∧
          ∀ I, minrange mdd I → MD mdd x I = denv s (Z.pos u) (bitval dvars I))).
Proof.
  intros HI HC Hoff Hmx Ht Hroots HL1 Hdw Hrun.
  destruct (b2m_prefix_link dvars s L HI HC Hoff Hmx Ht Hroots Hdw)
    as (s1&s2&Eg&Er&HI2&HC2&Hoff2&Ht2&Hnz2&HK2&Hv2&Hdw2&Hwf2).
  exists s1, s2. split; [done|]. split; [done|].
  rewrite bdd_to_mdd_unfold in Hrun. cbv zeta in Hrun.
  assert (Hbits : mapM (fun j => of_opt EKey (bits_at dvars j)) (seq 0 (length dvars)) s
                  = (Ok (omap (bits_at dvars) (seq 0 (length dvars))), s)).
  { apply mapM_of_opt. intros j Hj%elem_of_seq.
    destruct (dw_level_ex dvars s Hdw j ltac:(lia)) as (v&bits&Hin).
    rewrite (proj2 (bits_at_Some dvars s Hdw j bits) (ex_intro _ v Hin)). by eexists. }
  rewrite (bind_ok _ _ _ _ _ Hbits) in Hrun.
  change (imap (fun k b => (b, k)) (concat (omap (bits_at dvars) (seq 0 (length dvars)))))
    with (b2m_b2s dvars) in Hrun.
  assert (Hoff1 : last_len s1 = None).
  { pose proof Eg as Eg'.
    apply (gc_safe None s L) in Eg' as (_&_&_&_&_&_&(E&_)&_&_); [|done|done|done]. by rewrite E. }
  assert (Erp : reorder_pub (Some (list_to_map (b2m_b2s dvars))) s1 = (Ok tt, s2))
    by (by rewrite reorder_pub_off).
  rewrite (bind_ok _ _ _ _ _ Eg), (bind_ok _ _ _ _ _ Erp) in Hrun.
  destruct (decide (b2m_order_ok order s2)) as [Hord|Hord].
  - destruct (bdd_to_mdd_tail_total dvars s2 L order HI2 HC2 Hoff2 Hnz2 HL1 Hdw2 Hv2 Hwf2 Hord)
      as (mdd&umap&Etail&HB&Hheld).
    rewrite Etail in Hrun. injection Hrun as <- <-.
    split; [done|]. split_and!; try done. right. split; [done|].
    exists mdd, umap. split; [done|]. split; [apply HB|]. split; [apply HB|].
    intros u Hu. pose proof (Hheld u Hu) as ([u' x]&->&Hin)%elem_of_list_fmap. cbn.
    exists x. split; [done|].
    destruct (b_umap _ _ _ _ _ HB _ _ Hin) as (Hvu&Hvx&_&HD). split; [done|].
    intros I Hr. rewrite HD.
    + rewrite D_bits_of_denv. destruct (HK2 (Z.pos u')) as (_&_&Hden); [|by apply Hden].
      split; [done|]. right. by rewrite absn_pos.
    + intros v l n Hvl. apply (Hr v l n). destruct (b_mext _ _ _ _ _ HB) as [_ <-]. done.
  - unfold bdd_to_mdd_tail in Hrun. cbn [bind get] in Hrun.
    destruct (keep_total dvars s2 L HI2 HC2 Hoff2 Hnz2 HL1 Hdw2 Hv2 Hwf2) as (K&EK&_).
    rewrite (bind_ok _ _ _ _ _ EK) in Hrun.
    rewrite bool_decide_eq_false_2 in Hrun by exact Hord. cbn [negb] in Hrun.
    injection Hrun as <- <-. split; [done|]. split_and!; try done. by left.
Qed.

(** a checker for [dvars_wf] *)
Definition dvars_wf_b (dvars : dvars_t) (s : st) : bool :=
  bool_decide (NoDup (dvars.*1)) &&
  bool_decide (merge_sort le (dlevels dvars) = seq 0 (length dvars)) &&
  bool_decide (NoDup (b2v dvars).*1) &&
  bool_decide ((list_to_set (b2v dvars).*1 : gset nat) = dom (vars s)).
Lemma dvars_wf_b_sound dvars s : dvars_wf_b dvars s = true → dvars_wf dvars s.
Proof.
  unfold dvars_wf_b. intros [[[H1 H2]%andb_true_iff H3]%andb_true_iff H4]%andb_true_iff.
  apply bool_decide_eq_true in H1, H2, H3, H4. split; try done.
  - rewrite <- H2. symmetry. apply merge_sort_Permutation.
  - intros b. by rewrite <- elem_of_dom, <- H4, elem_of_list_to_set.
Qed.
