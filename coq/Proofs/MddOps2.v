(** * MddOps2: [bdd_to_mdd] — the link with [collect_garbage]/[reorder],
      totality of the conversion, and the full theorem *)
From DD Require Export MddOps Sift9.

(** ** [cofactor] by all the levels of a zone [a..b]: the result is the node
    reached by walking from [u] through the zone; nothing is created *)
Lemma drop_while_subset {A} (p : A → bool) l x : x ∈ drop_while p l → x ∈ l.
Proof.
  induction l as [|y l IH]; cbn [drop_while]; [done|].
  destruct (p y); [|done]. intros H. right. by apply IH.
Qed.
Lemma drop_while_head {A} (p : A → bool) l x l' : drop_while p l = x :: l' → p x = false.
Proof.
  induction l as [|y l IH]; cbn [drop_while]; [done|].
  destruct (p y) eqn:E; [done|]. by intros [= -> _].
Qed.

Section zone.
Context (s : st) (HI : Inv s) (values : gmap nat bool) (a b : nat).
Context (Hvals : ∀ k, is_Some (values !! k) ↔ a ≤ k ≤ b) (Hb : b < nvars s).

Inductive zpath : Z → Z → Prop :=
  | zp_stop u : valid s u → b < lvl_of s u → zpath u u
  | zp_step u t val x : valid s u → succ s !! absn u = Some t → absn u ≠ 1%positive →
      values !! t_lvl t = Some val →
      zpath (if (val : bool) then t_hi t else t_lo t) x → zpath u (flip x u).

Lemma cofactor_rec_zone fuel : ∀ u ord cache r s',
  valid s u → a ≤ lvl_of s u →
  (∀ k, k ∈ ord → is_Some (values !! k)) → Cofactor.ord_ok s u ord values →
  (∀ k x, cache !! k = Some x → zpath k x) →
  nvars s - lvl_of s u < fuel →
  cofactor_rec fuel u ord values cache s = (r, s') →
  s' = s ∧ ∃ x cache', r = Ok (x, cache') ∧ zpath u x ∧
    ∀ k y, cache' !! k = Some y → zpath k y.
Proof.
  induction fuel as [|f IH]; intros u ord cache r s' Hu Ha Hords Hord Hc Hfuel; [lia|].
  cbn [cofactor_rec].
  destruct (decide (absn u = 1%positive ∧ u ≠ 0%Z)) as [[E1 _]|Hnt].
  { intros [= <- <-]. split; [done|]. exists u, cache. split_and!; try done.
    apply zp_stop; [done|]. rewrite (lvl_term s HI u E1). done. }
  destruct (cache !! u) as [x|] eqn:Hcu.
  { intros [= <- <-]. split; [done|]. exists x, cache. split_and!; try done. by apply Hc. }
  destruct (node_cases s HI u Hu) as [[E El]|(t&Ht&Hn1&Hlo&Hl&Hln&Hvl&Hvh&Hhp&Hll&Hlh&Hne)].
  { exfalso. apply Hnt. split; [done|apply Hu]. }
  rewrite (bind_ok _ _ _ _ _ (getsuccZ_ok s u t (proj1 Hu) Ht)).
  unfold is_term, assert. rewrite bool_decide_eq_false_2 by done. cbn [negb].
  rewrite (bind_ok _ _ s tt s) by done.
  rewrite <- Hl in Hll, Hlh.
  destruct (skip_below (t_lvl t) ord) as [|n ord'] eqn:Hsk.
  { intros [= <- <-]. split; [done|]. exists u, cache. split_and!; try done.
    apply zp_stop; [done|]. destruct (decide (b < lvl_of s u)) as [|Hle]; [done|]. exfalso.
    assert (is_Some (values !! lvl_of s u)) as Hs by (apply Hvals; lia).
    pose proof (skip_below_nil _ _ Hsk _ (Hord _ Hs ltac:(lia))). lia. }
  assert (Hn : t_lvl t ≤ n ∧ is_Some (values !! n)).
  { split.
    - pose proof (drop_while_head _ _ _ _ Hsk) as Hp. cbv beta in Hp.
      apply bool_decide_eq_false in Hp. lia.
    - apply Hords. apply (drop_while_subset (fun k => bool_decide (k < t_lvl t))).
      unfold skip_below in Hsk. rewrite Hsk. left. }
  destruct Hn as [Hn1' Hn2]. apply Hvals in Hn2.
  assert (is_Some (values !! t_lvl t)) as [val Hval] by (apply Hvals; lia).
  assert (Hords' : ∀ k, k ∈ n :: ord' → is_Some (values !! k)).
  { intros k Hk. apply Hords. rewrite <- Hsk in Hk.
    by apply (drop_while_subset (fun k => bool_decide (k < t_lvl t))). }
  assert (Hord' : ∀ c, lvl_of s u ≤ lvl_of s c → Cofactor.ord_ok s c (n :: ord') values).
  { intros c Hl1. rewrite <- Hsk, <- Hl. by apply (Cofactor.ord_ok_child s s u). }
  cbv iota. clear Hsk. set (ord1 := n :: ord') in *. clearbody ord1.
  rewrite Hval.
  set (c := if val then t_hi t else t_lo t).
  assert (Hvc : valid s c) by (subst c; by destruct val).
  assert (Hlc : lvl_of s u < lvl_of s c) by (subst c; by destruct val).
  destruct (cofactor_rec f c ord1 values cache s) as [rp s1] eqn:Ep.
  pose proof Ep as Ep'.
  apply IH in Ep' as (->&x&c1&->&Hx&Hc1); [|done|lia|done|apply Hord'; lia|done|lia].
  rewrite (bind_ok _ _ _ _ _ Ep). intros [= <- <-]. split; [done|].
  assert (Hz : zpath u (flip x u)) by (by apply (zp_step u t val x)).
  eexists _, _. split; [done|]. split; [done|].
  intros k y Hk. destruct (decide (k = u)) as [->|Hne'].
  - rewrite lookup_insert in Hk. by injection Hk as <-.
  - rewrite lookup_insert_ne in Hk by done. by apply Hc1.
Qed.

(** facts about the node reached *)
Lemma zpath_valid u x : zpath u x → valid s x ∧ b < lvl_of s x.
Proof.
  induction 1 as [u Hu Hl|u t val x Hu Ht Hn Hval _ [IH1 IH2]]; [done|].
  split; [by apply valid_flip|by rewrite lvl_flip].
Qed.
(** when the walk starts inside the zone, the node reached has a parent in
    the zone, reachable from [u] *)
Lemma zpath_parent u x : zpath u x → lvl_of s u ≤ b →
  ∃ w tw, succ s !! w = Some tw ∧ w ≠ 1%positive ∧ lvl_of s u ≤ t_lvl tw ≤ b ∧
    (absn (t_lo tw) = absn x ∨ absn (t_hi tw) = absn x) ∧
    (w = absn u ∨ reach (succ s) (fun k => k = absn u) w).
Proof.
  induction 1 as [u Hu Hl|u t val x Hu Ht Hn Hval Hz IH]; [lia|]. intros Hlu.
  assert (Elu : lvl_of s u = t_lvl t) by (unfold lvl_of; by rewrite Ht).
  set (c := if val then t_hi t else t_lo t) in *.
  assert (Habs : absn (flip x u) = absn x).
  { unfold flip. case_decide; [apply absn_neg|done]. }
  destruct (inv_node _ HI _ _ Ht Hn) as (_&Hvl&Hhp&Hvh&Hll&Hlh&_).
  assert (Hvc : valid s c ∧ t_lvl t < lvl_of s c) by (subst c; by destruct val).
  destruct Hvc as [Hvc Hlc].
  destruct (decide (lvl_of s c ≤ b)) as [Hcb|Hcb].
  - destruct (IH Hcb) as (w&tw&Hw&Hw1&Hlw&Hch&Hr). exists w, tw.
    rewrite Habs. split_and!; try done; try lia. right.
    assert (Hcr : reach (succ s) (fun k => k = absn u) (absn c)).
    { assert (Hroot : reach (succ s) (fun k => k = absn u) (absn u)).
      { apply reach_root; [done|]. apply elem_of_dom. by eexists. }
      subst c. destruct val.
      - apply (reach_hi _ _ (absn u) t); [done|done|]. apply Hvh.
      - apply (reach_lo _ _ (absn u) t); [done|done|]. apply Hvl. }
    destruct Hr as [->|Hr]; [done|].
    clear -Hr Hcr. induction Hr as [n -> Hn|p tp Hp IHp Hsp Hl0|p tp Hp IHp Hsp Hh0].
    + done.
    + by apply (reach_lo _ _ p tp).
    + by apply (reach_hi _ _ p tp).
  - (* the child is already outside: [u] itself is the parent *)
    assert (x = c) as ->.
    { inversion Hz as [? ? ? E1 E2|? t' val' x' Hu' Ht' Hn' Hval' Hz' E1 E2]; [done|].
      exfalso. subst. assert (is_Some (values !! t_lvl t')) as Hs by (by eexists).
      apply Hvals in Hs. unfold lvl_of in Hcb. rewrite Ht' in Hcb. lia. }
    exists (absn u), t. rewrite Habs. split_and!; try done; try lia; try (by left).
    subst c. destruct val; [by right|by left].
Qed.
End zone.
