(** * Total3: ONE history theorem for dd.bdd over the whole alphabet,
      dynamic reordering enabled or disabled (C17, C09).

    Invariant: [Dynamic3.GoodD] (well formed, outside a reordering context,
    empty oracle tape, exact counts; NO condition on [last_len]).
    Alphabet: [Dynamic3.allowedD] (decorated operations, counters, garbage
    collection, [configure], declaration, threshold/trigger setters, the
    assignment [bdd.max_nodes = n]: calls may fail on a full table anywhere)
    ∪ the explicit reorderings [OSwap], [OReorder], [OReorderPairs] with ANY
      arguments
    ∪ [OSetRoots], [OCopy], [OImage], [OPreimage] (guarded: any [last_len]),
      and — only while dynamic reordering is disabled, because it is neither
      decorated nor guarded — [OFindOrAdd]
    ∪ the [op2] operations of [Total2] (read-only queries, dumps,
      [undeclare_vars], [__del__]).
    Outside: [OTape] (it leaves a non-empty tape behind), the pickle loads. *)
From DD Require Export Total2 Dynamic3.

(** ** 1. The reordering code never raises the signal while requests are off *)
Ltac nrf_app :=
  lazymatch goal with
  | |- nrf ((let '(_, _) := ?p in _) _) => destruct p; cbv beta
  end.
Ltac nrf2 := repeat first [assumption | nrf_step | nrf_app].

Lemma nrf_gc_loop fuel : ∀ U, nrf (gc_loop fuel U).
Proof.
  induction fuel as [|f IH]; intros U; cbn [gc_loop]; [by apply nrf_raise|].
  nrf; first [apply nrf_decref | apply IH].
Qed.
Lemma nrf_collect_garbage roots : nrf (collect_garbage roots).
Proof. unfold collect_garbage. nrf; first [apply nrf_ref | apply nrf_gc_loop]. Qed.
Lemma nrf_levels : nrf levels_.
Proof. unfold levels_. nrf. Qed.
Lemma nrf_pop_order X : nrf (pop_order X).
Proof. unfold pop_order. nrf. Qed.
Lemma nrf_low_high u : nrf (low_high u).
Proof. unfold low_high. nrf. Qed.
Lemma nrf_swap_cofactor u y : nrf (swap_cofactor u y).
Proof. unfold swap_cofactor. nrf. Qed.
Lemma nrf_set_node u t : nrf (set_node u t).
Proof. unfold set_node. nrf. Qed.
Lemma nrf_swap_collect j o : nrf (swap_collect j o).
Proof. unfold swap_collect. nrf. Qed.
Lemma nrf_swap_up x y l : nrf (swap_up x y l).
Proof. unfold swap_up. nrf; first [apply nrf_level_of | apply nrf_set_node]. Qed.
Lemma nrf_swap_indep x y l : nrf (swap_indep x y l).
Proof.
  unfold swap_indep. nrf; first [apply nrf_level_of | apply nrf_low_high | apply nrf_set_node].
Qed.
Lemma nrf_swap_dep x y d l : nrf (swap_dep x y d l).
Proof.
  unfold swap_dep. apply nrf_foldM. intros [g xf] [u [v w]].
  nrf; first [apply nrf_level_of | apply nrf_decref | apply nrf_incref
             | apply nrf_swap_cofactor | apply nrf_find_or_add].
Qed.
Lemma nrf_child_level v : nrf (child_level v).
Proof. unfold child_level. nrf. Qed.
Lemma nrf_dep_count y X : nrf (dep_count y X).
Proof. unfold dep_count. nrf; apply nrf_child_level. Qed.
Lemma nrf_swap x y al : nrf (swap x y al).
Proof.
  unfold swap.
  nrf2; first [apply nrf_dep_count | apply nrf_collect_garbage | apply nrf_levels | apply nrf_pop_order
             | apply nrf_swap_collect | apply nrf_swap_up | apply nrf_swap_indep
             | apply nrf_swap_dep | apply nrf_var_at_level].
Qed.
Lemma nrf_shift_loop n : ∀ i d al sz, nrf (shift_loop n i d al sz).
Proof.
  induction n as [|n IH]; intros i d al sz; cbn [shift_loop]; [apply nrf_ret|].
  nrf; first [apply nrf_swap | apply IH].
Qed.
Lemma nrf_shift a e al : nrf (shift a e al).
Proof. unfold shift. nrf; apply nrf_shift_loop. Qed.
Lemma nrf_reorder_var v al : nrf (reorder_var v al).
Proof. unfold reorder_var. nrf; first [apply nrf_level_of_var | apply nrf_shift]. Qed.
Lemma nrf_apply_sifting : nrf apply_sifting.
Proof.
  unfold apply_sifting.
  nrf; first [apply nrf_collect_garbage | apply nrf_levels | apply nrf_pop_order
             | apply nrf_reorder_var].
Qed.
Lemma nrf_sort_to_order o : nrf (sort_to_order o).
Proof.
  unfold sort_to_order. nrf; first [apply nrf_levels | apply nrf_var_at_level | apply nrf_swap].
Qed.
Lemma nrf_reorder_to_pairs p : nrf (reorder_to_pairs p).
Proof.
  unfold reorder_to_pairs. nrf; first [apply nrf_levels | apply nrf_level_of_var | apply nrf_shift].
Qed.
Lemma nrf_reorder o : nrf (reorder o).
Proof. destruct o; [apply nrf_sort_to_order|apply nrf_apply_sifting]. Qed.

(** through the public guard: whatever [last_len] is *)
Lemma guarded_no_signal {A} (m : MS A) s r s' :
  nrf m → guarded m s = (r, s') → r ≠ Err ENeedsReordering.
Proof.
  intros Hn H. apply guarded_run in H as [[Hll H]|(ll&s1&Hll&H&->)].
  - by destruct (Hn s r s' Hll H).
  - assert (Hl0 : last_len (s <| last_len := None |>) = None) by done.
    by destruct (Hn _ r s1 Hl0 H).
Qed.

(** ** 2. The explicit reorderings with ARBITRARY arguments *)

(** outcome of an explicit reordering call, whatever [last_len] is *)
Definition rout {A} (L : positive → nat) (s : st) (r : res A) (s' : st) : Prop :=
  Inv s' ∧ Counts s' L ∧ rr s' = rr s ∧ tape s' = [] ∧ last_len s' = last_len s ∧
  keepsH L s s' ∧
  r ≠ Err ENeedsReordering ∧ r ≠ Err EOracle.

Lemma keepsH_refl L s : Inv s → Counts s L → keepsH L s s.
Proof. intros HI HC u Hu. pose proof (held_valid L s u HI HC Hu). done. Qed.

(** *** [reorder(order)], any [order] *)
Theorem reorder_pub_total o s L r s' :
  Inv s → Counts s L → tape s = [] → reorder_pub o s = (r, s') → rout L s r s'.
Proof.
  intros HI HC Ht H. destruct (nt_reorder_pub o s r s' Ht H) as [Ht' Hno].
  pose proof (guarded_no_signal _ s r s' (nrf_reorder o) H) as Hns.
  destruct (reorder_pub_safe o s L r s' HI HC H) as [?|(?&?&?&_&?&?)]; [done|].
  by split_and!.
Qed.

(** *** [reorder_to_pairs(pairs)], any [pairs]: an undeclared name or a
    pair [x, x] is an error BETWEEN two shifts *)
Lemma pair_body_safe L s0 al p s r s' :
  Stp L s0 s → levels_ok s al → dom (vars s) = dom (vars s0) →
  pair_body al p s = (r, s') → SafeOut L s0 r s'.
Proof.
  intros HS Hal Hd H. pose proof HS as (HG&_). destruct p as [x y].
  assert (Hstay : ∀ r0 : res levels_t, (∀ al', r0 = Ok al' → al' = al) → SafeOut L s0 r0 s).
  { intros r0 Hr. right. split_and!; try done. intros al' E. by rewrite (Hr al' E). }
  assert (Hlv : ∀ v, level_of_var v s =
            (match vars s !! v with Some l => Ok l | None => Err EValue end, s)).
  { intros v. unfold level_of_var. cbn [bind get]. by destruct (vars s !! v). }
  destruct (vars s !! x) as [jx|] eqn:Ex; cycle 1.
  { revert H. unfold pair_body. pose proof (Hlv x) as E. rewrite Ex in E.
    rewrite (bind_err _ _ _ _ _ E). intros [= <- <-]. by apply Hstay. }
  destruct (vars s !! y) as [jy|] eqn:Ey; cycle 1.
  { revert H. unfold pair_body. pose proof (Hlv x) as E. rewrite Ex in E.
    rewrite (bind_ok _ _ _ _ _ E). pose proof (Hlv y) as E'. rewrite Ey in E'.
    rewrite (bind_err _ _ _ _ _ E'). intros [= <- <-]. by apply Hstay. }
  destruct (decide (jx = jy)) as [->|Hne].
  { revert H. unfold pair_body. pose proof (Hlv x) as E. rewrite Ex in E.
    rewrite (bind_ok _ _ _ _ _ E). pose proof (Hlv y) as E'. rewrite Ey in E'.
    rewrite (bind_ok _ _ _ _ _ E'). unfold assert.
    rewrite bool_decide_eq_false_2 by (by intros ?). cbn [bind raise].
    intros [= <- <-]. by apply Hstay. }
  revert H. unfold pair_body. pose proof (Hlv x) as E. rewrite Ex in E.
  rewrite (bind_ok _ _ _ _ _ E). pose proof (Hlv y) as E'. rewrite Ey in E'.
  rewrite (bind_ok _ _ _ _ _ E'). unfold assert.
  rewrite bool_decide_eq_true_2 by done. cbn [bind ret].
  case_decide.
  { intros [= <- <-]. apply Hstay. by intros al' [= <-]. }
  destruct (if decide (jy < jx) then (jy, jx) else (jx, jy)) as [a b].
  destruct (shift a (b - 1) al s) as [r1 s1] eqn:Esh.
  destruct (shift_safe L s0 a (b - 1) al s r1 s1 HS Hal Hd Esh) as [->|(HS1&Hd1&Hal1)].
  { rewrite (bind_err _ _ _ _ _ Esh). intros [= <- <-]. by left. }
  destruct r1 as [[sz al1]|e].
  - rewrite (bind_ok _ _ _ _ _ Esh). intros [= <- <-]. right. split_and!; try done.
    intros al' [= <-]. by apply (Hal1 (sz, al1)).
  - rewrite (bind_err _ _ _ _ _ Esh). intros [= <- <-]. right. split_and!; try done.
Qed.

Theorem reorder_to_pairs_safe pairs s L r s' :
  Gd L s → reorder_to_pairs pairs s = (r, s') →
  r = Err EOracle ∨ (Stp L s s' ∧ dom (vars s') = dom (vars s) ∧ rr s' = rr s).
Proof.
  intros HG Hrun. pose proof (pres_reorder_to_pairs pairs s r s' Hrun) as Hrr.
  revert Hrun. rewrite reorder_to_pairs_eq.
  destruct (levels_spec s (proj1 HG)) as (al&Hlev&Hal). rewrite (bind_ok _ _ _ _ _ Hlev).
  destruct (foldM pair_body al pairs s) as [r1 s1] eqn:Eout.
  assert (Hout : SafeOut L s r1 s1).
  { apply (fold_safe pair_body L s (fun _ => True)) with pairs al s; try done.
    - intros al0 p s2 r2 s3 _. apply pair_body_safe.
    - by apply Forall_forall.
    - by apply Stp_refl. }
  destruct Hout as [->|(HS1&Hd1&_)].
  - rewrite (bind_err _ _ _ _ _ Eout). intros [= <- <-]. by left.
  - destruct r1 as [al1|e].
    + rewrite (bind_ok _ _ _ _ _ Eout). intros [= <- <-]. by right.
    + rewrite (bind_err _ _ _ _ _ Eout). intros [= <- <-]. by right.
Qed.

Theorem reorder_to_pairs_pub_total pairs s L r s' :
  Inv s → Counts s L → tape s = [] → reorder_to_pairs_pub pairs s = (r, s') → rout L s r s'.
Proof.
  intros HI HC Ht H. destruct (nt_reorder_to_pairs_pub pairs s r s' Ht H) as [Ht' Hno].
  pose proof (guarded_no_signal _ s r s' (nrf_reorder_to_pairs pairs) H) as Hns.
  apply guarded_run in H as [[Hll H]|(ll&s1&Hll&H&->)].
  - destruct (reorder_to_pairs_safe pairs s L r s' ltac:(by split_and!) H)
      as [?|(((?&?&?)&_&?&_)&?&?)]; [done|]. split_and!; try done. congruence.
  - destruct (reorder_to_pairs_safe pairs _ L r s1 (Gd_off L s HI HC) H)
      as [?|(((HI1&HC1&_)&_&Hk&_)&Hd&Hr)]; [done|]. split_and!; try done.
    + apply (Inv_same s1); [by repeat split|done].
    + by apply (keepsH_ll L s None s1 (Some ll)).
Qed.

(** *** [swap(x, y)], any [x], [y]: levels that are not adjacent declared
    levels are rejected after the garbage collection that precedes the test *)
Lemma swap_some_reject x y al s :
  ¬ ((y = x + 1 ∨ x = y + 1) ∧ x < nvars s ∧ y < nvars s) →
  swap x y (Some al) s = (Err EValue, s).
Proof.
  intros Hn. unfold swap. rewrite (bind_ok _ _ s al s) by done. cbn [bind get].
  unfold ensure.
  destruct (bool_decide (x < nvars s)) eqn:E1; [|done]. cbn [bind ret].
  destruct (bool_decide (y < nvars s)) eqn:E2; [|done]. cbn [bind ret].
  apply bool_decide_eq_true in E1, E2.
  destruct (decide (y < x)) as [Hyx|Hyx].
  - destruct (bool_decide (y < x)) eqn:E3; [|done]. cbn [bind ret].
    destruct (bool_decide (x - y = 1)) eqn:E4; [|done].
    apply bool_decide_eq_true in E4. exfalso. apply Hn. split_and!; try done. lia.
  - destruct (bool_decide (x < y)) eqn:E3; [|done]. cbn [bind ret].
    destruct (bool_decide (y - x = 1)) eqn:E4; [|done].
    apply bool_decide_eq_true in E3, E4. exfalso. apply Hn. split_and!; try done. lia.
Qed.

Lemma swap_junk_run x y s L r s' :
  Inv s → Counts s L →
  ¬ ((y = x + 1 ∨ x = y + 1) ∧ x < nvars s ∧ y < nvars s) →
  swap x y None s = (r, s') →
  r = Err EValue ∧ Inv s' ∧ Counts s' L ∧ vars s' = vars s ∧ lvl2var s' = lvl2var s ∧
  frame s s' ∧ keepsH L s s'.
Proof.
  intros HI HC Hn. rewrite swap_none.
  destruct (collect_garbage None s) as [rg s1] eqn:Eg.
  destruct (collect_garbage_total None s L rg s1 HI HC Eg)
    as (HI1&HC1&Ev&El&Hf&Hsub&[(->&_&Hkeep)|(_&_&Hx)]); [|by destruct Hx].
  destruct (levels_spec s1 HI1) as (al&Hlev&_). rewrite Hlev.
  rewrite swap_some_reject; cycle 1.
  { unfold nvars in *. by rewrite Ev. }
  intros [= <- <-]. split_and!; try done.
  intros u Hu. pose proof (held_valid L s u HI HC Hu) as Hv.
  assert (Hv1 : valid s1 u).
  { split; [apply Hu|]. apply elem_of_dom, Hkeep. destruct Hu as [_ [?|?]]; [by left|right].
    apply reach_root; [done|]. apply elem_of_dom, Hv. }
  split_and!; try done. intros ρ. unfold denv. rewrite El. by apply D_shrink.
Qed.

Theorem swap_pub_total x y s L r s' :
  Inv s → Counts s L → tape s = [] → swap_pub x y s = (r, s') → rout L s r s'.
Proof.
  intros HI HC Ht H. destruct (nt_swap_pub x y s r s' Ht H) as [Ht' Hno].
  pose proof (guarded_no_signal _ s r s' (nrf_swap x y None) H) as Hns.
  destruct (decide ((y = x + 1 ∨ x = y + 1) ∧ x < nvars s ∧ y < nvars s)) as [(Hxy&Hx&Hy)|Hn].
  - assert (Hrr : rr s' = rr s).
    { pose proof H as H0. apply guarded_run in H0 as [[_ H0]|(ll&s1&_&H0&->)].
      - by apply (pres_swap x y None s r s').
      - pose proof (pres_swap x y None _ r s1 H0) as E. unfold rr in *. cbn in *. done. }
    destruct (swap_pub_correct s x y L r s' HI HC Hxy Hx Hy H)
      as [?|[(->&_&s1&Hgc&->)|(oldn&newn&al'&->&HI'&HC'&_&_&_&Hv&HD&Hll)]]; [done| |].
    { (* refused by the full-table pre-check: only the collection happened *)
      destruct (Gd_off L s HI HC) as (HI0&HC0&_).
      destruct (collect_garbage_total None _ L (Ok tt) s1 HI0 HC0 Hgc)
        as (HI1&HC1&Ev&El&Hf&Hsub&[(_&_&Hkeep)|(_&_&Hxx)]); [|by destruct Hxx].
      split_and!; try done.
      - apply (Inv_same s1); [by repeat split|done].
      - intros u Hu. pose proof (held_valid L s u HI HC Hu) as Hvu.
        assert (Hv1 : valid s1 u).
        { split; [apply Hu|]. apply elem_of_dom, Hkeep.
          destruct Hu as [_ [?|?]]; [by left|right].
          apply reach_root; [done|]. apply elem_of_dom, Hvu. }
        split_and!; try done. intros ρ.
        transitivity (denv s1 u ρ); [unfold denv; by apply D_same|].
        transitivity (denv (s <| last_len := None |>) u ρ); [|unfold denv; by apply D_same].
        unfold denv. rewrite El. by apply D_shrink. }
    split_and!; try done.
    + intros u [Hu0 Hu]. by apply HD.
  - apply guarded_run in H as [[Hll H]|(ll&s1&Hll&H&->)].
    + destruct (swap_junk_run x y s L r s' HI HC Hn H) as (->&HI'&HC'&Ev&El&(E1&E2&E3&E4&E5)&Hk).
      split_and!; try done. unfold rr; congruence.
    + destruct (Gd_off L s HI HC) as (HI0&HC0&_).
      destruct (swap_junk_run x y _ L r s1 HI0 HC0 Hn H) as (->&HI'&HC'&Ev&El&(E1&E2&E3&E4&E5)&Hk).
      split_and!; try done.
      * apply (Inv_same s1); [by repeat split|done].
      * unfold rr. cbn. by rewrite E2, E3, E5.
      * by apply (keepsH_ll L s None s1 (Some ll)).
Qed.

(** ** 3. The read-only queries are [quiet]: state unchanged, no signal, no
    oracle error, whatever [last_len] is *)
Lemma quiet_foldM {A B} (f : B → A → MS B) (l : list A) :
  (∀ b a, quiet (f b a)) → ∀ b, quiet (foldM f b l).
Proof.
  intros Hf. induction l as [|a l IH]; intros b; cbn [foldM]; [apply quiet_ret|].
  apply quiet_bind; [apply Hf|done].
Qed.
Ltac quiet2 :=
  repeat first [assumption | quiet_step
               | lazymatch goal with
                 | |- quiet (foldM _ _ _) => apply quiet_foldM; intros ? ?
                 | |- quiet (getsuccZ _) => apply quiet_getsuccZ
                 | |- quiet (var_at_level _) => apply quiet_var_at_level
                 end].

Lemma quiet_level_of u : quiet (level_of u).
Proof. unfold level_of. quiet2. Qed.
Lemma quiet_level_of_var v : quiet (level_of_var v).
Proof. unfold level_of_var. quiet2. Qed.
Lemma quiet_sat_len fuel : ∀ u ml all_ d, quiet (sat_len fuel u ml all_ d).
Proof.
  induction fuel as [|f IH]; intros u ml all_ d; cbn [sat_len]; [by apply quiet_raise|].
  quiet2; first [apply IH | apply quiet_level_of].
Qed.
Lemma quiet_count u n : quiet (count u n).
Proof.
  unfold count. quiet2;
    first [apply quiet_support | apply quiet_level_of_var | apply quiet_sat_len
          | apply quiet_level_of].
Qed.
Lemma quiet_sat_iter fuel : ∀ u cube value, quiet (sat_iter fuel u cube value).
Proof.
  induction fuel as [|f IH]; intros u cube value; cbn [sat_iter]; [by apply quiet_raise|].
  quiet2; apply IH.
Qed.
Lemma quiet_pick_iter u care : quiet (pick_iter u care).
Proof. unfold pick_iter. quiet2; [apply quiet_support|apply quiet_sat_iter]. Qed.
Lemma quiet_pick u care : quiet (pick u care).
Proof. unfold pick. quiet2. apply quiet_pick_iter. Qed.
Lemma quiet_descendants_rec fuel : ∀ u visited, quiet (descendants_rec fuel u visited).
Proof.
  induction fuel as [|f IH]; intros u visited; cbn [descendants_rec]; [by apply quiet_raise|].
  quiet2; apply IH.
Qed.
Lemma quiet_descendants roots : quiet (descendants roots).
Proof. unfold descendants. quiet2. apply quiet_descendants_rec. Qed.
Lemma quiet_to_nx roots : quiet (to_nx roots).
Proof. unfold to_nx, reach_from. quiet2. apply quiet_descendants_rec. Qed.
Lemma quiet_to_dot roots : quiet (to_dot roots).
Proof. unfold to_dot. quiet2; apply quiet_descendants. Qed.

(** the dumps: read-only, no signal; the oracle error is possible (a wrong
    iteration order supplied by the harness) *)
Definition qn {A} (m : MS A) : Prop :=
  ∀ s r s', m s = (r, s') → s' = s ∧ r ≠ Err ENeedsReordering.
Lemma qn_quiet {A} (m : MS A) : quiet m → qn m.
Proof. intros Hq s r s' H. by destruct (Hq _ _ _ H) as (?&?&_). Qed.
Lemma qn_raise {A} e : e ≠ ENeedsReordering → qn (raise (A:=A) e).
Proof. intros He s r s' [= <- <-]. split; [done|congruence]. Qed.
Lemma qn_bind {A B} (m : MS A) (f : A → MS B) : qn m → (∀ a, qn (f a)) → qn (bind m f).
Proof.
  intros Hm Hf s r s'. unfold bind. destruct (m s) as [[a|e] s1] eqn:E.
  - destruct (Hm _ _ _ E) as [-> _]. apply Hf.
  - destruct (Hm _ _ _ E) as [-> Hr]. intros [= <- <-]. split; [done|].
    intros [= ->]. by apply Hr.
Qed.
Lemma qn_dump_pickle roots order vorder : qn (dump_pickle roots order vorder).
Proof.
  unfold dump_pickle. apply qn_bind; [apply qn_quiet, quiet_get|intros s0].
  apply qn_bind.
  { destruct roots; apply qn_quiet; first [apply quiet_ret | apply quiet_descendants]. }
  intros nodes. destruct (negb _); [by apply qn_raise|].
  destruct (negb _); [by apply qn_raise|].
  apply qn_quiet. quiet2. apply quiet_level_of_var.
Qed.
Lemma qn_dump_manager vorder : qn (dump_manager vorder).
Proof.
  unfold dump_manager. apply qn_bind; [apply qn_quiet, quiet_get|intros s0].
  destruct (negb _); [by apply qn_raise|].
  apply qn_quiet. quiet2. apply quiet_level_of_var.
Qed.

(** ** 4. The undecorated node builders never touch the oracle tape *)
Lemma nt_top_cofactorZ u i : nt (top_cofactorZ u i).
Proof. unfold top_cofactorZ. ntx. apply nt_top_cofactor. Qed.
Lemma nt_image_rec fuel : ∀ u v um vm q fa cache, nt (image_rec fuel u v um vm q fa cache).
Proof.
  induction fuel as [|f IH]; intros u v um vm q fa cache; cbn [image_rec];
    [by apply nt_raise|].
  ntx; first [apply IH | apply nt_ite | apply nt_top_cofactor | apply nt_top_cofactorZ].
Qed.
Lemma nt_map_rename byname rn : nt (map_rename byname rn).
Proof. unfold map_rename. ntx. Qed.
Lemma nt_all_adjacent l : nt (all_adjacent l).
Proof. induction l as [|[i j] l IH]; cbn [all_adjacent]; [apply nt_ret|]. ntx. Qed.
Lemma nt_support_levels u : nt (support_levels u).
Proof. unfold support_levels. ntx. apply nt_support_rec. Qed.
Lemma nt_image t s bn rn qbn q fa : nt (image t s bn rn qbn q fa).
Proof.
  unfold image.
  ntx; first [apply nt_map_to_level_set | apply nt_map_rename | apply nt_all_adjacent
             | apply nt_support_levels | apply nt_image_rec].
Qed.
Lemma nt_preimage t s bn rn qbn q fa : nt (preimage t s bn rn qbn q fa).
Proof.
  unfold preimage.
  ntx; first [apply nt_map_to_level_set | apply nt_map_rename | apply nt_image_rec].
Qed.
Lemma nt_copy_bdd src u : nt (copy_bdd src u).
Proof. unfold copy_bdd. ntx. apply nt_copy_bdd_rec. Qed.

(** ** 5. [__del__] without a condition on [last_len] *)
Lemma keepsH_keepsR L s s' : keepsH L s s' → keepsR L s s'.
Proof.
  intros Hk u Hu0 Hh _. destruct (Hk u (conj Hu0 Hh)) as (_&?&?). done.
Qed.

Theorem shutdown_total s L r s' :
  Inv s → Counts s L → caller_ok s (ODecref 1) → shutdown s = (r, s') →
  Inv s' ∧ (∃ L', Counts s' L') ∧ frame s s' ∧ (∃ b, r = Ok b) ∧ keepsR L s s'.
Proof.
  intros HI HL Hgd. unfold shutdown.
  assert (Hv1 : valid s 1) by (by apply valid_1).
  assert (is_Some (refc s !! 1%positive)) as [r1 Hr1].
  { apply elem_of_dom. rewrite (inv_ref _ HI). apply elem_of_dom, Hv1. }
  assert (Eref : ref 1 s = (Ok r1, s)).
  { unfold ref. rewrite decide_False by done. by apply getref_ok. }
  rewrite (bind_ok _ _ _ _ _ Eref).
  assert (∃ s1 L1, (if decide (0 < r1) then decref 1 else ret tt) s = (Ok tt, s1) ∧
            Inv s1 ∧ Counts s1 L1 ∧ succ s1 = succ s ∧ vars s1 = vars s ∧
            lvl2var s1 = lvl2var s ∧ frame s s1 ∧
            ∀ n, n ≠ 1%positive → L1 n = L n) as (s1&L1&E1&HI1&HL1&Es1&Ev1&El1&Hf1&HL1n).
  { case_decide as Hpos.
    - destruct (decref 1 s) as [rd s1] eqn:Ed.
      destruct (decref_total s 1 rd s1 HI Ed) as (HI1&He1&Hf1&Hv&_).
      destruct (Hv Hv1) as [-> HC]. exists s1, (ledger_dec L (absn 1)).
      assert (Es : s1 = unbump 1 s).
      { rewrite decref_run in Ed; [|done|by eexists]. by injection Ed as <-. }
      split; [done|]. split; [done|]. split.
      { apply HC; [done|]. cbn [caller_ok] in Hgd. specialize (Hgd Hv1).
        destruct HL as [H1 _]. rewrite (H1 (absn 1)) in Hgd by apply elem_of_dom, Hv1.
        cbn in Hgd. lia. }
      subst s1. split_and!; try done.
      intros n Hn. unfold ledger_dec. by rewrite decide_False.
    - exists s, L. split_and!; try done. }
  rewrite (bind_ok _ _ _ _ _ E1).
  destruct (collect_garbage None s1) as [rg s2] eqn:Eg.
  destruct (collect_garbage_total None s1 L1 rg s2 HI1 HL1 Eg)
    as (HI2&HL2&Ev2&El2&Hf2&Hsub2&[(->&_&Hkeep)|(_&_&Hn)]); [|by destruct Hn].
  rewrite (bind_ok _ _ _ _ _ Eg). cbn [bind get ret]. intros [= <- <-].
  split; [done|]. split; [by exists L1|]. split; [by etrans|]. split; [by eexists|].
  intros u Hu0 Hh Hu.
  assert (Hvu : valid s2 u).
  { split; [done|]. apply elem_of_dom, Hkeep.
    destruct (decide (absn u = 1%positive)) as [?|Hn1]; [by left|right].
    destruct Hh as [?|HLu]; [done|]. apply reach_root.
    - by rewrite (HL1n _ Hn1).
    - rewrite Es1. apply elem_of_dom, Hu. }
  split; [done|]. intros ρ. unfold denv. rewrite El2, El1.
  transitivity (D s1 u (fun l => match lvl2var s !! l with Some v => ρ v | None => false end)).
  - apply D_shrink; try done.
  - apply D_same; done.
Qed.

(** ** 6. One call of the unified alphabet *)
Definition extraD (o : op) : bool :=
  match o with
  | OSwap _ _ | OReorder _ | OReorderPairs _ | OSetRoots _
  | OFindOrAdd _ _ _ | OCopy _ _ | OImage _ _ _ _ _ _ _ | OPreimage _ _ _ _ _ _ _ => true
  | _ => false
  end.
(** not decorated and not guarded: with dynamic reordering enabled the signal
    escapes from [find_or_add] (C09).  [copy_bdd], [image], [preimage] run
    with requests disabled and restore the threshold ([guarded]). *)
Definition needs_off (o : op) : bool :=
  match o with
  | OFindOrAdd _ _ _ => true
  | _ => false
  end.
Definition allowed3 (o : op2) : bool :=
  match o with
  | O1 o => allowedD o || extraD o
  | OLoad _ _ | OLoadManager _ => false
  | _ => true
  end.
Definition caller_ok3 (s : st) (o : op2) : Prop :=
  match o with
  | O1 o => caller_ok1 s o ∧ (needs_off o = true → last_len s = None)
  | OShutdown => caller_ok s (ODecref 1)
  | _ => True
  end.

Lemma rout_dout {A} (m : MS A) (h : A → value) s r s' :
  GoodD s → (∀ L r0, Counts s L → m s = (r0, s') → rout L s r0 s') →
  (x <- m ;; ret (h x)) s = (r, s') → dout s r s'.
Proof.
  intros (HI&Hc&Ht&L&HL) Hm H. apply bind_ret_inv in H as (r0&H&Hr).
  destruct (Hm L r0 HL H) as (HI'&HC'&Hrr&Ht'&_&_&Hn1&Hn2).
  assert (Hc' : rctx s' = false) by (unfold rr in Hrr; congruence).
  split; [split_and!; try done; by exists L|].
  split; [destruct r0; rewrite Hr; [done|by intros [= ->]]|].
  split; [destruct r0; rewrite Hr; [done|by intros [= ->]]|].
  intros L' HL'. destruct (Hm L' r0 HL' H) as (_&_&_&_&_&Hk&_). by apply keepsH_keepsR.
Qed.

Lemma safe_dout s (r : res value) s' :
  GoodD s → safe s s' → r ≠ Err ENeedsReordering → r ≠ Err EOracle → dout s r s'.
Proof.
  intros HG (HI'&He&(_&E1&_&E2&_)&HC) Hr1 Hr2. pose proof HG as (_&_&_&L&HL).
  apply dout_extends; try done. exists L. by apply HC.
Qed.

Lemma undecorated_dout {A} (m : MS A) (h : A → value) s r s' :
  GoodD s → last_len s = None → nrf m → nt m → (m s = (fst (m s), s') → safe s s') →
  (x <- m ;; ret (h x)) s = (r, s') → dout s r s'.
Proof.
  intros HG Hl Hn Hnt Hs H. apply bind_ret_inv in H as (r0&H&Hr).
  pose proof HG as (_&_&Ht&_).
  destruct (Hn s r0 s' Hl H) as [_ Hr1]. destruct (Hnt s r0 s' Ht H) as [_ Hr2].
  apply safe_dout; try done.
  - apply Hs. by rewrite H.
  - destruct r0; rewrite Hr; [done|by intros [= ->]].
  - destruct r0; rewrite Hr; [done|by intros [= ->]].
Qed.

(** a computation that is safe while requests are disabled, run through the
    public guard from ANY [GoodD] state: the threshold is restored exactly *)
Theorem guarded_total {A} (m : MS A) s r s' :
  GoodD s → nrf m → nt m → tsafe m → guarded m s = (r, s') →
  Inv s' ∧ extends s s' ∧ rctx s' = rctx s ∧ tape s' = tape s ∧ last_len s' = last_len s ∧
  (∀ L, Counts s L → Counts s' L) ∧ r ≠ Err ENeedsReordering ∧ r ≠ Err EOracle.
Proof.
  intros (HI&Hc&Ht&_) Hn Hnt Hs H.
  destruct (nt_guarded m Hnt s r s' Ht H) as [Ht' Hno].
  pose proof (guarded_no_signal m s r s' Hn H) as Hns.
  apply guarded_run in H as [[Hll H]|(ll&s1&Hll&H&->)].
  - destruct (Hs s r s' HI Hll H) as (HI'&He&(E1&E2&_&E4&_)&HC). by split_and!.
  - set (s0 := s <| last_len := None |>) in *.
    assert (HI0 : Inv s0) by (apply (Inv_same s); [by repeat split|done]).
    destruct (Hs s0 r s1 HI0 eq_refl H) as (HI1&He&(E1&E2&_&E4&_)&HC).
    split_and!; try done;
      first [ apply (Inv_same s1); [by repeat split|done]
            | intros L HL; apply (Counts_same s1); [done..|]; apply HC; by apply (Counts_same s) ].
Qed.

Lemma guarded_dout {A} (m : MS A) (h : A → value) s r s' :
  GoodD s → nrf m → nt m → tsafe m →
  (x <- guarded m ;; ret (h x)) s = (r, s') → dout s r s'.
Proof.
  intros HG Hn Hnt Hs H. apply bind_ret_inv in H as (r0&H&Hr).
  destruct (guarded_total m s r0 s' HG Hn Hnt Hs H) as (HI'&He&E1&E2&_&HC&Hr1&Hr2).
  pose proof HG as (_&_&_&L&HL).
  apply dout_extends; try done.
  - exists L. by apply HC.
  - destruct r0; rewrite Hr; [done|by intros [= ->]].
  - destruct r0; rewrite Hr; [done|by intros [= ->]].
Qed.

Theorem run_op3_good w o s r s' :
  GoodD s → allowed3 o = true → is_new2 o = false → caller_ok3 s o →
  run_op2 w o s = (r, s') → dout s r s'.
Proof.
  intros HG Ha Hnew Hgd H. pose proof HG as (HI&Hc&Ht&L&HL).
  assert (Hq : ∀ (m : MS value), quiet m → m s = (r, s') → dout s r s').
  { intros m Hm Hrun. apply (dsafe_out m s r s'); [by apply dsafe_quiet|done|done]. }
  destruct o as [o| | | | | | | | | | | | | | | | | ]; try discriminate Ha; cbn [run_op2] in H.
  - (* Driver.op *)
    cbn [allowed3] in Ha. cbn [caller_ok3] in Hgd. destruct Hgd as [[Hgd0 Hfoa] Hoff].
    destruct (allowedD o) eqn:HaD.
    { by apply (run_opD_good w o s r s'). }
    cbn [orb] in Ha. destruct o; try discriminate Ha; try discriminate HaD; cbn [run_op] in H.
    + (* OFindOrAdd *)
      apply (undecorated_dout (find_or_add i v w0) (fun r => VZ r) s r s' HG (Hoff eq_refl)
               (nrf_find_or_add i v w0) (nt_find_or_add i v w0)); [|done].
      intros E. by apply (find_or_add_total s i v w0 _ s' HI Hfoa E).
    + (* OSwap *)
      apply (rout_dout (swap_pub x y) (fun r => VL [VN r.1.1; VN r.1.2]) s r s' HG); [|done].
      intros L' r0 HL' E. by apply (swap_pub_total x y s L' r0 s').
    + (* OReorder *)
      apply (rout_dout (reorder_pub ((fun l => list_to_map (reverse l)) <$> order))
               (fun _ => VU) s r s' HG); [|done].
      intros L' r0 HL' E.
      by apply (reorder_pub_total ((fun l => list_to_map (reverse l)) <$> order) s L' r0 s').
    + (* OReorderPairs *)
      apply (rout_dout (reorder_to_pairs_pub pairs) (fun _ => VU) s r s' HG); [|done].
      intros L' r0 HL' E. by apply (reorder_to_pairs_pub_total pairs s L' r0 s').
    + (* OSetRoots *)
      cbn [bind modify ret] in H. injection H as <- <-.
      apply dout_extends; try done.
      * apply (Inv_same s); [by repeat split|done].
      * exists L. by apply (Counts_same s).
    + (* OCopy *)
      destruct (w !! src) as [ssrc|].
      * by apply (guarded_dout (copy_bdd ssrc u) (fun r => VZ r) s r s' HG
                    (nrf_copy_bdd ssrc u) (nt_copy_bdd ssrc u) (tsafe_copy_bdd ssrc u)).
      * injection H as <- <-. apply safe_dout; first [done | by apply safe_refl].
    + (* OImage *)
      by apply (guarded_dout (image t s0 byname rn qbyname q fa) (fun r => VZ r) s r s' HG
                  (nrf_image _ _ _ _ _ _ _) (nt_image _ _ _ _ _ _ _) (tsafe_image _ _ _ _ _ _ _)).
    + (* OPreimage *)
      by apply (guarded_dout (preimage t s0 byname rn qbyname q fa) (fun r => VZ r) s r s' HG
                  (nrf_preimage _ _ _ _ _ _ _) (nt_preimage _ _ _ _ _ _ _)
                  (tsafe_preimage _ _ _ _ _ _ _)).
  - apply (fun Hm => Hq _ Hm H). quiet2; apply quiet_count.
  - apply (fun Hm => Hq _ Hm H). quiet2; apply quiet_pick_iter.
  - apply (fun Hm => Hq _ Hm H). quiet2; apply quiet_pick.
  - (* OUndeclare *)
    apply bind_ret_inv in H as (r0&H&Hr).
    destruct (undeclare_spec s vs r0 s' HI H)
      as [(_&->&->)|(_&rm&->&_&HI'&(_&E1&_&E2&_)&_&_&_&_&_&_&HC&Hd)].
    + rewrite Hr. apply safe_dout; first [done | by apply safe_refl].
    + rewrite Hr. apply dout_den; try done; [congruence..|]. exists L. by apply HC.
  - apply (fun Hm => Hq _ Hm H). quiet2; apply quiet_descendants.
  - apply (fun Hm => Hq _ Hm H). quiet2.
  - apply (fun Hm => Hq _ Hm H). quiet2; apply quiet_level_of_var.
  - apply (fun Hm => Hq _ Hm H). quiet2.
  - apply (fun Hm => Hq _ Hm H). quiet2.
  - apply (fun Hm => Hq _ Hm H). quiet2.
  - (* OShutdown *)
    apply bind_ret_inv in H as (r0&H&Hr).
    destruct (shutdown_total s L r0 s' HI HL Hgd H) as (HI'&HL'&(_&E1&_&E2&_)&[b ->]&_).
    rewrite Hr. split; [split_and!; try done; congruence|]. split; [done|split; [done|]].
    intros L' HC'. by destruct (shutdown_total s L' _ s' HI HC' Hgd H) as (_&_&_&_&?).
  - apply (fun Hm => Hq _ Hm H). quiet2; apply quiet_to_nx.
  - apply (fun Hm => Hq _ Hm H). quiet2; apply quiet_to_dot.
  - apply (fun Hm => Hq _ Hm H). by apply quiet_raise.
  - apply (fun Hm => Hq _ Hm H). by apply quiet_raise.
Qed.

(** ** 7. Worlds with several managers and the file store; histories *)
Definition WGoodD (w : world2) : Prop := ∀ m s, w_mgrs w !! m = Some s → GoodD s.
Lemma WGoodD_empty : WGoodD world2_empty.
Proof.
  intros m s H. change ((∅ : gmap nat st) !! m = Some s) in H. by rewrite lookup_empty in H.
Qed.

Definition is_dump (o : op2) : bool :=
  match o with ODump _ _ _ _ | ODumpManager _ _ => true | _ => false end.

(** what one call guarantees about manager [m]: the state reached is [GoodD];
    the outcome is not the reordering signal, and not the oracle error unless
    the call is a dump with a wrong iteration order; unless the call is the
    constructor, every HELD reference keeps validity and function by name *)
Definition step_post (w : world2) (m : nat) (o : op2) : Prop :=
  (∃ s'', w_mgrs (fst (step2 w m o)) = <[m := s'']> (w_mgrs w) ∧ GoodD s'' ∧
     (is_new2 o = false →
      ∀ L, Counts (world2_get w m) L → keepsR L (world2_get w m) s'')) ∧
  snd (step2 w m o) ≠ Err ENeedsReordering ∧
  (is_dump o = false → snd (step2 w m o) ≠ Err EOracle).

Lemma keepsR_tape L s s' t : keepsR L s s' → keepsR L s (s' <| tape := t |>).
Proof.
  intros Hk u Hu0 Hh Hu. destruct (Hk u Hu0 Hh Hu) as [Hv HD]. split; [done|].
  intros ρ. rewrite <- HD. by apply denv_same.
Qed.
Lemma keepsR_refl L s : keepsR L s s.
Proof. by intros u _ _ Hu. Qed.

Theorem step3_spec w m o :
  allowed3 o = true →
  (is_new2 o = false → GoodD (world2_get w m) ∧ caller_ok3 (world2_get w m) o) →
  step_post w m o.
Proof.
  intros Ha Hpre. set (s := world2_get w m) in *. unfold step_post.
  (* the dumps *)
  assert (Hio : ∀ {A} (mio : MS A) (f : A → value * world2),
            qn mio → (∀ a, w_mgrs (snd (f a)) = w_mgrs w) → is_new2 o = false →
            run_io w o = Some (a <- mio ;; ret (f a)) →
            (∃ s'', w_mgrs (fst (step2 w m o)) = <[m := s'']> (w_mgrs w) ∧ GoodD s'' ∧
               (is_new2 o = false → ∀ L, Counts s L → keepsR L s s'')) ∧
            snd (step2 w m o) ≠ Err ENeedsReordering).
  { intros A mio f Hq Hf Hn Hrio. destruct (Hpre Hn) as [(HI&Hc&Ht&HL) _].
    unfold step2. rewrite Hrio. fold (world2_get w m). fold s. unfold bind.
    destruct (mio s) as [[a|e] s1] eqn:E; destruct (Hq _ _ _ E) as [-> Hne]; cbn [ret].
    - destruct (f a) as [v w'] eqn:Ef. specialize (Hf a). rewrite Ef in Hf. cbn in Hf |- *.
      split; [|done]. exists (s <| tape := [] |>). rewrite Hf.
      split; [done|split; [by apply GoodD_reset|]]. intros _ L _. apply keepsR_tape, keepsR_refl.
    - cbn. split; [|by intros [= ->]]. exists (s <| tape := [] |>).
      split; [done|split; [by apply GoodD_reset|]]. intros _ L _. apply keepsR_tape, keepsR_refl. }
  destruct (run_io w o) as [io|] eqn:Hrio.
  - destruct o as [o| | | | | | | | | | | | | | | | | ]; try discriminate Hrio;
      try discriminate Ha; cbn [run_io] in Hrio.
    + destruct (Hio _ (dump_pickle roots order vorder)
                  (fun pf => (VU, w <| w_files ::= <[fid := pf]> |>))
                  (qn_dump_pickle _ _ _)) as [? ?]; try done.
    + destruct (Hio _ (dump_manager vorder)
                  (fun mf => (VU, w <| w_mfiles ::= <[fid := mf]> |>))
                  (qn_dump_manager _)) as [? ?]; try done.
  - clear Hio. rewrite (step2_noio w m o Hrio). fold s.
    destruct (exec2 w m o s) as [r s'] eqn:E. cbn [fst snd].
    assert (Hnd : is_dump o = false → True) by done.
    assert (Hmain : GoodD (s' <| tape := [] |>) ∧ r ≠ Err ENeedsReordering ∧ r ≠ Err EOracle ∧
              (is_new2 o = false → ∀ L, Counts s L → keepsR L s (s' <| tape := [] |>))).
    { destruct (is_new2 o) eqn:Hnew.
      - (* the constructor *)
        destruct o as [[]| | | | | | | | | | | | | | | | | ]; try discriminate Hnew.
        cbn [exec2 run_op2 run_op bind modify] in E. cbn [allowed3 allowedD orb extraD] in Ha.
        rewrite orb_false_r in Ha. apply bool_decide_eq_true in Ha as [Hn1 Hn2].
        apply bind_ret_inv in E as (r0&E&Hr).
        destruct (init_levels_total levels r0 s' Hn1 Hn2 E)
          as [(_&->&->)|(_&->&HI'&_&Hc'&_&HC')]; rewrite Hr.
        + split; [|done]. apply GoodD_reset; [apply Inv_init|done|].
          eexists. apply Counts_init.
        + split; [|done]. apply GoodD_reset; [done|done|by eexists].
      - destruct (Hpre eq_refl) as [HG Hgd].
        destruct (exec2_cases w m o s) as [E'|(u&->&E')]; rewrite E' in E.
        + destruct (run_op3_good (w_mgrs w) o s r s' HG Ha Hnew Hgd E)
            as ((HI'&Hc'&_&HL')&Hr1&Hr2&Hk).
          split; [by apply GoodD_reset|]. split; [done|split; [done|]].
          intros _ L HL. by apply keepsR_tape, Hk.
        + injection E as <- <-. destruct HG as (HI&Hc&Ht&HL).
          split; [by apply GoodD_reset|]. split; [done|split; [done|]].
          intros _ L _. apply keepsR_tape, keepsR_refl. }
    destruct Hmain as (HG'&Hr1&Hr2&Hk).
    assert (Htape : (match o with O1 (OTape _) => s' | _ => s' <| tape := [] |> end)
                    = s' <| tape := [] |>).
    { destruct o as [[]| | | | | | | | | | | | | | | | | ]; done. }
    rewrite Htape. split; [|done]. eexists. split; [reflexivity|]. done.
Qed.

Theorem step3_good w m o :
  WGoodD w → allowed3 o = true →
  (is_new2 o = false → is_Some (w_mgrs w !! m)) →
  caller_ok3 (world2_get w m) o →
  WGoodD (fst (step2 w m o)) ∧ step_post w m o.
Proof.
  intros HW Ha Hex Hgd.
  assert (Hpost : step_post w m o).
  { apply step3_spec; [done|]. intros Hn. destruct (Hex Hn) as [s0 Hs0]. split; [|done].
    unfold world2_get. rewrite Hs0. by apply (HW m). }
  split; [|done]. destruct Hpost as [(s''&E&HG&_) _].
  intros m' s0. rewrite E. unfold world. destruct (decide (m' = m)) as [->|Hne].
  - rewrite lookup_insert. by intros [= <-].
  - rewrite lookup_insert_ne by done. apply HW.
Qed.

(** histories of calls on any managers, dynamic reordering switched on and
    off at will *)
Fixpoint hist_ok3 (w : world2) (ops : list (nat * op2)) : Prop :=
  match ops with
  | [] => True
  | (m, o) :: ops =>
      allowed3 o = true ∧ (is_new2 o = false → is_Some (w_mgrs w !! m)) ∧
      caller_ok3 (world2_get w m) o ∧ hist_ok3 (fst (step2 w m o)) ops
  end.
Fixpoint outs2 (w : world2) (ops : list (nat * op2)) : list (op2 * res value) :=
  match ops with
  | [] => []
  | (m, o) :: ops => (o, snd (step2 w m o)) :: outs2 (fst (step2 w m o)) ops
  end.
Definition out_ok (p : op2 * res value) : Prop :=
  p.2 ≠ Err ENeedsReordering ∧ (is_dump p.1 = false → p.2 ≠ Err EOracle).

Theorem history3_good ops : ∀ w,
  WGoodD w → hist_ok3 w ops → WGoodD (run2 w ops) ∧ Forall out_ok (outs2 w ops).
Proof.
  induction ops as [|[m o] ops IH]; intros w HW Hh; [split; [done|constructor]|].
  destruct Hh as (Ha&Hex&Hgd&Hh). cbn [run2 fold_left outs2].
  destruct (step3_good w m o HW Ha Hex Hgd) as (HW'&_&Hr1&Hr2).
  destruct (IH _ HW' Hh) as [HWf Hall]. split; [done|]. by constructor.
Qed.

Corollary history3_from_empty ops :
  hist_ok3 world2_empty ops →
  WGoodD (run2 world2_empty ops) ∧ Forall out_ok (outs2 world2_empty ops).
Proof. apply history3_good, WGoodD_empty. Qed.

(** a reference held throughout keeps its function: the composition of the
    per-step statements for manager [m], as long as [m] is not re-created and
    the node is the terminal or its counter exceeds its in-degree (i.e. every
    ledger explaining the counters has a positive entry for it) whenever [m]
    is called.  By variable NAME, hence also across [add_var],
    [undeclare_vars] and every reordering. *)
Definition held_now (s : st) (u : Z) : Prop :=
  absn u = 1%positive ∨ indeg (succ s) (absn u) < default 0 (refc s !! absn u).

Lemma held_now_heldn s L u : Counts s L → valid s u → held_now s u → heldn L (absn u).
Proof.
  intros [H1 _] Hu [?|Hlt]; [by left|right].
  rewrite (H1 (absn u)) in Hlt by apply elem_of_dom, Hu. cbn in Hlt. lia.
Qed.

Fixpoint held_along (w : world2) (ops : list (nat * op2)) (m : nat) (u : Z) : Prop :=
  match ops with
  | [] => True
  | (m', o) :: ops =>
      (m' = m → is_new2 o = false ∧ held_now (world2_get w m) u) ∧
      held_along (fst (step2 w m' o)) ops m u
  end.

Theorem history3_keeps ops : ∀ w m u,
  WGoodD w → hist_ok3 w ops → held_along w ops m u → u ≠ 0%Z →
  valid (world2_get w m) u →
  valid (world2_get (run2 w ops) m) u ∧
  ∀ ρ, denv (world2_get (run2 w ops) m) u ρ = denv (world2_get w m) u ρ.
Proof.
  induction ops as [|[m' o] ops IH]; intros w m u HW Hh Hheld Hu0 Hu; [done|].
  destruct Hh as (Ha&Hex&Hgd&Hh). destruct Hheld as [Hnow Hheld].
  cbn [run2 fold_left].
  destruct (step3_good w m' o HW Ha Hex Hgd) as (HW'&(s''&E&HG&Hk)&_).
  assert (Hstep : valid (world2_get (fst (step2 w m' o)) m) u ∧
            ∀ ρ, denv (world2_get (fst (step2 w m' o)) m) u ρ = denv (world2_get w m) u ρ).
  { unfold world2_get at 1 2. rewrite E. unfold world.
    destruct (decide (m' = m)) as [->|Hne].
    - rewrite lookup_insert. cbn [default].
      destruct (Hnow eq_refl) as (Hnew&Hh0).
      destruct (Hex Hnew) as [s0 Hs0].
      assert (Es : world2_get w m = s0) by (unfold world2_get; by rewrite Hs0).
      destruct (HW m s0 Hs0) as (_&_&_&L&HL). rewrite Es in *.
      apply (Hk Hnew L HL u Hu0); [|done]. by apply (held_now_heldn s0).
    - rewrite lookup_insert_ne by done. done. }
  destruct Hstep as [Hv1 HD1].
  destruct (IH _ m u HW' Hh Hheld Hu0 Hv1) as [Hv2 HD2]. split; [done|].
  intros ρ. by rewrite HD2, HD1.
Qed.
