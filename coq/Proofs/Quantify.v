(** * Quantify: [_quantify] / [quantify] compute existential and universal
      abstraction (C03) *)
From DD Require Export LevelKeys.

(** assignments that agree outside the quantified levels *)
Definition agree_off (q : gset nat) (a b : nat → bool) : Prop := ∀ j, j ∉ q → a j = b j.

(** meaning of quantifying [u] over the levels [q] at assignment [a] *)
Definition qsem (s : st) (fa : bool) (q : gset nat) (u : Z) (a : nat → bool) : Prop :=
  if fa then ∀ b, agree_off q a b → D s u b = true
  else ∃ b, agree_off q a b ∧ D s u b = true.

(** ** [agree_off] is an equivalence, stable under updates inside [q] *)
Lemma agree_off_refl q a : agree_off q a a.
Proof. by intros j _. Qed.
Lemma agree_off_sym q a b : agree_off q a b → agree_off q b a.
Proof. intros H j Hj. symmetry. by apply H. Qed.
Lemma agree_off_trans q a b c : agree_off q a b → agree_off q b c → agree_off q a c.
Proof. intros H1 H2 j Hj. by rewrite H1, H2. Qed.
Lemma agree_off_upd q a b i x : i ∈ q → agree_off q a b → agree_off q a (upd b i x).
Proof.
  intros Hi H j Hj. rewrite upd_other; [by apply H|]. intros ->. done.
Qed.
Lemma agree_off_empty a b : agree_off ∅ a b ↔ ∀ j, a j = b j.
Proof.
  split; [intros H j; apply H; set_solver|intros H j _; apply H].
Qed.

Lemma bool_eq_iff (x y : bool) : (x = true ↔ y = true) → x = y.
Proof. destruct x, y; intros [H1 H2]; try done; [symmetry; by apply H1|by apply H2]. Qed.

Lemma and_iff_bool (x y : bool) (P Q : Prop) :
  (x = true ↔ P) → (y = true ↔ Q) → (if x then y else false) = true ↔ P ∧ Q.
Proof. destruct x, y; naive_solver. Qed.
Lemma or_iff_bool (x y : bool) (P Q : Prop) :
  (x = true ↔ P) → (y = true ↔ Q) → (if x then true else y) = true ↔ P ∨ Q.
Proof. destruct x, y; naive_solver. Qed.

(** ** Basic facts about [qsem] *)
Lemma qsem_ext s s' fa q u a :
  (∀ b, D s' u b = D s u b) → qsem s' fa q u a ↔ qsem s fa q u a.
Proof.
  intros E. unfold qsem. destruct fa.
  - split; intros H b Hb; [rewrite <- E|rewrite E]; by apply H.
  - split; intros (b&Hb&HD); exists b; (split; [done|]);
      [by rewrite <- E|by rewrite E].
Qed.

Lemma qsem_extends s s' fa q u a :
  extends s s' → Inv s → valid s u → qsem s' fa q u a ↔ qsem s fa q u a.
Proof. intros. apply qsem_ext. intros b. by apply D_extends. Qed.

Lemma qsem_rctx s c fa q u a : qsem (s <| rctx := c |>) fa q u a ↔ qsem s fa q u a.
Proof. apply qsem_ext. intros b. apply D_rctx. Qed.

(** a function that ignores the quantified levels is its own abstraction *)
Lemma qsem_const s fa q u a :
  (∀ b, agree_off q a b → D s u b = D s u a) →
  qsem s fa q u a ↔ D s u a = true.
Proof.
  intros H. unfold qsem. destruct fa.
  - split.
    + intros Hb. apply Hb, agree_off_refl.
    + intros Ha b Hb. by rewrite H.
  - split.
    + intros (b&Hb&HD). by rewrite <- (H b Hb).
    + intros Ha. exists a. split; [apply agree_off_refl|done].
Qed.

(** the abstraction ignores the quantified levels *)
Lemma qsem_agree s fa q u a a' :
  agree_off q a a' → qsem s fa q u a ↔ qsem s fa q u a'.
Proof.
  intros Ha. unfold qsem. destruct fa.
  - split; intros H b Hb; apply H.
    + by eapply agree_off_trans.
    + eapply agree_off_trans; [by apply agree_off_sym|done].
  - split; intros (b&Hb&HD); exists b; (split; [|done]).
    + eapply agree_off_trans; [by apply agree_off_sym|done].
    + by eapply agree_off_trans.
Qed.

(** Shannon expansion of the abstraction at a quantified level *)
Lemma qsem_node_in s (HI : Inv s) fa q u v w i a :
  valid s v → valid s w → i < lvl_of s v → i < lvl_of s w →
  (∀ b, D s u b = if b i then D s w b else D s v b) →
  i ∈ q →
  qsem s fa q u a ↔
    if fa then qsem s fa q v a ∧ qsem s fa q w a
    else qsem s fa q v a ∨ qsem s fa q w a.
Proof.
  intros Hv Hw Hlv Hlw HD Hi. unfold qsem. destruct fa.
  - split.
    + intros H. split; intros b Hb.
      * specialize (H (upd b i false) (agree_off_upd q a b i false Hi Hb)).
        rewrite HD, upd_same in H. by rewrite (D_upd_above s HI v) in H.
      * specialize (H (upd b i true) (agree_off_upd q a b i true Hi Hb)).
        rewrite HD, upd_same in H. by rewrite (D_upd_above s HI w) in H.
    + intros [H0 H1] b Hb. rewrite HD. destruct (b i); [by apply H1|by apply H0].
  - split.
    + intros (b&Hb&Hu). rewrite HD in Hu. destruct (b i); [right|left]; by exists b.
    + intros [(b&Hb&Hu)|(b&Hb&Hu)].
      * exists (upd b i false). split; [by apply agree_off_upd|].
        rewrite HD, upd_same. by rewrite (D_upd_above s HI v).
      * exists (upd b i true). split; [by apply agree_off_upd|].
        rewrite HD, upd_same. by rewrite (D_upd_above s HI w).
Qed.

(** ... and at a level that is not quantified *)
Lemma qsem_node_out s fa q u v w i a :
  (∀ b, D s u b = if b i then D s w b else D s v b) →
  i ∉ q →
  qsem s fa q u a ↔ if a i then qsem s fa q w a else qsem s fa q v a.
Proof.
  intros HD Hi. unfold qsem. destruct fa.
  - split.
    + intros H. destruct (a i) eqn:Ea; intros b Hb;
        specialize (H b Hb); rewrite HD, <- (Hb i Hi), Ea in H; done.
    + intros H b Hb. rewrite HD, <- (Hb i Hi).
      destruct (a i); by apply H.
  - split.
    + intros (b&Hb&Hu). rewrite HD, <- (Hb i Hi) in Hu.
      destruct (a i); by exists b.
    + intros H. destruct (a i) eqn:Ea; destruct H as (b&Hb&Hu);
        exists b; (split; [done|]); by rewrite HD, <- (Hb i Hi), Ea.
Qed.

(** ** [_flip] *)
Lemma valid_flip s r u : valid s r → valid s (flip r u).
Proof. intros. unfold flip. case_decide; [by apply valid_neg|done]. Qed.
Lemma lvl_flip s r u : lvl_of s (flip r u) = lvl_of s r.
Proof. unfold flip. case_decide; [by rewrite lvl_neg|done]. Qed.

(** ** the [while] loop that skips the quantified levels above the node *)
Lemma elem_of_drop_while {A} (p : A → bool) l x :
  x ∈ l → p x = false → x ∈ drop_while p l.
Proof.
  intros Hx Hp. induction l as [|y l IH]; [done|]. cbn [drop_while].
  destruct (p y) eqn:Ey; [|done].
  apply elem_of_cons in Hx as [->|Hx]; [congruence|by apply IH].
Qed.

Lemma elem_of_skip_below i ord j : j ∈ ord → i ≤ j → j ∈ skip_below i ord.
Proof.
  intros Hj Hij. apply elem_of_drop_while; [done|].
  apply bool_decide_eq_false_2. lia.
Qed.

(** ** Invariants of the recursion *)

(** [ord] still lists every quantified level at or below the node [u] *)
Definition ord_ok (s : st) (u : Z) (ord : list nat) (q : gset nat) : Prop :=
  ∀ j, j ∈ q → lvl_of s u ≤ j → j ∈ ord.

(** the memo (keyed by the signed reference) holds abstractions *)
Definition cache_ok (s : st) (q : gset nat) (fa : bool) (cache : gmap Z Z) : Prop :=
  ∀ k x, cache !! k = Some x →
    valid s k ∧ valid s x ∧ lvl_of s k ≤ lvl_of s x ∧
    ∀ a, D s x a = true ↔ qsem s fa q k a.

Lemma cache_ok_empty s q fa : cache_ok s q fa ∅.
Proof. intros k x Hk. by rewrite lookup_empty in Hk. Qed.

Lemma cache_ok_extends s s' q fa cache :
  Inv s → extends s s' → cache_ok s q fa cache → cache_ok s' q fa cache.
Proof.
  intros HI He Hc k x Hk. destruct (Hc k x Hk) as (Hvk&Hvx&Hl&HD).
  split_and!; [by apply (valid_extends s s')..| |].
  - by rewrite !(lvl_extends s s').
  - intros a. rewrite (D_extends s s' x), (qsem_extends s s') by done. apply HD.
Qed.

Lemma ord_ok_sorted_levels s u q : ord_ok s u (sorted_levels q) q.
Proof.
  intros j Hj _. unfold sorted_levels. rewrite merge_sort_Permutation.
  by apply elem_of_elements.
Qed.

Lemma min3_lt m a b c : m ≤ a → m ≤ b → m ≤ c → m ≤ a `min` b `min` c.
Proof. lia. Qed.

(** ** The recursion [_quantify] *)
Theorem quantify_rec_spec fuel : ∀ s u ord q fa cache r s',
  Inv s → valid s u → no_reorder s →
  ord_ok s u ord q →
  cache_ok s q fa cache →
  nvars s - lvl_of s u < fuel →
  quantify_rec fuel u ord q fa cache s = (r, s') →
  Inv s' ∧ extends s s' ∧ frame s s' ∧
  match r with
  | Ok (x, cache') => valid s' x ∧ lvl_of s u ≤ lvl_of s' x ∧ cache_ok s' q fa cache' ∧
        ∀ a, D s' x a = true ↔ qsem s fa q u a
  | Err e => benign s e
  end.
Proof.
  induction fuel as [|f IH]; intros s u ord q fa cache r s' HI Hu Hnr Hord Hc Hfuel; [lia|].
  cbn [quantify_rec].
  destruct (node_cases s HI u Hu) as [[E El]|(t&Ht&Hn1&Hlo&Hl&Hln&Hvl&Hvh&Hhp&Hll&Hlh&Hne)].
  { (* terminal *)
    rewrite decide_True by (split; [done|apply Hu]).
    intros [= <- <-]. split; [done|split; [reflexivity|split; [reflexivity|]]].
    split; [done|split; [done|split; [done|]]].
    intros a. symmetry. apply qsem_const. intros b _. by rewrite !D_term. }
  rewrite decide_False by (intros [? ?]; done).
  destruct (cache !! u) as [x|] eqn:Hcu.
  { (* memo hit *)
    intros [= <- <-]. destruct (Hc u x Hcu) as (_&Hx&Hxl&HxD).
    split; [done|split; [reflexivity|split; [reflexivity|]]].
    split; [done|split; [done|split; [done|]]]. done. }
  rewrite (bind_ok _ _ _ _ _ (getsuccZ_ok s u t (proj1 Hu) Ht)).
  unfold is_term, assert. rewrite bool_decide_eq_false_2 by done. cbn [negb].
  rewrite (bind_ok _ _ s tt s) by done.
  cbv zeta.
  set (i := t_lvl t) in *. set (v := flip (t_lo t) u). set (w := flip (t_hi t) u).
  assert (Hv : valid s v) by (by apply valid_flip).
  assert (Hw : valid s w) by (by apply valid_flip).
  assert (Hlv : i < lvl_of s v) by (unfold v; by rewrite lvl_flip).
  assert (Hlw : i < lvl_of s w) by (unfold w; by rewrite lvl_flip).
  assert (HDu : ∀ b, D s u b = if b i then D s w b else D s v b).
  { intros b. rewrite (D_step s HI u b t Hu Ht Hn1). unfold v, w.
    rewrite !D_flip by done. fold i. by destruct (b i). }
  clearbody v w. clear Hvl Hvh Hhp Hll Hlh Hne Hlo.
  destruct (skip_below i ord) as [|k ord'] eqn:Eo.
  { (* no quantified level at or below the node *)
    intros [= <- <-]. split; [done|split; [reflexivity|split; [reflexivity|]]].
    split; [done|split; [done|split; [done|]]].
    intros a. symmetry. apply qsem_const. intros b Hb.
    apply (D_indep s HI); [done|]. intros j Hj. symmetry. apply Hb.
    intros Hjq. pose proof (elem_of_skip_below i ord j (Hord j Hjq Hj)) as Hin.
    rewrite Eo in Hin. rewrite Hl in Hj. specialize (Hin Hj). by apply elem_of_nil in Hin. }
  assert (Hord' : ∀ s0 x, lvl_of s0 x = lvl_of s x → i < lvl_of s x →
            ord_ok s0 x (k :: ord') q).
  { intros s0 x Ex Hx j Hjq Hj. rewrite <- Eo. apply elem_of_skip_below; [|lia].
    apply Hord; [done|lia]. }
  (* low cofactor *)
  destruct (quantify_rec f v (k :: ord') q fa cache s) as [rp s1] eqn:Ep.
  pose proof Ep as Ep'.
  apply IH in Ep' as (HI1&He1&Hf1&Hp); [|done|done|done|by apply Hord'|done|lia].
  destruct rp as [[p c1]|e]; cycle 1.
  { rewrite (bind_err _ _ _ _ _ Ep). intros [= <- <-].
    by split_and!. }
  rewrite (bind_ok _ _ _ _ _ Ep). destruct Hp as (Hpv&Hpl&Hc1&HpD).
  (* high cofactor, in the extended manager *)
  assert (Hnv1 : nvars s1 = nvars s) by (by apply extends_nvars).
  assert (Hw1 : valid s1 w) by (by apply (valid_extends s s1)).
  assert (Elw1 : lvl_of s1 w = lvl_of s w) by (by apply lvl_extends).
  assert (Hnr1 : no_reorder s1) by (by apply (no_reorder_frame s s1)).
  destruct (quantify_rec f w (k :: ord') q fa c1 s1) as [rq s2] eqn:Eq.
  pose proof Eq as Eq'.
  apply IH in Eq' as (HI2&He2&Hf2&Hq);
    [|done|done|done|by apply Hord'|done|rewrite Hnv1, Elw1; lia].
  destruct rq as [[q' c2]|e]; cycle 1.
  { rewrite (bind_err _ _ _ _ _ Eq). intros [= <- <-].
    split_and!; [done|by etrans|by etrans|]. exact (benign_frame _ _ _ Hf1 Hq). }
  rewrite (bind_ok _ _ _ _ _ Eq). destruct Hq as (Hqv&Hql&Hc2&HqD).
  rewrite Elw1 in Hql.
  assert (He02 : extends s s2) by (by etrans).
  assert (Hnv2 : nvars s2 = nvars s) by (by apply extends_nvars).
  assert (Hpv2 : valid s2 p) by (by apply (valid_extends s1 s2)).
  assert (Hpl2 : i < lvl_of s2 p) by (rewrite (lvl_extends s1 s2) by done; lia).
  assert (Hql2 : i < lvl_of s2 q') by lia.
  assert (Hnr2 : no_reorder s2) by (by apply (no_reorder_frame s1 s2)).
  assert (HpD2 : ∀ a, D s2 p a = true ↔ qsem s fa q v a).
  { intros a. rewrite (D_extends s1 s2 p) by done. apply HpD. }
  assert (HqD2 : ∀ a, D s2 q' a = true ↔ qsem s fa q w a).
  { intros a. rewrite HqD. by apply qsem_extends. }
  clear HpD HqD Hpl Hql.
  (* the node: conjunction / disjunction of the cofactors, or a node at [i] *)
  set (m := if decide (i ∈ q)
            then if fa then ite p q' (-1) else ite p 1 q'
            else find_or_add i p q').
  destruct (m s2) as [rw s3] eqn:Ew.
  assert (Hm : Inv s3 ∧ extends s2 s3 ∧ frame s2 s3 ∧
            match rw with
            | Ok x => valid s3 x ∧ i ≤ lvl_of s3 x ∧
                      ∀ a, D s3 x a = true ↔ qsem s fa q u a
            | Err e => benign s2 e
            end).
  { subst m. destruct (decide (i ∈ q)) as [Hiq|Hiq]; [destruct fa|].
    - (* forall: p /\ q *)
      apply ite_spec in Ew as (HI3&He3&Hf3&Hr); [|done|done|done|by apply valid_m1|done].
      split; [done|split; [done|split; [done|]]].
      destruct rw as [x|e]; [|done]. destruct Hr as (Hxv&Hxl&HxD).
      split; [done|split].
      + etrans; [|exact Hxl]. unfold minlvl3. apply min3_lt; [lia|lia|].
        rewrite (lvl_term s2 HI2 (-1)) by done. lia.
      + intros a. rewrite HxD, (D_m1 s2 HI2).
        rewrite (qsem_node_in s HI true q u v w i a Hv Hw Hlv Hlw HDu Hiq).
        apply and_iff_bool; [apply HpD2|apply HqD2].
    - (* exists: p \/ q *)
      apply ite_spec in Ew as (HI3&He3&Hf3&Hr); [|done|done|by apply valid_1|done|done].
      split; [done|split; [done|split; [done|]]].
      destruct rw as [x|e]; [|done]. destruct Hr as (Hxv&Hxl&HxD).
      split; [done|split].
      + etrans; [|exact Hxl]. unfold minlvl3. apply min3_lt; [lia| |lia].
        rewrite (lvl_term s2 HI2 1) by done. lia.
      + intros a. rewrite HxD, (D_1 s2 HI2).
        rewrite (qsem_node_in s HI false q u v w i a Hv Hw Hlv Hlw HDu Hiq).
        apply or_iff_bool; [apply HpD2|apply HqD2].
    - (* the level is kept *)
      apply find_or_add_spec in Ew as (HI3&He3&Hf3&Hr); [|done..].
      split; [done|split; [done|split; [done|]]].
      destruct rw as [x|e]; [|by destruct Hr as (?&_)].
      destruct Hr as (Hxv&Hxl&HxD). split; [done|split; [done|]].
      intros a. rewrite HxD.
      rewrite (qsem_node_out s fa q u v w i a HDu Hiq).
      destruct (a i); [apply HqD2|apply HpD2]. }
  clearbody m. destruct Hm as (HI3&He3&Hf3&Hr).
  destruct rw as [x|e]; cycle 1.
  { rewrite (bind_err _ _ _ _ _ Ew). intros [= <- <-].
    split_and!; [done|by etrans|by do 2 etrans|]. exact (benign_frame _ _ _ Hf1 (benign_frame _ _ _ Hf2 Hr)). }
  rewrite (bind_ok _ _ _ _ _ Ew). destruct Hr as (Hxv&Hxl&HxD).
  cbn [ret]. intros [= <- <-].
  assert (He03 : extends s s3) by (by etrans).
  split; [done|split; [done|split; [by do 2 etrans|]]].
  split; [done|split; [lia|split; [|done]]].
  intros k' x' Hk. destruct (decide (k' = u)) as [->|Hku].
  - rewrite lookup_insert in Hk. injection Hk as <-.
    split_and!; [by apply (valid_extends s s3)|done| |].
    + rewrite (lvl_extends s s3) by done. lia.
    + intros a. rewrite HxD. symmetry. by apply qsem_extends.
  - rewrite lookup_insert_ne in Hk by done.
    by apply (cache_ok_extends s2 s3 q fa c2 HI2 He3 Hc2).
Qed.

(** ** [_map_to_level] only reads the variable tables *)
Definition ro {A} (m : MS A) : Prop :=
  ∀ s b, m (s <| rctx := b |>) = (fst (m s), s <| rctx := b |>).

Lemma st_rctx_id s : s <| rctx := rctx s |> = s.
Proof. by destruct s. Qed.
Lemma ro_run {A} (m : MS A) s : ro m → m s = (fst (m s), s).
Proof. intros H. specialize (H s (rctx s)). by rewrite st_rctx_id in H. Qed.
Lemma ro_ret {A} (a : A) : ro (ret a).
Proof. by intros s b. Qed.
Lemma ro_raise {A} e : ro (raise (A:=A) e).
Proof. by intros s b. Qed.
Lemma ro_bind {A B} (m : MS A) (f : A → MS B) :
  ro m → (∀ a, ro (f a)) → ro (bind m f).
Proof.
  intros Hm Hf s b. unfold bind. rewrite Hm.
  pose proof (ro_run m s Hm) as E. destruct (m s) as [r s1]. cbn in E.
  injection E as ->. cbn [fst]. destruct r as [a|e]; [apply Hf|done].
Qed.
Lemma ro_map_key bn first k : ro (map_key bn first k).
Proof.
  intros s b. unfold map_key. cbn [bind get].
  change (vars (s <| rctx := b |>)) with (vars s).
  change (lvl2var (s <| rctx := b |>)) with (lvl2var s).
  destruct bn; [destruct (vars s !! k)|destruct (lvl2var s !! k)]; done.
Qed.
Lemma ro_forM {A} (f : A → MS unit) l : (∀ a, ro (f a)) → ro (forM l f).
Proof.
  intros Hf. induction l as [|a l IH]; cbn [forM]; [apply ro_ret|].
  apply ro_bind; [apply Hf|by intros _].
Qed.
Lemma ro_mapM {A B} (f : A → MS B) l : (∀ a, ro (f a)) → ro (mapM f l).
Proof.
  intros Hf. induction l as [|a l IH]; cbn [mapM]; [apply ro_ret|].
  apply ro_bind; [apply Hf|intros c]. apply ro_bind; [done|intros cs]. apply ro_ret.
Qed.
Lemma ro_map_to_level_set bn ks : ro (map_to_level_set bn ks).
Proof.
  unfold map_to_level_set. destruct ks as [|k rest]; [apply ro_ret|].
  apply ro_bind.
  { destruct bn; [apply ro_ret|]. apply ro_forM. intros a.
    apply ro_bind; [apply ro_map_key|intros _; apply ro_ret]. }
  intros _. apply ro_bind; [apply ro_map_key|intros l].
  apply ro_bind; [apply ro_mapM; intros; apply ro_map_key|intros ls]. apply ro_ret.
Qed.

(** the state is returned unchanged, and the context flag is not read *)
Lemma map_to_level_set_state bn ks s :
  map_to_level_set bn ks s = (fst (map_to_level_set bn ks s), s).
Proof. apply ro_run, ro_map_to_level_set. Qed.
Lemma map_to_level_set_rctx bn ks s b :
  map_to_level_set bn ks (s <| rctx := b |>)
  = (fst (map_to_level_set bn ks s), s <| rctx := b |>).
Proof. apply ro_map_to_level_set. Qed.

(** what [_map_to_level] returns for declared names, and for declared levels *)
Lemma map_key_name s first k l :
  vars s !! k = Some l → map_key true first k s = (Ok l, s).
Proof. intros H. unfold map_key. cbn [bind get]. by rewrite H. Qed.
Lemma map_key_level s first k :
  is_Some (lvl2var s !! k) → map_key false first k s = (Ok k, s).
Proof. intros [x H]. unfold map_key. cbn [bind get]. by rewrite H. Qed.

Lemma map_to_level_set_names s ks ls :
  Forall2 (λ k l, vars s !! k = Some l) ks ls →
  map_to_level_set true ks s = (Ok (list_to_set ls), s).
Proof.
  assert (Hm : ∀ ks ls, Forall2 (λ k l, vars s !! k = Some l) ks ls →
            mapM (map_key true false) ks s = (Ok ls, s)).
  { induction 1 as [|k l ks' ls' Hk _ IH]; [done|]. cbn [mapM].
    rewrite (bind_ok _ _ _ _ _ (map_key_name s false k l Hk)).
    by rewrite (bind_ok _ _ _ _ _ IH). }
  intros [|k l ks' ls' Hk Hr]; [done|]. unfold map_to_level_set.
  rewrite (bind_ok _ _ s tt s) by done.
  rewrite (bind_ok _ _ _ _ _ (map_key_name s true k l Hk)).
  by rewrite (bind_ok _ _ _ _ _ (Hm _ _ Hr)).
Qed.

Lemma map_to_level_set_levels s ks :
  Forall (λ k, is_Some (lvl2var s !! k)) ks →
  map_to_level_set false ks s = (Ok (list_to_set ks), s).
Proof.
  assert (Hf : ∀ ks, Forall (λ k, is_Some (lvl2var s !! k)) ks →
            forM ks (λ k, map_key false true k ;;; ret tt) s = (Ok tt, s)).
  { induction 1 as [|k ks' Hk _ IH]; [done|]. cbn [forM].
    rewrite (bind_ok _ _ s tt s); [done|].
    by rewrite (bind_ok _ _ _ _ _ (map_key_level s true k Hk)). }
  assert (Hm : ∀ ks, Forall (λ k, is_Some (lvl2var s !! k)) ks →
            mapM (map_key false false) ks s = (Ok ks, s)).
  { induction 1 as [|k ks' Hk _ IH]; [done|]. cbn [mapM].
    rewrite (bind_ok _ _ _ _ _ (map_key_level s false k Hk)).
    by rewrite (bind_ok _ _ _ _ _ IH). }
  intros Hall. destruct ks as [|k rest]; [done|]. unfold map_to_level_set.
  rewrite (bind_ok _ _ _ _ _ (Hf _ Hall)).
  apply Forall_cons in Hall as [Hk Hr].
  rewrite (bind_ok _ _ _ _ _ (map_key_level s true k Hk)).
  by rewrite (bind_ok _ _ _ _ _ (Hm _ Hr)).
Qed.

(** ** The decorated method [quantify] *)

(** with the hypothesis on the level set stated in the reordering context;
    for every value of [max_nodes]: the error clause is [benign] *)
Lemma quantify_names_any_ctx s u qvars fa q r s' :
  Inv s → valid s u → last_len s = None →
  map_to_level_set true qvars (s <| rctx := true |>) = (Ok q, s <| rctx := true |>) →
  quantify_names u qvars fa s = (r, s') →
  match r with
  | Ok x => Inv s' ∧ extends s s' ∧ valid s' x ∧
            ∀ a, D s' x a = true ↔ qsem s fa q u a
  | Err e => benign s e
  end.
Proof.
  intros HI Hu Hoff Hq Hrun. unfold quantify_names in Hrun.
  apply try_to_reorder_inert in Hrun as (r1&s1&Hrun&Hcase).
  set (s0 := s <| rctx := true |>) in *.
  rewrite (bind_ok _ _ _ _ _ Hq) in Hrun. cbn [bind get] in Hrun.
  assert (HI0 : Inv s0) by (by apply Inv_rctx).
  destruct (quantify_rec (S (S (nvars s0))) u (sorted_levels q) q fa ∅ s0)
    as [rr s2] eqn:Er.
  pose proof Er as Er'.
  apply quantify_rec_spec in Er' as (HI2&He2&Hf2&Hr);
    [|done|done|by left|apply ord_ok_sorted_levels|apply cache_ok_empty|lia].
  assert (Hll : last_len s0 = None) by done.
  destruct rr as [[x c]|e]; cycle 1.
  { rewrite (bind_err _ _ _ _ _ Er) in Hrun. injection Hrun as <- <-.
    destruct (benign_off s0 e Hll Hr) as [-> Hb].
    destruct Hcase as [[[=] _]|[-> ->]]. right. by split. }
  rewrite (bind_ok _ _ _ _ _ Er) in Hrun. cbn [ret fst] in Hrun.
  injection Hrun as <- <-.
  destruct Hcase as [[[=] _]|[-> ->]].
  destruct Hr as (Hxv&_&_&HxD).
  split; [by apply Inv_rctx|split; [done|split; [done|]]].
  intros a. rewrite D_rctx, HxD. apply qsem_rctx.
Qed.

Lemma quantify_names_spec_ctx s u qvars fa q r s' :
  Inv s → valid s u → last_len s = None → max_nodes s = None →
  map_to_level_set true qvars (s <| rctx := true |>) = (Ok q, s <| rctx := true |>) →
  quantify_names u qvars fa s = (r, s') →
  ∃ x, r = Ok x ∧ Inv s' ∧ extends s s' ∧ valid s' x ∧
       ∀ a, D s' x a = true ↔ qsem s fa q u a.
Proof.
  intros HI Hu Hoff Hmx Hq Hrun.
  pose proof (quantify_names_any_ctx s u qvars fa q r s' HI Hu Hoff Hq Hrun) as H.
  destruct r as [x|e]; [by exists x|]. by destruct (benign_never s e Hoff Hmx).
Qed.

(** keys given as levels: the prelude (read-only) turns them into the names
    of the variables at these levels NOW, and these names map back to the same
    level set *)
Lemma quantify_levels_run s u qvars fa q sx :
  fst (map_to_level_set false qvars sx) = Ok q → lvl2var sx = lvl2var s →
  Forall (declared_lvl s) qvars ∧ q = list_to_set qvars ∧
  set_Forall (declared_lvl s) q ∧
  quantify u false qvars fa s = quantify_names u (names_at s q) fa s.
Proof.
  intros Hq El. rewrite map_to_level_set_false in Hq. cbn [fst] in Hq.
  destruct (decide (Forall (declared_lvl sx) qvars)) as [Hall|]; [|done].
  injection Hq as <-.
  assert (Hall' : Forall (declared_lvl s) qvars).
  { eapply Forall_impl; [exact Hall|]. intros p. unfold declared_lvl. by rewrite El. }
  split; [done|split; [done|split]].
  - by apply level_set_declared.
  - rewrite quantify_levels_unfold. by rewrite decide_True.
Qed.

Theorem quantify_spec_ctx s u byname qvars fa q r s' :
  Inv s → valid s u → last_len s = None → max_nodes s = None →
  map_to_level_set byname qvars (s <| rctx := true |>) = (Ok q, s <| rctx := true |>) →
  quantify u byname qvars fa s = (r, s') →
  ∃ x, r = Ok x ∧ Inv s' ∧ extends s s' ∧ valid s' x ∧
       ∀ a, D s' x a = true ↔ qsem s fa q u a.
Proof.
  destruct byname; [apply quantify_names_spec_ctx|].
  intros HI Hu Hoff Hmx Hq Hrun.
  destruct (quantify_levels_run s u qvars fa q (s <| rctx := true |>)) as (_&_&Hd&E);
    [by rewrite Hq|done|].
  rewrite E in Hrun.
  apply (quantify_names_spec_ctx s u (names_at s q) fa q r s'); try done.
  by apply level_set_roundtrip.
Qed.

Theorem quantify_spec s u byname qvars fa q r s' :
  Inv s → valid s u → last_len s = None → max_nodes s = None →
  fst (map_to_level_set byname qvars s) = Ok q →
  quantify u byname qvars fa s = (r, s') →
  ∃ x, r = Ok x ∧ Inv s' ∧ extends s s' ∧ valid s' x ∧
       ∀ a, D s' x a = true ↔ qsem s fa q u a.
Proof.
  intros HI Hu Hoff Hmx Hq. apply quantify_spec_ctx; try done.
  by rewrite map_to_level_set_rctx, Hq.
Qed.

(** the same for every value of [max_nodes] *)
Theorem quantify_any_ctx s u byname qvars fa q r s' :
  Inv s → valid s u → last_len s = None →
  map_to_level_set byname qvars (s <| rctx := true |>) = (Ok q, s <| rctx := true |>) →
  quantify u byname qvars fa s = (r, s') →
  match r with
  | Ok x => Inv s' ∧ extends s s' ∧ valid s' x ∧
            ∀ a, D s' x a = true ↔ qsem s fa q u a
  | Err e => benign s e
  end.
Proof.
  destruct byname; [apply quantify_names_any_ctx|].
  intros HI Hu Hoff Hq Hrun.
  destruct (quantify_levels_run s u qvars fa q (s <| rctx := true |>)) as (_&_&Hd&E);
    [by rewrite Hq|done|].
  rewrite E in Hrun.
  apply (quantify_names_any_ctx s u (names_at s q) fa q r s'); try done.
  by apply level_set_roundtrip.
Qed.

Theorem quantify_any s u byname qvars fa q r s' :
  Inv s → valid s u → last_len s = None →
  fst (map_to_level_set byname qvars s) = Ok q →
  quantify u byname qvars fa s = (r, s') →
  match r with
  | Ok x => Inv s' ∧ extends s s' ∧ valid s' x ∧
            ∀ a, D s' x a = true ↔ qsem s fa q u a
  | Err e => benign s e
  end.
Proof.
  intros HI Hu Hoff Hq. apply quantify_any_ctx; try done.
  by rewrite map_to_level_set_rctx, Hq.
Qed.

(** the result does not depend on the quantified levels *)
Corollary quantify_indep s u byname qvars fa q x s' a a' :
  Inv s → valid s u → last_len s = None →
  fst (map_to_level_set byname qvars s) = Ok q →
  quantify u byname qvars fa s = (Ok x, s') →
  agree_off q a a' → D s' x a = D s' x a'.
Proof.
  intros HI Hu Hoff Hq Hrun Ha.
  destruct (quantify_any _ _ _ _ _ _ _ _ HI Hu Hoff Hq Hrun) as (_&_&_&HD).
  apply bool_eq_iff. rewrite !HD. by apply qsem_agree.
Qed.

(** quantifying over levels the function does not depend on (in particular
    over no level at all) returns the very same reference *)
Corollary quantify_noop s u byname qvars fa q x s' :
  Inv s → valid s u → last_len s = None →
  fst (map_to_level_set byname qvars s) = Ok q →
  quantify u byname qvars fa s = (Ok x, s') →
  (∀ a b, agree_off q a b → D s u a = D s u b) →
  x = u.
Proof.
  intros HI Hu Hoff Hq Hrun Hind.
  destruct (quantify_any _ _ _ _ _ _ _ _ HI Hu Hoff Hq Hrun) as (HI'&He&Hx&HD).
  apply (canonical_levels s' HI'); [done|by apply (valid_extends s s')|].
  intros a. apply bool_eq_iff. rewrite HD, (D_extends s s' u) by done.
  apply qsem_const. intros b Hb. symmetry. by apply Hind.
Qed.

Corollary quantify_noop_empty s u byname qvars fa x s' :
  Inv s → valid s u → last_len s = None →
  fst (map_to_level_set byname qvars s) = Ok ∅ →
  quantify u byname qvars fa s = (Ok x, s') →
  x = u.
Proof.
  intros HI Hu Hoff Hq Hrun.
  apply (quantify_noop s u byname qvars fa ∅ x s' HI Hu Hoff Hq Hrun).
  intros a b Hab. apply (D_indep s HI); [done|]. intros j _.
  by apply (proj1 (agree_off_empty a b)).
Qed.
