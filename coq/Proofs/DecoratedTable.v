(** * The retry decorator's coverage and the reordering thresholds: the tables
      regenerated from dd/bdd.py ([Generated/PyConsts.v]) against the model. *)
From DD Require Export Parser.
From DD Require Export Generated.PyConsts.
Local Open Scope string_scope.

(** the methods of [dd.bdd.BDD] the model wraps with [try_to_reorder];
    [reduction] is a Python-only utility that is not modelled *)
Definition model_decorated : list string :=
  ["_quantify_vars"; "add_expr"; "cofactor"; "compose"; "cube"; "ite"; "reduction"; "rename"; "var"].

Lemma decorated_table : py_decorated = model_decorated.
Proof. reflexivity. Qed.

Lemma thresholds :
  (py_REORDER_STARTS, py_REORDER_FACTOR, py_GROWTH_FACTOR)
  = (REORDER_STARTS, REORDER_FACTOR, GROWTH_FACTOR).
Proof. reflexivity. Qed.

(** each of them IS a decorated computation in the model *)
Lemma model_is_decorated :
  (∀ g u v, ∃ body, ite g u v = try_to_reorder body) ∧
  (∀ n, ∃ body, var n = try_to_reorder body) ∧
  (∀ u b vs, ∃ body, cofactor u b vs = try_to_reorder body) ∧
  (∀ u b q fa, ∃ body, quantify u b q fa = try_to_reorder body) ∧
  (∀ f sub, ∃ body, compose f sub = try_to_reorder body) ∧
  (∀ u d, ∃ body, rename u d = try_to_reorder body) ∧
  (∀ d, ∃ body, cube d = try_to_reorder body) ∧
  (∀ lt rw P sp, ∃ body, add_expr lt rw P sp = try_to_reorder body).
Proof. repeat split; intros; eexists; reflexivity. Qed.
