(** * The retry decorator's coverage and the reordering thresholds: the tables
      regenerated from dd/bdd.py ([Generated/PyConsts.v]) against the model. *)
From DD Require Export Parser.
From DD Require Export Generated.PyConsts.
Local Open Scope string_scope.

(** the methods of [dd.bdd.BDD] the model wraps with [try_to_reorder];
    [reduction] is a Python-only utility that is not modelled *)
Definition model_decorated : list string :=
  ["_cofactor_vars"; "_cube_of_literals"; "_quantify_vars"; "add_expr"; "compose"; "ite"; "reduction"; "rename"; "var"].

Lemma decorated_table : py_decorated = model_decorated.
Proof. reflexivity. Qed.

Lemma thresholds :
  (py_REORDER_STARTS, py_REORDER_FACTOR, py_GROWTH_FACTOR)
  = (REORDER_STARTS, REORDER_FACTOR, GROWTH_FACTOR).
Proof. reflexivity. Qed.

(** each of them IS a decorated computation in the model; the public
    [cofactor] and [quantify] are NOT decorated: they turn their keys into
    variable names (levels are read against the order at the time of the call)
    and call the decorated workers [cofactor_names] / [quantify_names] *)
Lemma model_is_decorated :
  (∀ g u v, ∃ body, ite g u v = try_to_reorder body) ∧
  (∀ n, ∃ body, var n = try_to_reorder body) ∧
  (∀ u vs, ∃ body, cofactor_names u vs = try_to_reorder body) ∧
  (∀ u q fa, ∃ body, quantify_names u q fa = try_to_reorder body) ∧
  (∀ u vs, cofactor u true vs = cofactor_names u vs) ∧
  (∀ u vs, cofactor u false vs =
     (lv <- map_to_level_dict false vs ;;
      nv <- mapM (fun '(l, a) => v <- var_at_level l ;; ret (v, a)) (map_to_list lv) ;;
      cofactor_names u nv)) ∧
  (∀ u q fa, quantify u true q fa = quantify_names u q fa) ∧
  (∀ u q fa, quantify u false q fa =
     (ls <- map_to_level_set false q ;;
      names <- mapM var_at_level (elements ls) ;;
      quantify_names u names fa)) ∧
  (∀ f sub, ∃ body, compose f sub = try_to_reorder body) ∧
  (∀ u d, ∃ body, rename u d = try_to_reorder body) ∧
  (∀ d, ∃ body, cube d = try_to_reorder body) ∧
  (∀ lt rw P sp, ∃ body, add_expr lt rw P sp = try_to_reorder body).
Proof. repeat split; intros; eexists; reflexivity. Qed.
