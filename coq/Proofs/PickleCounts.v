(** * PickleCounts: the pickle loader ([load_pickle]: [_load_pickle], [_load],
      [load] of dd/bdd.py) keeps the reference counts EXACT.

    What the loader does to the counters ([Model/IO.v]):
    - the variable loop calls [add_var], which rewrites the terminal node
      ([_init_terminal]: the level of node 1) and touches no counter of an
      existing node;
    - the node loop ([guarded]: requests disabled) calls, for every node of
      the file, [find_or_add(j, -1, 1)] and the decorated [ite(g, q, p)]: the
      new nodes are created with counter 0 and the counters of their
      successors are incremented ([find_or_add]); the loader itself performs
      NO [incref] and NO [decref];
    - the returned roots are looked up in [umap]: no [incref].
    Hence the ledger of external references is UNCHANGED:
    [∀ L, Counts r L → Counts r' L] — the caller does not hold the returned
    roots (their counter is their in-degree: 0 for a root that nothing else
    points to, until the caller's [incref]).
    Node limit ([max_nodes]): the total statements ([load_pickle_counts_from],
    [load_pickle_false_total]) hold for ANY limit of the receiver: a load
    stopped by the [RuntimeError] of a full table ([Err ERuntime]) leaves a
    consistent manager with the same ledger.  The round-trip theorems of
    section 8 conclude success and carry [max_nodes r = None], as in
    [Proofs/Pickle.v] (a fresh receiver [init] is unbounded). *)
From DD Require Export Pickle Total.

(** ** 1. [add_var] without [Inv] (in the middle of the variable loop of a
    load with [levels=True] the levels have gaps): it is enough that node 1
    is a terminal *)
Definition has_term (s : st) : Prop := ∃ k, succ s !! 1%positive = Some (tterm k).

Lemma Inv_has_term s : Inv s → has_term s.
Proof. intros HI. exists (nvars s). apply (inv_term _ HI). Qed.

Lemma edges_to_tterm k n : edges_to (tterm k) n = 0.
Proof. unfold edges_to, tterm. cbn. rewrite !decide_False; [done|by intros [? _]..]. Qed.

Lemma indeg_retag m k k' n : m !! 1%positive = Some (tterm k) →
  indeg (<[1%positive := tterm k']> m) n = indeg m n.
Proof.
  intros H. pose proof (indeg_update m 1%positive (tterm k) (tterm k') n H) as E.
  rewrite !edges_to_tterm in E. lia.
Qed.

Lemma Counts_retag s s' L k' :
  has_term s → succ s' = <[1%positive := tterm k']> (succ s) → refc s' = refc s →
  Counts s L → Counts s' L.
Proof.
  intros [k Hk] Es Er [H1 H2].
  assert (Hd : dom (succ s') = dom (succ s)).
  { rewrite Es, dom_insert_L. assert (1%positive ∈ dom (succ s)) by (apply elem_of_dom; by eexists).
    set_solver. }
  split; intros n Hn; rewrite Hd in Hn.
  - rewrite Er, Es, (indeg_retag _ k k' n Hk). by apply H1.
  - by apply H2.
Qed.

Lemma add_var_counts v lvl s r s' : has_term s → add_var v lvl s = (r, s') →
  has_term s' ∧ ∀ L, Counts s L → Counts s' L.
Proof.
  intros Ht. unfold add_var. cbn [bind get]. case_decide as Hex.
  { unfold check_var. cbn [bind get]. destruct (vars s !! v); [|by intros [= <- <-]].
    destruct lvl; [case_decide|]; by intros [= <- <-]. }
  unfold next_free_level. unfold bind at 1 2. cbn [get].
  destruct (lvl2var s !! _); [by intros [= <- <-]|].
  cbn [ret bind modify get]. unfold init_terminal, modify, bind, ret.
  intros [= <- <-].
  match goal with |- has_term ?x ∧ _ => set (s' := x) end.
  destruct Ht as [k Hk].
  assert (∃ k', succ s' = <[1%positive := tterm k']> (succ s)) as [k' Es] by (by eexists).
  split; [exists k'; by rewrite Es, lookup_insert|].
  intros L HL. apply (Counts_retag s s' L k'); [by exists k|done| |done].
  assert (Hr : is_Some (refc s !! 1%positive)).
  { apply (Counts_ref s L); [done|]. apply elem_of_dom. by eexists. }
  destruct Hr as [c Hc].
  change (refc s') with (match refc s !! 1%positive with
                         | Some _ => refc s | None => <[1%positive := 1]> (refc s) end).
  by rewrite Hc.
Qed.

(** ** 2. The variable loop of [_load_pickle], any file, either outcome *)
Definition pickle_vars (n : nat) (levels : bool) : gmap nat nat → list (nat * nat) → MS (gmap nat nat) :=
  foldM (fun (lm : gmap nat nat) '(v, i) =>
           assert (bool_decide (i < n)) ;;;
           j <- add_var v (if levels then Some i else None) ;;
           ret (<[i := j]> lm)).

Lemma pickle_vars_counts n levels vl : ∀ lm0 r res r', has_term r →
  pickle_vars n levels lm0 vl r = (res, r') →
  has_term r' ∧ ∀ L, Counts r L → Counts r' L.
Proof.
  unfold pickle_vars.
  induction vl as [|[v i] vl IH]; intros lm0 r res r' Ht; cbn [foldM].
  { by intros [= <- <-]. }
  unfold bind at 1.
  match goal with |- context [(assert ?b ;;; ?k) r] =>
    destruct ((assert b ;;; k) r) as [rs r1] eqn:Es end.
  assert (H1 : has_term r1 ∧ ∀ L, Counts r L → Counts r1 L).
  { revert Es. destruct (bool_decide (i < n)); cbn [assert].
    - rewrite (bind_ok _ _ r tt r) by done. unfold bind.
      destruct (add_var v _ r) as [[j|e] r2] eqn:E; cbn [ret]; intros [= <- <-];
        by apply (add_var_counts _ _ _ _ _ Ht E).
    - rewrite (bind_err _ _ r EAssert r) by done. by intros [= <- <-]. }
  destruct H1 as [Ht1 HC1]. destruct rs as [lm1|e].
  - intros H. destruct (IH _ _ _ _ Ht1 H) as [Ht' HC']. split; [done|].
    intros L HL. by apply HC', HC1.
  - by intros [= <- <-].
Qed.

(** with [levels=False] the loop only appends variables: [Inv] is kept *)
Lemma pickle_vars_false_total n vl : ∀ lm0 r res r', Inv r →
  pickle_vars n false lm0 vl r = (res, r') →
  Inv r' ∧ frame r r' ∧
  ∀ u, valid r u → valid r' u ∧ ∀ ρ, denv r' u ρ = denv r u ρ.
Proof.
  unfold pickle_vars.
  induction vl as [|[v i] vl IH]; intros lm0 r res r' HI; cbn [foldM].
  { intros [= <- <-]. split; [done|]. split; [reflexivity|done]. }
  unfold bind at 1.
  match goal with |- context [(assert ?b ;;; ?k) r] =>
    destruct ((assert b ;;; k) r) as [rs r1] eqn:Es end.
  assert (H1 : Inv r1 ∧ frame r r1 ∧
               ∀ u, valid r u → valid r1 u ∧ ∀ ρ, denv r1 u ρ = denv r u ρ).
  { revert Es. destruct (bool_decide (i < n)); cbn [assert].
    - rewrite (bind_ok _ _ r tt r) by done. unfold bind.
      destruct (add_var v None r) as [rj r2] eqn:E.
      destruct (add_var_total r v None rj r2 HI E ltac:(done)) as (HI2&Hf2&_&Hd2&_).
      assert (Hg : Inv r2 ∧ frame r r2 ∧
                   ∀ u, valid r u → valid r2 u ∧ ∀ ρ, denv r2 u ρ = denv r u ρ).
      { split; [done|]. split; [done|]. intros u Hu.
        destruct (Hd2 u Hu) as (?&_&?). by split. }
      destruct rj; cbn [ret]; intros [= <- <-]; exact Hg.
    - rewrite (bind_err _ _ r EAssert r) by done. intros [= <- <-].
      split; [done|]. split; [reflexivity|done]. }
  destruct H1 as (HI1&Hf1&Hk1). destruct rs as [lm1|e].
  - intros H. destruct (IH _ _ _ _ HI1 H) as (HI'&Hf'&Hk'). split; [done|].
    split; [by etrans|]. intros u Hu. destruct (Hk1 u Hu) as [Hu1 HD1].
    destruct (Hk' u Hu1) as [Hu' HD']. split; [done|]. intros ρ. by rewrite HD', HD1.
  - by intros [= <- <-].
Qed.

(** ** 3. The node loop: any file, any arguments *)
Lemma tsafe_load_rec fuel : ∀ u fsucc umap lm, tsafe (load_rec fuel u fsucc umap lm).
Proof.
  induction fuel as [|f IH]; intros u fsucc umap lm; cbn [load_rec];
    [apply tsafe_pure, pure_raise|].
  tsafe; first [apply IH | apply tsafe_ite | apply tsafe_find_or_add_var].
Qed.

Definition pickle_nodes (pf : pfile) (lm : gmap nat nat) : MS (gmap positive Z) :=
  foldM (fun umap '(u, _) =>
    if decide (is_Some (umap !! u)) then ret umap else
    r <- load_rec (S (length (pf_succ pf))) (Z.pos u)
           (list_to_map (pf_succ pf)) umap lm ;;
    ret (snd r)) ({[1%positive := 1%Z]} : gmap positive Z) (pf_succ pf).

Lemma tsafe_pickle_nodes pf lm : tsafe (pickle_nodes pf lm).
Proof.
  unfold pickle_nodes. apply tsafe_foldM. intros umap [u t]. tsafe. apply tsafe_load_rec.
Qed.

(** ** 4. The guard *)
Lemma guarded_cases {A} (m : MS A) s r s' : guarded m s = (r, s') →
  (last_len s = None ∧ m s = (r, s')) ∨
  ∃ ll s1, last_len s = Some ll ∧ m (s <| last_len := None |>) = (r, s1) ∧
           s' = s1 <| last_len := Some ll |>.
Proof.
  unfold guarded. cbn [bind get]. destruct (last_len s) as [ll|] eqn:Ell; [|by left].
  cbn [bind modify]. destruct (m (s <| last_len := None |>)) as [r0 s1] eqn:E.
  assert (Hc : catch m (s <| last_len := None |>) = (Ok r0, s1)) by (unfold catch; by rewrite E).
  rewrite (bind_ok _ _ _ _ _ Hc). cbn [bind modify].
  destruct r0; cbn [reraise ret raise]; intros [= <- <-]; right; eauto.
Qed.

(** a computation that is safe while requests are disabled, run through the
    guard from a consistent manager with ANY threshold *)
Lemma guarded_safe {A} (m : MS A) s r s' :
  tsafe m → Inv s → guarded m s = (r, s') → safe s s'.
Proof.
  intros Hs HI H. apply guarded_cases in H as [[Hll H]|(ll&s1&Hll&H&->)].
  - by apply (Hs s r s').
  - set (s0 := s <| last_len := None |>) in *.
    assert (HI0 : Inv s0) by (by apply Inv_set_ll).
    destruct (Hs s0 r s1 HI0 eq_refl H) as (HI1&He&(_&E2&E3&E4&E5)&HC).
    split; [by apply Inv_set_ll|]. split; [exact He|]. split; [by split_and!|].
    intros L HL. apply (Counts_same s1); [done..|]. apply HC. by apply (Counts_same s).
Qed.

(** ** 5. [load_pickle] is the variable loop, the guarded node loop, and a
    read-only lookup of the roots *)
Lemma pure_map_roots (umap : gmap positive Z) (roots : rootsC) :
  pure (let map_node (u : Z) : MS Z :=
          if decide (u = 0%Z) then raise EKey else
          v <- of_opt EKey (umap !! absn u) ;; ret (flip v u) in
        match roots with
        | RNone => ret RNone
        | RList l => l' <- mapM map_node l ;; ret (RList l')
        | RDict d => d' <- mapM (fun '(k, u) => u' <- map_node u ;; ret (k, u')) d ;;
                     ret (RDict d')
        end).
Proof.
  cbv zeta.
  assert (Hn : ∀ u, pure (if decide (u = 0%Z) then raise EKey else
                          v <- of_opt EKey (umap !! absn u) ;; ret (flip v u))).
  { intros u. case_decide; [apply pure_raise|].
    apply pure_bind; [apply pure_of_opt|intros v; apply pure_ret]. }
  destruct roots as [|l|d]; [apply pure_ret| |].
  - apply pure_bind; [apply pure_mapM; intros u; apply Hn|intros l'; apply pure_ret].
  - apply pure_bind; [|intros d'; apply pure_ret]. apply pure_mapM. intros [k u].
    apply pure_bind; [apply Hn|intros u'; apply pure_ret].
Qed.

Lemma load_pickle_run pf levels r00 res r' :
  load_pickle pf levels r00 = (res, r') →
  ∃ rv r1, pickle_vars (length (pf_vars pf)) levels ∅ (pf_vars pf) r00 = (rv, r1) ∧
    match rv with
    | Err e => res = Err e ∧ r' = r1
    | Ok lm => ∃ rn, guarded (pickle_nodes pf lm) r1 = (rn, r')
    end.
Proof.
  unfold load_pickle, load_pickle_nodes. fold (pickle_vars (length (pf_vars pf)) levels).
  destruct (pickle_vars (length (pf_vars pf)) levels ∅ (pf_vars pf) r00) as [rv r1] eqn:Ev.
  intros H. exists rv, r1. split; [done|]. destruct rv as [lm|e].
  - rewrite bind_assoc in H. rewrite (bind_ok _ _ _ _ _ Ev) in H.
    fold (pickle_nodes pf lm) in H.
    destruct (guarded (pickle_nodes pf lm) r1) as [rn r2] eqn:En. exists rn.
    destruct rn as [umap|e].
    + rewrite (bind_ok _ _ _ _ _ En) in H.
      by rewrite (pure_map_roots umap (pf_roots pf) _ _ _ H).
    + rewrite (bind_err _ _ _ _ _ En) in H. by injection H as <- <-.
  - rewrite bind_assoc in H. rewrite (bind_err _ _ _ _ _ Ev) in H. by injection H as <- <-.
Qed.

(** ** 6. The ledger is unchanged by a load, as soon as the manager is
    consistent after the variable loop; either outcome *)
Theorem load_pickle_counts_from pf levels r00 res r' :
  has_term r00 →
  (∀ lm r, pickle_vars (length (pf_vars pf)) levels ∅ (pf_vars pf) r00 = (Ok lm, r) → Inv r) →
  load_pickle pf levels r00 = (res, r') →
  ∀ L, Counts r00 L → Counts r' L.
Proof.
  intros Ht HIv Hrun. apply load_pickle_run in Hrun as (rv&r1&Ev&Hrest).
  destruct (pickle_vars_counts _ _ _ _ _ _ _ Ht Ev) as [_ HC1].
  destruct rv as [lm|e].
  - destruct Hrest as [rn En]. specialize (HIv lm r1 Ev).
    destruct (guarded_safe _ _ _ _ (tsafe_pickle_nodes pf lm) HIv En) as (_&_&_&HC2).
    intros L HL. by apply HC2, HC1.
  - destruct Hrest as [_ ->]. exact HC1.
Qed.

(** ** 7. [levels=False]: ANY file, any consistent receiver, any threshold,
    either outcome: the receiver stays consistent, its references keep their
    meaning, the ledger is unchanged *)
Theorem load_pickle_false_total pf r res r' :
  Inv r → load_pickle pf false r = (res, r') →
  Inv r' ∧ frame r r' ∧ (∀ L, Counts r L → Counts r' L) ∧
  ∀ u, valid r u → valid r' u ∧ ∀ ρ, denv r' u ρ = denv r u ρ.
Proof.
  intros HI Hrun. pose proof Hrun as Hrun0.
  apply load_pickle_run in Hrun as (rv&r1&Ev&Hrest).
  destruct (pickle_vars_false_total _ _ _ _ _ _ HI Ev) as (HI1&Hf1&Hk1).
  assert (HC : ∀ L, Counts r L → Counts r' L).
  { apply (load_pickle_counts_from pf false r res r'); [by apply Inv_has_term| |done].
    intros lm r2 E2. by destruct (pickle_vars_false_total _ _ _ _ _ _ HI E2). }
  destruct rv as [lm|e].
  - destruct Hrest as [rn En].
    destruct (guarded_safe _ _ _ _ (tsafe_pickle_nodes pf lm) HI1 En) as (HI'&He&Hf'&_).
    split; [done|]. split; [by etrans|]. split; [done|].
    intros u Hu. destruct (Hk1 u Hu) as [Hu1 HD1]. split; [by apply (valid_extends r1 r')|].
    intros ρ. rewrite <- HD1. apply (same_fun_extends r1 r1 r' u u HI1 He). by split.
  - destruct Hrest as [_ ->]. by split_and!.
Qed.

(** ** 8. The round-trip theorems of [Proofs/Pickle.v] with the ledger *)

(** a fresh manager: the only external reference is the manager's own
    reference to the terminal node *)
Lemma Counts_init_iff L : Counts init L ↔ ∀ n, L n = if decide (n = 1%positive) then 1 else 0.
Proof.
  rewrite init_vstate.
  assert (Es : succ (vstate ∅ ∅ 0) = {[1%positive := tterm 0]}) by done.
  assert (Er : refc (vstate ∅ ∅ 0) = {[1%positive := 1]}) by done.
  assert (Hi : indeg (succ (vstate ∅ ∅ 0)) 1%positive = 0).
  { rewrite Es. rewrite <- insert_empty, indeg_insert_fresh by done.
    by rewrite edges_to_tterm, indeg_empty. }
  unfold Counts. rewrite Er. rewrite Es in *. split.
  - intros [H1 H2] n. case_decide as Hn.
    + subst n. specialize (H1 1%positive). rewrite dom_singleton_L, lookup_singleton in H1.
      specialize (H1 ltac:(set_solver)). injection H1 as H1. lia.
    + apply H2. rewrite dom_singleton_L. set_solver.
  - intros HL. split; intros n Hn; rewrite dom_singleton_L in Hn.
    + apply elem_of_singleton in Hn as ->. rewrite lookup_singleton, Hi, HL.
      by rewrite decide_True.
    + rewrite HL. rewrite decide_False; [done|]. set_solver.
Qed.

Theorem pickle_roundtrip_fresh_counts s roots order vorder pf sd :
  Inv s → Forall (valid s) (roots_values roots) →
  dump_pickle roots order vorder s = (Ok pf, sd) →
  sd = s ∧
  ∃ roots' s1, load_pickle pf true init = (Ok roots', s1) ∧
    Inv s1 ∧ vars s1 = vars s ∧ lvl2var s1 = lvl2var s ∧
    roots_rel (same_fun s s1) roots roots' ∧
    ∀ L, Counts init L → Counts s1 L.
Proof.
  intros HI Hr Hd.
  destruct (pickle_roundtrip_fresh s roots order vorder pf sd HI Hr Hd)
    as (->&roots'&s1&E&HI1&Ev&El&Hrel).
  split; [done|]. exists roots', s1. split_and!; try done.
  destruct (dump_pickle_inv s roots order vorder pf s HI Hr Hd) as (_&_&Hvl&_).
  set (r := vstate (vars s) (lvl2var s) (nvars s)).
  assert (HIr : Inv r).
  { apply Inv_vstate; [apply (inv_vars _ HI)|apply (inv_lvls _ HI)]. }
  assert (Hvars : forM (pf_vars pf) (fun '(v, l) => add_var v (Some l) ;;; ret tt) init
                  = (Ok tt, r)).
  { pose proof (init_levels_file s HI _ Hvl) as E0. unfold init_levels in E0.
    rewrite (valid_ordering_file s HI _ Hvl) in E0. cbn [assert] in E0.
    by rewrite (bind_ok _ _ init tt init) in E0. }
  destruct (pickle_var_loop (length (pf_vars pf)) (pf_vars pf) init r ∅) as (lm&Elm&_);
    [|done|].
  { intros v i. by apply (vfile_lt s). }
  apply (load_pickle_counts_from pf true init (Ok roots') s1); [|
    |done].
  - apply Inv_has_term, Inv_init.
  - intros lm' r1 E1. unfold pickle_vars in E1. rewrite Elm in E1. by injection E1 as _ <-.
Qed.

Theorem pickle_roundtrip_into_counts s roots order vorder pf sd r :
  Inv s → Forall (valid s) (roots_values roots) →
  dump_pickle roots order vorder s = (Ok pf, sd) →
  Inv r → max_nodes r = None → vars r = vars s → lvl2var r = lvl2var s →
  sd = s ∧
  ∃ roots' r', load_pickle pf true r = (Ok roots', r') ∧
    Inv r' ∧ extends r r' ∧ frame r r' ∧ last_len r' = last_len r ∧
    roots_rel (same_fun s r') roots roots' ∧
    ∀ L, Counts r L → Counts r' L.
Proof.
  intros HI Hr Hd HIr Hmx Ev El.
  destruct (pickle_roundtrip_into s roots order vorder pf sd r HI Hr Hd HIr Hmx Ev El)
    as (->&roots'&r'&E&HI'&He&Hf&Hll&Hrel).
  split; [done|]. exists roots', r'. split_and!; try done.
  destruct (dump_pickle_inv s roots order vorder pf s HI Hr Hd) as (_&_&Hvl&_).
  assert (Hvars : forM (pf_vars pf) (fun '(v, l) => add_var v (Some l) ;;; ret tt) r
                  = (Ok tt, r)).
  { apply forM_add_var_idem. intros v i Hin. rewrite Ev. by apply Hvl. }
  destruct (pickle_var_loop (length (pf_vars pf)) (pf_vars pf) r r ∅) as (lm&Elm&_);
    [|done|].
  { intros v i. by apply (vfile_lt s). }
  apply (load_pickle_counts_from pf true r (Ok roots') r'); [by apply Inv_has_term| |done].
  intros lm' r1 E1. unfold pickle_vars in E1. rewrite Elm in E1. by injection E1 as _ <-.
Qed.

Theorem pickle_roundtrip_same_counts s roots order vorder pf sd :
  Inv s → max_nodes s = None → Forall (valid s) (roots_values roots) →
  dump_pickle roots order vorder s = (Ok pf, sd) →
  sd = s ∧
  ∃ s', load_pickle pf true s = (Ok roots, s') ∧
    Inv s' ∧ extends s s' ∧ frame s s' ∧ last_len s' = last_len s ∧
    ∀ L, Counts s L → Counts s' L.
Proof.
  intros HI Hmx Hr Hd.
  destruct (pickle_roundtrip_same s roots order vorder pf sd HI Hmx Hr Hd)
    as (->&s'&E&HI'&He&Hf&Hll).
  split; [done|]. exists s'. split_and!; try done.
  destruct (pickle_roundtrip_into_counts s roots order vorder pf s s HI Hr Hd HI Hmx eq_refl eq_refl)
    as (_&roots2&s2&E2&_&_&_&_&_&HC).
  rewrite E in E2. by injection E2 as _ <-.
Qed.

Theorem pickle_roundtrip_any_counts s roots order vorder pf sd r :
  Inv s → Forall (valid s) (roots_values roots) →
  dump_pickle roots order vorder s = (Ok pf, sd) →
  Inv r → max_nodes r = None →
  sd = s ∧
  ∃ roots' r', load_pickle pf false r = (Ok roots', r') ∧
    Inv r' ∧ frame r r' ∧ last_len r' = last_len r ∧
    vars r ⊆ vars r' ∧ dom (vars r') = dom (vars r) ∪ dom (vars s) ∧
    (∀ u, valid r u → valid r' u ∧ ∀ ρ, denv r' u ρ = denv r u ρ) ∧
    roots_rel (same_fun s r') roots roots' ∧
    (dom (vars s) ⊆ dom (vars r) → extends r r') ∧
    (dom (vars s) ## dom (vars r) →
     ∀ k v, vorder !! k = Some v → vars r' !! v = Some (nvars r + k)) ∧
    ∀ L, Counts r L → Counts r' L.
Proof.
  intros HI Hr Hd HIr Hmx.
  destruct (pickle_roundtrip_any s roots order vorder pf sd r HI Hr Hd HIr Hmx)
    as (->&roots'&r'&E&H1&H2&H3&H4&H5&H6&H7&H8&H9).
  split; [done|]. exists roots', r'. split_and!; try done.
  by destruct (load_pickle_false_total pf r _ r' HIr E) as (_&_&HC&_).
Qed.

Theorem pickle_roundtrip_other_order_counts s roots order vorder pf sd r :
  Inv s → Forall (valid s) (roots_values roots) →
  dump_pickle roots order vorder s = (Ok pf, sd) →
  Inv r → max_nodes r = None → dom (vars s) ⊆ dom (vars r) →
  sd = s ∧
  ∃ roots' r', load_pickle pf false r = (Ok roots', r') ∧
    Inv r' ∧ extends r r' ∧ frame r r' ∧
    vars r' = vars r ∧ lvl2var r' = lvl2var r ∧ last_len r' = last_len r ∧
    roots_rel (same_fun s r') roots roots' ∧
    ∀ L, Counts r L → Counts r' L.
Proof.
  intros HI Hr Hd HIr Hmx Hdom.
  destruct (pickle_roundtrip_other_order s roots order vorder pf sd r HI Hr Hd HIr Hmx Hdom)
    as (->&roots'&r'&E&H1&H2&H3&H4&H5&H6&H7).
  split; [done|]. exists roots', r'. split_and!; try done.
  by destruct (load_pickle_false_total pf r _ r' HIr E) as (_&_&HC&_).
Qed.

Theorem pickle_roundtrip_fresh_names_counts s roots order vorder pf sd :
  Inv s → Forall (valid s) (roots_values roots) →
  dump_pickle roots order vorder s = (Ok pf, sd) →
  sd = s ∧
  ∃ roots' s1, load_pickle pf false init = (Ok roots', s1) ∧
    Inv s1 ∧ dom (vars s1) = dom (vars s) ∧
    (∀ k v, vorder !! k = Some v → vars s1 !! v = Some k) ∧
    roots_rel (same_fun s s1) roots roots' ∧
    ∀ L, Counts init L → Counts s1 L.
Proof.
  intros HI Hr Hd.
  destruct (pickle_roundtrip_fresh_names s roots order vorder pf sd HI Hr Hd)
    as (->&roots'&s1&E&H1&H2&H3&H4).
  split; [done|]. exists roots', s1. split_and!; try done.
  by destruct (load_pickle_false_total pf init _ s1 Inv_init E) as (_&_&HC&_).
Qed.
