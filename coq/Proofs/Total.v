(** * Total: preservation of the invariant for ARBITRARY arguments (C17).

    The specification theorems of [FindOrAdd], [Ite], [Quantify], [Cofactor],
    [Subst], [GC] assume valid arguments.  Here: whatever the arguments (junk
    integers, undeclared names, unknown operators) and whatever the outcome
    ([Ok] or [Err], the state of an [Err] being the state at the raise point)
    every public operation keeps the manager canonical, keeps every old
    reference and the variable order, and keeps the reference counts exact.
    Dynamic reordering is disabled ([last_len s = None]). *)
From DD Require Export GC Quantify Cofactor Subst.

(** ** 1. Without dynamic reordering nothing raises [_NeedsReordering]
    (a syntactic property of the code, independent of the invariant) *)
Definition nrf {A} (m : MS A) : Prop :=
  ∀ s r s', last_len s = None → m s = (r, s') →
    last_len s' = None ∧ r ≠ Err ENeedsReordering.

Lemma nrf_ret {A} (a : A) : nrf (ret a).
Proof. by intros s r s' Hl [= <- <-]. Qed.
Lemma nrf_raise {A} e : e ≠ ENeedsReordering → nrf (raise (A:=A) e).
Proof. intros He s r s' Hl [= <- <-]. split; [done|congruence]. Qed.
Lemma nrf_get : nrf (get (S:=st)).
Proof. by intros s r s' Hl [= <- <-]. Qed.
Lemma nrf_modify f : (∀ s, last_len (f s) = last_len s) → nrf (modify f).
Proof. intros Hf s r s' Hl [= <- <-]. by rewrite Hf. Qed.
Lemma nrf_bind {A B} (m : MS A) (f : A → MS B) :
  nrf m → (∀ a, nrf (f a)) → nrf (bind m f).
Proof.
  intros Hm Hf s r s' Hl. unfold bind. destruct (m s) as [[a|e] s1] eqn:E.
  - destruct (Hm _ _ _ Hl E) as [Hl1 _]. by apply Hf.
  - destruct (Hm _ _ _ Hl E) as [Hl1 Hr]. intros [= <- <-]. split; [done|]. intros [= ->]. by apply Hr.
Qed.
Lemma nrf_assert b : nrf (assert (S:=st) b).
Proof. destruct b; [apply nrf_ret|by apply nrf_raise]. Qed.
Lemma nrf_ensure e b : e ≠ ENeedsReordering → nrf (ensure (S:=st) e b).
Proof. intros. destruct b; [apply nrf_ret|by apply nrf_raise]. Qed.
Lemma nrf_of_opt {A} e (o : option A) : e ≠ ENeedsReordering → nrf (of_opt (S:=st) e o).
Proof. intros. destruct o; [apply nrf_ret|by apply nrf_raise]. Qed.
Lemma nrf_getsucc n : nrf (getsucc n).
Proof. intros s r s' Hl. unfold getsucc. destruct (succ s !! n); by intros [= <- <-]. Qed.
Lemma nrf_getref n : nrf (getref n).
Proof. intros s r s' Hl. unfold getref. destruct (refc s !! n); by intros [= <- <-]. Qed.
Lemma nrf_getsuccZ u : nrf (getsuccZ u).
Proof. unfold getsuccZ. case_decide; [by apply nrf_raise|apply nrf_getsucc]. Qed.
Lemma nrf_forM {A} (l : list A) (f : A → MS unit) : (∀ a, nrf (f a)) → nrf (forM l f).
Proof.
  intros Hf. induction l as [|a l IH]; cbn [forM]; [apply nrf_ret|].
  apply nrf_bind; [apply Hf|done].
Qed.
Lemma nrf_mapM {A B} (f : A → MS B) (l : list A) : (∀ a, nrf (f a)) → nrf (mapM f l).
Proof.
  intros Hf. induction l as [|a l IH]; cbn [mapM]; [apply nrf_ret|].
  apply nrf_bind; [apply Hf|intros b]. apply nrf_bind; [done|intros bs; apply nrf_ret].
Qed.
Lemma nrf_foldM {A B} (f : B → A → MS B) (l : list A) :
  (∀ b a, nrf (f b a)) → ∀ b, nrf (foldM f b l).
Proof.
  intros Hf. induction l as [|a l IH]; intros b; cbn [foldM]; [apply nrf_ret|].
  apply nrf_bind; [apply Hf|done].
Qed.
Lemma nrf_request_reordering : nrf request_reordering.
Proof. intros s r s' Hl. unfold request_reordering. rewrite Hl. by intros [= <- <-]. Qed.

(** one syntactic step *)
Ltac nrf_step :=
  lazymatch goal with
  | |- nrf (ret _) => apply nrf_ret
  | |- nrf (raise _) => apply nrf_raise; done
  | |- nrf get => apply nrf_get
  | |- nrf (modify _) => apply nrf_modify; intros; reflexivity
  | |- nrf (assert _) => apply nrf_assert
  | |- nrf (ensure _ _) => apply nrf_ensure; done
  | |- nrf (of_opt _ _) => apply nrf_of_opt; done
  | |- nrf (getsucc _) => apply nrf_getsucc
  | |- nrf (getref _) => apply nrf_getref
  | |- nrf (getsuccZ _) => apply nrf_getsuccZ
  | |- nrf request_reordering => apply nrf_request_reordering
  | |- nrf (bind _ _) => apply nrf_bind; [|intros ?]
  | |- nrf (forM _ _) => apply nrf_forM; intros ?
  | |- nrf (mapM _ _) => apply nrf_mapM; intros ?
  | |- nrf (foldM _ _ _) => apply nrf_foldM; intros ? ?
  | |- nrf (if decide _ then _ else _) => case_decide
  | |- nrf (if ?b then _ else _) => destruct b
  | |- nrf (match ?x with _ => _ end) => destruct x
  | |- nrf (let '(_, _) := ?x in _) => destruct x
  end.
Ltac nrf := repeat first [assumption | nrf_step].

Lemma nrf_level_of u : nrf (level_of u).
Proof. unfold level_of. nrf. Qed.
Lemma nrf_incref u : nrf (incref u).
Proof. unfold incref. nrf. Qed.
Lemma nrf_decref u : nrf (decref u).
Proof. unfold decref. nrf. Qed.
Lemma nrf_ref u : nrf (ref u).
Proof. unfold ref. nrf. Qed.
Lemma nrf_find_or_add i v w : nrf (find_or_add i v w).
Proof.
  unfold find_or_add. nrf; try apply nrf_incref.
Qed.
Lemma nrf_top_cofactor u i : nrf (top_cofactor u i).
Proof. unfold top_cofactor. nrf. Qed.
Lemma nrf_ite_rec fuel : ∀ g u v, nrf (ite_rec fuel g u v).
Proof.
  induction fuel as [|f IH]; intros g u v; cbn [ite_rec]; [by apply nrf_raise|].
  nrf; first [apply nrf_level_of | apply nrf_top_cofactor | apply IH
             | apply nrf_find_or_add].
Qed.
Lemma nrf_ite_ g u v : nrf (ite_ g u v).
Proof. unfold ite_. nrf. apply nrf_ite_rec. Qed.

(** the decorator, when nothing can request a reordering *)
Lemma try_to_reorder_off {A} (func : MS A) s r s' :
  nrf func → last_len s = None → try_to_reorder func s = (r, s') →
  ∃ s1, func (s <| rctx := true |>) = (r, s1) ∧ s' = s1 <| rctx := rctx s |>.
Proof.
  intros Hn Hl H.
  assert (Hl' : last_len (s <| rctx := true |>) = None) by done.
  apply try_to_reorder_inert in H as (r1&s1&Hf&[[-> _]|[-> ->]]).
  - by destruct (Hn _ _ _ Hl' Hf) as [_ ?].
  - eauto.
Qed.
Lemma nrf_try_to_reorder {A} (func : MS A) : nrf func → nrf (try_to_reorder func).
Proof.
  intros Hn s r s' Hl H.
  assert (Hl' : last_len (s <| rctx := true |>) = None) by done.
  destruct (try_to_reorder_off func s r s' Hn Hl H) as (s1&Hf&->).
  by destruct (Hn _ _ _ Hl' Hf).
Qed.
Lemma nrf_ite g u v : nrf (ite g u v).
Proof. apply nrf_try_to_reorder, nrf_ite_. Qed.
Lemma nrf_var name : nrf (var name).
Proof. unfold var. apply nrf_try_to_reorder. nrf. apply nrf_find_or_add. Qed.

(** ** 2. Read-only computations ([pure] is defined in [Cofactor]) *)
Lemma pure_assert b : pure (assert (S:=st) b).
Proof. destruct b; [apply pure_ret|apply pure_raise]. Qed.
Lemma pure_ensure e b : pure (ensure (S:=st) e b).
Proof. destruct b; [apply pure_ret|apply pure_raise]. Qed.
Lemma pure_of_opt {A} e (o : option A) : pure (of_opt (S:=st) e o).
Proof. destruct o; [apply pure_ret|apply pure_raise]. Qed.
Lemma pure_getsucc n : pure (getsucc n).
Proof. intros s r s'. unfold getsucc. destruct (succ s !! n); by intros [= _ <-]. Qed.
Lemma pure_getref n : pure (getref n).
Proof. intros s r s'. unfold getref. destruct (refc s !! n); by intros [= _ <-]. Qed.
Lemma pure_getsuccZ u : pure (getsuccZ u).
Proof. unfold getsuccZ. case_decide; [apply pure_raise|apply pure_getsucc]. Qed.
Lemma pure_foldM {A B} (f : B → A → MS B) (l : list A) :
  (∀ b a, pure (f b a)) → ∀ b, pure (foldM f b l).
Proof.
  intros Hf. induction l as [|a l IH]; intros b; cbn [foldM]; [apply pure_ret|].
  apply pure_bind; [apply Hf|done].
Qed.

Ltac pure_step :=
  lazymatch goal with
  | |- pure (ret _) => apply pure_ret
  | |- pure (raise _) => apply pure_raise
  | |- pure get => apply pure_get
  | |- pure (assert _) => apply pure_assert
  | |- pure (ensure _ _) => apply pure_ensure
  | |- pure (of_opt _ _) => apply pure_of_opt
  | |- pure (getsucc _) => apply pure_getsucc
  | |- pure (getref _) => apply pure_getref
  | |- pure (getsuccZ _) => apply pure_getsuccZ
  | |- pure (bind _ _) => apply pure_bind; [|intros ?]
  | |- pure (forM _ _) => apply pure_forM; intros ?
  | |- pure (mapM _ _) => apply pure_mapM; intros ?
  | |- pure (foldM _ _ _) => apply pure_foldM; intros ? ?
  | |- pure (if decide _ then _ else _) => case_decide
  | |- pure (if ?b then _ else _) => destruct b
  | |- pure (match ?x with _ => _ end) => destruct x
  | |- pure (let '(_, _) := ?x in _) => destruct x
  end.
Ltac pure := repeat first [assumption | pure_step].

Lemma pure_level_of u : pure (level_of u).
Proof. unfold level_of. pure. Qed.
Lemma pure_ref u : pure (ref u).
Proof. unfold ref. pure. Qed.
Lemma pure_var_at_level l : pure (var_at_level l).
Proof. unfold var_at_level. pure. Qed.
Lemma pure_level_of_var v : pure (level_of_var v).
Proof. unfold level_of_var. pure. Qed.
Lemma pure_check_var v l : pure (check_var v l).
Proof. unfold check_var. pure. Qed.
Lemma pure_next_free_level l : pure (next_free_level l).
Proof. unfold next_free_level. pure. Qed.
Lemma pure_support_rec fuel : ∀ u acc, pure (support_rec fuel u acc).
Proof.
  induction fuel as [|f IH]; intros u acc; cbn [support_rec]; [apply pure_raise|].
  pure; apply IH.
Qed.
Lemma pure_support_levels u : pure (support_levels u).
Proof. unfold support_levels. pure. apply pure_support_rec. Qed.
Lemma pure_support u : pure (support u).
Proof. unfold support. pure; [apply pure_support_levels|apply pure_var_at_level]. Qed.
Lemma pure_is_essential_rec fuel : ∀ u i, pure (is_essential_rec fuel u i).
Proof.
  induction fuel as [|f IH]; intros u i; cbn [is_essential_rec]; [apply pure_raise|].
  pure; apply IH.
Qed.
Lemma pure_is_essential u v : pure (is_essential u v).
Proof. unfold is_essential. pure. apply pure_is_essential_rec. Qed.
Lemma pure_map_to_level_set bn ks : pure (map_to_level_set bn ks).
Proof.
  intros s r s' H. rewrite map_to_level_set_state in H. by injection H as _ <-.
Qed.
Lemma pure_configure_none : pure (configure None).
Proof. unfold configure. pure. Qed.

Lemma nrf_pure {A} (m : MS A) :
  pure m → (∀ s, fst (m s) ≠ Err ENeedsReordering) → nrf m.
Proof.
  intros Hp Hr s r s' Hl H. pose proof (Hp _ _ _ H) as ->. split; [done|].
  specialize (Hr s). by rewrite H in Hr.
Qed.

(** ** 3. The step relation of the total theorems *)
Global Instance valid_dec s u : Decision (valid s u).
Proof. unfold valid. apply _. Defined.

Definition safe (s s' : st) : Prop :=
  Inv s' ∧ extends s s' ∧ frame s s' ∧ ∀ L, Counts s L → Counts s' L.

Lemma safe_refl s : Inv s → safe s s.
Proof. intros. split; [done|split; [reflexivity|split; [reflexivity|done]]]. Qed.
Lemma safe_trans s1 s2 s3 : safe s1 s2 → safe s2 s3 → safe s1 s3.
Proof.
  intros (Ha&Hb&Hc&H1) (Hd&He&Hf&H2). split; [done|split; [by etrans|split; [by etrans|]]].
  intros L HL. by apply H2, H1.
Qed.
Lemma safe_Inv s s' : safe s s' → Inv s'.
Proof. by intros (?&_). Qed.
Lemma safe_last_len s s' : safe s s' → last_len s' = last_len s.
Proof. by intros (_&_&(?&_)&_). Qed.

(** old references keep their meaning (by [D_extends]) *)
Lemma safe_den s s' : Inv s → safe s s' →
  ∀ u, valid s u → valid s' u ∧ (∀ a, D s' u a = D s u a) ∧ ∀ ρ, denv s' u ρ = denv s u ρ.
Proof.
  intros HI (HI'&He&_) u Hu. split; [by apply (valid_extends s s')|]. split.
  - intros a. by apply D_extends.
  - intros ρ. unfold denv. pose proof He as (_&_&E). rewrite <- E. by apply D_extends.
Qed.

(** the states that differ only outside the tables and counters *)
Lemma same_safe s s' : Inv s → same_tables s s' → refc s' = refc s → frame s s' →
  safe s s'.
Proof.
  intros HI Hs Hr Hf. pose proof Hs as (E1&?&?&?&?&E6&E7).
  split; [by eapply Inv_same|split; [|split; [done|]]].
  - split_and!; by rewrite ?E1, ?E6, ?E7.
  - intros L. by apply Counts_same.
Qed.

Lemma safe_ttr s s1 : safe (s <| rctx := true |>) s1 → safe s (s1 <| rctx := rctx s |>).
Proof.
  intros (HI&He&Hf&HC). split; [by apply Inv_rctx|split; [done|split]].
  - destruct Hf as (?&?&?&?&?). by split_and!.
  - intros L HL. apply (Counts_same s1); [done..|]. apply HC. by apply (Counts_same s).
Qed.

(** total safety of a computation: for every state satisfying the invariant *)
Definition tsafe {A} (m : MS A) : Prop :=
  ∀ s r s', Inv s → last_len s = None → m s = (r, s') → safe s s'.

Lemma tsafe_pure {A} (m : MS A) : pure m → tsafe m.
Proof. intros Hp s r s' HI _ H. rewrite (Hp _ _ _ H). by apply safe_refl. Qed.
Lemma tsafe_bind {A B} (m : MS A) (f : A → MS B) :
  tsafe m → (∀ a, tsafe (f a)) → tsafe (bind m f).
Proof.
  intros Hm Hf s r s' HI Hl. unfold bind. destruct (m s) as [[a|e] s1] eqn:E.
  - pose proof (Hm _ _ _ HI Hl E) as H1. intros H2.
    apply (safe_trans s s1 s'); [done|]. apply (Hf a s1 r s'); [by apply (safe_Inv s)| |done].
    by rewrite (safe_last_len s s1).
  - intros [= <- <-]. by apply (Hm _ _ _ HI Hl E).
Qed.
Lemma tsafe_forM {A} (l : list A) (f : A → MS unit) : (∀ a, tsafe (f a)) → tsafe (forM l f).
Proof.
  intros Hf. induction l as [|a l IH]; cbn [forM]; [apply tsafe_pure, pure_ret|].
  apply tsafe_bind; [apply Hf|done].
Qed.
Lemma tsafe_mapM {A B} (f : A → MS B) (l : list A) : (∀ a, tsafe (f a)) → tsafe (mapM f l).
Proof.
  intros Hf. induction l as [|a l IH]; cbn [mapM]; [apply tsafe_pure, pure_ret|].
  apply tsafe_bind; [apply Hf|intros b].
  apply tsafe_bind; [done|intros bs; apply tsafe_pure, pure_ret].
Qed.
Lemma tsafe_foldM {A B} (f : B → A → MS B) (l : list A) :
  (∀ b a, tsafe (f b a)) → ∀ b, tsafe (foldM f b l).
Proof.
  intros Hf. induction l as [|a l IH]; intros b; cbn [foldM]; [apply tsafe_pure, pure_ret|].
  apply tsafe_bind; [apply Hf|done].
Qed.
Lemma tsafe_try_to_reorder {A} (func : MS A) :
  nrf func → tsafe func → tsafe (try_to_reorder func).
Proof.
  intros Hn Hs s r s' HI Hl H.
  destruct (try_to_reorder_off func s r s' Hn Hl H) as (s1&Hf&->).
  apply safe_ttr. apply (Hs _ _ _ (proj2 (Inv_rctx s true) HI) Hl Hf).
Qed.

Ltac tsafe_step :=
  lazymatch goal with
  | |- tsafe (ret _) => apply tsafe_pure, pure_ret
  | |- tsafe (raise _) => apply tsafe_pure, pure_raise
  | |- tsafe get => apply tsafe_pure, pure_get
  | |- tsafe (assert _) => apply tsafe_pure, pure_assert
  | |- tsafe (ensure _ _) => apply tsafe_pure, pure_ensure
  | |- tsafe (of_opt _ _) => apply tsafe_pure, pure_of_opt
  | |- tsafe (getsucc _) => apply tsafe_pure, pure_getsucc
  | |- tsafe (getref _) => apply tsafe_pure, pure_getref
  | |- tsafe (getsuccZ _) => apply tsafe_pure, pure_getsuccZ
  | |- tsafe (level_of _) => apply tsafe_pure, pure_level_of
  | |- tsafe (level_of_var _) => apply tsafe_pure, pure_level_of_var
  | |- tsafe (var_at_level _) => apply tsafe_pure, pure_var_at_level
  | |- tsafe (bind _ _) => apply tsafe_bind; [|intros ?]
  | |- tsafe (forM _ _) => apply tsafe_forM; intros ?
  | |- tsafe (mapM _ _) => apply tsafe_mapM; intros ?
  | |- tsafe (foldM _ _ _) => apply tsafe_foldM; intros ? ?
  | |- tsafe (if decide _ then _ else _) => case_decide
  | |- tsafe (if ?b then _ else _) => destruct b
  | |- tsafe (match ?x with _ => _ end) => destruct x
  | |- tsafe (let '(_, _) := ?x in _) => destruct x
  end.
Ltac tsafe := repeat first [assumption | tsafe_step].

(** ** 4. [find_or_add] *)

Lemma request_reordering_safe s r s1 : Inv s → request_reordering s = (r, s1) → safe s s1.
Proof.
  intros HI H. pose proof (request_reordering_spec _ _ _ H) as (Hs&Hf&_).
  apply request_reordering_tables in H as [_ Hr]. by apply same_safe.
Qed.

(** [find_or_add] checks that the level is declared and that the children
    are nodes, but NOT that the level is above the levels of the children.
    The guard below is exactly what is missing: whenever the three tests
    pass and the children differ, the level must be above both children. *)
Theorem find_or_add_total s i v w r s' :
  Inv s →
  (i < nvars s → valid s v → valid s w → v ≠ w → i < lvl_of s v ∧ i < lvl_of s w) →
  find_or_add i v w s = (r, s') →
  safe s s'.
Proof.
  intros HI Hg Hrun. pose proof Hrun as Hrun0. revert Hrun.
  unfold find_or_add. unfold bind at 1.
  destruct (request_reordering s) as [[[]|e] s1] eqn:Hrr.
  2:{ intros [= <- <-]. by apply (request_reordering_safe s _ _ HI Hrr). }
  pose proof (request_reordering_safe s _ _ HI Hrr) as Hs1.
  pose proof (request_reordering_spec _ _ _ Hrr) as ((E1&_&_&_&_&E6&_)&_&_).
  cbn [bind get].
  case_decide as Hi; [by intros [= <- <-]|].
  destruct (mem v s1) eqn:Hmv; cbn [negb]; [|by intros [= <- <-]].
  destruct (mem w s1) eqn:Hmw; cbn [negb]; [|by intros [= <- <-]].
  case_decide as Hvw; [by intros [= <- <-]|]. intros _.
  apply mem_valid in Hmv, Hmw. unfold valid in Hmv, Hmw. rewrite E1 in Hmv, Hmw.
  assert (Hn : nvars s1 = nvars s) by (unfold nvars; by rewrite E6).
  destruct Hg as [Hlv Hlw]; [lia|done|done|by intros ->|].
  destruct (find_or_add_spec s i v w r s' HI Hmv Hmw Hlv Hlw Hrun0) as (HI'&He&Hf&_).
  split; [done|split; [done|split; [done|]]].
  intros L HL. by apply (find_or_add_counts s L i v w r s').
Qed.

(** the variable node at an ARBITRARY level [j] (declared or not) *)
Lemma find_or_add_var_total s j r s' :
  Inv s → find_or_add j (-1) 1 s = (r, s') →
  safe s s' ∧ ∀ u, r = Ok u → valid s' u.
Proof.
  intros HI Hrun. split.
  - apply (find_or_add_total s j (-1) 1 r s' HI); [|done].
    intros Hj _ _ _. rewrite !(lvl_term s HI) by done. done.
  - intros u ->. destruct (decide (j < nvars s)) as [Hj|Hj].
    + apply find_or_add_spec in Hrun as (_&_&_&Hu&_); try done;
        [by apply valid_m1|by apply valid_1|by rewrite (lvl_term s HI)..].
    + exfalso. revert Hrun. unfold find_or_add. unfold bind at 1.
      destruct (request_reordering s) as [[[]|e] s1] eqn:Hrr; [|done].
      pose proof (request_reordering_spec _ _ _ Hrr) as ((_&_&_&_&_&E6&_)&_&_).
      cbn [bind get]. rewrite decide_True; [done|]. unfold nvars in *. rewrite E6. lia.
Qed.
Lemma tsafe_find_or_add_var j : tsafe (find_or_add j (-1) 1).
Proof. intros s r s' HI _ H. by apply (find_or_add_var_total s j r s'). Qed.

(** ** 5. [_ite] and [ite] with arbitrary operands *)
Lemma getsuccZ_junk s u : ¬ valid s u → getsuccZ u s = (Err EKey, s).
Proof.
  intros Hn. unfold getsuccZ. case_decide; [done|]. unfold getsucc.
  destruct (succ s !! absn u) eqn:E; [|done]. exfalso. apply Hn. split; [done|by eexists].
Qed.
Lemma level_of_junk s u : ¬ valid s u → level_of u s = (Err EKey, s).
Proof. intros Hn. unfold level_of. by rewrite (bind_err _ _ _ _ _ (getsuccZ_junk s u Hn)). Qed.

Theorem ite_rec_total fuel g u v s r s' :
  Inv s → nvars s < fuel → ite_rec fuel g u v s = (r, s') →
  safe s s' ∧ (valid s u → valid s v → ∀ w, r = Ok w → valid s' w).
Proof.
  intros HI Hfuel Hrun.
  destruct (decide (valid s g ∧ valid s u ∧ valid s v)) as [(Hg&Hu&Hv)|Hn].
  { assert (Hf : nvars s - minlvl3 s g u v < fuel) by lia.
    pose proof (ite_rec_spec fuel s g u v r s' HI Hg Hu Hv Hf Hrun) as (?&?&?&Hr).
    split.
    - split; [done|split; [done|split; [done|]]]. intros L HL.
      by apply (ite_rec_counts fuel s L g u v r s').
    - intros _ _ w ->. by destruct Hr as (?&_). }
  destruct fuel as [|f]; [lia|]. cbn [ite_rec] in Hrun.
  destruct (decide (g = 1%Z)) as [->|Hg1].
  { injection Hrun as <- <-. split; [by apply safe_refl|]. by intros ? _ w [= <-]. }
  destruct (decide (g = (-1)%Z)) as [->|Hgm1].
  { injection Hrun as <- <-. split; [by apply safe_refl|]. by intros _ ? w [= <-]. }
  cbn [bind get] in Hrun.
  destruct (ite_tab s !! (g, u, v)) as [w0|] eqn:Hc.
  { injection Hrun as <- <-. split; [by apply safe_refl|]. intros _ _ w [= <-].
    by destruct (inv_ite _ HI _ _ _ _ Hc) as (_&_&_&?&_). }
  destruct (decide (valid s g)) as [Hg|Hg]; cycle 1.
  { rewrite (bind_err _ _ _ _ _ (level_of_junk s g Hg)) in Hrun. injection Hrun as <- <-.
    split; [by apply safe_refl|done]. }
  rewrite (bind_ok _ _ _ _ _ (level_of_ok s g Hg)) in Hrun.
  destruct (decide (valid s u)) as [Hu|Hu]; cycle 1.
  { rewrite (bind_err _ _ _ _ _ (level_of_junk s u Hu)) in Hrun. injection Hrun as <- <-.
    split; [by apply safe_refl|done]. }
  rewrite (bind_ok _ _ _ _ _ (level_of_ok s u Hu)) in Hrun.
  destruct (decide (valid s v)) as [Hv|Hv]; [by destruct Hn|].
  rewrite (bind_err _ _ _ _ _ (level_of_junk s v Hv)) in Hrun. injection Hrun as <- <-.
  split; [by apply safe_refl|done].
Qed.

Lemma tsafe_ite_ g u v : tsafe (ite_ g u v).
Proof.
  intros s r s' HI _ H. unfold ite_ in H. cbn [bind get] in H.
  apply ite_rec_total in H as [? _]; [done|done|lia].
Qed.
Lemma tsafe_ite g u v : tsafe (ite g u v).
Proof. apply tsafe_try_to_reorder; [apply nrf_ite_|apply tsafe_ite_]. Qed.

(** C17, [ite]: any three integers *)
Theorem ite_total s g u v r s' :
  Inv s → last_len s = None → ite g u v s = (r, s') →
  safe s s' ∧ r ≠ Err ENeedsReordering ∧
  (valid s u → valid s v → ∀ w, r = Ok w → valid s' w).
Proof.
  intros HI Hl H. split; [by apply (tsafe_ite g u v s r s')|]. split.
  { by destruct (nrf_ite g u v s r s' Hl H). }
  intros Hu Hv w ->. unfold ite in H.
  destruct (try_to_reorder_off _ s _ s' (nrf_ite_ g u v) Hl H) as (s1&Hf&->).
  unfold ite_ in Hf. cbn [bind get] in Hf.
  apply ite_rec_total in Hf as [_ Hw]; [|by apply Inv_rctx|cbn; lia].
  by apply (Hw Hu Hv w).
Qed.

(** [var] with an arbitrary name *)
Lemma tsafe_var name : tsafe (var name).
Proof.
  unfold var. apply tsafe_try_to_reorder.
  - nrf. apply nrf_find_or_add.
  - tsafe. apply tsafe_find_or_add_var.
Qed.
Theorem var_total s name r s' :
  Inv s → last_len s = None → var name s = (r, s') →
  safe s s' ∧ r ≠ Err ENeedsReordering ∧
  (vars s !! name = None → r = Err EValue ∧ s' = s) ∧
  ∀ u, r = Ok u → valid s' u.
Proof.
  intros HI Hl H. split; [by apply (tsafe_var name s r s')|]. split.
  { by destruct (nrf_var name s r s' Hl H). }
  unfold var in H.
  assert (Hn : nrf (s0 <- get ;; match vars s0 !! name with
                                 | Some j => find_or_add j (-1) 1
                                 | None => raise EValue end))
    by (nrf; apply nrf_find_or_add).
  destruct (try_to_reorder_off _ s _ s' Hn Hl H) as (s1&Hf&->).
  cbn [bind get] in Hf. change (vars (s <| rctx := true |>)) with (vars s) in Hf.
  split.
  - intros E. rewrite E in Hf. injection Hf as <- <-. split; [done|]. by destruct s.
  - intros u ->. destruct (vars s !! name) as [j|]; [|done].
    apply find_or_add_var_total in Hf as [_ Hu]; [|by apply Inv_rctx]. by apply Hu.
Qed.

(** ** 6. The recursions that build nodes at computed levels keep the counts
    exact (their specifications give the rest of [safe]) *)
Lemma ite_counts s L g u v r s' :
  Inv s → last_len s = None → Counts s L → ite g u v s = (r, s') → Counts s' L.
Proof. intros HI Hl HL H. destruct (tsafe_ite g u v s r s' HI Hl H) as (_&_&_&HC). by apply HC. Qed.

Lemma frame_off s s' : frame s s' → last_len s = None → last_len s' = None.
Proof. intros (E&_) H. by rewrite E. Qed.

Lemma quantify_rec_counts fuel : ∀ s L u ord q fa cache r s',
  Inv s → Counts s L → valid s u → last_len s = None →
  Quantify.ord_ok s u ord q → Quantify.cache_ok s q fa cache →
  nvars s - lvl_of s u < fuel →
  quantify_rec fuel u ord q fa cache s = (r, s') → Counts s' L.
Proof.
  induction fuel as [|f IH]; intros s L u ord q fa cache r s' HI HL Hu Hoff Hord Hc Hfuel; [lia|].
  assert (Hnr : no_reorder s) by (by right).
  cbn [quantify_rec].
  destruct (node_cases s HI u Hu) as [[E El]|(t&Ht&Hn1&Hlo&Hl&Hln&Hvl&Hvh&Hhp&Hll&Hlh&Hne)].
  { rewrite decide_True by (split; [done|apply Hu]). by intros [= <- <-]. }
  rewrite decide_False by (intros [? ?]; done).
  destruct (cache !! u) as [x|] eqn:Hcu; [by intros [= <- <-]|].
  rewrite (bind_ok _ _ _ _ _ (getsuccZ_ok s u t (proj1 Hu) Ht)).
  unfold is_term, assert. rewrite bool_decide_eq_false_2 by done. cbn [negb].
  rewrite (bind_ok _ _ s tt s) by done.
  cbv zeta.
  set (i := t_lvl t) in *. set (v := flip (t_lo t) u). set (w := flip (t_hi t) u).
  assert (Hv : valid s v) by (by apply Quantify.valid_flip).
  assert (Hw : valid s w) by (by apply Quantify.valid_flip).
  assert (Hlv : i < lvl_of s v) by (unfold v; by rewrite Quantify.lvl_flip).
  assert (Hlw : i < lvl_of s w) by (unfold w; by rewrite Quantify.lvl_flip).
  clearbody v w.
  destruct (skip_below i ord) as [|k ord'] eqn:Eo; [by intros [= <- <-]|].
  assert (Hord' : ∀ s0 x, lvl_of s0 x = lvl_of s x → i < lvl_of s x →
            Quantify.ord_ok s0 x (k :: ord') q).
  { intros s0 x Ex Hx j Hjq Hj. rewrite <- Eo. apply elem_of_skip_below; [|lia].
    apply Hord; [done|lia]. }
  destruct (quantify_rec f v (k :: ord') q fa cache s) as [rp s1] eqn:Ep.
  assert (HC1 : Counts s1 L).
  { apply (IH s L v (k :: ord') q fa cache rp s1); try done; [by apply Hord'|lia]. }
  pose proof Ep as Ep'.
  apply quantify_rec_spec in Ep' as (HI1&He1&Hf1&Hp); [|done|done|done|by apply Hord'|done|lia].
  destruct rp as [[p c1]|e]; cycle 1.
  { rewrite (bind_err _ _ _ _ _ Ep). by intros [= <- <-]. }
  rewrite (bind_ok _ _ _ _ _ Ep). destruct Hp as (Hpv&Hpl&Hc1&HpD).
  assert (Hnv1 : nvars s1 = nvars s) by (by apply extends_nvars).
  assert (Hw1 : valid s1 w) by (by apply (valid_extends s s1)).
  assert (Elw1 : lvl_of s1 w = lvl_of s w) by (by apply lvl_extends).
  assert (Hoff1 : last_len s1 = None) by (by apply (frame_off s s1)).
  destruct (quantify_rec f w (k :: ord') q fa c1 s1) as [rq s2] eqn:Eq.
  assert (HC2 : Counts s2 L).
  { apply (IH s1 L w (k :: ord') q fa c1 rq s2); try done; [by apply Hord'|].
    rewrite Hnv1, Elw1; lia. }
  pose proof Eq as Eq'.
  apply quantify_rec_spec in Eq' as (HI2&He2&Hf2&Hq);
    [|done|done|by right|by apply Hord'|done|rewrite Hnv1, Elw1; lia].
  destruct rq as [[q' c2]|e]; cycle 1.
  { rewrite (bind_err _ _ _ _ _ Eq). by intros [= <- <-]. }
  rewrite (bind_ok _ _ _ _ _ Eq).
  assert (Hoff2 : last_len s2 = None) by (by apply (frame_off s1 s2)).
  set (m := if decide (i ∈ q)
            then if fa then ite p q' (-1) else ite p 1 q'
            else find_or_add i p q').
  destruct (m s2) as [rw s3] eqn:Ew.
  assert (HC3 : Counts s3 L).
  { subst m. destruct (decide (i ∈ q)); [destruct fa|].
    - by apply (ite_counts s2 L _ _ _ _ _ HI2 Hoff2 HC2 Ew).
    - by apply (ite_counts s2 L _ _ _ _ _ HI2 Hoff2 HC2 Ew).
    - by apply (find_or_add_counts s2 L _ _ _ _ _ HI2 HC2 Ew). }
  destruct rw as [x|e].
  - rewrite (bind_ok _ _ _ _ _ Ew). by intros [= <- <-].
  - rewrite (bind_err _ _ _ _ _ Ew). by intros [= <- <-].
Qed.

Lemma quantify_rec_safe fuel s u ord q fa cache r s' :
  Inv s → valid s u → last_len s = None →
  Quantify.ord_ok s u ord q → Quantify.cache_ok s q fa cache →
  nvars s - lvl_of s u < fuel →
  quantify_rec fuel u ord q fa cache s = (r, s') → safe s s'.
Proof.
  intros HI Hu Hoff Hord Hc Hfuel Hrun.
  pose proof (quantify_rec_spec fuel s u ord q fa cache r s' HI Hu ltac:(by right)
                Hord Hc Hfuel Hrun) as (?&?&?&_).
  split; [done|split; [done|split; [done|]]]. intros L HL.
  by apply (quantify_rec_counts fuel s L u ord q fa cache r s').
Qed.

Lemma cofactor_rec_counts fuel : ∀ s L u ord values cache r s',
  Inv s → Counts s L → valid s u →
  Cofactor.ord_ok s u ord values → Cofactor.cache_ok s values cache →
  nvars s - lvl_of s u < fuel →
  cofactor_rec fuel u ord values cache s = (r, s') → Counts s' L.
Proof.
  induction fuel as [|f IH]; intros s L u ord values cache r s' HI HL Hu Hord Hc Hfuel; [lia|].
  cbn [cofactor_rec].
  destruct (decide (absn u = 1%positive ∧ u ≠ 0%Z)) as [[E1 _]|Hnt]; [by intros [= <- <-]|].
  destruct (cache !! u) as [x|] eqn:Hcu; [by intros [= <- <-]|].
  destruct (node_cases s HI u Hu) as [[E El]|(t&Ht&Hn1&Hlo&Hl&Hln&Hvl&Hvh&Hhp&Hll&Hlh&Hne)].
  { exfalso. apply Hnt. split; [done|apply Hu]. }
  rewrite (bind_ok _ _ _ _ _ (getsuccZ_ok s u t (proj1 Hu) Ht)).
  unfold is_term, assert. rewrite bool_decide_eq_false_2 by done. cbn [negb].
  rewrite (bind_ok _ _ s tt s) by done.
  rewrite <- Hl in Hll, Hlh.
  destruct (skip_below (t_lvl t) ord) as [|n ord'] eqn:Hsk; [by intros [= <- <-]|].
  assert (Hord' : ∀ s1 c, lvl_of s u ≤ lvl_of s1 c → Cofactor.ord_ok s1 c (n :: ord') values).
  { intros s1 c Hl1. rewrite <- Hsk, <- Hl. by apply (ord_ok_child s s1 u). }
  cbv iota. clear Hsk. set (ord1 := n :: ord') in *. clearbody ord1. clear n ord'.
  destruct (values !! t_lvl t) as [val|] eqn:Hval.
  - set (c := if val then t_hi t else t_lo t).
    assert (Hvc : valid s c) by (subst c; by destruct val).
    assert (Hlc : lvl_of s u < lvl_of s c) by (subst c; by destruct val).
    destruct (cofactor_rec f c ord1 values cache s) as [rp s1] eqn:Ep.
    assert (HC1 : Counts s1 L).
    { apply (IH s L c ord1 values cache rp s1); try done; [apply Hord'; lia|lia]. }
    destruct rp as [[x c1]|e].
    + rewrite (bind_ok _ _ _ _ _ Ep). by intros [= <- <-].
    + rewrite (bind_err _ _ _ _ _ Ep). by intros [= <- <-].
  - rewrite bind_assoc.
    destruct (cofactor_rec f (t_lo t) ord1 values cache s) as [rp s1] eqn:Ep.
    assert (HC1 : Counts s1 L).
    { apply (IH s L (t_lo t) ord1 values cache rp s1); try done; [apply Hord'; lia|lia]. }
    pose proof Ep as Ep'.
    apply cofactor_rec_aux in Ep' as (HI1&He1&Hf1&Hp); [|done|done|apply Hord'; lia|done|lia].
    destruct rp as [[p c1]|e]; cycle 1.
    { rewrite (bind_err _ _ _ _ _ Ep). by intros [= <- <-]. }
    rewrite (bind_ok _ _ _ _ _ Ep). cbv beta iota. rewrite bind_assoc.
    destruct Hp as (Hpv&Hpl&Hc1&HpD).
    assert (Hnv1 : nvars s1 = nvars s) by (by apply extends_nvars).
    destruct (cofactor_rec f (t_hi t) ord1 values c1 s1) as [rq s2] eqn:Eq.
    assert (HC2 : Counts s2 L).
    { apply (IH s1 L (t_hi t) ord1 values c1 rq s2); try done.
      - by apply (valid_extends s s1).
      - apply Hord'; rewrite (lvl_extends s s1) by done; lia.
      - rewrite Hnv1, (lvl_extends s s1) by done; lia. }
    pose proof Eq as Eq'.
    apply cofactor_rec_aux in Eq' as (HI2&He2&Hf2&Hq);
      [|done|by apply (valid_extends s s1)
       |apply Hord'; rewrite (lvl_extends s s1) by done; lia|done
       |rewrite Hnv1, (lvl_extends s s1) by done; lia].
    destruct rq as [[q c2]|e]; cycle 1.
    { rewrite (bind_err _ _ _ _ _ Eq). by intros [= <- <-]. }
    rewrite (bind_ok _ _ _ _ _ Eq). cbv beta iota. rewrite bind_assoc.
    destruct (find_or_add (t_lvl t) p q s2) as [rw s3] eqn:Ew.
    assert (HC3 : Counts s3 L) by (by apply (find_or_add_counts s2 L _ _ _ _ _ HI2 HC2 Ew)).
    destruct rw as [w|e].
    + rewrite (bind_ok _ _ _ _ _ Ew). cbn [bind ret]. by intros [= <- <-].
    + rewrite (bind_err _ _ _ _ _ Ew). by intros [= <- <-].
Qed.

Lemma cofactor_rec_safe fuel s u ord values cache r s' :
  Inv s → valid s u →
  Cofactor.ord_ok s u ord values → Cofactor.cache_ok s values cache →
  nvars s - lvl_of s u < fuel →
  cofactor_rec fuel u ord values cache s = (r, s') → safe s s'.
Proof.
  intros HI Hu Hord Hc Hfuel Hrun.
  pose proof (cofactor_rec_aux fuel s u ord values cache r s' HI Hu Hord Hc Hfuel Hrun)
    as (?&?&?&_).
  split; [done|split; [done|split; [done|]]]. intros L HL.
  by apply (cofactor_rec_counts fuel s L u ord values cache r s').
Qed.

Lemma compose_rec_counts fuel : ∀ s L f_ j g cache r s',
  Inv s → Counts s L → valid s f_ → valid s g → last_len s = None →
  cache_ok_c s j cache →
  nvars s - (lvl_of s f_ `min` lvl_of s g) < fuel →
  compose_rec fuel f_ j g cache s = (r, s') → Counts s' L.
Proof.
  induction fuel as [|fu IH]; intros s L f_ j g cache r s' HI HL Hf Hg Hoff Hc Hfuel; [lia|].
  assert (Hnr : no_reorder s) by (by right).
  cbn [compose_rec].
  destruct (decide (absn f_ = 1%positive ∧ f_ ≠ 0%Z)) as [[E1 _]|Hnt]; [by intros [= <- <-]|].
  destruct (cache !! (f_, g)) as [x|] eqn:Hcu; [by intros [= <- <-]|].
  destruct (node_cases s HI f_ Hf) as [[E El]|(t&Ht&Hn1&Hlo&Hl&Hln&Hvl&Hvh&Hhp&Hll&Hlh&Hne)].
  { exfalso. apply Hnt. split; [done|apply Hf]. }
  rewrite (bind_ok _ _ _ _ _ (getsuccZ_ok s f_ t (proj1 Hf) Ht)).
  unfold is_term, assert. rewrite bool_decide_eq_false_2 by done. cbn [negb].
  rewrite (bind_ok _ _ s tt s) by done.
  destruct (decide (j < t_lvl t)) as [Hji|Hji]; [by intros [= <- <-]|].
  destruct (decide (t_lvl t = j)) as [Eij|Hij].
  - rewrite bind_assoc.
    destruct (ite g (t_hi t) (t_lo t) s) as [rw s1] eqn:Ew.
    assert (HC1 : Counts s1 L) by (by apply (ite_counts s L _ _ _ _ _ HI Hoff HL Ew)).
    destruct rw as [w|e].
    + rewrite (bind_ok _ _ _ _ _ Ew). cbn [bind ret]. by intros [= <- <-].
    + rewrite (bind_err _ _ _ _ _ Ew). by intros [= <- <-].
  - rewrite bind_assoc.
    rewrite (bind_ok _ _ _ _ _ (level_of_ok s g Hg)). cbv beta zeta.
    set (z := t_lvl t `min` lvl_of s g) in *.
    assert (Hzf : z ≤ lvl_of s f_) by (rewrite Hl; apply Nat.le_min_l).
    assert (Hzg : z ≤ lvl_of s g) by apply Nat.le_min_r.
    assert (Hzn : z < nvars s) by (pose proof (Nat.le_min_l (t_lvl t) (lvl_of s g)); lia).
    assert (Hfuel' : nvars s - z < S fu) by (subst z; by rewrite <- Hl).
    destruct (top_cofactor_ok s f_ z HI Hf Hzf) as (f0&f1&Ef&Hvf0&Hvf1&Lf0&Lf1&_&_&Df).
    destruct (top_cofactor_ok s g z HI Hg Hzg) as (g0&g1&Eg&Hvg0&Hvg1&Lg0&Lg1&_&_&Dg).
    apply above_or_term in Lf0, Lf1, Lg0, Lg1; try done.
    rewrite bind_assoc, (bind_ok _ _ _ _ _ Ef). cbv beta iota.
    rewrite bind_assoc, (bind_ok _ _ _ _ _ Eg). cbv beta iota.
    rewrite bind_assoc.
    clearbody z. clear Hfuel.
    destruct (compose_rec fu f0 j g0 cache s) as [rp s1] eqn:Ep.
    assert (HC1 : Counts s1 L).
    { apply (IH s L f0 j g0 cache rp s1); try done. by apply (min_descent z). }
    pose proof Ep as Ep'.
    apply compose_rec_aux in Ep' as (HI1&He1&Hf1&Hp);
      [|done|done|done|done|done|by apply (min_descent z)].
    destruct rp as [[p c1]|e]; cycle 1.
    { rewrite (bind_err _ _ _ _ _ Ep). by intros [= <- <-]. }
    rewrite (bind_ok _ _ _ _ _ Ep). cbv beta iota. rewrite bind_assoc.
    destruct Hp as (Hpv&Hpl&Hc1&HpD).
    assert (Hnv1 : nvars s1 = nvars s) by (by apply extends_nvars).
    assert (Hoff1 : last_len s1 = None) by (by apply (frame_off s s1)).
    destruct (compose_rec fu f1 j g1 c1 s1) as [rq s2] eqn:Eq.
    assert (HC2 : Counts s2 L).
    { apply (IH s1 L f1 j g1 c1 rq s2); try done; try (by apply (valid_extends s s1)).
      rewrite Hnv1, !(lvl_extends s s1) by done; by apply (min_descent z). }
    pose proof Eq as Eq'.
    apply compose_rec_aux in Eq' as (HI2&He2&Hf2&Hq);
      [|done|by apply (valid_extends s s1)|by apply (valid_extends s s1)
       |by right|done
       |rewrite Hnv1, !(lvl_extends s s1) by done; by apply (min_descent z)].
    destruct rq as [[q c2]|e]; cycle 1.
    { rewrite (bind_err _ _ _ _ _ Eq). by intros [= <- <-]. }
    rewrite (bind_ok _ _ _ _ _ Eq). cbv beta iota. rewrite bind_assoc.
    destruct (find_or_add z p q s2) as [rw s3] eqn:Ew.
    assert (HC3 : Counts s3 L) by (by apply (find_or_add_counts s2 L _ _ _ _ _ HI2 HC2 Ew)).
    destruct rw as [w|e].
    + rewrite (bind_ok _ _ _ _ _ Ew). cbn [bind ret]. by intros [= <- <-].
    + rewrite (bind_err _ _ _ _ _ Ew). by intros [= <- <-].
Qed.

Lemma compose_rec_safe fuel s f_ j g cache r s' :
  Inv s → valid s f_ → valid s g → last_len s = None →
  cache_ok_c s j cache →
  nvars s - (lvl_of s f_ `min` lvl_of s g) < fuel →
  compose_rec fuel f_ j g cache s = (r, s') → safe s s'.
Proof.
  intros HI Hf Hg Hoff Hc Hfuel Hrun.
  pose proof (compose_rec_aux fuel s f_ j g cache r s' HI Hf Hg ltac:(by right) Hc Hfuel Hrun)
    as (?&?&?&_).
  split; [done|split; [done|split; [done|]]]. intros L HL.
  by apply (compose_rec_counts fuel s L f_ j g cache r s').
Qed.

(** ** 7. Public operations with arbitrary arguments *)
Lemma tsafe_bind_get {B} (f : st → MS B) :
  (∀ s r s', Inv s → last_len s = None → f s s = (r, s') → safe s s') →
  tsafe (bind get f).
Proof. intros H s r s' HI Hl. cbn [bind get]. by apply H. Qed.

Lemma bind_fst_state {A C} (m : MS A) (h : A → C) s r s' :
  (x <- m ;; ret (h x)) s = (r, s') → ∃ r0, m s = (r0, s').
Proof.
  unfold bind. destruct (m s) as [[x|e] s1]; intros [= <- <-]; eauto.
Qed.

Lemma junk_not_terminal s u : Inv s → ¬ valid s u → ¬ (absn u = 1%positive ∧ u ≠ 0%Z).
Proof.
  intros HI Hn [E Hu]. apply Hn. split; [done|]. rewrite E, (inv_term _ HI). by eexists.
Qed.

(** *** [quantify] *)
Lemma nrf_map_key bn first k : nrf (map_key bn first k).
Proof. unfold map_key. nrf. destruct first; by apply nrf_raise. Qed.
Lemma nrf_map_to_level_set bn ks : nrf (map_to_level_set bn ks).
Proof. unfold map_to_level_set. nrf; apply nrf_map_key. Qed.
Lemma nrf_map_to_level_dict {A} bn (kv : list (nat * A)) : nrf (map_to_level_dict bn kv).
Proof. unfold map_to_level_dict. nrf; apply nrf_map_key. Qed.
Lemma nrf_quantify_rec fuel : ∀ u ord q fa cache, nrf (quantify_rec fuel u ord q fa cache).
Proof.
  induction fuel as [|f IH]; intros u ord q fa cache; cbn [quantify_rec];
    [by apply nrf_raise|].
  nrf; first [apply IH | apply nrf_ite | apply nrf_find_or_add].
Qed.
Lemma nrf_quantify_body u bn qvars fa :
  nrf (q <- map_to_level_set bn qvars ;; s <- get ;;
       r <- quantify_rec (S (S (nvars s))) u (sorted_levels q) q fa ∅ ;; ret (fst r)).
Proof. nrf; [apply nrf_map_to_level_set|apply nrf_quantify_rec]. Qed.
Lemma nrf_var_at_level' v : nrf (var_at_level v).
Proof. unfold var_at_level. nrf. Qed.
Lemma nrf_quantify_names u qvars fa : nrf (quantify_names u qvars fa).
Proof. apply nrf_try_to_reorder, nrf_quantify_body. Qed.
Lemma nrf_quantify u bn qvars fa : nrf (quantify u bn qvars fa).
Proof.
  destruct bn; [apply nrf_quantify_names|]. unfold quantify.
  nrf; [apply nrf_map_to_level_set|apply nrf_var_at_level'|apply nrf_quantify_names].
Qed.

Lemma quantify_rec_total s u q fa fuel r s' :
  Inv s → last_len s = None → nvars s < fuel →
  quantify_rec fuel u (sorted_levels q) q fa ∅ s = (r, s') → safe s s'.
Proof.
  intros HI Hl Hfuel Hrun. destruct (decide (valid s u)) as [Hu|Hu].
  - apply (quantify_rec_safe fuel s u (sorted_levels q) q fa ∅ r s' HI Hu Hl
             (ord_ok_sorted_levels s u q) (Quantify.cache_ok_empty s q fa)); [lia|done].
  - destruct fuel as [|f]; [lia|]. cbn [quantify_rec] in Hrun.
    rewrite decide_False in Hrun by (by apply (junk_not_terminal s)).
    rewrite lookup_empty in Hrun.
    rewrite (bind_err _ _ _ _ _ (getsuccZ_junk s u Hu)) in Hrun.
    injection Hrun as <- <-. by apply safe_refl.
Qed.

Lemma tsafe_quantify_names u qvars fa : tsafe (quantify_names u qvars fa).
Proof.
  apply tsafe_try_to_reorder; [apply nrf_quantify_body|].
  apply tsafe_bind; [apply tsafe_pure, pure_map_to_level_set|intros q].
  apply tsafe_bind_get. intros s r s' HI Hl H.
  apply bind_fst_state in H as [r0 H].
  apply (quantify_rec_total s u q fa (S (S (nvars s))) r0 s'); try done. lia.
Qed.

Lemma tsafe_quantify u bn qvars fa : tsafe (quantify u bn qvars fa).
Proof.
  destruct bn; [apply tsafe_quantify_names|]. unfold quantify.
  apply tsafe_bind; [apply tsafe_pure, pure_map_to_level_set|intros q].
  apply tsafe_bind; [|intros names; apply tsafe_quantify_names].
  apply tsafe_pure, pure_mapM. intros l. apply pure_var_at_level.
Qed.

(** *** [cofactor] *)
Lemma nrf_cofactor_rec fuel : ∀ u ord values cache, nrf (cofactor_rec fuel u ord values cache).
Proof.
  induction fuel as [|f IH]; intros u ord values cache; cbn [cofactor_rec];
    [by apply nrf_raise|].
  nrf; first [apply IH | apply nrf_find_or_add].
Qed.
Lemma nrf_cofactor_body u bn values :
  nrf (lv <- map_to_level_dict bn values ;; s <- get ;;
       ensure EValue (mem u s) ;;;
       r <- cofactor_rec (S (S (nvars s))) u (sorted_levels (dom lv)) lv ∅ ;; ret (fst r)).
Proof. nrf; [apply nrf_map_to_level_dict|apply nrf_cofactor_rec]. Qed.
Lemma nrf_cofactor_names u values : nrf (cofactor_names u values).
Proof. apply nrf_try_to_reorder, nrf_cofactor_body. Qed.
Lemma nrf_cofactor u bn values : nrf (cofactor u bn values).
Proof.
  destruct bn; [apply nrf_cofactor_names|]. unfold cofactor.
  nrf; [apply nrf_map_to_level_dict|apply nrf_var_at_level'|apply nrf_cofactor_names].
Qed.

Lemma tsafe_cofactor_names u values : tsafe (cofactor_names u values).
Proof.
  apply tsafe_try_to_reorder; [apply (nrf_cofactor_body u true)|].
  apply tsafe_bind; [apply tsafe_pure, pure_map_to_level_dict|intros lv].
  apply tsafe_bind_get. intros s r s' HI Hl H.
  destruct (mem u s) eqn:Hm; cbn [ensure] in H; cycle 1.
  { injection H as <- <-. by apply safe_refl. }
  apply mem_valid in Hm. rewrite (bind_ok _ _ s tt s) in H by done.
  apply bind_fst_state in H as [r0 H].
  apply (cofactor_rec_safe (S (S (nvars s))) s u (sorted_levels (dom lv)) lv ∅ r0 s' HI Hm);
    [|apply Cofactor.cache_ok_empty|lia|done].
  intros k Hk _. apply elem_of_sorted_levels. by apply elem_of_dom.
Qed.
Lemma tsafe_cofactor u bn values : tsafe (cofactor u bn values).
Proof.
  destruct bn; [apply tsafe_cofactor_names|]. unfold cofactor.
  apply tsafe_bind; [apply tsafe_pure, pure_map_to_level_dict|intros lv].
  apply tsafe_bind; [|intros nv; apply tsafe_cofactor_names].
  apply tsafe_pure, pure_mapM. intros [l a].
  apply pure_bind; [apply pure_var_at_level|intros v; apply pure_ret].
Qed.

(** *** [compose] *)
Lemma nrf_compose_rec fuel : ∀ f_ j g cache, nrf (compose_rec fuel f_ j g cache).
Proof.
  induction fuel as [|f IH]; intros f_ j g cache; cbn [compose_rec];
    [by apply nrf_raise|].
  nrf; first [apply IH | apply nrf_ite | apply nrf_find_or_add | apply nrf_level_of
             | apply nrf_top_cofactor].
Qed.
Lemma nrf_vector_compose_rec fuel : ∀ f_ ls cache, nrf (vector_compose_rec fuel f_ ls cache).
Proof.
  induction fuel as [|f IH]; intros f_ ls cache; cbn [vector_compose_rec];
    [by apply nrf_raise|].
  nrf; first [apply IH | apply nrf_ite | apply nrf_find_or_add].
Qed.
Lemma nrf_level_of_var v : nrf (level_of_var v).
Proof. unfold level_of_var. nrf. Qed.
Lemma nrf_var_at_level v : nrf (var_at_level v).
Proof. unfold var_at_level. nrf. Qed.

(** [_vector_compose]: every node it creates is a variable node or the
    result of [ite]; safe for arbitrary replacement references *)
Lemma tsafe_vector_compose_rec fuel : ∀ f_ ls cache, tsafe (vector_compose_rec fuel f_ ls cache).
Proof.
  induction fuel as [|f IH]; intros f_ ls cache; cbn [vector_compose_rec];
    [apply tsafe_pure, pure_raise|].
  tsafe; first [apply IH | apply tsafe_ite | apply tsafe_find_or_add_var].
Qed.

Lemma compose_rec_total s f_ j g r s' :
  Inv s → last_len s = None →
  compose_rec (S (S (2 * nvars s))) f_ j g ∅ s = (r, s') → safe s s'.
Proof.
  intros HI Hl Hrun.
  destruct (decide (valid s f_)) as [Hf|Hf]; cycle 1.
  { cbn [compose_rec] in Hrun.
    rewrite decide_False in Hrun by (by apply (junk_not_terminal s)).
    rewrite lookup_empty in Hrun.
    rewrite (bind_err _ _ _ _ _ (getsuccZ_junk s f_ Hf)) in Hrun.
    injection Hrun as <- <-. by apply safe_refl. }
  destruct (decide (valid s g)) as [Hg|Hg].
  { apply (compose_rec_safe (S (S (2 * nvars s))) s f_ j g ∅ r s' HI Hf Hg Hl
             (cache_ok_c_empty s j) (compose_fuel_ok s f_ g) Hrun). }
  cbn [compose_rec] in Hrun.
  destruct (decide (absn f_ = 1%positive ∧ f_ ≠ 0%Z)) as [_|Hnt].
  { injection Hrun as <- <-. by apply safe_refl. }
  rewrite lookup_empty in Hrun.
  destruct (node_cases s HI f_ Hf) as [[E El]|(t&Ht&Hn1&Hlo&_)].
  { exfalso. apply Hnt. split; [done|apply Hf]. }
  rewrite (bind_ok _ _ _ _ _ (getsuccZ_ok s f_ t (proj1 Hf) Ht)) in Hrun.
  unfold is_term, assert in Hrun. rewrite bool_decide_eq_false_2 in Hrun by done.
  cbn [negb] in Hrun. rewrite (bind_ok _ _ s tt s) in Hrun by done.
  destruct (decide (j < t_lvl t)) as [Hji|Hji].
  { injection Hrun as <- <-. by apply safe_refl. }
  destruct (decide (t_lvl t = j)) as [Eij|Hij].
  - rewrite bind_assoc in Hrun.
    destruct (ite g (t_hi t) (t_lo t) s) as [rw s1] eqn:Ew.
    pose proof (tsafe_ite _ _ _ _ _ _ HI Hl Ew) as Hs1.
    destruct rw as [w|e].
    + rewrite (bind_ok _ _ _ _ _ Ew) in Hrun. cbn [bind ret] in Hrun. by injection Hrun as <- <-.
    + rewrite (bind_err _ _ _ _ _ Ew) in Hrun. by injection Hrun as <- <-.
  - rewrite bind_assoc in Hrun.
    rewrite (bind_err _ _ _ _ _ (level_of_junk s g Hg)) in Hrun.
    injection Hrun as <- <-. by apply safe_refl.
Qed.

Definition compose_body (f_ : Z) (var_sub : list (nat * Z)) : MS Z :=
  s <- get ;;
  let fuel := S (S (2 * nvars s)) in
  match var_sub with
  | [(var, g)] =>
      j <- level_of_var var ;;
      r <- compose_rec fuel f_ j g ∅ ;; ret (fst r)
  | _ =>
      dv <- mapM (fun '(var, g) => l <- level_of_var var ;; ret (l, g)) var_sub ;;
      r <- vector_compose_rec fuel f_ (list_to_map (reverse dv)) ∅ ;;
      ret (fst r)
  end.
Lemma nrf_compose_body f_ var_sub : nrf (compose_body f_ var_sub).
Proof.
  unfold compose_body.
  nrf; first [apply nrf_level_of_var | apply nrf_compose_rec | apply nrf_vector_compose_rec].
Qed.
Lemma nrf_compose f_ var_sub : nrf (compose f_ var_sub).
Proof. apply nrf_try_to_reorder, nrf_compose_body. Qed.

Lemma tsafe_compose f_ var_sub : tsafe (compose f_ var_sub).
Proof.
  apply tsafe_try_to_reorder; [apply nrf_compose_body|].
  apply tsafe_bind_get. intros s r s' HI Hl. cbv zeta.
  assert (Hvec : ∀ l : list (nat * Z), tsafe (
      dv <- mapM (fun '(var, g) => l <- level_of_var var ;; ret (l, g)) l ;;
      r <- vector_compose_rec (S (S (2 * nvars s))) f_ (list_to_map (reverse dv)) ∅ ;;
      ret (fst r))).
  { intros l. tsafe. apply tsafe_vector_compose_rec. }
  destruct var_sub as [|[var g] [|xg rest]]; [by apply Hvec| |by apply Hvec].
  intros H. destruct (level_of_var var s) as [rj s1] eqn:Ej.
  pose proof (pure_level_of_var _ _ _ _ Ej) as ->.
  destruct rj as [j|e].
  - rewrite (bind_ok _ _ _ _ _ Ej) in H. apply bind_fst_state in H as [r0 H].
    by apply (compose_rec_total s f_ j g r0 s').
  - rewrite (bind_err _ _ _ _ _ Ej) in H. injection H as <- <-. by apply safe_refl.
Qed.

(** *** [rename] *)
Lemma nrf_copy_bdd_rec fuel : ∀ src u lm cache, nrf (copy_bdd_rec fuel src u lm cache).
Proof.
  induction fuel as [|f IH]; intros src u lm cache; cbn [copy_bdd_rec];
    [by apply nrf_raise|].
  nrf; first [apply IH | apply nrf_ite | apply nrf_find_or_add].
Qed.
Lemma tsafe_copy_bdd_rec fuel : ∀ src u lm cache, tsafe (copy_bdd_rec fuel src u lm cache).
Proof.
  induction fuel as [|f IH]; intros src u lm cache; cbn [copy_bdd_rec];
    [apply tsafe_pure, pure_raise|].
  tsafe; first [apply IH | apply tsafe_ite | apply tsafe_find_or_add_var].
Qed.
Lemma nrf_rename_ u dvars : nrf (rename_ u dvars).
Proof. unfold rename_. nrf; apply nrf_copy_bdd_rec. Qed.
Lemma nrf_rename u dvars : nrf (rename u dvars).
Proof. apply nrf_try_to_reorder, nrf_rename_. Qed.
Lemma tsafe_rename u dvars : tsafe (rename u dvars).
Proof.
  apply tsafe_try_to_reorder; [apply nrf_rename_|].
  unfold rename_. tsafe; apply tsafe_copy_bdd_rec.
Qed.

(** *** [support], [is_essential] (read-only) and [apply], [cube], [let] *)
Lemma nrf_support_rec fuel : ∀ u acc, nrf (support_rec fuel u acc).
Proof.
  induction fuel as [|f IH]; intros u acc; cbn [support_rec]; [by apply nrf_raise|].
  nrf; apply IH.
Qed.
Lemma nrf_support u : nrf (support u).
Proof.
  unfold support, support_levels. nrf; [apply nrf_support_rec|apply nrf_var_at_level].
Qed.
Lemma nrf_is_essential_rec fuel : ∀ u i, nrf (is_essential_rec fuel u i).
Proof.
  induction fuel as [|f IH]; intros u i; cbn [is_essential_rec]; [by apply nrf_raise|].
  nrf; apply IH.
Qed.
Lemma nrf_is_essential u v : nrf (is_essential u v).
Proof. unfold is_essential. nrf. apply nrf_is_essential_rec. Qed.

Lemma nrf_apply_with tbl op u v w : nrf (apply_with tbl op u v w).
Proof.
  unfold apply_with. nrf; first [apply nrf_ite | apply nrf_support | apply nrf_quantify].
Qed.
Lemma tsafe_apply_with tbl op u v w : tsafe (apply_with tbl op u v w).
Proof.
  unfold apply_with.
  tsafe; first [apply tsafe_ite | apply tsafe_pure, pure_support | apply tsafe_quantify].
Qed.
Lemma nrf_apply op u v w : nrf (apply op u v w).
Proof. apply nrf_apply_with. Qed.
Lemma tsafe_apply op u v w : tsafe (apply op u v w).
Proof. apply tsafe_apply_with. Qed.

Lemma nrf_cube dvars : nrf (cube dvars).
Proof. unfold cube. apply nrf_try_to_reorder. nrf; [apply nrf_var|apply nrf_apply]. Qed.
Lemma tsafe_cube dvars : tsafe (cube dvars).
Proof.
  unfold cube. apply tsafe_try_to_reorder.
  - nrf; [apply nrf_var|apply nrf_apply].
  - tsafe; [apply tsafe_var|apply tsafe_apply].
Qed.

Lemma nrf_let d u : nrf (let_ d u).
Proof.
  unfold let_. destruct d as [[|]|[|]|[|]]; try apply nrf_ret;
    [apply nrf_cofactor|apply nrf_compose|apply nrf_rename].
Qed.
Lemma tsafe_let d u : tsafe (let_ d u).
Proof.
  unfold let_. destruct d as [[|]|[|]|[|]]; try apply tsafe_pure, pure_ret;
    [apply tsafe_cofactor|apply tsafe_compose|apply tsafe_rename].
Qed.

(** the public statements: any arguments, any outcome *)
Definition total_post {A} (s : st) (r : res A) (s' : st) : Prop :=
  Inv s' ∧ extends s s' ∧ frame s s' ∧ (∀ L, Counts s L → Counts s' L) ∧
  r ≠ Err ENeedsReordering.

Lemma total_intro {A} (m : MS A) s r s' :
  nrf m → tsafe m → Inv s → last_len s = None → m s = (r, s') → total_post s r s'.
Proof.
  intros Hn Ht HI Hl H. destruct (Ht s r s' HI Hl H) as (?&?&?&?).
  destruct (Hn s r s' Hl H) as [_ ?]. by split_and!.
Qed.

Theorem apply_total s op u v w r s' :
  Inv s → last_len s = None → apply op u v w s = (r, s') → total_post s r s'.
Proof. apply total_intro; [apply nrf_apply|apply tsafe_apply]. Qed.
Theorem quantify_total s u bn qvars fa r s' :
  Inv s → last_len s = None → quantify u bn qvars fa s = (r, s') → total_post s r s'.
Proof. apply total_intro; [apply nrf_quantify|apply tsafe_quantify]. Qed.
Theorem cofactor_total s u bn values r s' :
  Inv s → last_len s = None → cofactor u bn values s = (r, s') → total_post s r s'.
Proof. apply total_intro; [apply nrf_cofactor|apply tsafe_cofactor]. Qed.
Theorem compose_total s f_ var_sub r s' :
  Inv s → last_len s = None → compose f_ var_sub s = (r, s') → total_post s r s'.
Proof. apply total_intro; [apply nrf_compose|apply tsafe_compose]. Qed.
Theorem rename_total s u dvars r s' :
  Inv s → last_len s = None → rename u dvars s = (r, s') → total_post s r s'.
Proof. apply total_intro; [apply nrf_rename|apply tsafe_rename]. Qed.
Theorem cube_total s dvars r s' :
  Inv s → last_len s = None → cube dvars s = (r, s') → total_post s r s'.
Proof. apply total_intro; [apply nrf_cube|apply tsafe_cube]. Qed.
Theorem let_total s d u r s' :
  Inv s → last_len s = None → let_ d u s = (r, s') → total_post s r s'.
Proof. apply total_intro; [apply nrf_let|apply tsafe_let]. Qed.
Theorem support_total s u r s' : support u s = (r, s') → s' = s.
Proof. apply pure_support. Qed.
Theorem is_essential_total s u v r s' : is_essential u v s = (r, s') → s' = s.
Proof. apply pure_is_essential. Qed.

(** the rejected calls of [apply] leave the state untouched *)
Theorem apply_rejected s op u v w :
  arity_ok op v w = false ∨ mem u s = false ∨
  (∃ v', v = Some v' ∧ mem v' s = false) ∨ (∃ w', w = Some w' ∧ mem w' s = false) ∨
  find_template apply_table op = None →
  apply op u v w s = (Err EValue, s).
Proof.
  unfold apply, apply_with. intros H.
  destruct (arity_ok op v w) eqn:Ea; [|done]. cbn [ensure bind ret get].
  destruct (mem u s) eqn:Eu; [|done]. cbn [ensure bind ret].
  destruct H as [?|[?|H]]; [done..|].
  destruct (match v with Some v0 => mem v0 s | None => true end) eqn:Ev; [|done].
  cbn [ensure bind ret].
  destruct (match w with Some w0 => mem w0 s | None => true end) eqn:Ew; [|done].
  cbn [ensure bind ret].
  destruct H as [(v'&->&Hv)|[(w'&->&Hw)|H]]; [congruence..|]. by rewrite H.
Qed.

(** ** 8. Reference counters *)
Lemma getref_junk s u : Inv s → ¬ valid s u →
  (if decide (u = 0%Z) then raise EKey else getref (absn u)) s = (Err EKey, s).
Proof.
  intros HI Hn. case_decide; [done|]. unfold getref.
  destruct (refc s !! absn u) eqn:E; [|done]. exfalso. apply Hn. split; [done|].
  apply elem_of_dom. rewrite <- (inv_ref _ HI). apply elem_of_dom. by eexists.
Qed.

Lemma Inv_unbump s u : Inv s → Inv (unbump u s).
Proof. apply Inv_same. repeat split. cbn. apply dom_alter_L. Qed.

Theorem incref_total s u r s' :
  Inv s → incref u s = (r, s') →
  Inv s' ∧ extends s s' ∧ frame s s' ∧
  (valid s u → r = Ok tt ∧ ∀ L, Counts s L → Counts s' (ledger_inc L (absn u))) ∧
  (¬ valid s u → r = Err EKey ∧ s' = s).
Proof.
  intros HI H. destruct (decide (valid s u)) as [Hu|Hu].
  - rewrite (incref_ok s u HI Hu) in H. injection H as <- <-.
    split; [by apply Inv_bump|]. split; [done|]. split; [done|]. split; [|done].
    intros _. split; [done|]. intros L HL. by apply Counts_bump.
  - unfold incref in H. rewrite (bind_err _ _ _ _ _ (getref_junk s u HI Hu)) in H.
    injection H as <- <-. split; [done|]. split; [reflexivity|]. split; [reflexivity|].
    split; [done|]. done.
Qed.

(** [decref] of a node the caller holds ([0 < L]); without an external
    reference the call still succeeds, see [decref_counts_zero] *)
Theorem decref_total s u r s' :
  Inv s → decref u s = (r, s') →
  Inv s' ∧ extends s s' ∧ frame s s' ∧
  (valid s u → r = Ok tt ∧
     ∀ L, Counts s L → 0 < L (absn u) → Counts s' (ledger_dec L (absn u))) ∧
  (¬ valid s u → r = Err EKey ∧ s' = s).
Proof.
  intros HI H. destruct (decide (valid s u)) as [Hu|Hu].
  - assert (Hr : is_Some (refc s !! absn u)).
    { apply elem_of_dom. rewrite (inv_ref _ HI). apply elem_of_dom, Hu. }
    rewrite (decref_run s u (proj1 Hu) Hr) in H. injection H as <- <-.
    split; [by apply Inv_unbump|]. split; [done|]. split; [done|]. split; [|done].
    intros _. split; [done|]. intros L HL HLu. by apply Counts_unbump.
  - unfold decref in H. rewrite (bind_err _ _ _ _ _ (getref_junk s u HI Hu)) in H.
    injection H as <- <-. split; [done|]. split; [reflexivity|]. split; [reflexivity|].
    split; [done|]. done.
Qed.

Theorem ref_total s u r s' :
  Inv s → ref u s = (r, s') → s' = s ∧ (¬ valid s u → r = Err EKey).
Proof.
  intros HI H. split; [by apply (pure_ref u s r s')|]. intros Hu.
  unfold ref in H. rewrite (getref_junk s u HI Hu) in H. by injection H as <- _.
Qed.

(** ** 9. [configure] *)
Theorem configure_total s b r s' :
  Inv s → configure b s = (r, s') →
  Inv s' ∧ extends s s' ∧ (∀ L, Counts s L → Counts s' L) ∧
  r = Ok (bool_decide (is_Some (last_len s))) ∧
  last_len s' = match b with
                | None => last_len s
                | Some true => Some (Nat.max REORDER_STARTS (len s))
                | Some false => None
                end.
Proof.
  intros HI H. unfold configure in H. cbn [bind get] in H.
  destruct b as [[|]|]; cbn [bind modify ret] in H; injection H as <- <-;
    (split; [by (apply (Inv_same s); [by repeat split|])|]);
    (split; [done|]); (split; [intros L; by apply Counts_same|]); done.
Qed.

(** ** 10. [collect_garbage] *)
Lemma gc_scan_total s (l : list Z) : ∀ (acc : gset positive) r s1,
  foldM (fun (acc : gset positive) (u : Z) =>
            r <- ref u ;;
            if decide (r = 0) then ret (acc ∪ {[absn u]}) else ret acc) acc l s = (r, s1) →
  s1 = s ∧ match r with
           | Ok _ => ∀ u, u ∈ l → u ≠ 0%Z ∧ is_Some (refc s !! absn u)
           | Err e => e = EKey
           end.
Proof.
  induction l as [|u l IH]; intros acc r s1; cbn [foldM].
  { intros [= <- <-]. split; [done|]. intros u Hu. by apply elem_of_nil in Hu. }
  unfold bind at 1. unfold bind at 1. unfold ref.
  destruct (decide (u = 0%Z)) as [->|Hu]; [by intros [= <- <-]|].
  unfold getref. destruct (refc s !! absn u) as [c|] eqn:Ec; [|by intros [= <- <-]].
  assert (Hstep : ∀ X : gset positive,
    (if decide (c = 0) then ret (acc ∪ {[absn u]}) else ret acc) s = (Ok X, s) →
    foldM (fun (acc : gset positive) (u : Z) =>
            r <- (if decide (u = 0%Z) then raise EKey else
                  fun s => match refc s !! absn u with
                           | Some t => (Ok t, s) | None => (Err EKey, s) end) ;;
            if decide (r = 0) then ret (acc ∪ {[absn u]}) else ret acc) X l s = (r, s1) →
    s1 = s ∧ match r with
             | Ok _ => ∀ u0, u0 ∈ u :: l → u0 ≠ 0%Z ∧ is_Some (refc s !! absn u0)
             | Err e => e = EKey
             end).
  { intros X _ HX. apply IH in HX as [-> HX]. split; [done|].
    destruct r as [Y|e]; [|done]. intros u0 Hu0.
    apply elem_of_cons in Hu0 as [->|Hu0]; [|by apply HX]. split; [done|by eexists]. }
  case_decide; by apply Hstep.
Qed.

Theorem collect_garbage_total roots s L r s' :
  Inv s → Counts s L → collect_garbage roots s = (r, s') →
  Inv s' ∧ Counts s' L ∧ vars s' = vars s ∧ lvl2var s' = lvl2var s ∧ frame s s' ∧
  succ s' ⊆ succ s ∧
  (r = Ok tt ∧ ite_tab s' = ∅ ∧
     (∀ n, n = 1%positive ∨ reach (succ s) (fun k => 0 < L k) n → n ∈ dom (succ s'))
   ∨ r = Err EKey ∧ s' = s ∧ ¬ roots_ok s roots).
Proof.
  intros HI HL H.
  assert (Hok : roots_ok s roots →
    Inv s' ∧ Counts s' L ∧ vars s' = vars s ∧ lvl2var s' = lvl2var s ∧ frame s s' ∧
    succ s' ⊆ succ s ∧
    (r = Ok tt ∧ ite_tab s' = ∅ ∧
       (∀ n, n = 1%positive ∨ reach (succ s) (fun k => 0 < L k) n → n ∈ dom (succ s'))
     ∨ r = Err EKey ∧ s' = s ∧ ¬ roots_ok s roots)).
  { intros Hr. destruct (gc_safe roots s L r s' HI HL Hr H) as (?&?&?&?&?&?&?&?&?).
    split_and!; try done. left. by split_and!. }
  destruct roots as [l|]; [|by apply Hok].
  pose proof H as H0. unfold collect_garbage in H. cbn [bind get] in H.
  unfold bind at 1 in H.
  destruct (foldM _ ∅ l s) as [[X|e] s1] eqn:E;
    apply gc_scan_total in E as [-> E].
  - apply Hok. intros u Hu. destruct (E u Hu) as [Hu0 Hs]. split; [done|].
    apply elem_of_dom. rewrite <- (inv_ref _ HI). by apply elem_of_dom.
  - subst e. injection H as <- <-.
    split; [done|split; [done|split; [done|split; [done|split; [reflexivity|split; [done|]]]]]].
    right. split; [done|split; [done|]].
    intros Hr. by destruct (gc_safe (Some l) s L _ _ HI HL Hr H0) as (?&_).
Qed.

(** ** 11. [add_var]: a new variable at the bottom.
    The terminal moves one level down; nothing else changes. *)
Lemma den_raise_term s s' a : Inv s →
  succ s' = <[1%positive := tterm (nvars s')]> (succ s) →
  ∀ f1 f2 u, valid s u → need s u ≤ f1 → need s u ≤ f2 →
  den f1 s' u a = den f2 s u a.
Proof.
  intros HI Es. induction f1 as [|f1 IH]; intros f2 u Hv H1 H2; [unfold need in *; lia|].
  destruct f2 as [|f2]; [unfold need in *; lia|].
  destruct (node_cases s HI u Hv) as [[E _]|(t&Ht&Hn1&Hlo&Hl&?&Hvl&Hvh&?&Hll&Hlh&?)].
  - rewrite (den_term s HI) by done. cbn [den]. rewrite Es, E, lookup_insert. cbn.
    case_decide; case_bool_decide; try lia; done.
  - rewrite (den_step s _ _ _ _ Ht Hlo). cbn [den].
    rewrite Es, lookup_insert_ne by done. rewrite Ht.
    destruct (decide (t_lo t = 0%Z)) as [|_]; [done|].
    assert (Hhi : den f1 s' (t_hi t) a = den f2 s (t_hi t) a)
      by (apply IH; [done|unfold need in *; lia..]).
    assert (Hlow : den f1 s' (t_lo t) a = den f2 s (t_lo t) a)
      by (apply IH; [done|unfold need in *; lia..]).
    rewrite Hhi, Hlow.
    case_decide; case_bool_decide; try lia; by destruct (if a _ then _ else _).
Qed.

Lemma D_raise_term s s' u a : Inv s →
  succ s' = <[1%positive := tterm (nvars s')]> (succ s) → nvars s ≤ nvars s' →
  valid s u → D s' u a = D s u a.
Proof.
  intros HI Es Hn Hu. unfold D. apply den_raise_term; try done; unfold need; lia.
Qed.

Lemma Inv_add_var_fields s s' var : Inv s → vars s !! var = None →
  succ s' = <[1%positive := tterm (S (nvars s))]> (succ s) →
  pred s' = <[tterm (S (nvars s)) := 1%positive]> (delete (tterm (nvars s)) (pred s)) →
  refc s' = refc s → min_free s' = min_free s → ite_tab s' = ite_tab s →
  vars s' = <[var := nvars s]> (vars s) → lvl2var s' = <[nvars s := var]> (lvl2var s) →
  Inv s' ∧ nvars s' = S (nvars s) ∧
  (∀ L, Counts s L → Counts s' L) ∧
  ∀ u, valid s u → valid s' u ∧ (∀ a, D s' u a = D s u a) ∧
                  ∀ ρ, denv s' u ρ = denv s u ρ.
Proof.
  intros HI Hvar Es Ep Er Em Ei Ev El.
  set (n := nvars s) in *.
  assert (Hn' : nvars s' = S n).
  { unfold nvars at 1. rewrite Ev, map_size_insert_None by done. done. }
  assert (Es' : succ s' = <[1%positive := tterm (nvars s')]> (succ s)) by (by rewrite Hn').
  assert (Hl2 : lvl2var s !! n = None).
  { apply eq_None_not_Some. intros Hs. apply (inv_lvls _ HI) in Hs. subst n. lia. }
  assert (Hdom : ∀ k, is_Some (succ s' !! k) ↔ is_Some (succ s !! k)).
  { intros k. rewrite Es. destruct (decide (k = 1%positive)) as [->|].
    - rewrite lookup_insert, (inv_term _ HI). split; by eexists.
    - by rewrite lookup_insert_ne. }
  assert (Hval : ∀ x, valid s' x ↔ valid s x) by (intros x; unfold valid; by rewrite Hdom).
  assert (Hlvl : ∀ x, valid s x → lvl_of s x ≤ lvl_of s' x ∧
                      (absn x ≠ 1%positive → lvl_of s' x = lvl_of s x) ∧
                      lvl_of s' x ≤ S n).
  { intros x Hx. destruct (decide (absn x = 1%positive)) as [E|E].
    - assert (lvl_of s' x = S n) as -> by (unfold lvl_of; by rewrite Es, E, lookup_insert).
      rewrite (lvl_term s HI) by done. fold n. split_and!; [lia|done|lia].
    - assert (lvl_of s' x = lvl_of s x) as ->
        by (unfold lvl_of; by rewrite Es, lookup_insert_ne).
      pose proof (lvl_le s HI x Hx) as Hle. fold n in Hle. split_and!; [lia|done|lia]. }
  assert (HD : ∀ u a, valid s u → D s' u a = D s u a).
  { intros u a Hu. apply D_raise_term; try done. fold n. lia. }
  assert (Hnoterm : ∀ k t, succ s !! k = Some t → k ≠ 1%positive → t_lo t ≠ 0%Z).
  { intros k t Hk Hk1. by destruct (inv_node _ HI _ _ Hk Hk1) as (_&[? _]&_). }
  split; [|split; [done|split]].
  - split.
    + by rewrite Es, Hn', lookup_insert.
    + intros k t Hk Hk1. rewrite Es, lookup_insert_ne in Hk by done.
      destruct (inv_node _ HI _ _ Hk Hk1) as (?&Hvl&?&Hvh&?&?&?).
      destruct (Hlvl _ Hvl) as (?&_), (Hlvl _ Hvh) as (?&_).
      rewrite Hn', !Hval. fold n in H. split_and!; try done; lia.
    + intros k t. rewrite Es, Ep.
      destruct (decide (k = 1%positive)) as [->|Hk1].
      * rewrite lookup_insert. split.
        -- intros [= <-]. by rewrite lookup_insert.
        -- intros Hp. destruct (decide (t = tterm (S n))) as [->|Hne]; [done|].
           rewrite lookup_insert_ne in Hp by done.
           apply lookup_delete_Some in Hp as [Hne' Hp].
           apply (inv_pred _ HI) in Hp. rewrite (inv_term _ HI) in Hp.
           injection Hp as Hp. by destruct Hne'.
      * rewrite lookup_insert_ne by done. split.
        -- intros Hk. pose proof (Hnoterm _ _ Hk Hk1) as Hlo.
           rewrite lookup_insert_ne by (intros <-; done).
           rewrite lookup_delete_ne by (intros <-; done). by apply (inv_pred _ HI).
        -- intros Hp. destruct (decide (t = tterm (S n))) as [->|Hne].
           { rewrite lookup_insert in Hp. congruence. }
           rewrite lookup_insert_ne in Hp by done.
           apply lookup_delete_Some in Hp as [_ Hp]. by apply (inv_pred _ HI).
    + rewrite Em. destruct (inv_free _ HI) as [Hf Hb]. split.
      * apply eq_None_not_Some. rewrite Hdom. by rewrite Hf.
      * intros k Hk. apply Hdom. by apply Hb.
    + rewrite Er, (inv_ref _ HI). apply stdpp.sets.set_eq. intros k.
      rewrite !elem_of_dom. by rewrite Hdom.
    + intros g u v w Hi. rewrite Ei in Hi.
      destruct (inv_ite _ HI _ _ _ _ Hi) as (Hg&Hu&Hv&Hw&Hmin&HDw).
      rewrite !Hval. split_and!; try done.
      * destruct (Hlvl _ Hg) as (Hg1&Hg2&Hg3), (Hlvl _ Hu) as (Hu1&Hu2&Hu3),
          (Hlvl _ Hv) as (Hv1&Hv2&Hv3), (Hlvl _ Hw) as (Hw1&Hw2&Hw3).
        destruct (decide (absn w = 1%positive)) as [Ew|Ew].
        { assert (lvl_of s' w = S n) as -> by (unfold lvl_of; by rewrite Es, Ew, lookup_insert).
          lia. }
        rewrite (Hw2 Ew).
        pose proof (lvl_le s HI _ Hg) as Lg. pose proof (lvl_le s HI _ Hu) as Lu.
        pose proof (lvl_le s HI _ Hv) as Lv. fold n in Lg, Lu, Lv.
        destruct (node_cases s HI w Hw) as [[? _]|(tw&_&_&_&Hlw&Hlwn&_)]; [done|].
        fold n in Hlwn. rewrite <- Hlw in Hlwn.
        assert (Hterm : ∀ x, valid s x → lvl_of s x < n → lvl_of s' x = lvl_of s x).
        { intros x Hx Hlt. apply Hlvl; [done|]. intros E.
          rewrite (lvl_term s HI x E) in Hlt. fold n in Hlt. lia. }
        destruct (Nat.min_spec (lvl_of s g `min` lvl_of s u) (lvl_of s v)) as [[? Em']|[? Em']];
          destruct (Nat.min_spec (lvl_of s g) (lvl_of s u)) as [[? Em'']|[? Em'']];
          rewrite ?Em', ?Em'' in Hmin.
        -- rewrite <- (Hterm g) in Hmin by first [done|lia]. lia.
        -- rewrite <- (Hterm u) in Hmin by first [done|lia]. lia.
        -- rewrite <- (Hterm v) in Hmin by first [done|lia]. lia.
        -- rewrite <- (Hterm v) in Hmin by first [done|lia]. lia.
      * intros a. rewrite !HD by done. apply HDw.
    + intros v l. rewrite Ev, El.
      destruct (decide (v = var)) as [->|Hv]; destruct (decide (l = n)) as [->|Hl].
      * by rewrite !lookup_insert.
      * rewrite lookup_insert, lookup_insert_ne by done. split; [congruence|].
        intros Hx. apply (inv_vars _ HI) in Hx. congruence.
      * rewrite lookup_insert_ne, lookup_insert by done. split; [|congruence].
        intros Hx. apply (inv_vars _ HI) in Hx. congruence.
      * rewrite !lookup_insert_ne by done. apply (inv_vars _ HI).
    + intros l. rewrite Hn', El. destruct (decide (l = n)) as [->|Hl].
      * rewrite lookup_insert. split; [by eexists|lia].
      * rewrite lookup_insert_ne by done. rewrite <- (inv_lvls _ HI). fold n. lia.
  - intros L [H1 H2]. split.
    + intros k Hk. apply elem_of_dom in Hk. apply Hdom in Hk. apply elem_of_dom in Hk.
      rewrite Er, (H1 k Hk). do 2 f_equal. rewrite Es.
      pose proof (indeg_update (succ s) 1%positive _ (tterm (S n)) k (inv_term _ HI)) as Hup.
      unfold edges_to, tterm in Hup. cbn in Hup.
      rewrite !decide_False in Hup by (intros [? _]; done). unfold tterm. lia.
    + intros k Hk. apply H2. intros Hk'. apply Hk.
      apply elem_of_dom. apply Hdom. by apply elem_of_dom.
  - intros u Hu. split; [by apply Hval|]. split; [intros a; by apply HD|].
    intros ρ. unfold denv. rewrite HD by done. apply (D_indep_lt s HI); [done|].
    intros j Hj. fold n in Hj. rewrite El, lookup_insert_ne by lia. done.
Qed.

(** [add_var] with any name and any level.  The guard excludes the one
    accepted call that breaks the invariant: a NEW name at an explicit level
    beyond the next free one (see [add_var_gap_refuted] in [Vars]). *)
Theorem add_var_total s var level r s' :
  Inv s → add_var var level s = (r, s') →
  (∀ l, level = Some l → vars s !! var = None → l ≤ nvars s) →
  Inv s' ∧ frame s s' ∧ (∀ L, Counts s L → Counts s' L) ∧
  (∀ u, valid s u → valid s' u ∧ (∀ a, D s' u a = D s u a) ∧
                    ∀ ρ, denv s' u ρ = denv s u ρ) ∧
  match r with
  | Ok l => (vars s !! var = Some l ∧ s' = s) ∨
            (vars s !! var = None ∧ l = nvars s ∧ nvars s' = S (nvars s) ∧
             vars s' = <[var := l]> (vars s) ∧ lvl2var s' = <[l := var]> (lvl2var s) ∧
             succ s' = <[1%positive := tterm (S (nvars s))]> (succ s))
  | Err e => e = EValue ∧ s' = s
  end.
Proof.
  intros HI H Hg.
  assert (Hsame : ∀ r0 : res nat, match r0 with
            | Ok l => vars s !! var = Some l | Err e => e = EValue end →
    Inv s ∧ frame s s ∧ (∀ L, Counts s L → Counts s L) ∧
    (∀ u, valid s u → valid s u ∧ (∀ a, D s u a = D s u a) ∧
                      ∀ ρ, denv s u ρ = denv s u ρ) ∧
    match r0 with
    | Ok l => (vars s !! var = Some l ∧ s = s) ∨
              (vars s !! var = None ∧ l = nvars s ∧ nvars s = S (nvars s) ∧
               vars s = <[var := l]> (vars s) ∧ lvl2var s = <[l := var]> (lvl2var s) ∧
               succ s = <[1%positive := tterm (S (nvars s))]> (succ s))
    | Err e => e = EValue ∧ s = s
    end).
  { intros r0 Hr0. split; [done|split; [reflexivity|split; [done|split; [done|]]]].
    destruct r0; [by left|done]. }
  unfold add_var in H. cbn [bind get] in H.
  destruct (decide (is_Some (vars s !! var))) as [[vl Hvl]|Hnew].
  { unfold check_var in H. cbn [bind get] in H. rewrite Hvl in H.
    destruct level as [l|]; [case_decide|]; injection H as <- <-;
      [by apply (Hsame (Ok vl))|by apply (Hsame (Err EValue))|by apply (Hsame (Ok vl))]. }
  apply eq_None_not_Some in Hnew.
  unfold next_free_level in H. rewrite bind_assoc in H. cbn [bind get] in H.
  set (l := match level with Some l => l | None => nvars s end) in *.
  destruct (lvl2var s !! l) as [x|] eqn:El2.
  { cbn [bind raise] in H. injection H as <- <-. by apply (Hsame (Err EValue)). }
  assert (Hl : l = nvars s).
  { assert (l ≤ nvars s) by (subst l; destruct level; [by apply Hg|done]).
    destruct (decide (l < nvars s)) as [Hlt|]; [|lia].
    apply (inv_lvls _ HI) in Hlt as [? ?]. congruence. }
  clear Hsame Hg. clearbody l. subst l.
  cbn [bind ret modify get init_terminal] in H. injection H as <- <-.
  match goal with |- context [Inv ?st] => set (s' := st) end.
  assert (Hn2 : size (<[var := nvars s]> (vars s)) = S (nvars s))
    by (by rewrite map_size_insert_None).
  destruct (Inv_add_var_fields s s' var HI Hnew) as (HI'&Hn'&HC&Hden).
  - subst s'. cbn. by rewrite Hn2.
  - subst s'. cbn. rewrite Hn2, (inv_term _ HI). done.
  - subst s'. cbn. assert (is_Some (refc s !! 1%positive)) as [c ->]; [|done].
    apply elem_of_dom. rewrite (inv_ref _ HI). apply elem_of_dom.
    rewrite (inv_term _ HI). by eexists.
  - done.
  - done.
  - done.
  - done.
  - split; [done|split; [by repeat split|split; [done|split; [done|]]]].
    right. split_and!; try done.
    subst s'. cbn. by rewrite Hn2.
Qed.

Lemma nrf_add_var var level : nrf (add_var var level).
Proof.
  unfold add_var, check_var, next_free_level, init_terminal. nrf.
Qed.

(** [declare]: new names at the bottom, one after the other; never fails *)
Theorem declare_total s vs r s' :
  Inv s → declare vs s = (r, s') →
  r = Ok tt ∧ Inv s' ∧ frame s s' ∧ (∀ L, Counts s L → Counts s' L) ∧
  ∀ u, valid s u → valid s' u ∧ (∀ a, D s' u a = D s u a) ∧
                   ∀ ρ, denv s' u ρ = denv s u ρ.
Proof.
  unfold declare. revert s. induction vs as [|v vs IH]; intros s HI; cbn [forM].
  { intros [= <- <-]. split; [done|split; [done|split; [reflexivity|done]]]. }
  unfold bind at 1. unfold bind at 1.
  destruct (add_var v None s) as [ra s1] eqn:Ea.
  destruct (add_var_total s v None ra s1 HI Ea ltac:(done)) as (HI1&Hf1&HC1&Hd1&Hr).
  destruct ra as [l|e]; cycle 1.
  { exfalso. destruct Hr as [_ ->]. revert Ea. unfold add_var. cbn [bind get].
    case_decide as Hex.
    - destruct Hex as [vl Hvl]. unfold check_var. cbn [bind get]. by rewrite Hvl.
    - unfold next_free_level. rewrite bind_assoc. cbn [bind get].
      destruct (lvl2var s !! nvars s) eqn:E;
        [|cbn [bind get ret modify init_terminal]; done].
      assert (nvars s < nvars s); [|lia]. apply (inv_lvls _ HI). by eexists. }
  cbn [ret]. intros H. destruct (IH s1 HI1 H) as (->&HI'&Hf'&HC'&Hd').
  split; [done|split; [done|split; [by etrans|split]]].
  - intros L HL. by apply HC', HC1.
  - intros u Hu. destruct (Hd1 u Hu) as (Hu1&HD1&Hρ1). destruct (Hd' u Hu1) as (Hu2&HD2&Hρ2).
    split; [done|split].
    + intros a. by rewrite HD2.
    + intros ρ. by rewrite Hρ2.
Qed.

(** ** 12. Construction: [BDD()] and [BDD(levels)] *)
Lemma init_fields :
  succ init = {[1%positive := tterm 0]} ∧ pred init = {[tterm 0 := 1%positive]} ∧
  refc init = {[1%positive := 1]} ∧ min_free init = 2%positive ∧ ite_tab init = ∅ ∧
  vars init = ∅ ∧ lvl2var init = ∅ ∧ last_len init = None ∧ rctx init = false.
Proof.
  unfold init, init_terminal. cbn. rewrite delete_empty, lookup_empty. by split_and!.
Qed.

(** a manager that only holds the terminal (no invariant on the levels yet:
    [BDD(levels)] declares the levels in the dict's order) *)
Definition fresh (s : st) : Prop :=
  succ s = {[1%positive := tterm (nvars s)]} ∧
  pred s = {[tterm (nvars s) := 1%positive]} ∧
  refc s = {[1%positive := 1]} ∧ min_free s = 2%positive ∧ ite_tab s = ∅ ∧
  (∀ v l, vars s !! v = Some l ↔ lvl2var s !! l = Some v) ∧
  size (lvl2var s) = nvars s.

Lemma fresh_init : fresh init.
Proof.
  destruct init_fields as (?&?&?&?&?&Ev&El&_). unfold fresh.
  change (nvars init) with 0. rewrite Ev, El.
  split_and!; try done.
Qed.

Lemma fresh_Inv s : fresh s → (∀ l, l < nvars s ↔ is_Some (lvl2var s !! l)) → Inv s.
Proof.
  intros (Es&Ep&Er&Em&Ei&Hb&_) Hl. split.
  - by rewrite Es, lookup_singleton.
  - intros n t Hn Hn1. rewrite Es in Hn. apply lookup_singleton_Some in Hn as [<- _]. done.
  - intros n t. rewrite Es, Ep, !lookup_singleton_Some. naive_solver.
  - rewrite Em, Es. split; [done|]. intros k Hk.
    assert (k = 1%positive) as -> by lia. rewrite lookup_singleton. by eexists.
  - by rewrite Er, Es, !dom_singleton_L.
  - intros g u v w Hi. by rewrite Ei, lookup_empty in Hi.
  - done.
  - done.
Qed.

Lemma Inv_init : Inv init.
Proof.
  apply fresh_Inv; [apply fresh_init|]. intros l. change (nvars init) with 0.
  change (lvl2var init) with (∅ : gmap nat nat). rewrite lookup_empty.
  split; [lia|by intros [? ?]].
Qed.

Lemma Counts_init : Counts init (fun n => if decide (n = 1%positive) then 1 else 0).
Proof.
  destruct init_fields as (Es&_&Er&_). split.
  - intros n Hn. rewrite Es, dom_singleton_L in Hn. apply elem_of_singleton in Hn as ->.
    rewrite Er, Es, lookup_singleton. f_equal.
  - intros n Hn. rewrite Es, dom_singleton_L in Hn. rewrite decide_False; [done|].
    intros ->. apply Hn. by apply elem_of_singleton.
Qed.

(** one [add_var(v, l)] of a new name at a free level, in a fresh manager *)
Lemma fresh_add_var s v l :
  fresh s → vars s !! v = None → lvl2var s !! l = None →
  ∃ s', add_var v (Some l) s = (Ok l, s') ∧ fresh s' ∧ frame s s' ∧
        vars s' = <[v := l]> (vars s) ∧ lvl2var s' = <[l := v]> (lvl2var s).
Proof.
  intros (Es&Ep&Er&Em&Ei&Hb&Hsz) Hv Hl.
  unfold add_var. cbn [bind get]. rewrite decide_False by (rewrite Hv; by intros [? ?]).
  unfold next_free_level. rewrite bind_assoc. cbn [bind get]. rewrite Hl.
  cbn [bind ret modify get init_terminal]. eexists. split; [reflexivity|].
  assert (Hn2 : size (<[v := l]> (vars s)) = S (nvars s))
    by (by rewrite map_size_insert_None).
  split; [|split; [by repeat split|done]].
  unfold fresh, nvars. cbn. rewrite Hn2, Es, Ep, Er. fold (nvars s).
  split; [apply insert_singleton|]. split.
  { rewrite lookup_singleton. cbn [default]. by rewrite delete_singleton, insert_empty. }
  split; [by rewrite lookup_singleton|].
  split; [done|split; [done|split]].
  - intros v' l'.
    destruct (decide (v' = v)) as [->|Hv']; destruct (decide (l' = l)) as [->|Hl'].
    + by rewrite !lookup_insert.
    + rewrite lookup_insert, lookup_insert_ne by done. split; [congruence|].
      intros Hx. apply Hb in Hx. congruence.
    + rewrite lookup_insert_ne, lookup_insert by done. split; [|congruence].
      intros Hx. apply Hb in Hx. congruence.
    + rewrite !lookup_insert_ne by done. apply Hb.
  - rewrite map_size_insert_None by done. by rewrite Hsz.
Qed.

(** [BDD(levels)] with distinct names and distinct levels (a Python dict
    has distinct keys): the assertion on the ordering fails and the manager is
    the empty one, or every variable is declared at its level *)
Lemma init_levels_forM (levels : list (nat * nat)) : ∀ s,
  fresh s → NoDup (levels.*1) → NoDup (levels.*2) →
  (∀ v, v ∈ levels.*1 → vars s !! v = None) →
  (∀ l, l ∈ levels.*2 → lvl2var s !! l = None) →
  ∃ s', forM levels (fun '(v, l) => add_var v (Some l) ;;; ret tt) s = (Ok tt, s') ∧
        fresh s' ∧ frame s s' ∧
        vars s' = list_to_map levels ∪ vars s ∧
        dom (lvl2var s') = list_to_set (levels.*2) ∪ dom (lvl2var s).
Proof.
  induction levels as [|[v l] levels IH]; intros s Hf Hn1 Hn2 Hv Hl.
  { exists s. cbn. split; [done|split; [done|split; [reflexivity|]]].
    split; [by rewrite (left_id_L ∅ (∪))|set_solver]. }
  cbn [fmap list_fmap fst snd] in Hn1, Hn2, Hv, Hl.
  apply NoDup_cons in Hn1 as [Hv1 Hn1]. apply NoDup_cons in Hn2 as [Hl1 Hn2].
  destruct (fresh_add_var s v l Hf) as (s1&Ea&Hf1&Hfr1&Ev1&El1);
    [apply Hv; by left|apply Hl; by left|].
  destruct (IH s1 Hf1 Hn1 Hn2) as (s'&Er&Hf'&Hfr'&Ev'&El').
  { intros v' Hv'. rewrite Ev1, lookup_insert_ne; [apply Hv; by right|]. by intros ->. }
  { intros l' Hl'. rewrite El1, lookup_insert_ne; [apply Hl; by right|]. by intros ->. }
  exists s'. cbn [forM]. rewrite bind_assoc, (bind_ok _ _ _ _ _ Ea). cbn [bind ret].
  split; [done|split; [done|split; [by etrans|split]]].
  - rewrite Ev', Ev1. cbn [list_to_map foldr]. cbn.
    rewrite <- insert_union_r; [by rewrite insert_union_l|].
    apply not_elem_of_list_to_map_1. done.
  - rewrite El', El1, dom_insert_L. cbn [fmap list_fmap snd list_to_set foldr]. cbn. set_solver.
Qed.

Theorem init_levels_total (levels : list (nat * nat)) r s' :
  NoDup (levels.*1) → NoDup (levels.*2) →
  init_levels levels init = (r, s') →
  (valid_ordering levels = false ∧ r = Err EAssert ∧ s' = init) ∨
  (valid_ordering levels = true ∧ r = Ok tt ∧ Inv s' ∧ last_len s' = None ∧
   rctx s' = false ∧ vars s' = list_to_map levels ∧
   Counts s' (fun n => if decide (n = 1%positive) then 1 else 0)).
Proof.
  intros Hn1 Hn2. unfold init_levels.
  destruct (valid_ordering levels) eqn:Hvo; cbn [assert bind ret raise]; cycle 1.
  { intros [= <- <-]. by left. }
  intros H. right.
  destruct (init_levels_forM levels init fresh_init Hn1 Hn2) as (s1&Er&Hf&Hfr&Ev&El).
  { intros v _. apply lookup_empty. }
  { intros l _. apply lookup_empty. }
  rewrite Er in H. injection H as <- <-.
  change (vars init) with (∅ : gmap nat nat) in Ev. rewrite (right_id_L ∅ (∪)) in Ev.
  change (lvl2var init) with (∅ : gmap nat nat) in El.
  rewrite dom_empty_L, (right_id_L ∅ (∪)) in El.
  apply bool_decide_eq_true in Hvo. rewrite Hvo in El.
  assert (Hnv : nvars s1 = length levels).
  { destruct Hf as (_&_&_&_&_&_&Hsz). rewrite <- Hsz, <- size_dom, El.
    rewrite size_list_to_set by apply NoDup_seq. by rewrite seq_length. }
  assert (HI : Inv s1).
  { apply fresh_Inv; [done|]. intros l. rewrite Hnv, <- elem_of_dom, El.
    rewrite elem_of_list_to_set, elem_of_seq. lia. }
  destruct Hfr as (E1&E2&_).
  split; [done|split; [done|split; [done|split; [by rewrite E1|split; [by rewrite E2|]]]]].
  split; [done|].
  destruct Hf as (Es&_&Er'&_). split.
  - intros n Hn. rewrite Es, dom_singleton_L in Hn. apply elem_of_singleton in Hn as ->.
    rewrite Er', Es, lookup_singleton. f_equal.
  - intros n Hn. rewrite Es, dom_singleton_L in Hn. rewrite decide_False; [done|].
    intros ->. apply Hn. by apply elem_of_singleton.
Qed.

(** ** 13. Histories over the operation alphabet of [Driver] *)

(** the state predicate that every allowed history maintains *)
Definition Good (s : st) : Prop :=
  Inv s ∧ last_len s = None ∧ ∃ L, Counts s L.

(** the sub-alphabet: everything except [find_or_add] (see
    [find_or_add_total]), the reordering entry points, the harness setters,
    [copy_bdd] and [image]/[preimage]; the assignment [bdd.max_nodes = n]
    ([OSetMaxNodes]) belongs to it, so the histories meet full tables *)
Definition allowed (o : op) : bool :=
  match o with
  | ONew levels => bool_decide (NoDup (levels.*1) ∧ NoDup (levels.*2))
  | OAddVar _ _ | ODeclare _ | OVar _ | OIte _ _ _ | OApply _ _ _ _
  | OIncref _ | ODecref _ | ORef _ | OGc _
  | OCofactor _ _ _ | OQuantify _ _ _ _ | OCompose _ _ | ORename _ _
  | OLet _ _ | OCube _ | OSupport _ | OIsEssential _ _ => true
  | OConfigure b => bool_decide (b ≠ Some true)
  | OSetMaxNodes _ => true
  | _ => false
  end.

(** the two caller obligations that the code does not check:
    - a new variable is not added at a level beyond the next free one;
    - [decref] is only applied to a node on which the caller holds a
      reference (the counter exceeds the in-degree). *)
Definition caller_ok (s : st) (o : op) : Prop :=
  match o with
  | OAddVar v (Some l) => vars s !! v = None → l ≤ nvars s
  | ODecref u => valid s u → indeg (succ s) (absn u) < default 0 (refc s !! absn u)
  | _ => True
  end.

Definition is_new (o : op) : bool := match o with ONew _ => true | _ => false end.

Lemma Good_safe s s' : Good s → safe s s' → Good s'.
Proof.
  intros (HI&Hl&L&HL) (HI'&_&(E&_)&HC). split; [done|split; [congruence|]].
  exists L. by apply HC.
Qed.
Lemma Good_tape s t : Good s → Good (s <| tape := t |>).
Proof.
  intros (HI&Hl&L&HL). split; [|split; [done|]].
  - apply (Inv_same s); [by repeat split|done].
  - exists L. by apply (Counts_same s).
Qed.
Lemma Good_tsafe {A} (m : MS A) s r s' : tsafe m → Good s → m s = (r, s') → Good s'.
Proof.
  intros Ht HG H. apply (Good_safe s); [done|]. destruct HG as (HI&Hl&_).
  by apply (Ht s r s').
Qed.

Theorem run_op_good w o s r s' :
  allowed o = true → (is_new o = false → Good s ∧ caller_ok s o) →
  run_op w o s = (r, s') → Good s'.
Proof.
  intros Ha Hpre H.
  destruct o; try discriminate Ha; cbn [run_op] in H;
    try (destruct (Hpre eq_refl) as [HG Hgd]; pose proof HG as (HI&Hl&L&HL));
    try (apply bind_fst_state in H as [r0 H]).
  - (* ONew *)
    cbn [allowed] in Ha. apply bool_decide_eq_true in Ha as [Hn1 Hn2].
    cbn [bind modify] in H.
    destruct (init_levels_total levels r0 s' Hn1 Hn2 H)
      as [(_&_&->)|(_&_&HI'&Hl'&_&_&HC')].
    + split; [apply Inv_init|split; [done|]]. eexists. apply Counts_init.
    + split; [done|split; [done|]]. by eexists.
  - (* OAddVar *)
    destruct (add_var_total s v l r0 s' HI H) as (HI'&(E&_)&HC&_).
    { intros l0 -> Hv. by apply Hgd. }
    split; [done|split; [congruence|]]. exists L. by apply HC.
  - (* ODeclare *)
    destruct (declare_total s vs r0 s' HI H) as (_&HI'&(E&_)&HC&_).
    split; [done|split; [congruence|]]. exists L. by apply HC.
  - by apply (Good_tsafe _ s r0 s' (tsafe_var v)).
  - by apply (Good_tsafe _ s r0 s' (tsafe_ite g u v)).
  - by apply (Good_tsafe _ s r0 s' (tsafe_apply o u v w0)).
  - (* OIncref *)
    destruct (incref_total s u r0 s' HI H) as (HI'&_&(E&_)&Hv&Hn).
    destruct (decide (valid s u)) as [Hu|Hu].
    + destruct (Hv Hu) as [_ HC]. split; [done|split; [congruence|]].
      eexists. by apply HC.
    + destruct (Hn Hu) as [_ ->]. done.
  - (* ODecref *)
    destruct (decref_total s u r0 s' HI H) as (HI'&_&(E&_)&Hv&Hn).
    destruct (decide (valid s u)) as [Hu|Hu].
    + destruct (Hv Hu) as [_ HC]. split; [done|split; [congruence|]].
      eexists. apply HC; [done|]. cbn [caller_ok] in Hgd. specialize (Hgd Hu).
      destruct HL as [H1 _]. rewrite (H1 (absn u)) in Hgd by apply elem_of_dom, Hu.
      cbn in Hgd. lia.
    + destruct (Hn Hu) as [_ ->]. done.
  - (* ORef *)
    destruct (ref_total s u r0 s' HI H) as [-> _]. done.
  - (* OGc *)
    destruct (collect_garbage_total roots s L r0 s' HI HL H) as (HI'&HC'&_&_&(E&_)&_).
    split; [done|split; [congruence|]]. by exists L.
  - (* OConfigure *)
    cbn [allowed] in Ha. apply bool_decide_eq_true in Ha.
    destruct (configure_total s b r0 s' HI H) as (HI'&_&HC&_&E).
    split; [done|split]; [|exists L; by apply HC].
    rewrite E. by destruct b as [[|]|].
  - (* OSetMaxNodes *)
    cbn [modify] in H. injection H as _ <-.
    split; [apply (Inv_same s); [by repeat split|done]|split; [done|]].
    exists L. by apply (Counts_same s).
  - by apply (Good_tsafe _ s r0 s' (tsafe_cofactor u byname values)).
  - by apply (Good_tsafe _ s r0 s' (tsafe_quantify u byname qvars fa)).
  - by apply (Good_tsafe _ s r0 s' (tsafe_compose u sub)).
  - by apply (Good_tsafe _ s r0 s' (tsafe_rename u d)).
  - by apply (Good_tsafe _ s r0 s' (tsafe_let d u)).
  - by apply (Good_tsafe _ s r0 s' (tsafe_cube d)).
  - by rewrite (pure_support _ _ _ _ H).
  - by rewrite (pure_is_essential _ _ _ _ _ H).
Qed.

(** one call on manager [m] of a world *)
Theorem step_good w m o :
  allowed o = true →
  (is_new o = false → Good (world_get w m) ∧ caller_ok (world_get w m) o) →
  Good (world_get (fst (step w m o)) m).
Proof.
  intros Ha Hpre. unfold step, world_get in *.
  set (s := default empty_st (w !! m)) in *.
  assert (Hrun : ∀ r s', run_op w o s = (r, s') → Good (s' <| tape := [] |>)).
  { intros r s' H. apply Good_tape. by apply (run_op_good w o s r s'). }
  destruct o; try discriminate Ha;
    (destruct (run_op w _ s) as [r s'] eqn:E; cbn [fst]; unfold world;
     rewrite lookup_insert; cbn [default];
     by apply (Hrun r s')).
Qed.

(** histories: every call allowed and guarded in the state it meets *)
Fixpoint hist_ok (w : world) (m : nat) (ops : list op) : Prop :=
  match ops with
  | [] => True
  | o :: ops =>
      allowed o = true ∧ caller_ok (world_get w m) o ∧ hist_ok (fst (step w m o)) m ops
  end.
Definition run (w : world) (m : nat) (ops : list op) : world :=
  fold_left (fun w o => fst (step w m o)) ops w.

Theorem run_inv_partial ops : ∀ w m,
  Good (world_get w m) → hist_ok w m ops → Good (world_get (run w m ops) m).
Proof.
  induction ops as [|o ops IH]; intros w m HG Hh; [done|].
  destruct Hh as (Ha&Hgd&Hh). cbn [run fold_left]. apply IH; [|done].
  apply step_good; [done|]. intros _. by split.
Qed.

(** from the empty world: the first call constructs the manager *)
Theorem run_inv_from_new levels ops m :
  allowed (ONew levels) = true →
  hist_ok (fst (step world_empty m (ONew levels))) m ops →
  Good (world_get (run world_empty m (ONew levels :: ops)) m).
Proof.
  intros Ha Hh. cbn [run fold_left]. apply run_inv_partial; [|done].
  apply step_good; [done|]. by intros [=].
Qed.

(** ** 14. A failing call ([Err e]) over the allowed alphabet: the state at
    the raise point extends the state of the call *)
Lemma bind_ret_err {A C} (m : MS A) (h : A → C) s e s' :
  (x <- m ;; ret (h x)) s = (Err e, s') → m s = (Err e, s').
Proof. unfold bind. by destruct (m s) as [[x|e0] s1]; intros [= <- <-]. Qed.

Lemma tsafe_err {A} (m : MS A) s e s' :
  nrf m → tsafe m → Good s → m s = (Err e, s') → safe s s' ∧ e ≠ ENeedsReordering.
Proof.
  intros Hn Ht (HI&Hl&_) H. split; [by apply (Ht s (Err e) s')|].
  destruct (Hn s (Err e) s' Hl H) as [_ Hr]. by intros ->.
Qed.

Theorem run_op_err w o s e s' :
  allowed o = true → is_new o = false → Good s → caller_ok s o →
  run_op w o s = (Err e, s') →
  safe s s' ∧ e ≠ ENeedsReordering.
Proof.
  intros Ha Hnew HG Hgd H. pose proof HG as (HI&Hl&L&HL).
  assert (Hrefl : e ≠ ENeedsReordering → s' = s → safe s s' ∧ e ≠ ENeedsReordering).
  { intros ? ->. split; [by apply safe_refl|done]. }
  destruct o; try discriminate Ha; try discriminate Hnew; cbn [run_op] in H;
    apply bind_ret_err in H.
  - destruct (add_var_total s v l _ s' HI H) as (_&_&_&_&->&->); [|by apply Hrefl].
    intros l0 -> Hv. by apply Hgd.
  - by destruct (declare_total s vs _ s' HI H) as ([=]&_).
  - by apply (tsafe_err _ s e s' (nrf_var v) (tsafe_var v)).
  - by apply (tsafe_err _ s e s' (nrf_ite g u v) (tsafe_ite g u v)).
  - by apply (tsafe_err _ s e s' (nrf_apply o u v w0) (tsafe_apply o u v w0)).
  - destruct (incref_total s u _ s' HI H) as (_&_&_&Hv&Hn).
    destruct (decide (valid s u)) as [Hu|Hu]; [by destruct (Hv Hu) as [[=] _]|].
    destruct (Hn Hu) as [[= ->] ->]. by apply Hrefl.
  - destruct (decref_total s u _ s' HI H) as (_&_&_&Hv&Hn).
    destruct (decide (valid s u)) as [Hu|Hu]; [by destruct (Hv Hu) as [[=] _]|].
    destruct (Hn Hu) as [[= ->] ->]. by apply Hrefl.
  - destruct (nrf_ref u s _ s' Hl H) as [_ Hr].
    apply Hrefl; [by intros ->|by apply (pure_ref u s (Err e) s')].
  - destruct (collect_garbage_total roots s L _ s' HI HL H)
      as (_&_&_&_&_&_&[([=]&_)|([= ->]&->&_)]). by apply Hrefl.
  - by destruct (configure_total s b _ s' HI H) as (_&_&_&[=]&_).
  - discriminate H.
  - by apply (tsafe_err _ s e s' (nrf_cofactor u byname values) (tsafe_cofactor u byname values)).
  - by apply (tsafe_err _ s e s' (nrf_quantify u byname qvars fa) (tsafe_quantify u byname qvars fa)).
  - by apply (tsafe_err _ s e s' (nrf_compose u sub) (tsafe_compose u sub)).
  - by apply (tsafe_err _ s e s' (nrf_rename u d) (tsafe_rename u d)).
  - by apply (tsafe_err _ s e s' (nrf_let d u) (tsafe_let d u)).
  - by apply (tsafe_err _ s e s' (nrf_cube d) (tsafe_cube d)).
  - destruct (nrf_support u s _ s' Hl H) as [_ Hr].
    apply Hrefl; [by intros ->|by apply (pure_support u s (Err e) s')].
  - destruct (nrf_is_essential u v s _ s' Hl H) as [_ Hr].
    apply Hrefl; [by intros ->|by apply (pure_is_essential u v s (Err e) s')].
Qed.

(** ** 15. The counterexample: [find_or_add] with a level that is not above
    the children creates an ill-ordered node and breaks the invariant *)
Definition cx_s : st := snd (var 0 (snd (declare [0; 1] init))).
Definition cx_s' : st := snd (find_or_add 1 2 1 cx_s).

Lemma cx_s_Inv : Inv cx_s ∧ last_len cx_s = None.
Proof.
  unfold cx_s. destruct (declare [0; 1] init) as [r1 s1] eqn:E1.
  destruct (declare_total init _ _ _ Inv_init E1) as (_&HI1&(El1&_)&_).
  cbn [snd]. destruct (var 0 s1) as [r2 s2] eqn:E2. cbn [snd].
  assert (Hl1 : last_len s1 = None) by (by rewrite El1).
  destruct (tsafe_var 0 s1 r2 s2 HI1 Hl1 E2) as (HI2&_&(El2&_)&_).
  split; [done|by rewrite El2].
Qed.

Example find_or_add_junk_refuted :
  fst (find_or_add 1 2 1 cx_s) = Ok 3%Z ∧ ¬ Inv cx_s'.
Proof.
  split; [by vm_compute|]. intros HI.
  assert (Hn : succ cx_s' !! 3%positive = Some (Triple 1 2 1)) by (by vm_compute).
  destruct (inv_node _ HI _ _ Hn ltac:(done)) as (_&_&_&_&Hlo&_).
  vm_compute in Hlo. lia.
Qed.
