(** * Functional correctness of the PUBLIC [image], [preimage], [copy_bdd]
      ([image_pub], [preimage_pub], [copy_bdd_pub]: the inner computation run
      through [guarded]) for ANY reordering threshold [last_len]: dynamic
      reordering enabled or not.  The theorems of [Proofs/Image.v] and
      [Proofs/Subst.v] assume [last_len s = None]; here that hypothesis is
      dropped and [last_len s' = last_len s] is added to the conclusion.
      The theorems that conclude an [Ok] result assume [max_nodes s = None] (no
      node limit on the manager that receives nodes); [image_pub_spec_run] is
      given an [Ok] result and needs no such hypothesis.  What holds with a
      limit (any outcome) is in [Proofs/Total3.v]. *)
From DD Require Export Image Total3.

Lemma set_ll_id (s : st) : s <| last_len := last_len s |> = s.
Proof. by destruct s. Qed.
Lemma Inv_ll s x : Inv (s <| last_len := x |>) ↔ Inv s.
Proof. split; apply Inv_same; by repeat split. Qed.

(** ** The guard: the inner computation runs from [s] with requests disabled
    and the final state is the inner one with the threshold restored *)
Lemma guarded_run_nrf {A} (m : MS A) s r s' : nrf m → guarded m s = (r, s') →
  ∃ s1, m (s <| last_len := None |>) = (r, s1) ∧ s' = s1 <| last_len := last_len s |>.
Proof.
  intros Hn H. apply guarded_run in H as [[Hll H]|(ll&s1&Hll&H&->)].
  - destruct (Hn s r s' Hll H) as [Hl' _]. exists s'.
    assert (Es : s <| last_len := None |> = s) by (rewrite <- Hll; apply set_ll_id).
    rewrite Es, Hll, <- Hl'. split; [done|symmetry; apply set_ll_id].
  - exists s1. by rewrite Hll.
Qed.

(** ** Nothing but [find_or_add] looks at the threshold *)
Lemma valid_ll s x u : valid (s <| last_len := x |>) u ↔ valid s u.
Proof. done. Qed.
Lemma D_ll s x u a : D (s <| last_len := x |>) u a = D s u a.
Proof. by apply D_same. Qed.
Lemma nvars_ll s x : nvars (s <| last_len := x |>) = nvars s.
Proof. done. Qed.
Lemma extends_ll s x s1 y :
  extends (s <| last_len := x |>) s1 ↔ extends s (s1 <| last_len := y |>).
Proof. done. Qed.
Lemma occurs_ll s x u l : occurs (s <| last_len := x |>) u l ↔ occurs s u l.
Proof.
  split; induction 1 as [u t Ht Hn|u t l Ht Hn _ IH|u t l Ht Hn _ IH];
    [by apply (occ_here _ u t)|by apply (occ_lo _ u t)|by apply (occ_hi _ u t)
    |by apply (occ_here _ u t)|by apply (occ_lo _ u t)|by apply (occ_hi _ u t)].
Qed.
Lemma conj_body_ll s x u v b : conj_body (s <| last_len := x |>) u v b = conj_body s u v b.
Proof. unfold conj_body. by rewrite !D_ll. Qed.
Lemma pre_body_ll s x m u v b : pre_body (s <| last_len := x |>) m u v b = pre_body s m u v b.
Proof. unfold pre_body. by rewrite !D_ll. Qed.
Lemma vm_ok_ll s x vm v : vm_ok (s <| last_len := x |>) vm v ↔ vm_ok s vm v.
Proof.
  unfold vm_ok. rewrite nvars_ll.
  split; intros (H1&H2&H3); (split; [exact H1|split]).
  - intros l Hl. apply H2. by apply occurs_ll.
  - intros l l' Hl Hl'. apply H3; by apply occurs_ll.
  - intros l Hl. apply H2. by apply (occurs_ll s x) in Hl.
  - intros l l' Hl Hl'. apply H3; [by apply (occurs_ll s x) in Hl|by apply (occurs_ll s x) in Hl'].
Qed.

(** computations whose outcome does not depend on the threshold and that
    leave it alone *)
Definition blind {A} (m : MS A) : Prop :=
  ∀ s x, m (s <| last_len := x |>) = (fst (m s), snd (m s) <| last_len := x |>).

Lemma blind_fst {A} (m : MS A) s x : blind m → fst (m (s <| last_len := x |>)) = fst (m s).
Proof. intros H. by rewrite H. Qed.
Lemma blind_ret {A} (a : A) : blind (ret a).
Proof. by intros s x. Qed.
Lemma blind_raise {A} e : blind (raise (A:=A) e).
Proof. by intros s x. Qed.
Lemma blind_assert b : blind (assert (S:=st) b).
Proof. destruct b; [apply blind_ret|apply blind_raise]. Qed.
Lemma blind_of_opt {A} e (o : option A) : blind (of_opt (S:=st) e o).
Proof. destruct o; [apply blind_ret|apply blind_raise]. Qed.
Lemma blind_bind {A B} (m : MS A) (f : A → MS B) :
  blind m → (∀ a, blind (f a)) → blind (bind m f).
Proof.
  intros Hm Hf s x. unfold bind. rewrite Hm.
  destruct (m s) as [[a|e] s1]; cbn [fst snd]; [apply Hf|done].
Qed.
Lemma blind_get_bind {A} (f : st → MS A) :
  (∀ s, blind (f s)) → (∀ s x t, f (s <| last_len := x |>) t = f s t) →
  blind (bind get f).
Proof. intros Hf He s x. cbn [bind get]. rewrite He. apply Hf. Qed.
Lemma blind_mapM {A B} (f : A → MS B) l : (∀ a, blind (f a)) → blind (mapM f l).
Proof.
  intros Hf. induction l as [|a l IH]; cbn [mapM]; [apply blind_ret|].
  apply blind_bind; [apply Hf|]. intros b. apply blind_bind; [apply IH|].
  intros bs. apply blind_ret.
Qed.
Lemma blind_forM {A} (f : A → MS unit) l : (∀ a, blind (f a)) → blind (forM l f).
Proof.
  intros Hf. induction l as [|a l IH]; cbn [forM]; [apply blind_ret|].
  apply blind_bind; [apply Hf|]. intros _. apply IH.
Qed.

Lemma blind_getsucc n : blind (getsucc n).
Proof. intros s x. unfold getsucc. cbn. by destruct (succ s !! n). Qed.
Lemma blind_var_at_level l : blind (var_at_level l).
Proof.
  unfold var_at_level. apply blind_get_bind; [intros s; apply blind_of_opt|done].
Qed.
Lemma blind_map_key b f k : blind (map_key b f k).
Proof.
  unfold map_key. apply blind_get_bind; [|done].
  intros s. destruct b.
  - destruct (vars s !! k); [apply blind_ret|apply blind_raise].
  - destruct (lvl2var s !! k); [apply blind_ret|apply blind_raise].
Qed.
Lemma blind_map_to_level_set b ks : blind (map_to_level_set b ks).
Proof.
  unfold map_to_level_set. destruct ks as [|k rest]; [apply blind_ret|].
  apply blind_bind.
  { destruct b; [apply blind_ret|]. apply blind_forM. intros a.
    apply blind_bind; [apply blind_map_key|intros _; apply blind_ret]. }
  intros _. apply blind_bind; [apply blind_map_key|]. intros l.
  apply blind_bind; [apply blind_mapM; intros a; apply blind_map_key|].
  intros ls. apply blind_ret.
Qed.
Lemma blind_map_rename b rn : blind (map_rename b rn).
Proof.
  unfold map_rename. apply blind_get_bind; [|done].
  intros s. destruct b; [|apply blind_ret]. apply blind_mapM. intros [k v].
  apply blind_bind; [apply blind_of_opt|]. intros k'.
  apply blind_bind; [apply blind_of_opt|]. intros v'. apply blind_ret.
Qed.
Lemma blind_all_adjacent l : blind (all_adjacent l).
Proof.
  induction l as [|[i j] l IH]; cbn [all_adjacent]; [apply blind_ret|].
  case_decide; [apply IH|].
  apply blind_bind; [apply blind_var_at_level|]. intros _.
  apply blind_bind; [apply blind_var_at_level|]. intros _. apply blind_ret.
Qed.
Lemma blind_support_rec fuel : ∀ u acc, blind (support_rec fuel u acc).
Proof.
  induction fuel as [|f IH]; intros u [levels nodes]; cbn [support_rec]; [apply blind_raise|].
  apply blind_get_bind; [|done]. intros s.
  case_decide; [apply blind_ret|]. case_decide; [apply blind_raise|].
  case_decide; [apply blind_ret|]. case_decide; [apply blind_ret|].
  apply blind_bind; [apply blind_getsucc|]. intros t.
  apply blind_bind; [apply blind_assert|]. intros _.
  apply blind_bind; [apply IH|]. intros acc. apply IH.
Qed.
Lemma blind_support_levels u : blind (support_levels u).
Proof.
  unfold support_levels. apply blind_get_bind; [|done]. intros s.
  apply blind_bind; [apply blind_support_rec|]. intros r. apply blind_ret.
Qed.

Lemma image_pre_ll s x trans source rnl q :
  image_pre (s <| last_len := x |>) trans source rnl q ↔ image_pre s trans source rnl q.
Proof.
  unfold image_pre.
  by rewrite (blind_fst _ s x (blind_all_adjacent _)),
    !(blind_fst _ s x (blind_support_levels _)).
Qed.

(** ** [preimage] *)
Local Notation s0 s := (s <| last_len := None |>).

Lemma Inv_s0 s : Inv s → Inv (s0 s).
Proof. apply Inv_ll. Qed.

Lemma qfa_ll s (fa : bool) q (m : gmap nat nat) u v (a : nat → bool) (P : Prop) :
  (P ↔ if fa then ∀ b, agree_off q a b → pre_body (s0 s) m u v b = true
       else ∃ b, agree_off q a b ∧ pre_body (s0 s) m u v b = true) →
  (P ↔ if fa then ∀ b, agree_off q a b → pre_body s m u v b = true
       else ∃ b, agree_off q a b ∧ pre_body s m u v b = true).
Proof.
  intros ->. destruct fa.
  - split; intros H b Hb; specialize (H b Hb); 
      [by rewrite pre_body_ll in H|by rewrite pre_body_ll].
  - split; intros (b&Hb&H); exists b; (split; [done|]); 
      [by rewrite pre_body_ll in H|by rewrite pre_body_ll].
Qed.
Lemma qfa_conj_ll s (fa : bool) q u v (a : nat → bool) (P : Prop) :
  (P ↔ if fa then ∀ b, agree_off q a b → conj_body (s0 s) u v b = true
       else ∃ b, agree_off q a b ∧ conj_body (s0 s) u v b = true) →
  (P ↔ if fa then ∀ b, agree_off q a b → conj_body s u v b = true
       else ∃ b, agree_off q a b ∧ conj_body s u v b = true).
Proof.
  intros ->. destruct fa.
  - split; intros H b Hb; specialize (H b Hb); 
      [by rewrite conj_body_ll in H|by rewrite conj_body_ll].
  - split; intros (b&Hb&H); exists b; (split; [done|]); 
      [by rewrite conj_body_ll in H|by rewrite conj_body_ll].
Qed.

Theorem preimage_pub_spec s trans target byname rn qbyname qvars fa q rnl m r s' :
  Inv s → max_nodes s = None → valid s trans → valid s target →
  fst (map_to_level_set qbyname qvars s) = Ok q →
  fst (map_rename byname rn s) = Ok rnl → m = list_to_map (reverse rnl) →
  no_overlap m = true →
  (∀ k k', m !! k = Some k' → k < nvars s ∧ k' < nvars s) →
  (∀ k1 k2 k', m !! k1 = Some k' → m !! k2 = Some k' → k1 = k2) →
  (∀ k k', m !! k = Some k' → k' = k + 1 ∨ k = k' + 1) →
  (∀ k k', m !! k = Some k' → ¬ occurs s target k') →
  preimage_pub trans target byname rn qbyname qvars fa s = (r, s') →
  ∃ x, r = Ok x ∧ Inv s' ∧ extends s s' ∧ last_len s' = last_len s ∧ valid s' x ∧
    ∀ a, D s' x a = true ↔
      if fa then ∀ b, agree_off q a b → pre_body s m trans target b = true
      else ∃ b, agree_off q a b ∧ pre_body s m trans target b = true.
Proof.
  intros HI Hmx Ht Hu Hq Hrn Hm Hno Hdecl Hinj Hadj Hocc Hrun.
  destruct (guarded_run_nrf _ s r s' (nrf_preimage _ _ _ _ _ _ _) Hrun) as (s1&Hrun1&->).
  destruct (preimage_spec (s0 s) trans target byname rn qbyname qvars fa q rnl m r s1)
    as (x&->&HI1&He&Hv&HD); try done.
  - by apply Inv_s0.
  - by rewrite (blind_fst _ s None (blind_map_to_level_set _ _)).
  - by rewrite (blind_fst _ s None (blind_map_rename _ _)).
  - intros k k' Hk Ho. apply (Hocc k k' Hk). by apply (occurs_ll s None).
  - exists x. split; [done|]. split; [by apply Inv_ll|].
    split; [exact He|]. split; [done|]. split; [exact Hv|].
    intros a. rewrite D_ll. apply qfa_ll, HD.
Qed.

Theorem preimage_pub_spec_mono s trans target byname rn qbyname qvars fa q rnl m r s' :
  Inv s → max_nodes s = None → valid s trans → valid s target →
  fst (map_to_level_set qbyname qvars s) = Ok q →
  fst (map_rename byname rn s) = Ok rnl → m = list_to_map (reverse rnl) →
  no_overlap m = true →
  (∀ k k', m !! k = Some k' → k < nvars s) →
  vm_ok s (Some m) target →
  preimage_pub trans target byname rn qbyname qvars fa s = (r, s') →
  ∃ x, r = Ok x ∧ Inv s' ∧ extends s s' ∧ last_len s' = last_len s ∧ valid s' x ∧
    ∀ a, D s' x a = true ↔ qsemF fa q (pre_body s m trans target) a.
Proof.
  intros HI Hmx Ht Hu Hq Hrn Hm Hno Hdecl Hvm Hrun.
  destruct (guarded_run_nrf _ s r s' (nrf_preimage _ _ _ _ _ _ _) Hrun) as (s1&Hrun1&->).
  destruct (preimage_spec_mono (s0 s) trans target byname rn qbyname qvars fa q rnl m r s1)
    as (x&->&HI1&He&Hv&HD); try done.
  - by apply Inv_s0.
  - by rewrite (blind_fst _ s None (blind_map_to_level_set _ _)).
  - by rewrite (blind_fst _ s None (blind_map_rename _ _)).
  - by apply vm_ok_ll.
  - exists x. split; [done|]. split; [by apply Inv_ll|].
    split; [exact He|]. split; [done|]. split; [exact Hv|].
    intros a. rewrite D_ll, (HD a). apply qsemF_ext. intros b. apply pre_body_ll.
Qed.

(** ** [image] *)
Theorem image_pub_spec_doc s trans source byname rn qbyname qvars fa q rnl m r s' :
  Inv s → max_nodes s = None → valid s trans → valid s source →
  fst (map_to_level_set qbyname qvars s) = Ok q →
  fst (map_rename byname rn s) = Ok rnl → m = list_to_map (reverse rnl) →
  no_overlap m = true →
  (∀ k k', (k, k') ∈ rnl → k < nvars s ∧ k' < nvars s) →
  (∀ k k', (k, k') ∈ rnl → occurs s trans k' ∨ occurs s source k' → k' ∈ q) →
  image_pub trans source byname rn qbyname qvars fa s = (r, s') →
  ∃ x, r = Ok x ∧ Inv s' ∧ extends s s' ∧ last_len s' = last_len s ∧ valid s' x ∧
    ∀ a, D s' x a = true ↔
      if fa then ∀ b, agree_off q (post_assign m a) b → conj_body s trans source b = true
      else ∃ b, agree_off q (post_assign m a) b ∧ conj_body s trans source b = true.
Proof.
  intros HI Hmx Ht Hu Hq Hrn Hm Hno Hdecl Hocc Hrun.
  destruct (guarded_run_nrf _ s r s' (nrf_image _ _ _ _ _ _ _) Hrun) as (s1&Hrun1&->).
  destruct (image_spec_doc (s0 s) trans source byname rn qbyname qvars fa q rnl m r s1)
    as (x&->&HI1&He&Hv&HD); try done.
  - by apply Inv_s0.
  - by rewrite (blind_fst _ s None (blind_map_to_level_set _ _)).
  - by rewrite (blind_fst _ s None (blind_map_rename _ _)).
  - intros k k' Hk Ho. apply (Hocc k k' Hk).
    destruct Ho as [Ho|Ho]; [left|right]; by apply (occurs_ll s None).
  - exists x. split; [done|]. split; [by apply Inv_ll|].
    split; [exact He|]. split; [done|]. split; [exact Hv|].
    intros a. rewrite D_ll. apply qfa_conj_ll, HD.
Qed.

Theorem image_pub_spec_run s trans source byname rn qbyname qvars fa q rnl m x s' :
  Inv s → valid s trans → valid s source →
  fst (map_to_level_set qbyname qvars s) = Ok q →
  fst (map_rename byname rn s) = Ok rnl → m = list_to_map (reverse rnl) →
  (∀ k k', m !! k = Some k' → k' < nvars s) →
  image_pub trans source byname rn qbyname qvars fa s = (Ok x, s') →
  image_pre s trans source rnl q ∧
  Inv s' ∧ extends s s' ∧ last_len s' = last_len s ∧ valid s' x ∧
    ∀ a, D s' x a = true ↔
      if fa then ∀ b, agree_off q (post_assign m a) b → conj_body s trans source b = true
      else ∃ b, agree_off q (post_assign m a) b ∧ conj_body s trans source b = true.
Proof.
  intros HI Ht Hu Hq Hrn Hm Hdecl Hrun.
  destruct (guarded_run_nrf _ s _ s' (nrf_image _ _ _ _ _ _ _) Hrun) as (s1&Hrun1&->).
  destruct (image_spec_run (s0 s) trans source byname rn qbyname qvars fa q rnl m x s1)
    as (Hpre&HI1&He&Hv&HD); try done.
  - by apply Inv_s0.
  - by rewrite (blind_fst _ s None (blind_map_to_level_set _ _)).
  - by rewrite (blind_fst _ s None (blind_map_rename _ _)).
  - split; [by apply (image_pre_ll s None)|]. split; [by apply Inv_ll|].
    split; [exact He|]. split; [done|]. split; [exact Hv|].
    intros a. rewrite D_ll. apply qfa_conj_ll, HD.
Qed.

Theorem image_pub_spec s trans source byname rn qbyname qvars fa q rnl m r s' :
  Inv s → max_nodes s = None → valid s trans → valid s source →
  fst (map_to_level_set qbyname qvars s) = Ok q →
  fst (map_rename byname rn s) = Ok rnl → m = list_to_map (reverse rnl) →
  (∀ k k', m !! k = Some k' → k' < nvars s) →
  image_pre s trans source rnl q →
  image_pub trans source byname rn qbyname qvars fa s = (r, s') →
  ∃ x, r = Ok x ∧ Inv s' ∧ extends s s' ∧ last_len s' = last_len s ∧ valid s' x ∧
    ∀ a, D s' x a = true ↔
      if fa then ∀ b, agree_off q (post_assign m a) b → conj_body s trans source b = true
      else ∃ b, agree_off q (post_assign m a) b ∧ conj_body s trans source b = true.
Proof.
  intros HI Hmx Ht Hu Hq Hrn Hm Hdecl Hpre Hrun.
  destruct (guarded_run_nrf _ s r s' (nrf_image _ _ _ _ _ _ _) Hrun) as (s1&Hrun1&->).
  destruct (image_spec (s0 s) trans source byname rn qbyname qvars fa q rnl m r s1)
    as (x&->&HI1&He&Hv&HD); try done.
  - by apply Inv_s0.
  - by rewrite (blind_fst _ s None (blind_map_to_level_set _ _)).
  - by rewrite (blind_fst _ s None (blind_map_rename _ _)).
  - by apply (image_pre_ll s None).
  - exists x. split; [done|]. split; [by apply Inv_ll|].
    split; [exact He|]. split; [done|]. split; [exact Hv|].
    intros a. rewrite D_ll. apply qfa_conj_ll, HD.
Qed.

(** ** [copy_bdd] *)
Theorem copy_bdd_pub_spec_occ s src u r s' :
  Inv src → Inv s → max_nodes s = None → valid src u →
  (∀ v l, vars src !! v = Some l → occurs src u l → is_Some (vars s !! v)) →
  copy_bdd_pub src u s = (r, s') →
  ∃ x, r = Ok x ∧ Inv s' ∧ extends s s' ∧ last_len s' = last_len s ∧ valid s' x ∧
    ∀ ρ, denv s' x ρ = denv src u ρ.
Proof.
  intros HIs HI Hmx Hu Hdecl Hrun.
  destruct (guarded_run_nrf _ s r s' (nrf_copy_bdd _ _) Hrun) as (s1&Hrun1&->).
  destruct (copy_bdd_spec_occ src (s0 s) u r s1) as (x&->&HI1&He&Hv&HD); try done.
  - by apply Inv_s0.
  - exists x. split; [done|]. split; [by apply Inv_ll|].
    split; [exact He|]. split; [done|]. split; [exact Hv|].
    intros ρ. rewrite denv_ll. apply HD.
Qed.

Theorem copy_bdd_pub_spec s src u r s' :
  Inv src → Inv s → max_nodes s = None → valid src u →
  (∀ v l, vars src !! v = Some l → is_Some (vars s !! v)) →
  copy_bdd_pub src u s = (r, s') →
  ∃ x, r = Ok x ∧ Inv s' ∧ extends s s' ∧ last_len s' = last_len s ∧ valid s' x ∧
    ∀ ρ, denv s' x ρ = denv src u ρ.
Proof.
  intros HIs HI Hmx Hu Hdecl. apply copy_bdd_pub_spec_occ; try done.
  intros v l Hv _. by apply (Hdecl v l).
Qed.
