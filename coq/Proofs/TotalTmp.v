From DD Require Import Total.
Print Assumptions run_inv_partial.
Print Assumptions run_op_err.
Print Assumptions run_inv_from_new.
Print Assumptions find_or_add_junk_refuted.
Print Assumptions ite_total.
Print Assumptions add_var_total.
