(** * SwapD: the loop "x nodes dependent on y" of [swap] *)
From DD Require Export SwapC.

Definition dep_body (x y : nat) (done : gset positive)
  : gset positive * gset positive → positive * (Z * Z) →
    MS (gset positive * gset positive) :=
  fun '(garbage, xfresh) '(u, (v, w)) =>
    if decide (u ∈ done) then ret (garbage, xfresh) else
    i <- level_of (Z.pos u) ;;
    assert (bool_decide (i = x)) ;;;
    assert (bool_decide (v ≠ 0%Z)) ;;; assert (bool_decide (w ≠ 0%Z)) ;;;
    decref v ;;; decref w ;;;
    let garbage : gset positive := garbage ∪ {[absn v]} ∪ {[absn w]} in
    c <- swap_cofactor v y ;; let '(iv, v0, v1) := c in
    c <- swap_cofactor w y ;; let '(iw, w0, w1) := c in
    assert (bool_decide (y <= iv ∧ y <= iw)) ;;;
    assert (bool_decide (y = iv ∨ y = iw)) ;;;
    let '(v0, v1) := if decide ((v < 0)%Z ∧ y = iv)
                     then (- v0, - v1)%Z else (v0, v1) in
    p <- find_or_add y v0 w0 ;;
    q <- find_or_add y v1 w1 ;;
    assert (bool_decide (0 <= q)%Z) ;;;
    assert (bool_decide (p ≠ q)) ;;;
    ip <- level_of p ;;
    let xfresh : gset positive :=
      if decide (ip = y) then xfresh ∪ {[absn p]} else xfresh in
    iq <- level_of q ;;
    let xfresh : gset positive :=
      if decide (iq = y) then xfresh ∪ {[absn q]} else xfresh in
    modify (fun s => s <| succ ::= <[u := Triple x p q]> |>) ;;;
    s <- get ;;
    assert (bool_decide (pred s !! Triple x p q = None)) ;;;
    modify (fun s => s <| pred ::= <[Triple x p q := u]> |>) ;;;
    incref p ;;; incref q ;;;
    ret (garbage, xfresh).

Lemma swap_dep_eq x y done lx :
  swap_dep x y done lx = foldM (dep_body x y done) (∅, ∅) lx.
Proof. reflexivity. Qed.

Section step.
Context (s0 : st) (HI : Inv s0) (x : nat) (Hy : x + 1 < nvars s0).

Lemma dep_step done s T L u v w G XF :
  Mid s0 x s T → Counts s L → u ∈ T → u ∉ done →
  succ s0 !! u = Some (Triple x v w) →
  ∃ s' p q XF',
    dep_body x (x + 1) done (G, XF) (u, (v, w)) s =
      (Ok (G ∪ {[absn v]} ∪ {[absn w]}, XF'), s') ∧
    Mid s0 x s' (T ∖ {[u]}) ∧ Counts s' L ∧
    succ s' !! u = Some (Triple x p q) ∧
    (∀ n, n ≠ u → is_Some (succ s !! n) → succ s' !! n = succ s !! n) ∧
    (∀ n, succ s !! n = None → is_Some (succ s' !! n) → n ∈ XF') ∧
    (∀ n, n ∈ XF' ↔ n ∈ XF ∨ (n = absn p ∧ lvl_of s' p = x + 1) ∨
                             (n = absn q ∧ lvl_of s' q = x + 1)).
Proof.
  intros HM HC HuT Hud Hu0.
  destruct (dep_facts s0 HI x Hy u v w Hu0) as (Hu1&Hv&Hw&Hwp&Hne&Hlv&Hlw).
  destruct (m_T _ _ _ _ HM u HuT) as (t&Ht0&_&Hdep&Hus).
  assert (t = Triple x v w) as -> by congruence. clear Ht0. cbn [t_lo t_hi] in Hdep.
  destruct (Mid_child s0 x Hy s T v HM Hv Hlv) as (Hvs&_).
  destruct (Mid_child s0 x Hy s T w HM Hw Hlw) as (Hws&_).
  unfold dep_body. rewrite decide_False by done.
  rewrite (bind_ok _ _ _ _ _ (level_of_pos s u _ Hus)).
  unfold assert at 1 2 3. cbn [t_lvl]. rewrite !bool_decide_eq_true_2 by first [done|apply Hv|apply Hw].
  cbn [bind ret].
  assert (Hrv : is_Some (refc s !! absn v)).
  { apply elem_of_dom. rewrite (m_ref _ _ _ _ HM). apply elem_of_dom, Hvs. }
  rewrite (bind_ok _ _ _ _ _ (decref_run s v (proj1 Hv) Hrv)).
  assert (Hrw : is_Some (refc (unbump v s) !! absn w)).
  { cbn. apply lookup_alter_is_Some. apply elem_of_dom. rewrite (m_ref _ _ _ _ HM).
    apply elem_of_dom, Hws. }
  rewrite (bind_ok _ _ _ _ _ (decref_run (unbump v s) w (proj1 Hw) Hrw)).
  set (sa := unbump w (unbump v s)).
  assert (HMa : Mid s0 x sa T).
  { apply (Mid_same s0 x s); try done. cbn. by rewrite !dom_alter_L. }
  assert (HCa : CountsD sa L u)
    by exact (CountsD_of_Counts s L u (Triple x v w) HC Hus (proj1 Hv) (proj1 Hw)).
  assert (Hua : u ∈ dom (succ sa)) by (apply elem_of_dom; eauto).
  destruct (swap_cofactor_mid s0 HI x Hy sa T v HMa Hv Hlv) as (iv&v0&v1&Ev&Hiv&Hivy&Hcv).
  destruct (swap_cofactor_mid s0 HI x Hy sa T w HMa Hw Hlw) as (iw&w0&w1&Ew&Hiw&Hiwy&Hcw).
  rewrite (bind_ok _ _ _ _ _ Ev), (bind_ok _ _ _ _ _ Ew).
  assert (Hone : x + 1 = iv ∨ x + 1 = iw).
  { unfold indepS in Hdep. lia. }
  unfold assert at 1 2. rewrite !bool_decide_eq_true_2 by first [done|lia]. cbn [bind ret].
  rewrite decide_False in Hcw by lia. rewrite Hcv. clear Hcv Ev Ew.
  destruct (cofs_spec s0 HI (x + 1) Hy v Hv ltac:(lia)) as (Hv0&Hv1&Lv0&Lv1&_).
  destruct (cofs_spec s0 HI (x + 1) Hy w Hw ltac:(lia)) as (Hw0&Hw1&Lw0&Lw1&_).
  pose proof (dep_q_pos s0 HI x Hy) as Hqpos.
  pose proof (dep_pq_ne s0 HI x Hy) as Hpqne.
  pose proof (dep_pred_none s0 HI x Hy) as Hprednone.
  specialize (Hqpos) with (v := v) (w := w).
  specialize (Hpqne) with (u := u) (v := v) (w := w).
  specialize (Hprednone) with (u := u) (v := v) (w := w).
  pose proof (Mid_rewrite s0 x) as Hrew.
  specialize (Hrew) with (u := u) (v := v) (w := w).
  destruct (cofs s0 (x + 1) v) as [cv0 cv1]. destruct (cofs s0 (x + 1) w) as [cw0 cw1].
  injection Hcw as -> ->. cbn [fst snd] in *.
  (* first node *)
  destruct (Mid_low s0 x Hy sa T _ HMa Hv0 Lv0) as (Va0&La0&_).
  destruct (Mid_low s0 x Hy sa T _ HMa Hw0 Lw0) as (Vaw0&Law0&_).
  destruct (foa_mid s0 x sa T cv0 cw0 HMa Hy Va0 Vaw0 ltac:(lia) ltac:(lia))
    as (p&sb&Ep&HMb&Hsubb&Hresp&Hnewb&_).
  pose proof (foa_mid_counts s0 x sa T L u cv0 cw0 p sb HI HMa Hy Va0 Vaw0
                ltac:(lia) ltac:(lia) HCa Hua Ep) as HCb.
  rewrite (bind_ok _ _ _ _ _ Ep).
  (* second node *)
  destruct (Mid_low s0 x Hy sb T _ HMb Hv1 Lv1) as (Vb1&Lb1&_).
  destruct (Mid_low s0 x Hy sb T _ HMb Hw1 Lw1) as (Vbw1&Lbw1&_).
  assert (Hub : u ∈ dom (succ sb)).
  { apply elem_of_dom. exists (Triple x v w). by apply (lookup_weaken _ _ _ _ Hus Hsubb). }
  destruct (foa_mid s0 x sb T cv1 cw1 HMb Hy Vb1 Vbw1 ltac:(lia) ltac:(lia))
    as (q&sc&Eq&HMc&Hsubc&Hresq&Hnewc&_).
  pose proof (foa_mid_counts s0 x sb T L u cv1 cw1 q sc HI HMb Hy Vb1 Vbw1
                ltac:(lia) ltac:(lia) HCb Hub Eq) as HCc.
  rewrite (bind_ok _ _ _ _ _ Eq).
  assert (Hresp' : foa_res sc (x + 1) cv0 cw0 p).
  { apply (foa_res_mono sb sc); [|done]. intros n t Hn _. by apply (lookup_weaken _ _ _ _ Hn Hsubc). }
  assert (Husc : succ sc !! u = Some (Triple x v w)).
  { apply (lookup_weaken _ _ _ _ Hus). by etrans. }
  destruct (Mid_low s0 x Hy sc T _ HMc Hv0 Lv0) as (Vc0&Lc0&_).
  destruct (Mid_low s0 x Hy sc T _ HMc Hv1 Lv1) as (Vc1&Lc1&_).
  destruct (foa_res_valid sc _ _ _ _ Vc0 Hresp') as [Vp Hpl].
  destruct (foa_res_valid sc _ _ _ _ Vc1 Hresq) as [Vq Hql].
  assert (Hq0 : (0 < q)%Z) by (apply (Hqpos sc q); [done|done|lia|done]).
  assert (Hpq : p ≠ q) by (by apply (Hpqne sc T p q)).
  assert (Hpn : pred sc !! Triple x p q = None) by (by apply (Hprednone sc T p q)).
  unfold assert at 1 2. rewrite !bool_decide_eq_true_2 by first [done|lia]. cbn [bind ret].
  rewrite (bind_ok _ _ _ _ _ (level_of_ok sc p Vp)).
  rewrite (bind_ok _ _ _ _ _ (level_of_ok sc q Vq)).
  cbn [bind modify get]. unfold assert. cbn [pred set]. rewrite Hpn.
  rewrite bool_decide_eq_true_2 by done. cbn [bind ret modify].
  fold (set_node_st sc u (Triple x p q)).
  set (sd := set_node_st sc u (Triple x p q)).
  assert (Hrp : is_Some (refc sd !! absn p)).
  { apply elem_of_dom. change (refc sd) with (refc sc). rewrite (m_ref _ _ _ _ HMc).
    apply elem_of_dom, Vp. }
  rewrite (bind_ok _ _ _ _ _ (incref_run sd p (proj1 Vp) Hrp)).
  assert (Hrq : is_Some (refc (bump p sd) !! absn q)).
  { cbn. apply lookup_alter_is_Some. apply elem_of_dom. rewrite (m_ref _ _ _ _ HMc).
    apply elem_of_dom, Vq. }
  rewrite (bind_ok _ _ _ _ _ (incref_run (bump p sd) q (proj1 Vq) Hrq)).
  set (s' := bump q (bump p sd)).
  assert (Hlp : x < lvl_of sc p) by (destruct Hpl as [[-> _]|[-> _]]; lia).
  assert (Hlq : x < lvl_of sc q) by (destruct Hql as [[-> _]|[-> _]]; lia).
  assert (Hlvl : ∀ z, lvl_of s' z = lvl_of sc z).
  { intros z. by apply (relabel_lvl sc s' u (Triple x v w) (Triple x p q)). }
  eexists s', p, q, _. split; [reflexivity|]. split_and!.
  - apply Hrew; try done.
  - apply Counts_rewrite; [done|eauto|apply Vp|apply Vq].
  - change (succ s') with (<[u := Triple x p q]> (succ sc)). by rewrite lookup_insert.
  - intros n Hnu [t Hn]. change (succ s') with (<[u := Triple x p q]> (succ sc)).
    rewrite lookup_insert_ne by done. rewrite Hn.
    apply (lookup_weaken _ _ _ _ Hn). change (succ s) with (succ sa). by etrans.
  - intros n Hn Hn'. change (succ s') with (<[u := Triple x p q]> (succ sc)) in Hn'.
    assert (n ≠ u) by (intros ->; congruence).
    rewrite lookup_insert_ne in Hn' by done.
    destruct (succ sb !! n) as [tb|] eqn:Hb.
    + destruct (Hnewb n Hn ltac:(eauto)) as [-> Hl].
      destruct (Mid_low s0 x Hy sb T _ HMb Hv0 Lv0) as (Vb0&_&_).
      destruct (foa_res_valid sb _ _ _ _ Vb0 Hresp) as [Vpb _].
      rewrite <- (lvl_mono sb sc p Hsubc Vpb) in Hl.
      repeat case_decide; set_solver.
    + destruct (Hnewc n Hb Hn') as [-> Hl]. repeat case_decide; set_solver.
  - intros n. rewrite !Hlvl. repeat case_decide; set_solver.
Qed.
End step.
