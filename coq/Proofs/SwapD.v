(** * SwapD: the loop "x nodes dependent on y" of [swap] *)
From DD Require Export SwapC.

Definition dep_body (x y : nat) (done : gset positive)
  : gset positive * gset positive → positive * (Z * Z) →
    MS (gset positive * gset positive) :=
  fun '(garbage, xfresh) '(u, (v, w)) =>
    if decide (u ∈ done) then ret (garbage, xfresh) else
    i <- level_of (Z.pos u) ;;
    assert (bool_decide (i = x)) ;;;
    assert (bool_decide (v ≠ 0%Z)) ;;; assert (bool_decide (w ≠ 0%Z)) ;;;
    decref v ;;; decref w ;;;
    let garbage : gset positive := garbage ∪ {[absn v]} ∪ {[absn w]} in
    c <- swap_cofactor v y ;; let '(iv, v0, v1) := c in
    c <- swap_cofactor w y ;; let '(iw, w0, w1) := c in
    assert (bool_decide (y <= iv ∧ y <= iw)) ;;;
    assert (bool_decide (y = iv ∨ y = iw)) ;;;
    let '(v0, v1) := if decide ((v < 0)%Z ∧ y = iv)
                     then (- v0, - v1)%Z else (v0, v1) in
    p <- find_or_add y v0 w0 ;;
    q <- find_or_add y v1 w1 ;;
    assert (bool_decide (0 <= q)%Z) ;;;
    assert (bool_decide (p ≠ q)) ;;;
    ip <- level_of p ;;
    let xfresh : gset positive :=
      if decide (ip = y) then xfresh ∪ {[absn p]} else xfresh in
    iq <- level_of q ;;
    let xfresh : gset positive :=
      if decide (iq = y) then xfresh ∪ {[absn q]} else xfresh in
    modify (fun s => s <| succ ::= <[u := Triple x p q]> |>) ;;;
    s <- get ;;
    assert (bool_decide (pred s !! Triple x p q = None)) ;;;
    modify (fun s => s <| pred ::= <[Triple x p q := u]> |>) ;;;
    incref p ;;; incref q ;;;
    ret (garbage, xfresh).

Lemma swap_dep_eq x y done lx :
  swap_dep x y done lx = foldM (dep_body x y done) (∅, ∅) lx.
Proof. reflexivity. Qed.

Lemma xf_spec (XF : gset positive) (ip iq y : nat) (p q n : positive) :
  n ∈ (if decide (iq = y)
       then (if decide (ip = y) then XF ∪ {[p]} else XF) ∪ {[q]}
       else (if decide (ip = y) then XF ∪ {[p]} else XF)) ↔
  n ∈ XF ∨ (n = p ∧ ip = y) ∨ (n = q ∧ iq = y).
Proof. repeat case_decide; set_solver. Qed.

Lemma size_remove (T : gset positive) u : u ∈ T → size T = S (size (T ∖ {[u]})).
Proof.
  intros Hu. rewrite size_difference by set_solver. rewrite size_singleton.
  assert (size T ≠ 0); [|lia]. intros E. apply size_empty_inv in E. set_solver.
Qed.
(** rewriting an existing node does not use up room *)
Lemma room_relabel s u t k (f : st → st) :
  is_Some (succ s !! u) → succ (f s) = <[u := t]> (succ s) → max_nodes (f s) = max_nodes s →
  room s k → room (f s) k.
Proof.
  intros Hu Es Em. unfold room. rewrite Em, Es. destruct (max_nodes s); [|done].
  rewrite map_size_insert_Some by eauto. done.
Qed.

Section step.
Context (s0 : st) (HI : Inv s0) (x : nat) (Hy : x + 1 < nvars s0).

Lemma dep_step done s T L u v w G XF :
  Mid s0 x s T → Counts s L → u ∈ T → u ∉ done →
  succ s0 !! u = Some (Triple x v w) →
  room s (2 * size T) →
  ∃ s' p q XF',
    dep_body x (x + 1) done (G, XF) (u, (v, w)) s =
      (Ok (G ∪ {[absn v]} ∪ {[absn w]}, XF'), s') ∧
    Mid s0 x s' (T ∖ {[u]}) ∧ Counts s' L ∧
    succ s' !! u = Some (Triple x p q) ∧
    (∀ n, n ≠ u → is_Some (succ s !! n) → succ s' !! n = succ s !! n) ∧
    (∀ n, succ s !! n = None → is_Some (succ s' !! n) → n ∈ XF') ∧
    (∀ n, n ∈ XF' ↔ n ∈ XF ∨ (n = absn p ∧ lvl_of s' p = x + 1) ∨
                             (n = absn q ∧ lvl_of s' q = x + 1)) ∧
    room s' (2 * size (T ∖ {[u]})).
Proof.
  intros HM HC HuT Hud Hu0 Hroom.
  rewrite (size_remove T u HuT) in Hroom.
  replace (2 * S (size (T ∖ {[u]}))) with (S (S (2 * size (T ∖ {[u]})))) in Hroom by lia.
  set (K := 2 * size (T ∖ {[u]})) in *.
  destruct (dep_facts s0 HI x Hy u v w Hu0) as (Hu1&Hv&Hw&Hwp&Hne&Hlv&Hlw).
  destruct (m_T _ _ _ _ HM u HuT) as (t&Ht0&_&Hdep&Hus).
  assert (t = Triple x v w) as -> by congruence. clear Ht0. cbn [t_lo t_hi] in Hdep.
  destruct (Mid_child s0 x Hy s T v HM Hv Hlv) as (Hvs&_).
  destruct (Mid_child s0 x Hy s T w HM Hw Hlw) as (Hws&_).
  unfold dep_body. rewrite decide_False by done.
  rewrite (bind_ok _ _ _ _ _ (level_of_pos s u _ Hus)).
  unfold assert at 1 2 3. cbn [t_lvl]. rewrite !bool_decide_eq_true_2 by first [done|apply Hv|apply Hw].
  cbn [bind ret].
  assert (Hrv : is_Some (refc s !! absn v)).
  { apply elem_of_dom. rewrite (m_ref _ _ _ _ HM). apply elem_of_dom, Hvs. }
  rewrite (bind_ok _ _ _ _ _ (decref_run s v (proj1 Hv) Hrv)).
  assert (Hrw : is_Some (refc (unbump v s) !! absn w)).
  { cbn. apply lookup_alter_is_Some. apply elem_of_dom. rewrite (m_ref _ _ _ _ HM).
    apply elem_of_dom, Hws. }
  rewrite (bind_ok _ _ _ _ _ (decref_run (unbump v s) w (proj1 Hw) Hrw)).
  set (sa := unbump w (unbump v s)).
  assert (HMa : Mid s0 x sa T).
  { apply (Mid_same s0 x s); try done. cbn. by rewrite !dom_alter_L. }
  assert (HCa : CountsD sa L u)
    by exact (CountsD_of_Counts s L u (Triple x v w) HC Hus (proj1 Hv) (proj1 Hw)).
  assert (Hua : u ∈ dom (succ sa)) by (apply elem_of_dom; eauto).
  assert (Hra : room sa (S (S K))) by (by apply (room_same s)).
  destruct (swap_cofactor_mid s0 HI x Hy sa T v HMa Hv Hlv) as (iv&v0&v1&Ev&Hiv&Hivy&Hcv).
  destruct (swap_cofactor_mid s0 HI x Hy sa T w HMa Hw Hlw) as (iw&w0&w1&Ew&Hiw&Hiwy&Hcw).
  rewrite (bind_ok _ _ _ _ _ Ev), (bind_ok _ _ _ _ _ Ew).
  assert (Hone : x + 1 = iv ∨ x + 1 = iw).
  { unfold indepS in Hdep. lia. }
  unfold assert at 1 2. rewrite !bool_decide_eq_true_2 by first [done|lia]. cbn [bind ret].
  rewrite decide_False in Hcw by lia. rewrite Hcv. clear Hcv Ev Ew.
  destruct (cofs_spec s0 HI (x + 1) Hy v Hv ltac:(lia)) as (Hv0&Hv1&Lv0&Lv1&_).
  destruct (cofs_spec s0 HI (x + 1) Hy w Hw ltac:(lia)) as (Hw0&Hw1&Lw0&Lw1&_).
  pose proof (dep_q_pos s0 HI x Hy) as Hqpos.
  pose proof (dep_pq_ne s0 HI x Hy) as Hpqne.
  pose proof (dep_pred_none s0 HI x Hy) as Hprednone.
  specialize (Hqpos) with (v := v) (w := w).
  specialize (Hpqne) with (u := u) (v := v) (w := w).
  specialize (Hprednone) with (u := u) (v := v) (w := w).
  pose proof (Mid_rewrite s0 x) as Hrew.
  specialize (Hrew) with (u := u) (v := v) (w := w).
  destruct (cofs s0 (x + 1) v) as [cv0 cv1]. destruct (cofs s0 (x + 1) w) as [cw0 cw1].
  injection Hcw as -> ->. cbn [fst snd] in *.
  (* first node *)
  destruct (Mid_low s0 x Hy sa T _ HMa Hv0 Lv0) as (Va0&La0&_).
  destruct (Mid_low s0 x Hy sa T _ HMa Hw0 Lw0) as (Vaw0&Law0&_).
  destruct (foa_mid s0 x sa T cv0 cw0 HMa Hy Va0 Vaw0 ltac:(lia) ltac:(lia)
              (room_le sa (S (S K)) 1 ltac:(lia) Hra))
    as (p&sb&Ep&HMb&Hsubb&Hresp&Hnewb&Hsb).
  pose proof (foa_mid_counts s0 x sa T L u cv0 cw0 p sb HI HMa Hy Va0 Vaw0
                ltac:(lia) ltac:(lia) HCa Hua (room_le sa (S (S K)) 1 ltac:(lia) Hra) Ep) as HCb.
  pose proof (foa_room sa (x + 1) cv0 cw0 (S K) sb Hra Hsb) as Hrb.
  rewrite (bind_ok _ _ _ _ _ Ep).
  (* second node *)
  destruct (Mid_low s0 x Hy sb T _ HMb Hv1 Lv1) as (Vb1&Lb1&_).
  destruct (Mid_low s0 x Hy sb T _ HMb Hw1 Lw1) as (Vbw1&Lbw1&_).
  assert (Hub : u ∈ dom (succ sb)).
  { apply elem_of_dom. exists (Triple x v w). by apply (lookup_weaken _ _ _ _ Hus Hsubb). }
  destruct (foa_mid s0 x sb T cv1 cw1 HMb Hy Vb1 Vbw1 ltac:(lia) ltac:(lia)
              (room_le sb (S K) 1 ltac:(lia) Hrb))
    as (q&sc&Eq&HMc&Hsubc&Hresq&Hnewc&Hsc).
  pose proof (foa_mid_counts s0 x sb T L u cv1 cw1 q sc HI HMb Hy Vb1 Vbw1
                ltac:(lia) ltac:(lia) HCb Hub (room_le sb (S K) 1 ltac:(lia) Hrb) Eq) as HCc.
  pose proof (foa_room sb (x + 1) cv1 cw1 K sc Hrb Hsc) as Hrc.
  rewrite (bind_ok _ _ _ _ _ Eq).
  assert (Hresp' : foa_res sc (x + 1) cv0 cw0 p).
  { apply (foa_res_mono sb sc); [|done]. intros n t Hn _. by apply (lookup_weaken _ _ _ _ Hn Hsubc). }
  assert (Husc : succ sc !! u = Some (Triple x v w)).
  { apply (lookup_weaken _ _ _ _ Hus). by etrans. }
  destruct (Mid_low s0 x Hy sc T _ HMc Hv0 Lv0) as (Vc0&Lc0&_).
  destruct (Mid_low s0 x Hy sc T _ HMc Hv1 Lv1) as (Vc1&Lc1&_).
  destruct (foa_res_valid sc _ _ _ _ Vc0 Hresp') as [Vp Hpl].
  destruct (foa_res_valid sc _ _ _ _ Vc1 Hresq) as [Vq Hql].
  assert (Hq0 : (0 < q)%Z) by (apply (Hqpos sc q); [done|done|lia|done]).
  assert (Hpq : p ≠ q) by (by apply (Hpqne sc T p q)).
  assert (Hpn : pred sc !! Triple x p q = None) by (by apply (Hprednone sc T p q)).
  unfold assert at 1 2. rewrite !bool_decide_eq_true_2 by first [done|lia]. cbn [bind ret].
  rewrite (bind_ok _ _ _ _ _ (level_of_ok sc p Vp)).
  rewrite (bind_ok _ _ _ _ _ (level_of_ok sc q Vq)).
  cbn [bind modify get]. unfold assert. cbn [pred set]. rewrite Hpn.
  rewrite bool_decide_eq_true_2 by done. cbn [bind ret modify].
  fold (set_node_st sc u (Triple x p q)).
  set (sd := set_node_st sc u (Triple x p q)).
  assert (Hrp : is_Some (refc sd !! absn p)).
  { apply elem_of_dom. change (refc sd) with (refc sc). rewrite (m_ref _ _ _ _ HMc).
    apply elem_of_dom, Vp. }
  rewrite (bind_ok _ _ _ _ _ (incref_run sd p (proj1 Vp) Hrp)).
  assert (Hrq : is_Some (refc (bump p sd) !! absn q)).
  { cbn. apply lookup_alter_is_Some. apply elem_of_dom. rewrite (m_ref _ _ _ _ HMc).
    apply elem_of_dom, Vq. }
  rewrite (bind_ok _ _ _ _ _ (incref_run (bump p sd) q (proj1 Vq) Hrq)).
  set (s' := bump q (bump p sd)).
  assert (Hlp : x < lvl_of sc p) by (destruct Hpl as [[-> _]|[-> _]]; lia).
  assert (Hlq : x < lvl_of sc q) by (destruct Hql as [[-> _]|[-> _]]; lia).
  assert (Hlvl : ∀ z, lvl_of s' z = lvl_of sc z).
  { intros z. by apply (relabel_lvl sc s' u (Triple x v w) (Triple x p q)). }
  eexists s', p, q, _. split; [reflexivity|]. split_and!.
  - apply Hrew; try done.
  - apply Counts_rewrite; [done|eauto|apply Vp|apply Vq].
  - change (succ s') with (<[u := Triple x p q]> (succ sc)). by rewrite lookup_insert.
  - intros n Hnu [t Hn]. change (succ s') with (<[u := Triple x p q]> (succ sc)).
    rewrite lookup_insert_ne by done. rewrite Hn.
    apply (lookup_weaken _ _ _ _ Hn). change (succ s) with (succ sa). by etrans.
  - intros n Hn Hn'. change (succ s') with (<[u := Triple x p q]> (succ sc)) in Hn'.
    assert (n ≠ u) by (intros ->; congruence).
    rewrite lookup_insert_ne in Hn' by done.
    destruct (succ sb !! n) as [tb|] eqn:Hb.
    + destruct (Hnewb n Hn ltac:(eauto)) as [-> Hl].
      destruct (Mid_low s0 x Hy sb T _ HMb Hv0 Lv0) as (Vb0&_&_).
      destruct (foa_res_valid sb _ _ _ _ Vb0 Hresp) as [Vpb _].
      rewrite <- (lvl_mono sb sc p Hsubc Vpb) in Hl.
      apply xf_spec. right. left. done.
    + destruct (Hnewc n Hb Hn') as [-> Hl]. apply xf_spec. right. right. done.
  - intros n. rewrite !Hlvl. apply xf_spec.
  - apply (room_relabel sc u (Triple x p q) K
             (fun s => bump q (bump p (set_node_st s u (Triple x p q))))); try done.
Qed.
End step.

(** ** the loop *)
Record DepInv (s0 : st) (x : nat) (L : positive → nat) (s : st)
    (T G XF : gset positive) : Prop := {
  di_mid : Mid s0 x s T;
  di_counts : Counts s L;
  di_G : ∀ n, n ∈ G → ∃ u v w, succ s0 !! u = Some (Triple x v w) ∧
            ¬ indepS s0 (x + 1) v w ∧ u ∉ T ∧ (n = absn v ∨ n = absn w);
  di_XF : ∀ n, n ∈ XF →
     (∃ t, succ s !! n = Some t ∧ t_lvl t = x + 1) ∧
     ∃ k t0 p q, succ s0 !! k = Some t0 ∧ t_lvl t0 = x ∧ k ∉ T ∧
       succ s !! k = Some (Triple x p q) ∧ (n = absn p ∨ n = absn q);
  di_new : ∀ n, succ s0 !! n = None → is_Some (succ s !! n) → n ∈ XF;
  di_room : room s (2 * size T);
}.

Section fold.
Context (s0 : st) (HI : Inv s0) (x : nat) (Hy : x + 1 < nvars s0).

Lemma dep_body_done done G XF u v w s : u ∈ done →
  dep_body x (x + 1) done (G, XF) (u, (v, w)) s = (Ok (G, XF), s).
Proof. intros H. unfold dep_body. by rewrite decide_True. Qed.

Lemma DepInv_step done L s T G XF u v w :
  DepInv s0 x L s T G XF → u ∈ T → u ∉ done →
  succ s0 !! u = Some (Triple x v w) →
  ∃ s' G' XF', dep_body x (x + 1) done (G, XF) (u, (v, w)) s = (Ok (G', XF'), s') ∧
    DepInv s0 x L s' (T ∖ {[u]}) G' XF'.
Proof.
  intros HD HuT Hud Hu0.
  pose proof (di_mid _ _ _ _ _ _ _ HD) as HM.
  destruct (dep_step s0 HI x Hy done s T L u v w G XF HM (di_counts _ _ _ _ _ _ _ HD)
              HuT Hud Hu0 (di_room _ _ _ _ _ _ _ HD))
    as (s'&p&q&XF'&Hrun&HM'&HC'&Hsu&Hkeep&Hnew&HXF&Hroom').
  destruct (dep_facts s0 HI x Hy u v w Hu0) as (Hu1&Hv&Hw&Hwp&Hne&Hlv&Hlw).
  exists s', (G ∪ {[absn v]} ∪ {[absn w]}), XF'. split; [done|].
  assert (HuT' : u ∉ T ∖ {[u]}) by set_solver.
  destruct (m_node _ _ _ _ HM' u _ Hsu Hu1 HuT') as (_&Vp&_&Vq&_). cbn [t_lo t_hi] in Vp, Vq.
  assert (Hus : is_Some (succ s !! u)).
  { destruct (m_T _ _ _ _ HM u HuT) as (?&_&_&_&?). eauto. }
  split; try done.
  - assert (Hdep : ¬ indepS s0 (x + 1) v w).
    { destruct (m_T _ _ _ _ HM u HuT) as (t&Ht&_&Hd&_). rewrite Hu0 in Ht.
      by injection Ht as <-. }
    intros n Hn. apply elem_of_union in Hn as [Hn|Hn];
      [apply elem_of_union in Hn as [Hn|Hn]|].
    + destruct (di_G _ _ _ _ _ _ _ HD n Hn) as (u'&v'&w'&?&?&?&?).
      exists u', v', w'. split_and!; try done. set_solver.
    + apply elem_of_singleton in Hn as ->. exists u, v, w. split_and!; auto.
    + apply elem_of_singleton in Hn as ->. exists u, v, w. split_and!; auto.
  - intros n Hn. apply HXF in Hn as [Hn|Hn].
    + destruct (di_XF _ _ _ _ _ _ _ HD n Hn) as [(t&Ht&Hl) (k&t0&p'&q'&H0&Hl0&HkT&Hk&Hor)].
      assert (n ≠ u).
      { intros ->. destruct (m_T _ _ _ _ HM u HuT) as (t'&_&Hlx&_&Ht'). rewrite Ht in Ht'.
        injection Ht' as ->. lia. }
      assert (k ≠ u) by (intros ->; done).
      split.
      * exists t. rewrite Hkeep by eauto. done.
      * exists k, t0, p', q'. split_and!; try done; [set_solver|]. rewrite Hkeep by eauto. done.
    + assert (∀ z, valid s' z → lvl_of s' z = x + 1 →
                ∃ t, succ s' !! absn z = Some t ∧ t_lvl t = x + 1) as Hlv'.
      { intros z [_ [t Ht]] Hl. exists t. unfold lvl_of in Hl. rewrite Ht in Hl. done. }
      split.
      * destruct Hn as [[-> Hl]|[-> Hl]]; by apply Hlv'.
      * exists u, (Triple x v w), p, q. split_and!; try done. destruct Hn as [[-> _]|[-> _]]; auto.
  - intros n H0 Hn. destruct (succ s !! n) as [t|] eqn:Hs.
    + apply HXF. left. apply (di_new _ _ _ _ _ _ _ HD n H0). eauto.
    + by apply Hnew.
Qed.

Lemma dep_fold done L : ∀ (l : list (positive * (Z * Z))) s T G XF,
  DepInv s0 x L s T G XF → NoDup (l.*1) →
  (∀ u v w, (u, (v, w)) ∈ l → u ∉ done →
            u ∈ T ∧ succ s0 !! u = Some (Triple x v w)) →
  (∀ n, n ∈ T → n ∈ l.*1 ∧ n ∉ done) →
  ∃ s' G' XF', foldM (dep_body x (x + 1) done) (G, XF) l s = (Ok (G', XF'), s') ∧
    DepInv s0 x L s' ∅ G' XF'.
Proof.
  intros l. induction l as [|[u [v w]] l IH]; intros s T G XF HD Hnd Hl HT.
  - exists s, G, XF. split; [done|].
    assert (T = ∅) as <-; [|done].
    apply elem_of_equiv_empty_L. intros n Hn. destruct (HT n Hn) as [H _].
    by apply elem_of_nil in H.
  - cbn [fmap list_fmap fst] in Hnd. apply NoDup_cons in Hnd as [Hu Hnd].
    cbn [foldM]. destruct (decide (u ∈ done)) as [Hud|Hud].
    + rewrite (bind_ok _ _ _ _ _ (dep_body_done done G XF u v w s Hud)).
      apply (IH s T G XF); try done.
      * intros u' v' w' Hin. apply Hl. by right.
      * intros n Hn. destruct (HT n Hn) as [H1 H2]. split; [|done].
        cbn [fmap list_fmap fst] in H1. apply elem_of_cons in H1 as [->|H1]; done.
    + destruct (Hl u v w ltac:(left) Hud) as [HuT Hu0].
      destruct (DepInv_step done L s T G XF u v w HD HuT Hud Hu0) as (s1&G1&XF1&Hrun&HD1).
      rewrite (bind_ok _ _ _ _ _ Hrun).
      apply (IH s1 (T ∖ {[u]}) G1 XF1); try done.
      * intros u' v' w' Hin Hud'. destruct (Hl u' v' w' ltac:(by right) Hud') as [H1 H2].
        split; [|done]. apply elem_of_difference. split; [done|].
        rewrite elem_of_singleton. intros ->. apply Hu. apply elem_of_list_fmap.
        by exists (u, (v', w')).
      * intros n Hn. apply elem_of_difference in Hn as [Hn Hnu].
        rewrite elem_of_singleton in Hnu. destruct (HT n Hn) as [H1 H2]. split; [|done].
        cbn [fmap list_fmap fst] in H1. apply elem_of_cons in H1 as [->|H1]; done.
Qed.
End fold.
