(** * CopyFnOk: [dd._copy.copy_bdd] / [copy_bdds_from] through the public
      [Function] interface (Model/CopyFn.v) copies functions by variable
      NAMES into any consistent target, with exact reference counts, and
      leaks nothing when it fails (C11). *)
From DD Require Export JsonLoad CopyFn.

(** ** 0. Ledger arithmetic *)
Ltac ladd :=
  intros; unfold ledger_add, ledger_inc, ledger_dec;
  repeat first [rewrite filter_app | rewrite filter_cons | rewrite filter_nil];
  repeat case_decide;
  repeat first [progress cbn [length app] | rewrite app_length]; try lia.

Lemma Counts_bump_add r L l u : valid r u → Counts r (ledger_add L l) →
  Counts (bump u r) (ledger_add L (u :: l)).
Proof.
  intros Hv HC. eapply Counts_ext; [|apply (Counts_bump r _ u Hv HC)].
  intros m. by rewrite ledger_add_cons.
Qed.
Lemma Counts_unbump_add r L l u : valid r u → Counts r (ledger_add L (u :: l)) →
  Counts (unbump u r) (ledger_add L l).
Proof.
  intros Hv HC.
  assert (HC' : Counts r (ledger_inc (ledger_add L l) (absn u))).
  { eapply Counts_ext; [|exact HC]. intros m. by rewrite ledger_add_cons. }
  eapply Counts_ext; [|apply (Counts_unbump r _ u Hv HC')]; [intros m|]; ledger.
Qed.

Lemma catch_err {S A} (m : M S A) s e s' : m s = (Err e, s') → catch m s = (Ok (Err e), s').
Proof. unfold catch. by intros ->. Qed.

(** [var] / [ite] for every ledger at once, ANY outcome: with a bound on the
    number of nodes they can fail ([RuntimeError], the table is full); they
    cannot fail without one *)
Lemma var_any s n j r s' :
  Inv s → last_len s = None → vars s !! n = Some j → var n s = (r, s') →
  Inv s' ∧ grows s s' ∧ (∀ L, Counts s L → Counts s' L) ∧
  (∀ u, r = Ok u → valid s' u ∧ ∀ ρ, denv s' u ρ = ρ n) ∧
  (max_nodes s = None → ∃ u, r = Ok u).
Proof.
  intros HI Hoff Hj Hrun.
  destruct (tsafe_var n s r s' HI Hoff Hrun) as (HI'&He&Hf&HC').
  split; [done|]. split; [done|]. split; [done|].
  unfold var in Hrun.
  apply try_to_reorder_inert in Hrun as (r1&s1&Hrun&Hcase).
  set (s0 := s <| rctx := true |>) in *.
  assert (HI0 : Inv s0) by (by apply Inv_rctx).
  cbn [bind get] in Hrun. change (vars s0) with (vars s) in Hrun. rewrite Hj in Hrun.
  assert (Hjn : j < nvars s0).
  { apply (inv_lvls _ HI). exists n. by apply (inv_vars _ HI). }
  apply find_or_add_spec in Hrun as (HI1&He1&Hf1&Hr); try done.
  2: by apply valid_m1. 2: by apply valid_1.
  2: by rewrite (lvl_term s0 HI0). 2: by rewrite (lvl_term s0 HI0).
  destruct r1 as [u|e]; cycle 1.
  { destruct (benign_off s0 e Hoff (proj1 Hr)) as [-> Hsome].
    destruct Hcase as [[[=] _]|[-> _]]. split; [by intros ? [=]|].
    intros Hmx. change (max_nodes s0) with (max_nodes s) in Hsome. rewrite Hmx in Hsome.
    by destruct Hsome. }
  destruct Hcase as [[? _]|[-> ->]]; [done|].
  destruct Hr as (Hu&_&HD). split; [|by eexists].
  intros ? [= <-]. split; [done|]. intros ρ. unfold denv. rewrite D_rctx, HD.
  rewrite (D_1 s0 HI0), (D_m1 s0 HI0).
  destruct He1 as (_&_&El). cbn. rewrite <- El. change (lvl2var s0) with (lvl2var s).
  rewrite (proj1 (inv_vars _ HI n j) Hj). by destruct (ρ n).
Qed.

Lemma var_run' s n j r s' :
  Inv s → last_len s = None → max_nodes s = None → vars s !! n = Some j →
  var n s = (r, s') →
  ∃ u, r = Ok u ∧ Inv s' ∧ grows s s' ∧ (∀ L, Counts s L → Counts s' L) ∧ valid s' u ∧
       ∀ ρ, denv s' u ρ = ρ n.
Proof.
  intros HI Hoff Hmx Hj Hrun.
  destruct (var_any s n j r s' HI Hoff Hj Hrun) as (HI'&G&HC&Hok&Htot).
  destruct (Htot Hmx) as [u ->]. destruct (Hok u eq_refl) as [Hu HD].
  exists u. by split_and!.
Qed.

Lemma ite_any s g u v r s' :
  Inv s → last_len s = None → valid s g → valid s u → valid s v →
  ite g u v s = (r, s') →
  Inv s' ∧ grows s s' ∧ (∀ L, Counts s L → Counts s' L) ∧
  (∀ w, r = Ok w → valid s' w ∧
     ∀ ρ, denv s' w ρ = if denv s g ρ then denv s u ρ else denv s v ρ) ∧
  (max_nodes s = None → ∃ w, r = Ok w).
Proof.
  intros HI Hoff Hg Hu Hv Hrun.
  destruct (tsafe_ite g u v s r s' HI Hoff Hrun) as (_&_&_&HC').
  destruct (ite_spec s g u v r s' HI Hg Hu Hv (or_intror Hoff) Hrun) as (HI'&He&Hf&Hr).
  split; [done|]. split; [done|]. split; [done|]. split.
  - intros w ->. destruct Hr as (Hw&_&HD). split; [done|]. intros ρ. unfold denv.
    destruct He as (_&_&El). rewrite <- El. apply HD.
  - intros Hmx. destruct r as [w|e]; [by eexists|]. by destruct (benign_never s e Hoff Hmx Hr).
Qed.

Lemma ite_run' s g u v r s' :
  Inv s → last_len s = None → max_nodes s = None → valid s g → valid s u → valid s v →
  ite g u v s = (r, s') →
  ∃ w, r = Ok w ∧ Inv s' ∧ grows s s' ∧ (∀ L, Counts s L → Counts s' L) ∧ valid s' w ∧
       ∀ ρ, denv s' w ρ = if denv s g ρ then denv s u ρ else denv s v ρ.
Proof.
  intros HI Hoff Hmx Hg Hu Hv Hrun.
  destruct (ite_any s g u v r s' HI Hoff Hg Hu Hv Hrun) as (HI'&G&HC&Hok&Htot).
  destruct (Htot Hmx) as [w ->]. destruct (Hok w eq_refl) as [Hw HD].
  exists w. by split_and!.
Qed.

(** ** 1. Objects *)
Definition fresh1 (o : cobj) : list Z := match o with OFresh u => [u] | OMemo _ => [] end.
Definition rfresh (rc : res cobj) : list Z :=
  match rc with Ok o => fresh1 o | Err _ => [] end.
Definition cvals (c : gmap positive Z) : list Z := (map_to_list c).*2.
Definition onode (c : gmap positive Z) (o : cobj) : Z :=
  match o with OFresh u => u | OMemo k => default 0%Z (c !! k) end.
(** the object [o] stands for the source reference [u] *)
Definition obj_ok (src r : st) (c : gmap positive Z) (u : Z) (o : cobj) : Prop :=
  match o with
  | OFresh x => same_fun src r u x ∧ (u ≤ 1)%Z
  | OMemo k => u = Z.pos k ∧ is_Some (c !! k)
  end.
Definition rel (o : cobj) (r : st) : st :=
  match o with OFresh u => unbump u r | OMemo _ => r end.

Lemma obj_same src r c u o :
  jcache_ok src r c → obj_ok src r c u o → same_fun src r u (onode c o).
Proof.
  intros Hc. destruct o as [k|x]; cbn; [|by intros [? _]]. intros [-> [x Hx]]. rewrite Hx. cbn.
  by destruct (Hc _ _ Hx) as (_&_&?).
Qed.
Lemma obj_ok_mono src r r' c c' u o :
  Inv r → grows r r' → c ⊆ c' → obj_ok src r c u o → obj_ok src r' c' u o.
Proof.
  intros HI G Hs. destruct o as [k|x]; cbn.
  - intros [-> [x Hx]]. split; [done|]. exists x. by eapply lookup_weaken.
  - intros [? ?]. split; [by apply (same_fun_grows src r r')|done].
Qed.
Lemma onode_mono c c' o : c ⊆ c' → (∀ k, o = OMemo k → is_Some (c !! k)) →
  onode c' o = onode c o.
Proof.
  intros Hs Ho. destruct o as [k|x]; [|done]. cbn. destruct (Ho k eq_refl) as [x Hx].
  by rewrite Hx, (lookup_weaken _ _ _ _ Hx Hs).
Qed.
Lemma cobj_node_ok src r c u o H n : obj_ok src r c u o →
  cobj_node c o (ASt r H n) = (Ok (onode c o), ASt r H n).
Proof. destruct o as [k|x]; cbn; [|done]. intros [_ [x ->]]. done. Qed.

Lemma release_ok r H n o : Inv r → Forall (valid r) (fresh1 o) →
  release o (ASt r H n) = (Ok tt, ASt (rel o r) H n).
Proof.
  intros HI Hv. destruct o as [k|x]; cbn; [done|].
  apply tmp_del_ok; [done|]. exact (proj1 (Forall_singleton _ _) Hv).
Qed.
Lemma rel_Inv o r : Inv r → Inv (rel o r).
Proof. destruct o; cbn; [done|]. apply Inv_unbump. Qed.
Lemma rel_grows o r : grows r (rel o r).
Proof. destruct o; cbn; [reflexivity|apply grows_unbump]. Qed.
Lemma rel_Counts o r L l : Forall (valid r) (fresh1 o) →
  Counts r (ledger_add L (fresh1 o ++ l)) → Counts (rel o r) (ledger_add L l).
Proof.
  destruct o as [k|x]; cbn; [done|]. intros Hv.
  apply Counts_unbump_add. exact (proj1 (Forall_singleton _ _) Hv).
Qed.
Lemma obj_fresh_valid src r c u o : obj_ok src r c u o → Forall (valid r) (fresh1 o).
Proof. destruct o as [k|x]; cbn; [done|]. intros [[? _] _]. by apply Forall_singleton. Qed.

(** ** 2. [_flip(r, u)] on the memo's object *)
Lemma flip_obj_ok src r c k x u H n :
  Inv src → Inv r → valid src u → absn u = k → c !! k = Some x → jcache_ok src r c →
  ∃ o, flip_obj k x u (ASt r H n) = (Ok o, ASt (foldr bump r (fresh1 o)) H n) ∧
    obj_ok src (foldr bump r (fresh1 o)) c u o.
Proof.
  intros HIs HIr Hv Hk Hx Hc. destruct (Hc _ _ Hx) as (_&_&Hvx&HD). unfold flip_obj.
  case_decide as Hneg.
  - exists (OFresh (- x)%Z). cbn [fresh1 foldr].
    step (tmp_new_ok r H n (- x)%Z HIr (valid_neg r x Hvx)). split; [done|].
    split; [|lia]. split; [by apply valid_neg|]. intros ρ.
    rewrite (denv_tables r (bump (- x) r)) by done.
    rewrite (denv_neg r x ρ HIr Hvx), HD, (denv_abs src u ρ HIs Hv), Hk.
    rewrite bool_decide_eq_true_2 by done. by destruct (denv src _ ρ).
  - exists (OMemo k). cbn [fresh1 foldr]. split; [done|]. split; [|by eexists].
    rewrite <- Hk. unfold absn. destruct Hv. lia.
Qed.

Lemma foldr_bump_facts r (l : list Z) : Inv r → Forall (valid r) l →
  Inv (foldr bump r l) ∧ grows r (foldr bump r l) ∧
  ∀ L l0, Counts r (ledger_add L l0) → Counts (foldr bump r l) (ledger_add L (l0 ++ l)).
Proof.
  intros HI. induction l as [|u l IH]; intros Hl; cbn [foldr].
  { split; [done|]. split; [reflexivity|]. intros L l0. by rewrite app_nil_r. }
  apply Forall_cons in Hl as [Hu Hl]. destruct (IH Hl) as (HI'&G'&HC').
  split; [by apply Inv_bump|]. split; [etrans; [exact G'|apply grows_bump]|].
  intros L l0 HC. pose proof (HC' L l0 HC) as HC1.
  assert (Hu' : valid (foldr bump r l) u) by (by apply (grows_valid r)).
  eapply Counts_ext; [|apply (Counts_bump_add _ _ _ u Hu' HC1)]. ladd.
Qed.

(** ** 3. The recursion: any outcome, exact ledger *)
Section rec.
Context (src : st) (HIs : Inv src).

Definition decl (r : st) : Prop := ∀ v, is_Some (vars src !! v) → is_Some (vars r !! v).

Lemma copy_fn_rec_spec fuel : ∀ u cache r H n,
  valid src u → nvars src - lvl_of src u < fuel →
  Inv r → last_len r = None → jcache_ok src r cache →
  ∃ rc cache' r',
    copy_fn_rec fuel src u cache (ASt r H n) = (Ok (rc, cache'), ASt r' H n) ∧
    Inv r' ∧ grows r r' ∧ cache ⊆ cache' ∧ jcache_ok src r' cache' ∧
    (∀ k', is_Some (cache' !! k') →
       is_Some (cache !! k') ∨ lvl_of src u ≤ lvl_of src (Z.pos k')) ∧
    (∀ L, Counts r (ledger_add L (cvals cache)) →
          Counts r' (ledger_add L (cvals cache' ++ rfresh rc))) ∧
    (∀ o, rc = Ok o → obj_ok src r' cache' u o) ∧
    (decl r → max_nodes r = None → ∃ o, rc = Ok o).
Proof.
  induction fuel as [|f IH]; intros u cache r H n Hv Hf HI Hoff Hc; [lia|].
  cbn [copy_fn_rec].
  (* constants *)
  assert (Hconst : ∀ c : Z, valid src c → (c = 1 ∨ c = -1)%Z →
    ∃ rc cache' r',
      (r0 <- catch (tmp_new c) ;; ret ((fun _ => OFresh c) <$$> r0, cache)) (ASt r H n)
        = (Ok (rc, cache'), ASt r' H n) ∧
      Inv r' ∧ grows r r' ∧ cache ⊆ cache' ∧ jcache_ok src r' cache' ∧
      (∀ k', is_Some (cache' !! k') →
         is_Some (cache !! k') ∨ lvl_of src c ≤ lvl_of src (Z.pos k')) ∧
      (∀ L, Counts r (ledger_add L (cvals cache)) →
            Counts r' (ledger_add L (cvals cache' ++ rfresh rc))) ∧
      (∀ o, rc = Ok o → obj_ok src r' cache' c o) ∧
      (decl r → max_nodes r = None → ∃ o, rc = Ok o)).
  { intros c Hvc Hc1.
    assert (Hvr : valid r c) by (destruct Hc1 as [-> | ->]; [by apply valid_1|by apply valid_m1]).
    exists (Ok (OFresh c)), cache, (bump c r).
    step (catch_ok _ _ _ _ (tmp_new_ok r H n c HI Hvr)). split; [done|].
    split; [by apply Inv_bump|]. split; [apply grows_bump|]. split; [done|].
    split; [apply (jcache_ok_grows src r); [done|apply grows_bump|done]|].
    split; [by left|]. split.
    { intros L HC. eapply Counts_ext; [|apply (Counts_bump_add _ _ _ c Hvr HC)]. cbn. ladd. }
    split; [|by eexists]. intros o [= <-]. cbn. split; [|lia]. split; [done|]. intros ρ.
    rewrite (denv_tables r (bump c r)) by done. unfold denv.
    destruct Hc1 as [-> | ->].
    - by rewrite (D_1 r HI), (D_1 src HIs).
    - by rewrite (D_m1 r HI), (D_m1 src HIs). }
  destruct (decide (u = 1%Z)) as [->|Hn1]; [apply Hconst; auto|].
  destruct (decide (u = (-1)%Z)) as [->|Hnm1]; [apply Hconst; auto|].
  clear Hconst.
  destruct (node_cases src HIs u Hv) as [[E _]|(t&Ht&Hk1&Hlo0&Hl&Hln&Hvl&Hvh&Hhp&Hll&Hlh&Hne)].
  { destruct (absn_1 u E (proj1 Hv)); done. }
  set (k := absn u) in *.
  destruct (cache !! k) as [x|] eqn:Hk.
  { (* memoized *)
    destruct (flip_obj_ok src r cache k x u H n HIs HI Hv eq_refl Hk Hc) as (o&Eo&Ho).
    destruct (foldr_bump_facts r (fresh1 o) HI) as (HI'&G'&HC').
    { destruct (Hc _ _ Hk) as (_&_&Hvx&_). destruct o; cbn; [done|].
      apply Forall_singleton. revert Eo. unfold flip_obj. case_decide; [|done].
      intros Eo. rewrite (bind_ok _ _ _ _ _ (tmp_new_ok r H n (- x)%Z HI (valid_neg r x Hvx))) in Eo.
      injection Eo as <-. by apply valid_neg. }
    exists (Ok o), cache, (foldr bump r (fresh1 o)). step (catch_ok _ _ _ _ Eo).
    split; [done|]. split; [done|]. split; [done|]. split; [done|].
    split; [by apply (jcache_ok_grows src r)|]. split; [by left|].
    split; [intros L; apply HC'|]. split; [by intros ? [= <-]|by eexists]. }
  rewrite Ht. unfold is_term. rewrite bool_decide_eq_false_2 by done.
  assert (Hlk : lvl_of src (Z.pos k) = t_lvl t)
    by (unfold lvl_of; by rewrite absn_pos, Ht).
  (* low *)
  destruct (IH (t_lo t) cache r H n Hvl ltac:(lia) HI Hoff Hc)
    as (rlo&c1&r1&E1&HI1&G1&Hs1&Hc1&Hlv1&HL1&Ho1&Hd1).
  step E1. cbv beta iota.
  assert (Hoff1 : last_len r1 = None) by (by apply (grows_off r r1)).
  assert (Hdecl1 : decl r → decl r1) by (intros Hd v Hx; rewrite (grows_vars r r1 G1); by apply Hd).
  destruct rlo as [lo|e]; cycle 1.
  { exists (Err e), c1, r1. split; [done|]. split; [done|]. split; [done|]. split; [done|].
    split; [done|]. split.
    { intros k' Hk'. destruct (Hlv1 k' Hk') as [?|?]; [by left|right; lia]. }
    split; [exact HL1|]. split; [done|]. intros Hd Hmx. by destruct (Hd1 Hd Hmx). }
  pose proof (Ho1 lo eq_refl) as Hlo.
  (* high *)
  destruct (IH (t_hi t) c1 r1 H n Hvh ltac:(lia) HI1 Hoff1 Hc1)
    as (rhi&c2&r2&E2&HI2&G2&Hs2&Hc2&Hlv2&HL2&Ho2&Hd2).
  step E2. cbv beta iota.
  assert (Hoff2 : last_len r2 = None) by (by apply (grows_off r1 r2)).
  assert (Hlo2 : obj_ok src r2 c2 (t_lo t) lo) by (by apply (obj_ok_mono src r1 r2 c1 c2)).
  assert (G02 : grows r r2) by (by etrans).
  assert (Hs02 : cache ⊆ c2) by (by etrans).
  assert (Hlv02 : ∀ k', is_Some (c2 !! k') →
            is_Some (cache !! k') ∨ t_lvl t < lvl_of src (Z.pos k')).
  { intros k' Hk'. destruct (Hlv2 k' Hk') as [Hk1'|?]; [|right; lia].
    destruct (Hlv1 k' Hk1') as [?|?]; [by left|right; lia]. }
  assert (Hk2 : c2 !! k = None).
  { apply eq_None_not_Some. intros Hs. destruct (Hlv02 k Hs) as [[? ?]|?]; [congruence|lia]. }
  assert (HC2 : ∀ L, Counts r (ledger_add L (cvals cache)) →
            Counts r2 (ledger_add L (cvals c2 ++ rfresh rhi ++ fresh1 lo))).
  { intros L HC. pose proof (HL1 L HC) as HCa. cbn [rfresh] in HCa.
    assert (HCb : Counts r1 (ledger_add (ledger_add L (fresh1 lo)) (cvals c1))).
    { eapply Counts_ext; [|exact HCa]. ladd. }
    eapply Counts_ext; [|exact (HL2 _ HCb)]. ladd. }
  pose proof (obj_fresh_valid src r2 c2 _ lo Hlo2) as Hvlo2.
  destruct rhi as [hi|e]; cycle 1.
  { exists (Err e), c2, (rel lo r2). step (release_ok r2 H n lo HI2 Hvlo2).
    split; [done|]. split; [by apply rel_Inv|]. split; [etrans; [exact G02|apply rel_grows]|].
    split; [done|]. split; [apply (jcache_ok_grows src r2); [done|apply rel_grows|done]|].
    split.
    { intros k' Hk'. destruct (Hlv02 k' Hk') as [?|?]; [by left|right; lia]. }
    split.
    { intros L HC. apply rel_Counts; [done|]. eapply Counts_ext; [|exact (HC2 L HC)].
      cbn [rfresh]. ladd. }
    split; [done|]. intros Hd Hmx. by destruct (Hd2 (Hdecl1 Hd) (grows_mx r r1 G1 Hmx)). }
  pose proof (Ho2 hi eq_refl) as Hhi2. cbn [rfresh] in HC2.
  pose proof (obj_fresh_valid src r2 c2 _ hi Hhi2) as Hvhi2.
  destruct (node_has_var src u t HIs Ht Hk1) as (v&Hlv&Hvv).
  destruct (obj_same src r2 c2 _ hi Hc2 Hhi2) as [Hvhn HDh].
  destruct (obj_same src r2 c2 _ lo Hc2 Hlo2) as [Hvln HDl].
  set (hn := onode c2 hi) in *. set (ln := onode c2 lo) in *.
  destruct (vars r2 !! v) as [j|] eqn:Hj; cycle 1.
  { (* the variable is not declared in the target *)
    destruct (var v r2) as [rg r3] eqn:Eg.
    destruct (var_total r2 v rg r3 HI2 Hoff2 Eg) as (_&_&Hund&_).
    destruct (Hund Hj) as [-> ->].
    erewrite (bind_ok (catch _)); cycle 1.
    { apply catch_err. rewrite Hlv. cbn [of_opt]. rewrite (bind_ok _ _ _ v (ASt r2 H n)) by done.
      apply bind_err. apply lift_run. exact Eg. }
    step (release_ok r2 H n hi HI2 Hvhi2).
    assert (Hvlo3 : Forall (valid (rel hi r2)) (fresh1 lo)).
    { eapply Forall_impl; [exact Hvlo2|]. intros y. apply grows_valid, rel_grows. }
    step (release_ok (rel hi r2) H n lo (rel_Inv hi r2 HI2) Hvlo3).
    set (r4 := rel lo (rel hi r2)).
    assert (G24 : grows r2 r4) by (etrans; apply rel_grows).
    exists (Err EValue), c2, r4. split; [done|].
    split; [by apply rel_Inv, rel_Inv|]. split; [by etrans|]. split; [done|].
    split; [by apply (jcache_ok_grows src r2)|]. split.
    { intros k' Hk'. destruct (Hlv02 k' Hk') as [?|?]; [by left|right; lia]. }
    split.
    { intros L HC. apply rel_Counts; [done|]. apply rel_Counts; [done|].
      eapply Counts_ext; [|exact (HC2 L HC)]. cbn [rfresh]. ladd. }
    split; [done|]. intros Hd _. exfalso.
    destruct (Hd v ltac:(by eexists)) as [j Hj']. rewrite (grows_vars r r2 G02) in Hj. congruence. }
  (* the variable is declared: the node is built *)
  assert (HCg : ∀ L, Counts r (ledger_add L (cvals cache)) →
            Counts r2 (ledger_add L (cvals c2 ++ fresh1 hi ++ fresh1 lo))) by exact HC2.
  destruct (var v r2) as [rg r3] eqn:Eg.
  destruct (var_any r2 v j rg r3 HI2 Hoff2 Hj Eg) as (HI3&G23&HCv&Hgok&Hgtot).
  assert (Hvhi3 : Forall (valid r3) (fresh1 hi)).
  { eapply Forall_impl; [exact Hvhi2|]. intros y. by apply grows_valid. }
  assert (Hvlo3 : Forall (valid r3) (fresh1 lo)).
  { eapply Forall_impl; [exact Hvlo2|]. intros y. by apply grows_valid. }
  destruct rg as [g|e]; cycle 1.
  { (* [var] fails (the table of the target is full): the locals die *)
    erewrite (bind_ok (catch _)); cycle 1.
    { apply catch_err. rewrite Hlv. cbn [of_opt]. rewrite (bind_ok _ _ _ v (ASt r2 H n)) by done.
      apply bind_err. apply lift_run. exact Eg. }
    step (release_ok r3 H n hi HI3 Hvhi3).
    assert (Hvlo3' : Forall (valid (rel hi r3)) (fresh1 lo)).
    { eapply Forall_impl; [exact Hvlo3|]. intros y. apply grows_valid, rel_grows. }
    step (release_ok (rel hi r3) H n lo (rel_Inv hi r3 HI3) Hvlo3').
    set (r4 := rel lo (rel hi r3)).
    assert (G24 : grows r2 r4) by (etrans; [exact G23|]; etrans; apply rel_grows).
    exists (Err e), c2, r4. split; [done|].
    split; [by apply rel_Inv, rel_Inv|]. split; [by etrans|]. split; [done|].
    split; [by apply (jcache_ok_grows src r2)|]. split.
    { intros k' Hk'. destruct (Hlv02 k' Hk') as [?|?]; [by left|right; lia]. }
    split.
    { intros L HC. apply rel_Counts; [done|]. apply rel_Counts; [done|].
      apply HCv. eapply Counts_ext; [|exact (HC2 L HC)]. cbn [rfresh]. ladd. }
    split; [done|]. intros Hd Hmx.
    by destruct (Hgtot (grows_mx r r2 G02 Hmx)) as [? [=]]. }
  destruct (Hgok g eq_refl) as [Hvg HDg]. clear Hgok Hgtot.
  set (r4 := bump g r3).
  assert (HI4 : Inv r4) by (by apply Inv_bump).
  assert (G24 : grows r2 r4) by (etrans; [exact G23|apply grows_bump]).
  assert (Hoff4 : last_len r4 = None) by (by apply (grows_off r2 r4)).
  assert (Hvg4 : valid r4 g) by done.
  assert (Hvhn4 : valid r4 hn) by (by apply (grows_valid r2 r4)).
  assert (Hvln4 : valid r4 ln) by (by apply (grows_valid r2 r4)).
  destruct (ite g hn ln r4) as [rx r5] eqn:Ex.
  destruct (ite_any r4 g hn ln rx r5 HI4 Hoff4 Hvg4 Hvhn4 Hvln4 Ex)
    as (HI5&G45&HCi&Hxok&Hxtot).
  destruct rx as [x|e]; cycle 1.
  { (* [ite] fails (the table of the target is full): [g] and the locals die *)
    assert (Hvg5 : valid r5 g) by (by apply (grows_valid r4 r5)).
    set (r6 := unbump g r5).
    assert (HI6 : Inv r6) by (by apply Inv_unbump).
    assert (G26 : grows r2 r6).
    { etrans; [exact G24|]. etrans; [exact G45|]. apply grows_unbump. }
    erewrite (bind_ok (catch _)); cycle 1.
    { apply catch_err. rewrite Hlv. cbn [of_opt]. rewrite (bind_ok _ _ _ v (ASt r2 H n)) by done.
      step (lift_run _ _ H n _ _ Eg).
      apply (with_tmp_run g _ r3 H n (Err e) r5 HI3 Hvg); [|done|done].
      step (cobj_node_ok src r4 c2 _ hi H n
              (obj_ok_mono src r2 r4 c2 c2 _ hi HI2 G24 (reflexivity _) Hhi2)).
      step (cobj_node_ok src r4 c2 _ lo H n
              (obj_ok_mono src r2 r4 c2 c2 _ lo HI2 G24 (reflexivity _) Hlo2)).
      fold hn ln.
      step (check_in_ok r4 H n g Hvg4). step (check_in_ok r4 H n hn Hvhn4).
      step (check_in_ok r4 H n ln Hvln4). apply bind_err. exact (lift_run _ _ H n _ _ Ex). }
    assert (Hvhi6 : Forall (valid r6) (fresh1 hi)).
    { eapply Forall_impl; [exact Hvhi2|]. intros y. by apply grows_valid. }
    step (release_ok r6 H n hi HI6 Hvhi6).
    assert (Hvlo6 : Forall (valid (rel hi r6)) (fresh1 lo)).
    { eapply Forall_impl; [exact Hvlo2|]. intros y Hy.
      apply (grows_valid r6); [apply rel_grows|]. by apply (grows_valid r2 r6). }
    step (release_ok (rel hi r6) H n lo (rel_Inv hi r6 HI6) Hvlo6).
    set (r8 := rel lo (rel hi r6)).
    assert (G28 : grows r2 r8) by (etrans; [exact G26|]; etrans; apply rel_grows).
    exists (Err e), c2, r8. split; [done|].
    split; [by apply rel_Inv, rel_Inv|]. split; [by etrans|]. split; [done|].
    split; [by apply (jcache_ok_grows src r2)|]. split.
    { intros k' Hk'. destruct (Hlv02 k' Hk') as [?|?]; [by left|right; lia]. }
    split.
    { intros L HC. apply rel_Counts; [done|]. apply rel_Counts; [done|].
      assert (HCa : Counts r3 (ledger_add L (cvals c2 ++ fresh1 hi ++ fresh1 lo)))
        by apply HCv, HCg, HC.
      pose proof (Counts_bump_add r3 _ _ g Hvg HCa) as HCb. fold r4 in HCb.
      apply (Counts_unbump_add r5 _ _ g Hvg5). eapply Counts_ext; [|exact (HCi _ HCb)].
      cbn [rfresh]. ladd. }
    split; [done|]. intros Hd Hmx.
    assert (Hmx4 : max_nodes r4 = None) by (apply (grows_mx r r4); [by etrans|done]).
    by destruct (Hxtot Hmx4) as [? [=]]. }
  destruct (Hxok x eq_refl) as [Hvx HDx]. clear Hxok Hxtot.
  set (r6 := bump x r5).
  assert (HI6 : Inv r6) by (by apply Inv_bump).
  assert (Hvg6 : valid r6 g) by (by apply (grows_valid r4 r5)).
  set (r7 := unbump g r6).
  assert (HI7 : Inv r7) by (by apply Inv_unbump).
  assert (G27 : grows r2 r7).
  { etrans; [exact G24|]. etrans; [exact G45|]. by repeat split. }
  assert (Hvx7 : valid r7 x) by done.
  assert (Hvk : valid src (Z.pos k)) by (split; [done|by eexists]).
  assert (HDx7 : ∀ ρ, denv r7 x ρ = denv src (Z.pos k) ρ).
  { intros ρ. rewrite (denv_tables r5 r7) by done. rewrite HDx.
    rewrite (denv_tables r3 r4 g) by done. rewrite HDg.
    rewrite (grows_denv r2 r4 hn ρ G24 HI2 Hvhn), (grows_denv r2 r4 ln ρ G24 HI2 Hvln).
    rewrite HDh, HDl.
    rewrite (shannon_handle src (Z.pos k) t v HIs Hvk Hk1 Ht Hlv ρ).
    rewrite bool_decide_eq_false_2 by lia. by rewrite xorb_false_l. }
  assert (Hxp : (0 < x)%Z).
  { pose proof (denv_all_true r7 x HI7 Hvx7) as E. rewrite HDx7 in E.
    rewrite (denv_all_true src (Z.pos k) HIs Hvk) in E.
    rewrite bool_decide_eq_true_2 in E by lia. symmetry in E.
    by apply bool_decide_eq_true in E. }
  erewrite (bind_ok (catch _)); cycle 1.
  { apply catch_ok. rewrite Hlv. cbn [of_opt]. rewrite (bind_ok _ _ _ v (ASt r2 H n)) by done.
    step (lift_run _ _ H n _ _ Eg).
    apply (with_tmp_ok g _ r3 H n x r6 HI3 Hvg); [|done|done].
    step (cobj_node_ok src r4 c2 _ hi H n
            (obj_ok_mono src r2 r4 c2 c2 _ hi HI2 G24 (reflexivity _) Hhi2)).
    step (cobj_node_ok src r4 c2 _ lo H n
            (obj_ok_mono src r2 r4 c2 c2 _ lo HI2 G24 (reflexivity _) Hlo2)).
    fold hn ln.
    step (check_in_ok r4 H n g Hvg4). step (check_in_ok r4 H n hn Hvhn4).
    step (check_in_ok r4 H n ln Hvln4). step (lift_run _ _ H n _ _ Ex).
    by step (tmp_new_ok r5 H n x HI5 Hvx). }
  assert (Hvhi7 : Forall (valid r7) (fresh1 hi)).
  { eapply Forall_impl; [exact Hvhi2|]. intros y. by apply grows_valid. }
  step (release_ok r7 H n hi HI7 Hvhi7).
  set (r8 := rel hi r7).
  assert (HI8 : Inv r8) by (by apply rel_Inv).
  assert (G28 : grows r2 r8) by (etrans; [exact G27|apply rel_grows]).
  assert (Hvlo8 : Forall (valid r8) (fresh1 lo)).
  { eapply Forall_impl; [exact Hvlo2|]. intros y. by apply grows_valid. }
  step (release_ok r8 H n lo HI8 Hvlo8).
  set (r9 := rel lo r8).
  assert (HI9 : Inv r9) by (by apply rel_Inv).
  assert (G29 : grows r2 r9) by (etrans; [exact G28|apply rel_grows]).
  assert (G79 : grows r7 r9) by (etrans; apply rel_grows).
  cbv beta iota.
  set (c3 := <[k := x]> c2).
  assert (Hc3 : jcache_ok src r9 c3).
  { intros k' y. unfold c3. rewrite lookup_insert_Some. intros [[<- <-]|[_ Hy]].
    - split; [done|]. split; [done|]. split; [by apply (grows_valid r7 r9)|].
      intros ρ. rewrite (grows_denv r7 r9 x ρ G79 HI7 Hvx7). apply HDx7.
    - by apply (jcache_ok_grows src r2 r9 c2 HI2 G29 Hc2). }
  assert (Hk3 : c3 !! k = Some x) by apply lookup_insert.
  destruct (flip_obj_ok src r9 c3 k x u H n HIs HI9 Hv eq_refl Hk3 Hc3) as (o&Eo&Ho).
  destruct (foldr_bump_facts r9 (fresh1 o) HI9) as (HI10&G910&HC10).
  { destruct o as [?|y]; cbn; [done|]. apply Forall_singleton.
    revert Eo. unfold flip_obj. case_decide; [|done]. intros Eo.
    rewrite (bind_ok _ _ _ _ _ (tmp_new_ok r9 H n (- x)%Z HI9
               (valid_neg r9 x (grows_valid r7 r9 x G79 Hvx7)))) in Eo.
    injection Eo as <-. apply valid_neg. by apply (grows_valid r7 r9). }
  step (catch_ok _ _ _ _ Eo).
  exists (Ok o), c3, (foldr bump r9 (fresh1 o)). split; [done|]. split; [done|].
  split; [etrans; [exact G02|]; by etrans|].
  split; [etrans; [exact Hs02|]; by apply insert_subseteq|].
  split; [by apply (jcache_ok_grows src r9)|]. split.
  { intros k' Hk'. destruct (decide (k' = k)) as [->|Hne'].
    - right. rewrite Hlk. lia.
    - unfold c3 in Hk'. rewrite lookup_insert_ne in Hk' by done.
      destruct (Hlv02 k' Hk') as [?|?]; [by left|right; lia]. }
  split.
  { intros L HC. apply HC10.
    assert (HCa : Counts r3 (ledger_add L (cvals c2 ++ fresh1 hi ++ fresh1 lo)))
      by apply HCv, HCg, HC.
    pose proof (Counts_bump_add r3 _ _ g Hvg HCa) as HCb. fold r4 in HCb.
    pose proof (Counts_bump_add r5 _ _ x Hvx (HCi _ HCb)) as HCc. fold r6 in HCc.
    assert (HCd : Counts r7 (ledger_add L (fresh1 hi ++ fresh1 lo ++ x :: cvals c2))).
    { apply (Counts_unbump_add r6 _ _ g Hvg6). eapply Counts_ext; [|exact HCc]. ladd. }
    pose proof (rel_Counts hi r7 _ _ Hvhi7 HCd) as HCe. fold r8 in HCe.
    pose proof (rel_Counts lo r8 _ _ Hvlo8 HCe) as HCf. fold r9 in HCf.
    eapply Counts_ext; [|exact HCf]. intros m. unfold cvals, c3.
    rewrite (ledger_add_insert L c2 k x m Hk2). by rewrite ledger_add_cons. }
  split; [by intros ? [= <-]|by eexists].
Qed.

End rec.

(** ** 4. The roots, one memo for all *)
Definition fresh_of (objs : list cobj) : list Z := concat (fresh1 <$> objs).
Lemma fresh_of_app a b : fresh_of (a ++ b) = fresh_of a ++ fresh_of b.
Proof. unfold fresh_of. by rewrite fmap_app, concat_app. Qed.
Lemma fresh_of_one o : fresh_of [o] = fresh1 o.
Proof. unfold fresh_of. cbn. by rewrite app_nil_r. Qed.

Lemma copy_roots_spec src (HIs : Inv src) : ∀ roots objs us0 cache r H n,
  Inv r → last_len r = None → jcache_ok src r cache →
  Forall2 (obj_ok src r cache) us0 objs →
  ∃ objs' cache' failed r' us',
    copy_roots src roots objs cache (ASt r H n)
      = (Ok (objs', cache', failed), ASt r' H n) ∧
    Inv r' ∧ grows r r' ∧ jcache_ok src r' cache' ∧
    Forall2 (obj_ok src r' cache') us' objs' ∧
    (failed = None → us' = us0 ++ roots) ∧
    (∀ L, Counts r (ledger_add L (cvals cache ++ fresh_of objs)) →
          Counts r' (ledger_add L (cvals cache' ++ fresh_of objs'))) ∧
    (decl src r → max_nodes r = None → Forall (valid src) roots → failed = None).
Proof.
  induction roots as [|u roots IH]; intros objs us0 cache r H n HI Hoff Hc Hobjs.
  { exists objs, cache, None, r, us0. split; [done|]. split; [done|]. split; [reflexivity|].
    split; [done|]. split; [done|]. split; [by rewrite app_nil_r|]. by split. }
  cbn [copy_roots]. destruct (mem u src) eqn:Hm; cbn [negb]; cycle 1.
  { exists objs, cache, (Some EValue), r, us0. split; [done|]. split; [done|].
    split; [reflexivity|]. split; [done|]. split; [done|]. split; [done|]. split; [done|].
    intros _ _ Hv. apply Forall_cons in Hv as [Hv _]. apply mem_valid in Hv. congruence. }
  apply mem_valid in Hm.
  destruct (copy_fn_rec_spec src HIs (S (S (nvars src))) u cache r H n Hm ltac:(lia) HI Hoff Hc)
    as (rc&c1&r1&E1&HI1&G1&Hs1&Hc1&_&HL1&Ho1&Hd1).
  step E1.
  assert (Hoff1 : last_len r1 = None) by (by apply (grows_off r r1)).
  assert (Hobjs1 : Forall2 (obj_ok src r1 c1) us0 objs).
  { eapply Forall2_impl; [exact Hobjs|]. intros x o. by apply obj_ok_mono. }
  assert (HC1 : ∀ L, Counts r (ledger_add L (cvals cache ++ fresh_of objs)) →
            Counts r1 (ledger_add L (cvals c1 ++ fresh_of objs ++ rfresh rc))).
  { intros L HC.
    assert (HCa : Counts r (ledger_add (ledger_add L (fresh_of objs)) (cvals cache))).
    { eapply Counts_ext; [|exact HC]. ladd. }
    eapply Counts_ext; [|exact (HL1 _ HCa)]. ladd. }
  destruct rc as [o|e]; cycle 1.
  { exists objs, c1, (Some e), r1, us0. split; [done|]. split; [done|]. split; [done|].
    split; [done|]. split; [done|]. split; [done|]. split.
    - intros L HC. eapply Counts_ext; [|exact (HC1 L HC)]. cbn [rfresh]. ladd.
    - intros Hd Hmx _. by destruct (Hd1 Hd Hmx). }
  destruct (IH (objs ++ [o]) (us0 ++ [u]) c1 r1 H n HI1 Hoff1 Hc1)
    as (objs'&c2&failed&r2&us'&E2&HI2&G2&Hc2&Hobjs2&Hus&HL2&Hd2).
  { apply Forall2_app; [done|]. constructor; [by apply Ho1|constructor]. }
  exists objs', c2, failed, r2, us'. split; [done|]. split; [done|]. split; [by etrans|].
  split; [done|]. split; [done|]. split.
  { intros Hf. rewrite (Hus Hf). by rewrite <- app_assoc. }
  split.
  - intros L HC. apply HL2. rewrite fresh_of_app, fresh_of_one.
    eapply Counts_ext; [|exact (HC1 L HC)]. cbn [rfresh]. ladd.
  - intros Hd Hmx Hv. apply Forall_cons in Hv as [_ Hv]. apply Hd2; [|by apply (grows_mx r r1)|done].
    intros v Hx. rewrite (grows_vars r r1 G1). by apply Hd.
Qed.

(** the objects built so far die *)
Lemma release_all : ∀ (objs : list cobj) r H n,
  Inv r → Forall (valid r) (fresh_of objs) →
  ∃ r', forM objs release (ASt r H n) = (Ok tt, ASt r' H n) ∧ Inv r' ∧ grows r r' ∧
    ∀ L l, Counts r (ledger_add L (fresh_of objs ++ l)) → Counts r' (ledger_add L l).
Proof.
  induction objs as [|o objs IH]; intros r H n HI Hv.
  { exists r. split; [done|]. split; [done|]. by split. }
  change (fresh_of (o :: objs)) with (fresh1 o ++ fresh_of objs) in *.
  apply Forall_app in Hv as [Hvo Hv]. cbn [forM].
  step (release_ok r H n o HI Hvo).
  destruct (IH (rel o r) H n (rel_Inv o r HI)) as (r'&E&HI'&G'&HC').
  { eapply Forall_impl; [exact Hv|]. intros y. apply grows_valid, rel_grows. }
  exists r'. split; [done|]. split; [done|]. split; [etrans; [apply rel_grows|done]|].
  intros L l HC. apply HC'. apply rel_Counts; [done|]. by rewrite app_assoc.
Qed.

Lemma objs_fresh_valid src r c us objs :
  Forall2 (obj_ok src r c) us objs → Forall (valid r) (fresh_of objs).
Proof.
  induction 1 as [|u o us objs Ho _ IH]; [constructor|].
  change (fresh_of (o :: objs)) with (fresh1 o ++ fresh_of objs).
  apply Forall_app. split; [by eapply obj_fresh_valid|done].
Qed.

(** ** 5. The handles: one per fresh object, one per distinct memo object *)
Lemma hins_snoc us : ∀ H n u, hins H n (us ++ [u]) = <[n + length us := u]> (hins H n us).
Proof.
  induction us as [|u0 us IH]; intros H n u; cbn [hins app length].
  - by rewrite Nat.add_0_r.
  - rewrite IH. by replace (n + S (length us)) with (S n + length us) by lia.
Qed.

Definition hstep (cache : gmap positive Z)
  : list nat * gmap positive nat → cobj → MA (list nat * gmap positive nat) :=
  fun '(hs, memo_h) o =>
  match o with
  | OFresh u =>
      a <- get ;;
      let h := next_hid a in
      modify (fun a => a <| handles ::= <[h := u]> |> <| next_hid := S h |>) ;;;
      ret (hs ++ [h], memo_h)
  | OMemo k =>
      match (memo_h : gmap positive nat) !! k with
      | Some h => ret (hs ++ [h], memo_h)
      | None =>
          x <- of_opt EKey (cache !! k) ;;
          a <- get ;;
          let h := next_hid a in
          modify (fun a => a <| handles ::= <[h := x]> |> <| next_hid := S h |>) ;;;
          ret (hs ++ [h], <[k := h]> memo_h)
      end
  end.

Definition mpairs (cache : gmap positive Z) (mk : list positive) : list (positive * Z) :=
  omap (fun k => pair k <$> cache !! k) mk.

Lemma mpairs_snoc cache mk k x : cache !! k = Some x →
  mpairs cache (mk ++ [k]) = mpairs cache mk ++ [(k, x)].
Proof. intros Hx. unfold mpairs. rewrite omap_app. cbn. by rewrite Hx. Qed.

Record hinv (cache : gmap positive Z) (n : nat) (po : list cobj) (us : list Z)
    (hs : list nat) (mh : gmap positive nat) (mk : list positive) : Prop := {
  hi_mh : ∀ k h, mh !! k = Some h →
            ∃ j, h = n + j ∧ us !! j = cache !! k ∧ is_Some (cache !! k);
  hi_nd : NoDup mk;
  hi_mk : ∀ k, is_Some (mh !! k) ↔ k ∈ mk;
  hi_led : ∀ L m, ledger_add L us m
                  = ledger_add L (fresh_of po ++ (mpairs cache mk).*2) m;
  hi_hs : Forall2 (fun o h => ∃ j, h = n + j ∧ us !! j = Some (onode cache o)) po hs;
  hi_alias : ∀ i k, po !! i = Some (OMemo k) → hs !! i = mh !! k;
  hi_all : ∀ j, j < length us → n + j ∈ hs;
}.

Lemma new_handle_run {A} r H n us x (f : nat → A) :
  (a <- get ;;
   let h := next_hid a in
   modify (fun a : ast => a <| handles ::= <[h := x]> |> <| next_hid := S h |>) ;;;
   ret (f h)) (ASt r (hins H n us) (n + length us))
  = (Ok (f (n + length us)), ASt r (hins H n (us ++ [x])) (n + length (us ++ [x]))).
Proof.
  cbn. rewrite hins_snoc, app_length. cbn [length].
  by replace (n + (length us + 1)) with (S (n + length us)) by lia.
Qed.

Lemma hstep_spec cache r H n po us hs mh mk o :
  hinv cache n po us hs mh mk → (∀ k, o = OMemo k → is_Some (cache !! k)) →
  ∃ us' hs' mh' mk',
    hstep cache (hs, mh) o (ASt r (hins H n us) (n + length us))
      = (Ok (hs', mh'), ASt r (hins H n us') (n + length us')) ∧
    hinv cache n (po ++ [o]) us' hs' mh' mk'.
Proof.
  intros [Hmh Hnd Hmk Hled Hhs Hal Hall] Ho.
  pose proof (Forall2_length _ _ _ Hhs) as Hlen.
  assert (Hold : ∀ j y, us !! j = Some y → ∀ z, (us ++ [z]) !! j = Some y).
  { intros j y Hj z. by apply lookup_app_l_Some. }
  assert (Hhs_old : ∀ z, Forall2 (fun o h => ∃ j, h = n + j ∧ (us ++ [z]) !! j = Some (onode cache o)) po hs).
  { intros z. eapply Forall2_impl; [exact Hhs|]. intros o' h (j&->&Hj). exists j. split; [done|].
    by apply Hold. }
  assert (Hal_old : ∀ h' i k, i < length po →
            (po ++ [o]) !! i = Some (OMemo k) → (hs ++ [h']) !! i = mh !! k).
  { intros h' i k Hi Hpo. rewrite lookup_app_l in Hpo by done.
    rewrite lookup_app_l by lia. by apply Hal. }
  destruct o as [k|u]; cbn [hstep].
  - destruct (Ho k eq_refl) as [x Hx].
    destruct (mh !! k) as [h|] eqn:Hk.
    + (* the memo object already has a handle *)
      exists us, (hs ++ [h]), mh, mk. split; [done|].
      destruct (Hmh k h Hk) as (j&->&Hj&_).
      split; try done.
      * intros L m. rewrite fresh_of_app, fresh_of_one. cbn [fresh1]. rewrite app_nil_r. apply Hled.
      * apply Forall2_app; [done|]. constructor; [|constructor]. exists j. split; [done|].
        cbn. by rewrite Hj, Hx.
      * intros i k' Hi. destruct (decide (i < length po)) as [Hlt|Hge]; [by apply Hal_old|].
        assert (i = length po) as ->.
        { apply lookup_lt_Some in Hi. rewrite app_length in Hi. cbn in Hi. lia. }
        rewrite list_lookup_middle in Hi by done. injection Hi as <-.
        by rewrite Hlen, list_lookup_middle.
      * intros j' Hj'. apply elem_of_app. left. by apply Hall.
    + (* a new handle on the memo's node *)
      rewrite Hx. cbn [of_opt]. rewrite (bind_ok _ _ _ x (ASt r (hins H n us) (n + length us))) by done.
      exists (us ++ [x]), (hs ++ [n + length us]), (<[k := n + length us]> mh), (mk ++ [k]).
      split.
      { exact (new_handle_run r H n us x (fun h => (hs ++ [h], <[k := h]> mh))). }
      assert (Hkm : k ∉ mk) by (intros Hin; apply Hmk in Hin as [? ?]; congruence).
      split.
      * intros k' h'. rewrite lookup_insert_Some. intros [[<- <-]|[Hne Hk']].
        -- exists (length us). split; [done|]. rewrite list_lookup_middle by done.
           by rewrite Hx.
        -- destruct (Hmh k' h' Hk') as (j&->&Hj&Hs). exists j. split; [done|]. split; [|done].
           destruct Hs as [y Hy]. rewrite Hy in Hj |- *. by apply Hold.
      * apply NoDup_app. split; [done|]. split; [|apply NoDup_singleton].
        intros y Hy Hy'. apply elem_of_list_singleton in Hy' as ->. done.
      * intros k'. rewrite lookup_insert_is_Some', elem_of_app, elem_of_list_singleton, Hmk.
        naive_solver.
      * intros L m. rewrite fresh_of_app, fresh_of_one. cbn [fresh1]. rewrite app_nil_r.
        rewrite (mpairs_snoc cache mk k x Hx), fmap_app. cbn [fmap list_fmap snd].
        transitivity (ledger_add (ledger_add L [x]) us m); [ladd|].
        rewrite Hled. ladd.
      * apply Forall2_app; [done|]. constructor; [|constructor]. exists (length us).
        split; [done|]. rewrite list_lookup_middle by done. cbn. by rewrite Hx.
      * intros i k' Hi. destruct (decide (i < length po)) as [Hlt|Hge].
        -- rewrite (Hal_old _ i k' Hlt Hi). rewrite lookup_app_l in Hi by done.
           destruct (decide (k' = k)) as [->|Hne]; [|by rewrite lookup_insert_ne].
           exfalso. pose proof (Hal i k Hi) as E. rewrite Hk in E.
           apply lookup_lt_Some in Hi. rewrite Hlen in Hi.
           apply lookup_lt_is_Some in Hi as [? ?]. congruence.
        -- assert (i = length po) as ->.
           { apply lookup_lt_Some in Hi. rewrite app_length in Hi. cbn in Hi. lia. }
           rewrite list_lookup_middle in Hi by done. injection Hi as <-.
           by rewrite Hlen, list_lookup_middle, lookup_insert.
      * intros j'. rewrite app_length. cbn. intros Hj'. apply elem_of_app.
        destruct (decide (j' < length us)) as [?|?]; [left; by apply Hall|right].
        apply elem_of_list_singleton. f_equal. lia.
  - (* a fresh object *)
    exists (us ++ [u]), (hs ++ [n + length us]), mh, mk. split.
    { exact (new_handle_run r H n us u (fun h => (hs ++ [h], mh))). }
    split; try done.
    + intros k h Hk. destruct (Hmh k h Hk) as (j&->&Hj&Hs). exists j. split; [done|].
      split; [|done]. destruct Hs as [y Hy]. rewrite Hy in Hj |- *. by apply Hold.
    + intros L m. rewrite fresh_of_app, fresh_of_one. cbn [fresh1].
      transitivity (ledger_add (ledger_add L [u]) us m); [ladd|]. rewrite Hled. ladd.
    + apply Forall2_app; [done|]. constructor; [|constructor]. exists (length us).
      split; [done|]. by rewrite list_lookup_middle.
    + intros i k Hi. destruct (decide (i < length po)) as [Hlt|Hge]; [by apply Hal_old|].
      assert (i = length po) as ->.
      { apply lookup_lt_Some in Hi. rewrite app_length in Hi. cbn in Hi. lia. }
      by rewrite list_lookup_middle in Hi.
    + intros j'. rewrite app_length. cbn. intros Hj'. apply elem_of_app.
      destruct (decide (j' < length us)) as [?|?]; [left; by apply Hall|right].
      apply elem_of_list_singleton. f_equal. lia.
Qed.

Lemma hfold_spec cache r H n : ∀ l po us hs mh mk,
  hinv cache n po us hs mh mk → (∀ k, OMemo k ∈ l → is_Some (cache !! k)) →
  ∃ us' hs' mh' mk',
    foldM (hstep cache) (hs, mh) l (ASt r (hins H n us) (n + length us))
      = (Ok (hs', mh'), ASt r (hins H n us') (n + length us')) ∧
    hinv cache n (po ++ l) us' hs' mh' mk'.
Proof.
  induction l as [|o l IH]; intros po us hs mh mk Hinv Hl.
  { exists us, hs, mh, mk. rewrite app_nil_r. by split. }
  destruct (hstep_spec cache r H n po us hs mh mk o Hinv) as (us1&hs1&mh1&mk1&E1&Hinv1).
  { intros k ->. apply Hl, elem_of_list_here. }
  destruct (IH (po ++ [o]) us1 hs1 mh1 mk1 Hinv1) as (us2&hs2&mh2&mk2&E2&Hinv2).
  { intros k Hk. apply Hl. by apply elem_of_list_further. }
  exists us2, hs2, mh2, mk2. cbn [foldM]. step E1. split; [exact E2|].
  by rewrite <- app_assoc in Hinv2.
Qed.

(** the memo dies: entries whose object became a handle keep their reference *)
Lemma memo_die (mh : gmap positive nat) : ∀ (l : list (positive * Z)) r H n L,
  Inv r → Forall (valid r) l.*2 → Counts r (ledger_add L l.*2) →
  ∃ r', forM l (fun '(k, x) => if decide (is_Some (mh !! k)) then ret tt else tmp_del x)
          (ASt r H n) = (Ok tt, ASt r' H n) ∧
    Inv r' ∧ grows r r' ∧
    Counts r' (ledger_add L (filter (fun p : positive * Z => is_Some (mh !! p.1)) l).*2).
Proof.
  induction l as [|[k x] l IH]; intros r H n L HI Hl HC.
  { exists r. split; [done|]. split; [done|]. by split. }
  cbn [fmap list_fmap snd] in Hl, HC. apply Forall_cons in Hl as [Hx Hl]. cbn [forM].
  rewrite filter_cons. cbn [fst]. destruct (decide (is_Some (mh !! k))) as [Hk|Hk].
  - rewrite (bind_ok _ _ _ tt (ASt r H n)) by done.
    destruct (IH r H n (ledger_add L [x]) HI Hl) as (r'&E&HI'&G'&HC').
    { eapply Counts_ext; [|exact HC]. ladd. }
    exists r'. split; [done|]. split; [done|]. split; [done|].
    eapply Counts_ext; [|exact HC']. cbn [fmap list_fmap snd]. ladd.
  - step (tmp_del_ok r H n x HI Hx).
    destruct (IH (unbump x r) H n L (Inv_unbump r x HI)) as (r'&E&HI'&G'&HC'); [done| |].
    { by apply Counts_unbump_add. }
    exists r'. split; [done|]. split; [done|]. split; [|done].
    etrans; [apply grows_unbump|done].
Qed.

Lemma mpairs_elem cache mk k x : (k, x) ∈ mpairs cache mk ↔ k ∈ mk ∧ cache !! k = Some x.
Proof.
  unfold mpairs. rewrite elem_of_list_omap. split.
  - intros (k'&Hk'&E). destruct (cache !! k') as [y|] eqn:Hy; [|done]. cbn in E.
    by injection E as -> ->.
  - intros [Hk Hx]. exists k. split; [done|]. by rewrite Hx.
Qed.
Lemma mpairs_NoDup cache mk : NoDup mk → NoDup (mpairs cache mk).
Proof.
  induction 1 as [|k mk Hk _ IH]; [constructor|]. unfold mpairs in *. cbn.
  destruct (cache !! k) as [x|] eqn:Hx; cbn; [|exact IH]. constructor; [|exact IH].
  intros Hin. apply (proj1 (mpairs_elem cache mk k x)) in Hin as [? _]. done.
Qed.
Lemma memo_perm cache (mh : gmap positive nat) mk :
  NoDup mk → (∀ k, is_Some (mh !! k) ↔ k ∈ mk) →
  filter (fun p : positive * Z => is_Some (mh !! p.1)) (map_to_list cache)
  ≡ₚ mpairs cache mk.
Proof.
  intros Hnd Hmk. apply NoDup_Permutation.
  - apply NoDup_filter, NoDup_map_to_list.
  - by apply mpairs_NoDup.
  - intros [k x]. rewrite elem_of_list_filter, elem_of_map_to_list, mpairs_elem. cbn.
    by rewrite Hmk.
Qed.

(** ** 6. The whole call: either handles with an exact ledger, or an
    exception and nothing leaked *)
Theorem copy_bdds_from_spec src roots r0 H n L :
  Inv src → Inv r0 → last_len r0 = None → Counts r0 L →
  ∃ res r' H' n',
    copy_bdds_from src roots (ASt r0 H n) = (res, ASt r' H' n') ∧
    Inv r' ∧ grows r0 r' ∧
    match res with
    | Err e => H' = H ∧ n' = n ∧ Counts r' L
    | Ok hs =>
        ∃ us, H' = hins H n us ∧ n' = n + length us ∧ Counts r' (ledger_add L us) ∧
          Forall2 (fun u h => ∃ j u', h = n + j ∧ us !! j = Some u' ∧ same_fun src r' u u')
            roots hs ∧
          (∀ i j u, roots !! i = Some u → roots !! j = Some u → (1 < u)%Z →
             hs !! i = hs !! j) ∧
          (∀ j, j < length us → n + j ∈ hs)
    end ∧
    (decl src r0 → max_nodes r0 = None → Forall (valid src) roots → ∃ hs, res = Ok hs).
Proof.
  intros HIs HI0 Hoff HC0.
  destruct (copy_roots_spec src HIs roots [] [] ∅ r0 H n HI0 Hoff)
    as (objs&c1&failed&r1&us'&E1&HI1&G1&Hc1&Hobjs&Hus&HL1&Hd1).
  { intros k x Hx. by rewrite lookup_empty in Hx. }
  { constructor. }
  assert (HC1 : Counts r1 (ledger_add L (cvals c1 ++ fresh_of objs))).
  { apply HL1. unfold cvals. rewrite map_to_list_empty. cbn. by apply Counts_add_nil. }
  pose proof (objs_fresh_valid src r1 c1 us' objs Hobjs) as Hvf.
  unfold copy_bdds_from. step E1. cbv beta iota.
  destruct failed as [e|].
  { (* the exception unwinds *)
    destruct (release_all objs r1 H n HI1 Hvf) as (r2&E2&HI2&G2&HC2).
    step E2.
    destruct (release_fail (map_to_list c1) r2 H n L HI2) as (r3&E3&HI3&G3&HC3).
    { apply cvalid_list, (jcache_cvalid src). by apply (jcache_ok_grows src r1 r2). }
    { apply HC2. eapply Counts_ext; [|exact HC1]. unfold cvals. ladd. }
    step E3. exists (Err e), r3, H, n. split; [done|]. split; [done|].
    split; [etrans; [exact G1|]; by etrans|]. split; [done|].
    intros Hd Hmx Hv. by specialize (Hd1 Hd Hmx Hv). }
  specialize (Hus eq_refl). cbn in Hus. subst us'.
  (* the handles *)
  assert (Hinv0 : hinv c1 n [] [] [] ∅ []).
  { split.
    - intros k h Hk. by rewrite lookup_empty in Hk.
    - constructor.
    - intros k. rewrite lookup_empty. split; [by intros [? ?]|]. intros Hk. by apply elem_of_nil in Hk.
    - done.
    - constructor.
    - intros i k Hi. done.
    - cbn. lia. }
  destruct (hfold_spec c1 r1 H n objs [] [] [] ∅ [] Hinv0) as (us&hs&mh&mk&E2&Hinv).
  { intros k Hk. apply elem_of_list_lookup in Hk as [i Hi].
    destruct (Forall2_lookup_r _ _ _ _ _ Hobjs Hi) as (u&_&Ho). by destruct Ho. }
  cbn [app hins length] in E2. rewrite Nat.add_0_r in E2.
  unfold hstep in E2. step E2. cbv beta iota.
  destruct Hinv as [Hmh Hnd Hmk Hled Hhs Hal Hall]. cbn [app] in *.
  destruct (memo_die mh (map_to_list c1) r1 (hins H n us) (n + length us)
              (ledger_add L (fresh_of objs)) HI1) as (r2&E3&HI2&G2&HC2).
  { by apply cvalid_list, (jcache_cvalid src). }
  { eapply Counts_ext; [|exact HC1]. unfold cvals. ladd. }
  step E3. exists (Ok hs), r2, (hins H n us), (n + length us).
  split; [done|]. split; [done|]. split; [by etrans|]. split; [|by eexists].
  exists us. split; [done|]. split; [done|]. split.
  { eapply Counts_ext; [|exact HC2]. intros m. rewrite Hled.
    rewrite (ledger_add_perm _ _ _ m (fmap_Permutation snd _ _ (memo_perm c1 mh mk Hnd Hmk))).
    ladd. }
  split; [|split].
  - apply Forall2_same_length_lookup_2.
    { rewrite (Forall2_length _ _ _ Hobjs). by apply Forall2_length in Hhs. }
    intros i u h Hu Hh.
    destruct (Forall2_lookup_l _ _ _ _ _ Hobjs Hu) as (o&Ho&Hok).
    destruct (Forall2_lookup_l _ _ _ _ _ Hhs Ho) as (h'&Hh'&j&->&Hj).
    assert (h = n + j) as -> by congruence.
    exists j, (onode c1 o). split; [done|]. split; [done|].
    apply (same_fun_grows src r1 r2); [done..|]. by apply (obj_same src r1 c1).
  - intros i j u Hi Hj Hu.
    destruct (Forall2_lookup_l _ _ _ _ _ Hobjs Hi) as (oi&Hoi&Hoki).
    destruct (Forall2_lookup_l _ _ _ _ _ Hobjs Hj) as (oj&Hoj&Hokj).
    destruct oi as [ki|xi]; [|destruct Hoki as [_ ?]; lia].
    destruct oj as [kj|xj]; [|destruct Hokj as [_ ?]; lia].
    destruct Hoki as [Ei _], Hokj as [Ej _]. assert (ki = kj) as -> by congruence.
    by rewrite (Hal i kj Hoi), (Hal j kj Hoj).
  - exact Hall.
Qed.

(** ** 7. The statements on autoref states *)
Theorem copy_bdds_from_correct src roots b L :
  Inv src → Forall (valid src) roots →
  Inv (mgr b) → last_len (mgr b) = None → max_nodes (mgr b) = None → Counts (mgr b) L →
  (∀ v, is_Some (vars src !! v) → is_Some (vars (mgr b) !! v)) →
  ∃ hs us b',
    copy_bdds_from src roots b = (Ok hs, b') ∧ length hs = length roots ∧
    (* the target *)
    Inv (mgr b') ∧ extends (mgr b) (mgr b') ∧ frame (mgr b) (mgr b') ∧
    (∀ u, valid (mgr b) u →
       valid (mgr b') u ∧ ∀ ρ, denv (mgr b') u ρ = denv (mgr b) u ρ) ∧
    (* the handles: [us] lists the nodes of the new ones *)
    next_hid b' = next_hid b + length us ∧
    (∀ h, h < next_hid b ∨ next_hid b' ≤ h → handles b' !! h = handles b !! h) ∧
    (∀ j u', us !! j = Some u' → handles b' !! (next_hid b + j) = Some u') ∧
    (∀ j, j < length us → next_hid b + j ∈ hs) ∧
    Forall2 (fun u h => ∃ u', next_hid b ≤ h < next_hid b' ∧
               handles b' !! h = Some u' ∧ same_fun src (mgr b') u u') roots hs ∧
    (∀ i j u, roots !! i = Some u → roots !! j = Some u → (1 < u)%Z → hs !! i = hs !! j) ∧
    (* the counts: one reference per new handle *)
    Counts (mgr b') (ledger_add L us).
Proof.
  intros HIs Hr HIb Hoff Hmx HC Hd. destruct b as [r0 H n]. cbn [mgr handles next_hid] in *.
  destruct (copy_bdds_from_spec src roots r0 H n L HIs HIb Hoff HC)
    as (res&r'&H'&n'&E&HI'&G'&Hres&Hok).
  destruct (Hok Hd Hmx Hr) as [hs ->].
  destruct Hres as (us&->&->&HC'&HF&Hal&Hall).
  exists hs, us, (ASt r' (hins H n us) (n + length us)). cbn [mgr handles next_hid].
  split; [done|]. split; [symmetry; by eapply Forall2_length|]. split; [done|].
  split; [apply G'|]. split; [apply G'|]. split.
  { intros u Hu. split; [by apply (grows_valid r0 r')|]. intros ρ. by apply grows_denv. }
  split; [done|]. split; [intros h Hh; by apply hins_old|].
  split; [intros j u' Hj; by apply hins_new|]. split; [done|]. split; [|by split].
  eapply Forall2_impl; [exact HF|]. intros u h (j&u'&->&Hj&Hs). exists u'.
  split; [apply lookup_lt_Some in Hj; lia|]. split; [by apply hins_new|done].
Qed.

Theorem copy_bdds_from_failure src roots b L e b' :
  Inv src → Inv (mgr b) → last_len (mgr b) = None → Counts (mgr b) L →
  copy_bdds_from src roots b = (Err e, b') →
  handles b' = handles b ∧ next_hid b' = next_hid b ∧
  Inv (mgr b') ∧ extends (mgr b) (mgr b') ∧ frame (mgr b) (mgr b') ∧
  Counts (mgr b') L ∧
  (∀ u, valid (mgr b) u →
     valid (mgr b') u ∧ ∀ ρ, denv (mgr b') u ρ = denv (mgr b) u ρ).
Proof.
  intros HIs HIb Hoff HC Hrun. destruct b as [r0 H n]. cbn [mgr handles next_hid] in *.
  destruct (copy_bdds_from_spec src roots r0 H n L HIs HIb Hoff HC)
    as (res&r'&H'&n'&E&HI'&G'&Hres&_).
  rewrite Hrun in E. injection E as <- ->. destruct Hres as (->&->&HC').
  cbn [mgr handles next_hid]. split; [done|]. split; [done|]. split; [done|].
  split; [apply G'|]. split; [apply G'|]. split; [done|].
  intros u Hu. split; [by apply (grows_valid r0 r')|]. intros ρ. by apply grows_denv.
Qed.
