(** * MddSem: denotation of MDD references over integer assignments, the
      invariant [MInv] of an MDD manager, extension, and the basic lemmas
      (transposition of [Sem.v] to n-ary nodes). *)
From DD Require Export Mdd Ite.

(** lookups in [msucc] at the type [mtuple] (not its unfolding), so that
    rewriting with hypotheses works *)
Notation mlk s n := ((msucc s !! n) : option mtuple) (only parsing).

(** ** Denotation.  [I] assigns an integer value to every (integer) level.
    The successor followed at a node of level [i] is number [I i]; values
    outside the range of the variable behave like value [0] (functions are
    only ever compared on in-range assignments, see [minrange]). *)
Definition msel (nodes : list Z) (k : nat) : Z := nth k nodes (hd 0%Z nodes).

Fixpoint mden (fuel : nat) (s : mst) (u : Z) (I : nat → nat) : bool :=
  match fuel with
  | O => false
  | S f =>
      let b := match mlk s (absn u) with
               | None => false
               | Some (i, nodes) =>
                   match nodes with
                   | [] => true
                   | _ :: _ => mden f s (msel nodes (I i)) I
                   end
               end in
      if decide (u < 0)%Z then negb b else b
  end.

Definition mnvars (s : mst) : nat := size (mvars s).
(** the denotation with enough fuel *)
Definition MD (s : mst) (u : Z) (I : nat → nat) : bool := mden (S (mnvars s)) s u I.
Global Arguments MD : simpl never.

Definition mvalid (s : mst) (u : Z) : Prop := u ≠ 0%Z ∧ is_Some (mlk s (absn u)).
Definition mlvl_of (s : mst) (u : Z) : nat :=
  match mlk s (absn u) with Some t => t.1 | None => 0 end.
(** the variable at level [i] takes [n] values *)
Definition mlen_at (s : mst) (i n : nat) : Prop := ∃ v, mvars s !! v = Some (i, n).
(** assignments that respect the ranges of the variables *)
Definition minrange (s : mst) (I : nat → nat) : Prop :=
  ∀ v l n, mvars s !! v = Some (l, n) → I l < n.

Definition all_eq (nodes : list Z) : Prop := ∀ x, x ∈ nodes → x = hd 0%Z nodes.

Record MInv (s : mst) : Prop := {
  minv_term : mlk s 1%positive = Some (mnvars s, []);
  minv_node : ∀ n i nodes, mlk s n = Some (i, nodes) → n ≠ 1%positive →
     i < mnvars s ∧ mlen_at s i (length nodes) ∧
     (∀ x, x ∈ nodes → mvalid s x ∧ i < mlvl_of s x) ∧
     (0 < hd 0%Z nodes)%Z ∧ ¬ all_eq nodes;
  minv_pred : ∀ n t, mpred s !! t = Some n ↔ (mlk s n = Some t ∧ n ≠ 1%positive);
  minv_ref : dom (mref s) = dom (msucc s);
  minv_free : ∀ k, k ∈ mfree s → mlk s k = None ∧ (k <= mmax s)%positive;
  minv_max : ∀ k, (mmax s < k)%positive → mlk s k = None;
  minv_ite : ∀ g u v w, mite s !! (g, u, v) = Some w →
     mvalid s g ∧ mvalid s u ∧ mvalid s v ∧ mvalid s w ∧
     mlvl_of s g `min` mlvl_of s u `min` mlvl_of s v ≤ mlvl_of s w ∧
     ∀ I, MD s w I = if MD s g I then MD s u I else MD s v I;
  minv_vars : ∀ v1 v2 l n1 n2, mvars s !! v1 = Some (l, n1) →
     mvars s !! v2 = Some (l, n2) → v1 = v2;
  minv_lvls : ∀ l, l < mnvars s → ∃ v n, mvars s !! v = Some (l, n);
}.

(** [s'] has at least the nodes of [s], and the same variables *)
Definition mextends (s s' : mst) : Prop :=
  msucc s ⊆ msucc s' ∧ mvars s = mvars s'.

Global Instance mextends_refl : Reflexive mextends.
Proof. by intros s. Qed.
Global Instance mextends_trans : Transitive mextends.
Proof. intros s1 s2 s3 (?&?) (?&?). split; [by etrans|congruence]. Qed.
Lemma mextends_nvars s s' : mextends s s' → mnvars s' = mnvars s.
Proof. intros (_&E). unfold mnvars. by rewrite E. Qed.

Definition iupd (I : nat → nat) (i k : nat) : nat → nat :=
  fun j => if decide (j = i) then k else I j.
Lemma iupd_other I i k j : j ≠ i → iupd I i k j = I j.
Proof. intros. unfold iupd. by rewrite decide_False. Qed.
Lemma iupd_same I i k : iupd I i k i = k.
Proof. unfold iupd. by rewrite decide_True. Qed.

(** ** Selection of a successor *)
Lemma msel_in nodes k : nodes ≠ [] → msel nodes k ∈ nodes.
Proof.
  intros Hn. unfold msel. destruct (decide (k < length nodes)) as [Hk|Hk].
  - apply elem_of_list_In, nth_In. done.
  - rewrite nth_overflow by lia. destruct nodes; [done|]. left.
Qed.
Lemma msel_lt nodes k d : k < length nodes → msel nodes k = nth k nodes d.
Proof. intros. unfold msel. by apply nth_indep. Qed.
Lemma msel_fmap (f : Z → Z) nodes k : f 0%Z = 0%Z → msel (f <$> nodes) k = f (msel nodes k).
Proof.
  intros Hf. unfold msel.
  assert (hd 0%Z (f <$> nodes) = f (hd 0%Z nodes)) as -> by (by destruct nodes).
  apply (map_nth f).
Qed.
Lemma msel_replicate n u k : 0 < n → msel (replicate n u) k = u.
Proof.
  intros Hn. unfold msel. destruct n as [|n]; [lia|]. cbn [replicate hd].
  change (u :: replicate n u) with (replicate (S n) u).
  rewrite nth_lookup. destruct (decide (k < S n)).
  - by rewrite lookup_replicate_2.
  - rewrite (proj1 (lookup_replicate_None (S n) u k)) by lia. done.
Qed.
Lemma all_eq_sel nodes : (∀ k, k < length nodes → msel nodes k = hd 0%Z nodes) → all_eq nodes.
Proof.
  intros H x Hx. apply elem_of_list_lookup in Hx as [k Hk].
  pose proof (lookup_lt_Some _ _ _ Hk) as Hlt.
  rewrite <- (H k Hlt). unfold msel. rewrite nth_lookup, Hk. done.
Qed.

Lemma mvalid_neg s u : mvalid s u → mvalid s (- u).
Proof. intros [? ?]. split; [lia|]. by rewrite absn_neg. Qed.
Lemma mlvl_neg s u : mlvl_of s (- u) = mlvl_of s u.
Proof. unfold mlvl_of. by rewrite absn_neg. Qed.
Lemma mvalid_extends s s' u : mextends s s' → mvalid s u → mvalid s' u.
Proof.
  intros (Hsub&_) [? [t Ht]]. split; [done|].
  exists t. by eapply lookup_weaken.
Qed.
Lemma mlvl_extends s s' u : mextends s s' → mvalid s u → mlvl_of s' u = mlvl_of s u.
Proof.
  intros (Hsub&_) [? [t Ht]]. unfold mlvl_of.
  by rewrite Ht, (lookup_weaken _ _ _ _ Ht Hsub).
Qed.
Lemma m_mem_valid s u : m_mem u s = true ↔ mvalid s u.
Proof. unfold m_mem, mvalid. by rewrite bool_decide_eq_true. Qed.
Lemma minrange_extends s s' I : mextends s s' → minrange s I → minrange s' I.
Proof. intros [_ E]. unfold minrange. by rewrite <- E. Qed.

Section msem.
Context (s : mst) (HI : MInv s).

Lemma mvalid_1 : mvalid s 1.
Proof. split; [done|]. rewrite absn_pos, (minv_term _ HI). by eexists. Qed.
Lemma mvalid_m1 : mvalid s (-1).
Proof. split; [done|]. rewrite absn_negp, (minv_term _ HI). by eexists. Qed.
Lemma mlvl_term u : absn u = 1%positive → mlvl_of s u = mnvars s.
Proof. intros E. unfold mlvl_of. by rewrite E, (minv_term _ HI). Qed.

Lemma mnode_cases u : mvalid s u →
  (absn u = 1%positive ∧ mlvl_of s u = mnvars s) ∨
  (∃ i nodes, mlk s (absn u) = Some (i, nodes) ∧ absn u ≠ 1%positive ∧
        nodes ≠ [] ∧ mlvl_of s u = i ∧ i < mnvars s ∧ mlen_at s i (length nodes) ∧
        (∀ x, x ∈ nodes → mvalid s x ∧ i < mlvl_of s x) ∧
        (0 < hd 0%Z nodes)%Z ∧ ¬ all_eq nodes).
Proof.
  intros [Hu [[i nodes] Ht]]. destruct (decide (absn u = 1%positive)) as [E|E].
  - left. split; [done|]. by apply mlvl_term.
  - right. exists i, nodes. destruct (minv_node _ HI _ _ _ Ht E) as (?&?&?&?&Hne).
    unfold mlvl_of at 1. rewrite Ht. split_and!; try done.
    intros ->. apply Hne. intros x Hx. by apply elem_of_nil in Hx.
Qed.

Lemma mlvl_le u : mvalid s u → mlvl_of s u ≤ mnvars s.
Proof.
  intros Hv. destruct (mnode_cases u Hv) as [[_ ?]|(i&nodes&?&?&?&?&?&_)]; lia.
Qed.

Lemma mden_step f u I i nodes : mlk s (absn u) = Some (i, nodes) → nodes ≠ [] →
  mden (S f) s u I = xorb (bool_decide (u < 0)%Z) (mden f s (msel nodes (I i)) I).
Proof.
  intros Ht Hne. cbn [mden]. rewrite Ht. destruct nodes as [|x nodes]; [done|].
  case_decide; case_bool_decide; try lia; by destruct (mden f s _ I).
Qed.

Lemma mden_term f u I : absn u = 1%positive →
  mden (S f) s u I = negb (bool_decide (u < 0)%Z).
Proof.
  intros E. cbn [mden]. rewrite E, (minv_term _ HI).
  case_decide; case_bool_decide; try lia; done.
Qed.

Definition mneed (u : Z) : nat := S (mnvars s - mlvl_of s u).

Lemma mden_fuel f1 f2 u I : mvalid s u → mneed u ≤ f1 → mneed u ≤ f2 →
  mden f1 s u I = mden f2 s u I.
Proof.
  revert f2 u. induction f1 as [|f1 IH]; intros f2 u Hv H1 H2;
    [unfold mneed in *; lia|].
  destruct f2 as [|f2]; [unfold mneed in *; lia|].
  destruct (mnode_cases u Hv) as [[E _]|(i&nodes&Ht&?&Hne&Hl&?&?&Hch&?&?)].
  - by rewrite !mden_term.
  - rewrite !(mden_step _ _ _ _ _ Ht Hne). f_equal.
    destruct (Hch (msel nodes (I i)) (msel_in _ _ Hne)) as [Hvx Hlx].
    unfold mneed in *. apply IH; try done; lia.
Qed.

Lemma MD_term u I : absn u = 1%positive → MD s u I = negb (bool_decide (u < 0)%Z).
Proof. apply mden_term. Qed.
Lemma MD_1 I : MD s 1 I = true.
Proof. by rewrite MD_term. Qed.
Lemma MD_m1 I : MD s (-1) I = false.
Proof. by rewrite MD_term. Qed.

Lemma MD_step u I i nodes : mvalid s u → mlk s (absn u) = Some (i, nodes) →
  absn u ≠ 1%positive →
  MD s u I = xorb (bool_decide (u < 0)%Z) (MD s (msel nodes (I i)) I).
Proof.
  intros Hv Ht Hn.
  destruct (mnode_cases u Hv) as [[E _]|(i'&nodes'&Ht'&?&Hne&Hl&?&?&Hch&?&?)]; [done|].
  rewrite Ht in Ht'. injection Ht' as <- <-.
  unfold MD. rewrite (mden_step _ _ _ _ _ Ht Hne). f_equal.
  destruct (Hch (msel nodes (I i)) (msel_in _ _ Hne)) as [Hvx Hlx].
  apply mden_fuel; try done; unfold mneed; lia.
Qed.

Lemma MD_neg u I : mvalid s u → MD s (- u) I = negb (MD s u I).
Proof.
  intros Hv. destruct (mnode_cases u Hv) as [[E _]|(i&nodes&Ht&?&Hne&?)].
  - rewrite !MD_term by (by rewrite ?absn_neg). destruct Hv.
    repeat case_bool_decide; try lia; done.
  - rewrite (MD_step (-u) I i nodes), (MD_step u I i nodes); try done;
      try (by rewrite absn_neg); [|by apply mvalid_neg].
    destruct Hv. repeat case_bool_decide; try lia;
      by destruct (MD s _ I).
Qed.

(** multiplication by the sign [r = ±1] used by [find_or_add] *)
Lemma MD_sign (σ : bool) x : mvalid s x →
  mvalid s ((if σ then -1 else 1) * x)%Z ∧
  mlvl_of s ((if σ then -1 else 1) * x)%Z = mlvl_of s x ∧
  ∀ I, MD s ((if σ then -1 else 1) * x)%Z I = xorb σ (MD s x I).
Proof.
  intros Hx. destruct σ.
  - replace (-1 * x)%Z with (- x)%Z by lia.
    split_and!; [by apply mvalid_neg|by rewrite mlvl_neg|].
    intros I. by rewrite MD_neg.
  - rewrite Z.mul_1_l. split_and!; try done. intros I. by destruct (MD s x I).
Qed.

Lemma MD_indep u I J : mvalid s u → (∀ j, mlvl_of s u ≤ j → I j = J j) →
  MD s u I = MD s u J.
Proof.
  remember (mnvars s - mlvl_of s u) as k eqn:Hk. revert u Hk.
  induction (lt_wf k) as [k _ IH]. intros u Hk Hv Hab.
  destruct (mnode_cases u Hv) as [[E _]|(i&nodes&Ht&?&Hne&Hl&?&?&Hch&?&?)].
  - by rewrite !MD_term.
  - rewrite (MD_step u I i nodes), (MD_step u J i nodes) by done. f_equal.
    rewrite <- (Hab i) by lia.
    destruct (Hch (msel nodes (I i)) (msel_in _ _ Hne)) as [Hvx Hlx].
    eapply (IH (mnvars s - mlvl_of s (msel nodes (I i)))); try done; [lia|].
    intros; apply Hab; lia.
Qed.

(** only the levels of declared variables matter *)
Lemma MD_indep_lt u I J : mvalid s u → (∀ j, j < mnvars s → I j = J j) →
  MD s u I = MD s u J.
Proof.
  remember (mnvars s - mlvl_of s u) as k eqn:Hk. revert u Hk.
  induction (lt_wf k) as [k _ IH]. intros u Hk Hv Hab.
  destruct (mnode_cases u Hv) as [[E _]|(i&nodes&Ht&?&Hne&Hl&?&?&Hch&?&?)].
  - by rewrite !MD_term.
  - rewrite (MD_step u I i nodes), (MD_step u J i nodes) by done. f_equal.
    rewrite <- (Hab i) by lia.
    destruct (Hch (msel nodes (I i)) (msel_in _ _ Hne)) as [Hvx Hlx].
    eapply (IH (mnvars s - mlvl_of s (msel nodes (I i)))); try done. lia.
Qed.

Lemma MD_upd_above u I i k : mvalid s u → i < mlvl_of s u →
  MD s u (iupd I i k) = MD s u I.
Proof. intros. apply MD_indep; [done|]. intros. apply iupd_other. lia. Qed.

(** values outside the range of a variable behave like the value [0] *)
Definition iclamp (I : nat → nat) : nat → nat :=
  fun l => match list_find (fun '(_, (l', _)) => bool_decide (l' = l))
                           (map_to_list (mvars s)) with
           | Some (_, (_, (_, n))) => if decide (I l < n) then I l else 0
           | None => I l
           end.

Lemma msel_overflow nodes k : length nodes ≤ k → msel nodes k = msel nodes 0.
Proof.
  intros Hk. unfold msel. rewrite nth_overflow by done. by destruct nodes.
Qed.

Lemma MD_clamp u I : mvalid s u → MD s u (iclamp I) = MD s u I.
Proof.
  remember (mnvars s - mlvl_of s u) as k eqn:Hk. revert u Hk.
  induction (lt_wf k) as [k _ IH]. intros u Hk Hv.
  destruct (mnode_cases u Hv) as [[E _]|(i&nodes&Ht&?&Hne&Hl&?&Hlen&Hch&?&?)].
  - by rewrite !MD_term.
  - rewrite (MD_step u (iclamp I) i nodes), (MD_step u I i nodes) by done. f_equal.
    assert (Hsel : msel nodes (iclamp I i) = msel nodes (I i)).
    { unfold iclamp. destruct (list_find _ _) as [[? [v [l n]]]|] eqn:Hf; [|done].
      apply list_find_Some in Hf as (Hf&Hb&_). apply bool_decide_unpack in Hb. subst l.
      apply elem_of_list_lookup_2, elem_of_map_to_list in Hf.
      destruct Hlen as [v' Hv'].
      pose proof (minv_vars _ HI _ _ _ _ _ Hf Hv') as ->. rewrite Hf in Hv'.
      injection Hv' as ->. case_decide; [done|]. symmetry. apply msel_overflow. lia. }
    rewrite Hsel.
    destruct (Hch (msel nodes (I i)) (msel_in _ _ Hne)) as [Hvx Hlx].
    eapply (IH (mnvars s - mlvl_of s (msel nodes (I i)))); try done. lia.
Qed.

End msem.

(** denotations are stable when the manager grows *)
Lemma mden_extends f s s' u I :
  mextends s s' → MInv s → mvalid s u → mden f s' u I = mden f s u I.
Proof.
  intros [Hsub Hn] HI. revert u. induction f as [|f IH]; intros u Hv; [done|].
  cbn [mden]. pose proof Hv as [Hu0 [[i nodes] Ht]]. rewrite Ht.
  rewrite (lookup_weaken _ _ _ _ Ht Hsub).
  destruct nodes as [|x nodes]; [done|].
  assert (absn u ≠ 1%positive) as Hn1.
  { intros E. rewrite E in Ht. rewrite (minv_term _ HI) in Ht. by simplify_eq. }
  destruct (minv_node _ HI _ _ _ Ht Hn1) as (? & ? & Hch & _).
  assert (Hne : x :: nodes ≠ []) by done.
  destruct (Hch (msel (x :: nodes) (I i)) (msel_in _ _ Hne)) as [Hvx _].
  rewrite IH by done. done.
Qed.

Lemma MD_extends s s' u I :
  mextends s s' → MInv s → mvalid s u → MD s' u I = MD s u I.
Proof.
  intros He HI Hv. unfold MD. rewrite (mextends_nvars _ _ He).
  by apply mden_extends.
Qed.

(** ** Only the tables matter *)
Lemma mden_same f s s' u I : msucc s' = msucc s → mden f s' u I = mden f s u I.
Proof.
  intros E. revert u. induction f as [|f IH]; intros u; [done|].
  cbn [mden]. rewrite E. destruct (msucc s !! absn u) as [[i [|x nodes]]|]; [done| |done].
  by rewrite !IH.
Qed.
Lemma MD_same s s' u I : msucc s' = msucc s → mvars s' = mvars s → MD s' u I = MD s u I.
Proof. intros E1 E2. unfold MD, mnvars. rewrite E2. by apply mden_same. Qed.

Lemma MInv_same s s' :
  msucc s' = msucc s → mpred s' = mpred s → dom (mref s') = dom (mref s) →
  (mmax s <= mmax s')%positive → mite s' = mite s → mvars s' = mvars s →
  mfree s' ⊆ mfree s →
  MInv s → MInv s'.
Proof.
  intros E1 E2 E3 E4 E5 E6 E7 HI.
  assert (Hnv : mnvars s' = mnvars s) by (unfold mnvars; by rewrite E6).
  assert (Hval : ∀ u, mvalid s' u ↔ mvalid s u) by (intros; unfold mvalid; by rewrite E1).
  assert (Hlvl : ∀ u, mlvl_of s' u = mlvl_of s u) by (intros; unfold mlvl_of; by rewrite E1).
  split.
  - rewrite E1, Hnv. apply HI.
  - intros n i nodes Hn Hn1. rewrite E1 in Hn. rewrite Hnv.
    destruct (minv_node _ HI _ _ _ Hn Hn1) as (?&?&Hch&?&?).
    split_and!; try done.
    + unfold mlen_at. by rewrite E6.
    + intros x Hx. rewrite Hval, Hlvl. by apply Hch.
  - intros n t. rewrite E1, E2. apply HI.
  - rewrite E1, E3. apply HI.
  - intros k Hk. rewrite E1. destruct (minv_free _ HI k (E7 k Hk)). split; [done|lia].
  - intros k Hk. rewrite E1. apply (minv_max _ HI). lia.
  - intros g u v w Hi. rewrite E5 in Hi. rewrite !Hval.
    destruct (minv_ite _ HI _ _ _ _ Hi) as (?&?&?&?&?&HD). rewrite !Hlvl. split_and!; try done.
    intros I. rewrite !(MD_same s s') by done. apply HD.
  - intros v1 v2 l n1 n2. rewrite E6. apply HI.
  - intros l. rewrite Hnv, E6. apply HI.
Qed.

(** ** The manager right after [MDD(dvars)] *)
Definition dvars_ok (dvars : list (nat * (nat * nat))) : Prop :=
  NoDup (dvars.*1) ∧
  (∀ v1 v2 l n1 n2, (v1, (l, n1)) ∈ dvars → (v2, (l, n2)) ∈ dvars → v1 = v2) ∧
  (∀ l, l < length dvars → ∃ v n, (v, (l, n)) ∈ dvars).

Lemma mdd_init_MInv dvars : dvars_ok dvars → MInv (mdd_init dvars).
Proof.
  intros (Hnd&Hinj&Hex).
  assert (Hsz : mnvars (mdd_init dvars) = length dvars).
  { unfold mnvars, mdd_init. cbn.
    rewrite <- size_dom, dom_list_to_map_L, size_list_to_set by done.
    by rewrite fmap_length. }
  assert (Hlk : ∀ v x, mvars (mdd_init dvars) !! v = Some x ↔ (v, x) ∈ dvars).
  { intros v x. cbn. symmetry. by apply elem_of_list_to_map. }
  split.
  - cbn. rewrite lookup_singleton. by rewrite <- Hsz.
  - intros n i nodes Hn Hn1. cbn in Hn. by rewrite lookup_singleton_ne in Hn.
  - intros n t. cbn. rewrite lookup_empty. split; [done|].
    intros [Hn Hn1]. by rewrite lookup_singleton_ne in Hn.
  - cbn. by rewrite !dom_singleton_L.
  - intros k Hk. cbn in Hk. by apply elem_of_empty in Hk.
  - intros k Hk. cbn in *. apply lookup_singleton_ne. lia.
  - intros g u v w Hi. cbn in Hi. by rewrite lookup_empty in Hi.
  - intros v1 v2 l n1 n2. rewrite !Hlk. apply Hinj.
  - intros l. rewrite Hsz. intros Hl. destruct (Hex l Hl) as (v&n&Hin).
    exists v, n. by apply Hlk.
Qed.
