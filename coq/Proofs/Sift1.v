(** * Sift1: one adjacent swap as a step; [shift_loop] and [_shift] *)
From DD Require Export Sift0.

(** ** vocabulary *)
Definition held (L : positive → nat) (u : Z) : Prop :=
  u ≠ 0%Z ∧ (absn u = 1%positive ∨ 0 < L (absn u)).
(** held references stay valid and keep their function by variable name *)
Definition keepsH (L : positive → nat) (s s' : st) : Prop :=
  ∀ u, held L u → valid s u ∧ valid s' u ∧ ∀ ρ, denv s' u ρ = denv s u ρ.
(** the levels of the variables are permuted by [π] *)
Definition vperm (π : nat → nat) (s s' : st) : Prop :=
  ∀ v l, vars s !! v = Some l → vars s' !! v = Some (π l).
Definition Gd (L : positive → nat) (s : st) : Prop :=
  Inv s ∧ Counts s L ∧ last_len s = None.
Definition Stp (L : positive → nat) (s s' : st) : Prop :=
  Gd L s' ∧ nvars s' = nvars s ∧ keepsH L s s' ∧ (nozero s → nozero s').

Lemma held_valid L s u : Inv s → Counts s L → held L u → valid s u.
Proof.
  intros HI [_ HC2] [Hu0 Hu]. split; [done|].
  destruct Hu as [->|Hu]; [rewrite (inv_term _ HI); eauto|].
  destruct (decide (absn u ∈ dom (succ s))) as [Hd|Hd]; [by apply elem_of_dom|].
  rewrite (HC2 _ Hd) in Hu. lia.
Qed.

Lemma Stp_refl L s : Gd L s → Stp L s s.
Proof.
  intros (HI&HC&Hll). split; [done|]. split; [done|]. split; [|done].
  intros u Hu. pose proof (held_valid L s u HI HC Hu). done.
Qed.
Lemma Stp_trans L s1 s2 s3 : Stp L s1 s2 → Stp L s2 s3 → Stp L s1 s3.
Proof.
  intros (_&Hn1&Hk1&Hz1) (HG&Hn2&Hk2&Hz2). split; [done|]. split; [congruence|].
  split; [|auto]. intros u Hu. destruct (Hk1 u Hu) as (?&?&HD1), (Hk2 u Hu) as (?&?&HD2).
  split_and!; try done. intros ρ. by rewrite HD2, HD1.
Qed.
Lemma vperm_comp π1 π2 s1 s2 s3 :
  vperm π1 s1 s2 → vperm π2 s2 s3 → vperm (fun l => π2 (π1 l)) s1 s3.
Proof. intros H1 H2 v l Hv. by apply H2, H1. Qed.
Lemma vperm_ext π π' s s' : Inv s →
  (∀ l, l < nvars s → π l = π' l) → vperm π s s' → vperm π' s s'.
Proof.
  intros HI He H v l Hv. rewrite <- He; [by apply H|].
  apply (inv_lvls _ HI). exists v. by apply (inv_vars _ HI).
Qed.
Lemma vperm_id s : vperm (fun l => l) s s.
Proof. by intros v l Hv. Qed.

(** the permuted map, exactly *)
Lemma vperm_fmap π s s' : vperm π s s' → nvars s' = nvars s → vars s' = π <$> vars s.
Proof.
  intros Hp Hn. symmetry.
  assert (Hsub : π <$> vars s ⊆ vars s').
  { apply map_subseteq_spec. intros v l Hv. rewrite lookup_fmap in Hv.
    destruct (vars s !! v) as [l0|] eqn:E; [|done]. injection Hv as <-. by apply Hp. }
  apply map_eq. intros v. destruct ((π <$> vars s) !! v) as [l|] eqn:E.
  { symmetry. by apply (lookup_weaken _ _ _ _ E Hsub). }
  destruct (vars s' !! v) as [l'|] eqn:E'; [exfalso|done].
  assert (dom (π <$> vars s) ⊂ dom (vars s')) as Hss.
  { split; [by apply subseteq_dom|]. intros Hc.
    assert (v ∈ dom (π <$> vars s)) as Hv by (apply Hc, elem_of_dom; eauto).
    apply elem_of_dom in Hv as [? Hv]. congruence. }
  apply subset_size in Hss. rewrite !size_dom, map_size_fmap in Hss.
  unfold nvars in Hn. lia.
Qed.

(** ** one adjacent swap *)
Definition tp (i j l : nat) : nat :=
  if decide (l = i) then j else if decide (l = j) then i else l.

Lemma swap_adj L s al i j r s' :
  Gd L s → levels_ok s al → j = i + 1 ∨ i = j + 1 → i < nvars s → j < nvars s →
  swap i j (Some al) s = (r, s') →
  r = Err EOracle ∨
  (r = Err ERuntime ∧ s' = s ∧ is_Some (max_nodes s)) ∨
  ∃ al', r = Ok ((len s, len s'), al') ∧ Stp L s s' ∧ levels_ok s' al' ∧
         vperm (tp i j) s s'.
Proof.
  intros (HI&HC&Hll) Hal Hij Hi Hj Hrun.
  assert (Hgen : ∀ x, x + 1 < nvars s → swap x (x + 1) (Some al) s = (r, s') →
            r = Err EOracle ∨
            (r = Err ERuntime ∧ s' = s ∧ is_Some (max_nodes s)) ∨
            ∃ al', r = Ok ((len s, len s'), al') ∧ Stp L s s' ∧ levels_ok s' al' ∧
                   vperm (tp x (x + 1)) s s').
  { intros x Hx Hrun'.
    destruct (swap_correct s x al L r s' HI HC Hll Hx Hal Hrun')
      as [->|[?|(oldn&newn&al'&->&HI'&HC'&Hal'&->&->&Hv&HD&Hkeep&_&Hll')]];
      [by left|by right; left|right; right].
    exists al'. split; [done|]. split; [|split; [done|]].
    - split; [done|]. split; [by apply (swap_nvars s x al L (Ok (len s, len s', al')) s')|]. split.
      + intros u Hu. pose proof (held_valid L s u HI HC Hu) as Hvu.
        assert (valid s' u) as Hvu'.
        { destruct Hu as [Hu0 Hu]. split; [done|]. by apply elem_of_dom, Hkeep. }
        split_and!; try done. by apply HD.
      + by apply (swap_nozero s x al L (Ok (len s, len s', al')) s').
    - intros v l Hvl. rewrite (Hv v l Hvl). unfold tp. done. }
  destruct Hij as [->| ->].
  - by apply Hgen.
  - rewrite swap_sym in Hrun by lia.
    destruct (Hgen j ltac:(lia) Hrun) as [?|[?|(al'&?&?&?&Hp)]]; [by left|by right; left|right; right].
    exists al'. split_and!; try done.
    intros v l Hv. rewrite (Hp v l Hv). f_equal. unfold tp. repeat case_decide; lia.
Qed.

(** ** [sizes] *)
Lemma sizes_set_in k v l p w : (p, w) ∈ sizes_set k v l → (p, w) = (k, v) ∨ (p, w) ∈ l.
Proof.
  unfold sizes_set. case_decide as Hk.
  - intros H. apply elem_of_list_fmap in H as ([k' v']&E&Hin).
    case_decide; simplify_eq; auto.
  - intros H. apply elem_of_app in H as [H|H]; [by right|]. apply elem_of_list_singleton in H. by left.
Qed.
Lemma sizes_set_keys k v l p : p ∈ l.*1 → p ∈ (sizes_set k v l).*1.
Proof.
  unfold sizes_set. case_decide as Hk.
  - intros H. apply elem_of_list_fmap in H as ([k' v']&->&Hin). apply elem_of_list_fmap.
    exists (if decide (k' = k) then (k', v) else (k', v')). split; [by case_decide|].
    apply elem_of_list_fmap. by exists (k', v').
  - intros H. rewrite fmap_app. apply elem_of_app. by left.
Qed.
Lemma sizes_set_key k v l : k ∈ (sizes_set k v l).*1.
Proof.
  unfold sizes_set. case_decide as Hk.
  - apply elem_of_list_fmap in Hk as ([k' v']&->&Hin). apply elem_of_list_fmap.
    exists (k', v). split; [done|]. apply elem_of_list_fmap. exists (k', v').
    split; [|done]. cbn. by rewrite decide_True.
  - rewrite fmap_app. apply elem_of_app. right. cbn. left.
Qed.

(** ** moving the variable at level [a] to level [b] *)
Definition mv (a b l : nat) : nat :=
  if decide (l = a) then b
  else if decide (a < l ∧ l ≤ b) then l - 1
  else if decide (b ≤ l ∧ l < a) then l + 1 else l.
Lemma mv_id a l : mv a a l = l.
Proof. unfold mv. repeat case_decide; lia. Qed.
Lemma mv_down a i l : a ≤ i → tp i (i + 1) (mv a i l) = mv a (i + 1) l.
Proof. intros. unfold tp, mv. repeat case_decide; lia. Qed.
Lemma mv_up a i l : i ≤ a → 0 < i → tp i (i - 1) (mv a i l) = mv a (i - 1) l.
Proof. intros. unfold tp, mv. repeat case_decide; lia. Qed.

Definition between (a e p : nat) : Prop := (a ≤ p ∧ p ≤ e) ∨ (e ≤ p ∧ p ≤ a).

(** [v] is the size of a state in which the moved variable sits at level [p] *)
Definition Visited (L : positive → nat) (s0 : st) (a p v : nat) : Prop :=
  ∃ sp, Stp L s0 sp ∧ vperm (mv a p) s0 sp ∧ v = len sp.

Lemma shift_loop_spec L s0 a (down : bool) : Inv s0 → ∀ n i al sizes s r s',
  Stp L s0 s → levels_ok s al → vperm (mv a i) s0 s →
  (if down then a ≤ i ∧ i + n < nvars s0 else i ≤ a ∧ n ≤ i ∧ i < nvars s0) →
  (∀ p v, (p, v) ∈ sizes → Visited L s0 a p v) →
  shift_loop n i down al sizes s = (r, s') →
  r = Err EOracle ∨ r = Err ERuntime ∨
  ∃ sizes' al', r = Ok (sizes', al') ∧ Stp L s0 s' ∧ levels_ok s' al' ∧
    vperm (mv a (if down then i + n else i - n)) s0 s' ∧
    (∀ p v, (p, v) ∈ sizes' → Visited L s0 a p v) ∧
    (∀ p, p ∈ sizes.*1 → p ∈ sizes'.*1) ∧
    (0 < n → ∀ p, between i (if down then i + n else i - n) p → p ∈ sizes'.*1) ∧
    (n = 0 → sizes' = sizes).
Proof.
  intros HI0. induction n as [|n IH]; intros i al sizes s r s' HS Hal Hp Hb Hsz.
  - cbn [shift_loop]. intros [= <- <-]. right. right. exists sizes, al.
    replace (if down then i + 0 else i - 0) with i by (destruct down; lia).
    split_and!; try done. lia.
  - cbn [shift_loop]. set (j := if down then i + 1 else i - 1).
    pose proof HS as (HG&Hnv&HK&HZ).
    assert (Hij : j = i + 1 ∨ i = j + 1) by (subst j; destruct down; lia).
    destruct (swap i j (Some al) s) as [r1 s1] eqn:Esw.
    destruct (swap_adj L s al i j r1 s1 HG Hal Hij ltac:(destruct down; lia)
                ltac:(subst j; destruct down; lia) Esw)
      as [->|[(->&_)|(al1&->&HS1&Hal1&Hp1)]].
    { rewrite (bind_err _ _ _ _ _ Esw). intros [= <- <-]. by left. }
    { rewrite (bind_err _ _ _ _ _ Esw). intros [= <- <-]. by right; left. }
    rewrite (bind_ok _ _ _ _ _ Esw). cbv beta iota.
    assert (HS01 : Stp L s0 s1) by (by apply (Stp_trans L s0 s s1)).
    assert (Hp01 : vperm (mv a j) s0 s1).
    { apply (vperm_ext (fun l => tp i j (mv a i l))); [done| |by apply (vperm_comp _ _ s0 s s1)].
      intros l _. subst j. destruct down; [apply mv_down|apply mv_up]; lia. }
    intros Hrun.
    assert (Hsz1 : ∀ p v, (p, v) ∈ sizes_set j (len s1) (sizes_set i (len s) sizes) →
              Visited L s0 a p v).
    { intros p v Hin. apply sizes_set_in in Hin as [[= -> ->]|Hin].
      - by exists s1.
      - apply sizes_set_in in Hin as [[= -> ->]|Hin]; [|by apply Hsz].
        exists s. done. }
    destruct (IH j al1 _ s1 r s' HS01 Hal1 Hp01 ltac:(subst j; destruct down; lia)
                Hsz1 Hrun) as [->|[->|(sizes'&al'&->&HS'&Hal'&Hp'&Hv'&Hk'&Hb'&_)]].
    { by left. }
    { by right; left. }
    right. right. exists sizes', al'.
    replace (if down then i + S n else i - S n) with (if down then j + n else j - n)
      by (subst j; destruct down; lia).
    split_and!; try done.
    + intros p Hin. by apply Hk', sizes_set_keys, sizes_set_keys.
    + intros _ p Hbt.
      destruct (decide (p = i)) as [->|Hpi].
      { apply Hk', sizes_set_keys, sizes_set_key. }
      destruct (decide (p = j)) as [->|Hpj].
      { apply Hk', sizes_set_key. }
      apply Hb'; [|subst j; unfold between in *; destruct down; lia].
      destruct n; [|lia]. exfalso. subst j. unfold between in Hbt. destruct down; lia.
Qed.

Theorem shift_spec L s a e al r s' :
  Gd L s → levels_ok s al → a < nvars s → e < nvars s →
  shift a e al s = (r, s') →
  r = Err EOracle ∨ r = Err ERuntime ∨
  ∃ sizes al', r = Ok (sizes, al') ∧ Stp L s s' ∧ levels_ok s' al' ∧
    vperm (mv a e) s s' ∧
    (∀ p v, (p, v) ∈ sizes → Visited L s a p v) ∧
    (a ≠ e → ∀ p, between a e p → p ∈ sizes.*1) ∧
    (a = e → sizes = []).
Proof.
  intros HG Hal Ha He. unfold shift. cbn [bind get]. unfold assert.
  rewrite !bool_decide_eq_true_2 by done. cbn [bind ret].
  pose proof HG as (HI&_).
  assert (Hp0 : vperm (mv a a) s s).
  { apply (vperm_ext (fun l => l)); [done|intros; by rewrite mv_id|apply vperm_id]. }
  assert (Hnil : ∀ p v, (p, v) ∈ ([] : list (nat * nat)) → Visited L s a p v).
  { intros p v H. by apply elem_of_nil in H. }
  case_decide as Hlt; intros Hrun.
  - destruct (shift_loop_spec L s a true HI (e - a) a al [] s r s' (Stp_refl L s HG) Hal Hp0
                ltac:(cbv iota; lia) Hnil Hrun) as [->|[->|(sz&al'&->&?&?&Hp&?&_&Hb&_)]];
      [by left|by right; left|right; right].
    exists sz, al'. replace (a + (e - a)) with e in * by lia.
    split_and!; try done; [|lia]. intros _. apply Hb. lia.
  - destruct (shift_loop_spec L s a false HI (a - e) a al [] s r s' (Stp_refl L s HG) Hal Hp0
                ltac:(cbv iota; lia) Hnil Hrun) as [->|[->|(sz&al'&->&?&?&Hp&?&_&Hb&Hn)]];
      [by left|by right; left|right; right].
    exists sz, al'. replace (a - (a - e)) with e in * by lia.
    split_and!; try done.
    + intros Hne. apply Hb. lia.
    + intros ->. apply Hn. lia.
Qed.
