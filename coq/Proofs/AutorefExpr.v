(** * AutorefExpr: [add_expr] / [to_expr] of a [dd.autoref] manager (C05,
      second manager kind).

    [autoref.BDD.add_expr(e)] is "parse and evaluate on the wrapped [dd.bdd]
    manager, then wrap the integer result in a new [Function]";
    [autoref.BDD.to_expr(u)] is "check membership, unwrap, call the [dd.bdd]
    method" ([Driver4.astep_expr], [Driver4.astep_to_expr]).  They are not
    operations of the alphabet [aop] of [Driver3]; here they get the theorems
    of that alphabet ([AInv] kept, every live handle kept with its function,
    counters exact) and the meaning theorems of [ExprSem].

    1. [add_expr] on a [dd.bdd] manager is SAFE for arbitrary input:
       [Proofs/AddExprTotal.v] ([tsafe_add_expr], [add_expr_total],
       [add_expr_syntax_error], [dsafe_add_expr]).
    2. the wrapper: any spellings, either outcome ([astep_expr_any]: the
       outcome may be the [RuntimeError] of a full table, [max_nodes]);
       spellings of an accepted tree, unbounded table ([astep_expr_sem],
       hypothesis [max_nodes (mgr a) = None]).
    3. [to_expr] of a live handle is read-only and its text, added again,
       gives a new handle on the same node ([astep_to_expr_live]; the
       second half concludes success of [add_expr], hence
       [max_nodes (mgr a) = None]; the read-only half alone is
       [a_to_expr_live]). *)
From stdpp Require Import strings.
From DD Require Export AutorefInv2 AddExprTotal Driver4.
Local Open Scope string_scope.

(** ** 2. The wrapper methods, as computations on one wrapper state *)
Definition a_add_expr (sp : list string) : MA value :=
  u <- lift (add_expr_ sp) ;; h <- wrap u ;; ret (VN h).
Definition a_to_expr (h : nat) : MA value :=
  u <- node_of h ;; check_in u ;;; e <- lift (to_expr u) ;; ret (VS e).

Lemma astep_expr_spec w m sp :
  ∃ r a1, a_add_expr sp (aworld_get w m) = (r, a1) ∧ snd (astep_expr w m sp) = r ∧
    aworld_get (fst (astep_expr w m sp)) m = a1 <| mgr := (mgr a1) <| tape := [] |> |> ∧
    ∀ m', m' ≠ m → aworld_get (fst (astep_expr w m sp)) m' = aworld_get w m'.
Proof.
  unfold astep_expr, aworld_get. fold (a_add_expr sp).
  destruct (a_add_expr sp (default empty_ast (w !! m))) as [r a1].
  exists r, a1. split; [done|]. split; [done|]. cbn [fst]. unfold aworld. split.
  - by rewrite lookup_insert.
  - intros m' Hm. by rewrite lookup_insert_ne.
Qed.

Lemma astep_to_expr_spec w m h :
  ∃ r a1, a_to_expr h (aworld_get w m) = (r, a1) ∧ snd (astep_to_expr w m h) = r ∧
    aworld_get (fst (astep_to_expr w m h)) m = a1 ∧
    ∀ m', m' ≠ m → aworld_get (fst (astep_to_expr w m h)) m' = aworld_get w m'.
Proof.
  unfold astep_to_expr, aworld_get. fold (a_to_expr h).
  destruct (a_to_expr h (default empty_ast (w !! m))) as [r a1].
  exists r, a1. split; [done|]. split; [done|]. cbn [fst]. unfold aworld. split.
  - by rewrite lookup_insert.
  - intros m' Hm. by rewrite lookup_insert_ne.
Qed.

(** one run of [add_expr] on the wrapper: the three outcomes *)
Lemma a_add_expr_run sp a r a' : AInv a → a_add_expr sp a = (r, a') →
  ∃ ru s1, add_expr_ sp (mgr a) = (ru, s1) ∧ safe (mgr a) s1 ∧ last_len s1 = None ∧
    ru ≠ Err ENeedsReordering ∧ AStep a a' ∧
    ((∃ u, ru = Ok u ∧ valid s1 u ∧ r = Ok (VN (next_hid a)) ∧
        handles a !! next_hid a = None ∧
        a' = a <| mgr := bump u s1 |> <| handles ::= <[next_hid a := u]> |>
               <| next_hid := S (next_hid a) |>) ∨
     (∃ u, ru = Ok u ∧ ¬ valid s1 u ∧ r = Err EValue ∧ a' = a <| mgr := s1 |>) ∨
     (∃ e, ru = Err e ∧ r = Err e ∧ a' = a <| mgr := s1 |>)).
Proof.
  intros HA Hrun. pose proof HA as (HI&Hl&HC&Hv&Hf). unfold a_add_expr in Hrun.
  destruct (add_expr_ sp (mgr a)) as [ru s1] eqn:E.
  exists ru, s1.
  assert (El : lift (add_expr_ sp) a = (ru, a <| mgr := s1 |>)).
  { unfold lift. by rewrite E. }
  pose proof (tsafe_add_expr _ _ _ sp (mgr a) ru s1 HI Hl E) as Hs.
  destruct (nrf_add_expr _ _ _ sp (mgr a) ru s1 Hl E) as [Hl1 Hnr].
  pose proof (AStep_safe a s1 HA Hs) as S1.
  pose proof (AStep_AInv _ _ S1) as HA1.
  split; [done|]. split; [done|]. split; [done|]. split; [done|]. revert Hrun.
  destruct ru as [u|e]; cycle 1.
  { rewrite (bind_err _ _ _ _ _ El). intros [= <- <-]. split; [done|].
    right. right. by exists e. }
  rewrite (bind_ok _ _ _ _ _ El).
  destruct (wrap u (a <| mgr := s1 |>)) as [rw a2] eqn:Ew.
  destruct (wrap_spec u _ rw a2 HA1 Ew) as [(Hu&->&->&S2)|(Hnu&->&->)].
  - rewrite (bind_ok _ _ _ _ _ Ew). intros [= <- <-].
    split; [by apply (AStep_trans a (a <| mgr := s1 |>))|]. left. exists u.
    split; [done|]. split; [done|]. split; [done|]. split; [|done].
    destruct (handles a !! next_hid a) as [x|] eqn:Ex; [|done]. specialize (Hf _ _ Ex). lia.
  - rewrite (bind_err _ _ _ _ _ Ew). intros [= <- <-]. split; [done|].
    right. left. by exists u.
Qed.

(** the ledger after one more handle on [u] *)
Lemma hledger_new a u k : handles a !! next_hid a = None →
  hl (<[next_hid a := u]> (handles a)) k =
  hledger a k + (if decide (k = absn u) then 1 else 0).
Proof.
  intros Hn. rewrite hl_insert by done. unfold ledger_inc, hledger.
  case_decide; lia.
Qed.

Lemma AStep_AKeepAll a a' : AInv a → AStep a a' → AKeepAll a a'.
Proof.
  intros HA HS h u Hu. destruct (AStep_keep a a' HA HS h u Hu) as (?&?&_&?). done.
Qed.

Lemma AKeepAll_tape a a' t : AKeepAll a a' →
  AKeepAll a (a' <| mgr := (mgr a') <| tape := t |> |>).
Proof.
  intros Hk h u Hu. destruct (Hk h u Hu) as (?&Hv&HD).
  split; [done|]. split; [exact Hv|]. intros ρ. rewrite <- HD. by apply denv_same.
Qed.

Lemma AKeepAll_AKeep o a a' : AKeepAll a a' → AKeep o a a'.
Proof. intros Hk h u Hu. left. by apply Hk. Qed.

(** ** 3. [add_expr]: any spellings, either outcome *)
Theorem astep_expr_any w m sp :
  let a := aworld_get w m in
  let w' := fst (astep_expr w m sp) in
  let a' := aworld_get w' m in
  AInv a →
  AInv a' ∧ AKeepAll a a' ∧ extends (mgr a) (mgr a') ∧
  (∀ m', m' ≠ m → aworld_get w' m' = aworld_get w m') ∧
  match snd (astep_expr w m sp) with
  | Ok v =>
      ∃ u, v = VN (next_hid a) ∧ handles a !! next_hid a = None ∧
        handles a' = <[next_hid a := u]> (handles a) ∧
        next_hid a' = S (next_hid a) ∧ valid (mgr a') u ∧
        ∀ k, hledger a' k = hledger a k + (if decide (k = absn u) then 1 else 0)
  | Err e =>
      e ≠ ENeedsReordering ∧ handles a' = handles a ∧ next_hid a' = next_hid a
  end.
Proof.
  intros a w' a' HA. destruct (astep_expr_spec w m sp) as (r&a1&E&Er&Ea&Eo).
  fold a in E. fold w' in Ea, Eo. fold a' in Ea. rewrite Er. clear Er.
  destruct (a_add_expr_run sp a r a1 HA E) as (ru&s1&Eu&Hs&Hl1&Hnr&HS&Hcase).
  pose proof (AStep_AInv _ _ HS) as HA1.
  split; [rewrite Ea; by apply AInv_tape|].
  split; [rewrite Ea; by apply AKeepAll_tape, AStep_AKeepAll|].
  split; [rewrite Ea; apply HS|]. split; [done|].
  destruct Hcase as [(u&->&Hu&->&Hfr&->)|[(u&->&Hnu&->&->)|(e&->&->&->)]].
  - exists u. split; [done|]. split; [done|]. rewrite Ea. cbn.
    split; [done|]. split; [done|]. split.
    + destruct Hu as [? ?]. by split.
    + intros k. exact (hledger_new a u k Hfr).
  - by rewrite Ea.
  - rewrite Ea. split; [|done]. congruence.
Qed.

(** ** 4. [add_expr] on the spellings of an accepted tree *)
Theorem astep_expr_sem w m sp ts (t : Parser.ast) :
  let a := aworld_get w m in
  let w' := fst (astep_expr w m sp) in
  let a' := aworld_get w' m in
  AInv a → max_nodes (mgr a) = None →
  lex sp = Some ts → parse code_prec ts = Some t → ok_ast (mgr a) t →
  ∃ u, snd (astep_expr w m sp) = Ok (VN (next_hid a)) ∧
    handles a !! next_hid a = None ∧
    handles a' = <[next_hid a := u]> (handles a) ∧
    next_hid a' = S (next_hid a) ∧
    valid (mgr a') u ∧ (∀ ρ, denv (mgr a') u ρ = asem (mgr a) t ρ) ∧
    AInv a' ∧ AKeepAll a a' ∧ extends (mgr a) (mgr a') ∧
    (∀ k, hledger a' k = hledger a k + (if decide (k = absn u) then 1 else 0)) ∧
    (∀ m', m' ≠ m → aworld_get w' m' = aworld_get w m').
Proof.
  intros a w' a' HA Hmx Hlex Hparse Hok.
  destruct (astep_expr_any w m sp HA) as (HA'&Hk&He&Ho&Hout).
  fold a in Hk, He, Hout. fold w' in HA', Hk, He, Ho, Hout. fold a' in HA', Hk, He, Hout.
  destruct (astep_expr_spec w m sp) as (r&a1&E&Er&Ea&_).
  fold a in E. fold w' in Ea. fold a' in Ea. rewrite Er in *. clear Er.
  destruct (a_add_expr_run sp a r a1 HA E) as (ru&s1&Eu&Hs&Hl1&Hnr&HS&Hcase).
  pose proof HA as (HI&Hl&_).
  destruct (add_expr_sem _ _ _ _ _ t (mgr a) ru s1 HI Hl Hmx Hlex Hparse Hok Eu)
    as (u&->&HI1&_&_&_&Hu&HD).
  destruct Hcase as [(u'&[= <-]&_&->&Hfr&Ea1)|[(u'&[= <-]&Hnu&_)|(e&[=]&_)]]; [|done].
  destruct Hout as (u2&_&_&Hh&Hn&Hv2&HL).
  assert (u2 = u) as ->.
  { rewrite Ea, Ea1 in Hh. cbn in Hh.
    assert (Hlk : <[next_hid a := u]> (handles a) !! next_hid a =
                  <[next_hid a := u2]> (handles a) !! next_hid a) by (by rewrite Hh).
    rewrite !lookup_insert in Hlk. by injection Hlk. }
  exists u. split; [done|]. split; [done|]. split; [done|]. split; [done|].
  split; [done|]. split; [|done].
  intros ρ. rewrite <- HD. rewrite Ea, Ea1. by apply denv_same.
Qed.

(** ** 5. [to_expr] *)

(** the tree of a reference (ExprSem): accepted, same function, text of
    [to_expr], lexemes, tokens, splitter *)
Lemma to_expr_tree s u : Inv s → valid s u →
  ∃ t : Parser.ast, to_expr u s = (Ok (expr_text t), s) ∧ ok_ast s t ∧
    (∀ ρ, asem s t ρ = denv s u ρ) ∧
    lex (te_spellings t) = Some (te_tokens t) ∧
    parse code_prec (te_tokens t) = Some t ∧
    split_formula (expr_text t) = te_spellings t.
Proof.
  intros HI Hu.
  destruct (to_expr_ast_spec (S (S (nvars s))) s u HI Hu) as (t&Et&Hok&Hsem); [lia|].
  pose proof (to_expr_rec_text (S (S (nvars s))) u s) as Ht. rewrite Et in Ht.
  destruct Ht as [Hshape Ht].
  exists t. split.
  { unfold to_expr. cbn [bind get]. unfold ensure. rewrite (proj2 (mem_valid s u) Hu).
    by rewrite (bind_ok _ _ s tt s) by done. }
  split; [done|]. split; [done|]. split; [by apply lex_te|].
  split; [by apply parse_te_tokens, te_shape_wf|by apply split_formula_te].
Qed.

Lemma a_to_expr_live h u a : AInv a → handles a !! h = Some u →
  ∃ t : Parser.ast, a_to_expr h a = (Ok (VS (expr_text t)), a) ∧ ok_ast (mgr a) t ∧
    (∀ ρ, asem (mgr a) t ρ = denv (mgr a) u ρ) ∧
    lex (te_spellings t) = Some (te_tokens t) ∧
    parse code_prec (te_tokens t) = Some t ∧
    split_formula (expr_text t) = te_spellings t.
Proof.
  intros (HI&Hl&HC&Hv&Hf) Hu. pose proof (Hv h u Hu) as Hvu.
  destruct (to_expr_tree (mgr a) u HI Hvu) as (t&Et&Hok&Hsem&Hlex&Hparse&Hsplit).
  exists t. split; [|done]. unfold a_to_expr.
  rewrite node_of_bind, Hu. rewrite (check_in_bind u _ a Hvu).
  assert (El : lift (to_expr u) a = (Ok (expr_text t), a)).
  { unfold lift. rewrite Et. by destruct a. }
  by rewrite (bind_ok _ _ _ _ _ El).
Qed.

Lemma a_to_expr_dead h a : handles a !! h = None → a_to_expr h a = (Err EKey, a).
Proof. intros Hu. unfold a_to_expr. by rewrite node_of_bind, Hu. Qed.

(** a live handle: the text, the manager unchanged, and the round trip:
    in ANY world whose manager [m] is this wrapper state (in particular the
    world after the call), [add_expr] of the lexemes of the text gives a NEW
    handle on the SAME node *)
Theorem astep_to_expr_live w m h u :
  let a := aworld_get w m in
  let w' := fst (astep_to_expr w m h) in
  AInv a → handles a !! h = Some u →
  ∃ t : Parser.ast,
    snd (astep_to_expr w m h) = Ok (VS (expr_text t)) ∧
    aworld_get w' m = a ∧
    (∀ m', m' ≠ m → aworld_get w' m' = aworld_get w m') ∧
    ok_ast (mgr a) t ∧ (∀ ρ, asem (mgr a) t ρ = denv (mgr a) u ρ) ∧
    lex (te_spellings t) = Some (te_tokens t) ∧
    parse code_prec (te_tokens t) = Some t ∧
    split_formula (expr_text t) = te_spellings t ∧
    ∀ w1, max_nodes (mgr a) = None → aworld_get w1 m = a →
      let a2 := aworld_get (fst (astep_expr w1 m (te_spellings t))) m in
      snd (astep_expr w1 m (te_spellings t)) = Ok (VN (next_hid a)) ∧
      handles a !! next_hid a = None ∧
      handles a2 = <[next_hid a := u]> (handles a) ∧
      next_hid a2 = S (next_hid a) ∧
      AInv a2 ∧ AKeepAll a a2 ∧ extends (mgr a) (mgr a2) ∧
      (∀ ρ, denv (mgr a2) u ρ = denv (mgr a) u ρ) ∧
      (∀ k, hledger a2 k = hledger a k + (if decide (k = absn u) then 1 else 0)).
Proof.
  intros a w' HA Hu.
  destruct (a_to_expr_live h u a HA Hu) as (t&Et&Hok&Hsem&Hlex&Hparse&Hsplit).
  destruct (astep_to_expr_spec w m h) as (r&a1&E&Er&Ea&Eo).
  fold a in E. fold w' in Ea, Eo. rewrite Et in E. injection E as <- <-.
  exists t. split; [done|]. split; [done|]. split; [done|]. split; [done|].
  split; [done|]. split; [done|]. split; [done|]. split; [done|].
  intros w1 Hmx Ew1 a2.
  assert (HA1 : AInv (aworld_get w1 m)) by (by rewrite Ew1).
  assert (Hok1 : ok_ast (mgr (aworld_get w1 m)) t) by (by rewrite Ew1).
  assert (Hmx1 : max_nodes (mgr (aworld_get w1 m)) = None) by (by rewrite Ew1).
  destruct (astep_expr_sem w1 m (te_spellings t) (te_tokens t) t HA1 Hmx1 Hlex Hparse Hok1)
    as (x&Hr&Hfr&Hh&Hn&Hx&HD&HA2&Hk&He&HL&_).
  rewrite Ew1 in Hr, Hfr, Hh, Hn, HD, Hk, He, HL. fold a2 in Hh, Hn, Hx, HD, HA2, Hk, He, HL.
  destruct (Hk h u Hu) as (_&Hu2&HDu).
  assert (x = u) as ->.
  { apply (canonical_names (mgr a2)); [apply HA2|done|done|].
    intros ρ. by rewrite HD, HDu, Hsem. }
  done.
Qed.

(** a dead or unknown handle is refused; nothing changes *)
Theorem astep_to_expr_dead w m h :
  let a := aworld_get w m in
  let w' := fst (astep_to_expr w m h) in
  handles a !! h = None →
  snd (astep_to_expr w m h) = Err EKey ∧ aworld_get w' m = a ∧
  ∀ m', m' ≠ m → aworld_get w' m' = aworld_get w m'.
Proof.
  intros a w' Hu. destruct (astep_to_expr_spec w m h) as (r&a1&E&Er&Ea&Eo).
  fold a in E. fold w' in Ea, Eo. rewrite (a_to_expr_dead h a Hu) in E.
  injection E as <- <-. done.
Qed.

(** the same on the text itself, split into lexemes by [split_formula] *)
Theorem astep_to_expr_text w m h u :
  let a := aworld_get w m in
  let w' := fst (astep_to_expr w m h) in
  AInv a → handles a !! h = Some u →
  ∃ txt, snd (astep_to_expr w m h) = Ok (VS txt) ∧ aworld_get w' m = a ∧
    (max_nodes (mgr a) = None →
    let a2 := aworld_get (fst (astep_expr w' m (split_formula txt))) m in
    snd (astep_expr w' m (split_formula txt)) = Ok (VN (next_hid a)) ∧
    handles a !! next_hid a = None ∧
    handles a2 = <[next_hid a := u]> (handles a) ∧
    next_hid a ≠ h ∧ handles a2 !! h = Some u ∧ handles a2 !! next_hid a = Some u ∧
    AInv a2 ∧ AKeepAll a a2).
Proof.
  intros a w' HA Hu.
  destruct (astep_to_expr_live w m h u HA Hu) as (t&Hr&Ea&_&_&_&_&_&Hsplit&Hrt).
  fold a in Ea, Hrt. fold w' in Ea. exists (expr_text t). split; [done|]. split; [done|].
  intros Hmx.
  rewrite Hsplit. destruct (Hrt w' Hmx Ea) as (?&Hfr&Hh&_&?&?&_).
  assert (Hne : next_hid a ≠ h) by (intros E; rewrite E in Hfr; congruence).
  split; [done|]. split; [done|]. split; [done|]. split; [done|].
  split; [by rewrite Hh, lookup_insert_ne|]. split; [by rewrite Hh, lookup_insert|]. done.
Qed.

(** ** 6. Syntax errors: nothing but the oracle tape of the model changes *)
Theorem astep_expr_syntax_error w m sp :
  let a := aworld_get w m in
  let w' := fst (astep_expr w m sp) in
  syntax_error lex_alias reserved_words code_prec sp →
  snd (astep_expr w m sp) = Err EValue ∧
  aworld_get w' m = a <| mgr := (mgr a) <| tape := [] |> |> ∧
  ∀ m', m' ≠ m → aworld_get w' m' = aworld_get w m'.
Proof.
  intros a w' Hse. destruct (astep_expr_spec w m sp) as (r&a1&E&Er&Ea&Eo).
  fold a in E. fold w' in Ea, Eo. rewrite Er, Ea. clear Er Ea.
  assert (El : lift (add_expr_ sp) a = (Err EValue, a)).
  { unfold lift, add_expr_. rewrite (add_expr_syntax_error _ _ _ sp (mgr a) Hse). by destruct a. }
  unfold a_add_expr in E. rewrite (bind_err _ _ _ _ _ El) in E. injection E as <- <-. done.
Qed.

(** ** 7. Dynamic reordering possibly ENABLED (the invariant [AInvDT] of
    [AutorefInv2]): any spellings, either outcome *)

(** what [wrap] / [add_expr] do to the handle table, whatever the state *)
Lemma wrap_handles u a r a' : wrap u a = (r, a') →
  (∃ e, r = Err e ∧ handles a' = handles a ∧ next_hid a' = next_hid a) ∨
  (r = Ok (next_hid a) ∧ handles a' = <[next_hid a := u]> (handles a) ∧
   next_hid a' = S (next_hid a)).
Proof.
  unfold wrap. cbn [bind get].
  destruct (mem u (mgr a)); cbn [ensure bind ret raise]; [|intros [= <- <-]; left; eauto].
  unfold bind at 1, lift.
  destruct (incref u (mgr a)) as [[[]|e] s1]; cbn [bind modify ret]; intros [= <- <-];
    [right|left]; eauto.
Qed.

Lemma wrap_last_len u a r a' : last_len (mgr a) = None → wrap u a = (r, a') →
  last_len (mgr a') = None.
Proof.
  intros Hl. unfold wrap. cbn [bind get].
  destruct (mem u (mgr a)); cbn [ensure bind ret raise]; [|by intros [= _ <-]].
  unfold bind at 1, lift.
  destruct (incref u (mgr a)) as [ri s2] eqn:Ei.
  destruct (nrf_incref u (mgr a) ri s2 Hl Ei) as [Hl2 _].
  destruct ri as [[]|e]; cbn [bind modify ret]; by intros [= _ <-].
Qed.

Lemma a_add_expr_handles sp a r a' : a_add_expr sp a = (r, a') →
  (∃ e, r = Err e ∧ handles a' = handles a ∧ next_hid a' = next_hid a) ∨
  (∃ u, r = Ok (VN (next_hid a)) ∧ handles a' = <[next_hid a := u]> (handles a) ∧
        next_hid a' = S (next_hid a)).
Proof.
  unfold a_add_expr, bind at 1, lift. destruct (add_expr_ sp (mgr a)) as [[u|e] s1];
    [|intros [= <- <-]; left; eauto].
  unfold bind. destruct (wrap u (a <| mgr := s1 |>)) as [rw a2] eqn:Ew.
  destruct (wrap_handles u _ rw a2 Ew) as [(e&->&Hh&Hn)|(->&Hh&Hn)]; intros [= <- <-].
  - left. eauto.
  - right. exists u. eauto.
Qed.

Lemma adsafe_a_add_expr sp : adsafe (a_add_expr sp).
Proof.
  unfold a_add_expr. apply adsafe_bind; [apply adsafe_lift, dsafe_add_expr|intros u].
  apply adsafe_bind; [apply adsafe_wrap|intros h; apply adsafe_ret].
Qed.

Theorem astep_expr_anyD w m sp :
  let a := aworld_get w m in
  let w' := fst (astep_expr w m sp) in
  let a' := aworld_get w' m in
  AInvDT a →
  AInvDT a' ∧ AKeepAll a a' ∧
  snd (astep_expr w m sp) ≠ Err ENeedsReordering ∧ snd (astep_expr w m sp) ≠ Err EOracle ∧
  (last_len (mgr a) = None → last_len (mgr a') = None) ∧
  (∀ m', m' ≠ m → aworld_get w' m' = aworld_get w m') ∧
  match snd (astep_expr w m sp) with
  | Ok v => ∃ u, v = VN (next_hid a) ∧ handles a' = <[next_hid a := u]> (handles a) ∧
                 next_hid a' = S (next_hid a)
  | Err e => handles a' = handles a ∧ next_hid a' = next_hid a
  end.
Proof.
  intros a w' a' HA. destruct (astep_expr_spec w m sp) as (r&a1&E&Er&Ea&Eo).
  fold a in E. fold w' in Ea, Eo. fold a' in Ea. rewrite Er. clear Er.
  destruct (adsafe_a_add_expr sp a r a1 HA E) as (((HA1&Ht1)&Hk&_)&Hnr&Hno).
  split.
  { rewrite Ea. destruct (AInvD_same a1 ((mgr a1) <| tape := [] |>) HA1) as [? _];
      [by repeat split|done|apply HA1|]. by split. }
  split; [rewrite Ea; by apply AKeepAll_tape|]. split; [done|]. split; [done|].
  split.
  { intros Hl. rewrite Ea. cbn.
    clear Hk. revert E. unfold a_add_expr, bind at 1, lift.
    destruct (add_expr_ sp (mgr a)) as [ru s1] eqn:Eu.
    destruct (nrf_add_expr _ _ _ sp (mgr a) ru s1 Hl Eu) as [Hl1 _].
    destruct ru as [u|e]; [|by intros [= _ <-]].
    unfold bind. destruct (wrap u (a <| mgr := s1 |>)) as [rw a2] eqn:Ew.
    pose proof (wrap_last_len u (a <| mgr := s1 |>) rw a2 Hl1 Ew) as Hl2.
    destruct rw; by intros [= _ <-]. }
  split; [done|].
  destruct (a_add_expr_handles sp a r a1 E) as [(e&->&?&?)|(u&->&?&?)]; rewrite Ea; cbn.
  - done.
  - by exists u.
Qed.

(** ** 8. The counters after one more handle, spelled out *)
Lemma counts_after_new a a' u : AInv a' →
  (∀ k, hledger a' k = hledger a k + (if decide (k = absn u) then 1 else 0)) →
  ∀ n, n ∈ dom (succ (mgr a')) →
    refc (mgr a') !! n =
    Some (indeg (succ (mgr a')) n + hledger a n + (if decide (n = absn u) then 1 else 0)).
Proof.
  intros (_&_&[H1 _]&_) HL n Hn. rewrite (H1 n Hn), HL. f_equal. lia.
Qed.
