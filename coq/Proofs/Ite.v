(** * Ite: [_ite] computes if-then-else (C01) *)
From DD Require Export FindOrAdd.

Lemma bind_ok {S A B} (m : M S A) (f : A → M S B) s a s1 :
  m s = (Ok a, s1) → bind m f s = f a s1.
Proof. unfold bind. by intros ->. Qed.
Lemma bind_err {S A B} (m : M S A) (f : A → M S B) s e s1 :
  m s = (Err e, s1) → bind m f s = (Err e, s1).
Proof. unfold bind. by intros ->. Qed.

Lemma getsuccZ_ok s u t : u ≠ 0%Z → succ s !! absn u = Some t →
  getsuccZ u s = (Ok t, s).
Proof. intros Hu Ht. unfold getsuccZ, getsucc. rewrite decide_False by done. by rewrite Ht. Qed.

Lemma level_of_ok s u : valid s u → level_of u s = (Ok (lvl_of s u), s).
Proof.
  intros [Hu [t Ht]]. unfold level_of.
  rewrite (bind_ok _ _ _ _ _ (getsuccZ_ok s u t Hu Ht)).
  unfold lvl_of. by rewrite Ht.
Qed.

(** [_top_cofactor] *)
Lemma top_cofactor_ok s u z : Inv s → valid s u → z ≤ lvl_of s u →
  ∃ u0 u1, top_cofactor u z s = (Ok (u0, u1), s) ∧
    valid s u0 ∧ valid s u1 ∧
    (z < lvl_of s u0 ∨ lvl_of s u0 = nvars s) ∧
    (z < lvl_of s u1 ∨ lvl_of s u1 = nvars s) ∧
    lvl_of s u ≤ lvl_of s u0 ∧ lvl_of s u ≤ lvl_of s u1 ∧
    ∀ a, D s u a = if a z then D s u1 a else D s u0 a.
Proof.
  intros HI Hv Hz. unfold top_cofactor.
  destruct (node_cases s HI u Hv) as [[E El]|(t&Ht&Hn1&Hlo&Hl&Hln&Hvl&Hvh&Hhp&Hll&Hlh&Hne)].
  - rewrite decide_True by (split; [done|apply Hv]).
    exists u, u. split_and!; try done; try (by right); try lia. intros a. by destruct (a z).
  - rewrite decide_False by (intros [? ?]; done).
    rewrite (bind_ok _ _ _ _ _ (getsuccZ_ok s u t (proj1 Hv) Ht)).
    unfold is_term, assert. rewrite bool_decide_eq_false_2 by done. cbn [negb].
    rewrite (bind_ok _ _ s tt s) by done.
    destruct (decide (z < t_lvl t)) as [Hlt|Hge].
    + exists u, u. split_and!; try done; try lia. intros a.
      by destruct (a z).
    + assert (t_lvl t = z) as Ez by lia.
      rewrite bool_decide_eq_true_2 by done.
      rewrite (bind_ok _ _ s tt s) by done.
      destruct (decide (u < 0)%Z) as [Hneg|Hpos].
      * exists (- t_lo t)%Z, (- t_hi t)%Z. rewrite !lvl_neg.
        split_and!; try done; try (by apply valid_neg); try lia.
        intros a. rewrite (D_step s HI u a t Hv Ht Hn1), !D_neg by done.
        rewrite bool_decide_eq_true_2 by done. rewrite Ez. by destruct (a z).
      * exists (t_lo t), (t_hi t). split_and!; try done; try lia.
        intros a. rewrite (D_step s HI u a t Hv Ht Hn1).
        rewrite bool_decide_eq_false_2 by done. rewrite Ez, xorb_false_l. done.
Qed.

Lemma Inv_ite_insert s g u v w :
  Inv s → valid s g → valid s u → valid s v → valid s w →
  lvl_of s g `min` lvl_of s u `min` lvl_of s v ≤ lvl_of s w →
  (∀ a, D s w a = if D s g a then D s u a else D s v a) →
  Inv (s <| ite_tab ::= <[(g, u, v) := w]> |>).
Proof.
  intros HI Hg Hu Hv Hw Hl HD.
  set (s' := s <| ite_tab ::= <[(g, u, v) := w]> |>).
  assert (Hval : ∀ x, valid s' x ↔ valid s x) by done.
  assert (Hlvl : ∀ x, lvl_of s' x = lvl_of s x) by done.
  assert (HDs : ∀ x a, D s' x a = D s x a) by (intros; by apply D_same).
  split; [apply HI|apply HI|apply HI|apply HI|apply HI| |apply HI|apply HI].
  intros g' u' v' w' Hi. cbn in Hi.
  rewrite !Hval, !Hlvl.
  destruct (decide ((g', u', v') = (g, u, v))) as [E|Hne].
  - rewrite E, lookup_insert in Hi. simplify_eq. split_and!; try done.
    intros a. rewrite !HDs. apply HD.
  - rewrite lookup_insert_ne in Hi by done.
    destruct (inv_ite _ HI _ _ _ _ Hi) as (?&?&?&?&?&HD'). split_and!; try done.
    intros a. rewrite !HDs. apply HD'.
Qed.

Definition minlvl3 (s : st) (g u v : Z) : nat :=
  lvl_of s g `min` lvl_of s u `min` lvl_of s v.

Lemma min3_le a b c : a `min` b `min` c ≤ a ∧ a `min` b `min` c ≤ b ∧ a `min` b `min` c ≤ c.
Proof. lia. Qed.
Lemma min3_above z n a b c :
  (z < a ∨ a = n) → (z < b ∨ b = n) → (z < c ∨ c = n) → a ≤ n → b ≤ n → c ≤ n → z < n →
  z < a `min` b `min` c ∧ n - (a `min` b `min` c) < n - z.
Proof. lia. Qed.
Lemma min3_glb m a b c : m ≤ a → m ≤ b → m ≤ c → m ≤ a `min` b `min` c.
Proof. lia. Qed.

Theorem ite_rec_spec fuel : ∀ s g u v r s',
  Inv s → valid s g → valid s u → valid s v →
  nvars s - minlvl3 s g u v < fuel →
  ite_rec fuel g u v s = (r, s') →
  Inv s' ∧ extends s s' ∧ frame s s' ∧
  match r with
  | Ok w => valid s' w ∧ minlvl3 s g u v ≤ lvl_of s' w ∧
            ∀ a, D s' w a = if D s g a then D s u a else D s v a
  | Err e => benign s e
  end.
Proof.
  induction fuel as [|f IH]; intros s g u v r s' HI Hg Hu Hv Hfuel; [lia|].
  cbn [ite_rec].
  destruct (decide (g = 1%Z)) as [->|Hgn1].
  { intros [= <- <-]. split; [done|split; [reflexivity|split; [reflexivity|]]].
    split_and!; [done|apply min3_le|intros a; by rewrite D_1]. }
  destruct (decide (g = (-1)%Z)) as [->|Hgnm1].
  { intros [= <- <-]. split; [done|split; [reflexivity|split; [reflexivity|]]].
    split_and!; [done|apply min3_le|intros a; by rewrite D_m1]. }
  cbn [bind get].
  destruct (ite_tab s !! (g, u, v)) as [w|] eqn:Hc.
  { intros [= <- <-]. destruct (inv_ite _ HI _ _ _ _ Hc) as (?&?&?&?&?&?).
    split; [done|split; [reflexivity|split; [reflexivity|]]]. by split_and!. }
  rewrite (bind_ok _ _ _ _ _ (level_of_ok s g Hg)).
  rewrite (bind_ok _ _ _ _ _ (level_of_ok s u Hu)).
  rewrite (bind_ok _ _ _ _ _ (level_of_ok s v Hv)).
  fold (minlvl3 s g u v). set (z := minlvl3 s g u v) in *.
  destruct (min3_le (lvl_of s g) (lvl_of s u) (lvl_of s v)) as (Hzg&Hzu&Hzv).
  fold (minlvl3 s g u v) in Hzg, Hzu, Hzv. fold z in Hzg, Hzu, Hzv.
  assert (Hzn : z < nvars s).
  { destruct (node_cases s HI g Hg) as [[E _]|(t&?&?&?&Hl&?&_)]; [|lia].
    destruct (absn_1 g E (proj1 Hg)); done. }
  destruct (top_cofactor_ok s g z HI Hg Hzg) as (g0&g1&Eg&Hg0&Hg1&Lg0&Lg1&_&_&Dg).
  destruct (top_cofactor_ok s u z HI Hu Hzu) as (u0&u1&Eu&Hu0&Hu1&Lu0&Lu1&_&_&Du).
  destruct (top_cofactor_ok s v z HI Hv Hzv) as (v0&v1&Ev&Hv0&Hv1&Lv0&Lv1&_&_&Dv).
  rewrite (bind_ok _ _ _ _ _ Eg), (bind_ok _ _ _ _ _ Eu), (bind_ok _ _ _ _ _ Ev).
  destruct (min3_above z (nvars s) _ _ _ Lg0 Lu0 Lv0 (lvl_le s HI g0 Hg0)
              (lvl_le s HI u0 Hu0) (lvl_le s HI v0 Hv0) Hzn) as [Hm0 Hm0'].
  destruct (min3_above z (nvars s) _ _ _ Lg1 Lu1 Lv1 (lvl_le s HI g1 Hg1)
              (lvl_le s HI u1 Hu1) (lvl_le s HI v1 Hv1) Hzn) as [Hm1 Hm1'].
  fold (minlvl3 s g0 u0 v0) in Hm0, Hm0'. fold (minlvl3 s g1 u1 v1) in Hm1, Hm1'.
  clear Lg0 Lu0 Lv0 Lg1 Lu1 Lv1 Hzg Hzu Hzv.
  (* first recursive call *)
  destruct (ite_rec f g0 u0 v0 s) as [rp s1] eqn:Ep.
  pose proof Ep as Ep'.
  apply IH in Ep' as (HI1&He1&Hf1&Hp); [|done|done|done|done|lia].
  destruct rp as [p|e]; cycle 1.
  { rewrite (bind_err _ _ _ _ _ Ep). intros [= <- <-].
    by split_and!. }
  rewrite (bind_ok _ _ _ _ _ Ep).
  destruct Hp as (Hpv&Hpl&HpD).
  (* second recursive call, in the extended manager *)
  destruct (ite_rec f g1 u1 v1 s1) as [rq s2] eqn:Eq.
  assert (Hnv1 : nvars s1 = nvars s) by (by apply extends_nvars).
  assert (Em1 : minlvl3 s1 g1 u1 v1 = minlvl3 s g1 u1 v1).
  { unfold minlvl3. by rewrite !(lvl_extends s s1). }
  pose proof Eq as Eq'.
  apply IH in Eq' as (HI2&He2&Hf2&Hq);
    [|done|by apply (valid_extends s s1)|by apply (valid_extends s s1)
     |by apply (valid_extends s s1)|rewrite Hnv1, Em1; lia].
  destruct rq as [q|e]; cycle 1.
  { rewrite (bind_err _ _ _ _ _ Eq). intros [= <- <-].
    split_and!; [done|by etrans|by etrans|]. by apply (benign_frame s s1). }
  rewrite (bind_ok _ _ _ _ _ Eq).
  destruct Hq as (Hqv&Hql&HqD). rewrite Em1 in Hql.
  assert (He02 : extends s s2) by (by etrans).
  (* the node *)
  destruct (find_or_add z p q s2) as [rw s3] eqn:Ew.
  assert (Hpv2 : valid s2 p) by (by apply (valid_extends s1 s2)).
  assert (Hpl2 : z < lvl_of s2 p) by (rewrite (lvl_extends s1 s2) by done; lia).
  assert (Hql2 : z < lvl_of s2 q) by lia.
  pose proof Ew as Ew'.
  apply find_or_add_spec in Ew' as (HI3&He3&Hf3&Hw); [|done..].
  destruct rw as [w|e]; cycle 1.
  { rewrite (bind_err _ _ _ _ _ Ew). intros [= <- <-].
    destruct Hw as (Hw&_). split_and!; [done|by etrans|by do 2 etrans|].
    apply (benign_frame s s1); [done|]. by apply (benign_frame s1 s2). }
  rewrite (bind_ok _ _ _ _ _ Ew).
  destruct Hw as (Hwv&Hwl&HwD).
  cbn [bind modify ret]. intros [= <- <-].
  assert (He03 : extends s s3) by (by etrans).
  assert (HDw : ∀ a, D s3 w a = if D s g a then D s u a else D s v a).
  { intros a. rewrite HwD. rewrite (D_extends s1 s2 p) by done.
    rewrite HpD, HqD. rewrite !(D_extends s s1) by done.
    rewrite (Dg a), (Du a), (Dv a). by destruct (a z). }
  split_and!.
  - apply Inv_ite_insert; [done|by apply (valid_extends s s3)..|done| |].
    + rewrite !(lvl_extends s s3) by done. fold (minlvl3 s g u v). fold z. done.
    + intros a. rewrite (D_extends s s3 g), (D_extends s s3 u), (D_extends s s3 v) by done.
      apply HDw.
  - done.
  - destruct Hf1 as (?&?&?&?&?), Hf2 as (?&?&?&?&?), Hf3 as (?&?&?&?&?).
    split_and!; cbn; congruence.
  - done.
  - done.
  - intros a. rewrite <- HDw. by apply D_same.
Qed.
