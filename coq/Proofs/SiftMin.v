(** * SiftMin: [_reorder_var] moves the variable to a position of MINIMAL
      size.

    [Sift6.reorder_var_spec] proves that the two assertions of [_reorder_var]
    hold and that the table does not grow.  Here the missing part of the
    claim: the final table is no larger than the table with the variable at
    ANY level [p < n] (the other variables in the same relative order), and
    every such position was really visited by the sweep.

    "The size with the variable at level [p]" is well defined: two states
    reached from [s] by steps that keep the held functions ([Stp]) and that
    realise the same level permutation have the same number of nodes
    ([size_same_perm], from size canonicity [size_determined]; the swaps
    collect their own garbage, so no state on the way holds an unreferenced
    node: [nozero]).  Sizes are [len s = size (succ s)]. *)
From DD Require Export Sift6.

(** what the sweep records is what any other way of putting the variable at
    level [p] would give *)
Lemma visited_size L s lv p v sp :
  Gd L s → nozero s → Visited L s lv p v → Stp L s sp → vperm (mv lv p) s sp →
  v = len sp.
Proof.
  intros HG Hz (sq&HSq&Hpq&->) HSp Hpp.
  by apply (size_same_perm L s sq sp (mv lv p) (mv lv p) HSq HSp Hz (proj1 HG) Hpq Hpp).
Qed.

Theorem reorder_var_min L s var al r s' :
  Gd L s → nozero s → levels_ok s al → is_Some (vars s !! var) →
  reorder_var var al s = (r, s') →
  r = Err EOracle ∨ r = Err ERuntime ∨
  ∃ k al' lv, r = Ok (k, al') ∧ vars s !! var = Some lv ∧
    Stp L s s' ∧ levels_ok s' al' ∧ vperm (mv lv k) s s' ∧ k < nvars s ∧
    (* every level was visited, and the final table is no larger than the
       table observed there *)
    (∀ p, p < nvars s → ∃ v, Visited L s lv p v ∧ len s' ≤ v) ∧
    (* ... nor than any table with the variable at level [p] *)
    (∀ p sp, p < nvars s → Stp L s sp → vperm (mv lv p) s sp → len s' ≤ len sp).
Proof.
  intros HG Hz Hal [lv Hlv]. pose proof HG as (HI&HC&Hll).
  assert (Hlvn : lv < nvars s) by (apply (inv_lvls _ HI); exists var; by apply (inv_vars _ HI)).
  unfold reorder_var. cbn [bind get]. rewrite Hlv.
  rewrite bool_decide_eq_true_2 by eauto. cbn [ensure]. rewrite (bind_ok _ _ s tt s) by done.
  unfold assert. rewrite bool_decide_eq_true_2 by lia. rewrite (bind_ok _ _ s tt s) by done.
  rewrite (bind_ok _ _ _ _ _ (level_of_var_ok s var lv Hlv)).
  set (n := nvars s - 1).
  assert (Hgen : ∀ start end_, start ≤ n → end_ ≤ n → (∀ p, p ≤ n → between start end_ p) →
    (start = end_ → n = 0) →
    bind (shift lv start al)
      (λ '(_, al0),
         bind (shift start end_ al0)
           (λ '(sizes, al1),
              if decide (sizes = [])
              then ret (lv, al1)
              else
               bind (of_opt EValue (argmin sizes))
                 (λ '(k, mk),
                    bind (shift end_ k al1)
                      (λ '(_, al2),
                         bind get
                           (λ s'0 : st,
                              bind
                                (if bool_decide (mk = len s'0)
                                 then ret ()
                                 else raise EAssert)
                                (λ _ : (),
                                   bind
                                     (if bool_decide (len s'0 ≤ len s)
                                      then ret ()
                                      else raise EAssert)
                                     (λ _ : (), ret (k, al2)))))))) s = (r, s') →
    r = Err EOracle ∨ r = Err ERuntime ∨
    ∃ k al' lv0, r = Ok (k, al') ∧ Some lv = Some lv0 ∧ Stp L s s' ∧
      levels_ok s' al' ∧ vperm (mv lv0 k) s s' ∧ k < nvars s ∧
      (∀ p, p < nvars s → ∃ v, Visited L s lv0 p v ∧ len s' ≤ v) ∧
      (∀ p sp, p < nvars s → Stp L s sp → vperm (mv lv0 p) s sp → len s' ≤ len sp)).
  { intros start end_ Hs He Hall Hse.
    assert (Hbt : between start end_ lv) by (apply Hall; lia).
    (* first shift: to the nearer end *)
    destruct (shift lv start al s) as [r1 sA] eqn:E1.
    destruct (shift_spec L s lv start al r1 sA HG Hal Hlvn ltac:(lia) E1)
      as [->|[->|(sz1&alA&->&HSA&HalA&HpA&_)]].
    { rewrite (bind_err _ _ _ _ _ E1). intros [= <- <-]. by left. }
    { rewrite (bind_err _ _ _ _ _ E1). intros [= <- <-]. by right; left. }
    rewrite (bind_ok _ _ _ _ _ E1). cbv beta iota.
    pose proof HSA as (HGA&HnA&_).
    (* second shift: the full sweep *)
    destruct (shift start end_ alA sA) as [r2 sB] eqn:E2.
    destruct (shift_spec L sA start end_ alA r2 sB HGA HalA ltac:(lia) ltac:(lia) E2)
      as [->|[->|(sizes&alB&->&HSB&HalB&HpB&HVis&Hkeys&Hnil)]].
    { rewrite (bind_err _ _ _ _ _ E2). intros [= <- <-]. by left. }
    { rewrite (bind_err _ _ _ _ _ E2). intros [= <- <-]. by right; left. }
    rewrite (bind_ok _ _ _ _ _ E2). cbv beta iota.
    pose proof HSB as (HGB&HnB&_).
    assert (HSsB : Stp L s sB) by (by apply (Stp_trans L s sA sB)).
    assert (HpsB : vperm (fun l => mv start end_ (mv lv start l)) s sB)
      by (by apply (vperm_comp _ _ s sA sB)).
    (* a state visited from [sA] at level [p] is a state visited from [s] *)
    assert (HVs : ∀ p v, Visited L sA start p v → Visited L s lv p v).
    { intros p v (sq&HSq&Hpq&->). exists sq. split; [by apply (Stp_trans L s sA sq)|].
      split; [|done].
      apply (vperm_ext (fun l => mv start p (mv lv start l))); [done| |
        by apply (vperm_comp _ _ s sA sq)].
      intros l _. by rewrite mv_mv. }
    case_decide as Hsz.
    { (* a single variable *)
      intros [= <- <-]. right. right. exists lv, alB, lv.
      assert (start = end_) as Ese.
      { destruct (decide (start = end_)) as [|Hne]; [done|exfalso].
        pose proof (Hkeys Hne lv Hbt) as Hk. rewrite Hsz in Hk. by apply elem_of_nil in Hk. }
      assert (lv = start) by (unfold between in Hbt; lia).
      assert (Elen : len sB = len s).
      { apply (size_same_perm L s sB s _ (fun l => l) HSsB (Stp_refl L s HG) Hz HI HpsB
                 (vperm_id s)).
        intros l _. rewrite mv_mv. subst. apply mv_id. }
      assert (Hone : ∀ p, p < nvars s → p = lv) by (intros p Hp; specialize (Hse Ese); lia).
      split_and!; try done.
      - apply (vperm_ext (fun l => mv start end_ (mv lv start l))); [done| |done].
        intros l _. rewrite mv_mv. by subst.
      - intros p Hp. rewrite (Hone p Hp). exists (len s). split; [|by rewrite Elen].
        exists s. split; [by apply Stp_refl|]. split; [|done].
        apply (vperm_ext (fun l => l)); [done| |apply vperm_id]. intros l _. by rewrite mv_id.
      - intros p sp Hp HSp Hpp. rewrite (Hone p Hp) in Hpp. rewrite Elen.
        assert (len s = len sp) as ->; [|done].
        apply (size_same_perm L s s sp (fun l => l) (mv lv lv) (Stp_refl L s HG) HSp Hz HI
                 (vperm_id s) Hpp).
        intros l _. by rewrite mv_id. }
    destruct (argmin sizes) as [[k mk]|] eqn:Eam; [|by apply argmin_none in Eam].
    cbn [of_opt]. rewrite (bind_ok _ _ sB (k, mk) sB) by done. cbv beta iota.
    destruct (argmin_spec sizes k mk Eam) as [Hkin Hmin].
    destruct (HVis k mk Hkin) as (sp&HSp&Hpp&->).
    assert (Hkn : k < nvars s).
    { destruct (proj1 (inv_lvls _ (proj1 HGA) start) ltac:(lia)) as [v Hv].
      apply (inv_vars _ (proj1 HGA)) in Hv. pose proof (Hpp v start Hv) as Hv'.
      assert (mv start k start = k) as Ek by (unfold mv; by rewrite decide_True).
      rewrite Ek in Hv'. destruct HSp as ((HIp&_)&Hnp&_).
      rewrite <- HnA, <- Hnp. apply (inv_lvls _ HIp). exists v. by apply (inv_vars _ HIp). }
    (* third shift: back to the best position *)
    destruct (shift end_ k alB sB) as [r3 sC] eqn:E3.
    destruct (shift_spec L sB end_ k alB r3 sC HGB HalB ltac:(lia) ltac:(lia) E3)
      as [->|[->|(sz3&alC&->&HSC&HalC&HpC&_)]].
    { rewrite (bind_err _ _ _ _ _ E3). intros [= <- <-]. by left. }
    { rewrite (bind_err _ _ _ _ _ E3). intros [= <- <-]. by right; left. }
    rewrite (bind_ok _ _ _ _ _ E3). cbv beta iota. cbn [bind get].
    assert (HSsC : Stp L s sC) by (by apply (Stp_trans L s sB sC)).
    assert (HpsC : vperm (fun l => mv end_ k (mv start end_ (mv lv start l))) s sC)
      by (by apply (vperm_comp _ _ s sB sC)).
    assert (HSsp : Stp L s sp) by (by apply (Stp_trans L s sA sp)).
    assert (Hpsp : vperm (fun l => mv start k (mv lv start l)) s sp)
      by (by apply (vperm_comp _ _ s sA sp)).
    assert (Elen : len sp = len sC).
    { apply (size_same_perm L s sp sC _ _ HSsp HSsC Hz HI Hpsp HpsC).
      intros l _. by rewrite !mv_mv. }
    rewrite bool_decide_eq_true_2 by done. rewrite (bind_ok _ _ sC tt sC) by done.
    assert (Hne : start ≠ end_) by (intros E; by apply Hsz, Hnil).
    (* the minimum over the recorded sizes; every level is recorded *)
    assert (Hminall : ∀ p, p < nvars s → ∃ v, Visited L s lv p v ∧ len sC ≤ v).
    { intros p Hp. pose proof (Hkeys Hne p (Hall p ltac:(lia))) as Hk.
      apply elem_of_list_fmap in Hk as ([p' v]&Ep&Hin). cbn in Ep. subst p'.
      exists v. split; [by apply HVs, HVis|]. rewrite <- Elen. by apply (Hmin p). }
    assert (Hle : len sC ≤ len s).
    { destruct (Hminall lv Hlvn) as (v&HV&Hv).
      rewrite (visited_size L s lv lv v s HG Hz HV (Stp_refl L s HG)) in Hv; [done|].
      apply (vperm_ext (fun l => l)); [done| |apply vperm_id]. intros l _. by rewrite mv_id. }
    rewrite bool_decide_eq_true_2 by done. rewrite (bind_ok _ _ sC tt sC) by done.
    intros [= <- <-]. right. right. exists k, alC, lv. split_and!; try done.
    - apply (vperm_ext (fun l => mv end_ k (mv start end_ (mv lv start l)))); [done| |done].
      intros l _. by rewrite !mv_mv.
    - intros p sq Hp HSq Hpq. destruct (Hminall p Hp) as (v&HV&Hv).
      by rewrite (visited_size L s lv p v sq HG Hz HV HSq Hpq) in Hv. }
  case_decide as Hd; apply Hgen; unfold between; try lia; intros p Hp; lia.
Qed.

(** the final position itself is one of the visited ones, with the final size *)
Lemma final_visited L s s' lv k :
  Stp L s s' → vperm (mv lv k) s s' → Visited L s lv k (len s').
Proof. intros HS Hp. by exists s'. Qed.
