(** * SwapC: one iteration of the last loop of [swap] ("x nodes dependent on y") *)
From DD Require Export SwapB.

Section dep.
Context (s0 : st) (HI : Inv s0) (x : nat) (Hy : x + 1 < nvars s0).

(** facts about a dependent x-node of the original manager *)
Lemma dep_facts u v w : succ s0 !! u = Some (Triple x v w) →
  u ≠ 1%positive ∧ valid s0 v ∧ valid s0 w ∧ (0 < w)%Z ∧ v ≠ w ∧
  x < lvl_of s0 v ∧ x < lvl_of s0 w.
Proof.
  intros Hu.
  assert (u ≠ 1%positive) as Hu1.
  { intros ->. rewrite (inv_term _ HI) in Hu. injection Hu as E _ _. lia. }
  destruct (inv_node _ HI _ _ Hu Hu1) as (_&?&?&?&?&?&?). by split_and!.
Qed.

(** a cofactor (level below [x+1] originally) is untouched in any mid state *)
Lemma Mid_low s T z : Mid s0 x s T → valid s0 z → x + 1 < lvl_of s0 z →
  valid s z ∧ lvl_of s z = lvl_of s0 z ∧ succ s !! absn z = succ s0 !! absn z.
Proof.
  intros HM Hz Hl.
  destruct (Mid_child s0 x Hy s T z HM Hz ltac:(lia)) as (?&_&H2).
  destruct (H2 ltac:(lia)) as [? ?]. done.
Qed.

Lemma dep_q_pos s v w q : valid s0 w → (0 < w)%Z → x + 1 ≤ lvl_of s0 w →
  foa_res s (x + 1) (cofs s0 (x + 1) v).2 (cofs s0 (x + 1) w).2 q → (0 < q)%Z.
Proof.
  intros Hw Hwp Hl.
  destruct (cofs_spec s0 HI (x + 1) Hy w Hw Hl) as (_&_&_&_&_&_&Hp&_).
  specialize (Hp Hwp). unfold foa_res, sgn. rewrite decide_False by lia.
  intros [[E ->]|[_ (n&_&->)]]; lia.
Qed.

Lemma dep_pq_ne s T u v w p q :
  Mid s0 x s T → succ s0 !! u = Some (Triple x v w) → ¬ indepS s0 (x + 1) v w →
  foa_res s (x + 1) (cofs s0 (x + 1) v).1 (cofs s0 (x + 1) w).1 p →
  foa_res s (x + 1) (cofs s0 (x + 1) v).2 (cofs s0 (x + 1) w).2 q →
  p ≠ q.
Proof.
  intros HM Hu Hdep Hp Hq ->.
  destruct (dep_facts u v w Hu) as (Hu1&Hv&Hw&Hwp&Hne&Hlv&Hlw).
  destruct (cofs_spec s0 HI (x + 1) Hy v Hv ltac:(lia)) as (Hv0&Hv1&Lv0&Lv1&Dv&Ev&_).
  destruct (cofs_spec s0 HI (x + 1) Hy w Hw ltac:(lia)) as (Hw0&Hw1&Lw0&Lw1&Dw&Ew&_).
  destruct (Mid_low s T _ HM Hv0 Lv0) as (_&L0&_).
  destruct (Mid_low s T _ HM Hv1 Lv1) as (_&L1&_).
  destruct (foa_res_inj s (x + 1) _ _ _ _ q Hp Hq ltac:(lia) ltac:(lia)) as [E1 E2].
  apply Hdep. split.
  - destruct (decide (lvl_of s0 v = x + 1)) as [E|E]; [by apply Dv in E|lia].
  - destruct (decide (lvl_of s0 w = x + 1)) as [E|E]; [by apply Dw in E|lia].
Qed.

Lemma dep_pred_none s T u v w p q :
  Mid s0 x s T → u ∈ T → succ s0 !! u = Some (Triple x v w) →
  foa_res s (x + 1) (cofs s0 (x + 1) v).1 (cofs s0 (x + 1) w).1 p →
  foa_res s (x + 1) (cofs s0 (x + 1) v).2 (cofs s0 (x + 1) w).2 q →
  pred s !! Triple x p q = None.
Proof.
  intros HM HuT Hu Hp Hq.
  destruct (pred s !! Triple x p q) as [n|] eqn:Hpr; [exfalso|done].
  apply (m_pred _ _ _ _ HM) in Hpr as [Hn HnT].
  destruct (dep_facts u v w Hu) as (Hu1&Hv&Hw&Hwp&Hne&Hlv&Hlw).
  destruct (cofs_spec s0 HI (x + 1) Hy v Hv ltac:(lia)) as (Hv0&Hv1&Lv0&Lv1&Dv&Ev&_).
  destruct (cofs_spec s0 HI (x + 1) Hy w Hw ltac:(lia)) as (Hw0&Hw1&Lw0&Lw1&Dw&Ew&_).
  destruct (Mid_low s T _ HM Hv0 Lv0) as (Vv0&L0&_).
  destruct (Mid_low s T _ HM Hv1 Lv1) as (Vv1&L1&_).
  destruct (succ s0 !! n) as [t0|] eqn:H0; cycle 1.
  { pose proof (m_new _ _ _ _ HM n _ Hn H0) as E. cbn in E. lia. }
  destruct (m_old _ _ _ _ HM n t0 H0 HnT) as (t&Ht&Hi).
  rewrite Hn in Ht. injection Ht as <-. unfold mid_img in Hi.
  assert (Hn1 : n ≠ 1%positive).
  { intros ->. rewrite (m_term _ _ _ _ HM) in Hn. injection Hn as E _ _. lia. }
  destruct (inv_node _ HI _ _ H0 Hn1) as (_&Hvl&_&Hvh&Hll&Hlh&_).
  case_decide as E1.
  - (* an old y-node: both [p] and [q] would be below level [x+1] *)
    injection Hi as -> ->.
    destruct (Mid_low s T _ HM Hvl ltac:(lia)) as (_&Lp&_).
    destruct (Mid_low s T _ HM Hvh ltac:(lia)) as (_&Lq&_).
    destruct (foa_res_valid s _ _ _ _ Vv0 Hp) as [_ [[_ Ea]|[Ea _]]]; [|lia].
    destruct (foa_res_valid s _ _ _ _ Vv1 Hq) as [_ [[_ Eb]|[Eb _]]]; [|lia].
    apply Hne. apply (cofs_inj s0 HI (x + 1) Hy); try done; try lia.
    apply injective_projections; done.
  - case_decide as E2; [|by (subst; cbn in *; lia)].
    case_decide as E3; [by injection Hi; lia|].
    destruct Hi as (p'&q'&[= <- <-]&Hp'&Hq').
    destruct (cofs_spec s0 HI (x + 1) Hy _ Hvl ltac:(lia)) as (Hv0'&Hv1'&Lv0'&Lv1'&_).
    destruct (Mid_low s T _ HM Hv0' Lv0') as (_&L0'&_).
    destruct (Mid_low s T _ HM Hv1' Lv1') as (_&L1'&_).
    destruct (foa_res_inj s (x + 1) _ _ _ _ p Hp Hp' ltac:(lia) ltac:(lia)) as [Ea Eb].
    destruct (foa_res_inj s (x + 1) _ _ _ _ q Hq Hq' ltac:(lia) ltac:(lia)) as [Ec Ed].
    assert (v = t_lo t0).
    { apply (cofs_inj s0 HI (x + 1) Hy); try done; try lia. by apply injective_projections. }
    assert (w = t_hi t0).
    { apply (cofs_inj s0 HI (x + 1) Hy); try done; try lia. by apply injective_projections. }
    assert (t0 = Triple x v w) as -> by (destruct t0; cbn in *; congruence).
    assert (n = u) as ->.
    { apply (inv_pred _ HI) in H0, Hu. congruence. }
    done.
Qed.
End dep.

(** ** in-place rewriting of a node that keeps its level *)
Lemma relabel_valid s s' u t t' z :
  succ s' = <[u := t']> (succ s) → succ s !! u = Some t → valid s' z ↔ valid s z.
Proof.
  intros E Hu. unfold valid. rewrite E.
  destruct (decide (absn z = u)) as [->|Hne].
  - rewrite lookup_insert, Hu. split; intros [? _]; split; eauto.
  - by rewrite lookup_insert_ne.
Qed.
Lemma relabel_lvl s s' u t t' z :
  succ s' = <[u := t']> (succ s) → succ s !! u = Some t → t_lvl t' = t_lvl t →
  lvl_of s' z = lvl_of s z.
Proof.
  intros E Hu El. unfold lvl_of. rewrite E.
  destruct (decide (absn z = u)) as [->|Hne].
  - by rewrite lookup_insert, Hu.
  - by rewrite lookup_insert_ne.
Qed.
Lemma relabel_node_ok s s' u t t' t1 :
  succ s' = <[u := t']> (succ s) → succ s !! u = Some t → t_lvl t' = t_lvl t →
  nvars s' = nvars s → node_ok s t1 → node_ok s' t1.
Proof.
  intros E Hu El Hn (?&?&?&?&?&?&?). unfold node_ok.
  rewrite Hn, !(relabel_lvl s s' u t t') by done.
  split_and!; try done; by apply (relabel_valid s s' u t t').
Qed.

Lemma Mid_rewrite s0 x s T u v w p q :
  Mid s0 x s T → x + 1 < nvars s0 → u ∈ T → u ≠ 1%positive →
  succ s0 !! u = Some (Triple x v w) → ¬ indepS s0 (x + 1) v w →
  foa_res s (x + 1) (cofs s0 (x + 1) v).1 (cofs s0 (x + 1) w).1 p →
  foa_res s (x + 1) (cofs s0 (x + 1) v).2 (cofs s0 (x + 1) w).2 q →
  valid s p → valid s q → (0 < q)%Z → p ≠ q → x < lvl_of s p → x < lvl_of s q →
  pred s !! Triple x p q = None →
  Mid s0 x (bump q (bump p (set_node_st s u (Triple x p q)))) (T ∖ {[u]}).
Proof.
  intros HM Hy HuT Hu1 Hu0 Hdep Hp Hq Hvp Hvq Hqp Hpq Hlp Hlq Hpred.
  set (t' := Triple x p q). set (s' := bump q (bump p (set_node_st s u t'))).
  destruct (m_T _ _ _ _ HM u HuT) as (t&Ht0&Hlt&_&Hus).
  assert (t = Triple x v w) as -> by congruence. clear Ht0.
  assert (Hsucc : succ s' = <[u := t']> (succ s)) by done.
  assert (Hnv : nvars s' = nvars s) by done.
  assert (Hlvl : ∀ z, lvl_of s' z = lvl_of s z).
  { intros z. by apply (relabel_lvl s s' u (Triple x v w) t'). }
  assert (Hval : ∀ z, valid s' z ↔ valid s z).
  { intros z. by apply (relabel_valid s s' u (Triple x v w) t'). }
  assert (Hkeep : ∀ n t, succ s !! n = Some t → t_lvl t = x + 1 → succ s' !! n = Some t).
  { intros n t Hn Hl. rewrite Hsucc, lookup_insert_ne; [done|]. intros ->.
    rewrite Hus in Hn. injection Hn as <-. cbn in Hl. lia. }
  split.
  - apply HM.
  - apply HM.
  - apply HM.
  - rewrite Hsucc, lookup_insert_ne by done. apply HM.
  - rewrite Hsucc. change (min_free s') with (min_free s).
    destruct (m_free _ _ _ _ HM) as [Hf Hb]. split.
    + rewrite lookup_insert_ne; [done|]. intros E. rewrite <- E in Hf. congruence.
    + intros k Hk. destruct (decide (k = u)) as [->|].
      * rewrite lookup_insert. eauto.
      * rewrite lookup_insert_ne by done. by apply Hb.
  - rewrite Hsucc. cbn. rewrite !dom_alter_L, dom_insert_L, (m_ref _ _ _ _ HM).
    assert (u ∈ dom (succ s)) by (apply elem_of_dom; eauto). set_solver.
  - intros t n. rewrite Hsucc. change (pred s') with (<[t' := u]> (pred s)).
    rewrite elem_of_difference, elem_of_singleton.
    destruct (decide (t = t')) as [->|Htt].
    + rewrite lookup_insert. split.
      * intros [= <-]. rewrite lookup_insert. tauto.
      * intros [Hn HnT]. destruct (decide (n = u)) as [->|Hnu]; [done|].
        rewrite lookup_insert_ne in Hn by done. exfalso.
        assert (pred s !! t' = Some n); [|unfold t' in *; congruence].
        apply (m_pred _ _ _ _ HM). tauto.
    + rewrite lookup_insert_ne by done. rewrite (m_pred _ _ _ _ HM). split.
      * intros [Hn HnT]. assert (n ≠ u) by (intros ->; done).
        rewrite lookup_insert_ne by done. tauto.
      * intros [Hn HnT]. destruct (decide (n = u)) as [->|Hnu].
        -- rewrite lookup_insert in Hn. congruence.
        -- rewrite lookup_insert_ne in Hn by done. tauto.
  - intros n Hn. apply elem_of_difference in Hn as [Hn Hnu]. rewrite elem_of_singleton in Hnu.
    destruct (m_T _ _ _ _ HM n Hn) as (t&?&?&?&?). exists t. split_and!; try done.
    by rewrite Hsucc, lookup_insert_ne.
  - intros n t0 H0 Hn. rewrite elem_of_difference, elem_of_singleton in Hn.
    destruct (decide (n = u)) as [->|Hnu].
    + exists t'. rewrite Hsucc, lookup_insert. split; [done|].
      rewrite Hu0 in H0. injection H0 as <-. unfold mid_img. cbn [t_lvl t_lo t_hi].
      rewrite decide_False by lia. rewrite decide_True by done. rewrite decide_False by done.
      exists p, q. split; [done|]. split; by apply (foa_res_mono s s').
    + assert (n ∉ T) as HnT by tauto.
      destruct (m_old _ _ _ _ HM n t0 H0 HnT) as (t&Ht&Hi). exists t.
      rewrite Hsucc, lookup_insert_ne by done. split; [done|].
      by apply (mid_img_mono s0 s s').
  - intros n t Hn H0. rewrite Hsucc in Hn.
    assert (n ≠ u) by (intros ->; congruence).
    rewrite lookup_insert_ne in Hn by done. by apply (m_new _ _ _ _ HM n).
  - intros n t Hn Hn1 HnT. rewrite elem_of_difference, elem_of_singleton in HnT.
    rewrite Hsucc in Hn. destruct (decide (n = u)) as [->|Hnu].
    + rewrite lookup_insert in Hn. injection Hn as <-.
      unfold node_ok. rewrite Hnv, (Mid_nvars _ _ _ _ HM), !Hlvl, !Hval. cbn [t' t_lvl t_lo t_hi].
      split_and!; try done. lia.
    + rewrite lookup_insert_ne in Hn by done.
      apply (relabel_node_ok s s' u (Triple x v w) t'); try done.
      apply (m_node _ _ _ _ HM n); tauto.
Qed.

(** ** counts around the rewriting of node [u] *)
Lemma CountsD_of_Counts s L u t :
  Counts s L → succ s !! u = Some t → t_lo t ≠ 0%Z → t_hi t ≠ 0%Z →
  CountsD (unbump (t_hi t) (unbump (t_lo t) s)) L u.
Proof.
  intros [H1 H2] Hu Hl Hh. split; [|done].
  intros n Hn. cbn in Hn |- *. rewrite !lookup_alter_if, (H1 n Hn).
  rewrite (indeg_delete (succ s) u t n Hu). cbn [fmap option_fmap option_map]. f_equal.
  rewrite <- Nat.add_assoc. by apply dec_edges.
Qed.

Lemma Counts_rewrite s L u i p q :
  CountsD s L u → is_Some (succ s !! u) → p ≠ 0%Z → q ≠ 0%Z →
  Counts (bump q (bump p (set_node_st s u (Triple i p q)))) L.
Proof.
  intros [H1 H2] Hu Hp Hq.
  assert (Hd : dom (<[u := Triple i p q]> (succ s)) = dom (succ s)).
  { rewrite dom_insert_L. apply elem_of_dom in Hu. set_solver. }
  split.
  - intros n Hn. cbn in Hn |- *. rewrite Hd in Hn.
    rewrite !lookup_alter_if, (H1 n Hn).
    rewrite <- (insert_delete_insert (succ s)).
    rewrite indeg_insert_fresh by apply lookup_delete.
    unfold edges_to. cbn [t_lo t_hi fmap option_fmap option_map]. f_equal.
    destruct (decide (absn p = n)), (decide (absn q = n));
      repeat case_decide; try tauto; cbn; lia.
  - intros n Hn. cbn in Hn. rewrite Hd in Hn. by apply H2.
Qed.
