(** * ParserTablesOk: the lexer/precedence/production tables regenerated from
      dd/_parser.py and doc.md against the documented grammar (finite
      obligations, re-checked by [vm_compute] whenever the sources change;
      the bound of every check is the generated list itself). *)
From stdpp Require Import strings pretty.
From DD Require Export Parser Apply.
From DD Require Export Generated.ParserTables.
Local Open Scope string_scope.

Global Instance token_eq_dec : EqDecision token.
Proof. solve_decision. Defined.
Global Instance ast_eq_dec : EqDecision ast.
Proof. solve_decision. Defined.

Definition lex (l : list string) : option (list token) :=
  lex_all lex_alias reserved_words l.
Definition lex_ty (sp : string) : option string :=
  ty <$> lex1 lex_alias reserved_words sp.

(** ** (a) precedence: code against doc.md *)

(** doc.md, "The token precedence (lowest to highest) and associativity is",
    written by hand as token TYPES *)
Definition documented_levels : list (list string) :=
  [["COLON"]; ["EQUIV"]; ["IMPLIES"]; ["MINUS"]; ["XOR"]; ["OR"]; ["AND"];
   ["EQUALS"]; ["NOT"]; ["UMINUS"]].

(** the types that are binary operators of the grammar, plus the binder colon *)
Definition left_types : list string :=
  ["COLON"; "EQUIV"; "IMPLIES"; "MINUS"; "XOR"; "OR"; "AND"; "EQUALS"].

(** level of a token type in the documented order *)
Definition doc_level_of_type (t : string) : option nat :=
  fst <$> list_find (fun l => bool_decide (t ∈ l)) documented_levels.

(** every documented spelling of level [k] lexes to a token of the type the
    code declares at level [k]; the last level ("unary minus, as in -5") is
    the [%prec UMINUS] of [number : MINUS NUMBER]: only [-] is a token *)
Definition doc_level_ok (k : nat) (lvl : string * list string) : bool :=
  match code_prec !! k with
  | None => false
  | Some (assoc, t) =>
      if bool_decide (t = "UMINUS") then
        bool_decide (head lvl.2 = Some "-") &&
        bool_decide (lex_ty "-" = Some "MINUS") &&
        bool_decide ("number : MINUS NUMBER %prec UMINUS" ∈ productions)
      else
        forallb (fun sp => bool_decide (lex_ty sp = Some t)) lvl.2 &&
        negb (bool_decide (lvl.2 = [])) &&
        (* associativity matters for the binary levels only *)
        (if bool_decide (t ∈ left_types) then bool_decide (lvl.1 = assoc) else true)
  end.

Lemma code_prec_is_documented :
  (* same types in the same order *)
  (fun p => [p.2]) <$> code_prec = documented_levels ∧
  (* binary levels are left associative *)
  forallb (fun p => if bool_decide (p.2 ∈ left_types) then bool_decide (p.1 = "left") else true)
          code_prec = true ∧
  (* doc.md's list of spellings corresponds level by level *)
  length doc_prec = length code_prec ∧
  forallb (fun kl => doc_level_ok kl.1 kl.2) (imap (fun k l => (k, l)) doc_prec) = true.
Proof. by vm_compute. Qed.

(** ** (b) all spellings of an operator mean the same, and what the
      documentation says *)

(** documented connective of a token type *)
Definition type_sem (t : string) : option (bool → bool → bool → bool) :=
  if bool_decide (t = "AND") then Some (fun a b _ : bool => a && b)
  else if bool_decide (t = "OR") then Some (fun a b _ : bool => a || b)
  else if bool_decide (t = "XOR") then Some (fun a b _ : bool => xorb a b)
  else if bool_decide (t = "IMPLIES") then Some (fun a b _ : bool => implb a b)
  else if bool_decide (t = "EQUIV") then Some (fun a b _ : bool => eqb a b)
  else if bool_decide (t = "NOT") then Some (fun a _ _ : bool => negb a)
  else if bool_decide (t = "MINUS") then Some (fun a b _ : bool => a && negb b)
  else None.

Definition op_types : list string :=
  ["AND"; "OR"; "XOR"; "IMPLIES"; "EQUIV"; "NOT"; "MINUS"].

Definition same_fun3 (f g : bool → bool → bool → bool) : bool :=
  forallb (fun '(b1, b2, b3) => bool_decide (f b1 b2 b3 = g b1 b2 b3)) bools3.

Definition alias_ok (e : string * (string * string)) : bool :=
  let '(sp, (t, v)) := e in
  if bool_decide (t ∈ op_types) then
    match conn_sem v, type_sem t with
    | Some f, Some g => same_fun3 f g
    | _, _ => false
    end
    (* the spelling really lexes to this entry *)
    && bool_decide (lex1 lex_alias reserved_words sp = Some (Tok t v))
  else true.

(** every operator type has at least one spelling *)
Definition type_has_spelling (t : string) : bool :=
  existsb (fun e => bool_decide (e.2.1 = t)) lex_alias.

(** propositional syntax trees read with the documented connectives *)
Fixpoint ast_bool_sem (a : ast) (ρ : string → bool) : option bool :=
  match a with
  | ABool b => Some b
  | AVar n => Some (ρ n)
  | AOp1 op a =>
      f ← conn_sem op; x ← ast_bool_sem a ρ; Some (f x false false)
  | AOp2 op a b =>
      f ← conn_sem op; x ← ast_bool_sem a ρ; y ← ast_bool_sem b ρ; Some (f x y false)
  | AIte a b c =>
      f ← conn_sem "ite"; x ← ast_bool_sem a ρ; y ← ast_bool_sem b ρ;
      z ← ast_bool_sem c ρ; Some (f x y z)
  | _ => None
  end.

(** a tiny splitter: spaces separate, parentheses and commas stand alone *)
Fixpoint split_go (s : string) (cur : string) (acc : list string) : list string :=
  let flush acc := if bool_decide (cur = "") then acc else string_rev cur :: acc in
  match s with
  | EmptyString => rev (flush acc)
  | String c s =>
      if bool_decide (String c "" = " ") then split_go s "" (flush acc)
      else if bool_decide (String c "" ∈ ["("; ")"; ","])
           then split_go s "" (String c "" :: flush acc)
           else split_go s (String c cur) acc
  end.
Definition split_formula (s : string) : list string := split_go s "" [].

Definition parse_string (s : string) : option ast :=
  lex (split_formula s) ≫= parse code_prec.

Definition valuation (b : bool * bool * bool) : string → bool :=
  fun n => if bool_decide (n = "a") then b.1.1
           else if bool_decide (n = "b") then b.1.2
           else if bool_decide (n = "c") then b.2 else false.

Definition meaning_ok (m : string * string) : bool :=
  match parse_string m.1, parse_string m.2 with
  | Some l, Some r =>
      forallb (fun b =>
        match ast_bool_sem l (valuation b), ast_bool_sem r (valuation b) with
        | Some x, Some y => bool_decide (x = y)
        | _, _ => false
        end) bools3
  | _, _ => false
  end.

Lemma aliases_canonical :
  forallb alias_ok lex_alias = true ∧
  forallb type_has_spelling op_types = true ∧
  length doc_meanings = 4 ∧
  forallb meaning_ok doc_meanings = true.
Proof. by vm_compute. Qed.

(** the splitter on the documented formulas (so that [meaning_ok] is seen to
    compare the intended trees) *)
Lemma doc_meanings_trees :
  (fun m => (parse_string m.1, parse_string m.2)) <$> doc_meanings =
  [ (Some (AOp2 "=>" (AVar "a") (AVar "b")),
     Some (AOp2 "|" (AVar "b") (AOp1 "!" (AVar "a"))));
    (Some (AOp2 "<->" (AVar "a") (AVar "b")),
     Some (AOp2 "|" (AOp2 "&" (AVar "a") (AVar "b"))
                    (AOp2 "&" (AOp1 "!" (AVar "a")) (AOp1 "!" (AVar "b")))));
    (Some (AOp2 "#" (AVar "a") (AVar "b")),
     Some (AOp2 "|" (AOp2 "&" (AVar "a") (AOp1 "!" (AVar "b")))
                    (AOp2 "&" (AVar "b") (AOp1 "!" (AVar "a")))));
    (Some (AIte (AVar "a") (AVar "b") (AVar "c")),
     Some (AOp2 "|" (AOp2 "&" (AVar "a") (AVar "b"))
                    (AOp2 "&" (AOp1 "!" (AVar "a")) (AVar "c")))) ].
Proof. by vm_compute. Qed.

(** ** (c) constants and [ite] *)
Lemma reserved_constants :
  lex ["TRUE"; "FALSE"; "true"; "false"; "ite"] =
  Some [Tok "TRUE" "TRUE"; Tok "FALSE" "FALSE"; Tok "TRUE" "true"; Tok "FALSE" "false";
        Tok "ITE" "ite"] ∧
  (* reserved words are only constants and [ite] *)
  forallb (fun kv => bool_decide (kv.2 ∈ ["TRUE"; "FALSE"; "ITE"])) reserved_words = true ∧
  parse code_prec [Tok "TRUE" "true"] = Some (ABool true) ∧
  parse code_prec [Tok "FALSE" "false"] = Some (ABool false).
Proof. by vm_compute. Qed.

(** ** (d) the grammar's shape *)
Definition expected_productions : list string :=
  ["expr : TRUE"; "expr : FALSE"; "expr : AT number"; "number : NUMBER";
   "number : MINUS NUMBER %prec UMINUS"; "expr : name"; "expr : NOT expr";
   "expr : expr AND expr"; "expr : expr OR expr"; "expr : expr XOR expr";
   "expr : expr IMPLIES expr"; "expr : expr EQUIV expr"; "expr : expr EQUALS expr";
   "expr : expr MINUS expr";
   "expr : ITE LPAREN expr COMMA expr COMMA expr RPAREN";
   "expr : EXISTS names COLON expr"; "expr : FORALL names COLON expr";
   "expr : RENAME subs COLON expr"; "subs : subs COMMA sub"; "subs : sub";
   "sub : name DIV name"; "names : names COMMA name"; "names : name"; "name : NAME";
   "expr : LPAREN expr RPAREN"].

Lemma productions_expected : productions = expected_productions.
Proof. by vm_compute. Qed.

(** the binary productions are exactly the types the model parser treats as
    binary operators *)
Lemma binary_productions_are_model_binary :
  forallb (fun t => bool_decide ("expr : expr " +:+ t +:+ " expr" ∈ productions))
          binary_types = true ∧
  length (filter (fun p => String.prefix "expr : expr " p = true) productions)
    = length binary_types.
Proof. by vm_compute. Qed.

(** ** (e) precedence and associativity of every pair of spellings *)
Definition spellings_of (types : list string) : list (string * string * string) :=
  omap (fun e : string * (string * string) =>
          if bool_decide (e.2.1 ∈ types) then Some (e.1, e.2.1, e.2.2) else None)
       lex_alias.

(** binary operator spellings: (spelling, type, canonical value); [=] is
    included (the documentation lists it among the levels) *)
Definition binop_spellings := spellings_of binary_types.
Definition not_spellings := spellings_of ["NOT"].
Definition quant_spellings := spellings_of ["EXISTS"; "FORALL"].

Definition lvl (t : string) : nat := default 0 (doc_level_of_type t).

Definition parse_spellings (l : list string) : option ast := lex l ≫= parse code_prec.

Definition pair_ok (o1 o2 : string * string * string) : bool :=
  let '(s1, t1, v1) := o1 in let '(s2, t2, v2) := o2 in
  bool_decide (parse_spellings ["a"; s1; "b"; s2; "c"] =
    Some (if bool_decide (lvl t2 ≤ lvl t1)
          then AOp2 v2 (AOp2 v1 (AVar "a") (AVar "b")) (AVar "c")
          else AOp2 v1 (AVar "a") (AOp2 v2 (AVar "b") (AVar "c")))).

Definition not_ok (n o : string * string * string) : bool :=
  let '(sn, _, vn) := n in let '(s, _, v) := o in
  bool_decide (parse_spellings [sn; "a"; s; "b"] =
    Some (AOp2 v (AOp1 vn (AVar "a")) (AVar "b"))) &&
  bool_decide (parse_spellings ["a"; s; sn; "b"] =
    Some (AOp2 v (AVar "a") (AOp1 vn (AVar "b")))) &&
  bool_decide (parse_spellings [sn; sn; "a"; s; "b"] =
    Some (AOp2 v (AOp1 vn (AOp1 vn (AVar "a"))) (AVar "b"))).

Definition quant_ok (q o1 o2 : string * string * string) : bool :=
  let '(sq, _, vq) := q in let '(s1, _, v1) := o1 in let '(s2, _, v2) := o2 in
  bool_decide (parse_spellings [sq; "x"; ":"; "a"; s1; "b"] =
    Some (AQuant vq ["x"] (AOp2 v1 (AVar "a") (AVar "b")))) &&
  bool_decide (parse_spellings ["a"; s1; sq; "x"; ","; "y"; ":"; "b"; s2; "c"] =
    Some (AOp2 v1 (AVar "a")
            (AQuant vq ["x"; "y"] (AOp2 v2 (AVar "b") (AVar "c"))))).

Definition rename_ok (o1 o2 : string * string * string) : bool :=
  let '(s1, _, v1) := o1 in let '(s2, _, v2) := o2 in
  bool_decide (parse_spellings ["\S"; "y"; "/"; "x"; ":"; "a"; s1; "b"] =
    Some (ASubst [("x", "y")] (AOp2 v1 (AVar "a") (AVar "b")))) &&
  bool_decide (parse_spellings
                 ["a"; s1; "\S"; "y"; "/"; "x"; ","; "x"; "/"; "y"; ":"; "b"; s2; "c"] =
    Some (AOp2 v1 (AVar "a")
            (ASubst [("x", "y"); ("y", "x")] (AOp2 v2 (AVar "b") (AVar "c"))))).

Lemma all_precedence_pairs :
  (* the spellings under test: every binary / negation / quantifier entry *)
  (fun x => x.1.1) <$> binop_spellings =
    ["&&"; "&"; "/\"; "||"; "|"; "\/"; "=>"; "->"; "<=>"; "<->"; "#"; "^"; "="; "-"] ∧
  (fun x => x.1.1) <$> not_spellings = ["~"; "!"] ∧
  (fun x => x.1.1) <$> quant_spellings = ["\A"; "\E"] ∧
  forallb (fun o1 => forallb (pair_ok o1) binop_spellings) binop_spellings = true ∧
  forallb (fun n => forallb (not_ok n) binop_spellings) not_spellings = true ∧
  forallb (fun q => forallb (fun o1 => forallb (quant_ok q o1) binop_spellings)
                      binop_spellings) quant_spellings = true ∧
  forallb (fun o1 => forallb (rename_ok o1) binop_spellings) binop_spellings = true.
Proof. by vm_compute. Qed.

(** parentheses, [ite], node references, nesting *)
Lemma misc_forms :
  parse_spellings ["("; "a"; "|"; "b"; ")"; "&"; "c"] =
    Some (AOp2 "&" (AOp2 "|" (AVar "a") (AVar "b")) (AVar "c")) ∧
  parse_spellings ["ite"; "("; "a"; ","; "b"; "|"; "c"; ","; "~"; "c"; ")"] =
    Some (AIte (AVar "a") (AOp2 "|" (AVar "b") (AVar "c")) (AOp1 "!" (AVar "c"))) ∧
  parse_spellings ["@"; "12"; "&"; "@"; "-"; "3"] =
    Some (AOp2 "&" (ANum 12) (ANum (-3))) ∧
  parse_spellings ["~"; "\E"; "x"; ":"; "a"; "&"; "b"] =
    Some (AOp1 "!" (AQuant "\E" ["x"] (AOp2 "&" (AVar "a") (AVar "b")))).
Proof. by vm_compute. Qed.
