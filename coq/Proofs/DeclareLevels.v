(** * DeclareLevels: the levels that SEVERAL new names receive from
      [declare] (C14): the names not yet declared, in the order given (a
      repeated name counts at its first occurrence), get the next bottom
      levels [n, n+1, ...]; the declared names stay where they are. *)
From DD Require Export Vars.

(** the names of [vs] that [declare] really adds, in order: not in [D] (the
    declared names), first occurrences only *)
Fixpoint new_names (D : gset nat) (vs : list nat) : list nat :=
  match vs with
  | [] => []
  | v :: vs => if decide (v ∈ D) then new_names D vs else v :: new_names ({[v]} ∪ D) vs
  end.

Lemma new_names_elem D vs v : v ∈ new_names D vs ↔ v ∈ vs ∧ v ∉ D.
Proof.
  revert D. induction vs as [|x vs IH]; intros D; cbn [new_names].
  { split; [by intros ?%elem_of_nil|by intros [?%elem_of_nil _]]. }
  destruct (decide (x ∈ D)) as [Hx|Hx].
  - rewrite IH, elem_of_cons. split; [naive_solver|].
    intros [[->|?] ?]; [done|by split].
  - rewrite !elem_of_cons, IH. split.
    + intros [->|[? ?]]; [by split; [left|]|]. split; [by right|set_solver].
    + intros [[->|?] ?]; [by left|]. destruct (decide (v = x)) as [->|]; [by left|].
      right. split; [done|set_solver].
Qed.

Lemma new_names_NoDup D vs : NoDup (new_names D vs).
Proof.
  revert D. induction vs as [|x vs IH]; intros D; cbn [new_names]; [apply NoDup_nil_2|].
  destruct (decide (x ∈ D)); [apply IH|]. apply NoDup_cons. split; [|apply IH].
  rewrite new_names_elem. set_solver.
Qed.

Lemma new_names_sublist D vs : sublist (new_names D vs) vs.
Proof.
  revert D. induction vs as [|x vs IH]; intros D; cbn [new_names]; [done|].
  destruct (decide (x ∈ D)); [by apply sublist_cons|by apply sublist_skip].
Qed.

(** distinct undeclared names: all of them are new, in the order given *)
Lemma new_names_all D vs : NoDup vs → (∀ v, v ∈ vs → v ∉ D) → new_names D vs = vs.
Proof.
  revert D. induction vs as [|x vs IH]; intros D Hnd HD; cbn [new_names]; [done|].
  apply NoDup_cons in Hnd as [Hx Hnd].
  rewrite decide_False by (apply HD; by left). f_equal. apply IH; [done|].
  intros v Hv. specialize (HD v ltac:(by right)). set_solver.
Qed.

(** names already declared are skipped *)
Lemma new_names_none D vs : (∀ v, v ∈ vs → v ∈ D) → new_names D vs = [].
Proof.
  induction vs as [|x vs IH]; intros HD; cbn [new_names]; [done|].
  rewrite decide_True by (apply HD; by left). apply IH. intros v Hv. apply HD. by right.
Qed.

Theorem declare_levels s vs r s' :
  Inv s → declare vs s = (r, s') →
  r = Ok tt ∧ Inv s' ∧
  nvars s' = nvars s + length (new_names (dom (vars s)) vs) ∧
  (∀ v l, vars s !! v = Some l → vars s' !! v = Some l) ∧
  (∀ i v, new_names (dom (vars s)) vs !! i = Some v →
     vars s !! v = None ∧ vars s' !! v = Some (nvars s + i) ∧
     lvl2var s' !! (nvars s + i) = Some v) ∧
  (∀ v, is_Some (vars s' !! v) ↔
        is_Some (vars s !! v) ∨ v ∈ new_names (dom (vars s)) vs).
Proof.
  unfold declare. revert s. induction vs as [|v vs IH]; intros s HI; cbn [forM new_names].
  { intros [= <- <-]. split; [done|]. split; [done|]. split; [cbn; lia|].
    split; [done|]. split.
    - intros i v Hi. by rewrite lookup_nil in Hi.
    - intros v. split; [by left|]. by intros [?|?%elem_of_nil]. }
  unfold bind at 1. unfold bind at 1.
  destruct (add_var v None s) as [ra s1] eqn:Ea.
  destruct (vars s !! v) as [vl|] eqn:Ev.
  - (* already declared: skipped *)
    rewrite (add_var_existing s v vl None Ev) in Ea by (by left). injection Ea as <- <-.
    cbn [ret]. rewrite decide_True by (by apply elem_of_dom_2 in Ev). by apply IH.
  - (* new: the next bottom level *)
    destruct (add_var_new s v None ra s1 HI Ev ltac:(by left) Ea)
      as (->&HI1&Hn1&Ev1&_&_&_&_&_).
    cbn [ret]. rewrite decide_False by (by apply not_elem_of_dom).
    intros H. destruct (IH s1 HI1 H) as (->&HI'&Hn'&Hold'&Hnew'&Hdom').
    assert (Ed : dom (vars s1) = {[v]} ∪ dom (vars s)) by (by rewrite Ev1, dom_insert_L).
    rewrite Ed in Hn', Hnew', Hdom'.
    assert (Hold1 : ∀ x l, vars s !! x = Some l → vars s1 !! x = Some l).
    { intros x l Hx. rewrite Ev1, lookup_insert_ne; [done|]. intros <-. congruence. }
    split; [done|]. split; [done|]. split; [cbn [length]; lia|]. split; [|split].
    + intros x l Hx. by apply Hold', Hold1.
    + intros [|i] x Hi; cbn in Hi.
      * injection Hi as <-. split; [done|]. rewrite Nat.add_0_r.
        assert (Hv1 : vars s1 !! v = Some (nvars s)) by (by rewrite Ev1, lookup_insert).
        pose proof (Hold' _ _ Hv1) as Hv'. split; [done|]. by apply (inv_vars _ HI').
      * destruct (Hnew' i x Hi) as (Hx1&Hx'&Hl').
        replace (nvars s + S i) with (nvars s1 + i) by lia. split; [|done].
        rewrite Ev1 in Hx1. apply lookup_insert_None in Hx1. tauto.
    + intros x. rewrite Hdom', elem_of_cons, Ev1. split.
      * intros [Hx|Hx]; [|by right; right].
        destruct (decide (x = v)) as [->|Hne]; [right; by left|].
        left. by rewrite lookup_insert_ne in Hx.
      * intros [Hx|[->|Hx]]; [| |by right].
        -- left. destruct Hx as [l Hx]. exists l. rewrite <- Ev1. by apply Hold1.
        -- left. rewrite lookup_insert. by eexists.
Qed.

(** the common case: [k] distinct undeclared names get [n .. n+k-1] in order *)
Corollary declare_levels_fresh s vs r s' :
  Inv s → NoDup vs → (∀ v, v ∈ vs → vars s !! v = None) → declare vs s = (r, s') →
  r = Ok tt ∧ Inv s' ∧ nvars s' = nvars s + length vs ∧
  (∀ v l, vars s !! v = Some l → vars s' !! v = Some l) ∧
  (∀ i v, vs !! i = Some v →
     vars s' !! v = Some (nvars s + i) ∧ lvl2var s' !! (nvars s + i) = Some v).
Proof.
  intros HI Hnd Hnew H. destruct (declare_levels s vs r s' HI H) as (->&HI'&Hn&Hold&Hnw&_).
  rewrite (new_names_all (dom (vars s)) vs Hnd) in Hn, Hnw
    by (intros v Hv; apply not_elem_of_dom; by apply Hnew).
  split_and!; try done. intros i v Hi. by destruct (Hnw i v Hi) as (_&?&?).
Qed.

(** every name already declared: nothing changes *)
Corollary declare_levels_existing s vs :
  (∀ v, v ∈ vs → is_Some (vars s !! v)) → declare vs s = (Ok tt, s).
Proof.
  unfold declare. induction vs as [|v vs IH]; intros Hd; cbn [forM]; [done|].
  destruct (Hd v ltac:(by left)) as [vl Ev].
  unfold bind at 1. unfold bind at 1.
  rewrite (add_var_existing s v vl None Ev) by (by left). cbn [ret].
  apply IH. intros x Hx. apply Hd. by right.
Qed.

(** the driver operation [ODeclare] is [declare] *)
Lemma run_op_declare w vs s r s' :
  run_op w (ODeclare vs) s = (r, s') →
  ∃ r0, declare vs s = (r0, s') ∧ r = match r0 with Ok _ => Ok VU | Err e => Err e end.
Proof.
  cbn [run_op]. unfold bind. destruct (declare vs s) as [[[]|e] s1]; cbn [ret].
  - intros [= <- <-]. by eexists.
  - intros [= <- <-]. by eexists.
Qed.

Theorem op_declare_levels w s vs r s' :
  Inv s → run_op w (ODeclare vs) s = (r, s') →
  r = Ok VU ∧ Inv s' ∧
  nvars s' = nvars s + length (new_names (dom (vars s)) vs) ∧
  (∀ v l, vars s !! v = Some l → vars s' !! v = Some l) ∧
  (∀ i v, new_names (dom (vars s)) vs !! i = Some v →
     vars s !! v = None ∧ vars s' !! v = Some (nvars s + i) ∧
     lvl2var s' !! (nvars s + i) = Some v) ∧
  (∀ v, is_Some (vars s' !! v) ↔
        is_Some (vars s !! v) ∨ v ∈ new_names (dom (vars s)) vs).
Proof.
  intros HI H. destruct (run_op_declare w vs s r s' H) as (r0&Hd&->).
  by destruct (declare_levels s vs r0 s' HI Hd) as (->&?).
Qed.
