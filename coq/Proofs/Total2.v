(** * Total2: the history theorem of [Total] over a larger alphabet (C17).

    - [Driver.op]: in addition to [Total.allowed], [find_or_add] (with the
      caller obligation of [find_or_add_total]), [copy_bdd] from ANY source
      manager, [image]/[preimage] with any arguments, the harness setters
      that do not enable reordering, and the node limit [max_nodes] (any
      value: a full table makes a later call fail with [ERuntime], which is
      one of the outcomes that the theorems cover);
    - [Driver2.op2]: the read-only operations ([count], [pick_iter], [pick],
      [descendants], [succ], [level_of_var], [var_at_level], [len],
      [__contains__], [to_nx], [_to_dot], the pickle dumps), [undeclare_vars]
      and [__del__].
    Outside: the reordering entry points, [configure(reordering=True)],
    [OSetLastLen (Some _)] and the two pickle loads (see the end of the file).
    Dynamic reordering is disabled throughout. *)
From DD Require Export AutorefInv Vars.

(** ** 1. The new read-only computations *)
Lemma pure_sat_iter fuel : ∀ u cube value, pure (sat_iter fuel u cube value).
Proof.
  induction fuel as [|f IH]; intros u cube value; cbn [sat_iter]; [apply pure_raise|].
  pure; apply IH.
Qed.
Lemma pure_pick_iter u care : pure (pick_iter u care).
Proof. unfold pick_iter. pure; [apply pure_support|apply pure_sat_iter]. Qed.
Lemma pure_pick u care : pure (pick u care).
Proof. unfold pick. pure. apply pure_pick_iter. Qed.
Lemma pure_reach_from roots : pure (reach_from roots).
Proof. unfold reach_from. pure. apply pure_descendants_rec. Qed.
Lemma pure_to_nx roots : pure (to_nx roots).
Proof. unfold to_nx. pure. apply pure_reach_from. Qed.
Lemma pure_to_dot roots : pure (to_dot roots).
Proof. unfold to_dot. pure; apply pure_descendants. Qed.
Lemma pure_dump_pickle roots order vorder : pure (dump_pickle roots order vorder).
Proof.
  unfold dump_pickle. pure; first [apply pure_descendants | apply pure_level_of_var].
Qed.
Lemma pure_dump_manager vorder : pure (dump_manager vorder).
Proof. unfold dump_manager. pure. apply pure_level_of_var. Qed.

Lemma nrf_sat_len fuel : ∀ u ml all_ d, nrf (sat_len fuel u ml all_ d).
Proof.
  induction fuel as [|f IH]; intros u ml all_ d; cbn [sat_len]; [by apply nrf_raise|].
  nrf; first [apply IH | apply nrf_level_of].
Qed.
Lemma nrf_count u n : nrf (count u n).
Proof.
  unfold count. nrf;
    first [apply nrf_support | apply nrf_level_of_var | apply nrf_sat_len | apply nrf_level_of].
Qed.
Lemma nrf_sat_iter fuel : ∀ u cube value, nrf (sat_iter fuel u cube value).
Proof.
  induction fuel as [|f IH]; intros u cube value; cbn [sat_iter]; [by apply nrf_raise|].
  nrf; apply IH.
Qed.
Lemma nrf_pick_iter u care : nrf (pick_iter u care).
Proof. unfold pick_iter. nrf; [apply nrf_support|apply nrf_sat_iter]. Qed.
Lemma nrf_pick u care : nrf (pick u care).
Proof. unfold pick. nrf. apply nrf_pick_iter. Qed.
Lemma nrf_descendants_rec fuel : ∀ u visited, nrf (descendants_rec fuel u visited).
Proof.
  induction fuel as [|f IH]; intros u visited; cbn [descendants_rec]; [by apply nrf_raise|].
  nrf; apply IH.
Qed.
Lemma nrf_descendants roots : nrf (descendants roots).
Proof. unfold descendants. nrf. apply nrf_descendants_rec. Qed.
Lemma nrf_to_nx roots : nrf (to_nx roots).
Proof. unfold to_nx, reach_from. nrf. apply nrf_descendants_rec. Qed.
Lemma nrf_to_dot roots : nrf (to_dot roots).
Proof. unfold to_dot. nrf; apply nrf_descendants. Qed.
Lemma nrf_dump_pickle roots order vorder : nrf (dump_pickle roots order vorder).
Proof.
  unfold dump_pickle. nrf; first [apply nrf_descendants | apply nrf_level_of_var].
Qed.
Lemma nrf_dump_manager vorder : nrf (dump_manager vorder).
Proof. unfold dump_manager. nrf. apply nrf_level_of_var. Qed.

(** ** 2. The new node-building operations never request a reordering *)
Lemma nrf_top_cofactorZ u i : nrf (top_cofactorZ u i).
Proof. unfold top_cofactorZ. nrf. apply nrf_top_cofactor. Qed.
Lemma nrf_image_rec fuel : ∀ u v um vm q fa cache, nrf (image_rec fuel u v um vm q fa cache).
Proof.
  induction fuel as [|f IH]; intros u v um vm q fa cache; cbn [image_rec];
    [by apply nrf_raise|].
  nrf; first [apply IH | apply nrf_ite | apply nrf_find_or_add | apply nrf_level_of
             | apply nrf_top_cofactor | apply nrf_top_cofactorZ].
Qed.
Lemma nrf_map_rename byname rn : nrf (map_rename byname rn).
Proof. unfold map_rename. nrf. Qed.
Lemma nrf_all_adjacent l : nrf (all_adjacent l).
Proof.
  induction l as [|[i j] l IH]; cbn [all_adjacent]; [apply nrf_ret|].
  nrf; apply nrf_var_at_level.
Qed.
Lemma nrf_support_levels u : nrf (support_levels u).
Proof. unfold support_levels. nrf. apply nrf_support_rec. Qed.
Lemma nrf_image t s bn rn qbn q fa : nrf (image t s bn rn qbn q fa).
Proof.
  unfold image.
  nrf; first [apply nrf_map_to_level_set | apply nrf_map_rename | apply nrf_all_adjacent
             | apply nrf_support_levels | apply nrf_image_rec].
Qed.
Lemma nrf_preimage t s bn rn qbn q fa : nrf (preimage t s bn rn qbn q fa).
Proof.
  unfold preimage.
  nrf; first [apply nrf_map_to_level_set | apply nrf_map_rename | apply nrf_var_at_level
             | apply nrf_image_rec].
Qed.
Lemma nrf_copy_bdd src u : nrf (copy_bdd src u).
Proof. unfold copy_bdd. nrf. apply nrf_copy_bdd_rec. Qed.

(** ** 3. One manager, alphabet [Driver.op] *)

(** references that keep their function by variable names *)
Definition keeps (s s' : st) : Prop :=
  ∀ u, valid s u → valid s' u ∧ ∀ ρ, denv s' u ρ = denv s u ρ.
Lemma keeps_refl s : keeps s s.
Proof. by intros u Hu. Qed.
Lemma safe_keeps s s' : Inv s → safe s s' → keeps s s'.
Proof. intros HI Hs u Hu. destruct (safe_den s s' HI Hs u Hu) as (?&_&?). done. Qed.

Definition extra1 (o : op) : bool :=
  match o with
  | OFindOrAdd _ _ _ | OCopy _ _ | OImage _ _ _ _ _ _ _ | OPreimage _ _ _ _ _ _ _
  | OSetRoots _ | OTape _ | OSetTrig _ | OSetMaxNodes _ => true
  | OSetLastLen l => bool_decide (l = None)
  | _ => false
  end.
Definition allowed1 (o : op) : bool := allowed o || extra1 o.

(** the obligation of [find_or_add]'s caller: a level above both children *)
Definition caller_ok1 (s : st) (o : op) : Prop :=
  caller_ok s o ∧
  match o with
  | OFindOrAdd i v w =>
      i < nvars s → valid s v → valid s w → v ≠ w → i < lvl_of s v ∧ i < lvl_of s w
  | _ => True
  end.

(** the extra operations: the state reached is [Good], extends the old one
    except for the harness fields *)
Lemma run_extra1 w o s r s' :
  extra1 o = true → Good s → caller_ok1 s o → run_op w o s = (r, s') →
  Good s' ∧ keeps s s' ∧ r ≠ Err ENeedsReordering.
Proof.
  intros Hx HG [_ Hgd] H. pose proof HG as (HI&Hl&L&HL).
  assert (Hts : ∀ {A} (m : MS A) (r0 : res A), nrf m → tsafe m → m s = (r0, s') →
            Good s' ∧ keeps s s' ∧ ∀ e, r0 = Err e → e ≠ ENeedsReordering).
  { intros A m r0 Hn Ht Hm. pose proof (Ht s r0 s' HI Hl Hm) as Hs.
    split; [by apply (Good_safe s)|]. split; [by apply safe_keeps|].
    intros e -> ->. by destruct (Hn s _ s' Hl Hm). }
  assert (Hsame : ∀ s1, same_tables s s1 → refc s1 = refc s → last_len s1 = None →
            Good s1 ∧ keeps s s1).
  { intros s1 Hs Hr Hl1. pose proof Hs as (E1&_&_&_&_&E6&E7). split.
    - split; [by apply (Inv_same s)|]. split; [done|]. exists L.
      by apply (Counts_same s).
    - intros u Hu. split; [unfold valid in *; by rewrite E1|].
      intros ρ. unfold denv. rewrite E7. by apply D_same. }
  destruct o; try discriminate Hx; cbn [run_op] in H.
  - (* OFindOrAdd *)
    destruct (find_or_add i v w0 s) as [r0 s1] eqn:E.
    assert (s1 = s' ∧ (∀ e, r = Err e → r0 = Err e)) as [<- Hre].
    { revert H. unfold bind. rewrite E. destruct r0; intros [= <- <-]; split; try done.
      by intros e0 [= ->]. }
    pose proof (find_or_add_total s i v w0 r0 s1 HI Hgd E) as Hs.
    split; [by apply (Good_safe s)|]. split; [by apply safe_keeps|].
    intros ->. specialize (Hre _ eq_refl). subst r0.
    by destruct (nrf_find_or_add i v w0 s _ s1 Hl E).
  - (* OTape *)
    cbn [bind modify ret] in H. injection H as <- <-.
    destruct (Hsame (s <| tape := t |>)) as [HG1 HK1]; [by repeat split|done|done|].
    split; [done|split; [done|done]].
  - (* OSetLastLen None *)
    cbn [extra1] in Hx. apply bool_decide_eq_true in Hx as ->.
    cbn [bind modify ret] in H. injection H as <- <-.
    destruct (Hsame (s <| last_len := None |>)) as [HG1 HK1]; [by repeat split|done|done|].
    split; [done|split; [done|done]].
  - (* OSetTrig *)
    cbn [bind modify ret] in H. injection H as <- <-.
    destruct (Hsame (s <| trig := k |>)) as [HG1 HK1]; [by repeat split|done|done|].
    split; [done|split; [done|done]].
  - (* OSetRoots *)
    cbn [bind modify ret] in H. injection H as <- <-.
    destruct (Hsame (s <| roots := r0 |>)) as [HG1 HK1]; [by repeat split|done|done|].
    split; [done|split; [done|done]].
  - (* OSetMaxNodes: [bdd.max_nodes = n] *)
    cbn [bind modify ret] in H. injection H as <- <-.
    destruct (Hsame (s <| max_nodes := n |>)) as [HG1 HK1]; [by repeat split|done|done|].
    split; [done|split; [done|done]].
  - (* OCopy *)
    destruct (w !! src) as [ssrc|].
    + destruct (copy_bdd ssrc u s) as [r0 s1] eqn:E.
      assert (E0 : copy_bdd_pub ssrc u s = copy_bdd ssrc u s) by apply (guarded_none _ s Hl).
      assert (s1 = s' ∧ (∀ e, r = Err e → r0 = Err e)) as [<- Hre].
      { revert H. unfold bind. rewrite E0, E. destruct r0; intros [= <- <-]; split; try done.
        by intros e0 [= ->]. }
      destruct (Hts _ _ r0 (nrf_copy_bdd ssrc u) (tsafe_copy_bdd ssrc u) E) as (?&?&Hn).
      split; [done|split; [done|]]. intros ->. by apply (Hn _ (Hre _ eq_refl)).
    + injection H as <- <-. split; [done|split; [apply keeps_refl|done]].
  - (* OImage *)
    destruct (image t s0 byname rn qbyname q fa s) as [r0 s1] eqn:E.
    assert (E0 : image_pub t s0 byname rn qbyname q fa s = image t s0 byname rn qbyname q fa s)
      by apply (guarded_none _ s Hl).
    assert (s1 = s' ∧ (∀ e, r = Err e → r0 = Err e)) as [<- Hre].
    { revert H. unfold bind. rewrite E0, E. destruct r0; intros [= <- <-]; split; try done.
      by intros e0 [= ->]. }
    destruct (Hts _ _ r0 (nrf_image _ _ _ _ _ _ _) (tsafe_image _ _ _ _ _ _ _) E) as (?&?&Hn).
    split; [done|split; [done|]]. intros ->. by apply (Hn _ (Hre _ eq_refl)).
  - (* OPreimage *)
    destruct (preimage t s0 byname rn qbyname q fa s) as [r0 s1] eqn:E.
    assert (E0 : preimage_pub t s0 byname rn qbyname q fa s = preimage t s0 byname rn qbyname q fa s)
      by apply (guarded_none _ s Hl).
    assert (s1 = s' ∧ (∀ e, r = Err e → r0 = Err e)) as [<- Hre].
    { revert H. unfold bind. rewrite E0, E. destruct r0; intros [= <- <-]; split; try done.
      by intros e0 [= ->]. }
    destruct (Hts _ _ r0 (nrf_preimage _ _ _ _ _ _ _) (tsafe_preimage _ _ _ _ _ _ _) E) as (?&?&Hn).
    split; [done|split; [done|]]. intros ->. by apply (Hn _ (Hre _ eq_refl)).
Qed.

Theorem run_op1_good w o s r s' :
  allowed1 o = true → (is_new o = false → Good s ∧ caller_ok1 s o) →
  run_op w o s = (r, s') → Good s'.
Proof.
  intros Ha Hpre H. unfold allowed1 in Ha. destruct (allowed o) eqn:Ha0.
  - apply (run_op_good w o s r s' Ha0); [|done]. intros Hn. destruct (Hpre Hn) as [? [? _]]. done.
  - cbn [orb] in Ha. assert (Hn : is_new o = false) by (by destruct o).
    destruct (Hpre Hn) as [HG Hc]. by destruct (run_extra1 w o s r s' Ha HG Hc H).
Qed.

(** a failing call: [Good], and every reference keeps its function *)
Theorem run_op1_err w o s e s' :
  allowed1 o = true → is_new o = false → Good s → caller_ok1 s o →
  run_op w o s = (Err e, s') →
  Good s' ∧ keeps s s' ∧ e ≠ ENeedsReordering.
Proof.
  intros Ha Hn HG Hc H. unfold allowed1 in Ha. destruct (allowed o) eqn:Ha0.
  - destruct (run_op_err w o s e s' Ha0 Hn HG (proj1 Hc) H) as [Hs He].
    split; [by apply (Good_safe s)|]. split; [|done]. apply safe_keeps; [apply HG|done].
  - cbn [orb] in Ha. destruct (run_extra1 w o s _ s' Ha HG Hc H) as (?&?&Hr).
    split; [done|split; [done|]]. by intros ->.
Qed.

(** ** 4. One manager, alphabet [Driver2.op2] *)

(** the operations that never change the manager *)
Definition readonly2 (o : op2) : bool :=
  match o with
  | OCount _ _ | OPickIter _ _ | OPick _ _ | ODescendants _ | OSucc _
  | OLevelOfVar _ | OVarAtLevel _ | OLen | OContains _ | OToNx _ | OToDot _
  | ODump _ _ _ _ | ODumpManager _ _ => true
  | O1 (OSupport _) | O1 (OIsEssential _ _) | O1 (ORef _) => true
  | _ => false
  end.

Definition allowed2 (o : op2) : bool :=
  match o with
  | O1 o => allowed1 o
  | OLoad _ _ | OLoadManager _ => false
  | _ => true
  end.
Definition is_new2 (o : op2) : bool :=
  match o with O1 o => is_new o | _ => false end.

(** [__del__] drops the manager's own reference to the terminal: the
    obligation is that of [decref(1)] *)
Definition caller_ok2 (s : st) (o : op2) : Prop :=
  match o with
  | O1 o => caller_ok1 s o
  | OShutdown => caller_ok s (ODecref 1)
  | _ => True
  end.

Lemma pure_run_op2_readonly w o : readonly2 o = true → pure (run_op2 w o).
Proof.
  intros Hr. destruct o as [o| | | | | | | | | | | | | | | | | ]; try discriminate Hr; cbn [run_op2].
  - destruct o; try discriminate Hr; cbn [run_op]; pure;
      first [apply pure_ref | apply pure_support | apply pure_is_essential].
  - pure. apply pure_count.
  - pure. apply pure_pick_iter.
  - pure. apply pure_pick.
  - pure. apply pure_descendants.
  - pure.
  - pure. apply pure_level_of_var.
  - pure. apply pure_var_at_level.
  - pure.
  - pure.
  - pure. apply pure_to_nx.
  - pure. apply pure_to_dot.
  - apply pure_raise.
  - apply pure_raise.
Qed.

Lemma nrf_run_op2_readonly w o : readonly2 o = true → nrf (run_op2 w o).
Proof.
  intros Hr. destruct o as [o| | | | | | | | | | | | | | | | | ]; try discriminate Hr; cbn [run_op2].
  - destruct o; try discriminate Hr; cbn [run_op]; nrf;
      first [apply nrf_ref | apply nrf_support | apply nrf_is_essential].
  - nrf. apply nrf_count.
  - nrf. apply nrf_pick_iter.
  - nrf. apply nrf_pick.
  - nrf. apply nrf_descendants.
  - nrf.
  - nrf. apply nrf_level_of_var.
  - nrf. apply nrf_var_at_level.
  - nrf.
  - nrf.
  - nrf. apply nrf_to_nx.
  - nrf. apply nrf_to_dot.
  - by apply nrf_raise.
  - by apply nrf_raise.
Qed.

(** [__del__] *)
Theorem shutdown_good s r s' :
  Good s → caller_ok s (ODecref 1) → shutdown s = (r, s') →
  Good s' ∧ vars s' = vars s ∧ lvl2var s' = lvl2var s ∧ succ s' ⊆ succ s ∧ ∃ b, r = Ok b.
Proof.
  intros (HI&Hl&L&HL) Hgd. unfold shutdown.
  assert (Hv1 : valid s 1) by (by apply valid_1).
  assert (is_Some (refc s !! 1%positive)) as [r1 Hr1].
  { apply elem_of_dom. rewrite (inv_ref _ HI). apply elem_of_dom, Hv1. }
  assert (Eref : ref 1 s = (Ok r1, s)).
  { unfold ref. rewrite decide_False by done. by apply getref_ok. }
  rewrite (bind_ok _ _ _ _ _ Eref).
  assert (∃ s1 L1, (if decide (0 < r1) then decref 1 else ret tt) s = (Ok tt, s1) ∧
            Inv s1 ∧ Counts s1 L1 ∧ extends s s1 ∧ frame s s1) as (s1&L1&E1&HI1&HL1&He1&Hf1).
  { case_decide as Hpos.
    - destruct (decref 1 s) as [rd s1] eqn:Ed.
      destruct (decref_total s 1 rd s1 HI Ed) as (HI1&He1&Hf1&Hv&_).
      destruct (Hv Hv1) as [-> HC]. exists s1, (ledger_dec L (absn 1)).
      split; [done|]. split; [done|]. split; [|done].
      apply HC; [done|]. cbn [caller_ok] in Hgd. specialize (Hgd Hv1).
      destruct HL as [H1 _]. rewrite (H1 (absn 1)) in Hgd by apply elem_of_dom, Hv1.
      cbn in Hgd. lia.
    - exists s, L. split; [done|]. split; [done|]. split; [done|]. split; reflexivity. }
  rewrite (bind_ok _ _ _ _ _ E1).
  destruct (collect_garbage None s1) as [rg s2] eqn:Eg.
  destruct (collect_garbage_total None s1 L1 rg s2 HI1 HL1 Eg)
    as (HI2&HL2&Ev2&El2&Hf2&Hsub2&[(->&_)|(_&_&Hn)]); [|by destruct Hn].
  rewrite (bind_ok _ _ _ _ _ Eg). cbn [bind get ret]. intros [= <- <-].
  destruct He1 as (Hs1&Ev1&El1). destruct Hf1 as (Ef1&_), Hf2 as (Ef2&_).
  split; [|split; [congruence|split; [congruence|split; [|by eexists]]]].
  - split; [done|]. split; [congruence|]. by exists L1.
  - intros k. specialize (Hsub2 k). specialize (Hs1 k).
    destruct (succ s2 !! k) as [t2|] eqn:E2; cbn in *; [|by destruct (succ s !! k)].
    destruct (succ s1 !! k) as [t1|] eqn:E1'; cbn in Hsub2; [|done]. subst t2.
    destruct (succ s !! k) as [t0|] eqn:E0; cbn in Hs1.
    + by subst t1.
    + (* a node of [s1] that is no node of [s]: impossible, same node set *)
      exfalso. destruct (decide (0 < r1)) as [Hpos|Hpos].
      * rewrite decref_run in E1; [|done|by eexists]. injection E1 as <-.
        cbn in E1'. congruence.
      * injection E1 as <-. congruence.
Qed.

(** [undeclare_vars] through the driver *)
Lemma undeclare_good s vs r s' :
  Good s → undeclare_vars vs s = (r, s') →
  Good s' ∧ keeps s s' ∧
  ((∃ rm, r = Ok rm) ∨ (r = Err EValue ∧ s' = s)).
Proof.
  intros (HI&Hl&L&HL) H.
  destruct (undeclare_spec s vs r s' HI H)
    as [(_&->&->)|(_&rm&->&_&HI'&(Ef&_)&_&_&_&_&_&_&HC&Hd)].
  - split; [by split_and!; [| |exists L]|]. split; [apply keeps_refl|]. by right.
  - split; [|split; [done|left; by eexists]].
    split; [done|]. split; [congruence|]. exists L. by apply HC.
Qed.

Theorem run_op2_good w o s r s' :
  allowed2 o = true → (is_new2 o = false → Good s ∧ caller_ok2 s o) →
  run_op2 w o s = (r, s') → Good s'.
Proof.
  intros Ha Hpre H.
  destruct (readonly2 o) eqn:Hro.
  { rewrite (pure_run_op2_readonly w o Hro _ _ _ H).
    assert (Hn : is_new2 o = false) by (destruct o as [[]| | | | | | | | | | | | | | | | | ]; done).
    by destruct (Hpre Hn). }
  destruct o as [o| | | | | | | | | | | | | | | | | ]; try discriminate Hro; try discriminate Ha;
    cbn [run_op2] in H.
  - by apply (run_op1_good w o s r s').
  - destruct (Hpre eq_refl) as [HG _]. apply bind_fst_state in H as [r0 H].
    by destruct (undeclare_good s vs r0 s' HG H).
  - destruct (Hpre eq_refl) as [HG Hgd]. apply bind_fst_state in H as [r0 H].
    by destruct (shutdown_good s r0 s' HG Hgd H).
Qed.

(** a failing call of the extended alphabet: the manager is [Good], every
    reference keeps its function by variable names, the exception is not the
    reordering signal; the read-only operations leave the state untouched *)
Theorem run_op2_err w o s e s' :
  allowed2 o = true → is_new2 o = false → Good s → caller_ok2 s o →
  run_op2 w o s = (Err e, s') →
  Good s' ∧ keeps s s' ∧ e ≠ ENeedsReordering ∧ (readonly2 o = true → s' = s).
Proof.
  intros Ha Hn HG Hgd H.
  destruct (readonly2 o) eqn:Hro.
  { pose proof (pure_run_op2_readonly w o Hro _ _ _ H) as ->.
    split; [done|]. split; [apply keeps_refl|]. split; [|done].
    destruct HG as (_&Hl&_). destruct (nrf_run_op2_readonly w o Hro s _ s Hl H) as [_ Hr].
    by intros ->. }
  destruct o as [o| | | | | | | | | | | | | | | | | ]; try discriminate Hro; try discriminate Ha;
    cbn [run_op2] in H.
  - destruct (run_op1_err w o s e s' Ha Hn HG Hgd H) as (?&?&?). by split_and!.
  - apply bind_ret_err in H.
    destruct (undeclare_good s vs _ s' HG H) as (?&?&[[rm [=]]|[[= ->] ->]]). by split_and!.
  - apply bind_ret_err in H.
    by destruct (shutdown_good s _ s' HG Hgd H) as (_&_&_&_&b&[=]).
Qed.

(** a successful read-only call changes nothing either *)
Theorem run_op2_readonly w o s r s' :
  readonly2 o = true → run_op2 w o s = (r, s') → s' = s.
Proof. intros Hro. apply (pure_run_op2_readonly w o Hro). Qed.

(** ** 5. Worlds: several managers and the file store *)
Definition WGood (w : world2) : Prop := ∀ m s, w_mgrs w !! m = Some s → Good s.

Lemma WGood_empty : WGood world2_empty.
Proof.
  intros m s H. change ((∅ : gmap nat st) !! m = Some s) in H. by rewrite lookup_empty in H.
Qed.

(** the call proper, with the short cut of [copy_bdd] inside one manager *)
Definition exec2 (w : world2) (m : nat) (o : op2) (s : st) : res value * st :=
  match o with
  | O1 (OCopy src u) =>
      if decide (src = m) then (Ok (VZ u), s) else run_op2 (w_mgrs w) o s
  | _ => run_op2 (w_mgrs w) o s
  end.

Lemma step2_noio w m o : run_io w o = None →
  step2 w m o =
  (let '(r, s') := exec2 w m o (world2_get w m) in
   let s' := match o with O1 (OTape _) => s' | _ => s' <| tape := [] |> end in
   (w <| w_mgrs ::= <[m := s']> |>, r)).
Proof. unfold step2. intros ->. reflexivity. Qed.

Lemma exec2_cases w m o s :
  exec2 w m o s = run_op2 (w_mgrs w) o s ∨
  (∃ u, o = O1 (OCopy m u) ∧ exec2 w m o s = (Ok (VZ u), s)).
Proof.
  destruct o as [[]| | | | | | | | | | | | | | | | | ]; try (by left).
  cbn [exec2]. case_decide as E; [right|by left]. subst. by eexists.
Qed.

Lemma exec2_good w m o s r s' :
  allowed2 o = true → (is_new2 o = false → Good s ∧ caller_ok2 s o) →
  exec2 w m o s = (r, s') → Good s'.
Proof.
  intros Ha Hpre H. destruct (exec2_cases w m o s) as [E|(u&->&E)]; rewrite E in H.
  - by apply (run_op2_good (w_mgrs w) o s r s').
  - injection H as <- <-. by destruct (Hpre eq_refl).
Qed.

Lemma Good_tape2 o s' : Good s' →
  Good (match o with O1 (OTape _) => s' | _ => s' <| tape := [] |> end).
Proof.
  intros HG. destruct o as [[]| | | | | | | | | | | | | | | | | ]; try done; by apply Good_tape.
Qed.

(** the manager [m] after one call, and its outcome *)
Theorem step2_spec w m o :
  allowed2 o = true →
  (is_new2 o = false → Good (world2_get w m) ∧ caller_ok2 (world2_get w m) o) →
  ∃ s'', w_mgrs (fst (step2 w m o)) = <[m := s'']> (w_mgrs w) ∧ Good s'' ∧
         (readonly2 o = true → same_tables (world2_get w m) s'' ∧
                               refc s'' = refc (world2_get w m)).
Proof.
  intros Ha Hpre. set (s := world2_get w m) in *.
  assert (Hio : ∀ {A} (mio : MS A) (f : A → value * world2),
            pure mio → (∀ a, w_mgrs (snd (f a)) = w_mgrs w) → is_new2 o = false →
            run_io w o = Some (a <- mio ;; ret (f a)) →
            ∃ s'', w_mgrs (fst (step2 w m o)) = <[m := s'']> (w_mgrs w) ∧ Good s'' ∧
              (readonly2 o = true → same_tables s s'' ∧ refc s'' = refc s)).
  { intros A mio f Hp Hf Hn Hrio. destruct (Hpre Hn) as [HG _].
    exists (s <| tape := [] |>). split; [|split; [by apply Good_tape|by repeat split]].
    unfold step2. rewrite Hrio. fold (world2_get w m). fold s. unfold bind.
    destruct (mio s) as [[a|e] s1] eqn:E; pose proof (Hp _ _ _ E) as ->; cbn [ret].
    - destruct (f a) as [v w'] eqn:Ef. specialize (Hf a). rewrite Ef in Hf. cbn in Hf |- *.
      by rewrite Hf.
    - done. }
  destruct (run_io w o) as [io|] eqn:Hrio.
  - destruct o as [o| | | | | | | | | | | | | | | | | ]; try discriminate Hrio;
      try discriminate Ha; cbn [run_io] in Hrio.
    + by apply (Hio _ (dump_pickle roots order vorder)
                  (fun pf => (VU, w <| w_files ::= <[fid := pf]> |>))
                  (pure_dump_pickle _ _ _)).
    + by apply (Hio _ (dump_manager vorder)
                  (fun mf => (VU, w <| w_mfiles ::= <[fid := mf]> |>))
                  (pure_dump_manager _)).
  - clear Hio. rewrite (step2_noio w m o Hrio). fold s.
    destruct (exec2 w m o s) as [r s'] eqn:E. cbn [fst].
    eexists. split; [reflexivity|].
    pose proof (exec2_good w m o s r s' Ha Hpre E) as HG'.
    split; [by apply Good_tape2|].
    intros Hro. assert (s' = s) as ->.
    { destruct (exec2_cases w m o s) as [E'|(u&->&E')]; [|done].
      rewrite E' in E. by apply (pure_run_op2_readonly _ o Hro _ _ _ E). }
    destruct o as [[]| | | | | | | | | | | | | | | | | ]; try discriminate Hro; by repeat split.
Qed.

Theorem step2_good w m o :
  WGood w → allowed2 o = true →
  (is_new2 o = false → is_Some (w_mgrs w !! m)) →
  caller_ok2 (world2_get w m) o →
  WGood (fst (step2 w m o)).
Proof.
  intros HW Ha Hex Hgd.
  destruct (step2_spec w m o Ha) as (s''&E&HG&_).
  { intros Hn. destruct (Hex Hn) as [s0 Hs0]. split; [|done].
    unfold world2_get. rewrite Hs0. by apply (HW m). }
  intros m' s0. rewrite E. unfold world. destruct (decide (m' = m)) as [->|Hne].
  - rewrite lookup_insert. by intros [= <-].
  - rewrite lookup_insert_ne by done. apply HW.
Qed.

(** histories: calls on any manager of the world, in any interleaving *)
Fixpoint hist_ok2 (w : world2) (ops : list (nat * op2)) : Prop :=
  match ops with
  | [] => True
  | (m, o) :: ops =>
      allowed2 o = true ∧ (is_new2 o = false → is_Some (w_mgrs w !! m)) ∧
      caller_ok2 (world2_get w m) o ∧ hist_ok2 (fst (step2 w m o)) ops
  end.
Definition run2 (w : world2) (ops : list (nat * op2)) : world2 :=
  fold_left (fun w '(m, o) => fst (step2 w m o)) ops w.

Theorem history2_good ops : ∀ w, WGood w → hist_ok2 w ops → WGood (run2 w ops).
Proof.
  induction ops as [|[m o] ops IH]; intros w HW Hh; [done|].
  destruct Hh as (Ha&Hex&Hgd&Hh). cbn [run2 fold_left]. apply IH; [|done].
  by apply step2_good.
Qed.

(** from the empty world: every manager is created by its first call *)
Corollary history2_from_empty ops :
  hist_ok2 world2_empty ops → WGood (run2 world2_empty ops).
Proof. apply history2_good, WGood_empty. Qed.

(** the outcome of one call in a good world *)
Theorem step2_err w m o e :
  WGood w → allowed2 o = true → is_new2 o = false → is_Some (w_mgrs w !! m) →
  caller_ok2 (world2_get w m) o →
  snd (step2 w m o) = Err e →
  Good (world2_get (fst (step2 w m o)) m) ∧
  keeps (world2_get w m) (world2_get (fst (step2 w m o)) m) ∧
  e ≠ ENeedsReordering.
Proof.
  intros HW Ha Hn [s0 Hs0] Hgd Hr.
  assert (Hs : world2_get w m = s0) by (unfold world2_get; by rewrite Hs0).
  assert (HG : Good s0) by (by apply (HW m)).
  rewrite Hs in *.
  assert (Hk_tape : ∀ s1 t, keeps s0 s1 → keeps s0 (s1 <| tape := t |>)).
  { intros s1 t Hk u Hu. destruct (Hk u Hu) as [Hv Hρ]. split; [done|].
    intros ρ. rewrite <- Hρ. unfold denv. by apply D_same. }
  destruct (run_io w o) as [io|] eqn:Hrio.
  - (* the dumps *)
    assert (Hio : ∀ {A} (mio : MS A) (f : A → value * world2),
              pure mio → nrf mio → (∀ a, w_mgrs (snd (f a)) = w_mgrs w) →
              run_io w o = Some (a <- mio ;; ret (f a)) →
              Good (world2_get (fst (step2 w m o)) m) ∧
              keeps s0 (world2_get (fst (step2 w m o)) m) ∧ e ≠ ENeedsReordering).
    { intros A mio f Hp Hnr Hf Hrio'. revert Hr. unfold step2.
      rewrite Hrio'. fold (world2_get w m). rewrite Hs. unfold bind.
      destruct (mio s0) as [[a|e0] s1] eqn:E; pose proof (Hp _ _ _ E) as ->; cbn [ret].
      - destruct (f a) as [v w'] eqn:Ef. done.
      - unfold world2_get. cbn. unfold world. rewrite lookup_insert. cbn. intros [= ->].
        split; [by apply Good_tape|]. split; [apply Hk_tape, keeps_refl|].
        destruct HG as (_&Hl&_). destruct (Hnr s0 _ s0 Hl E) as [_ Hne]. by intros ->. }
    destruct o as [o| | | | | | | | | | | | | | | | | ]; try discriminate Hrio;
      try discriminate Ha; cbn [run_io] in Hrio.
    + by apply (Hio _ (dump_pickle roots order vorder)
                  (fun pf => (VU, w <| w_files ::= <[fid := pf]> |>))
                  (pure_dump_pickle _ _ _) (nrf_dump_pickle _ _ _)).
    + by apply (Hio _ (dump_manager vorder)
                  (fun mf => (VU, w <| w_mfiles ::= <[fid := mf]> |>))
                  (pure_dump_manager _) (nrf_dump_manager _)).
  - revert Hr. rewrite (step2_noio w m o Hrio), Hs.
    destruct (exec2 w m o s0) as [r s'] eqn:E. cbn [fst snd]. intros ->.
    unfold world2_get. cbn. unfold world. rewrite lookup_insert. cbn [default].
    destruct (exec2_cases w m o s0) as [E'|(u&->&E')]; rewrite E' in E; [|done].
    destruct (run_op2_err (w_mgrs w) o s0 e s' Ha Hn HG Hgd E) as (HG'&Hk&He&_).
    split; [by apply Good_tape2|]. split; [|done].
    destruct o as [[]| | | | | | | | | | | | | | | | | ]; try done; by apply Hk_tape.
Qed.

(** ** 6. Outside the alphabet, and why

    - [OSwap], [OReorder], [OReorderPairs], [OConfigure (Some true)],
      [OSetLastLen (Some _)]: they reorder or enable dynamic reordering; every
      theorem here assumes [last_len = None] (see [Dynamic], [Swap*]);
    - [OLoadManager]: replaces every table by the contents of the file;
    - [OLoad]: the file is an input.  For a file written by [ODump] from a
      manager with the same variable order [Pickle.pickle_roundtrip_into] gives
      the success path.  For an ARBITRARY file the call is not safe, not even
      on the failure path: the variable loop calls [add_var(v, level)] with
      the levels of the file, in the order of the file, and [add_var] accepts a
      level beyond the next free one (finding [add_var_gap] of C14).  The
      file [{v0: 1, v1: 1}] makes the first [add_var] succeed and the second
      one fail: the call raises [ValueError] and the manager it leaves is not
      well-formed (one variable, at level 1). *)
Definition junk_file : pfile := PFile [(0, 1); (1, 1)] [] RNone.

Example load_junk_refuted :
  fst (load_pickle junk_file true init) = Err EValue ∧
  ¬ Inv (snd (load_pickle junk_file true init)).
Proof.
  split; [by vm_compute|]. intros HI.
  pose proof (proj1 (inv_lvls _ HI 0)) as H.
  assert (Hn : nvars (snd (load_pickle junk_file true init)) = 1) by (by vm_compute).
  rewrite Hn in H. destruct H as [x Hx]; [lia|]. by vm_compute in Hx.
Qed.
