(** * Sift3: [_sort_to_order] is bubble sort by adjacent swaps *)
From DD Require Export Sift2.

(** ** the combinatorial core, on a key function [f : level → option key] *)
Section bubble.
Context (n : nat).
Implicit Types f : nat → option nat.

(** keys are total, bounded and injective on the levels *)
Definition keyfun f : Prop :=
  (∀ l, l < n → ∃ p, f l = Some p ∧ p < n) ∧
  (∀ l l' p, l < n → l' < n → f l = Some p → f l' = Some p → l = l').
(** the last [k] levels hold their own number *)
Definition fixk f (k : nat) : Prop := ∀ l, n - k ≤ l → l < n → f l = Some l.
(** level [j] holds the maximum of levels [0..j] *)
Definition maxat f (j : nat) : Prop :=
  ∀ l p q, l ≤ j → f l = Some p → f j = Some q → p ≤ q.

Lemma pigeon f m q : keyfun f → m < n → f m = Some q → maxat f m → m ≤ q.
Proof.
  intros [Hb Hi] Hm Hq Hmax.
  set (g := fun l => default 0 (f l)).
  assert (Hnd : NoDup (g <$> seq 0 (S m))).
  { apply NoDup_fmap_2_strong; [|apply NoDup_seq].
    intros l l' Hl Hl' E. apply elem_of_seq in Hl, Hl'.
    destruct (Hb l ltac:(lia)) as (p&Hp&_), (Hb l' ltac:(lia)) as (p'&Hp'&_).
    unfold g in E. rewrite Hp, Hp' in E. cbn in E. subst p'.
    apply (Hi l l' p); [lia|lia|done|done]. }
  assert (Hsub : g <$> seq 0 (S m) ⊆+ seq 0 (S q)).
  { apply NoDup_submseteq; [done|]. intros x Hx.
    apply elem_of_list_fmap in Hx as (l&->&Hl). apply elem_of_seq in Hl.
    destruct (Hb l ltac:(lia)) as (p&Hp&_). assert (g l = p) as -> by (unfold g; by rewrite Hp).
    apply elem_of_seq. pose proof (Hmax l p q ltac:(lia) Hp Hq). lia. }
  apply submseteq_length in Hsub. rewrite fmap_length, !seq_length in Hsub. lia.
Qed.

(** a value outside the fixed suffix is below it *)
Lemma below_fixed f k l p : keyfun f → fixk f k → k ≤ n → l < n - k → f l = Some p →
  p < n - k.
Proof.
  intros [Hb Hi] Hf Hk Hl Hp. destruct (Hb l ltac:(lia)) as (p'&Hp'&Hlt).
  rewrite Hp in Hp'. injection Hp' as <-.
  destruct (decide (p < n - k)) as [|Hge]; [done|exfalso].
  pose proof (Hf p ltac:(lia) Hlt) as Hpp.
  assert (l = p) by (apply (Hi l p p); [lia|done|done|done]). lia.
Qed.

(** the end of a pass *)
Lemma pass_end f k : keyfun f → fixk f k → k < n → maxat f (n - k - 1) → fixk f (S k).
Proof.
  intros HK Hf Hk Hmax l Hl1 Hl2.
  destruct (decide (n - k ≤ l)) as [|Hlt]; [by apply Hf|].
  assert (l = n - k - 1) as -> by lia.
  destruct HK as [Hb Hi]. destruct (Hb (n - k - 1) ltac:(lia)) as (q&Hq&_).
  pose proof (pigeon f (n - k - 1) q (conj Hb Hi) ltac:(lia) Hq Hmax).
  pose proof (below_fixed f k (n - k - 1) q (conj Hb Hi) Hf ltac:(lia) ltac:(lia) Hq).
  rewrite Hq. f_equal. lia.
Qed.
End bubble.

Section bubble2.
Context (n : nat).
Implicit Types f : nat → option nat.

(** the invariant of a pass (with [k] levels already final) at position [i] *)
Definition rinv (k i : nat) f : Prop :=
  fixk n f k ∧ maxat f (i `min` (n - k - 1)).

Lemma rinv_start f k : fixk n f k → keyfun n f → 0 < n → rinv k 0 f.
Proof.
  intros Hf [Hb _] Hn. split; [done|]. intros l p q Hl Hp Hq.
  assert (l = 0) as -> by lia. replace (0 `min` (n - k - 1)) with 0 in Hq by lia.
  rewrite Hp in Hq. injection Hq as <-. done.
Qed.

Lemma rinv_noswap f k i p q : k < n → i + 1 < n →
  rinv k i f → f i = Some p → f (i + 1) = Some q → p ≤ q → rinv k (i + 1) f.
Proof.
  intros Hk Hi [Hf Hm] Hp Hq Hpq. split; [done|].
  destruct (decide (i + 1 ≤ n - k - 1)) as [Hle|Hgt].
  - replace ((i + 1) `min` (n - k - 1)) with (i + 1) by lia.
    replace (i `min` (n - k - 1)) with i in Hm by lia.
    intros l p' q' Hl Hp' Hq'. rewrite Hq in Hq'. injection Hq' as <-.
    destruct (decide (l = i + 1)) as [->|Hne].
    + rewrite Hq in Hp'. injection Hp' as <-. done.
    + pose proof (Hm l p' p ltac:(lia) Hp' Hp). lia.
  - replace ((i + 1) `min` (n - k - 1)) with (i `min` (n - k - 1)) by lia. done.
Qed.

Lemma rinv_swap f f' k i p q : k < n → i + 1 < n → keyfun n f →
  rinv k i f → f i = Some p → f (i + 1) = Some q → q < p →
  (∀ l, f' l = f (tp i (i + 1) l)) → rinv k (i + 1) f'.
Proof.
  intros Hk Hi HK [Hf Hm] Hp Hq Hqp Hf'.
  assert (Hlow : i + 1 < n - k).
  { destruct (decide (i + 1 < n - k)) as [|Hge]; [done|exfalso].
    pose proof (Hf (i + 1) ltac:(lia) Hi) as E. rewrite Hq in E. injection E as ->.
    destruct (decide (n - k ≤ i)) as [Hi2|Hi2].
    - pose proof (Hf i Hi2 ltac:(lia)) as E. rewrite Hp in E. injection E as ->. lia.
    - pose proof (below_fixed n f k i p HK Hf ltac:(lia) ltac:(lia) Hp). lia. }
  split.
  - intros l Hl1 Hl2. rewrite Hf'. unfold tp. rewrite !decide_False by lia. by apply Hf.
  - replace ((i + 1) `min` (n - k - 1)) with (i + 1) by lia.
    replace (i `min` (n - k - 1)) with i in Hm by lia.
    intros l p' q' Hl Hp' Hq'. rewrite Hf' in Hp', Hq'. unfold tp in Hp', Hq'.
    rewrite (decide_False (P := i + 1 = i)) in Hq' by lia.
    rewrite (decide_True (P := i + 1 = i + 1)) in Hq' by done.
    rewrite Hp in Hq'. injection Hq' as <-.
    destruct (decide (l = i)) as [->|Hn1].
    { rewrite Hq in Hp'. injection Hp' as <-. lia. }
    destruct (decide (l = i + 1)) as [->|Hn2].
    { rewrite Hp in Hp'. injection Hp' as <-. done. }
    apply (Hm l p' p ltac:(lia) Hp' Hp).
Qed.

Lemma rinv_end f k : k < n → keyfun n f → rinv k (n - 1) f → fixk n f (S k).
Proof.
  intros Hk HK [Hf Hm]. apply pass_end; try done.
  by replace ((n - 1) `min` (n - k - 1)) with (n - k - 1) in Hm by lia.
Qed.
End bubble2.

(** ** the loops of [_sort_to_order] *)
Definition sort_body (order : gmap nat nat) (al : levels_t) (i : nat) : MS levels_t :=
  s <- get ;;
  ensure EValue (forallb (fun r => mem r s) (roots s)) ;;;
  x <- var_at_level i ;;
  y <- var_at_level (i + 1) ;;
  p <- of_opt EKey (order !! x) ;;
  q <- of_opt EKey (order !! y) ;;
  if decide (q < p) then r <- swap i (i + 1) (Some al) ;; ret (snd r)
  else ret al.

Lemma sort_to_order_eq order :
  sort_to_order order =
  (s <- get ;;
   ensure EValue (bool_decide (nvars s = size order)) ;;;
   al <- levels_ ;;
   _ <- foldM (fun al (_ : nat) => foldM (sort_body order) al (seq 0 (size order - 1)))
          al (seq 0 (size order)) ;;
   ret tt).
Proof. reflexivity. Qed.

Definition akey (order : gmap nat nat) (s : st) (l : nat) : option nat :=
  match lvl2var s !! l with Some v => order !! v | None => None end.

Lemma l2v_perm π s s' l : Inv s → Inv s' → vperm π s s' → nvars s' = nvars s →
  (∀ j, π (π j) = j) → lvl2var s' !! l = lvl2var s !! π l.
Proof.
  intros HI HI' Hp Hn Hinv. apply option_eq. intros v.
  rewrite <- (inv_vars _ HI'), <- (inv_vars _ HI), (vperm_fmap π s s' Hp Hn), lookup_fmap.
  destruct (vars s !! v) as [l0|]; cbn; [|split; congruence].
  split; intros [= E]; f_equal; [rewrite <- E|rewrite E]; by rewrite Hinv.
Qed.
Lemma tp_tp i j l : tp i j (tp i j l) = l.
Proof. unfold tp. repeat case_decide; congruence. Qed.

Section sort.
Context (order : gmap nat nat) (L : positive → nat) (s0 : st).
Context (Hdom : dom order = dom (vars s0)).
Context (Hinj : ∀ v v' l, order !! v = Some l → order !! v' = Some l → v = v').
Context (Hbnd : ∀ v l, order !! v = Some l → l < nvars s0).
Context (Hroots : ∀ u, u ∈ roots s0 → held L u).

Definition SI (s : st) (al : levels_t) : Prop :=
  Stp L s0 s ∧ levels_ok s al ∧ dom (vars s) = dom order ∧ roots s = roots s0.

Lemma akey_keyfun s al : SI s al → keyfun (nvars s0) (akey order s).
Proof.
  intros (((HI&_)&Hn&_)&_&Hd&_). split.
  - intros l Hl. rewrite <- Hn in Hl. apply (inv_lvls _ HI) in Hl as [v Hv].
    unfold akey. rewrite Hv. apply (inv_vars _ HI) in Hv.
    assert (v ∈ dom order) as Hvo by (rewrite <- Hd; apply elem_of_dom; eauto).
    apply elem_of_dom in Hvo as [p Hp]. exists p. split; [done|]. by apply (Hbnd v).
  - intros l l' p _ _. unfold akey.
    destruct (lvl2var s !! l) as [v|] eqn:Ev; [|done].
    destruct (lvl2var s !! l') as [v'|] eqn:Ev'; [|done].
    intros Hp Hp'. pose proof (Hinj v v' p Hp Hp') as ->.
    apply (inv_vars _ HI) in Ev, Ev'. congruence.
Qed.

Lemma sort_body_spec s al i r s' : SI s al → i + 1 < nvars s0 →
  sort_body order al i s = (r, s') →
  r = Err EOracle ∨ r = Err ERuntime ∨
  ∃ al' p q, r = Ok al' ∧ akey order s i = Some p ∧ akey order s (i + 1) = Some q ∧
    ((p ≤ q ∧ s' = s ∧ al' = al) ∨
     (q < p ∧ SI s' al' ∧ ∀ l, akey order s' l = akey order s (tp i (i + 1) l))).
Proof.
  intros HS Hi. pose proof HS as (HStp&Hal&Hd&Hr).
  pose proof HStp as (HG&Hn&HK&_). pose proof HG as (HI&HC&Hll).
  destruct (akey_keyfun s al HS) as [Hb _].
  destruct (Hb i ltac:(lia)) as (p&Hp&_). destruct (Hb (i + 1) Hi) as (q&Hq&_).
  unfold akey in Hp, Hq.
  destruct (lvl2var s !! i) as [x|] eqn:Ex; [|done].
  destruct (lvl2var s !! (i + 1)) as [y|] eqn:Ey; [|done].
  unfold sort_body. cbn [bind get].
  assert (Hfa : forallb (fun r => mem r s) (roots s) = true).
  { apply forallb_forall. intros u Hu. apply mem_valid. rewrite Hr in Hu.
    apply elem_of_list_In in Hu. apply (HK u). by apply Hroots. }
  rewrite Hfa. cbn [ensure]. rewrite (bind_ok _ _ s tt s) by done.
  assert (Hvat : ∀ l v, lvl2var s !! l = Some v → var_at_level l s = (Ok v, s)).
  { intros l v E. unfold var_at_level. cbn [bind get]. by rewrite E. }
  rewrite (bind_ok _ _ _ _ _ (Hvat _ _ Ex)), (bind_ok _ _ _ _ _ (Hvat _ _ Ey)).
  rewrite Hp, Hq. cbn [of_opt]. rewrite (bind_ok _ _ s p s), (bind_ok _ _ s q s) by done.
  case_decide as Hqp.
  - destruct (swap i (i + 1) (Some al) s) as [r1 s1] eqn:Esw.
    destruct (swap_adj L s al i (i + 1) r1 s1 HG Hal ltac:(by left) ltac:(lia) ltac:(lia) Esw)
      as [->|[(->&_)|(al1&->&HS1&Hal1&Hp1)]].
    { rewrite (bind_err _ _ _ _ _ Esw). intros [= <- <-]. by left. }
    { rewrite (bind_err _ _ _ _ _ Esw). intros [= <- <-]. by right; left. }
    rewrite (bind_ok _ _ _ _ _ Esw). cbn [snd]. intros [= <- <-]. right. right.
    exists al1, p, q. unfold akey. rewrite Ex, Ey. split_and!; try done. right.
    pose proof HS1 as ((HI1&_)&Hn1&_).
    split; [done|]. split.
    + split; [by apply (Stp_trans L s0 s s1)|]. split; [done|]. split.
      * rewrite (vperm_fmap _ s s1 Hp1 Hn1), dom_fmap_L. done.
      * pose proof (pres_swap i (i + 1) (Some al) s _ s1 Esw) as E. injection E as _ E _.
        congruence.
    + intros l. by rewrite (l2v_perm (tp i (i + 1)) s s1 l HI HI1 Hp1 Hn1 (tp_tp i (i + 1))).
  - intros [= <- <-]. right. right. exists al, p, q. unfold akey. rewrite Ex, Ey.
    split_and!; try done. left. split; [lia|done].
Qed.

Lemma sort_inner k : k < nvars s0 → ∀ cnt i s al r s',
  SI s al → rinv (nvars s0) k i (akey order s) → i + cnt = nvars s0 - 1 →
  foldM (sort_body order) al (seq i cnt) s = (r, s') →
  r = Err EOracle ∨ r = Err ERuntime ∨
  ∃ al', r = Ok al' ∧ SI s' al' ∧ rinv (nvars s0) k (nvars s0 - 1) (akey order s').
Proof.
  intros Hk. induction cnt as [|cnt IH]; intros i s al r s' HS HR Hic.
  - cbn [seq foldM]. intros [= <- <-]. right. right. exists al. replace (nvars s0 - 1) with i by lia. done.
  - cbn [seq foldM]. destruct (sort_body order al i s) as [r1 s1] eqn:Eb.
    destruct (sort_body_spec s al i r1 s1 HS ltac:(lia) Eb)
      as [->|[->|(al1&p&q&->&Hp&Hq&[(Hpq&->&->)|(Hqp&HS1&Hf)])]].
    + rewrite (bind_err _ _ _ _ _ Eb). intros [= <- <-]. by left.
    + rewrite (bind_err _ _ _ _ _ Eb). intros [= <- <-]. by right; left.
    + rewrite (bind_ok _ _ _ _ _ Eb). apply IH; [done| |lia].
      replace (S i) with (i + 1) by lia.
      apply (rinv_noswap _ _ k i p q); try done; lia.
    + rewrite (bind_ok _ _ _ _ _ Eb). apply IH; [done| |lia].
      replace (S i) with (i + 1) by lia.
      apply (rinv_swap _ (akey order s) _ k i p q); try done; try lia.
      by apply (akey_keyfun s al).
Qed.

Lemma sort_outer : ∀ cnt k s al r s',
  SI s al → fixk (nvars s0) (akey order s) k → k + cnt = nvars s0 →
  foldM (fun al (_ : nat) => foldM (sort_body order) al (seq 0 (nvars s0 - 1)))
        al (seq k cnt) s = (r, s') →
  r = Err EOracle ∨ r = Err ERuntime ∨
  ∃ al', r = Ok al' ∧ SI s' al' ∧ fixk (nvars s0) (akey order s') (nvars s0).
Proof.
  induction cnt as [|cnt IH]; intros k s al r s' HS HF Hk.
  - cbn [seq foldM]. intros [= <- <-]. right. right. exists al. replace (nvars s0) with k at 2 by lia. done.
  - cbn [seq foldM].
    destruct (foldM (sort_body order) al (seq 0 (nvars s0 - 1)) s) as [r1 s1] eqn:Ein.
    destruct (sort_inner k ltac:(lia) (nvars s0 - 1) 0 s al r1 s1 HS) as [->|[->|(al1&->&HS1&HR1)]];
      [|lia|done| | |].
    + apply rinv_start; [done|by apply (akey_keyfun s al)|lia].
    + rewrite (bind_err _ _ _ _ _ Ein). intros [= <- <-]. by left.
    + rewrite (bind_err _ _ _ _ _ Ein). intros [= <- <-]. by right; left.
    + rewrite (bind_ok _ _ _ _ _ Ein). apply IH; [done| |lia].
      apply rinv_end; [lia|by apply (akey_keyfun s1 al1)|done].
Qed.
End sort.

Theorem sort_to_order_correct order s L r s' :
  Gd L s →
  dom order = dom (vars s) →
  (∀ v v' l, order !! v = Some l → order !! v' = Some l → v = v') →
  (∀ v l, order !! v = Some l → l < nvars s) →
  (∀ u, u ∈ roots s → held L u) →
  sort_to_order order s = (r, s') →
  r = Err EOracle ∨ r = Err ERuntime ∨
  (r = Ok tt ∧ Stp L s s' ∧ vars s' = order ∧ rr s' = rr s).
Proof.
  intros HG Hdom Hinj Hbnd Hroots Hrun.
  pose proof (pres_sort_to_order order s r s' Hrun) as Hrr.
  revert Hrun. rewrite sort_to_order_eq. cbn [bind get].
  assert (Hsz : size order = nvars s) by (unfold nvars; by rewrite <- !size_dom, Hdom).
  rewrite bool_decide_eq_true_2 by done. cbn [ensure]. rewrite (bind_ok _ _ s tt s) by done.
  pose proof HG as (HI&HC&Hll).
  destruct (levels_spec s HI) as (al&Hlev&Hal). rewrite (bind_ok _ _ _ _ _ Hlev).
  rewrite Hsz.
  destruct (foldM (fun al (_ : nat) => foldM (sort_body order) al (seq 0 (nvars s - 1)))
              al (seq 0 (nvars s)) s) as [r1 s1] eqn:Eout.
  assert (HS0 : SI order L s s al).
  { split; [by apply Stp_refl|]. done. }
  destruct (sort_outer order L s Hinj Hbnd Hroots (nvars s) 0 s al r1 s1 HS0)
    as [->|[->|(al1&->&HS1&HF)]]; [|done|exact Eout| | |].
  - intros l Hl1 Hl2. lia.
  - rewrite (bind_err _ _ _ _ _ Eout). intros [= <- <-]. by left.
  - rewrite (bind_err _ _ _ _ _ Eout). intros [= <- <-]. by right; left.
  - rewrite (bind_ok _ _ _ _ _ Eout). intros [= <- <-]. right. right.
    destruct HS1 as (HStp&_&Hd1&_). split_and!; try done.
    pose proof HStp as ((HI1&_)&Hn1&_).
    apply map_eq. intros v. destruct (order !! v) as [p|] eqn:Hp.
    + assert (v ∈ dom (vars s1)) as Hv by (rewrite Hd1; apply elem_of_dom; eauto).
      apply elem_of_dom in Hv as [l Hv]. rewrite Hv. f_equal.
      assert (l < nvars s) as Hl.
      { rewrite <- Hn1. apply (inv_lvls _ HI1). exists v. by apply (inv_vars _ HI1). }
      pose proof (HF l ltac:(lia) Hl) as E. unfold akey in E.
      rewrite (proj1 (inv_vars _ HI1 v l) Hv), Hp in E. by injection E.
    + apply not_elem_of_dom. rewrite Hd1. by apply not_elem_of_dom.
Qed.

(** rejection of an order over another number of variables *)
Lemma sort_to_order_reject order s :
  nvars s ≠ size order → sort_to_order order s = (Err EValue, s).
Proof.
  intros H. rewrite sort_to_order_eq. cbn [bind get].
  by rewrite bool_decide_eq_false_2.
Qed.
