(** * SatCount: [count] is the number of satisfying assignments over the
      support, scaled to the requested number of variables (C10, second part). *)
From DD Require Export Support Sat.

(** number of assignments to the levels in [ls] (the others fixed by [a])
    that satisfy [u] *)
Fixpoint nsat (s : st) (u : Z) (ls : list nat) (a : nat → bool) : Z :=
  match ls with
  | [] => if D s u a then 1%Z else 0%Z
  | l :: ls => (nsat s u ls (upd a l false) + nsat s u ls (upd a l true))%Z
  end.

Lemma nsat_ext s u ls : ∀ a b, (∀ j, a j = b j) → nsat s u ls a = nsat s u ls b.
Proof.
  induction ls as [|l ls IH]; intros a b H; cbn [nsat].
  - by rewrite (D_ext s u a b H).
  - f_equal; apply IH; intros j; unfold upd; case_decide; done.
Qed.

Lemma nsat_perm s u l1 l2 : l1 ≡ₚ l2 → ∀ a, nsat s u l1 a = nsat s u l2 a.
Proof.
  induction 1 as [|x l l' _ IH|x y l|l l' l'' _ IH1 _ IH2]; intros a; cbn [nsat].
  - done.
  - by rewrite !IH.
  - destruct (decide (x = y)) as [->|Hne]; [done|].
    assert (E : ∀ b c, nsat s u l (upd (upd a x c) y b) = nsat s u l (upd (upd a y b) x c)).
    { intros b c. apply nsat_ext. intros j. unfold upd.
      repeat case_decide; subst; done. }
    rewrite !E. lia.
  - by rewrite IH1, IH2.
Qed.

Lemma nsat_indep s u ls : Inv s → valid s u →
  ∀ a b, (∀ j, lvl_of s u ≤ j → a j = b j) → nsat s u ls a = nsat s u ls b.
Proof.
  intros HI Hu. induction ls as [|l ls IH]; intros a b H; cbn [nsat].
  - by rewrite (D_indep s HI u a b).
  - f_equal; apply IH; intros j Hj; unfold upd; case_decide; auto.
Qed.

Lemma nsat_below s u l1 l2 : Inv s → valid s u →
  Forall (fun l => l < lvl_of s u) l1 →
  ∀ a, nsat s u (l1 ++ l2) a = (2 ^ Z.of_nat (length l1) * nsat s u l2 a)%Z.
Proof.
  intros HI Hu. induction l1 as [|l l1 IH]; intros Hall a; cbn [app length nsat].
  - change (Z.of_nat 0) with 0%Z. rewrite Z.pow_0_r. lia.
  - apply Forall_cons in Hall as [Hl Hall].
    rewrite !IH by done. rewrite Nat2Z.inj_succ, Z.pow_succ_r by lia.
    rewrite (nsat_indep s u l2 HI Hu (upd a l false) a),
            (nsat_indep s u l2 HI Hu (upd a l true) a).
    + ring.
    + intros j Hj. apply upd_other. lia.
    + intros j Hj. apply upd_other. lia.
Qed.

Lemma nsat_neg s u ls : Inv s → valid s u →
  ∀ a, nsat s (- u) ls a = (2 ^ Z.of_nat (length ls) - nsat s u ls a)%Z.
Proof.
  intros HI Hu. induction ls as [|l ls IH]; intros a; cbn [length nsat].
  - rewrite (D_neg s HI) by done. by destruct (D s u a).
  - rewrite !IH. rewrite Nat2Z.inj_succ, Z.pow_succ_r by lia. ring.
Qed.

Lemma nsat_congr s u v ls : ∀ a,
  (∀ b, (∀ j, j ∉ ls → b j = a j) → D s u b = D s v b) →
  nsat s u ls a = nsat s v ls a.
Proof.
  induction ls as [|l ls IH]; intros a H; cbn [nsat].
  - by rewrite (H a).
  - f_equal; apply IH; intros b Hb; apply H; intros j Hj;
      apply not_elem_of_cons in Hj as [? ?]; rewrite Hb by done; by apply upd_other.
Qed.

Lemma nsat_bounds s u ls : ∀ a, (0 ≤ nsat s u ls a ≤ 2 ^ Z.of_nat (length ls))%Z.
Proof.
  induction ls as [|l ls IH]; intros a; cbn [length nsat].
  - destruct (D s u a); change (Z.of_nat 0) with 0%Z; rewrite Z.pow_0_r; lia.
  - rewrite Nat2Z.inj_succ, Z.pow_succ_r by lia.
    pose proof (IH (upd a l false)). pose proof (IH (upd a l true)). lia.
Qed.

(** the count only reads the levels that occur in [u] *)
Lemma nsat_occ_indep s u ls : Inv s → valid s u →
  ∀ a b, (∀ j, occurs s u j → j ∈ ls ∨ a j = b j) → nsat s u ls a = nsat s u ls b.
Proof.
  intros HI Hu. induction ls as [|l ls IH]; intros a b H; cbn [nsat].
  - rewrite (D_indep_occ s u a b HI Hu); [done|].
    intros j Hj. destruct (H j Hj) as [?%elem_of_nil|?]; done.
  - f_equal; apply IH; intros j Hj; unfold upd; case_decide; auto;
      destruct (H j Hj) as [[?|?]%elem_of_cons|?]; auto; done.
Qed.

(** over the support, the count does not depend on the values outside it *)
Lemma nsat_support_indep s u ls a b : Inv s → valid s u →
  (∀ j, occurs s u j → j ∈ ls) → nsat s u ls a = nsat s u ls b.
Proof. intros HI Hu H. apply nsat_occ_indep; try done. intros j Hj. left. auto. Qed.

(** every additional variable doubles the count *)
Lemma nsat_extend s u l1 l2 : Inv s → valid s u →
  (∀ l, l ∈ l1 → ¬ occurs s u l) →
  ∀ a, nsat s u (l1 ++ l2) a = (2 ^ Z.of_nat (length l1) * nsat s u l2 a)%Z.
Proof.
  intros HI Hu. induction l1 as [|l l1 IH]; intros Hall a; cbn [app length nsat].
  - change (Z.of_nat 0) with 0%Z. rewrite Z.pow_0_r. lia.
  - rewrite !IH by (intros l' Hl'; apply Hall; by right).
    rewrite Nat2Z.inj_succ, Z.pow_succ_r by lia.
    rewrite (nsat_occ_indep s u l2 HI Hu (upd a l false) a),
            (nsat_occ_indep s u l2 HI Hu (upd a l true) a).
    + ring.
    + intros j Hj. right. apply upd_other. intros ->. by apply (Hall l); [left|].
    + intros j Hj. right. apply upd_other. intros ->. by apply (Hall l); [left|].
Qed.

(** ** The levels of a set inside an interval, in increasing order *)
Definition LX (X : gset nat) (from len : nat) : list nat :=
  filter (fun l => l ∈ X) (seq from len).
Definition rank (X : gset nat) (x : nat) : nat := length (LX X 0 x).

Lemma LX_app X a k1 k2 : LX X a (k1 + k2) = LX X a k1 ++ LX X (a + k1) k2.
Proof. unfold LX. by rewrite seq_app, filter_app. Qed.
Lemma LX_cons X i k : i ∈ X → LX X i (S k) = i :: LX X (S i) k.
Proof. intros Hi. unfold LX. cbn [seq]. by rewrite filter_cons_True. Qed.
Lemma LX_cons_not X i k : i ∉ X → LX X i (S k) = LX X (S i) k.
Proof. intros Hi. unfold LX. cbn [seq]. by rewrite filter_cons_False. Qed.
Lemma elem_of_LX X a k x : x ∈ LX X a k ↔ x ∈ X ∧ a ≤ x < a + k.
Proof. unfold LX. by rewrite elem_of_list_filter, elem_of_seq. Qed.
Lemma NoDup_LX X a k : NoDup (LX X a k).
Proof. apply NoDup_filter, NoDup_seq. Qed.

Lemma Sorted_LX X k : ∀ a, Sorted le (LX X a k).
Proof.
  induction k as [|k IH]; intros a; [constructor|].
  destruct (decide (a ∈ X)) as [Hin|Hnin].
  - rewrite LX_cons by done. constructor; [apply IH|].
    destruct (LX X (S a) k) as [|x l] eqn:E; constructor.
    assert (Hx : x ∈ LX X (S a) k) by (rewrite E; left).
    apply elem_of_LX in Hx. lia.
  - rewrite LX_cons_not by done. apply IH.
Qed.

Lemma rank_split X a b : a ≤ b → rank X b = rank X a + length (LX X a (b - a)).
Proof.
  intros Hab. unfold rank. replace b with (a + (b - a)) at 1 by lia.
  by rewrite LX_app, app_length.
Qed.
Lemma rank_gap X a b : a ∈ X → a < b →
  rank X b = rank X a + 1 + length (LX X (S a) (b - S a)).
Proof.
  intros Ha Hab. rewrite (rank_split X a b) by lia.
  replace (b - a) with (S (b - S a)) by lia. rewrite LX_cons by done.
  cbn [length]. lia.
Qed.
Lemma rank_lookup X x N : x ∈ X → x < N → LX X 0 N !! rank X x = Some x.
Proof.
  intros Hx HN. replace N with (x + S (N - S x)) by lia.
  rewrite LX_app, LX_cons by done. by apply list_lookup_middle.
Qed.

Lemma LX_elements X N : (∀ l, l ∈ X → l < N) → elements X ≡ₚ LX X 0 N.
Proof.
  intros HX. apply NoDup_Permutation; [apply NoDup_elements|apply NoDup_LX|].
  intros x. rewrite elem_of_elements, elem_of_LX. split; [|by intros [? _]].
  intros Hx. split; [done|]. specialize (HX x Hx). lia.
Qed.
Lemma rank_size X N : (∀ l, l ∈ X → l < N) → rank X N = size X.
Proof. intros HX. unfold rank, size, set_size. cbn. by rewrite <- (LX_elements X N). Qed.

Lemma sorted_levels_LX X N : (∀ l, l ∈ X → l < N) → sorted_levels X = LX X 0 N.
Proof.
  intros HX. unfold sorted_levels. apply (Sorted_unique le).
  - apply Sorted_merge_sort. apply _.
  - apply Sorted_LX.
  - rewrite merge_sort_Permutation. by apply LX_elements.
Qed.

(** the compaction map of [count] *)
Lemma enum_lookup (slack : nat) (L : list nat) : NoDup L → ∀ k j x, L !! j = Some x →
  (list_to_map ((fun '(new, old) => (old, new + slack)) <$> enumerate_from k L)
     : gmap nat nat) !! x = Some (k + j + slack).
Proof.
  induction 1 as [|a L Ha _ IH]; intros k j x Hj; [done|].
  cbn [enumerate_from fmap list_fmap]. rewrite list_to_map_cons.
  destruct j as [|j]; cbn in Hj.
  - injection Hj as ->. rewrite lookup_insert. f_equal. lia.
  - rewrite lookup_insert_ne.
    + rewrite (IH (S k) j x Hj). f_equal. lia.
    + intros ->. apply Ha. by eapply elem_of_list_lookup_2.
Qed.

Definition a0 : nat → bool := fun _ => false.

(** models of [u] over the levels of [X] from the level of [u] downwards *)
Definition Nc (s : st) (X : gset nat) (u : Z) : Z :=
  nsat s u (LX X (lvl_of s u) (nvars s - lvl_of s u)) a0.

Lemma lvl_flip s c u : lvl_of s (flip c u) = lvl_of s c.
Proof. unfold flip. case_decide; [apply lvl_neg|done]. Qed.

Lemma Nc_branch_sgn s X u t c (b : bool) : Inv s → valid s u →
  succ s !! absn u = Some t → absn u ≠ 1%positive →
  valid s c → t_lvl t < lvl_of s c → c = (if b then t_hi t else t_lo t) →
  nsat s u (LX X (S (t_lvl t)) (nvars s - S (t_lvl t))) (upd a0 (t_lvl t) b)
  = (Nc s X (flip c u) *
     2 ^ Z.of_nat (length (LX X (S (t_lvl t)) (lvl_of s c - S (t_lvl t)))))%Z.
Proof.
  intros HI Hu Ht Hn Hc Hlt Ec.
  pose proof (lvl_le s HI c Hc) as Hle.
  pose proof (valid_flip s c u Hc) as Hcf.
  rewrite (nsat_congr s u (flip c u)).
  - replace (nvars s - S (t_lvl t))
      with ((lvl_of s c - S (t_lvl t)) + (nvars s - lvl_of s c)) by lia.
    rewrite LX_app.
    replace (S (t_lvl t) + (lvl_of s c - S (t_lvl t))) with (lvl_of s c) by lia.
    rewrite nsat_below; [|done|done|].
    + unfold Nc. rewrite lvl_flip.
      rewrite (nsat_indep s (flip c u) _ HI Hcf (upd a0 (t_lvl t) b) a0).
      * ring.
      * intros j Hj. rewrite lvl_flip in Hj. apply upd_other. lia.
    + apply Forall_forall. intros x Hx%elem_of_LX. rewrite lvl_flip. lia.
  - intros b' Hb'. rewrite (D_step s HI u b' t Hu Ht Hn).
    rewrite (D_flip s HI) by done. f_equal.
    rewrite Hb'.
    + rewrite upd_same. subst c. by destruct b.
    + intros Hin%elem_of_LX. lia.
Qed.

Lemma Nc_node_sgn s X u t : Inv s → valid s u →
  succ s !! absn u = Some t → absn u ≠ 1%positive → t_lvl t ∈ X →
  Nc s X u =
  (Nc s X (flip (t_lo t) u) * 2 ^ Z.of_nat (length (LX X (S (t_lvl t)) (lvl_of s (t_lo t) - S (t_lvl t)))) +
   Nc s X (flip (t_hi t) u) * 2 ^ Z.of_nat (length (LX X (S (t_lvl t)) (lvl_of s (t_hi t) - S (t_lvl t)))))%Z.
Proof.
  intros HI Hu Ht Hn HiX.
  destruct (inv_node _ HI _ _ Ht Hn) as (Hln&Hvl&Hhp&Hvh&Hll&Hlh&Hne).
  unfold Nc at 1. unfold lvl_of at 1 2. rewrite Ht.
  replace (nvars s - t_lvl t) with (S (nvars s - S (t_lvl t))) by lia.
  rewrite LX_cons by done. cbn [nsat].
  rewrite (Nc_branch_sgn s X u t (t_lo t) false),
          (Nc_branch_sgn s X u t (t_hi t) true); done.
Qed.

Lemma Nc_node s X u t : Inv s → (0 < u)%Z → valid s u →
  succ s !! absn u = Some t → absn u ≠ 1%positive → t_lvl t ∈ X →
  Nc s X u =
  (Nc s X (t_lo t) * 2 ^ Z.of_nat (length (LX X (S (t_lvl t)) (lvl_of s (t_lo t) - S (t_lvl t)))) +
   Nc s X (t_hi t) * 2 ^ Z.of_nat (length (LX X (S (t_lvl t)) (lvl_of s (t_hi t) - S (t_lvl t)))))%Z.
Proof.
  intros HI Hpos Hu Ht Hn HiX. rewrite (Nc_node_sgn s X u t) by done.
  unfold flip. by rewrite !decide_False by lia.
Qed.

Lemma Nc_1 s X : Inv s → Nc s X 1 = 1%Z.
Proof.
  intros HI. unfold Nc. rewrite (lvl_term s HI 1) by done. rewrite Nat.sub_diag.
  cbn. by rewrite (D_1 s HI).
Qed.
Lemma Nc_m1 s X : Inv s → Nc s X (-1) = 0%Z.
Proof.
  intros HI. unfold Nc. rewrite (lvl_term s HI (-1)) by done. rewrite Nat.sub_diag.
  cbn. by rewrite (D_m1 s HI).
Qed.

Lemma nsat_elements_Nc s X u : Inv s → valid s u → (∀ l, l ∈ X → l < nvars s) →
  nsat s u (elements X) a0 = (2 ^ Z.of_nat (rank X (lvl_of s u)) * Nc s X u)%Z.
Proof.
  intros HI Hu HXlt.
  rewrite (nsat_perm s u _ _ (LX_elements X (nvars s) HXlt)).
  pose proof (lvl_le s HI u Hu) as Hle.
  replace (nvars s) with (lvl_of s u + (nvars s - lvl_of s u)) at 1 by lia.
  rewrite LX_app, Nat.add_0_l.
  rewrite nsat_below; [done|done|done|].
  apply Forall_forall. intros x Hx%elem_of_LX. lia.
Qed.

(** ** [_sat_len] *)
Section satlen.
Context (s : st) (HI : Inv s) (X : gset nat) (HX : ∀ l, l ∈ X → l < nvars s).
Context (slack n : nat) (ml : gmap nat nat).
Context (Hml : ∀ x, x ∈ X ∨ x = nvars s → ml !! x = Some (rank X x + slack)).
Context (Hn : n = rank X (nvars s) + slack).

Definition d_ok (d : gmap positive Z) : Prop :=
  ∀ p m, d !! p = Some m → m = Nc s X (Z.pos p).

Lemma lvl_in u : valid s u → (∀ l, occurs s u l → l ∈ X) →
  lvl_of s u ∈ X ∨ lvl_of s u = nvars s.
Proof.
  intros Hu Hocc.
  destruct (node_cases s HI u Hu) as [[_ ?]|(t&Ht&Hnn&_&Hlu&_)]; [by right|left].
  apply Hocc. rewrite Hlu. by apply (occ_here s u t).
Qed.

Lemma Nc_neg u : valid s u →
  Nc s X (- u) = (pow2 (n - (rank X (lvl_of s u) + slack)) - Nc s X u)%Z.
Proof.
  intros Hu. unfold Nc. rewrite lvl_neg. rewrite nsat_neg by done.
  f_equal. unfold pow2. do 2 f_equal.
  pose proof (lvl_le s HI u Hu).
  rewrite Hn, (rank_split X (lvl_of s u) (nvars s)) by done. lia.
Qed.

Lemma Nc_abs u t : valid s u → succ s !! absn u = Some t →
  Nc s X u = if decide (u < 0)%Z
             then (pow2 (n - (rank X (t_lvl t) + slack)) - Nc s X (Z.pos (absn u)))%Z
             else Nc s X (Z.pos (absn u)).
Proof.
  intros Hu Ht. pose proof (Zpos_absn u (proj1 Hu)) as E. case_decide.
  - replace u with (- Z.pos (absn u))%Z at 1 by lia.
    rewrite Nc_neg by (by apply valid_abs). rewrite lvl_abs.
    unfold lvl_of. by rewrite Ht.
  - by replace (Z.pos (absn u)) with u by lia.
Qed.

Lemma flipn_ok (u : Z) (i : nat) (m : Z) : i ≤ n →
  (if decide (u < 0)%Z
   then assert (bool_decide (i ≤ n)) ;;; ret (pow2 (n - i) - m)%Z
   else ret m) s
  = (Ok (if decide (u < 0)%Z then (pow2 (n - i) - m)%Z else m), s).
Proof.
  intros Hle. case_decide; [|done].
  by rewrite (bind_ok _ _ s tt s (assert_true _ _ (bool_decide_eq_true_2 _ Hle))).
Qed.

Lemma sat_len_spec fuel : ∀ u d r s',
  valid s u → nvars s - lvl_of s u < fuel →
  (∀ l, occurs s u l → l ∈ X) → d_ok d →
  sat_len fuel u ml n d s = (r, s') →
  s' = s ∧ ∃ d', r = Ok (Nc s X u, d') ∧ d_ok d'.
Proof.
  induction fuel as [|fu IH]; intros u d r s' Hu Hfuel Hocc Hd; [lia|].
  cbn [sat_len].
  destruct (decide (u = 1%Z)) as [->|Hn1].
  { intros [= <- <-]. split; [done|]. exists d. split; [|done]. by rewrite Nc_1. }
  destruct (decide (u = (-1)%Z)) as [->|Hnm1].
  { intros [= <- <-]. split; [done|]. exists d. split; [|done]. by rewrite Nc_m1. }
  destruct (node_cases s HI u Hu)
    as [[E _]|(t&Ht&Hnn&Hlo&Hlu&Hln&Hvl&Hvh&Hhp&Hll&Hlh&Hne)].
  { destruct (absn_1 u E (proj1 Hu)); done. }
  rewrite (bind_ok _ _ _ _ _ (getsuccZ_ok s u t (proj1 Hu) Ht)).
  assert (Hnt' : negb (is_term t) = true)
    by (unfold is_term; by rewrite bool_decide_eq_false_2).
  rewrite (bind_ok _ _ s tt s (assert_true _ _ Hnt')).
  assert (HiX : t_lvl t ∈ X) by (apply Hocc; by apply (occ_here s u t)).
  rewrite (Hml (t_lvl t)) by (by left). cbn [of_opt]. rewrite bind_ret.
  set (i := rank X (t_lvl t) + slack).
  assert (Hile : i ≤ n).
  { subst i. rewrite Hn, (rank_split X (t_lvl t) (nvars s)) by lia. lia. }
  destruct (d !! absn u) as [m|] eqn:Ed.
  { rewrite (bind_ok _ _ _ _ _ (flipn_ok u i m Hile)).
    intros [= <- <-]. split; [done|]. exists d. split; [|done].
    rewrite (Nc_abs u t Hu Ht). by rewrite (Hd _ _ Ed). }
  (* the two recursive calls *)
  destruct (sat_len fu (t_lo t) ml n d s) as [r1 s1] eqn:E1. pose proof E1 as E1'.
  apply IH in E1' as (->&d1&->&Hd1); [|done|lia| |done]; cycle 1.
  { intros l Hl. apply Hocc. by apply (occ_lo s u t). }
  rewrite (bind_ok _ _ _ _ _ E1). cbv beta iota.
  destruct (sat_len fu (t_hi t) ml n d1 s) as [r2 s2] eqn:E2. pose proof E2 as E2'.
  apply IH in E2' as (->&d2&->&Hd2); [|done|lia| |done]; cycle 1.
  { intros l Hl. apply Hocc. by apply (occ_hi s u t). }
  rewrite (bind_ok _ _ _ _ _ E2). cbv beta iota.
  rewrite (bind_ok _ _ _ _ _ (level_of_ok s (t_lo t) Hvl)).
  rewrite decide_True by done.
  rewrite (bind_ok _ _ _ _ _ (level_of_ok s (t_hi t) Hvh)).
  rewrite (Hml (lvl_of s (t_lo t)))
    by (apply lvl_in; [done|]; intros l Hl; apply Hocc; by apply (occ_lo s u t)).
  cbn [of_opt]. rewrite bind_ret.
  rewrite (Hml (lvl_of s (t_hi t)))
    by (apply lvl_in; [done|]; intros l Hl; apply Hocc; by apply (occ_hi s u t)).
  cbn [of_opt]. rewrite bind_ret.
  pose proof (rank_gap X (t_lvl t) (lvl_of s (t_lo t)) HiX Hll) as Hgl.
  pose proof (rank_gap X (t_lvl t) (lvl_of s (t_hi t)) HiX Hlh) as Hgh.
  assert (Hass : bool_decide (i < rank X (lvl_of s (t_lo t)) + slack ∧
                              i < rank X (lvl_of s (t_hi t)) + slack) = true).
  { apply bool_decide_eq_true_2. subst i. lia. }
  rewrite (bind_ok _ _ s tt s (assert_true _ _ Hass)).
  set (nn := (Nc s X (t_lo t) * pow2 (rank X (lvl_of s (t_lo t)) + slack - i - 1) +
              Nc s X (t_hi t) * pow2 (rank X (lvl_of s (t_hi t)) + slack - i - 1))%Z).
  rewrite (bind_ok _ _ _ _ _ (flipn_ok u i nn Hile)).
  intros [= <- <-]. split; [done|].
  assert (Enn : nn = Nc s X (Z.pos (absn u))).
  { rewrite (Nc_node s X (Z.pos (absn u)) t HI); try done;
      try (by apply valid_abs).
    subst nn. unfold pow2. subst i. do 4 f_equal; lia. }
  eexists. split.
  - rewrite (Nc_abs u t Hu Ht). by rewrite Enn.
  - intros p m. destruct (decide (p = absn u)) as [->|Hp].
    + rewrite lookup_insert. by intros [= <-].
    + rewrite lookup_insert_ne by done. apply Hd2.
Qed.

End satlen.

(** ** [count] *)
Lemma vars_nm s l : Inv s → l < nvars s → vars s !! nm s l = Some l.
Proof.
  intros HI Hl. apply (inv_lvls _ HI) in Hl as [v Hv]. unfold nm. rewrite Hv.
  by apply (inv_vars _ HI).
Qed.

Lemma pow2_add a b : pow2 (a + b) = (pow2 a * pow2 b)%Z.
Proof. unfold pow2. rewrite Nat2Z.inj_add, Z.pow_add_r by lia. done. Qed.

Lemma count_spec_gen s u n r s' X : Inv s → valid s u →
  support_levels u s = (Ok X, s) →
  count u n s = (r, s') → s' = s ∧
  let k := default (size X) n in
  if decide (k < size X) then r = Err EValue
  else r = Ok (nsat s u (elements X) a0 * 2 ^ Z.of_nat (k - size X))%Z.
Proof.
  intros HI Hu HsX.
  destruct (support_levels_occ s HI u _ _ Hu HsX) as (_&X'&[= <-]&HXo).
  assert (HXlt : ∀ l, l ∈ X → l < nvars s).
  { intros l Hl%HXo. by apply (occurs_lt s u). }
  unfold count. rewrite bind_get.
  assert (Hm : ensure EValue (mem u s) s = (Ok tt, s)).
  { unfold ensure. by rewrite (proj2 (mem_valid s u) Hu). }
  rewrite (bind_ok _ _ _ _ _ Hm).
  destruct (support u s) as [rs ss] eqn:Es.
  destruct (support_occ s u rs ss HI Hu Es) as (->&X'&HsX'&_&->).
  rewrite HsX in HsX'. injection HsX' as <-.
  rewrite (bind_ok _ _ _ _ _ Es).
  set (sup := list_to_set (nm s <$> elements X) : gset nat).
  assert (Hsup : ∀ v, v ∈ sup ↔ ∃ l, l ∈ X ∧ v = nm s l).
  { intros v. subst sup. rewrite elem_of_list_to_set, elem_of_list_fmap.
    split; intros (l&?&?); exists l; by rewrite ?elem_of_elements in *. }
  assert (Hlv : mapM level_of_var (elements sup) s = (Ok (lv s <$> elements sup), s)).
  { apply mapM_pure. intros v (l&Hl&->)%elem_of_elements%Hsup.
    apply level_of_var_ok. unfold lv. by rewrite (vars_nm s l HI (HXlt l Hl)). }
  rewrite (bind_ok _ _ _ _ _ Hlv).
  assert (EX : (list_to_set (lv s <$> elements sup) : gset nat) = X).
  { apply stdpp.sets.set_eq. intros l. rewrite elem_of_list_to_set, elem_of_list_fmap. split.
    - intros (v&->&(l'&Hl&->)%elem_of_elements%Hsup).
      unfold lv. by rewrite (vars_nm s l' HI (HXlt l' Hl)).
    - intros Hl. exists (nm s l). split.
      + unfold lv. by rewrite (vars_nm s l HI (HXlt l Hl)).
      + apply elem_of_elements, Hsup. by exists l. }
  rewrite EX. clear Hlv EX Hsup Es. clearbody sup.
  cbv zeta.
  set (k := default (size X) n).
  destruct (decide (k < size X)) as [Hlt|Hge].
  { unfold ensure. rewrite bool_decide_eq_false_2 by lia.
    intros [= <- <-]. done. }
  assert (Hens : ensure (S:=st) EValue (bool_decide (size X ≤ k)) s = (Ok tt, s)).
  { unfold ensure. by rewrite bool_decide_eq_true_2 by lia. }
  rewrite (bind_ok _ _ _ _ _ Hens).
  assert (Eg1 : getsucc 1%positive s = (Ok (tterm (nvars s)), s)).
  { unfold getsucc. by rewrite (inv_term _ HI). }
  rewrite (bind_ok _ _ _ _ _ Eg1). cbn [t_lvl tterm].
  set (slack := k - size X).
  set (ml := <[nvars s := k]> _).
  assert (Hml : ∀ x, x ∈ X ∨ x = nvars s → ml !! x = Some (rank X x + slack)).
  { intros x [Hx| ->]; subst ml.
    - rewrite lookup_insert_ne by (specialize (HXlt x Hx); lia).
      rewrite (sorted_levels_LX X (nvars s) HXlt).
      rewrite (enum_lookup slack _ (NoDup_LX X 0 (nvars s)) 0 (rank X x) x).
      + done.
      + apply rank_lookup; [done|by apply HXlt].
    - rewrite lookup_insert. f_equal. rewrite (rank_size X (nvars s) HXlt).
      subst slack. lia. }
  assert (Hk : k = rank X (nvars s) + slack).
  { rewrite (rank_size X (nvars s) HXlt). subst slack. lia. }
  clearbody ml.
  destruct (sat_len (S (S (nvars s))) u ml k ∅ s) as [r1 s1] eqn:E1. pose proof E1 as E1'.
  apply (sat_len_spec s HI X slack k ml Hml Hk) in E1' as (->&d'&->&_);
    [|done|lia|by intros l Hl%HXo|by intros p m Hp].
  rewrite (bind_ok _ _ _ _ _ E1).
  rewrite (bind_ok _ _ _ _ _ (level_of_ok s u Hu)).
  rewrite (Hml (lvl_of s u)) by (apply (lvl_in s HI X); [done|by intros l Hl%HXo]).
  cbn [of_opt]. rewrite bind_ret. intros [= <- <-]. split; [done|].
  f_equal. cbn [fst].
  rewrite (nsat_perm s u _ _ (LX_elements X (nvars s) HXlt)).
  pose proof (lvl_le s HI u Hu) as Hle.
  replace (nvars s) with (lvl_of s u + (nvars s - lvl_of s u)) at 1 by lia.
  rewrite LX_app, Nat.add_0_l.
  rewrite nsat_below; [|done|done|].
  - fold (rank X (lvl_of s u)). fold (Nc s X u). rewrite pow2_add. unfold pow2.
    subst slack. ring.
  - apply Forall_forall. intros x Hx%elem_of_LX. lia.
Qed.

Theorem count_spec s u n r s' X : Inv s → valid s u →
  support_levels u s = (Ok X, s) →
  count u n s = (r, s') → s' = s ∧
  match n with
  | Some k => if decide (k < size X) then r = Err EValue
              else r = Ok (nsat s u (elements X) (fun _ => false) *
                           2 ^ Z.of_nat (k - size X))%Z
  | None => r = Ok (nsat s u (elements X) (fun _ => false))
  end.
Proof.
  intros HI Hu HsX Hrun.
  destruct (count_spec_gen s u n r s' X HI Hu HsX Hrun) as [-> Hr].
  split; [done|]. destruct n as [k|]; cbn in Hr; [done|].
  rewrite decide_False in Hr by lia. rewrite Hr, Nat.sub_diag.
  change (Z.of_nat 0) with 0%Z. rewrite Z.pow_0_r, Z.mul_1_r. done.
Qed.

(** [count(u, k)] is the number of satisfying assignments over the support
    and any [k - |support|] further variables *)
Corollary count_spec_vars s u k r s' X extra a : Inv s → valid s u →
  support_levels u s = (Ok X, s) →
  size X ≤ k → length extra = k - size X → (∀ l, l ∈ extra → l ∉ X) →
  count u (Some k) s = (r, s') →
  s' = s ∧ r = Ok (nsat s u (extra ++ elements X) a).
Proof.
  intros HI Hu HsX Hk Hlen Hdis Hrun.
  destruct (count_spec s u (Some k) r s' X HI Hu HsX Hrun) as [-> Hr].
  split; [done|]. rewrite decide_False in Hr by lia. rewrite Hr. f_equal.
  destruct (support_levels_occ s HI u _ _ Hu HsX) as (_&X'&[= <-]&HXo).
  rewrite nsat_extend; [|done|done|].
  - rewrite Hlen.
    rewrite (nsat_support_indep s u (elements X) a (fun _ => false)); [ring|done|done|].
    intros j Hj. by apply elem_of_elements, HXo.
  - intros l Hl Ho. apply (Hdis l Hl). by apply HXo.
Qed.
