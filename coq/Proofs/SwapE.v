(** * SwapE: the state after the three relabelling phases satisfies [Mid] *)
From DD Require Export SwapD.

Definition relab (s0 : st) (x : nat) (t : triple) : triple :=
  if decide (t_lvl t = x + 1) then Triple x (t_lo t) (t_hi t)
  else if decide (t_lvl t = x ∧ indepS s0 (x + 1) (t_lo t) (t_hi t))
       then Triple (x + 1) (t_lo t) (t_hi t)
       else t.

Lemma relab_edges s0 x t n : edges_to (relab s0 x t) n = edges_to t n.
Proof. unfold relab. by repeat case_decide. Qed.

Lemma indeg_fmap (f : triple → triple) (m : gmap positive triple) n :
  (∀ t, edges_to (f t) n = edges_to t n) → indeg (f <$> m) n = indeg m n.
Proof.
  intros Hf. induction m as [|i t m Hi IH] using map_ind.
  - by rewrite fmap_empty.
  - rewrite fmap_insert. rewrite !indeg_insert_fresh by (by rewrite ?lookup_fmap, Hi).
    by rewrite Hf, IH.
Qed.

Section init.
Context (s0 : st) (HI : Inv s0) (x : nat) (Hy : x + 1 < nvars s0).

(** the dependent x-nodes *)
Definition isdep (n : positive) : Prop :=
  ∃ t, succ s0 !! n = Some t ∧ t_lvl t = x ∧ ¬ indepS s0 (x + 1) (t_lo t) (t_hi t).

Lemma Mid_init s T :
  succ s = relab s0 x <$> succ s0 → keep s0 s → last_len s0 = None →
  (∀ n, n ∈ T ↔ isdep n) →
  (∀ t n, pred s !! t = Some n ↔ succ s !! n = Some t ∧ n ∉ T) →
  Mid s0 x s T.
Proof.
  intros Hs (Hk1&Hk2&Hk3&Hk4&Hk5&Hk6&Hk7) Hll HT Hp.
  assert (Hlk : ∀ n, succ s !! n = relab s0 x <$> succ s0 !! n).
  { intros n. by rewrite Hs, lookup_fmap. }
  assert (Hnv : nvars s = nvars s0) by (unfold nvars; by rewrite Hk4).
  assert (Hval : ∀ z, valid s z ↔ valid s0 z).
  { intros z. unfold valid. rewrite Hlk. by rewrite fmap_is_Some. }
  (* the new level of an old node *)
  assert (Hlvl : ∀ z, valid s0 z →
     lvl_of s z = x ∧ lvl_of s0 z = x + 1 ∨
     lvl_of s z = x + 1 ∧ lvl_of s0 z = x ∨
     lvl_of s z = lvl_of s0 z ∧ lvl_of s0 z ≠ x + 1).
  { intros z [_ [t Ht]]. unfold lvl_of. rewrite Hlk, Ht. cbn. unfold relab.
    repeat case_decide; cbn; lia. }
  split; try done.
  - congruence.
  - rewrite Hlk, (inv_term _ HI). cbn. unfold relab, tterm. cbn.
    rewrite !decide_False; [done|lia..].
  - rewrite Hk2. destruct (inv_free _ HI) as [Hf Hb]. split.
    + by rewrite Hlk, Hf.
    + intros k Hk. rewrite Hlk, fmap_is_Some. by apply Hb.
  - rewrite Hk1, (inv_ref _ HI), Hs. by rewrite dom_fmap_L.
  - intros n Hn. apply HT in Hn as (t&Ht&Hl&Hd). exists t. split_and!; try done.
    rewrite Hlk, Ht. cbn. unfold relab. rewrite decide_False by lia.
    rewrite decide_False by tauto. done.
  - intros n t0 H0 Hn. exists (relab s0 x t0). split; [by rewrite Hlk, H0|].
    unfold mid_img, relab. case_decide; [done|]. case_decide as E1.
    + destruct (decide (indepS s0 (x + 1) (t_lo t0) (t_hi t0))) as [Hi|Hi].
      * by rewrite decide_True.
      * exfalso. apply Hn, HT. by exists t0.
    + rewrite decide_False by tauto. done.
  - intros n t Hn H0. rewrite Hlk, H0 in Hn. done.
  - intros n t Hn Hn1 HnT. rewrite Hlk in Hn.
    destruct (succ s0 !! n) as [t0|] eqn:H0; [|done]. cbn in Hn. injection Hn as <-.
    destruct (inv_node _ HI _ _ H0 Hn1) as (Hl&Hvl&Hhp&Hvh&Hlo0&Hhi0&Hne).
    destruct (Hlvl _ Hvl) as [Hlo|[Hlo|Hlo]], (Hlvl _ Hvh) as [Hhi|[Hhi|Hhi]];
      unfold node_ok, relab; rewrite Hnv;
      (destruct (decide (t_lvl t0 = x + 1)) as [E1|E1];
       [|destruct (decide (t_lvl t0 = x ∧ indepS s0 (x + 1) (t_lo t0) (t_hi t0))) as [[E2 [E3 E4]]|E2]]);
      cbn [t_lvl t_lo t_hi]; rewrite !Hval;
      try (split_and!; try done; lia).
    all: destruct (decide (t_lvl t0 = x)) as [Ex|Ex];
      [exfalso; apply HnT, HT; exists t0; split_and!; [done|done|tauto]
      |split_and!; try done; lia].
Qed.
End init.

Lemma lk_fst s (o : list positive) : (lk s <$> o).*1 = o.
Proof.
  induction o as [|u o IH]; [done|]. cbn. rewrite IH. f_equal.
  unfold lk. by destruct (succ s !! u).
Qed.
Lemma elem_lk s (o : list positive) u v w :
  (u, (v, w)) ∈ lk s <$> o →
  u ∈ o ∧ (∀ t, succ s !! u = Some t → t_lo t = v ∧ t_hi t = w).
Proof.
  intros H. apply elem_of_list_fmap in H as (u'&E&Hu'). unfold lk in E.
  destruct (succ s !! u') as [t|] eqn:Ht; injection E as -> -> ->.
  - split; [done|]. intros t' Ht'. rewrite Ht in Ht'. by injection Ht' as <-.
  - split; [done|]. intros t' Ht'. congruence.
Qed.
Lemma lk_ext s s' (o : list positive) : succ s' = succ s → lk s' <$> o = lk s <$> o.
Proof. intros E. apply list_fmap_ext. intros _ u _. unfold lk. by rewrite E. Qed.

Section phases.
Context (s0 : st) (HI : Inv s0) (x : nat) (Hy : x + 1 < nvars s0).
Context (ox oy : list positive) (Hndx : NoDup ox) (Hndy : NoDup oy).
Context (Hox : ∀ n, n ∈ ox ↔ ∃ t, succ s0 !! n = Some t ∧ t_lvl t = x).
Context (Hoy : ∀ n, n ∈ oy ↔ ∃ t, succ s0 !! n = Some t ∧ t_lvl t = x + 1).

Lemma collect_x sA : succ sA = succ s0 → pred sA = pred s0 → keep s0 sA →
  ∃ sB, swap_collect x ox sA = (Ok (lk s0 <$> ox), sB) ∧ succ sB = succ s0 ∧
    keep s0 sB ∧
    ∀ t n, pred sB !! t = Some n ↔ pred s0 !! t = Some n ∧ n ∉ ox.
Proof.
  intros Es Ep Hk.
  destruct (swap_collect_spec x ox sA Hndx) as (sB&Hrun&HsB&HkB&HpB).
  - intros u Hu. apply Hox in Hu as (t&Ht&Hl). exists t. rewrite Es, Ep.
    split_and!; try done. by apply (inv_pred _ HI).
  - intros t u. rewrite Es, Ep. apply (inv_pred _ HI).
  - exists sB. rewrite (lk_ext s0 sA) in Hrun by done. split_and!; try done.
    + congruence.
    + by etrans.
    + intros t n. rewrite HpB. by rewrite Ep.
Qed.

Lemma collect_y sC : succ sC = succ s0 → keep s0 sC →
  (∀ t n, pred sC !! t = Some n ↔ pred s0 !! t = Some n ∧ n ∉ ox) →
  ∃ sD, swap_collect (x + 1) oy sC = (Ok (lk s0 <$> oy), sD) ∧ succ sD = succ s0 ∧
    keep s0 sD ∧
    ∀ t n, pred sD !! t = Some n ↔ pred s0 !! t = Some n ∧ n ∉ ox ∧ n ∉ oy.
Proof.
  intros Es Hk Hp.
  destruct (swap_collect_spec (x + 1) oy sC Hndy) as (sD&Hrun&HsD&HkD&HpD).
  - intros u Hu. apply Hoy in Hu as (t&Ht&Hl). exists t. rewrite Es.
    split_and!; try done. apply Hp. split; [by apply (inv_pred _ HI)|].
    intros Hux. apply Hox in Hux as (t'&Ht'&Hl'). rewrite Ht in Ht'. injection Ht' as <-. lia.
  - intros t u Hpu. apply Hp in Hpu as [Hpu _]. rewrite Es. by apply (inv_pred _ HI).
  - exists sD. rewrite (lk_ext s0 sC) in Hrun by done. split_and!; try done.
    + congruence.
    + by etrans.
    + intros t n. rewrite HpD, Hp. tauto.
Qed.
End phases.

Definition upf (x : nat) (t : triple) : triple :=
  if decide (t_lvl t = x + 1) then Triple x (t_lo t) (t_hi t) else t.

Lemma lk_elem s (o : list positive) u t : u ∈ o → succ s !! u = Some t →
  (u, (t_lo t, t_hi t)) ∈ lk s <$> o.
Proof.
  intros Hu Ht. apply elem_of_list_fmap. exists u. split; [|done].
  unfold lk. by rewrite Ht.
Qed.

Section phases2.
Context (s0 : st) (HI : Inv s0) (x : nat) (Hy : x + 1 < nvars s0).
Context (ox oy : list positive) (Hndx : NoDup ox) (Hndy : NoDup oy).
Context (Hox : ∀ n, n ∈ ox ↔ ∃ t, succ s0 !! n = Some t ∧ t_lvl t = x).
Context (Hoy : ∀ n, n ∈ oy ↔ ∃ t, succ s0 !! n = Some t ∧ t_lvl t = x + 1).

Lemma lk_inj (o : list positive) l u u' p :
  (∀ n, n ∈ o → ∃ t, succ s0 !! n = Some t ∧ t_lvl t = l) →
  (u, p) ∈ lk s0 <$> o → (u', p) ∈ lk s0 <$> o → u = u'.
Proof.
  intros Ho H1 H2. destruct p as [v w].
  apply elem_lk in H1 as [Hu H1], H2 as [Hu' H2].
  destruct (Ho u Hu) as (t&Ht&Hl), (Ho u' Hu') as (t'&Ht'&Hl').
  destruct (H1 t Ht) as [? ?], (H2 t' Ht') as [? ?].
  assert (t = t') as -> by (destruct t, t'; cbn in *; congruence).
  apply (inv_pred _ HI) in Ht, Ht'. congruence.
Qed.

Lemma up_phase sD : succ sD = succ s0 → keep s0 sD →
  (∀ t n, pred sD !! t = Some n ↔ pred s0 !! t = Some n ∧ n ∉ ox ∧ n ∉ oy) →
  ∃ sE, swap_up x (x + 1) (lk s0 <$> oy) sD = (Ok tt, sE) ∧ keep s0 sE ∧
    (∀ n, succ sE !! n = upf x <$> succ s0 !! n) ∧
    (∀ t n, pred sE !! t = Some n ↔ succ sE !! n = Some t ∧ n ∉ ox).
Proof.
  intros Es Hk Hp.
  destruct (swap_up_spec x (x + 1) (lk s0 <$> oy) sD) as (sE&Hrun&HkE&Hs1&Hs2&HpE).
  - by rewrite lk_fst.
  - intros u v w Hin. apply elem_lk in Hin as [Hu Hin].
    apply Hoy in Hu as (t&Ht&Hl). destruct (Hin t Ht) as [<- <-]. split.
    + rewrite Es, Ht. f_equal. destruct t; cbn in *; congruence.
    + destruct (pred sD !! _) as [n|] eqn:Hpn; [exfalso|done].
      apply Hp in Hpn as (Hpn&Hnx&_). apply (inv_pred _ HI) in Hpn.
      apply Hnx, Hox. eauto.
  - intros u u' p. apply (lk_inj oy (x + 1)). intros n Hn. by apply Hoy.
  - assert (HsE : ∀ n, succ sE !! n = upf x <$> succ s0 !! n).
    { intros n. destruct (decide (n ∈ oy)) as [Hn|Hn].
      - pose proof Hn as Hn'. apply Hoy in Hn' as (t&Ht&Hl).
        rewrite (Hs2 n _ _ (lk_elem s0 oy n t Hn Ht)), Ht. cbn. unfold upf.
        by rewrite decide_True.
      - rewrite Hs1 by (by rewrite lk_fst). rewrite Es.
        destruct (succ s0 !! n) as [t|] eqn:Ht; [|done]. cbn. unfold upf.
        rewrite decide_False; [done|]. intros Hl. apply Hn, Hoy. eauto. }
    exists sE. split_and!; try done; [by etrans|].
    intros t n. rewrite HpE, Hp. split.
    + intros [(Hpn&Hnx&Hny)|(v&w&Hin&->)].
      * split; [|done]. apply (inv_pred _ HI) in Hpn. rewrite HsE, Hpn. cbn. unfold upf.
        rewrite decide_False; [done|]. intros Hl. apply Hny, Hoy. eauto.
      * split; [by apply Hs2|]. apply elem_lk in Hin as [Hu _].
        apply Hoy in Hu as (t&Ht&Hl). intros Hnx. apply Hox in Hnx as (t'&Ht'&Hl').
        rewrite Ht in Ht'. injection Ht' as <-. lia.
    + intros [Hn Hnx]. rewrite HsE in Hn.
      destruct (succ s0 !! n) as [t0|] eqn:H0; [|done]. cbn in Hn. injection Hn as <-.
      unfold upf. case_decide as Hl.
      * right. exists (t_lo t0), (t_hi t0). split; [|done].
        apply lk_elem; [|done]. apply Hoy. eauto.
      * left. split_and!; [by apply (inv_pred _ HI)|done|].
        intros Hny. apply Hoy in Hny as (t'&Ht'&Hl'). rewrite H0 in Ht'. injection Ht' as <-. lia.
Qed.
End phases2.

Section phases3.
Context (s0 : st) (HI : Inv s0) (x : nat) (Hy : x + 1 < nvars s0).
Context (ox : list positive) (Hndx : NoDup ox).
Context (Hox : ∀ n, n ∈ ox ↔ ∃ t, succ s0 !! n = Some t ∧ t_lvl t = x).

Lemma indep_phase sE : keep s0 sE →
  (∀ n, succ sE !! n = upf x <$> succ s0 !! n) →
  (∀ t n, pred sE !! t = Some n ↔ succ sE !! n = Some t ∧ n ∉ ox) →
  ∃ sF dn, swap_indep x (x + 1) (lk s0 <$> ox) sE = (Ok dn, sF) ∧ keep s0 sF ∧
    succ sF = relab s0 x <$> succ s0 ∧
    (∀ n, n ∈ dn ↔ ∃ t, succ s0 !! n = Some t ∧ t_lvl t = x ∧
                        indepS s0 (x + 1) (t_lo t) (t_hi t)) ∧
    (∀ t n, pred sF !! t = Some n ↔ succ sF !! n = Some t ∧ ¬ isdep s0 x n).
Proof.
  intros Hk HsE HpE.
  assert (Hlv : ∀ z, x + 1 < lvl_of sE z ↔ x + 1 < lvl_of s0 z).
  { intros z. unfold lvl_of. rewrite HsE. destruct (succ s0 !! absn z) as [t|]; [|done].
    cbn. unfold upf. case_decide; cbn; lia. }
  assert (Hind : ∀ v w, indepS sE (x + 1) v w ↔ indepS s0 (x + 1) v w).
  { intros v w. unfold indepS. by rewrite !Hlv. }
  assert (Hchild : ∀ z, valid s0 z → child_ok sE z).
  { intros z [Hz0 [t Ht]]. split; [done|]. exists (upf x t). split; [by rewrite HsE, Ht|].
    intros Hz1. destruct (inv_node _ HI _ _ Ht Hz1) as (_&[Hlo _]&_).
    unfold upf. by case_decide. }
  rewrite swap_indep_eq.
  destruct (swap_indep_spec x (x + 1) (lk s0 <$> ox) sE ∅) as (sF&dn&Hrun&HkF&Hs1&Hs2&Hdn&HpF).
  - by rewrite lk_fst.
  - intros u v w Hin. apply elem_lk in Hin as [Hu Hin].
    apply Hox in Hu as (t&Ht&Hl). destruct (Hin t Ht) as [<- <-].
    destruct (dep_facts s0 HI x Hy u (t_lo t) (t_hi t)) as (Hu1&Hv&Hw&Hwp&Hne&Hlo&Hhi).
    { rewrite Ht. f_equal. destruct t; cbn in *; congruence. }
    rewrite lk_fst. split_and!.
    + rewrite HsE, Ht. cbn. unfold upf. rewrite decide_False by lia.
      f_equal. destruct t; cbn in *; congruence.
    + by apply Hchild.
    + by apply Hchild.
    + intros Hin'. apply Hox in Hin' as (t'&Ht'&Hl'). unfold lvl_of in Hlo. rewrite Ht' in Hlo. lia.
    + intros Hin'. apply Hox in Hin' as (t'&Ht'&Hl'). unfold lvl_of in Hhi. rewrite Ht' in Hhi. lia.
    + destruct (pred sE !! _) as [n|] eqn:Hpn; [exfalso|done].
      apply HpE in Hpn as [Hpn _]. rewrite HsE in Hpn.
      destruct (succ s0 !! n) as [t0|]; [|done]. cbn in Hpn. injection Hpn as Hpn.
      unfold upf in Hpn. case_decide as E; [by injection Hpn; lia|]. subst t0. cbn in E. lia.
  - intros u u' p. apply (lk_inj s0 HI ox x). intros n Hn. by apply Hox.
  - assert (HsF : ∀ n, succ sF !! n = relab s0 x <$> succ s0 !! n).
    { intros n. destruct (decide (n ∈ ox)) as [Hn|Hn].
      - pose proof Hn as Hn'. apply Hox in Hn' as (t&Ht&Hl).
        rewrite (Hs2 n _ _ (lk_elem s0 ox n t Hn Ht)), Ht. cbn. unfold relab.
        rewrite (decide_False (P := t_lvl t = x + 1)) by lia. f_equal.
        destruct (decide (indepS sE (x + 1) (t_lo t) (t_hi t))) as [Hi|Hi].
        + rewrite decide_True by (split; [done|by apply Hind]). done.
        + rewrite decide_False by (rewrite <- Hind; tauto).
          destruct t; cbn in *; congruence.
      - rewrite Hs1 by (by rewrite lk_fst). rewrite HsE.
        destruct (succ s0 !! n) as [t|] eqn:Ht; [|done]. cbn. unfold upf, relab.
        case_decide; [done|]. rewrite decide_False; [done|].
        intros [Hl _]. apply Hn, Hox. eauto. }
    exists sF, (∅ ∪ dn). split_and!; try done.
    + by etrans.
    + apply map_eq. intros n. by rewrite HsF, lookup_fmap.
    + intros n. rewrite (left_id_L ∅ (∪)), Hdn. split.
      * intros (v&w&Hin&Hi). apply elem_lk in Hin as [Hu Hin].
        apply Hox in Hu as (t&Ht&Hl). destruct (Hin t Ht) as [<- <-].
        exists t. split_and!; try done. by apply Hind.
      * intros (t&Ht&Hl&Hi). exists (t_lo t), (t_hi t). split; [|by apply Hind].
        apply lk_elem; [|done]. apply Hox. eauto.
    + intros t n. rewrite HpF, HpE. split.
      * intros [[Hn Hnx]|(v&w&Hin&Hi&->)].
        -- split.
           ++ rewrite Hs1 by (by rewrite lk_fst). done.
           ++ intros (t'&Ht'&Hl'&_). apply Hnx, Hox. eauto.
        -- pose proof Hin as Hin'. apply elem_lk in Hin' as [Hu Hin'].
           apply Hox in Hu as (t&Ht&Hl). destruct (Hin' t Ht) as [<- <-]. split.
           ++ rewrite (Hs2 n _ _ Hin). by rewrite decide_True.
           ++ intros (t'&Ht'&_&Hd). rewrite Ht in Ht'. injection Ht' as <-.
              apply Hd. by apply Hind.
      * intros [Hn Hnd]. destruct (decide (n ∈ ox)) as [Hnx|Hnx].
        -- right. pose proof Hnx as Hnx'. apply Hox in Hnx' as (t0&H0&Hl).
           assert (Hi : indepS s0 (x + 1) (t_lo t0) (t_hi t0)).
           { destruct (decide (indepS s0 (x + 1) (t_lo t0) (t_hi t0))); [done|].
             exfalso. apply Hnd. by exists t0. }
           exists (t_lo t0), (t_hi t0). split_and!; [by apply lk_elem|by apply Hind|].
           rewrite HsF, H0 in Hn. cbn in Hn. injection Hn as <-. unfold relab.
           rewrite decide_False by lia. by rewrite decide_True.
        -- left. split; [|done]. rewrite <- Hn. symmetry. apply Hs1. by rewrite lk_fst.
Qed.
End phases3.
