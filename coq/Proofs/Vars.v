(** * Vars: declaring and removing variables (C14).
    [add_var]/[declare] are idempotent for existing names, give each new name
    the next bottom level, refuse a conflicting name or level;
    [vars]/[var_at_level]/[level_of_var] describe one bijection between names
    and levels [0..n-1]; [undeclare_vars] removes exactly the requested unused
    variables and compacts the levels. *)
From DD Require Export Total.
From DD Require Export Sat.

(** ** The variable order is a bijection between names and levels [0..n-1] *)
Theorem vars_bijection s : Inv s →
  (∀ v l, level_of_var v s = (Ok l, s) ↔ var_at_level l s = (Ok v, s)) ∧
  (∀ v l, level_of_var v s = (Ok l, s) ↔ vars s !! v = Some l) ∧
  (∀ l, l < nvars s ↔ ∃ v, var_at_level l s = (Ok v, s)) ∧
  (∀ v, vars s !! v = None ↔ level_of_var v s = (Err EValue, s)) ∧
  (∀ l, nvars s ≤ l ↔ var_at_level l s = (Err EValue, s)).
Proof.
  intros HI.
  assert (H1 : ∀ v l, level_of_var v s = (Ok l, s) ↔ vars s !! v = Some l).
  { intros v l. unfold level_of_var. cbn [bind get].
    destruct (vars s !! v) as [l'|]; unfold of_opt, ret, raise; split; congruence. }
  assert (H2 : ∀ v l, var_at_level l s = (Ok v, s) ↔ lvl2var s !! l = Some v).
  { intros v l. unfold var_at_level. cbn [bind get].
    destruct (lvl2var s !! l) as [v'|]; unfold of_opt, ret, raise; split; congruence. }
  split_and!.
  - intros v l. rewrite H1, H2. apply (inv_vars _ HI).
  - done.
  - intros l. rewrite (inv_lvls _ HI). split.
    + intros [v Hv]. exists v. by apply H2.
    + intros [v Hv]. exists v. by apply H2.
  - intros v. unfold level_of_var. cbn [bind get].
    destruct (vars s !! v) as [l'|]; unfold of_opt, ret, raise; split; congruence.
  - intros l. unfold var_at_level. cbn [bind get].
    destruct (lvl2var s !! l) as [v'|] eqn:E; unfold of_opt, ret, raise; split; try congruence.
    + intros Hl. assert (l < nvars s) by (apply (inv_lvls _ HI); by eexists). lia.
    + intros _. destruct (decide (l < nvars s)) as [Hl|]; [|lia].
      apply (inv_lvls _ HI) in Hl as [? ?]. congruence.
Qed.

(** ** [add_var] *)

(** (i) an existing name, without level or with its own level: idempotent *)
Theorem add_var_existing s var vl level :
  vars s !! var = Some vl → level = None ∨ level = Some vl →
  add_var var level s = (Ok vl, s).
Proof.
  intros Hv Hl. unfold add_var. cbn [bind get].
  rewrite decide_True by (by eexists). unfold check_var. cbn [bind get]. rewrite Hv.
  destruct Hl as [->| ->]; [done|]. by rewrite decide_True.
Qed.

(** (ii) an existing name with another level: refused, nothing changes *)
Theorem add_var_conflict s var vl l :
  vars s !! var = Some vl → l ≠ vl →
  add_var var (Some l) s = (Err EValue, s).
Proof.
  intros Hv Hl. unfold add_var. cbn [bind get].
  rewrite decide_True by (by eexists). unfold check_var. cbn [bind get]. rewrite Hv.
  by rewrite decide_False.
Qed.

(** (iii), (iv) a new name: without level, or with the next free level, it
    becomes the bottom variable; the terminal moves one level down, every
    reference keeps its meaning, the manager stays canonical and the counts
    exact *)
Theorem add_var_new s var level r s' :
  Inv s → vars s !! var = None → level = None ∨ level = Some (nvars s) →
  add_var var level s = (r, s') →
  r = Ok (nvars s) ∧ Inv s' ∧ nvars s' = S (nvars s) ∧
  vars s' = <[var := nvars s]> (vars s) ∧
  lvl2var s' = <[nvars s := var]> (lvl2var s) ∧
  succ s' = <[1%positive := tterm (S (nvars s))]> (succ s) ∧
  frame s s' ∧ (∀ L, Counts s L → Counts s' L) ∧
  ∀ u, valid s u → valid s' u ∧ (∀ a, D s' u a = D s u a) ∧
                   ∀ ρ, denv s' u ρ = denv s u ρ.
Proof.
  intros HI Hv Hl H.
  destruct (add_var_total s var level r s' HI H) as (HI'&Hf&HC&Hd&Hr).
  { intros l -> _. destruct Hl as [?|[= ->]]; [done|lia]. }
  assert (Hok : ∃ l, r = Ok l).
  { revert H. unfold add_var. cbn [bind get].
    rewrite decide_False by (rewrite Hv; by intros [? ?]).
    unfold next_free_level. rewrite bind_assoc. cbn [bind get].
    assert ((match level with Some l => l | None => nvars s end) = nvars s) as ->
      by (by destruct Hl as [->| ->]).
    assert (lvl2var s !! nvars s = None) as ->.
    { apply eq_None_not_Some. intros Hs. apply (inv_lvls _ HI) in Hs. lia. }
    cbn [bind ret modify get init_terminal]. intros [= <- _]. by eexists. }
  destruct Hok as [l ->]. destruct Hr as [[? _]|(_&->&?&?&?&?)]; [congruence|].
  by split_and!.
Qed.

(** (iv) a new name at a level already taken: refused, nothing changes *)
Theorem add_var_taken s var l :
  Inv s → vars s !! var = None → l < nvars s →
  add_var var (Some l) s = (Err EValue, s).
Proof.
  intros HI Hv Hl. unfold add_var. cbn [bind get].
  rewrite decide_False by (rewrite Hv; by intros [? ?]).
  unfold next_free_level. rewrite bind_assoc. cbn [bind get].
  apply (inv_lvls _ HI) in Hl as [x ->]. done.
Qed.

(** (iv) a new name at a level BEYOND the next free one: the code accepts
    the call, and the result violates the invariant (the levels are no longer
    [0..n-1]: level [nvars s] is missing).  A finding, not a theorem about a
    correct program: dd/bdd.py [add_var] has the same gap ([_next_free_level]
    only tests that the level is not taken). *)
Theorem add_var_gap s var l r s' :
  Inv s → vars s !! var = None → nvars s < l →
  add_var var (Some l) s = (r, s') → r = Ok l ∧ ¬ Inv s'.
Proof.
  intros HI Hv Hl. unfold add_var. cbn [bind get].
  rewrite decide_False by (rewrite Hv; by intros [? ?]).
  unfold next_free_level. rewrite bind_assoc. cbn [bind get].
  assert (lvl2var s !! l = None) as ->.
  { apply eq_None_not_Some. intros Hs. apply (inv_lvls _ HI) in Hs. lia. }
  cbn [bind ret modify get init_terminal]. intros [= <- <-]. split; [done|].
  intros HI'. pose proof (inv_lvls _ HI' (nvars s)) as [Hx _].
  revert Hx. unfold nvars at 2. cbn. rewrite map_size_insert_None by done.
  fold (nvars s). intros Hx. destruct Hx as [x Hx]; [lia|].
  rewrite lookup_insert_ne in Hx by lia.
  assert (nvars s < nvars s); [|lia]. apply (inv_lvls _ HI). by eexists.
Qed.

Example add_var_gap_refuted :
  fst (add_var 0 (Some 3) init) = Ok 3 ∧ ¬ Inv (snd (add_var 0 (Some 3) init)).
Proof.
  destruct (add_var 0 (Some 3) init) as [r s'] eqn:E.
  destruct (add_var_gap init 0 3 r s' Inv_init) as [-> Hn]; try done.
  change (nvars init) with 0. lia.
Qed.

(** the same by evaluation: after [add_var(v0, level=3)] on the empty manager
    one variable is declared but level 0 carries no variable *)
Example add_var_gap_eval :
  let s' := snd (add_var 0 (Some 3) init) in
  (nvars s', lvl2var s' !! 0, lvl2var s' !! 3) = (1, None, Some 0).
Proof. by vm_compute. Qed.

(** [declare] = [add_var] without level for each name, in order; it never
    fails; already declared names are skipped *)
Theorem declare_spec s vs r s' :
  Inv s → declare vs s = (r, s') →
  r = Ok tt ∧ Inv s' ∧ frame s s' ∧ (∀ L, Counts s L → Counts s' L) ∧
  (∀ u, valid s u → valid s' u ∧ ∀ ρ, denv s' u ρ = denv s u ρ) ∧
  vars s ⊆ vars s' ∧ (∀ v, v ∈ vs → is_Some (vars s' !! v)) ∧
  dom (vars s') = dom (vars s) ∪ list_to_set vs.
Proof.
  unfold declare. revert s. induction vs as [|v vs IH]; intros s HI; cbn [forM].
  { intros [= <- <-]. split_and!; try done; [set_solver|set_solver]. }
  unfold bind at 1. unfold bind at 1.
  destruct (add_var v None s) as [ra s1] eqn:Ea.
  assert (Hstep : ∃ l, ra = Ok l ∧ Inv s1 ∧ frame s s1 ∧ (∀ L, Counts s L → Counts s1 L) ∧
            (∀ u, valid s u → valid s1 u ∧ ∀ ρ, denv s1 u ρ = denv s u ρ) ∧
            vars s ⊆ vars s1 ∧ vars s1 !! v = Some l ∧ dom (vars s1) = dom (vars s) ∪ {[v]}).
  { destruct (vars s !! v) as [vl|] eqn:Ev.
    - rewrite (add_var_existing s v vl None Ev) in Ea by (by left). injection Ea as <- <-.
      exists vl. split_and!; try done. apply elem_of_dom_2 in Ev. set_solver.
    - destruct (add_var_new s v None ra s1 HI Ev ltac:(by left) Ea)
        as (->&HI1&_&Ev1&_&_&Hf1&HC1&Hd1).
      exists (nvars s). split_and!; try done.
      + intros u Hu. destruct (Hd1 u Hu) as (?&_&?). done.
      + rewrite Ev1. by apply insert_subseteq.
      + by rewrite Ev1, lookup_insert.
      + rewrite Ev1, dom_insert_L. set_solver. }
  destruct Hstep as (l&->&HI1&Hf1&HC1&Hd1&Hs1&Hv1&Hdom1).
  cbn [ret]. intros H. destruct (IH s1 HI1 H) as (->&HI'&Hf'&HC'&Hd'&Hs'&Hin'&Hdom').
  split_and!; try done.
  - by etrans.
  - intros L HL. by apply HC', HC1.
  - intros u Hu. destruct (Hd1 u Hu) as (Hu1&Hρ1). destruct (Hd' u Hu1) as (Hu2&Hρ2).
    split; [done|]. intros ρ. by rewrite Hρ2.
  - by etrans.
  - intros v' Hv'. apply elem_of_cons in Hv' as [->|Hv']; [|by apply Hin'].
    exists l. by apply (lookup_weaken _ _ _ _ Hv1 Hs').
  - rewrite Hdom', Hdom1. cbn [list_to_set foldr]. set_solver.
Qed.

(** ** Relabelling the levels by a strictly monotone map

    [den] only reads a level to look the assignment up; relabelling the
    levels and reindexing the assignment accordingly changes nothing. *)
Definition relabel (φ : nat → nat) (t : triple) : triple :=
  Triple (φ (t_lvl t)) (t_lo t) (t_hi t).

Lemma den_relabel s s' φ a a' :
  (∀ n, succ s' !! n = relabel φ <$> succ s !! n) →
  (∀ n t, succ s !! n = Some t → t_lo t ≠ 0%Z → a' (φ (t_lvl t)) = a (t_lvl t)) →
  ∀ f u, den f s' u a' = den f s u a.
Proof.
  intros Hs Ha. induction f as [|f IH]; intros u; [done|].
  cbn [den]. rewrite Hs. destruct (succ s !! absn u) as [t|] eqn:Et; cbn; [|done].
  destruct (decide (t_lo t = 0%Z)) as [|Hlo]; [done|].
  by rewrite (Ha _ _ Et Hlo), !IH.
Qed.

Section relabel.
Context (s s' : st) (φ : nat → nat) (keep : nat → Prop).
Context (HI : Inv s).
Context (Hmono : ∀ a b, keep a → keep b → b ≤ nvars s → a < b → φ a < φ b).
Context (Hkn : keep (nvars s)).
Context (Hknode : ∀ n t, succ s !! n = Some t → keep (t_lvl t)).
Context (Hle : φ (nvars s) ≤ nvars s).
Context (Hsurj : ∀ l', l' < φ (nvars s) → ∃ l, l < nvars s ∧ keep l ∧ φ l = l').
Context (Hs : ∀ n, succ s' !! n = relabel φ <$> succ s !! n).
Context (Hp : ∀ n t, succ s' !! n = Some t ↔ pred s' !! t = Some n).
Context (Hr : refc s' = refc s) (Hm : min_free s' = min_free s) (Hi : ite_tab s' = ∅).
Context (Hv : ∀ v l', vars s' !! v = Some l' ↔
                      ∃ l, vars s !! v = Some l ∧ keep l ∧ l' = φ l).
Context (Hb : ∀ v l, vars s' !! v = Some l ↔ lvl2var s' !! l = Some v).
Context (Hn : nvars s' = φ (nvars s)).

Lemma relabel_valid x : valid s' x ↔ valid s x.
Proof. unfold valid. rewrite Hs, fmap_is_Some. done. Qed.

Lemma relabel_lvl x : valid s x → lvl_of s' x = φ (lvl_of s x) ∧ keep (lvl_of s x).
Proof.
  intros [_ [t Ht]]. unfold lvl_of. rewrite Hs, Ht. cbn. split; [done|]. by apply (Hknode _ _ Ht).
Qed.

Lemma Inv_relabel : Inv s'.
Proof.
  split.
  - rewrite Hs, (inv_term _ HI). cbn. unfold relabel, tterm. cbn. by rewrite Hn.
  - intros n t' Hn' Hn1. rewrite Hs in Hn'.
    destruct (succ s !! n) as [t|] eqn:Et; [|done]. cbn in Hn'. injection Hn' as <-.
    destruct (inv_node _ HI _ _ Et Hn1) as (Hlt&Hvl&Hhp&Hvh&Hll&Hlh&Hne).
    pose proof (Hknode _ _ Et) as Hkt.
    destruct (relabel_lvl _ Hvl) as [El Hkl]. destruct (relabel_lvl _ Hvh) as [Eh Hkh].
    pose proof (lvl_le s HI _ Hvl). pose proof (lvl_le s HI _ Hvh).
    unfold relabel. cbn [t_lvl t_lo t_hi]. rewrite Hn, El, Eh, !relabel_valid.
    split_and!; try done; apply Hmono; try done; lia.
  - done.
  - rewrite Hm. destruct (inv_free _ HI) as [Hf Hbelow]. split.
    + by rewrite Hs, Hf.
    + intros k Hk. rewrite Hs, fmap_is_Some. by apply Hbelow.
  - rewrite Hr, (inv_ref _ HI). apply stdpp.sets.set_eq. intros k.
    by rewrite !elem_of_dom, Hs, fmap_is_Some.
  - intros g u v w Hw. by rewrite Hi, lookup_empty in Hw.
  - done.
  - intros l'. rewrite Hn. split.
    + intros Hl'. destruct (Hsurj l' Hl') as (l&Hl&Hkl&<-).
      apply (inv_lvls _ HI) in Hl as [v Hv']. exists v. apply Hb. apply Hv.
      exists l. split; [by apply (inv_vars _ HI)|done].
    + intros [v Hv']. apply Hb in Hv'. apply Hv in Hv' as (l&Hl&Hkl&->).
      apply Hmono; try done. by apply (name_level s v).
Qed.

Lemma denv_relabel u ρ : valid s u → denv s' u ρ = denv s u ρ.
Proof.
  intros Hu. pose proof Inv_relabel as HI'.
  assert (Hu' : valid s' u) by (by apply relabel_valid).
  unfold denv, D.
  rewrite (den_fuel s' HI' (S (nvars s')) (S (nvars s)) u) by (first [done|unfold need; lia]).
  apply (den_relabel s s' φ); [done|].
  intros n t Ht Hlo.
  assert (Hn1 : n ≠ 1%positive).
  { intros ->. rewrite (inv_term _ HI) in Ht. by injection Ht as <-. }
  destruct (inv_node _ HI _ _ Ht Hn1) as (Hlt&_).
  apply (inv_lvls _ HI) in Hlt as [v Hv']. rewrite Hv'.
  assert (lvl2var s' !! φ (t_lvl t) = Some v) as ->; [|done].
  apply Hb, Hv. exists (t_lvl t). split; [by apply (inv_vars _ HI)|].
  split; [by apply (Hknode _ _ Ht)|done].
Qed.
End relabel.

(** ** Auxiliary facts for [undeclare_vars] *)

(** the three [for] loops that build sets *)
Lemma fold_levels_spec (m : gmap positive triple) l :
  l ∈ map_fold (fun _ t (acc : gset nat) => acc ∪ {[t_lvl t]}) ∅ m ↔
  ∃ n t, m !! n = Some t ∧ t_lvl t = l.
Proof.
  apply (map_fold_ind (fun (r : gset nat) (m : gmap positive triple) =>
           l ∈ r ↔ ∃ n t, m !! n = Some t ∧ t_lvl t = l)).
  - split; [set_solver|]. intros (n&t&H&_). by rewrite lookup_empty in H.
  - intros i x m' r Hi IH. rewrite elem_of_union, IH, elem_of_singleton. split.
    + intros [(n&t&Hn&Ht)| ->].
      * exists n, t. rewrite lookup_insert_ne; [done|congruence].
      * exists i, x. by rewrite lookup_insert.
    + intros (n&t&Hn&Ht). destruct (decide (n = i)) as [->|Hne].
      * rewrite lookup_insert in Hn. right. congruence.
      * rewrite lookup_insert_ne in Hn by done. left. eauto.
Qed.

Lemma fold_others_spec (m : gmap nat nat) (vrs : list nat) l :
  l ∈ map_fold (fun v l (acc : gset nat) =>
                  if decide (v ∈ vrs) then acc else acc ∪ {[l]}) ∅ m ↔
  ∃ v, m !! v = Some l ∧ v ∉ vrs.
Proof.
  apply (map_fold_ind (fun (r : gset nat) (m : gmap nat nat) =>
           l ∈ r ↔ ∃ v, m !! v = Some l ∧ v ∉ vrs)).
  - split; [set_solver|]. intros (v&H&_). by rewrite lookup_empty in H.
  - intros i x m' r Hi IH.
    assert (Hold : (∃ v, m' !! v = Some l ∧ v ∉ vrs) ∨ (x = l ∧ i ∉ vrs) ↔
                   ∃ v, <[i:=x]> m' !! v = Some l ∧ v ∉ vrs).
    { split.
      - intros [(v&Hv&Hn)|[-> Hn]].
        + exists v. rewrite lookup_insert_ne; [done|congruence].
        + exists i. by rewrite lookup_insert.
      - intros (v&Hv&Hn). destruct (decide (v = i)) as [->|Hne].
        + rewrite lookup_insert in Hv. right. split; congruence.
        + rewrite lookup_insert_ne in Hv by done. left. eauto. }
    rewrite <- Hold. case_decide as Hd.
    + rewrite IH. naive_solver.
    + rewrite elem_of_union, IH, elem_of_singleton. naive_solver.
Qed.

Lemma fold_removed_spec (m : gmap nat nat) (full : gset nat) v :
  v ∈ map_fold (fun v l (acc : gset nat) =>
                  if decide (l ∈ full) then acc else acc ∪ {[v]}) ∅ m ↔
  ∃ l, m !! v = Some l ∧ l ∉ full.
Proof.
  apply (map_fold_ind (fun (r : gset nat) (m : gmap nat nat) =>
           v ∈ r ↔ ∃ l, m !! v = Some l ∧ l ∉ full)).
  - split; [set_solver|]. intros (l&H&_). by rewrite lookup_empty in H.
  - intros i x m' r Hi IH.
    assert (Hold : (∃ l, m' !! v = Some l ∧ l ∉ full) ∨ (v = i ∧ x ∉ full) ↔
                   ∃ l, <[i:=x]> m' !! v = Some l ∧ l ∉ full).
    { split.
      - intros [(l&Hl&Hn)|[-> Hn]].
        + exists l. rewrite lookup_insert_ne; [done|congruence].
        + exists x. by rewrite lookup_insert.
      - intros (l&Hl&Hn). destruct (decide (v = i)) as [->|Hne].
        + rewrite lookup_insert in Hl. right. split; congruence.
        + rewrite lookup_insert_ne in Hl by done. left. eauto. }
    rewrite <- Hold. case_decide as Hd.
    + rewrite IH. naive_solver.
    + rewrite elem_of_union, IH, elem_of_singleton. naive_solver.
Qed.

(** the inverse of an injective map, as the code builds it *)
Lemma fold_inverse_spec `{Countable K, Countable A} (m : gmap K A) :
  (∀ k1 k2 a, m !! k1 = Some a → m !! k2 = Some a → k1 = k2) →
  (∀ a k, map_fold (fun k a (acc : gmap A K) => <[a := k]> acc) ∅ m !! a = Some k ↔
          m !! k = Some a) ∧
  size (map_fold (fun k a (acc : gmap A K) => <[a := k]> acc) ∅ m) = size m.
Proof.
  apply (map_fold_ind (fun (r : gmap A K) (m : gmap K A) =>
    (∀ k1 k2 a, m !! k1 = Some a → m !! k2 = Some a → k1 = k2) →
    (∀ a k, r !! a = Some k ↔ m !! k = Some a) ∧ size r = size m)).
  - intros _. split; [|by rewrite !map_size_empty].
    intros a k. by rewrite !lookup_empty.
  - intros i x m' r Hi IH Hinj.
    destruct IH as [IH1 IH2].
    { intros k1 k2 a H1 H2. apply (Hinj k1 k2 a);
        (rewrite lookup_insert_ne; [done|congruence]). }
    assert (Hx : r !! x = None).
    { apply eq_None_not_Some. intros [k Hk]. apply IH1 in Hk.
      assert (k = i); [|congruence].
      apply (Hinj k i x); [|by rewrite lookup_insert].
      rewrite lookup_insert_ne; [done|congruence]. }
    split.
    + intros a k. destruct (decide (a = x)) as [->|Hax].
      * rewrite lookup_insert. split.
        -- intros [= <-]. by rewrite lookup_insert.
        -- intros Hk. f_equal. apply (Hinj i k x); [by rewrite lookup_insert|done].
      * rewrite lookup_insert_ne by done. rewrite IH1.
        destruct (decide (k = i)) as [->|Hki].
        -- rewrite lookup_insert, Hi. split; congruence.
        -- by rewrite lookup_insert_ne.
    + rewrite !map_size_insert_None by done. by rewrite IH2.
Qed.

(** number of kept levels below [l] *)
Definition cnt (P : nat → Prop) `{∀ x, Decision (P x)} (l : nat) : nat :=
  length (filter P (seq 0 l)).

Section cnt.
Context (P : nat → Prop) `{∀ x, Decision (P x)}.

Lemma cnt_S l : cnt P (S l) = cnt P l + (if decide (P l) then 1 else 0).
Proof.
  unfold cnt. rewrite seq_S, filter_app, app_length. f_equal. cbn [Nat.add].
  rewrite filter_cons, filter_nil. by case_decide.
Qed.
Lemma cnt_le l : cnt P l ≤ l.
Proof. induction l as [|l IH]; [done|]. rewrite cnt_S. case_decide; lia. Qed.
Lemma cnt_mono_le a b : a ≤ b → cnt P a ≤ cnt P b.
Proof. induction 1 as [|b _ IH]; [done|]. rewrite cnt_S. lia. Qed.
Lemma cnt_mono a b : P a → a < b → cnt P a < cnt P b.
Proof.
  intros Ha Hab. pose proof (cnt_mono_le (S a) b Hab) as Hle.
  rewrite cnt_S, decide_True in Hle by done. lia.
Qed.
Lemma cnt_surj n l' : l' < cnt P n → ∃ l, l < n ∧ P l ∧ cnt P l = l'.
Proof.
  induction n as [|n IH]; [unfold cnt; cbn; lia|]. rewrite cnt_S. intros Hl'.
  destruct (decide (l' < cnt P n)) as [Hlt|Hge].
  - destruct (IH Hlt) as (l&?&?&?). exists l. split_and!; [lia|done..].
  - case_decide; [|lia]. exists n. split_and!; [lia|done|lia].
Qed.

(** the dict [{old: new for new, old in enumerate(kept)}] *)
Lemma enum_filter_lookup m : ∀ k a l,
  (list_to_map ((fun '(new, old) => (old, new)) <$>
                enumerate_from k (filter P (seq a m))) : gmap nat nat) !! l
  = if decide (a ≤ l < a + m ∧ P l)
    then Some (k + length (filter P (seq a (l - a)))) else None.
Proof.
  induction m as [|m IH]; intros k a l.
  { cbn. rewrite lookup_empty. rewrite decide_False; [done|lia]. }
  cbn [seq]. rewrite filter_cons. destruct (decide (P a)) as [Ha|Ha].
  - cbn [enumerate_from fmap list_fmap list_to_map foldr]. cbn.
    destruct (decide (l = a)) as [->|Hla].
    + rewrite lookup_insert. rewrite decide_True by (split; [lia|done]).
      rewrite Nat.sub_diag. cbn. f_equal. lia.
    + rewrite lookup_insert_ne by done. rewrite IH.
      destruct (decide (S a ≤ l < S a + m ∧ P l)) as [[Hr Hl]|Hn].
      * rewrite decide_True by (split; [lia|done]).
        replace (l - a) with (S (l - S a)) by lia. cbn [seq].
        rewrite filter_cons, decide_True by done. cbn [length]. f_equal. lia.
      * rewrite decide_False; [done|]. intros [Hr Hl]. apply Hn. split; [lia|done].
  - rewrite IH.
    destruct (decide (S a ≤ l < S a + m ∧ P l)) as [[Hr Hl]|Hn].
    * rewrite decide_True by (split; [lia|done]).
      replace (l - a) with (S (l - S a)) by lia. cbn [seq].
      rewrite filter_cons, decide_False by done. done.
    * rewrite decide_False; [done|]. intros [Hr Hl]. apply Hn. split; [|done].
      destruct (decide (l = a)) as [->|]; [done|lia].
Qed.
End cnt.

(** the loop that relabels the nodes *)
Lemma relabel_foldM (nl : gmap nat nat) s (l : list (positive * triple)) : ∀ acc,
  (∀ u t, (u, t) ∈ l → is_Some (nl !! t_lvl t)) → NoDup (l.*1) →
  ∃ acc', foldM (S := st) (A := positive * triple)
           (fun (acc : gmap positive triple) '(u, t) =>
             l <- of_opt EKey (nl !! t_lvl t) ;;
             ret (<[u := Triple l (t_lo t) (t_hi t)]> acc)) acc l s = (Ok acc', s) ∧
    ∀ u, acc' !! u =
         match (list_to_map l : gmap positive triple) !! u with
         | Some t => Some (relabel (fun x => default 0 (nl !! x)) t)
         | None => acc !! u
         end.
Proof.
  induction l as [|[u0 t0] l IH]; intros acc Hnl Hnd.
  { exists acc. split; [done|]. intros u. cbn. by rewrite lookup_empty. }
  cbn [fmap list_fmap fst] in Hnd. apply NoDup_cons in Hnd as [Hu0 Hnd].
  destruct (Hnl u0 t0) as [x Hx]; [by left|].
  destruct (IH (<[u0 := Triple x (t_lo t0) (t_hi t0)]> acc)) as (acc'&Hrun&Hacc'); [|done|].
  { intros u t Hin. apply (Hnl u t). by right. }
  exists acc'. split.
  - cbn [foldM]. rewrite Hx. cbn [of_opt bind ret]. exact Hrun.
  - intros u. rewrite Hacc'. cbn [list_to_map foldr]. cbn.
    destruct (decide (u = u0)) as [->|Hne].
    + rewrite (not_elem_of_list_to_map_1 _ _ Hu0), !lookup_insert.
      unfold relabel. by rewrite Hx.
    + by rewrite !lookup_insert_ne.
Qed.

(** ** [undeclare_vars] *)

(** the model's function with its local definitions named *)
Definition u_full0 (s : st) : gset nat :=
  map_fold (fun _ t acc => acc ∪ {[t_lvl t]}) ∅ (succ s).
Definition u_full (s : st) (vrs : list nat) : gset nat :=
  match vrs with
  | [] => u_full0 s
  | _ => u_full0 s ∪ map_fold (fun v l acc =>
                     if decide (v ∈ vrs) then acc else acc ∪ {[l]}) ∅ (vars s)
  end.
Definition u_nl (s : st) (vrs : list nat) : gmap nat nat :=
  list_to_map ((fun '(new, old) => (old, new)) <$>
    enumerate_from 0 (filter (fun i => i ∈ u_full s vrs) (seq 0 (1 + nvars s)))).
Definition u_rm (s : st) (vrs : list nat) : gset nat :=
  map_fold (fun v l acc => if decide (l ∈ u_full s vrs) then acc else acc ∪ {[v]}) ∅ (vars s).
Definition u_vars (s : st) (vrs : list nat) : gmap nat nat :=
  omap (fun l => if decide (l ∈ u_full s vrs) then u_nl s vrs !! l else None) (vars s).
Definition u_tail (s : st) (vrs : list nat) : MS (gset nat) :=
  succ' <- foldM (fun (acc : gmap positive triple) '(u, t) =>
             l <- of_opt EKey (u_nl s vrs !! t_lvl t) ;;
             ret (<[u := Triple l (t_lo t) (t_hi t)]> acc)) ∅ (map_to_list (succ s)) ;;
  modify (fun s0 =>
    s0 <| vars := u_vars s vrs |>
       <| lvl2var := map_fold (fun v l acc => <[l := v]> acc) ∅ (u_vars s vrs) |>
       <| succ := succ' |>
       <| pred := map_fold (fun u t acc => <[t := u]> acc) ∅ succ' |>
       <| ite_tab := ∅ |>) ;;;
  ret (u_rm s vrs).

Lemma undeclare_unfold vrs s : undeclare_vars vrs s =
  (forM vrs (fun v => ensure EValue (bool_decide (is_Some (vars s !! v)))) ;;;
   forM vrs (fun v => l <- level_of_var v ;; ensure EValue (bool_decide (l ∉ u_full0 s))) ;;;
   u_tail s vrs) s.
Proof. reflexivity. Qed.

Lemma forM_check {A} (body : A → MS unit) (c : A → bool) e (l : list A) s :
  (∀ a, body a s = (if c a then Ok tt else Err e, s)) →
  forM l body s = (if forallb c l then Ok tt else Err e, s).
Proof.
  intros Hb. induction l as [|a l IH]; cbn [forM forallb]; [done|].
  unfold bind. rewrite Hb. by destruct (c a).
Qed.

Lemma forallb_false_ex {A} (c : A → bool) l :
  forallb c l = false → ∃ a, a ∈ l ∧ c a = false.
Proof.
  induction l as [|a l IH]; cbn [forallb]; [done|].
  destruct (c a) eqn:E; cbn.
  - intros H. destruct (IH H) as (b&?&?). exists b. split; [by right|done].
  - intros _. exists a. split; [by left|done].
Qed.
Lemma forallb_true_all {A} (c : A → bool) l :
  forallb c l = true → ∀ a, a ∈ l → c a = true.
Proof.
  induction l as [|a l IH]; cbn [forallb]; intros H b Hb; [by apply elem_of_nil in Hb|].
  apply andb_true_iff in H as [H1 H2].
  apply elem_of_cons in Hb as [->|Hb]; [done|by apply IH].
Qed.

(** a level that carries a node *)
Definition used (s : st) (l : nat) : Prop := ∃ n t, succ s !! n = Some t ∧ t_lvl t = l.
Lemma u_full0_spec s l : l ∈ u_full0 s ↔ used s l.
Proof. apply fold_levels_spec. Qed.
Lemma u_full_spec s vrs l :
  l ∈ u_full s vrs ↔ used s l ∨ (vrs ≠ [] ∧ ∃ v, vars s !! v = Some l ∧ v ∉ vrs).
Proof.
  unfold u_full. destruct vrs as [|v0 vrs'].
  - rewrite u_full0_spec. naive_solver.
  - rewrite elem_of_union, u_full0_spec, fold_others_spec. naive_solver.
Qed.

(** indeg is blind to levels *)
Lemma indeg_relabel φ (m : gmap positive triple) n :
  indeg (relabel φ <$> m) n = indeg m n.
Proof.
  induction m as [|i x m Hi IH] using map_ind.
  - by rewrite fmap_empty.
  - rewrite fmap_insert, !indeg_insert_fresh by (by rewrite ?lookup_fmap, ?Hi).
    by rewrite IH.
Qed.

Section undeclare.
Context (s : st) (vrs : list nat) (HI : Inv s).
Let n := nvars s.
Let P := fun i => i ∈ u_full s vrs.
Let φ := fun x => default 0 (u_nl s vrs !! x).

Lemma u_nl_lookup l :
  u_nl s vrs !! l = if decide (l ≤ n ∧ l ∈ u_full s vrs) then Some (cnt P l) else None.
Proof.
  unfold u_nl. rewrite (enum_filter_lookup P (1 + nvars s) 0 0 l).
  rewrite Nat.sub_0_r. cbn [Nat.add]. fold n. unfold cnt.
  destruct (decide (l ≤ n ∧ l ∈ u_full s vrs)) as [[? ?]|Hn].
  - rewrite decide_True; [done|]. split; [lia|done].
  - rewrite decide_False; [done|]. intros [? ?]. apply Hn. split; [lia|done].
Qed.

Lemma phi_cnt l : l ≤ n → l ∈ u_full s vrs → φ l = cnt P l.
Proof. intros ? ?. unfold φ. rewrite u_nl_lookup, decide_True; done. Qed.

Lemma full_node k t : succ s !! k = Some t → t_lvl t ∈ u_full s vrs ∧ t_lvl t ≤ n.
Proof.
  intros Hk. split.
  - apply u_full_spec. left. by exists k, t.
  - destruct (decide (k = 1%positive)) as [->|Hk1].
    + rewrite (inv_term _ HI) in Hk. injection Hk as <-. done.
    + destruct (inv_node _ HI _ _ Hk Hk1) as (?&_). unfold n. lia.
Qed.
Lemma full_n : n ∈ u_full s vrs.
Proof. by destruct (full_node _ _ (inv_term _ HI)). Qed.

Lemma phi_mono a b : a ∈ u_full s vrs → b ∈ u_full s vrs → b ≤ nvars s → a < b → φ a < φ b.
Proof.
  intros Ha Hb Hbn Hab. fold n in Hbn. rewrite !phi_cnt by first [done|lia].
  by apply cnt_mono.
Qed.

Lemma u_vars_lookup v l' :
  u_vars s vrs !! v = Some l' ↔
  ∃ l, vars s !! v = Some l ∧ l ∈ u_full s vrs ∧ l' = φ l.
Proof.
  unfold u_vars. rewrite lookup_omap. destruct (vars s !! v) as [l|] eqn:Ev; cbn.
  - pose proof (name_level s v l HI Ev) as Hl. fold n in Hl.
    destruct (decide (l ∈ u_full s vrs)) as [Hf|Hf].
    + rewrite u_nl_lookup, decide_True by (split; [lia|done]). split.
      * intros [= <-]. exists l. split_and!; try done. rewrite phi_cnt; [done|lia|done].
      * intros (l0&[= <-]&_&->). rewrite phi_cnt; [done|lia|done].
    + split; [done|]. intros (l0&[= <-]&?&_). done.
  - split; [done|]. by intros (l0&?&_).
Qed.

Lemma u_vars_inj v1 v2 a :
  u_vars s vrs !! v1 = Some a → u_vars s vrs !! v2 = Some a → v1 = v2.
Proof.
  intros H1 H2. apply u_vars_lookup in H1 as (l1&Hv1&Hf1&->), H2 as (l2&Hv2&Hf2&E).
  pose proof (name_level s _ _ HI Hv1). pose proof (name_level s _ _ HI Hv2).
  assert (l1 = l2) as ->.
  { destruct (lt_eq_lt_dec l1 l2) as [[Hlt|]|Hlt]; [|done|].
    - pose proof (phi_mono l1 l2 Hf1 Hf2 ltac:(lia) Hlt). lia.
    - pose proof (phi_mono l2 l1 Hf2 Hf1 ltac:(lia) Hlt). lia. }
  by apply (vars_inj s v1 v2 l2).
Qed.

Lemma u_tail_run : ∃ s',
  u_tail s vrs s = (Ok (u_rm s vrs), s') ∧
  (∀ k, succ s' !! k = relabel φ <$> succ s !! k) ∧
  pred s' = map_fold (fun u t acc => <[t := u]> acc) ∅ (succ s') ∧
  vars s' = u_vars s vrs ∧
  lvl2var s' = map_fold (fun v l acc => <[l := v]> acc) ∅ (u_vars s vrs) ∧
  refc s' = refc s ∧ min_free s' = min_free s ∧ ite_tab s' = ∅ ∧ frame s s'.
Proof.
  unfold u_tail.
  destruct (relabel_foldM (u_nl s vrs) s (map_to_list (succ s)) ∅) as (succ'&Hrun&Hlk).
  { intros u t Hin. apply elem_of_map_to_list in Hin.
    destruct (full_node _ _ Hin). rewrite u_nl_lookup, decide_True by done. by eexists. }
  { apply NoDup_fst_map_to_list. }
  rewrite (bind_ok _ _ _ _ _ Hrun). cbn [bind modify ret]. eexists. split; [reflexivity|].
  cbn. split_and!; try done.
  intros k. rewrite Hlk, list_to_map_to_list, lookup_empty.
  by destruct (succ s !! k).
Qed.

(** a variable that may be removed: declared, and no node at its level *)
Definition removable (v : nat) : Prop := ∃ l, vars s !! v = Some l ∧ ¬ used s l.

Lemma u_rm_spec v :
  Forall removable vrs →
  v ∈ u_rm s vrs ↔ removable v ∧ (vrs = [] ∨ v ∈ vrs).
Proof.
  intros Hall. unfold u_rm. rewrite fold_removed_spec. split.
  - intros (l&Hv&Hf). rewrite u_full_spec in Hf. split.
    + exists l. split; [done|]. intros Hu. apply Hf. by left.
    + destruct vrs as [|v0 vrs'] eqn:E; [by left|right]. rewrite <- E in *.
      destruct (decide (v ∈ vrs)) as [|Hn]; [done|]. exfalso. apply Hf. right.
      split; [by rewrite E|]. by exists v.
  - intros [(l&Hv&Hu) Hin]. exists l. split; [done|]. rewrite u_full_spec.
    intros [?|(Hne&w&Hw&Hwn)]; [done|].
    destruct Hin as [->|Hin]; [done|].
    assert (w = v) as -> by (by apply (vars_inj s w v l)). done.
Qed.

Theorem undeclare_run r s' :
  undeclare_vars vrs s = (r, s') →
  (¬ Forall removable vrs ∧ r = Err EValue ∧ s' = s) ∨
  (Forall removable vrs ∧ r = Ok (u_rm s vrs) ∧
   Inv s' ∧ frame s s' ∧ refc s' = refc s ∧ ite_tab s' = ∅ ∧
   (∀ k, succ s' !! k = relabel φ <$> succ s !! k) ∧
   (∀ v l', vars s' !! v = Some l' ↔
            ∃ l, vars s !! v = Some l ∧ l ∈ u_full s vrs ∧ l' = φ l) ∧
   (∀ L, Counts s L → Counts s' L) ∧
   ∀ u, valid s u → valid s' u ∧ ∀ ρ, denv s' u ρ = denv s u ρ).
Proof.
  rewrite undeclare_unfold.
  (* first loop: every name is declared *)
  pose proof (forM_check
    (fun v => ensure (S:=st) EValue (bool_decide (is_Some (vars s !! v))))
    (fun v => bool_decide (is_Some (vars s !! v))) EValue vrs s) as E1.
  unfold bind at 1.
  rewrite E1 by (intros a; unfold ensure; by destruct (bool_decide _)). clear E1.
  destruct (forallb _ vrs) eqn:F1; cycle 1.
  { intros [= <- <-]. left. split; [|done]. intros Hall.
    apply forallb_false_ex in F1 as (v&Hv&Hc). apply bool_decide_eq_false in Hc.
    rewrite Forall_forall in Hall. destruct (Hall v Hv) as (l&Hl&_). apply Hc. by eexists. }
  pose proof (forallb_true_all _ _ F1) as Hdecl. clear F1.
  (* second loop: no node at the level of any of them *)
  pose proof (forM_check
    (fun v => l <- level_of_var v ;; ensure (S:=st) EValue (bool_decide (l ∉ u_full0 s)))
    (fun v => match vars s !! v with
              | Some l => bool_decide (l ∉ u_full0 s) | None => false end)
    EValue vrs s) as E2.
  unfold bind at 1. rewrite E2; cycle 1.
  { intros x. unfold level_of_var. rewrite bind_assoc. cbn [bind get].
    destruct (vars s !! x) as [l|]; cbn [of_opt bind ret raise]; [|done].
    unfold ensure. by destruct (bool_decide _). }
  clear E2.
  destruct (forallb _ vrs) eqn:F2; cycle 1.
  { intros [= <- <-]. left. split; [|done]. intros Hall.
    apply forallb_false_ex in F2 as (v&Hv&Hc).
    rewrite Forall_forall in Hall. destruct (Hall v Hv) as (l&Hl&Hu).
    rewrite Hl in Hc. apply bool_decide_eq_false in Hc. apply Hc.
    by rewrite u_full0_spec. }
  pose proof (forallb_true_all _ _ F2) as Hunused. clear F2.
  assert (Hall : Forall removable vrs).
  { apply Forall_forall. intros v Hv. specialize (Hunused v Hv). cbv beta in Hunused.
    destruct (vars s !! v) as [l|] eqn:El; [|done].
    apply bool_decide_eq_true in Hunused. exists l. split; [done|].
    by rewrite <- u_full0_spec. }
  (* the relabelling *)
  destruct u_tail_run as (s1&Hrun&Hs&Hp&Hv&Hl&Hr&Hm&Hi&Hf).
  rewrite Hrun. intros [= <- <-]. right.
  assert (Hsinj : ∀ k1 k2 a, succ s1 !! k1 = Some a → succ s1 !! k2 = Some a → k1 = k2).
  { intros k1 k2 a. rewrite !Hs. intros H1 H2.
    destruct (succ s !! k1) as [t1|] eqn:E1; [|done].
    destruct (succ s !! k2) as [t2|] eqn:E2; [|done].
    cbn in H1, H2. injection H1 as <-. injection H2 as Hφ Hlo Hhi.
    destruct (full_node _ _ E1) as [Hf1 Hn1], (full_node _ _ E2) as [Hf2 Hn2].
    assert (t_lvl t1 = t_lvl t2) as Hlv.
    { destruct (lt_eq_lt_dec (t_lvl t1) (t_lvl t2)) as [[Hlt|]|Hlt]; [|done|].
      - pose proof (phi_mono _ _ Hf1 Hf2 Hn2 Hlt). lia.
      - pose proof (phi_mono _ _ Hf2 Hf1 Hn1 Hlt). lia. }
    assert (t1 = t2) as -> by (destruct t1, t2; cbn in *; congruence).
    apply (inv_pred _ HI) in E1, E2. congruence. }
  destruct (fold_inverse_spec (succ s1) Hsinj) as [Hpinv _]. rewrite <- Hp in Hpinv.
  destruct (fold_inverse_spec (u_vars s vrs) u_vars_inj) as [Hlinv Hlsz].
  rewrite <- Hl in Hlinv, Hlsz.
  assert (Hvl : ∀ v l', vars s1 !! v = Some l' ↔
                        ∃ l, vars s !! v = Some l ∧ l ∈ u_full s vrs ∧ l' = φ l).
  { intros v l'. rewrite Hv. apply u_vars_lookup. }
  assert (Hφn : φ n = cnt P n) by (apply phi_cnt; [done|apply full_n]).
  assert (Hnv : nvars s1 = φ (nvars s)).
  { fold n. unfold nvars. rewrite Hv, <- Hlsz, <- size_dom.
    assert (dom (lvl2var s1) = set_seq 0 (φ n)) as ->; [|by rewrite size_set_seq].
    apply stdpp.sets.set_eq. intros l'. rewrite elem_of_set_seq, elem_of_dom. split.
    - intros [v Hx]. apply Hlinv in Hx. apply u_vars_lookup in Hx as (l&Hx&Hfl&->).
      split; [lia|]. cbn. apply phi_mono; [done|apply full_n|done|].
      by apply (name_level s v).
    - intros [_ Hlt]. cbn in Hlt. rewrite Hφn in Hlt.
      destruct (cnt_surj P n l' Hlt) as (l&Hln&HPl&Hc).
      apply (inv_lvls _ HI) in Hln as [v Hx]. exists v. apply Hlinv, u_vars_lookup.
      exists l. split; [by apply (inv_vars _ HI)|]. split; [done|].
      rewrite phi_cnt; [done| |done]. apply (inv_vars _ HI) in Hx.
      pose proof (name_level s v l HI Hx). fold n in H. lia. }
  assert (Hknode : ∀ (k : positive) (t : triple), succ s !! k = Some t →
            t_lvl t ∈ u_full s vrs).
  { intros k t Hk. by destruct (full_node _ _ Hk). }
  assert (Hle : φ (nvars s) ≤ nvars s).
  { fold n. rewrite Hφn. apply cnt_le. }
  assert (Hsurj : ∀ l', l' < φ (nvars s) →
            ∃ l, l < nvars s ∧ l ∈ u_full s vrs ∧ φ l = l').
  { fold n. intros l' Hl'. rewrite Hφn in Hl'.
    destruct (cnt_surj P n l' Hl') as (l&Hln&HPl&Hc). exists l.
    split_and!; try done. rewrite phi_cnt; [done|lia|done]. }
  assert (Hp' : ∀ (k : positive) (t : triple),
            succ s1 !! k = Some t ↔ pred s1 !! t = Some k).
  { intros k t. symmetry. apply Hpinv. }
  assert (Hb' : ∀ v l : nat, vars s1 !! v = Some l ↔ lvl2var s1 !! l = Some v).
  { intros v l. rewrite Hv. symmetry. apply Hlinv. }
  pose proof (Inv_relabel s s1 φ (fun l => l ∈ u_full s vrs) HI phi_mono full_n
                Hknode Hsurj Hs Hp' Hr Hm Hi Hvl Hb' Hnv) as HI1.
  split; [done|]. split; [done|]. split; [done|]. split; [done|]. split; [done|].
  split; [done|]. split; [done|]. split; [done|]. split.
  - intros L [H1 H2].
    assert (Hdom : dom (succ s1) = dom (succ s)).
    { apply stdpp.sets.set_eq. intros k. by rewrite !elem_of_dom, Hs, fmap_is_Some. }
    assert (Hsucc : succ s1 = relabel φ <$> succ s).
    { apply map_eq. intros k. by rewrite Hs, lookup_fmap. }
    split.
    + intros k Hk. rewrite Hdom in Hk. rewrite Hr, (H1 k Hk), Hsucc, indeg_relabel. done.
    + intros k Hk. rewrite Hdom in Hk. by apply H2.
  - intros u Hu. split.
    + unfold valid. rewrite Hs, fmap_is_Some. apply Hu.
    + intros ρ.
      by apply (denv_relabel s s1 φ (fun l => l ∈ u_full s vrs) HI phi_mono full_n
                  Hknode Hle Hsurj Hs Hp' Hr Hm Hi Hvl Hb' Hnv).
Qed.
End undeclare.

(** the specification of [undeclare_vars], free of the auxiliary names *)
Theorem undeclare_spec s vrs r s' :
  Inv s → undeclare_vars vrs s = (r, s') →
  (¬ Forall (removable s) vrs ∧ r = Err EValue ∧ s' = s) ∨
  (Forall (removable s) vrs ∧ ∃ rm : gset nat, r = Ok rm ∧
     (∀ v, v ∈ rm ↔ removable s v ∧ (vrs = [] ∨ v ∈ vrs)) ∧
     Inv s' ∧ frame s s' ∧ refc s' = refc s ∧ ite_tab s' = ∅ ∧
     dom (succ s') = dom (succ s) ∧
     (∀ k t, succ s !! k = Some t →
             ∃ l, succ s' !! k = Some (Triple l (t_lo t) (t_hi t))) ∧
     (∀ v, is_Some (vars s' !! v) ↔ is_Some (vars s !! v) ∧ v ∉ rm) ∧
     (∀ v w l1 l2 l1' l2', vars s !! v = Some l1 → vars s !! w = Some l2 →
        vars s' !! v = Some l1' → vars s' !! w = Some l2' → (l1 < l2 ↔ l1' < l2')) ∧
     (∀ L, Counts s L → Counts s' L) ∧
     ∀ u, valid s u → valid s' u ∧ ∀ ρ, denv s' u ρ = denv s u ρ).
Proof.
  intros HI H.
  destruct (undeclare_run s vrs HI r s' H)
    as [?|(Hall&->&HI'&Hf&Hr&Hi&Hs&Hv&HC&Hd)]; [by left|right].
  split; [done|]. exists (u_rm s vrs). split; [done|].
  split; [intros v; by apply u_rm_spec|].
  split; [done|]. split; [done|]. split; [done|]. split; [done|].
  set (φ := fun x => default 0 (u_nl s vrs !! x)) in *.
  split; [|split; [|split; [|split; [|split; [done|done]]]]].
  - apply stdpp.sets.set_eq. intros k. by rewrite !elem_of_dom, Hs, fmap_is_Some.
  - intros k t Hk. exists (φ (t_lvl t)). by rewrite Hs, Hk.
  - intros v. unfold u_rm. rewrite fold_removed_spec. split.
    + intros [l' Hl']. apply Hv in Hl' as (l&Hl&Hfl&_). split; [by eexists|].
      intros (l0&Hl0&Hn). congruence.
    + intros [[l Hl] Hn]. destruct (decide (l ∈ u_full s vrs)) as [Hfl|Hfl].
      * exists (φ l). apply Hv. by exists l.
      * exfalso. apply Hn. by exists l.
  - intros v w l1 l2 l1' l2' Hv1 Hv2 Hv1' Hv2'.
    apply Hv in Hv1' as (l1_&E1&Hf1&->), Hv2' as (l2_&E2&Hf2&->).
    assert (l1_ = l1) as -> by congruence. assert (l2_ = l2) as -> by congruence.
    pose proof (name_level s _ _ HI Hv1). pose proof (name_level s _ _ HI Hv2).
    split.
    + intros Hlt. apply (phi_mono s vrs); try done. lia.
    + intros Hlt. destruct (lt_eq_lt_dec l1 l2) as [[?| ->]|Hgt]; [done|lia|].
      pose proof (phi_mono s vrs l2 l1 Hf2 Hf1 ltac:(lia) Hgt) as Hc. cbv zeta in Hc. lia.
Qed.

(** no name given: every unused variable goes *)
Corollary undeclare_all_unused s r s' :
  Inv s → undeclare_vars [] s = (r, s') →
  ∃ rm : gset nat, r = Ok rm ∧ (∀ v, v ∈ rm ↔ removable s v) ∧ Inv s' ∧
    ∀ u, valid s u → valid s' u ∧ ∀ ρ, denv s' u ρ = denv s u ρ.
Proof.
  intros HI H. destruct (undeclare_spec s [] r s' HI H) as [(Hn&_)|(_&rm&->&Hrm&HI'&Hrest)].
  { exfalso. apply Hn. constructor. }
  exists rm. split; [done|]. split; [|split; [done|apply Hrest]].
  intros v. rewrite Hrm. naive_solver.
Qed.
