(** * LevelKeys: the key prelude of the public [cofactor] / [quantify].

    Both methods first turn their keys into variable NAMES ([_map_to_level],
    then [var_at_level]) and then call the decorated workers
    [cofactor_names] / [quantify_names].  For keys given as levels:
    - the prelude only reads the variable tables; it fails (with [ValueError],
      state unchanged) exactly when some key is not a level;
    - otherwise the public method IS the worker on the variables that sit at
      those levels in the state of the call ([names_at], [namevals_at]);
    - mapping these names back ([_map_to_level] on names, in any state with the
      same variable order) gives the level set / level dict again. *)
From DD Require Export Decor.

Definition declared_lvl (s : st) (l : nat) : Prop := is_Some (lvl2var s !! l).
Global Instance declared_lvl_dec s l : Decision (declared_lvl s l).
Proof. unfold declared_lvl. apply _. Defined.
(** (opaque for instance resolution: a goal [Decision (is_Some _)] must not be
    unified with [declared_lvl ?s ?l]) *)
Global Typeclasses Opaque declared_lvl.

(** the variable at a level (junk 0 for a level that is not declared) *)
Definition name_at (s : st) (l : nat) : nat := default 0 (lvl2var s !! l).
Definition names_at (s : st) (q : gset nat) : list nat := name_at s <$> elements q.
Definition namevals_at {A} (s : st) (lv : gmap nat A) : list (nat * A) :=
  (fun p => (name_at s p.1, p.2)) <$> map_to_list lv.

Lemma lk_var_at_level_ok s l v : lvl2var s !! l = Some v → var_at_level l s = (Ok v, s).
Proof. intros H. unfold var_at_level. cbn [bind get]. by rewrite H. Qed.
Lemma lk_map_key_name s first k l :
  vars s !! k = Some l → map_key true first k s = (Ok l, s).
Proof. intros H. unfold map_key. cbn [bind get]. by rewrite H. Qed.
Lemma lk_map_key_level s first k :
  declared_lvl s k → map_key false first k s = (Ok k, s).
Proof. intros [x H]. unfold map_key. cbn [bind get]. by rewrite H. Qed.
Lemma lk_map_key_level_err s first k :
  ¬ declared_lvl s k → map_key false first k s = (Err EValue, s).
Proof.
  intros H. unfold map_key. cbn [bind get].
  destruct (lvl2var s !! k) eqn:E; [|done]. destruct H. by eexists.
Qed.

(** ** [_map_to_level] on keys given as levels: a total description *)
Lemma lk_forM_levels {A} s (ks : list A) (key : A → nat) :
  forM ks (fun k => map_key false true (key k) ;;; ret tt) s
  = (if decide (Forall (fun k => declared_lvl s (key k)) ks) then Ok tt else Err EValue, s).
Proof.
  induction ks as [|k ks IH]; [done|]. cbn [forM].
  destruct (decide (declared_lvl s (key k))) as [Hk|Hk].
  - rewrite (bind_ok _ _ s tt s)
      by (by rewrite (bind_ok _ _ _ _ _ (lk_map_key_level s true _ Hk))).
    rewrite IH. destruct (decide (Forall _ ks)) as [H|H].
    + by rewrite decide_True by (by constructor).
    + rewrite decide_False; [done|]. intros H'. by apply Forall_cons in H' as [_ ?].
  - rewrite (bind_err _ _ s EValue s)
      by (by rewrite (bind_err _ _ _ _ _ (lk_map_key_level_err s true _ Hk))).
    rewrite decide_False; [done|]. intros H'. by apply Forall_cons in H' as [? _].
Qed.

Lemma map_to_level_set_false s ks :
  map_to_level_set false ks s
  = (if decide (Forall (declared_lvl s) ks) then Ok (list_to_set ks) else Err EValue, s).
Proof.
  destruct ks as [|k rest]; [done|]. unfold map_to_level_set.
  pose proof (lk_forM_levels s (k :: rest) id) as HF. cbn [id] in HF.
  destruct (decide (Forall (declared_lvl s) (k :: rest))) as [Hall|Hall].
  - rewrite (bind_ok _ _ _ _ _ HF). apply Forall_cons in Hall as [Hk Hr].
    rewrite (bind_ok _ _ _ _ _ (lk_map_key_level s true k Hk)).
    assert (Hm : mapM (map_key false false) rest s = (Ok rest, s)).
    { clear HF. induction Hr as [|k' ks' Hk' _ IH]; [done|]. cbn [mapM].
      rewrite (bind_ok _ _ _ _ _ (lk_map_key_level s false k' Hk')).
      by rewrite (bind_ok _ _ _ _ _ IH). }
    by rewrite (bind_ok _ _ _ _ _ Hm).
  - by rewrite (bind_err _ _ _ _ _ HF).
Qed.

Lemma lk_forM_ext {A} (f g : A → MS unit) (l : list A) :
  (∀ a s, f a s = g a s) → ∀ s, forM l f s = forM l g s.
Proof.
  intros H. induction l as [|a l IH]; intros s; [done|].
  cbn [forM]. unfold bind. rewrite H. destruct (g a s) as [[[]|e] s1]; [apply IH|done].
Qed.
Lemma lk_forM_pair_eq {A} (l : list (nat * A)) : ∀ s,
  forM l (fun '(k, _) => map_key false true k ;;; ret tt) s
  = forM l (fun k => map_key false true k.1 ;;; ret tt) s.
Proof. apply lk_forM_ext. by intros [k a] s. Qed.

Lemma map_to_level_dict_false {A} s (kv : list (nat * A)) :
  map_to_level_dict false kv s
  = (if decide (Forall (fun p => declared_lvl s p.1) kv)
     then Ok (list_to_map (reverse kv)) else Err EValue, s).
Proof.
  destruct kv as [|[k a] rest]; [done|]. unfold map_to_level_dict.
  pose proof (lk_forM_levels s ((k, a) :: rest) fst) as HF.
  rewrite <- (lk_forM_pair_eq ((k, a) :: rest) s) in HF.
  destruct (decide (Forall (fun p => declared_lvl s p.1) ((k, a) :: rest))) as [Hall|Hall].
  - rewrite (bind_ok _ _ _ _ _ HF). apply Forall_cons in Hall as [Hk Hr]. cbn [fst] in Hk.
    rewrite (bind_ok _ _ _ _ _ (lk_map_key_level s true k Hk)).
    assert (Hm : mapM (fun '(k, a) => l <- map_key false false k ;; ret (l, a)) rest s
                 = (Ok rest, s)).
    { clear HF. induction Hr as [|[k' a'] ks' Hk' _ IH]; [done|]. cbn [mapM]. cbn [fst] in Hk'.
      rewrite (bind_ok _ _ s (k', a') s)
        by (by rewrite (bind_ok _ _ _ _ _ (lk_map_key_level s false k' Hk'))).
      by rewrite (bind_ok _ _ _ _ _ IH). }
    by rewrite (bind_ok _ _ _ _ _ Hm).
  - by rewrite (bind_err _ _ _ _ _ HF).
Qed.

(** every level of the resulting set / dict is declared *)
Lemma level_set_declared s ks :
  Forall (declared_lvl s) ks → set_Forall (declared_lvl s) (list_to_set ks : gset nat).
Proof.
  intros H l Hl. apply elem_of_list_to_set in Hl. exact (proj1 (Forall_forall _ _) H l Hl).
Qed.
Lemma level_dict_declared {A} s (kv : list (nat * A)) :
  Forall (fun p => declared_lvl s p.1) kv →
  ∀ l, l ∈ dom (list_to_map (reverse kv) : gmap nat A) → declared_lvl s l.
Proof.
  intros H l Hl. apply elem_of_dom in Hl as [a Hl].
  apply elem_of_list_to_map_2 in Hl. rewrite elem_of_reverse in Hl.
  exact (proj1 (Forall_forall _ _) H (l, a) Hl).
Qed.

(** ** reading the names off *)
Lemma lk_mapM_names s (ls : list nat) :
  Forall (declared_lvl s) ls → mapM var_at_level ls s = (Ok (name_at s <$> ls), s).
Proof.
  induction 1 as [|l ls [v Hl] _ IH]; [done|]. cbn [mapM].
  rewrite (bind_ok _ _ _ _ _ (lk_var_at_level_ok s l v Hl)).
  rewrite (bind_ok _ _ _ _ _ IH). cbn [fmap list_fmap]. unfold name_at at 2. by rewrite Hl.
Qed.
Lemma lk_mapM_namevals {A} s (lv : list (nat * A)) :
  Forall (fun p => declared_lvl s p.1) lv →
  mapM (fun '(l, a) => v <- var_at_level l ;; ret (v, a)) lv s
  = (Ok ((fun p => (name_at s p.1, p.2)) <$> lv), s).
Proof.
  induction 1 as [|[l a] ls [v Hl] _ IH]; [done|]. cbn [mapM]. cbn [fst] in Hl.
  rewrite (bind_ok _ _ s (v, a) s)
    by (by rewrite (bind_ok _ _ _ _ _ (lk_var_at_level_ok s l v Hl))).
  rewrite (bind_ok _ _ _ _ _ IH). cbn [fmap list_fmap fst snd]. unfold name_at at 2.
  by rewrite Hl.
Qed.

(** ** the public methods with keys given as levels: prelude, then worker *)
Theorem quantify_levels_unfold s u ks fa :
  quantify u false ks fa s =
  if decide (Forall (declared_lvl s) ks)
  then quantify_names u (names_at s (list_to_set ks)) fa s
  else (Err EValue, s).
Proof.
  unfold quantify. pose proof (map_to_level_set_false s ks) as Hm.
  destruct (decide (Forall (declared_lvl s) ks)) as [Hall|Hall].
  - rewrite (bind_ok _ _ _ _ _ Hm).
    assert (Hd : Forall (declared_lvl s) (elements (list_to_set ks : gset nat))).
    { apply Forall_forall. intros l Hl. apply elem_of_elements in Hl.
      by apply (level_set_declared s ks Hall). }
    by rewrite (bind_ok _ _ _ _ _ (lk_mapM_names s _ Hd)).
  - by rewrite (bind_err _ _ _ _ _ Hm).
Qed.

Theorem cofactor_levels_unfold s u values :
  cofactor u false values s =
  if decide (Forall (fun p => declared_lvl s p.1) values)
  then cofactor_names u (namevals_at s (list_to_map (reverse values) : gmap nat bool)) s
  else (Err EValue, s).
Proof.
  unfold cofactor. pose proof (map_to_level_dict_false s values) as Hm.
  destruct (decide (Forall (fun p => declared_lvl s p.1) values)) as [Hall|Hall].
  - rewrite (bind_ok _ _ _ _ _ Hm).
    set (lv := list_to_map (reverse values) : gmap nat bool).
    assert (Hd : Forall (fun p => declared_lvl s p.1) (map_to_list lv)).
    { apply Forall_forall. intros [l a] Hl. apply elem_of_map_to_list in Hl. cbn [fst].
      apply (level_dict_declared s values Hall). apply elem_of_dom. by eexists. }
    by rewrite (bind_ok _ _ _ _ _ (lk_mapM_namevals s _ Hd)).
  - by rewrite (bind_err _ _ _ _ _ Hm).
Qed.

(** ** the names are declared, distinct, and map back to the levels *)
Lemma name_at_level s l : Inv s → declared_lvl s l → vars s !! name_at s l = Some l.
Proof.
  intros HI [v Hl]. unfold name_at. rewrite Hl. cbn [default]. by apply (inv_vars _ HI).
Qed.

Lemma names_at_levels s q : Inv s → set_Forall (declared_lvl s) q →
  Forall2 (fun k l => vars s !! k = Some l) (names_at s q) (elements q).
Proof.
  intros HI Hq. unfold names_at. apply Forall2_fmap_l, Forall_Forall2_diag, Forall_forall.
  intros l Hl. apply name_at_level; [done|]. apply Hq. by apply elem_of_elements.
Qed.
Lemma names_at_declared s q : Inv s → set_Forall (declared_lvl s) q →
  Forall (fun k => is_Some (vars s !! k)) (names_at s q).
Proof.
  intros HI Hq. unfold names_at. apply Forall_fmap, Forall_forall. intros l Hl. cbn.
  exists l. apply name_at_level; [done|]. apply Hq. by apply elem_of_elements.
Qed.
Lemma names_at_levels_at s q : set_Forall (declared_lvl s) q →
  Forall2 (fun l v => lvl2var s !! l = Some v) (elements q) (names_at s q).
Proof.
  intros Hq. unfold names_at. apply Forall2_fmap_r, Forall_Forall2_diag, Forall_forall.
  intros l Hl. apply elem_of_elements in Hl. destruct (Hq l Hl) as [v Hv].
  unfold name_at, Basics.compose. by rewrite Hv.
Qed.

(** [_map_to_level] on names, in any state [s'] with the variable order of [s] *)
Lemma lk_map_to_level_set_names s ks ls :
  Forall2 (fun k l => vars s !! k = Some l) ks ls →
  map_to_level_set true ks s = (Ok (list_to_set ls), s).
Proof.
  assert (Hm : ∀ ks ls, Forall2 (fun k l => vars s !! k = Some l) ks ls →
            mapM (map_key true false) ks s = (Ok ls, s)).
  { induction 1 as [|k l ks' ls' Hk _ IH]; [done|]. cbn [mapM].
    rewrite (bind_ok _ _ _ _ _ (lk_map_key_name s false k l Hk)).
    by rewrite (bind_ok _ _ _ _ _ IH). }
  intros [|k l ks' ls' Hk Hr]; [done|]. unfold map_to_level_set.
  rewrite (bind_ok _ _ s tt s) by done.
  rewrite (bind_ok _ _ _ _ _ (lk_map_key_name s true k l Hk)).
  by rewrite (bind_ok _ _ _ _ _ (Hm _ _ Hr)).
Qed.

Theorem level_set_roundtrip s s' q :
  Inv s → set_Forall (declared_lvl s) q → vars s' = vars s →
  map_to_level_set true (names_at s q) s' = (Ok q, s').
Proof.
  intros HI Hq Ev.
  rewrite (lk_map_to_level_set_names s' (names_at s q) (elements q)).
  - by rewrite list_to_set_elements_L.
  - rewrite Ev. by apply names_at_levels.
Qed.

Lemma lk_map_to_level_dict_names {A} s (kv lv : list (nat * A)) :
  Forall2 (fun p p' => vars s !! p.1 = Some p'.1 ∧ p.2 = p'.2) kv lv →
  map_to_level_dict true kv s = (Ok (list_to_map (reverse lv)), s).
Proof.
  assert (Hm : ∀ kv lv : list (nat * A),
            Forall2 (fun p p' => vars s !! p.1 = Some p'.1 ∧ p.2 = p'.2) kv lv →
            mapM (fun '(k, a) => l <- map_key true false k ;; ret (l, a)) kv s = (Ok lv, s)).
  { induction 1 as [|[k a] [l a'] ks' ls' [Hk Ha] _ IH]; [done|]. cbn [mapM].
    cbn [fst snd] in Hk, Ha. subst a'.
    rewrite (bind_ok _ _ s (l, a) s)
      by (by rewrite (bind_ok _ _ _ _ _ (lk_map_key_name s false k l Hk))).
    by rewrite (bind_ok _ _ _ _ _ IH). }
  intros [|[k a] [l a'] ks' ls' [Hk Ha] Hr]; [done|]. unfold map_to_level_dict.
  cbn [fst snd] in Hk, Ha. subst a'.
  rewrite (bind_ok _ _ s tt s) by done.
  rewrite (bind_ok _ _ _ _ _ (lk_map_key_name s true k l Hk)).
  by rewrite (bind_ok _ _ _ _ _ (Hm _ _ Hr)).
Qed.

Theorem level_dict_roundtrip {A} s s' (lv : gmap nat A) :
  Inv s → (∀ l, l ∈ dom lv → declared_lvl s l) → vars s' = vars s →
  map_to_level_dict true (namevals_at s lv) s' = (Ok lv, s').
Proof.
  intros HI Hd Ev.
  rewrite (lk_map_to_level_dict_names s' (namevals_at s lv) (map_to_list lv)).
  - do 2 f_equal. rewrite <- (list_to_map_to_list lv) at 2.
    apply list_to_map_proper; [|apply reverse_Permutation].
    rewrite fmap_reverse, reverse_Permutation. apply NoDup_fst_map_to_list.
  - unfold namevals_at. apply Forall2_fmap_l, Forall_Forall2_diag, Forall_forall.
    intros [l a] Hl. cbn [fst snd]. split; [|done]. rewrite Ev.
    apply name_at_level; [done|]. apply Hd. apply elem_of_map_to_list in Hl.
    apply elem_of_dom. by eexists.
Qed.

Lemma namevals_at_declared {A} s (lv : gmap nat A) :
  Inv s → (∀ l, l ∈ dom lv → declared_lvl s l) →
  Forall (fun p => is_Some (vars s !! p.1)) (namevals_at s lv).
Proof.
  intros HI Hd. unfold namevals_at. apply Forall_fmap, Forall_forall. intros [l a] Hl.
  cbn. exists l. apply name_at_level; [done|]. apply Hd.
  apply elem_of_map_to_list in Hl. apply elem_of_dom. by eexists.
Qed.
Lemma namevals_at_levels_at {A} s (lv : gmap nat A) :
  (∀ l, l ∈ dom lv → declared_lvl s l) →
  Forall2 (fun p nv => lvl2var s !! p.1 = Some nv.1 ∧ p.2 = nv.2)
          (map_to_list lv) (namevals_at s lv).
Proof.
  intros Hd. unfold namevals_at. apply Forall2_fmap_r, Forall_Forall2_diag, Forall_forall.
  intros [l a] Hl. cbn [fst snd]. split; [|done].
  apply elem_of_map_to_list in Hl.
  destruct (Hd l) as [v Hv]; [apply elem_of_dom; by eexists|]. unfold name_at. cbn [fst].
  by rewrite Hv.
Qed.

(** the names are pairwise distinct: the dict of names has one entry per level *)
Lemma namevals_at_lookup s (lv : gmap nat bool) x l :
  Inv s → (∀ l, l ∈ dom lv → declared_lvl s l) → vars s !! x = Some l →
  (list_to_map (reverse (namevals_at s lv)) : gmap nat bool) !! x = lv !! l.
Proof.
  intros HI Hd Hx.
  assert (Hnd : NoDup (namevals_at s lv).*1).
  { unfold namevals_at. rewrite <- list_fmap_compose.
    apply (NoDup_fmap_2_strong _ (map_to_list lv)); [|apply NoDup_map_to_list].
    intros [l1 a1] [l2 a2] H1 H2 E. cbn in E.
    apply elem_of_map_to_list in H1, H2.
    assert (E1 := name_at_level s l1 HI (Hd l1 ltac:(apply elem_of_dom; by eexists))).
    assert (E2 := name_at_level s l2 HI (Hd l2 ltac:(apply elem_of_dom; by eexists))).
    rewrite E in E1. assert (l1 = l2) by congruence. subst l2. f_equal. congruence. }
  rewrite (list_to_map_proper _ (namevals_at s lv)); cycle 1.
  { by rewrite fmap_reverse, reverse_Permutation. }
  { apply reverse_Permutation. }
  destruct (lv !! l) as [a|] eqn:El.
  - apply elem_of_list_to_map_1; [done|]. unfold namevals_at.
    apply elem_of_list_fmap. exists (l, a). cbn [fst snd]. split.
    + f_equal. pose proof (name_at_level s l HI (Hd l ltac:(apply elem_of_dom; by eexists))) as E.
      apply (inv_vars _ HI) in E, Hx. congruence.
    + by apply elem_of_map_to_list.
  - apply not_elem_of_list_to_map_1. intros Hin. unfold namevals_at in Hin.
    rewrite <- list_fmap_compose in Hin. apply elem_of_list_fmap in Hin as ([l' a']&E&Hin).
    cbn in E. apply elem_of_map_to_list in Hin.
    pose proof (name_at_level s l' HI (Hd l' ltac:(apply elem_of_dom; by eexists))) as E'.
    rewrite <- E in E'. assert (l' = l) by congruence. subst l'. congruence.
Qed.
