(** * AddExprTotal: [dd.bdd.BDD.add_expr] for ARBITRARY input (C17 for the
      formula reader).

    [add_expr] is the decorator around "lex, parse, evaluate"
    ([Parser.add_expr]); the evaluator [eval_ast] only calls [var], [apply]
    (hence [ite], [quantify]), [quantify] and [rename], each of which is
    total ([Proofs/Total.v], [Proofs/Dynamic2.v], [Proofs/Dynamic3.v]);
    lexing and parsing are pure functions.

    - a syntax error (lexing or parsing fails) leaves the manager UNCHANGED,
      whatever the manager ([add_expr_syntax_error]);
    - requests off: any spellings, either outcome ([add_expr_total]); the
      outcome may be the [RuntimeError] of a full table ([max_nodes]), which
      these safety statements allow (the manager stays well formed);
    - requests on or off, top level: [dsafe_add_expr]. *)
From stdpp Require Import strings.
From DD Require Export Dynamic3 ExprSem.
Local Open Scope string_scope.

(** ** the evaluator, syntactic passes *)
Lemma nrf_eval_ast (t : Parser.ast) : nrf (eval_ast t).
Proof.
  induction t; cbn [eval_ast]; nrf;
    first [apply nrf_var | apply nrf_apply | apply nrf_quantify | apply nrf_rename].
Qed.

Lemma nt_eval_ast (t : Parser.ast) : nt (eval_ast t).
Proof.
  induction t; cbn [eval_ast]; ntx;
    first [apply nt_var | apply nt_apply | apply nt_quantify | apply nt_rename].
Qed.

Lemma tsafe_eval_ast (t : Parser.ast) : tsafe (eval_ast t).
Proof.
  induction t; cbn [eval_ast]; tsafe;
    first [apply tsafe_var | apply tsafe_apply | apply tsafe_quantify | apply tsafe_rename].
Qed.

Lemma csafe_rename u dvars : csafe (rename u dvars).
Proof. apply csafe_try_to_reorder; [apply nrf_rename_|apply csafe_rename_]. Qed.

Lemma csafe_eval_ast (t : Parser.ast) : csafe (eval_ast t).
Proof.
  induction t; cbn [eval_ast]; csafe;
    first [apply csafe_var | apply csafe_apply_with | apply csafe_quantify | apply csafe_rename].
Qed.

(** ** the body of the decorated method *)
Definition add_expr_body (lt : lex_table) (rw : list (string * string)) (P : prec_table)
    (sp : list string) : MS Z :=
  ts <- of_opt EValue (lex_all lt rw sp) ;;
  a <- of_opt EValue (parse P ts) ;;
  eval_ast a.

Lemma add_expr_unfold lt rw P sp :
  add_expr lt rw P sp = try_to_reorder (add_expr_body lt rw P sp).
Proof. reflexivity. Qed.

Lemma nrf_add_expr_body lt rw P sp : nrf (add_expr_body lt rw P sp).
Proof. unfold add_expr_body. nrf. apply nrf_eval_ast. Qed.
Lemma nt_add_expr_body lt rw P sp : nt (add_expr_body lt rw P sp).
Proof. unfold add_expr_body. ntx. apply nt_eval_ast. Qed.
Lemma tsafe_add_expr_body lt rw P sp : tsafe (add_expr_body lt rw P sp).
Proof. unfold add_expr_body. tsafe. apply tsafe_eval_ast. Qed.
Lemma csafe_add_expr_body lt rw P sp : csafe (add_expr_body lt rw P sp).
Proof. unfold add_expr_body. csafe. apply csafe_eval_ast. Qed.

Lemma nrf_add_expr lt rw P sp : nrf (add_expr lt rw P sp).
Proof. apply nrf_try_to_reorder, nrf_add_expr_body. Qed.
Lemma nt_add_expr lt rw P sp : nt (add_expr lt rw P sp).
Proof. apply nt_try_to_reorder, nt_add_expr_body. Qed.
Lemma tsafe_add_expr lt rw P sp : tsafe (add_expr lt rw P sp).
Proof. apply tsafe_try_to_reorder; [apply nrf_add_expr_body|apply tsafe_add_expr_body]. Qed.
Lemma csafe_add_expr lt rw P sp : csafe (add_expr lt rw P sp).
Proof. apply csafe_try_to_reorder; [apply nrf_add_expr_body|apply csafe_add_expr_body]. Qed.

(** ** (a) syntax errors *)
Definition syntax_error (lt : lex_table) (rw : list (string * string)) (P : prec_table)
    (sp : list string) : Prop :=
  match lex_all lt rw sp with
  | None => True
  | Some ts => parse P ts = None
  end.

Lemma syntax_error_unfold lt rw P sp :
  syntax_error lt rw P sp ↔
  lex_all lt rw sp = None ∨ ∃ ts, lex_all lt rw sp = Some ts ∧ parse P ts = None.
Proof.
  unfold syntax_error. destruct (lex_all lt rw sp) as [ts|]; split.
  - intros H. right. by exists ts.
  - intros [[=]|(ts'&[= <-]&H)]. done.
  - by left.
  - done.
Qed.

Lemma st_rctx_back (s : st) : s <| rctx := true |> <| rctx := rctx s |> = s.
Proof. by destruct s. Qed.

(** whatever the manager (no invariant, reordering on or off, any tape): the
    [ValueError] of the lexer / parser, and the very same state *)
Theorem add_expr_syntax_error lt rw P sp s :
  syntax_error lt rw P sp → add_expr lt rw P sp s = (Err EValue, s).
Proof.
  intros Hse.
  assert (Hb : add_expr_body lt rw P sp (s <| rctx := true |>) =
               (Err EValue, s <| rctx := true |>)).
  { unfold add_expr_body, syntax_error in *.
    destruct (lex_all lt rw sp) as [ts|]; [|done].
    cbn [of_opt]. rewrite (bind_ok _ _ _ ts (s <| rctx := true |>)) by done.
    by rewrite Hse. }
  rewrite add_expr_unfold. unfold try_to_reorder. cbn [bind get modify].
  unfold bind at 1, catch at 1. rewrite Hb. cbn [bind modify].
  rewrite decide_False by (intros [? _]; done).
  unfold raise. by rewrite st_rctx_back.
Qed.

(** ** (b) any spellings, either outcome, requests off *)
Theorem add_expr_total lt rw P sp s r s' :
  Inv s → last_len s = None → add_expr lt rw P sp s = (r, s') →
  Inv s' ∧ extends s s' ∧ frame s s' ∧ (∀ L, Counts s L → Counts s' L) ∧
  (∀ u, valid s u → valid s' u ∧ ∀ ρ, denv s' u ρ = denv s u ρ) ∧
  r ≠ Err ENeedsReordering ∧ (tape s = [] → r ≠ Err EOracle).
Proof.
  intros HI Hl H.
  pose proof (tsafe_add_expr lt rw P sp s r s' HI Hl H) as Hs.
  destruct (nrf_add_expr lt rw P sp s r s' Hl H) as [_ Hnr].
  pose proof Hs as (HI'&He&Hf&HC).
  split; [done|]. split; [done|]. split; [done|]. split; [done|]. split.
  { intros u Hu. destruct (safe_den s s' HI Hs u Hu) as (?&_&?). done. }
  split; [done|]. intros Ht. by destruct (nt_add_expr lt rw P sp s r s' Ht H).
Qed.

(** the three outcomes in one statement: a syntax error (state unchanged), or
    a tree [t] that is evaluated: totality for every tree (a full table,
    [Err ERuntime], included), and the meaning of the result for an accepted
    tree when the table is unbounded *)
Theorem add_expr_any lt rw P sp s r s' :
  Inv s → last_len s = None → add_expr lt rw P sp s = (r, s') →
  (syntax_error lt rw P sp ∧ r = Err EValue ∧ s' = s) ∨
  (∃ ts (t : Parser.ast), lex_all lt rw sp = Some ts ∧ parse P ts = Some t ∧
     Inv s' ∧ extends s s' ∧ frame s s' ∧ (∀ L, Counts s L → Counts s' L) ∧
     (∀ u, valid s u → valid s' u ∧ ∀ ρ, denv s' u ρ = denv s u ρ) ∧
     r ≠ Err ENeedsReordering ∧ (tape s = [] → r ≠ Err EOracle) ∧
     (ok_ast s t → max_nodes s = None →
      ∃ u, r = Ok u ∧ valid s' u ∧ ∀ ρ, denv s' u ρ = asem s t ρ)).
Proof.
  intros HI Hl H.
  destruct (lex_all lt rw sp) as [ts|] eqn:Elex; cycle 1.
  { left. assert (Hse : syntax_error lt rw P sp) by (unfold syntax_error; by rewrite Elex).
    rewrite (add_expr_syntax_error lt rw P sp s Hse) in H. by injection H as <- <-. }
  destruct (parse P ts) as [t|] eqn:Eparse; cycle 1.
  { left. assert (Hse : syntax_error lt rw P sp) by (unfold syntax_error; by rewrite Elex).
    rewrite (add_expr_syntax_error lt rw P sp s Hse) in H. by injection H as <- <-. }
  right. exists ts, t. split; [done|]. split; [done|].
  destruct (add_expr_total lt rw P sp s r s' HI Hl H) as (?&?&?&?&?&?&?).
  do 7 (split; [done|]). intros Hok Hmx.
  destruct (add_expr_sem lt rw P sp ts t s r s' HI Hl Hmx Elex Eparse Hok H)
    as (u&->&_&_&_&_&Hu&HD).
  by exists u.
Qed.

(** ** dynamic reordering ON or OFF, top level (not inside a context), empty
    oracle tape: the decorator theorem [try_to_reorder_total] applies, since
    [add_expr = try_to_reorder body] *)
Theorem dsafe_add_expr lt rw P sp : dsafe (add_expr lt rw P sp).
Proof.
  rewrite add_expr_unfold. apply try_to_reorder_total;
    [apply nrf_add_expr_body|apply nt_add_expr_body|apply csafe_add_expr_body].
Qed.
