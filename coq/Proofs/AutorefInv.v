(** * AutorefInv: the reference-counting discipline of [dd.autoref] (C08).

    A live [Function] object is a handle [h ↦ u] of the wrapper state [ast].
    [AInv a]: the wrapped manager is canonical, dynamic reordering is
    disabled, every handle points to a node of the manager, and the counter of
    every node equals its in-degree plus the number of live handles that point
    to it (plus the manager's own reference to the terminal).

    Every operation of the [Driver3] alphabet (except the reordering entry
    points and the shutdown) keeps [AInv], whatever its arguments and its
    outcome, and every surviving handle keeps its function. *)
From DD Require Export Total Driver3.
Local Open Scope string_scope.

(** ** 1. The ledger of the live handles *)

(** number of live handles whose node is [k] *)
Definition hcount (H : gmap nat Z) (k : positive) : nat :=
  map_fold (fun _ u acc => (if decide (absn u = k) then 1 else 0) + acc) 0 H.

(** the manager itself holds one reference to the terminal ([init_terminal]) *)
Definition hl (H : gmap nat Z) : positive → nat :=
  fun k => (if decide (k = 1%positive) then 1 else 0) + hcount H k.
Definition hledger (a : ast) : positive → nat := hl (handles a).

Lemma hcount_empty k : hcount ∅ k = 0.
Proof. unfold hcount. by rewrite map_fold_empty. Qed.

Lemma hcount_insert H h u k : H !! h = None →
  hcount (<[h := u]> H) k = (if decide (absn u = k) then 1 else 0) + hcount H k.
Proof.
  intros Hh. unfold hcount. rewrite map_fold_insert_L; [done| |done].
  intros; lia.
Qed.

Lemma hcount_delete H h u k : H !! h = Some u →
  hcount H k = (if decide (absn u = k) then 1 else 0) + hcount (delete h H) k.
Proof.
  intros Hh. rewrite <- (insert_delete H h u) at 1 by done.
  apply hcount_insert, lookup_delete.
Qed.

Lemma hcount_pos H h u : H !! h = Some u → 0 < hcount H (absn u).
Proof. intros Hh. rewrite (hcount_delete H h u _ Hh), decide_True by done. lia. Qed.

Lemma hcount_pos_inv H k : 0 < hcount H k → ∃ h u, H !! h = Some u ∧ absn u = k.
Proof.
  induction H as [|h u H Hh IH] using map_ind.
  - rewrite hcount_empty. lia.
  - rewrite hcount_insert by done. case_decide as E.
    + intros _. exists h, u. by rewrite lookup_insert.
    + intros Hp. destruct IH as (h'&u'&Hh'&E'); [lia|]. exists h', u'. split; [|done].
      rewrite lookup_insert_ne; [done|]. congruence.
Qed.

(** the same number, as the length of a list *)
Lemma hcount_length H k :
  hcount H k = length (filter (fun p => absn (p.2) = k) (map_to_list H)).
Proof.
  induction H as [|h u H Hh IH] using map_ind.
  - by rewrite hcount_empty, map_to_list_empty.
  - rewrite hcount_insert by done. rewrite (map_to_list_insert H h u Hh).
    rewrite filter_cons. cbn [snd]. case_decide; cbn [length]; lia.
Qed.

Lemma hl_empty k : hl ∅ k = if decide (k = 1%positive) then 1 else 0.
Proof. unfold hl. rewrite hcount_empty. lia. Qed.

Lemma hl_insert H h u k : H !! h = None →
  hl (<[h := u]> H) k = ledger_inc (hl H) (absn u) k.
Proof.
  intros Hh. unfold hl, ledger_inc. rewrite hcount_insert by done.
  destruct (decide (absn u = k)), (decide (k = absn u)); try congruence; lia.
Qed.

Lemma hl_delete H h u k : H !! h = Some u →
  hl (delete h H) k = ledger_dec (hl H) (absn u) k.
Proof.
  intros Hh. unfold hl, ledger_dec. rewrite (hcount_delete H h u k Hh).
  destruct (decide (absn u = k)), (decide (k = absn u)); try congruence; lia.
Qed.

Lemma hl_pos H h u : H !! h = Some u → 0 < hl H (absn u).
Proof. intros Hh. unfold hl. pose proof (hcount_pos H h u Hh). lia. Qed.

(** ** 2. The invariant of the wrapper *)
Definition AInv (a : ast) : Prop :=
  Inv (mgr a) ∧ last_len (mgr a) = None ∧ Counts (mgr a) (hledger a) ∧
  (∀ h u, handles a !! h = Some u → valid (mgr a) u) ∧
  (∀ h u, handles a !! h = Some u → h < next_hid a).

(** the step relation of the methods that only add nodes and handles *)
Definition AStep (a a' : ast) : Prop :=
  AInv a' ∧ extends (mgr a) (mgr a') ∧ handles a ⊆ handles a' ∧
  next_hid a ≤ next_hid a'.

Lemma AStep_refl a : AInv a → AStep a a.
Proof. intros. split; [done|split; [reflexivity|split; [done|lia]]]. Qed.
Lemma AStep_trans a1 a2 a3 : AStep a1 a2 → AStep a2 a3 → AStep a1 a3.
Proof.
  intros (_&He1&Hh1&Hn1) (HA&He2&Hh2&Hn2).
  split; [done|split; [by etrans|split; [by etrans|lia]]].
Qed.
Lemma AStep_AInv a a' : AStep a a' → AInv a'.
Proof. by intros (?&_). Qed.

Lemma denv_ext s s' u ρ : extends s s' → Inv s → valid s u → denv s' u ρ = denv s u ρ.
Proof.
  intros He HI Hv. unfold denv. pose proof He as (_&_&El). rewrite <- El.
  by apply D_extends.
Qed.

(** what a step keeps: every old handle, with its function *)
Lemma AStep_keep a a' : AInv a → AStep a a' →
  ∀ h u, handles a !! h = Some u →
    handles a' !! h = Some u ∧ valid (mgr a') u ∧
    (∀ x, D (mgr a') u x = D (mgr a) u x) ∧
    ∀ ρ, denv (mgr a') u ρ = denv (mgr a) u ρ.
Proof.
  intros (HI&_&_&Hv&_) (_&He&Hh&_) h u Hu. specialize (Hv h u Hu).
  split; [by apply (lookup_weaken _ _ _ _ Hu Hh)|].
  split; [by apply (valid_extends (mgr a))|]. split.
  - intros x. by apply D_extends.
  - intros ρ. by apply denv_ext.
Qed.

(** a change of the wrapped manager that [safe] describes *)
Lemma AStep_safe a s' : AInv a → safe (mgr a) s' → AStep a (a <| mgr := s' |>).
Proof.
  intros (HI&Hl&HC&Hv&Hf) (HI'&He&Hfr&HC').
  split; [|split; [done|split; [done|done]]].
  split; [done|]. split; [by apply (frame_off (mgr a))|]. split; [by apply HC'|].
  split; [|done]. intros h u Hu. apply (valid_extends (mgr a)); [done|]. by apply (Hv h).
Qed.

(** ... or that only touches the harness fields *)
Lemma AStep_same a s' : AInv a → same_tables (mgr a) s' → refc s' = refc (mgr a) →
  last_len s' = None → AStep a (a <| mgr := s' |>).
Proof.
  intros (HI&Hl&HC&Hv&Hf) Hs Hr Hl'. pose proof Hs as (E1&_&_&_&_&E6&E7).
  split; [|split; [|split; [done|done]]].
  - split; [by apply (Inv_same (mgr a))|]. split; [done|].
    split; [by apply (Counts_same (mgr a))|]. split; [|done].
    intros h u Hu. specialize (Hv h u Hu). unfold valid in *. cbn in *. by rewrite E1.
  - unfold extends. cbn. by rewrite E1, E6, E7.
Qed.

(** ** 3. Safe wrapper computations *)
Definition asafe {A} (m : MA A) : Prop :=
  ∀ a r a', AInv a → m a = (r, a') → AStep a a'.

Lemma asafe_ret {A} (x : A) : asafe (ret x).
Proof. intros a r a' HA [= <- <-]. by apply AStep_refl. Qed.
Lemma asafe_raise {A} e : asafe (raise (A:=A) e).
Proof. intros a r a' HA [= <- <-]. by apply AStep_refl. Qed.
Lemma asafe_get : asafe (get (S:=ast)).
Proof. intros a r a' HA [= <- <-]. by apply AStep_refl. Qed.
Lemma asafe_ensure e b : asafe (ensure (S:=ast) e b).
Proof. destruct b; [apply asafe_ret|apply asafe_raise]. Qed.
Lemma asafe_of_opt {A} e (o : option A) : asafe (of_opt (S:=ast) e o).
Proof. destruct o; [apply asafe_ret|apply asafe_raise]. Qed.
Lemma asafe_bind {A B} (m : MA A) (f : A → MA B) :
  asafe m → (∀ x, asafe (f x)) → asafe (bind m f).
Proof.
  intros Hm Hf a r a' HA. unfold bind. destruct (m a) as [[x|e] a1] eqn:E.
  - pose proof (Hm _ _ _ HA E) as H1. intros H2.
    apply (AStep_trans a a1 a'); [done|]. apply (Hf x a1 r a'); [by apply (AStep_AInv a)|done].
  - intros [= <- <-]. by apply (Hm _ _ _ HA E).
Qed.
Lemma asafe_bind_get {B} (f : ast → MA B) :
  (∀ a r a', AInv a → f a a = (r, a') → AStep a a') → asafe (bind get f).
Proof. intros H a r a' HA. cbn [bind get]. by apply H. Qed.
Lemma asafe_mapM {A B} (f : A → MA B) (l : list A) : (∀ x, asafe (f x)) → asafe (mapM f l).
Proof.
  intros Hf. induction l as [|x l IH]; cbn [mapM]; [apply asafe_ret|].
  apply asafe_bind; [apply Hf|intros b].
  apply asafe_bind; [done|intros bs; apply asafe_ret].
Qed.

Lemma asafe_lift {A} (m : MS A) : tsafe m → asafe (lift m).
Proof.
  intros Hm a r a' HA. unfold lift. destruct (m (mgr a)) as [r0 s'] eqn:E.
  intros [= <- <-]. apply AStep_safe; [done|]. destruct HA as (HI&Hl&_).
  by apply (Hm (mgr a) r0 s').
Qed.

Lemma asafe_node_of h : asafe (node_of h).
Proof. unfold node_of. apply asafe_bind; [apply asafe_get|intros a; apply asafe_of_opt]. Qed.
Lemma asafe_check_in u : asafe (check_in u).
Proof. unfold check_in. apply asafe_bind; [apply asafe_get|intros a; apply asafe_ensure]. Qed.
Lemma asafe_onode_of h : asafe (onode_of h).
Proof.
  unfold onode_of. destruct h as [h|]; [|apply asafe_ret].
  apply asafe_bind; [apply asafe_node_of|intros u; apply asafe_ret].
Qed.

(** [Function(u, bdd)]: a new handle on a node of the manager; anything else
    is a [ValueError] before the counter is touched *)
Lemma wrap_spec u a r a' : AInv a → wrap u a = (r, a') →
  (valid (mgr a) u ∧ r = Ok (next_hid a) ∧
   a' = a <| mgr := bump u (mgr a) |> <| handles ::= <[next_hid a := u]> |>
          <| next_hid := S (next_hid a) |> ∧ AStep a a') ∨
  (¬ valid (mgr a) u ∧ r = Err EValue ∧ a' = a).
Proof.
  intros HA. pose proof HA as (HI&Hl&HC&Hv&Hf). unfold wrap. cbn [bind get].
  destruct (mem u (mgr a)) eqn:Hm; cbn [ensure bind ret raise]; cycle 1.
  { intros [= <- <-]. right. split; [|done]. intros Hu. apply mem_valid in Hu. congruence. }
  apply mem_valid in Hm. unfold bind at 1. unfold lift.
  rewrite (incref_ok (mgr a) u HI Hm). cbn [bind modify ret]. intros [= <- <-].
  left. split; [done|]. split; [done|]. split; [done|].
  assert (Hfresh : handles a !! next_hid a = None).
  { destruct (handles a !! next_hid a) as [x|] eqn:E; [|done]. specialize (Hf _ _ E). lia. }
  split; [|split; [done|split; [by apply insert_subseteq|cbn; lia]]].
  split; [by apply Inv_bump|]. split; [done|]. split.
  - apply (Counts_ext _ (ledger_inc (hl (handles a)) (absn u))).
    + intros n. unfold hledger. cbn. by rewrite hl_insert.
    + by apply Counts_bump.
  - split.
    + intros h x. cbn. intros Hx. apply lookup_insert_Some in Hx as [[_ <-]|[_ Hx]].
      * destruct Hm as [? ?]. split; [done|]. done.
      * destruct (Hv h x Hx) as [? ?]. split; [done|]. done.
    + intros h x. cbn. intros Hx. apply lookup_insert_Some in Hx as [[<- _]|[_ Hx]]; [lia|].
      specialize (Hf h x Hx). lia.
Qed.

Lemma asafe_wrap u : asafe (wrap u).
Proof.
  intros a r a' HA H. destruct (wrap_spec u a r a' HA H) as [(_&_&_&?)|(_&_&->)]; [done|].
  by apply AStep_refl.
Qed.

(** ** 4. The [dd.bdd] computations used by the wrapper are safe *)
Lemma pure_top_cofactor u i : pure (top_cofactor u i).
Proof. unfold top_cofactor. pure. Qed.
Lemma pure_top_cofactorZ u i : pure (top_cofactorZ u i).
Proof. unfold top_cofactorZ. pure. apply pure_top_cofactor. Qed.

Lemma pure_sat_len fuel : ∀ u ml all_ d, pure (sat_len fuel u ml all_ d).
Proof.
  induction fuel as [|f IH]; intros u ml all_ d; cbn [sat_len]; [apply pure_raise|].
  pure; first [apply IH | apply pure_level_of].
Qed.
Lemma pure_count u n : pure (count u n).
Proof.
  unfold count. pure;
    first [apply pure_support | apply pure_level_of_var | apply pure_sat_len
          | apply pure_level_of].
Qed.
Lemma pure_descendants_rec fuel : ∀ u visited, pure (descendants_rec fuel u visited).
Proof.
  induction fuel as [|f IH]; intros u visited; cbn [descendants_rec]; [apply pure_raise|].
  pure; apply IH.
Qed.
Lemma pure_descendants roots : pure (descendants roots).
Proof. unfold descendants. pure. apply pure_descendants_rec. Qed.

Lemma pure_map_rename byname rn : pure (map_rename byname rn).
Proof. unfold map_rename. pure. Qed.
Lemma pure_all_adjacent l : pure (all_adjacent l).
Proof.
  induction l as [|[i j] l IH]; cbn [all_adjacent]; [apply pure_ret|].
  pure; apply pure_var_at_level.
Qed.

Lemma tsafe_image_rec fuel : ∀ u v um vm q fa cache,
  tsafe (image_rec fuel u v um vm q fa cache).
Proof.
  induction fuel as [|f IH]; intros u v um vm q fa cache; cbn [image_rec];
    [apply tsafe_pure, pure_raise|].
  tsafe; first [apply IH | apply tsafe_ite | apply tsafe_find_or_add_var
               | apply tsafe_pure, pure_top_cofactor
               | apply tsafe_pure, pure_top_cofactorZ].
Qed.
Lemma tsafe_image t s bn rn qbn q fa : tsafe (image t s bn rn qbn q fa).
Proof.
  unfold image.
  tsafe; first [apply tsafe_pure, pure_map_to_level_set | apply tsafe_pure, pure_map_rename
               | apply tsafe_pure, pure_all_adjacent | apply tsafe_pure, pure_support_levels
               | apply tsafe_image_rec].
Qed.
Lemma tsafe_preimage t s bn rn qbn q fa : tsafe (preimage t s bn rn qbn q fa).
Proof.
  unfold preimage.
  tsafe; first [apply tsafe_pure, pure_map_to_level_set | apply tsafe_pure, pure_map_rename
               | apply tsafe_image_rec].
Qed.
(** the public entry points disable reordering requests ([guarded]); with
    requests already disabled the guard is the identity *)
Lemma guarded_none {A} (m : MS A) s : last_len s = None → guarded m s = m s.
Proof. intros H. unfold guarded. cbn [bind get]. by rewrite H. Qed.
Lemma tsafe_guarded {A} (m : MS A) : tsafe m → tsafe (guarded m).
Proof. intros Hm s r s' HI Hll. rewrite (guarded_none m s Hll). by apply Hm. Qed.
Lemma tsafe_image_pub t s bn rn qbn q fa : tsafe (image_pub t s bn rn qbn q fa).
Proof. apply tsafe_guarded, tsafe_image. Qed.
Lemma tsafe_preimage_pub t s bn rn qbn q fa : tsafe (preimage_pub t s bn rn qbn q fa).
Proof. apply tsafe_guarded, tsafe_preimage. Qed.

Lemma tsafe_copy_bdd src u : tsafe (copy_bdd src u).
Proof. unfold copy_bdd. tsafe. apply tsafe_copy_bdd_rec. Qed.

Lemma tsafe_configure b : b ≠ Some true → tsafe (configure b).
Proof.
  intros Hb s r s' HI Hl. unfold configure. cbn [bind get].
  destruct b as [[|]|]; [done| |]; cbn [bind modify ret]; intros [= <- <-].
  - apply same_safe; [done|by repeat split|done|]. by repeat split.
  - by apply safe_refl.
Qed.

(** the harness setters that do not enable reordering *)
Lemma tsafe_set_trig k : tsafe (modify (fun s => s <| trig := k |>)).
Proof.
  intros s r s' HI Hl [= <- <-]. apply same_safe; [done|by repeat split|done|by repeat split].
Qed.
Lemma tsafe_set_last_len_none : tsafe (modify (fun s => s <| last_len := None |>)).
Proof.
  intros s r s' HI Hl [= <- <-]. apply same_safe; [done|by repeat split|done|by repeat split].
Qed.

(** one syntactic step *)
Ltac asafe_step :=
  lazymatch goal with
  | |- asafe (ret _) => apply asafe_ret
  | |- asafe (raise _) => apply asafe_raise
  | |- asafe get => apply asafe_get
  | |- asafe (ensure _ _) => apply asafe_ensure
  | |- asafe (of_opt _ _) => apply asafe_of_opt
  | |- asafe (node_of _) => apply asafe_node_of
  | |- asafe (onode_of _) => apply asafe_onode_of
  | |- asafe (check_in _) => apply asafe_check_in
  | |- asafe (wrap _) => apply asafe_wrap
  | |- asafe (bind _ _) => apply asafe_bind; [|intros ?]
  | |- asafe (mapM _ _) => apply asafe_mapM; intros ?
  | |- asafe (if ?b then _ else _) => destruct b
  | |- asafe (match ?x with _ => _ end) => destruct x
  | |- asafe (let '(_, _) := ?x in _) => destruct x
  end.
Ltac asafe := repeat first [assumption | asafe_step].
Ltac alift := apply asafe_lift;
  first [ apply tsafe_var | apply tsafe_apply | apply tsafe_ite | apply tsafe_let
        | apply tsafe_quantify | apply tsafe_cube | apply tsafe_image | apply tsafe_preimage
        | apply tsafe_copy_bdd | apply tsafe_image_pub | apply tsafe_preimage_pub
        | apply tsafe_guarded, tsafe_copy_bdd
        | apply tsafe_pure; first [ apply pure_support | apply pure_count | apply pure_getsuccZ
                                  | apply pure_var_at_level | apply pure_ref
                                  | apply pure_descendants | apply pure_level_of_var ] ].

(** ** 5. The methods of [autoref.BDD] and [autoref.Function] *)
Lemma asafe_a_var v : asafe (a_var v).
Proof. unfold a_var. asafe. alift. Qed.
Lemma asafe_a_true : asafe a_true.
Proof. apply asafe_wrap. Qed.
Lemma asafe_a_false : asafe a_false.
Proof. apply asafe_wrap. Qed.
Lemma asafe_a_apply op hu hv hw : asafe (a_apply op hu hv hw).
Proof. unfold a_apply. asafe; alift. Qed.
Lemma asafe_a_ite hg hu hv : asafe (a_ite hg hu hv).
Proof. unfold a_ite. asafe. alift. Qed.
Lemma asafe_a_let d hu : asafe (a_let d hu).
Proof. unfold a_let. asafe; alift. Qed.
Lemma asafe_a_quantify hu q fa : asafe (a_quantify hu q fa).
Proof. unfold a_quantify. asafe. alift. Qed.
Lemma asafe_a_cube d : asafe (a_cube d).
Proof. unfold a_cube. asafe. alift. Qed.
Lemma asafe_a_support hu : asafe (a_support hu).
Proof. unfold a_support. asafe. alift. Qed.
Lemma asafe_a_count hu n : asafe (a_count hu n).
Proof. unfold a_count. asafe. alift. Qed.
Lemma asafe_a_image pre ht hs rn q fa : asafe (a_image pre ht hs rn q fa).
Proof. unfold a_image. asafe. destruct pre; alift. Qed.
Lemma asafe_f_apply op hu hv : asafe (f_apply op hu hv).
Proof. unfold f_apply. asafe. alift. Qed.
Lemma asafe_f_eq hu hv : asafe (f_eq hu hv).
Proof. unfold f_eq. asafe. Qed.
Lemma asafe_f_child hi hu : asafe (f_child hi hu).
Proof. unfold f_child. asafe. alift. Qed.
Lemma asafe_a_succ hu : asafe (a_succ hu).
Proof. unfold a_succ. asafe. alift. Qed.
Lemma asafe_f_level hu : asafe (f_level hu).
Proof. unfold f_level. asafe. alift. Qed.
Lemma asafe_f_var hu : asafe (f_var hu).
Proof. unfold f_var. asafe; alift. Qed.
Lemma asafe_f_ref hu : asafe (f_ref hu).
Proof. unfold f_ref. asafe. alift. Qed.
Lemma asafe_f_negated hu : asafe (f_negated hu).
Proof. unfold f_negated. asafe. Qed.
Lemma asafe_f_len hu : asafe (f_len hu).
Proof. unfold f_len. asafe. alift. Qed.

(** ** 6. The comparisons [u <= v], [u < v]: temporaries net to zero *)

(** the invariant with an arbitrary ledger (live handles + temporaries) *)
Definition GInv (a : ast) (L : positive → nat) : Prop :=
  Inv (mgr a) ∧ last_len (mgr a) = None ∧ Counts (mgr a) L ∧
  (∀ h u, handles a !! h = Some u → valid (mgr a) u) ∧
  (∀ h u, handles a !! h = Some u → h < next_hid a).
Definition MStep (a a' : ast) : Prop :=
  extends (mgr a) (mgr a') ∧ handles a' = handles a ∧ next_hid a' = next_hid a ∧
  max_nodes (mgr a') = max_nodes (mgr a).

Lemma MStep_trans a1 a2 a3 : MStep a1 a2 → MStep a2 a3 → MStep a1 a3.
Proof. intros (?&?&?&?) (?&?&?&?). split; [by etrans|split_and!; congruence]. Qed.

Lemma lift_G {A} (m : MS A) a L r a' : tsafe m → GInv a L → lift m a = (r, a') →
  GInv a' L ∧ MStep a a' ∧ m (mgr a) = (r, mgr a').
Proof.
  intros Hm (HI&Hl&HC&Hv&Hf). unfold lift. destruct (m (mgr a)) as [r0 s'] eqn:E.
  intros [= <- <-]. destruct (Hm _ _ _ HI Hl E) as (HI'&He&Hfr&HC').
  split; [|split; [split_and!; [done..|by apply frame_max_nodes]|done]].
  split; [done|]. split; [by apply (frame_off (mgr a))|]. split; [by apply HC'|].
  split; [|done]. intros h u Hu. apply (valid_extends (mgr a)); [done|by apply (Hv h)].
Qed.

Lemma tmp_new_G u a L r a' : GInv a L → valid (mgr a) u → tmp_new u a = (r, a') →
  r = Ok tt ∧ GInv a' (ledger_inc L (absn u)) ∧ MStep a a'.
Proof.
  intros (HI&Hl&HC&Hv&Hf) Hu. unfold tmp_new. cbn [bind get].
  rewrite (proj2 (mem_valid _ _) Hu). cbn [ensure bind ret]. unfold lift.
  rewrite (incref_ok _ u HI Hu). intros [= <- <-]. split; [done|]. split; [|by split_and!].
  split; [by apply Inv_bump|]. split; [done|]. split; [by apply Counts_bump|].
  split; [|done]. intros h x Hx. by apply (Hv h).
Qed.

Lemma tmp_del_G u a L r a' : GInv a L → valid (mgr a) u → 0 < L (absn u) →
  tmp_del u a = (r, a') →
  r = Ok tt ∧ GInv a' (ledger_dec L (absn u)) ∧ MStep a a'.
Proof.
  intros (HI&Hl&HC&Hv&Hf) Hu HL. unfold tmp_del, lift.
  destruct (decref u (mgr a)) as [r0 s'] eqn:E. intros [= <- <-].
  destruct (decref_total _ _ _ _ HI E) as (HI'&He&Hfr&Hok&_).
  destruct (Hok Hu) as [-> HC']. split; [done|].
  split; [|split_and!; [done..|by apply frame_max_nodes]].
  split; [done|]. split; [by apply (frame_off (mgr a))|]. split; [by apply HC'|].
  split; [|done]. intros h x Hx. apply (valid_extends (mgr a)); [done|by apply (Hv h)].
Qed.

Lemma apply_not_run s u : valid s u → apply "not" u None None s = (Ok (- u)%Z, s).
Proof.
  intros Hu. unfold apply, apply_with.
  assert (arity_ok "not" None None = true) as -> by (by vm_compute).
  cbn [ensure bind ret get]. rewrite (proj2 (mem_valid _ _) Hu). cbn [ensure bind ret].
  assert (find_template apply_table "not" = Some (TRet (ONeg OU))) as -> by (by vm_compute).
  done.
Qed.
Lemma apply_or_run s v n : valid s v → valid s n →
  apply "or" v (Some n) None s = ite v 1 n s.
Proof.
  intros Hv Hn. unfold apply, apply_with.
  assert (arity_ok "or" (Some n) None = true) as -> by (by vm_compute).
  cbn [ensure bind ret get]. rewrite (proj2 (mem_valid _ _) Hv). cbn [ensure bind ret].
  rewrite (proj2 (mem_valid _ _) Hn). cbn [ensure bind ret].
  assert (find_template apply_table "or" = Some (TIte OU OTrue OV)) as -> by (by vm_compute).
  done.
Qed.

Lemma node_of_run h a :
  node_of h a = (match handles a !! h with Some u => Ok u | None => Err EKey end, a).
Proof. unfold node_of. cbn [bind get]. by destruct (handles a !! h). Qed.

Lemma catch_run_g {S A} (m : M S A) s r s' : m s = (r, s') → catch m s = (Ok r, s').
Proof. unfold catch. by intros ->. Qed.

(** for every outcome: when [other | ~ self] raises (a full table), the
    temporary [~ self] dies with the unwinding frame *)
Lemma asafe_f_le hu hv : asafe (f_le hu hv).
Proof.
  intros a r a' HA. pose proof HA as (HI&Hl&HC&Hv&Hf). unfold f_le.
  pose proof (node_of_run hu a) as Nu. destruct (handles a !! hu) as [u|] eqn:Eu; cycle 1.
  { rewrite (bind_err _ _ _ _ _ Nu). intros [= <- <-]. by apply AStep_refl. }
  rewrite (bind_ok _ _ _ _ _ Nu).
  pose proof (node_of_run hv a) as Nv. destruct (handles a !! hv) as [v|] eqn:Ev; cycle 1.
  { rewrite (bind_err _ _ _ _ _ Nv). intros [= <- <-]. by apply AStep_refl. }
  rewrite (bind_ok _ _ _ _ _ Nv).
  pose proof (Hv _ _ Eu) as Hu0. pose proof (Hv _ _ Ev) as Hv0.
  set (L := hledger a) in *.
  (* n = ~u *)
  destruct (lift (apply "not" u None None) a) as [rn a1] eqn:E1.
  destruct (lift_G _ a L rn a1 (tsafe_apply _ _ _ _) HA E1) as (G1&M1&R1).
  rewrite (apply_not_run _ u Hu0) in R1. injection R1 as <- _.
  rewrite (bind_ok _ _ _ _ _ E1).
  set (n := (- u)%Z) in *.
  assert (Hn1 : valid (mgr a1) n).
  { apply (valid_extends (mgr a)); [apply M1|by apply valid_neg]. }
  destruct (tmp_new n a1) as [r2 a2] eqn:E2.
  destruct (tmp_new_G n a1 _ r2 a2 G1 Hn1 E2) as (->&G2&M2).
  rewrite (bind_ok _ _ _ _ _ E2).
  (* o = v | n *)
  assert (Hn2 : valid (mgr a2) n) by (by apply (valid_extends (mgr a1)); [apply M2|]).
  assert (Hv2 : valid (mgr a2) v).
  { apply (valid_extends (mgr a1)); [apply M2|].
    by apply (valid_extends (mgr a)); [apply M1|]. }
  destruct (lift (apply "or" v (Some n) None) a2) as [ro a3] eqn:E3.
  destruct (lift_G _ a2 _ ro a3 (tsafe_apply _ _ _ _) G2 E3) as (G3&M3&R3).
  rewrite (apply_or_run _ v n Hv2 Hn2) in R3.
  pose proof G2 as (HI2&Hl2&_).
  rewrite (bind_ok _ _ _ _ _ (catch_run_g _ _ _ _ E3)).
  destruct ro as [o|e]; cycle 1.
  { (* the temporary ~u dies with the frame *)
    assert (Hn3 : valid (mgr a3) n) by (by apply (valid_extends (mgr a2)); [apply M3|]).
    destruct (tmp_del n a3) as [r4 a4] eqn:E4.
    destruct (tmp_del_G n a3 _ r4 a4 G3 Hn3) as (->&G4&M4); [|done|].
    { unfold ledger_inc. rewrite decide_True by done. lia. }
    rewrite (bind_ok _ _ _ _ _ E4). intros [= <- <-].
    assert (M : MStep a a4).
    { repeat (eapply MStep_trans; [eassumption|]). done. }
    destruct M as (He&Hh&Hnx&_). destruct G4 as (HI4&Hl4&HC4&Hv4&Hf4).
    split; [|split; [done|split; [by rewrite Hh|lia]]].
    split; [done|]. split; [done|]. split; [|done].
    eapply Counts_ext; [|exact HC4].
    intros k. unfold hledger. rewrite Hh. fold (hledger a). fold L.
    unfold ledger_inc, ledger_dec. repeat case_decide; try done; lia. }
  apply ite_spec in R3 as (_&_&_&(Ho&_));
    [|done|done|by apply valid_1|done|by right].
  destruct (tmp_new o a3) as [r4 a4] eqn:E4.
  destruct (tmp_new_G o a3 _ r4 a4 G3 Ho E4) as (->&G4&M4).
  rewrite (bind_ok _ _ _ _ _ E4).
  (* the temporary ~u dies *)
  assert (Hn4 : valid (mgr a4) n).
  { apply (valid_extends (mgr a3)); [apply M4|].
    by apply (valid_extends (mgr a2)); [apply M3|]. }
  destruct (tmp_del n a4) as [r5 a5] eqn:E5.
  destruct (tmp_del_G n a4 _ r5 a5 G4 Hn4) as (->&G5&M5); [|done|].
  { unfold ledger_inc. repeat case_decide; try done; lia. }
  rewrite (bind_ok _ _ _ _ _ E5).
  (* self.bdd.true *)
  pose proof G5 as (HI5&_).
  destruct (tmp_new 1 a5) as [r6 a6] eqn:E6.
  destruct (tmp_new_G 1 a5 _ r6 a6 G5 (valid_1 _ HI5) E6) as (->&G6&M6).
  rewrite (bind_ok _ _ _ _ _ E6). cbv zeta.
  assert (Ho6 : valid (mgr a6) o).
  { apply (valid_extends (mgr a5)); [apply M6|].
    apply (valid_extends (mgr a4)); [apply M5|].
    by apply (valid_extends (mgr a3)); [apply M4|]. }
  destruct (tmp_del o a6) as [r7 a7] eqn:E7.
  destruct (tmp_del_G o a6 _ r7 a7 G6 Ho6) as (->&G7&M7); [|done|].
  { unfold ledger_inc, ledger_dec. repeat case_decide; try done; lia. }
  rewrite (bind_ok _ _ _ _ _ E7).
  pose proof G7 as (HI7&_).
  destruct (tmp_del 1 a7) as [r8 a8] eqn:E8.
  destruct (tmp_del_G 1 a7 _ r8 a8 G7 (valid_1 _ HI7)) as (->&G8&M8); [|done|].
  { unfold ledger_inc, ledger_dec. repeat case_decide; try done; lia. }
  rewrite (bind_ok _ _ _ _ _ E8). intros [= <- <-].
  assert (M : MStep a a8).
  { repeat (eapply MStep_trans; [eassumption|]). done. }
  destruct M as (He&Hh&Hnx&_). destruct G8 as (HI8&Hl8&HC8&Hv8&Hf8).
  split; [|split; [done|split; [by rewrite Hh|lia]]].
  split; [done|]. split; [done|]. split; [|done].
  eapply Counts_ext; [|exact HC8].
  intros k. unfold hledger. rewrite Hh. fold (hledger a). fold L.
  unfold ledger_inc, ledger_dec. repeat case_decide; try done; lia.
Qed.

Lemma asafe_f_lt hu hv : asafe (f_lt hu hv).
Proof.
  unfold f_lt. apply asafe_bind; [apply asafe_f_le|intros le].
  destruct le; [|apply asafe_ret].
  apply asafe_bind; [apply asafe_f_eq|intros ?; apply asafe_ret].
Qed.

(** ** 7. [Function.__del__], [collect_garbage], [declare], [BDD(levels)],
       [find_or_add] *)

(** what an operation keeps: every old handle survives with its function,
    except the handle that the operation drops *)
Definition AKeep (o : aop) (a a' : ast) : Prop :=
  ∀ h u, handles a !! h = Some u →
    (handles a' !! h = Some u ∧ valid (mgr a') u ∧
     ∀ ρ, denv (mgr a') u ρ = denv (mgr a) u ρ) ∨
    (o = ADrop h ∧ handles a' !! h = None).

Lemma AStep_AKeep o a a' : AInv a → AStep a a' → AInv a' ∧ AKeep o a a'.
Proof.
  intros HA HS. split; [by apply (AStep_AInv a)|]. intros h u Hu. left.
  destruct (AStep_keep a a' HA HS h u Hu) as (?&?&_&?). done.
Qed.

Lemma drop_spec h a r a' : AInv a → drop h a = (r, a') →
  (∃ u, handles a !! h = Some u ∧ r = Ok tt ∧ AInv a' ∧ extends (mgr a) (mgr a') ∧
        handles a' = delete h (handles a) ∧ next_hid a' = next_hid a) ∨
  (handles a !! h = None ∧ r = Err EKey ∧ a' = a).
Proof.
  intros (HI&Hl&HC&Hv&Hf). unfold drop. cbn [bind get].
  destruct (handles a !! h) as [u|] eqn:Eu; cycle 1.
  { intros [= <- <-]. by right. }
  cbn [bind modify]. unfold lift.
  change (mgr (a <| handles ::= delete h |>)) with (mgr a).
  destruct (decref u (mgr a)) as [r0 s'] eqn:E. intros [= <- <-].
  pose proof (Hv h u Eu) as Hu.
  destruct (decref_total _ _ _ _ HI E) as (HI'&He&Hfr&Hok&_).
  destruct (Hok Hu) as [-> HC']. left. exists u.
  split; [done|]. split; [done|]. split; [|done].
  split; [done|]. split; [by apply (frame_off (mgr a))|]. split.
  - apply (Counts_ext _ (ledger_dec (hl (handles a)) (absn u))).
    + intros n. unfold hledger. cbn. by rewrite (hl_delete _ h u).
    + apply HC'; [done|]. by apply (hl_pos _ h).
  - split.
    + intros h' x. cbn. intros Hx. apply lookup_delete_Some in Hx as [_ Hx].
      apply (valid_extends (mgr a)); [done|by apply (Hv h')].
    + intros h' x. cbn. intros Hx. apply lookup_delete_Some in Hx as [_ Hx].
      by apply (Hf h' x).
Qed.

(** a change of the manager that may delete unreferenced nodes and change the
    variable order: what it must preserve (the premise for the reordering
    entry points; proved below for [collect_garbage]).  [L] is the ledger of
    the external references. *)
Definition keeps_refs (s : st) (L : positive → nat) (s' : st) : Prop :=
  Inv s' ∧ last_len s' = None ∧ Counts s' L ∧
  ∀ u, u ≠ 0%Z → reach (succ s) (fun k => 0 < L k) (absn u) →
    valid s' u ∧ ∀ ρ, denv s' u ρ = denv s u ρ.
Definition reorder_like {A} (m : MS A) : Prop :=
  ∀ s L r s', Inv s → last_len s = None → Counts s L → m s = (r, s') →
    keeps_refs s L s'.

Lemma gc_reorder_like : reorder_like (collect_garbage None).
Proof.
  intros s L r s' HI Hl HC H.
  destruct (gc_exact s L r s' HI HC H) as (_&HI'&HC'&_&_&El&Hll&_).
  split; [done|]. split; [congruence|]. split; [done|]. intros u Hu Hr.
  destruct (gc_preserves_den None s L r s' u HI HC I H Hu (or_intror Hr)) as (Hv'&_&HD).
  split; [done|]. intros ρ. unfold denv. rewrite El. apply HD.
Qed.

Lemma lift_keeps_refs {A} (m : MS A) o a r a' :
  AInv a → lift m a = (r, a') → keeps_refs (mgr a) (hledger a) (mgr a') →
  AInv a' ∧ AKeep o a a' ∧ next_hid a' = next_hid a.
Proof.
  intros (HI&Hl&HC&Hv&Hf). unfold lift. destruct (m (mgr a)) as [r0 s'] eqn:E.
  intros [= <- <-]. cbn [mgr set]. intros (HI'&Hl'&HC'&Hk).
  assert (Hk' : ∀ h u, handles a !! h = Some u →
            valid s' u ∧ ∀ ρ, denv s' u ρ = denv (mgr a) u ρ).
  { intros h u Hu. destruct (Hv h u Hu) as [Hu0 Hus]. apply Hk; [done|].
    apply reach_root; [by apply (hl_pos _ h)|by apply elem_of_dom]. }
  split; [|split; [|done]].
  - split; [done|]. split; [done|]. split; [done|]. split; [|done].
    intros h u Hu. by apply (Hk' h).
  - intros h u Hu. left. destruct (Hk' h u Hu) as [? ?]. done.
Qed.

Lemma lift_reorder_like {A} (m : MS A) o a r a' :
  reorder_like m → AInv a → lift m a = (r, a') →
  AInv a' ∧ AKeep o a a' ∧ next_hid a' = next_hid a.
Proof.
  intros Hm HA H. apply (lift_keeps_refs m o a r a' HA H).
  destruct HA as (HI&Hl&HC&_). revert H. unfold lift.
  destruct (m (mgr a)) as [r0 s'] eqn:E. intros [= <- <-].
  by apply (Hm _ _ _ _ HI Hl HC E).
Qed.

Lemma declare_spec vs o a r a' : AInv a → lift (declare vs) a = (r, a') →
  r = Ok tt ∧ AInv a' ∧ AKeep o a a' ∧ next_hid a' = next_hid a.
Proof.
  intros (HI&Hl&HC&Hv&Hf). unfold lift. destruct (declare vs (mgr a)) as [r0 s'] eqn:E.
  intros [= <- <-]. destruct (declare_total _ _ _ _ HI E) as (->&HI'&Hfr&HC'&Hk).
  split; [done|]. split; [|split; [|done]].
  - split; [done|]. split; [by apply (frame_off (mgr a))|]. split; [by apply HC'|].
    split; [|done]. intros h u Hu. by apply Hk, (Hv h).
  - intros h u Hu. left. destruct (Hk u (Hv h u Hu)) as (?&_&?). done.
Qed.

(** [BDD(levels)]: a fresh manager without handles *)
Lemma new_spec w levels a r a' : NoDup (levels.*1) → NoDup (levels.*2) →
  run_aop w (ANew levels) a = (r, a') →
  AInv a' ∧ handles a' = ∅ ∧ next_hid a' = 0.
Proof.
  intros Hn1 Hn2. cbn [run_aop bind modify]. unfold bind at 1. unfold lift.
  change (mgr (ASt init ∅ 0)) with init.
  destruct (init_levels levels init) as [r0 s'] eqn:E.
  assert (HA : Inv s' ∧ last_len s' = None ∧
               Counts s' (fun n => if decide (n = 1%positive) then 1 else 0)).
  { destruct (init_levels_total levels r0 s' Hn1 Hn2 E)
      as [(_&_&->)|(_&_&HI'&Hl'&_&_&HC')]; [|done].
    split; [apply Inv_init|split; [done|apply Counts_init]]. }
  destruct HA as (HI'&Hl'&HC').
  assert (AInv (ASt init ∅ 0 <| mgr := s' |>)).
  { split; [done|]. split; [done|]. split; [|split; intros h u; cbn; by rewrite lookup_empty].
    eapply Counts_ext; [|exact HC']. intros n. unfold hledger. cbn. by rewrite hl_empty. }
  destruct r0; cbn [bind ret]; intros [= <- <-]; done.
Qed.

Lemma asafe_lift_at {A} (m : MS A) a r a' : AInv a →
  (∀ r s', m (mgr a) = (r, s') → safe (mgr a) s') → lift m a = (r, a') → AStep a a'.
Proof.
  intros HA Hm. unfold lift. destruct (m (mgr a)) as [r0 s'] eqn:E.
  intros [= <- <-]. apply AStep_safe; [done|]. by apply (Hm r0).
Qed.

(** [find_or_add(var, low, high)]: the caller must give a variable above the
    children (the method does not check it, see [find_or_add_junk_refuted]) *)
Lemma a_find_or_add_spec v hlo hhi a r a' : AInv a →
  (∀ l lo hi, vars (mgr a) !! v = Some l → handles a !! hlo = Some lo →
     handles a !! hhi = Some hi → lo ≠ hi →
     l < lvl_of (mgr a) lo ∧ l < lvl_of (mgr a) hi) →
  a_find_or_add v hlo hhi a = (r, a') → AStep a a'.
Proof.
  intros HA Hg. unfold a_find_or_add.
  destruct (lift (level_of_var v) a) as [rl a1] eqn:E1.
  pose proof (asafe_lift _ (tsafe_pure _ (pure_level_of_var v)) a rl a1 HA E1) as S1.
  destruct (lift_G _ a _ rl a1 (tsafe_pure _ (pure_level_of_var v)) HA E1) as (_&M1&R1).
  pose proof (pure_level_of_var v _ _ _ R1) as Es. destruct M1 as (_&Hh1&_).
  pose proof (AStep_AInv _ _ S1) as HA1.
  unfold level_of_var in R1. cbn [bind get] in R1.
  destruct (vars (mgr a) !! v) as [l|] eqn:Evl; cbn [of_opt ret raise] in R1;
    injection R1 as <-; cycle 1.
  { rewrite (bind_err _ _ _ _ _ E1). by intros [= <- <-]. }
  rewrite (bind_ok _ _ _ _ _ E1).
  pose proof (node_of_run hlo a1) as Nl. rewrite Hh1 in Nl.
  destruct (handles a !! hlo) as [lo|] eqn:Elo; cycle 1.
  { rewrite (bind_err _ _ _ _ _ Nl). by intros [= <- <-]. }
  rewrite (bind_ok _ _ _ _ _ Nl).
  pose proof (node_of_run hhi a1) as Nh. rewrite Hh1 in Nh.
  destruct (handles a !! hhi) as [hi|] eqn:Ehi; cycle 1.
  { rewrite (bind_err _ _ _ _ _ Nh). by intros [= <- <-]. }
  rewrite (bind_ok _ _ _ _ _ Nh).
  destruct (lift (find_or_add l lo hi) a1) as [rf a2] eqn:E2.
  assert (S2 : AStep a1 a2).
  { apply (asafe_lift_at (find_or_add l lo hi) a1 rf a2 HA1); [|done]. intros r0 s' Hr.
    apply (find_or_add_total _ l lo hi r0 s'); [apply HA1| |done].
    intros _ _ _ Hne. rewrite Es. by apply Hg. }
  destruct rf as [x|e]; cycle 1.
  { rewrite (bind_err _ _ _ _ _ E2). intros [= <- <-]. by apply (AStep_trans a a1). }
  rewrite (bind_ok _ _ _ _ _ E2). intros H3.
  apply (AStep_trans a a1); [done|]. apply (AStep_trans a1 a2); [done|].
  apply (asafe_wrap x a2 r a'); [by apply (AStep_AInv a1)|done].
Qed.

(** ** 8. The alphabet of [Driver3] *)

(** everything except [reorder], [configure(reordering=True)], the harness
    setter that enables reordering, and the shutdown (see section 10); the
    assignment of the node limit [ASetMaxNodes n] ([bdd._bdd.max_nodes = n]) is
    allowed with ANY value (it is one of the [_ => true] cases) *)
Definition a_allowed (o : aop) : bool :=
  match o with
  | ANew levels => bool_decide (NoDup (levels.*1) ∧ NoDup (levels.*2))
  | AReorder _ | AShutdown => false
  | AConfigure b => bool_decide (b ≠ Some true)
  | ASetLastLen l => bool_decide (l = None)
  | _ => true
  end.
Definition is_anew (o : aop) : bool := match o with ANew _ => true | _ => false end.

(** the one obligation of the caller that the code does not check *)
Definition a_caller_ok (a : ast) (o : aop) : Prop :=
  match o with
  | AFindOrAdd v hlo hhi =>
      ∀ l lo hi, vars (mgr a) !! v = Some l → handles a !! hlo = Some lo →
        handles a !! hhi = Some hi → lo ≠ hi →
        l < lvl_of (mgr a) lo ∧ l < lvl_of (mgr a) hi
  | _ => True
  end.

(** the operations that only add nodes and handles *)
Definition a_grows (o : aop) : bool :=
  match o with
  | ANew _ | ADeclare _ | AFindOrAdd _ _ _ | ADrop _ | AGc | AReorder _ | AShutdown => false
  | AConfigure b => bool_decide (b ≠ Some true)
  | ASetLastLen l => bool_decide (l = None)
  | _ => true
  end.

Lemma asafe_set_tape t : asafe (lift (modify (fun s => s <| tape := t |>))).
Proof.
  intros a r a' HA. unfold lift. cbn [modify]. intros [= <- <-].
  apply AStep_same; [done|by repeat split|done|apply HA].
Qed.

(** [bdd._bdd.max_nodes = n]: only that field changes *)
Lemma asafe_set_max_nodes n : asafe (lift (modify (fun s => s <| max_nodes := n |>))).
Proof.
  intros a r a' HA. unfold lift. cbn [modify]. intros [= <- <-].
  apply AStep_same; [done|by repeat split|done|apply HA].
Qed.

Lemma run_aop_grows w o : a_grows o = true → asafe (run_aop w o).
Proof.
  intros Ho. destruct o; try discriminate Ho; cbn [run_aop];
    try (apply asafe_bind;
         [first [ apply asafe_a_var | apply asafe_a_true | apply asafe_a_false
                | apply asafe_a_apply | apply asafe_a_ite | apply asafe_a_let
                | apply asafe_a_quantify | apply asafe_a_cube | apply asafe_a_support
                | apply asafe_a_count | apply asafe_a_image | apply asafe_f_apply
                | apply asafe_f_eq | apply asafe_f_le | apply asafe_f_lt
                | apply asafe_f_child | apply asafe_a_succ | apply asafe_f_level
                | apply asafe_f_var | apply asafe_f_ref | apply asafe_f_negated
                | apply asafe_f_len | apply asafe_node_of | apply asafe_set_tape
                | apply asafe_set_max_nodes
                | apply asafe_lift, tsafe_set_trig ]
         |intros ?; asafe]).
  - (* configure *)
    cbn [a_grows] in Ho. apply bool_decide_eq_true in Ho.
    apply asafe_bind; [by apply asafe_lift, tsafe_configure|intros ?; apply asafe_ret].
  - (* _last_len := None *)
    cbn [a_grows] in Ho. apply bool_decide_eq_true in Ho as ->.
    apply asafe_bind; [apply asafe_lift, tsafe_set_last_len_none|intros ?; apply asafe_ret].
  - (* copy from another manager *)
    asafe. alift.
Qed.

Lemma bind_ret_st {S A C} (m : M S A) (g : A → C) s r s' :
  (x <- m ;; ret (g x)) s = (r, s') →
  ∃ r0, m s = (r0, s') ∧ r = match r0 with Ok x => Ok (g x) | Err e => Err e end.
Proof. unfold bind. destruct (m s) as [[x|e] s1]; intros [= <- <-]; eauto. Qed.

(** MAIN THEOREM: any allowed call, any arguments, either outcome *)
Theorem run_aop_AInv w o a r a' :
  a_allowed o = true → is_anew o = false → AInv a → a_caller_ok a o →
  run_aop w o a = (r, a') → AInv a' ∧ AKeep o a a'.
Proof.
  intros Ha Hn HA Hc H. destruct (a_grows o) eqn:Hg.
  { apply AStep_AKeep; [done|]. by apply (run_aop_grows w o Hg a r a'). }
  destruct o; try discriminate Ha; try discriminate Hn; try discriminate Hg;
    cbn [run_aop] in H; try (cbn [a_allowed a_grows] in Ha, Hg; congruence);
    apply bind_ret_st in H as (r0&H&_).
  - (* declare *)
    by destruct (declare_spec vs (ADeclare vs) a r0 a' HA H) as (_&?&?&_).
  - (* find_or_add *)
    apply AStep_AKeep; [done|]. by apply (a_find_or_add_spec v hlo hhi a r0 a').
  - (* Function.__del__ *)
    destruct (drop_spec hu a r0 a' HA H) as [(u&Eu&_&HA'&He&Hh&_)|(_&_&->)]; cycle 1.
    { apply AStep_AKeep; [done|by apply AStep_refl]. }
    split; [done|]. intros h x Hx. destruct (decide (h = hu)) as [->|Hne].
    + right. split; [done|]. rewrite Hh. apply lookup_delete.
    + left. rewrite Hh, lookup_delete_ne by done. split; [done|].
      destruct HA as (HI&_&_&Hv&_). specialize (Hv h x Hx).
      split; [by apply (valid_extends (mgr a))|]. intros ρ. by apply denv_ext.
  - (* collect_garbage *)
    by destruct (lift_reorder_like _ AGc a r0 a' gc_reorder_like HA H) as (?&?&_).
Qed.

(** the call as the driver dispatches it ([Driver3.run_aop']): a copy whose
    source is the manager itself is [a_copy_same] (a second handle on the same
    node, nothing computed); everything else is [run_aop] *)
Lemma run_aop'_cases w m o :
  run_aop' w m o = run_aop w o ∨ ∃ hu, o = ACopy m hu ∧ run_aop' w m o = a_copy_same hu.
Proof.
  destruct o; try (by left). cbn [run_aop']. destruct (decide (src = m)) as [->|?]; [|by left].
  right. by exists hu.
Qed.
Lemma run_aop'_not_copy w m o : (∀ src hu, o ≠ ACopy src hu) → run_aop' w m o = run_aop w o.
Proof. intros Hn. destruct o; try done. by destruct (Hn src hu). Qed.

Lemma asafe_a_copy_same hu : asafe (a_copy_same hu).
Proof. unfold a_copy_same. asafe. Qed.

Theorem run_aop'_AInv w m o a r a' :
  a_allowed o = true → is_anew o = false → AInv a → a_caller_ok a o →
  run_aop' w m o a = (r, a') → AInv a' ∧ AKeep o a a'.
Proof.
  intros Ha Hn HA Hc H. destruct (run_aop'_cases w m o) as [E|(hu&->&E)]; rewrite E in H.
  - by apply (run_aop_AInv w o a r a').
  - apply AStep_AKeep; [done|]. by apply (asafe_a_copy_same hu a r a').
Qed.

(** ** 9. Histories *)
Lemma AKeep_tape o a a' t : AKeep o a a' →
  AKeep o a (a' <| mgr := (mgr a') <| tape := t |> |>).
Proof.
  intros Hk h u Hu. destruct (Hk h u Hu) as [(?&Hv&HD)|?]; [left|by right].
  split; [done|]. split; [exact Hv|]. intros ρ. rewrite <- HD. unfold denv. cbn.
  by apply D_same.
Qed.
Lemma AInv_tape a t : AInv a → AInv (a <| mgr := (mgr a) <| tape := t |> |>).
Proof.
  intros HA. apply (AStep_AInv a). apply AStep_same; [done|by repeat split|done|apply HA].
Qed.

Lemma astep_spec w m o :
  ∃ r a', run_aop' w m o (aworld_get w m) = (r, a') ∧ snd (astep w m o) = r ∧
    aworld_get (fst (astep w m o)) m =
      match o with
      | ATape _ => a'
      | _ => a' <| mgr := (mgr a') <| tape := [] |> |>
      end.
Proof.
  unfold astep, aworld_get. destruct (run_aop' w m o (default empty_ast (w !! m))) as [r a'].
  exists r, a'. split; [done|]. split; [done|]. cbn [fst]. unfold aworld.
  by rewrite lookup_insert.
Qed.

(** the copy of a live [Function] into its own manager: a NEW handle on the
    SAME node; of the wrapped manager only the count of that node changes (and
    [astep] empties the oracle tape, as after every call) *)
Lemma a_copy_same_spec hu u a : AInv a → handles a !! hu = Some u →
  a_copy_same hu a =
    (Ok (VN (next_hid a)),
     a <| mgr := bump u (mgr a) |> <| handles ::= <[next_hid a := u]> |>
       <| next_hid := S (next_hid a) |>) ∧
  handles a !! next_hid a = None ∧
  ∃ c, refc (mgr a) !! absn u = Some c ∧ refc (bump u (mgr a)) !! absn u = Some (S c).
Proof.
  intros HA Hu. pose proof HA as (HI&_&_&Hv&Hf). unfold a_copy_same.
  pose proof (node_of_run hu a) as N. rewrite Hu in N. rewrite (bind_ok _ _ _ _ _ N).
  destruct (wrap u a) as [r a'] eqn:E.
  destruct (wrap_spec u a r a' HA E) as [(_&->&->&_)|(Hnv&_&_)]; cycle 1.
  { destruct Hnv. by apply (Hv hu). }
  rewrite (bind_ok _ _ _ _ _ E). split; [done|]. split.
  - destruct (handles a !! next_hid a) as [x|] eqn:Ex; [|done]. specialize (Hf _ _ Ex). lia.
  - destruct (Hv hu u Hu) as [_ Hs]. apply elem_of_dom in Hs. rewrite <- (inv_ref _ HI) in Hs.
    apply elem_of_dom in Hs as [c Hc]. exists c. split; [done|].
    unfold bump. cbn. by rewrite lookup_alter, Hc.
Qed.

Theorem astep_copy_same w m hu u :
  let a := aworld_get w m in
  let a' := aworld_get (fst (astep w m (ACopy m hu))) m in
  AInv a → handles a !! hu = Some u →
  snd (astep w m (ACopy m hu)) = Ok (VN (next_hid a)) ∧
  next_hid a ∉ dom (handles a) ∧
  handles a' = <[next_hid a := u]> (handles a) ∧
  next_hid a' = S (next_hid a) ∧
  mgr a' = mgr a <| refc ::= alter S (absn u) |> <| tape := [] |> ∧
  (succ (mgr a') = succ (mgr a) ∧ pred (mgr a') = pred (mgr a) ∧
   ite_tab (mgr a') = ite_tab (mgr a) ∧ vars (mgr a') = vars (mgr a) ∧
   lvl2var (mgr a') = lvl2var (mgr a) ∧ min_free (mgr a') = min_free (mgr a) ∧
   roots (mgr a') = roots (mgr a)) ∧
  (∃ c, refc (mgr a) !! absn u = Some c ∧ refc (mgr a') !! absn u = Some (S c)) ∧
  (∀ n, n ≠ absn u → refc (mgr a') !! n = refc (mgr a) !! n) ∧
  AInv a'.
Proof.
  intros a a' HA Hu. destruct (astep_spec w m (ACopy m hu)) as (r&a1&E&Er&Ea).
  fold a in E. fold a' in Ea. cbn [run_aop'] in E. rewrite decide_True in E by done.
  destruct (a_copy_same_spec hu u a HA Hu) as (E'&Hfresh&c&Hc&Hc').
  rewrite E' in E. injection E as <- <-. rewrite Er, Ea.
  split; [done|]. split; [by apply not_elem_of_dom|]. split; [done|]. split; [done|].
  split; [done|]. split; [done|]. split; [by exists c|]. split.
  - intros n Hn. cbn. by rewrite lookup_alter_ne.
  - apply AInv_tape.
    assert (S1 : asafe (a_copy_same hu)) by apply asafe_a_copy_same.
    by apply (AStep_AInv a), (S1 a _ _ HA E').
Qed.

(** one call on manager [m] of a world *)
Theorem astep_AInv w m o :
  a_allowed o = true →
  (is_anew o = false → AInv (aworld_get w m) ∧ a_caller_ok (aworld_get w m) o) →
  AInv (aworld_get (fst (astep w m o)) m) ∧
  (is_anew o = false → AKeep o (aworld_get w m) (aworld_get (fst (astep w m o)) m)).
Proof.
  intros Ha Hpre. destruct (astep_spec w m o) as (r&a'&E&_&->).
  set (a := aworld_get w m) in *.
  assert (H : AInv a' ∧ (is_anew o = false → AKeep o a a')).
  { destruct (is_anew o) eqn:Hn.
    - destruct o; try discriminate Hn. cbn [a_allowed] in Ha.
      apply bool_decide_eq_true in Ha as [Hn1 Hn2].
      by destruct (new_spec w levels a r a' Hn1 Hn2 E) as (?&_).
    - destruct (Hpre eq_refl) as [HA Hc].
      destruct (run_aop'_AInv w m o a r a' Ha Hn HA Hc E) as [? ?]. done. }
  destruct H as [HA' Hk].
  assert (H2 : AInv (a' <| mgr := (mgr a') <| tape := [] |> |>) ∧
               (is_anew o = false → AKeep o a (a' <| mgr := (mgr a') <| tape := [] |> |>))).
  { split; [by apply AInv_tape|]. intros Hn. by apply AKeep_tape, Hk. }
  by destruct o.
Qed.

Fixpoint ahist_ok (w : aworld) (m : nat) (ops : list aop) : Prop :=
  match ops with
  | [] => True
  | o :: ops =>
      a_allowed o = true ∧ a_caller_ok (aworld_get w m) o ∧
      ahist_ok (fst (astep w m o)) m ops
  end.
Definition arun (w : aworld) (m : nat) (ops : list aop) : aworld :=
  fold_left (fun w o => fst (astep w m o)) ops w.

Theorem arun_AInv ops : ∀ w m,
  AInv (aworld_get w m) → ahist_ok w m ops → AInv (aworld_get (arun w m ops) m).
Proof.
  induction ops as [|o ops IH]; intros w m HA Hh; [done|].
  destruct Hh as (Ha&Hc&Hh). cbn [arun fold_left]. apply IH; [|done].
  apply astep_AInv; [done|]. intros _. by split.
Qed.

Theorem arun_from_new levels ops m :
  a_allowed (ANew levels) = true →
  ahist_ok (fst (astep aworld_empty m (ANew levels))) m ops →
  AInv (aworld_get (arun aworld_empty m (ANew levels :: ops)) m).
Proof.
  intros Ha Hh. cbn [arun fold_left]. apply arun_AInv; [|done].
  apply astep_AInv; [done|]. by intros [=].
Qed.

(** a live [Function] that is not dropped keeps its node and its function
    through the whole history, whatever happens to the other handles *)
Theorem arun_keeps ops : ∀ w m h u,
  AInv (aworld_get w m) → ahist_ok w m ops →
  Forall (fun o => is_anew o = false ∧ o ≠ ADrop h) ops →
  handles (aworld_get w m) !! h = Some u →
  handles (aworld_get (arun w m ops) m) !! h = Some u ∧
  valid (mgr (aworld_get (arun w m ops) m)) u ∧
  ∀ ρ, denv (mgr (aworld_get (arun w m ops) m)) u ρ = denv (mgr (aworld_get w m)) u ρ.
Proof.
  induction ops as [|o ops IH]; intros w m h u HA Hh Hf Hu.
  { cbn. split; [done|]. split; [|done]. destruct HA as (_&_&_&Hv&_). by apply (Hv h). }
  destruct Hh as (Ha&Hc&Hh). apply Forall_cons in Hf as [[Hn Hd] Hf].
  destruct (astep_AInv w m o Ha) as [HA1 Hk]; [intros _; by split|].
  destruct (Hk Hn h u Hu) as [(Hu1&_&HD1)|[-> _]]; [|done].
  cbn [arun fold_left].
  destruct (IH (fst (astep w m o)) m h u HA1 Hh Hf Hu1) as (?&?&HD).
  split; [done|]. split; [done|]. intros ρ. by rewrite HD.
Qed.

(** the explicit reordering, GIVEN that this very run of [reorder] keeps
    the references (the premise; see [keeps_refs]) *)
Theorem run_aop_reorder_partial w order a r a' :
  AInv a → run_aop w (AReorder order) a = (r, a') →
  keeps_refs (mgr a) (hledger a) (mgr a') →
  AInv a' ∧ AKeep (AReorder order) a a'.
Proof.
  intros HA H Hk. cbn [run_aop] in H. apply bind_ret_st in H as (r0&H&_).
  by destruct (lift_keeps_refs _ (AReorder order) a r0 a' HA H Hk) as (?&?&_).
Qed.

(** ** 10. End of life: no [Function] is left *)
Lemma reach_only_terminal s (R : positive → Prop) n : Inv s →
  (∀ k, R k → k = 1%positive) → reach (succ s) R n → n = 1%positive.
Proof.
  intros HI HR H. induction H as [n Hn _|p t _ IH Hp Hlo|p t _ IH Hp Hhi]; [by apply HR|..].
  - subst p. rewrite (inv_term _ HI) in Hp. by injection Hp as <-.
  - subst p. rewrite (inv_term _ HI) in Hp. by injection Hp as <-.
Qed.

Lemma only_terminal_indeg s n : Inv s → dom (succ s) = {[1%positive]} →
  indeg (succ s) n = 0.
Proof.
  intros HI Hd. apply indeg_zero. intros k t Hk.
  assert (Hkd : k ∈ dom (succ s)) by (apply elem_of_dom; by eexists).
  rewrite Hd in Hkd. apply elem_of_singleton in Hkd as ->.
  rewrite (inv_term _ HI) in Hk. injection Hk as <-.
  unfold edges_to, tterm. cbn. rewrite !decide_False; [done|by intros [? _]..].
Qed.

(** [collect_garbage] with no live handle leaves only the terminal, counted
    once (the manager's own reference) *)
Theorem gc_no_handles a : AInv a → handles a = ∅ →
  ∃ s', collect_garbage None (mgr a) = (Ok tt, s') ∧ Inv s' ∧
        dom (succ s') = {[1%positive]} ∧ refc s' = {[1%positive := 1]}.
Proof.
  intros (HI&Hl&HC&Hv&Hf) Hh. unfold hledger in HC. rewrite Hh in HC.
  destruct (collect_garbage None (mgr a)) as [r s'] eqn:E.
  destruct (gc_exact _ _ r s' HI HC E) as (->&HI'&HC'&_&_&_&_&Hd&_).
  assert (Hdom : dom (succ s') = {[1%positive]}).
  { apply stdpp.sets.set_eq. intros n. rewrite Hd, elem_of_singleton. split; [|by left].
    intros [->|Hr]; [done|]. apply (reach_only_terminal _ _ n HI) in Hr; [done|].
    intros k. rewrite hl_empty. case_decide; [done|lia]. }
  exists s'. split; [done|]. split; [done|]. split; [done|].
  apply map_eq. intros n. destruct (decide (n = 1%positive)) as [->|Hn].
  - rewrite lookup_singleton. destruct HC' as [H1 _].
    rewrite (H1 1%positive) by (rewrite Hdom; by apply elem_of_singleton).
    rewrite (only_terminal_indeg s' _ HI' Hdom), hl_empty. done.
  - rewrite lookup_singleton_ne by done. apply not_elem_of_dom.
    rewrite (inv_ref _ HI'), Hdom. by intros ?%elem_of_singleton.
Qed.

(** the assertion of [BDD.__del__]: it holds exactly when no [Function] of
    the manager is alive *)
Theorem shutdown_spec a : AInv a →
  ∃ s', shutdown_ (mgr a) = (Ok (bool_decide (handles a = ∅)), s').
Proof.
  intros (HI&Hl&HC&Hv&Hf). unfold shutdown_.
  assert (H1d : 1%positive ∈ dom (succ (mgr a))).
  { apply elem_of_dom. rewrite (inv_term _ HI). by eexists. }
  assert (Hr : ref 1 (mgr a) =
               (Ok (indeg (succ (mgr a)) 1 + hledger a 1%positive), mgr a)).
  { unfold ref. rewrite decide_False by done. unfold getref.
    change (absn 1) with 1%positive. destruct HC as [H1 _]. by rewrite (H1 _ H1d). }
  rewrite (bind_ok _ _ _ _ _ Hr).
  rewrite decide_True by (unfold hledger, hl; rewrite decide_True by done; lia).
  destruct (decref 1 (mgr a)) as [rd s1] eqn:Ed.
  destruct (decref_total _ _ _ _ HI Ed) as (HI1&He1&Hfr1&Hok&_).
  destruct (Hok (valid_1 _ HI)) as [-> HC1].
  specialize (HC1 _ HC). change (absn 1) with 1%positive in HC1.
  assert (HC1' : Counts s1 (hcount (handles a))).
  { eapply Counts_ext; [|apply HC1; unfold hledger, hl; rewrite decide_True by done; lia].
    intros k. unfold ledger_dec, hledger, hl. repeat case_decide; try done; lia. }
  clear HC1. rewrite (bind_ok _ _ _ _ _ Ed).
  destruct (collect_garbage None s1) as [rg s2] eqn:Eg.
  destruct (gc_exact _ _ rg s2 HI1 HC1' Eg) as (->&HI2&HC2&_&_&_&_&Hd&_).
  rewrite (bind_ok _ _ _ _ _ Eg). cbn [bind get]. unfold ret. exists s2. f_equal. f_equal.
  apply bool_decide_ext. split.
  - (* every counter is zero: no handle *)
    intros Hz. apply map_empty. intros h. destruct (handles a !! h) as [u|] eqn:Eu; [|done].
    exfalso. pose proof (Hv h u Eu) as Hu.
    apply (valid_extends _ s1) in Hu; [|done]. destruct Hu as [_ Hu].
    assert (Hin : absn u ∈ dom (succ s2)).
    { apply Hd. right. apply reach_root; [by apply (hcount_pos _ h)|by apply elem_of_dom]. }
    destruct HC2 as [H2 _]. specialize (H2 _ Hin). specialize (Hz _ _ H2). cbn in Hz.
    pose proof (hcount_pos _ h u Eu). lia.
  - (* no handle: only the terminal is left, unreferenced *)
    intros Hh n c Hn. rewrite Hh in Hd, HC2.
    assert (Hdom : dom (succ s2) = {[1%positive]}).
    { apply stdpp.sets.set_eq. intros k. rewrite Hd, elem_of_singleton. split; [|by left].
      intros [->|Hre]; [done|]. apply (reach_only_terminal _ _ k HI1) in Hre; [done|].
      intros k'. rewrite hcount_empty. lia. }
    assert (n ∈ dom (succ s2)) as Hin.
    { rewrite <- (inv_ref _ HI2). apply elem_of_dom. by eexists. }
    destruct HC2 as [H2 _]. rewrite (H2 _ Hin) in Hn. injection Hn as <-.
    by rewrite (only_terminal_indeg s2 _ HI2 Hdom), hcount_empty.
Qed.

Theorem end_of_life a : AInv a → handles a = ∅ →
  (∃ s', shutdown_ (mgr a) = (Ok true, s')) ∧
  (∃ s', collect_garbage None (mgr a) = (Ok tt, s') ∧ Inv s' ∧
         dom (succ s') = {[1%positive]} ∧ refc s' = {[1%positive := 1]}).
Proof.
  intros HA Hh. split; [|by apply gc_no_handles].
  destruct (shutdown_spec a HA) as [s' Hs]. exists s'.
  by rewrite bool_decide_eq_true_2 in Hs.
Qed.

(** the shutdown as an operation of the alphabet *)
Theorem run_aop_shutdown w a r a' : AInv a → run_aop w AShutdown a = (r, a') →
  r = Ok (VB (bool_decide (handles a = ∅))) ∧
  handles a' = handles a ∧ next_hid a' = next_hid a.
Proof.
  intros HA. destruct (shutdown_spec a HA) as [s' Hs]. cbn [run_aop].
  unfold bind, lift. rewrite Hs. cbn [ret]. by intros [= <- <-].
Qed.

(** ** 11. The invariant, spelled out: the counter of every node is its
    in-degree plus the number of live handles on it (plus one for the
    terminal, held by the manager itself) *)
Theorem AInv_counts a : AInv a →
  ∀ n, n ∈ dom (succ (mgr a)) →
    refc (mgr a) !! n =
    Some (indeg (succ (mgr a)) n + (if decide (n = 1%positive) then 1 else 0) +
          length (filter (fun p => absn (p.2) = n) (map_to_list (handles a)))).
Proof.
  intros (_&_&[H1 _]&_) n Hn. rewrite (H1 n Hn). unfold hledger, hl.
  rewrite hcount_length. f_equal. lia.
Qed.

Lemma hledger_unfold a k :
  hledger a k = (if decide (k = 1%positive) then 1 else 0) +
                length (filter (fun p => absn (p.2) = k) (map_to_list (handles a))).
Proof. unfold hledger, hl. by rewrite hcount_length. Qed.
