(** * AutorefInv2: the [dd.autoref] alphabet INCLUDING the explicit
      reorderings (C08, second part).

    [Proofs/AutorefInv.v] proves the invariant [AInv] for every operation of
    [Driver3] except the reordering entry points; its
    [run_aop_reorder_partial] took as a premise [keeps_refs], which asks every
    node REACHABLE from a held node to keep its identity.  That premise is
    too strong: a swap may replace an unheld inner node (the held node above
    it keeps its identity and its function, the inner node does not:
    [C07_reach_clause_false], [C09_sifting_ok_reach_false]); so the premise is
    unsatisfiable in such runs and that theorem is SUPERSEDED by
    [Sift10.run_aop_reorder_correct] / [run_aop_reorder_notape], which use
    [keeps_held] (only the HELD nodes — here: the nodes of the live handles —
    keep identity and function) and prove it of [reorder_pub].

    Here: the extended alphabet [a_allowed2] = [a_allowed] + [AReorder], and
    unconditional call / step / history theorems over it.  The oracle tape of
    the model must be empty when a reordering starts; [Driver3.astep] empties
    it after every step except [ATape], so along a history whose [ATape]
    operations (if any) set the empty tape this is part of the invariant
    [AInvT]. *)
From DD Require Export Sift10.
Local Open Scope string_scope.

Definition is_areorder (o : aop) : bool :=
  match o with AReorder _ => true | _ => false end.
Definition a_allowed2 (o : aop) : bool := a_allowed o || is_areorder o.
(** the oracle tape is not loaded by the history *)
Definition a_tape_ok (o : aop) : bool :=
  match o with ATape t => bool_decide (t = []) | _ => true end.

Definition AInvT (a : ast) : Prop := AInv a ∧ tape (mgr a) = [].

(** ** One call: any allowed operation or a reordering that starts with an
    empty tape, any arguments, either outcome *)
Theorem run_aop_AInv2 w o a r a' :
  a_allowed2 o = true → is_anew o = false → AInv a → a_caller_ok a o →
  (is_areorder o = true → tape (mgr a) = []) →
  run_aop w o a = (r, a') → AInv a' ∧ AKeep o a a'.
Proof.
  intros Ha Hn HA Hc Ht H. unfold a_allowed2 in Ha. apply orb_true_iff in Ha as [Ha|Ha].
  - by apply (run_aop_AInv w o a r a').
  - destruct o; try discriminate Ha.
    by apply (run_aop_reorder_notape w order a r a' HA (Ht eq_refl)).
Qed.

(** a reordering with an empty tape never fails with the oracle error, and
    the others never do *)
Lemma AInv_tape_irrel a t : AInv a → AInv (a <| mgr := (mgr a) <| tape := t |> |>).
Proof. apply AInv_tape. Qed.

(** ** One step of the driver *)
Theorem astep_AInv2 w m o :
  a_allowed2 o = true → a_tape_ok o = true →
  (is_anew o = false → AInvT (aworld_get w m) ∧ a_caller_ok (aworld_get w m) o) →
  AInvT (aworld_get (fst (astep w m o)) m) ∧
  (is_anew o = false → AKeep o (aworld_get w m) (aworld_get (fst (astep w m o)) m)).
Proof.
  intros Ha Htp Hpre. destruct (astep_spec w m o) as (r&a'&E&_&->).
  set (a := aworld_get w m) in *.
  assert (H : AInv a' ∧ (is_anew o = false → AKeep o a a')).
  { destruct (is_anew o) eqn:Hn.
    - destruct o; try discriminate Hn. unfold a_allowed2 in Ha. cbn [a_allowed is_areorder] in Ha.
      rewrite orb_false_r in Ha. apply bool_decide_eq_true in Ha as [Hn1 Hn2].
      by destruct (new_spec w levels a r a' Hn1 Hn2 E) as (?&_).
    - destruct (Hpre eq_refl) as [[HA Ht] Hc].
      destruct (run_aop_AInv2 w o a r a' Ha Hn HA Hc (fun _ => Ht) E) as [? ?]. done. }
  destruct H as [HA' Hk].
  assert (H2 : AInvT (a' <| mgr := (mgr a') <| tape := [] |> |>) ∧
               (is_anew o = false → AKeep o a (a' <| mgr := (mgr a') <| tape := [] |> |>))).
  { split; [split; [by apply AInv_tape|done]|]. intros Hn. by apply AKeep_tape, Hk. }
  destruct o; try exact H2.
  (* [ATape []] *)
  cbn [a_tape_ok] in Htp. apply bool_decide_eq_true in Htp as ->.
  split; [|done]. split; [done|]. revert E. cbn [run_aop]. unfold bind, lift. cbn [modify].
  intros [= _ <-]. done.
Qed.

(** ** Histories *)
Fixpoint ahist_ok2 (w : aworld) (m : nat) (ops : list aop) : Prop :=
  match ops with
  | [] => True
  | o :: ops =>
      a_allowed2 o = true ∧ a_tape_ok o = true ∧ a_caller_ok (aworld_get w m) o ∧
      ahist_ok2 (fst (astep w m o)) m ops
  end.

Theorem arun_AInv2 ops : ∀ w m,
  AInvT (aworld_get w m) → ahist_ok2 w m ops → AInvT (aworld_get (arun w m ops) m).
Proof.
  induction ops as [|o ops IH]; intros w m HA Hh; [done|].
  destruct Hh as (Ha&Ht&Hc&Hh). cbn [arun fold_left]. apply IH; [|done].
  apply astep_AInv2; [done|done|]. intros _. by split.
Qed.

Theorem arun_from_new2 levels ops m :
  a_allowed (ANew levels) = true →
  ahist_ok2 (fst (astep aworld_empty m (ANew levels))) m ops →
  AInvT (aworld_get (arun aworld_empty m (ANew levels :: ops)) m).
Proof.
  intros Ha Hh. cbn [arun fold_left]. apply arun_AInv2; [|done].
  apply astep_AInv2; [unfold a_allowed2; by rewrite Ha|done|]. by intros [=].
Qed.

(** a live [Function] that is not dropped keeps its node and its function
    through the whole history: operations, collections, REORDERINGS, and the
    deaths of other handles *)
Theorem arun_keeps2 ops : ∀ w m h u,
  AInvT (aworld_get w m) → ahist_ok2 w m ops →
  Forall (fun o => is_anew o = false ∧ o ≠ ADrop h) ops →
  handles (aworld_get w m) !! h = Some u →
  handles (aworld_get (arun w m ops) m) !! h = Some u ∧
  valid (mgr (aworld_get (arun w m ops) m)) u ∧
  ∀ ρ, denv (mgr (aworld_get (arun w m ops) m)) u ρ = denv (mgr (aworld_get w m)) u ρ.
Proof.
  induction ops as [|o ops IH]; intros w m h u HA Hh Hf Hu.
  { cbn. split; [done|]. split; [|done]. destruct HA as ((_&_&_&Hv&_)&_). by apply (Hv h). }
  destruct Hh as (Ha&Ht&Hc&Hh). apply Forall_cons in Hf as [[Hn Hd] Hf].
  destruct (astep_AInv2 w m o Ha Ht) as [HA1 Hk]; [intros _; by split|].
  destruct (Hk Hn h u Hu) as [(Hu1&_&HD1)|[-> _]]; [|done].
  cbn [arun fold_left].
  destruct (IH (fst (astep w m o)) m h u HA1 Hh Hf Hu1) as (?&?&HD).
  split; [done|]. split; [done|]. intros ρ. by rewrite HD.
Qed.

(** the old histories are histories of the extended alphabet as soon as they
    do not load the tape *)
Lemma ahist_ok_ok2 ops : ∀ w m, ahist_ok w m ops →
  Forall (fun o => a_tape_ok o = true) ops → ahist_ok2 w m ops.
Proof.
  induction ops as [|o ops IH]; intros w m Hh Hf; [done|].
  destruct Hh as (Ha&Hc&Hh). apply Forall_cons in Hf as [Ht Hf].
  split; [unfold a_allowed2; by rewrite Ha|]. split; [done|]. split; [done|]. by apply IH.
Qed.
