(** * AutorefInv2: the [dd.autoref] alphabet INCLUDING the explicit
      reorderings (C08, second part).

    [Proofs/AutorefInv.v] proves the invariant [AInv] for every operation of
    [Driver3] except the reordering entry points; its
    [run_aop_reorder_partial] took as a premise [keeps_refs], which asks every
    node REACHABLE from a held node to keep its identity.  That premise is
    too strong: a swap may replace an unheld inner node (the held node above
    it keeps its identity and its function, the inner node does not:
    [C07_reach_clause_false], [C09_sifting_ok_reach_false]); so the premise is
    unsatisfiable in such runs and that theorem is SUPERSEDED by
    [Sift10.run_aop_reorder_correct] / [run_aop_reorder_notape], which use
    [keeps_held] (only the HELD nodes — here: the nodes of the live handles —
    keep identity and function) and prove it of [reorder_pub].

    Here: the extended alphabet [a_allowed2] = [a_allowed] + [AReorder], and
    unconditional call / step / history theorems over it.  The oracle tape of
    the model must be empty when a reordering starts; [Driver3.astep] empties
    it after every step except [ATape], so along a history whose [ATape]
    operations (if any) set the empty tape this is part of the invariant
    [AInvT]. *)
From DD Require Export Sift10 Dynamic2.
From DD Require Import C01proof Dynamic3.
Local Open Scope string_scope.

Definition is_areorder (o : aop) : bool :=
  match o with AReorder _ => true | _ => false end.
Definition a_allowed2 (o : aop) : bool := a_allowed o || is_areorder o.
(** the oracle tape is not loaded by the history *)
Definition a_tape_ok (o : aop) : bool :=
  match o with ATape t => bool_decide (t = []) | _ => true end.

Definition AInvT (a : ast) : Prop := AInv a ∧ tape (mgr a) = [].

(** ** One call: any allowed operation or a reordering that starts with an
    empty tape, any arguments, either outcome *)
Theorem run_aop_AInv2 w o a r a' :
  a_allowed2 o = true → is_anew o = false → AInv a → a_caller_ok a o →
  (is_areorder o = true → tape (mgr a) = []) →
  run_aop w o a = (r, a') → AInv a' ∧ AKeep o a a'.
Proof.
  intros Ha Hn HA Hc Ht H. unfold a_allowed2 in Ha. apply orb_true_iff in Ha as [Ha|Ha].
  - by apply (run_aop_AInv w o a r a').
  - destruct o; try discriminate Ha.
    by apply (run_aop_reorder_notape w order a r a' HA (Ht eq_refl)).
Qed.

Theorem run_aop'_AInv2 w m o a r a' :
  a_allowed2 o = true → is_anew o = false → AInv a → a_caller_ok a o →
  (is_areorder o = true → tape (mgr a) = []) →
  run_aop' w m o a = (r, a') → AInv a' ∧ AKeep o a a'.
Proof.
  intros Ha Hn HA Hc Ht H. destruct (run_aop'_cases w m o) as [E|(hu&->&E)]; rewrite E in H.
  - by apply (run_aop_AInv2 w o a r a').
  - apply AStep_AKeep; [done|]. by apply (asafe_a_copy_same hu a r a').
Qed.

(** ** One step of the driver *)
Theorem astep_AInv2 w m o :
  a_allowed2 o = true → a_tape_ok o = true →
  (is_anew o = false → AInvT (aworld_get w m) ∧ a_caller_ok (aworld_get w m) o) →
  AInvT (aworld_get (fst (astep w m o)) m) ∧
  (is_anew o = false → AKeep o (aworld_get w m) (aworld_get (fst (astep w m o)) m)).
Proof.
  intros Ha Htp Hpre. destruct (astep_spec w m o) as (r&a'&E&_&->).
  set (a := aworld_get w m) in *.
  assert (H : AInv a' ∧ (is_anew o = false → AKeep o a a')).
  { destruct (is_anew o) eqn:Hn.
    - destruct o; try discriminate Hn. unfold a_allowed2 in Ha. cbn [a_allowed is_areorder] in Ha.
      rewrite orb_false_r in Ha. apply bool_decide_eq_true in Ha as [Hn1 Hn2].
      by destruct (new_spec w levels a r a' Hn1 Hn2 E) as (?&_).
    - destruct (Hpre eq_refl) as [[HA Ht] Hc].
      destruct (run_aop'_AInv2 w m o a r a' Ha Hn HA Hc (fun _ => Ht) E) as [? ?]. done. }
  destruct H as [HA' Hk].
  assert (H2 : AInvT (a' <| mgr := (mgr a') <| tape := [] |> |>) ∧
               (is_anew o = false → AKeep o a (a' <| mgr := (mgr a') <| tape := [] |> |>))).
  { split; [split; [by apply AInv_tape|done]|]. intros Hn. by apply AKeep_tape, Hk. }
  destruct o; try exact H2.
  (* [ATape []] *)
  cbn [a_tape_ok] in Htp. apply bool_decide_eq_true in Htp as ->.
  split; [|done]. split; [done|]. revert E. cbn [run_aop' run_aop]. unfold bind, lift. cbn [modify].
  intros [= _ <-]. done.
Qed.

(** ** Histories *)
Fixpoint ahist_ok2 (w : aworld) (m : nat) (ops : list aop) : Prop :=
  match ops with
  | [] => True
  | o :: ops =>
      a_allowed2 o = true ∧ a_tape_ok o = true ∧ a_caller_ok (aworld_get w m) o ∧
      ahist_ok2 (fst (astep w m o)) m ops
  end.

Theorem arun_AInv2 ops : ∀ w m,
  AInvT (aworld_get w m) → ahist_ok2 w m ops → AInvT (aworld_get (arun w m ops) m).
Proof.
  induction ops as [|o ops IH]; intros w m HA Hh; [done|].
  destruct Hh as (Ha&Ht&Hc&Hh). cbn [arun fold_left]. apply IH; [|done].
  apply astep_AInv2; [done|done|]. intros _. by split.
Qed.

Theorem arun_from_new2 levels ops m :
  a_allowed (ANew levels) = true →
  ahist_ok2 (fst (astep aworld_empty m (ANew levels))) m ops →
  AInvT (aworld_get (arun aworld_empty m (ANew levels :: ops)) m).
Proof.
  intros Ha Hh. cbn [arun fold_left]. apply arun_AInv2; [|done].
  apply astep_AInv2; [unfold a_allowed2; by rewrite Ha|done|]. by intros [=].
Qed.

(** a live [Function] that is not dropped keeps its node and its function
    through the whole history: operations, collections, REORDERINGS, and the
    deaths of other handles *)
Theorem arun_keeps2 ops : ∀ w m h u,
  AInvT (aworld_get w m) → ahist_ok2 w m ops →
  Forall (fun o => is_anew o = false ∧ o ≠ ADrop h) ops →
  handles (aworld_get w m) !! h = Some u →
  handles (aworld_get (arun w m ops) m) !! h = Some u ∧
  valid (mgr (aworld_get (arun w m ops) m)) u ∧
  ∀ ρ, denv (mgr (aworld_get (arun w m ops) m)) u ρ = denv (mgr (aworld_get w m)) u ρ.
Proof.
  induction ops as [|o ops IH]; intros w m h u HA Hh Hf Hu.
  { cbn. split; [done|]. split; [|done]. destruct HA as ((_&_&_&Hv&_)&_). by apply (Hv h). }
  destruct Hh as (Ha&Ht&Hc&Hh). apply Forall_cons in Hf as [[Hn Hd] Hf].
  destruct (astep_AInv2 w m o Ha Ht) as [HA1 Hk]; [intros _; by split|].
  destruct (Hk Hn h u Hu) as [(Hu1&_&HD1)|[-> _]]; [|done].
  cbn [arun fold_left].
  destruct (IH (fst (astep w m o)) m h u HA1 Hh Hf Hu1) as (?&?&HD).
  split; [done|]. split; [done|]. intros ρ. by rewrite HD.
Qed.

(** the old histories are histories of the extended alphabet as soon as they
    do not load the tape *)
Lemma ahist_ok_ok2 ops : ∀ w m, ahist_ok w m ops →
  Forall (fun o => a_tape_ok o = true) ops → ahist_ok2 w m ops.
Proof.
  induction ops as [|o ops IH]; intros w m Hh Hf; [done|].
  destruct Hh as (Ha&Hc&Hh). apply Forall_cons in Hf as [Ht Hf].
  split; [unfold a_allowed2; by rewrite Ha|]. split; [done|]. split; [done|]. by apply IH.
Qed.

(** ** Dynamic reordering ENABLED.

    [AInvD]: [AInv] without "requests are off" ([last_len] is arbitrary),
    plus "not inside a reordering context" (true between two calls).  A
    decorated method may now sift in the middle; its operands are handles,
    hence HELD ([heldn (hledger a)]), so [Dynamic]/[Dynamic2] apply with
    [Sift9.sifting_ok'_holds].  Every statement is up to the oracle error
    [EOracle] of the model (no Python counterpart). *)
Definition AInvD (a : ast) : Prop :=
  Inv (mgr a) ∧ rctx (mgr a) = false ∧ Counts (mgr a) (hledger a) ∧
  (∀ h u, handles a !! h = Some u → valid (mgr a) u) ∧
  (∀ h u, handles a !! h = Some u → h < next_hid a).

Lemma AInvD_of_AInv a : AInv a → rctx (mgr a) = false → AInvD a.
Proof. intros (?&_&?&?&?) ?. by split_and!. Qed.
Lemma AInv_of_AInvD a : AInvD a → last_len (mgr a) = None → AInv a.
Proof. intros (?&_&?&?&?) ?. by split_and!. Qed.

(** every live handle survives with its node and its function *)
Definition AKeepAll (a a' : ast) : Prop :=
  ∀ h u, handles a !! h = Some u →
    handles a' !! h = Some u ∧ valid (mgr a') u ∧
    ∀ ρ, denv (mgr a') u ρ = denv (mgr a) u ρ.

(** the conclusion of the [*_dynamic] theorems, for the wrapped manager *)
Definition dyn_post (a : ast) (P : Z → st → Prop) (r0 : res Z) (s' : st) : Prop :=
  r0 = Err EOracle ∨
  ∃ x, r0 = Ok x ∧ Inv s' ∧ Counts s' (hledger a) ∧ rctx s' = false ∧
       (last_len (mgr a) = None → last_len s' = None) ∧
       (is_Some (last_len (mgr a)) → is_Some (last_len s')) ∧
       keeps (heldn (hledger a)) (mgr a) s' ∧ valid s' x ∧ P x s'.

(** the outcome of a decorated method: the oracle error, or a new handle
    [next_hid a] on the result; the invariant holds, every other handle keeps
    its function, the reordering mode is kept *)
Definition dyn_out (a : ast) (P : Z → st → Prop) (r : res nat) (a' : ast) : Prop :=
  r = Err EOracle ∨
  (r = Ok (next_hid a) ∧ AInvD a' ∧ AKeepAll a a' ∧
   (last_len (mgr a) = None → last_len (mgr a') = None) ∧
   (is_Some (last_len (mgr a)) → is_Some (last_len (mgr a'))) ∧
   next_hid a' = S (next_hid a) ∧
   ∃ x, handles a' = <[next_hid a := x]> (handles a) ∧ valid (mgr a') x ∧ P x (mgr a')).

Definition stableP (P : Z → st → Prop) : Prop :=
  ∀ x s1 s2, succ s2 = succ s1 → vars s2 = vars s1 → lvl2var s2 = lvl2var s1 →
    P x s1 → P x s2.
Lemma stable_eq (F : (nat → bool) → bool) :
  stableP (fun x s => ∀ ρ, denv s x ρ = F ρ).
Proof. intros x s1 s2 E1 E2 E3 H ρ. by rewrite (denv_same s1 s2). Qed.
Lemma stable_iff (Q : (nat → bool) → Prop) :
  stableP (fun x s => ∀ ρ, denv s x ρ = true ↔ Q ρ).
Proof. intros x s1 s2 E1 E2 E3 H ρ. by rewrite (denv_same s1 s2). Qed.

Lemma held_handle a h u : handles a !! h = Some u → heldn (hledger a) (absn u).
Proof. intros Hu. right. by apply (hl_pos _ h). Qed.

Lemma lift_wrap_dyn (m : MS Z) P a r a' :
  AInvD a → stableP P → (∀ r0 s', m (mgr a) = (r0, s') → dyn_post a P r0 s') →
  (x <- lift m ;; wrap x) a = (r, a') → dyn_out a P r a'.
Proof.
  intros (HI&Hr&HC&Hv&Hf) HP Hm. unfold bind at 1. unfold lift at 1.
  destruct (m (mgr a)) as [r0 s'] eqn:E.
  destruct (Hm _ _ eq_refl) as [->|(x&->&HI'&HC'&Hr'&Hl1&Hl2&[_ Hk]&Hx&HPx)].
  { intros [= <- <-]. by left. }
  unfold wrap. cbn [bind get]. change (mgr (a <| mgr := s' |>)) with s'.
  rewrite (proj2 (mem_valid _ _) Hx). cbn [ensure bind ret]. unfold bind at 1. unfold lift.
  change (mgr (a <| mgr := s' |>)) with s'. rewrite (incref_ok s' x HI' Hx).
  cbn [bind modify ret]. intros [= <- <-]. right.
  assert (Hk' : ∀ h u, handles a !! h = Some u →
            valid s' u ∧ ∀ ρ, denv s' u ρ = denv (mgr a) u ρ).
  { intros h u Hu. pose proof (Hv h u Hu) as Hu0.
    apply Hk; [apply Hu0|by apply (held_handle a h)|done]. }
  assert (Hfresh : handles a !! next_hid a = None).
  { destruct (handles a !! next_hid a) as [y|] eqn:Ey; [|done]. specialize (Hf _ _ Ey). lia. }
  split; [done|]. split; [|split; [|split; [done|split; [done|split; [done|]]]]].
  - split; [by apply Inv_bump|]. split; [done|]. split.
    { apply (Counts_ext _ (ledger_inc (hl (handles a)) (absn x))).
      + intros n. unfold hledger. cbn. by rewrite hl_insert.
      + by apply Counts_bump. }
    split.
    + intros h u. cbn. intros Hu. apply lookup_insert_Some in Hu as [[_ <-]|[_ Hu]].
      * exact Hx.
      * exact (proj1 (Hk' h u Hu)).
    + intros h u. cbn. intros Hu. apply lookup_insert_Some in Hu as [[<- _]|[_ Hu]]; [lia|].
      specialize (Hf h u Hu). lia.
  - intros h u Hu. destruct (Hk' h u Hu) as [Hu' HD]. cbn. split.
    + rewrite lookup_insert_ne; [done|]. specialize (Hf h u Hu). lia.
    + split; [exact Hu'|]. intros ρ. rewrite <- HD. by apply denv_same.
  - exists x. split; [done|]. split; [exact Hx|]. by apply (HP x s').
Qed.

(** running the prefix of a method: the handles are looked up, and a live
    handle always passes the membership check *)
Lemma node_of_bind {B} h (k : Z → MA B) a :
  (u <- node_of h ;; k u) a =
  match handles a !! h with Some u => k u a | None => (Err EKey, a) end.
Proof.
  pose proof (node_of_run h a) as N. destruct (handles a !! h).
  - by rewrite (bind_ok _ _ _ _ _ N).
  - by rewrite (bind_err _ _ _ _ _ N).
Qed.
Lemma onode_of_bind {B} ho (k : option Z → MA B) a :
  (v <- onode_of ho ;; k v) a =
  match ho with
  | None => k None a
  | Some h => match handles a !! h with Some v => k (Some v) a | None => (Err EKey, a) end
  end.
Proof.
  destruct ho as [h|]; [|done]. unfold onode_of. rewrite Cofactor.bind_assoc, node_of_bind.
  by destruct (handles a !! h).
Qed.
Lemma check_in_bind {B} u (k : MA B) a : valid (mgr a) u → (check_in u ;;; k) a = k a.
Proof.
  intros Hu. unfold check_in, bind, get. by rewrite (proj2 (mem_valid _ _) Hu).
Qed.

(** *** [bdd.var(name)] *)
Theorem a_var_dyn v a r a' :
  AInvD a → max_nodes (mgr a) = None → is_Some (vars (mgr a) !! v) → a_var v a = (r, a') →
  dyn_out a (fun x s' => ∀ ρ, denv s' x ρ = ρ v) r a'.
Proof.
  intros HA Hmx Hd. apply lift_wrap_dyn; [done|apply (stable_eq (fun ρ => ρ v))|].
  intros r0 s' E. destruct HA as (HI&Hr&HC&_).
  exact (var_dynamic _ _ v r0 s' sifting_ok'_holds HI HC Hr Hmx Hd E).
Qed.

(** *** [bdd.ite(g, u, v)]: a dead handle is a [KeyError] before anything *)
Theorem a_ite_dyn hg hu hv a r a' :
  AInvD a → max_nodes (mgr a) = None → a_ite hg hu hv a = (r, a') →
  (r = Err EKey ∧ a' = a ∧
   (handles a !! hg = None ∨ handles a !! hu = None ∨ handles a !! hv = None)) ∨
  ∃ g u v, handles a !! hg = Some g ∧ handles a !! hu = Some u ∧ handles a !! hv = Some v ∧
    dyn_out a (fun x s' => ∀ ρ, denv s' x ρ =
                 if denv (mgr a) g ρ then denv (mgr a) u ρ else denv (mgr a) v ρ) r a'.
Proof.
  intros HA Hmx. pose proof HA as (HI&Hr&HC&Hv&_). unfold a_ite. rewrite node_of_bind.
  destruct (handles a !! hg) as [g|] eqn:Eg; [|intros [= <- <-]; left; auto].
  rewrite check_in_bind by (by apply (Hv hg)). rewrite node_of_bind.
  destruct (handles a !! hu) as [u|] eqn:Eu; [|intros [= <- <-]; left; auto].
  rewrite check_in_bind by (by apply (Hv hu)). rewrite node_of_bind.
  destruct (handles a !! hv) as [v|] eqn:Ev; [|intros [= <- <-]; left; auto].
  rewrite check_in_bind by (by apply (Hv hv)). intros H. right. exists g, u, v.
  split; [done|]. split; [done|]. split; [done|]. revert H.
  apply lift_wrap_dyn; [done|apply (stable_eq (fun ρ => if denv (mgr a) g ρ then _ else _))|].
  intros r0 s' E.
  exact (ite_dynamic _ _ g u v r0 s' sifting_ok'_holds HI HC Hr Hmx (Hv _ _ Eg) (Hv _ _ Eu)
           (Hv _ _ Ev) (held_handle a _ _ Eg) (held_handle a _ _ Eu) (held_handle a _ _ Ev) E).
Qed.

(** *** [bdd.quantify(u, qvars, forall)], [bdd.exist], [bdd.forall] *)
Theorem a_quantify_dyn hu qvars fa a r a' :
  AInvD a → max_nodes (mgr a) = None →
  Forall (fun k => is_Some (vars (mgr a) !! k)) qvars →
  a_quantify hu qvars fa a = (r, a') →
  (r = Err EKey ∧ a' = a ∧ handles a !! hu = None) ∨
  ∃ u, handles a !! hu = Some u ∧
    dyn_out a (fun x s' => ∀ ρ, denv s' x ρ = true ↔
                 qsemv (mgr a) fa (list_to_set qvars) u ρ) r a'.
Proof.
  intros HA Hmx Hq. pose proof HA as (HI&Hr&HC&Hv&_). unfold a_quantify. rewrite node_of_bind.
  destruct (handles a !! hu) as [u|] eqn:Eu; [|intros [= <- <-]; left; auto].
  rewrite check_in_bind by (by apply (Hv hu)). intros H. right. exists u. split; [done|].
  revert H. apply lift_wrap_dyn; [done|apply stable_iff|]. intros r0 s' E.
  exact (quantify_dynamic _ _ u qvars fa r0 s' sifting_ok'_holds HI HC Hr Hmx (Hv _ _ Eu)
           (held_handle a _ _ Eu) Hq E).
Qed.

(** *** [bdd.cube(dvars)] *)
Theorem a_cube_dyn d a r a' :
  AInvD a → max_nodes (mgr a) = None →
  Forall (fun p => is_Some (vars (mgr a) !! p.1)) d →
  a_cube d a = (r, a') →
  dyn_out a (fun x s' => ∀ ρ, denv s' x ρ = true ↔ ∀ v b, (v, b) ∈ d → ρ v = b) r a'.
Proof.
  intros HA Hmx Hd. apply lift_wrap_dyn; [done|apply stable_iff|].
  intros r0 s' E. destruct HA as (HI&Hr&HC&_).
  exact (cube_dynamic _ _ d r0 s' sifting_ok'_holds HI HC Hr Hmx Hd E).
Qed.

(** *** [bdd.apply(op, u, v, w)] and the operators of [Function]
    ([~u], [u & v], ...): a connective of the vocabulary with its arity *)

(** the optional operand handles, looked up *)
Definition olook (a : ast) (ho : option nat) (vo : option Z) : Prop :=
  match ho, vo with
  | None, None => True
  | Some h, Some v => handles a !! h = Some v
  | _, _ => False
  end.

Lemma olook_valid a ho vo : AInvD a → olook a ho vo → ovalid (mgr a) vo ∧ oref (hledger a) vo.
Proof.
  intros (_&_&_&Hv&_). destruct ho as [h|], vo as [v|]; try done. cbn.
  intros Hh. split; [by apply (Hv h)|by apply (held_handle a h)].
Qed.

Lemma arity_ok_None_Some op w : arity_ok op None (Some w) = false.
Proof.
  unfold arity_ok. repeat case_bool_decide; try done; naive_solver.
Qed.

Theorem f_apply_dyn op hu hv a r a' f u v :
  AInvD a → max_nodes (mgr a) = None → handles a !! hu = Some u → olook a hv v →
  op ∈ py_vocab → conn_sem op = Some f → arity_ok op v None = true →
  f_apply op hu hv a = (r, a') →
  dyn_out a (fun x s' => ∀ ρ, denv s' x ρ =
               f (denv (mgr a) u ρ) (odenv (mgr a) v ρ) false) r a'.
Proof.
  intros HA Hmx Eu Ev Hop Hf Har. pose proof HA as (HI&Hr&HC&Hv&_).
  destruct (olook_valid a hv v HA Ev) as [Hvv Hvr].
  unfold f_apply. rewrite node_of_bind, Eu, onode_of_bind.
  assert (Hgo : (r0 <- lift (apply op u v None) ;; wrap r0) a = (r, a') →
    dyn_out a (fun x s' => ∀ ρ, denv s' x ρ =
               f (denv (mgr a) u ρ) (odenv (mgr a) v ρ) false) r a').
  { apply lift_wrap_dyn; [done|apply (stable_eq (fun ρ => f _ _ false))|]. intros r0 s' E.
    exact (apply_dynamic _ _ op u v None r0 s' f sifting_ok'_holds HI HC Hr Hmx Hop Hf
             (Hv _ _ Eu) Hvv I Har (held_handle a _ _ Eu) Hvr I E). }
  destruct hv as [h|], v as [v|]; try done. cbn in Ev. by rewrite Ev.
Qed.

Theorem a_apply_dyn op hu hv hw a r a' f u v w :
  AInvD a → max_nodes (mgr a) = None →
  handles a !! hu = Some u → olook a hv v → olook a hw w →
  op ∈ py_vocab → conn_sem op = Some f → arity_ok op v w = true →
  a_apply op hu hv hw a = (r, a') →
  dyn_out a (fun x s' => ∀ ρ, denv s' x ρ =
               f (denv (mgr a) u ρ) (odenv (mgr a) v ρ) (odenv (mgr a) w ρ)) r a'.
Proof.
  intros HA Hmx Eu Ev Ew Hop Hf Har. pose proof HA as (HI&Hr&HC&Hv&_).
  destruct (olook_valid a hv v HA Ev) as [Hvv Hvr].
  destruct (olook_valid a hw w HA Ew) as [Hwv Hwr].
  assert (Hgo : (r0 <- lift (apply op u v w) ;; wrap r0) a = (r, a') →
    dyn_out a (fun x s' => ∀ ρ, denv s' x ρ =
               f (denv (mgr a) u ρ) (odenv (mgr a) v ρ) (odenv (mgr a) w ρ)) r a').
  { apply lift_wrap_dyn; [done|apply (stable_eq (fun ρ => f _ _ _))|]. intros r0 s' E.
    exact (apply_dynamic _ _ op u v w r0 s' f sifting_ok'_holds HI HC Hr Hmx Hop Hf
             (Hv _ _ Eu) Hvv Hwv Har (held_handle a _ _ Eu) Hvr Hwr E). }
  unfold a_apply. rewrite node_of_bind, Eu. rewrite check_in_bind by (by apply (Hv hu)).
  destruct hv as [h1|], v as [v|]; try done; destruct hw as [h2|], w as [w|]; try done;
    cbn in Ev, Ew, Hvv, Hwv.
  - cbn [bind ret]. rewrite onode_of_bind, Ev. rewrite check_in_bind by done.
    rewrite onode_of_bind, Ew. by rewrite check_in_bind by done.
  - cbn [bind ret]. rewrite onode_of_bind, Ev. rewrite check_in_bind by done.
    rewrite onode_of_bind. done.
  - by rewrite arity_ok_None_Some in Har.
Qed.

(** a call that [apply] rejects (unknown operator, wrong arity) is a
    [ValueError] and nothing changes *)
Theorem f_apply_rejected op hu hv a r a' u v :
  handles a !! hu = Some u → olook a hv v →
  arity_ok op v None = false ∨ find_template apply_table op = None →
  f_apply op hu hv a = (r, a') →
  r = Err EValue ∧ mgr a' = mgr a ∧ handles a' = handles a ∧ next_hid a' = next_hid a.
Proof.
  intros Eu Ev Hrej. unfold f_apply. rewrite node_of_bind, Eu, onode_of_bind.
  assert (Hgo : (r0 <- lift (apply op u v None) ;; wrap r0) a = (r, a') →
    r = Err EValue ∧ mgr a' = mgr a ∧ handles a' = handles a ∧ next_hid a' = next_hid a).
  { unfold bind, lift. rewrite (apply_rejected (mgr a) op u v None) by tauto.
    by intros [= <- <-]. }
  destruct hv as [h|], v as [v|]; try done. cbn in Ev. by rewrite Ev.
Qed.

(** *** [bdd.let(definitions, u)] *)
Definition alet_empty (d : alet_arg) : bool :=
  match d with ALetBool [] | ALetRef [] | ALetName [] => true | _ => false end.
(** the definitions with the handles looked up *)
Definition alet_nodes (a : ast) (d : alet_arg) (d' : let_arg) : Prop :=
  match d, d' with
  | ALetBool l, LetBool l' => l' = l
  | ALetName l, LetName l' => l' = l
  | ALetRef l, LetRef l' =>
      Forall2 (fun p q => q.1 = p.1 ∧ handles a !! p.2 = Some q.2) l l'
  | _, _ => False
  end.
Definition alet_declared (s : st) (d : alet_arg) : Prop :=
  match d with
  | ALetBool l => Forall (fun p => is_Some (vars s !! p.1)) l
  | ALetRef l => Forall (fun p => is_Some (vars s !! p.1)) l
  | ALetName l => ∀ x y, (x, y) ∈ l → is_Some (vars s !! y)
  end.

Lemma ret_bind {S A B} (x : A) (k : A → M S B) s : bind (ret x) k s = k x s.
Proof. done. Qed.

Lemma mapM_nodes a (l : list (nat * nat)) (l' : list (nat * Z)) :
  Forall2 (fun p q => q.1 = p.1 ∧ handles a !! p.2 = Some q.2) l l' →
  mapM (fun '(x, h) => n <- node_of h ;; ret (x, n)) l a = (Ok l', a).
Proof.
  induction 1 as [|[x h] [x' n] l l' [E1 E2] _ IH]; cbn [mapM]; [done|].
  cbn in E1, E2. subst x'. rewrite Cofactor.bind_assoc, node_of_bind, E2.
  by rewrite ret_bind, (bind_ok _ _ _ _ _ IH).
Qed.

Lemma let_ok_nodes a (l : list (nat * nat)) (l' : list (nat * Z)) :
  AInvD a → Forall2 (fun p q => q.1 = p.1 ∧ handles a !! p.2 = Some q.2) l l' →
  Forall (fun p => is_Some (vars (mgr a) !! p.1)) l →
  Forall (fun p => is_Some (vars (mgr a) !! p.1) ∧ valid (mgr a) p.2 ∧
                   heldn (hledger a) (absn p.2)) l'.
Proof.
  intros (_&_&_&Hv&_). induction 1 as [|p q l l' [E1 E2] _ IH]; intros Hd; [done|].
  apply Forall_cons in Hd as [Hp Hd]. apply Forall_cons. split; [|by apply IH].
  rewrite E1. split; [done|]. split; [by apply (Hv p.2)|by apply (held_handle a p.2)].
Qed.

Theorem a_let_dyn d hu a r a' u d' :
  AInvD a → max_nodes (mgr a) = None → handles a !! hu = Some u → alet_empty d = false →
  alet_nodes a d d' → alet_declared (mgr a) d →
  a_let d hu a = (r, a') →
  dyn_out a (fun x s' => ∀ ρ, denv s' x ρ = denv (mgr a) u (let_sem (mgr a) d' ρ)) r a'.
Proof.
  intros HA Hmx Eu Hne Hn Hd. pose proof HA as (HI&Hr&HC&Hv&_).
  assert (Hgo : let_ok (hledger a) (mgr a) d' →
    (r0 <- lift (let_ d' u) ;; wrap r0) a = (r, a') →
    dyn_out a (fun x s' => ∀ ρ, denv s' x ρ = denv (mgr a) u (let_sem (mgr a) d' ρ)) r a').
  { intros Hok. apply lift_wrap_dyn; [done|apply (stable_eq (fun ρ => denv _ _ _))|].
    intros r0 s' E.
    exact (let_dynamic _ _ d' u r0 s' sifting_ok'_holds HI HC Hr Hmx (Hv _ _ Eu)
             (held_handle a _ _ Eu) Hok E). }
  unfold a_let. rewrite node_of_bind, Eu. rewrite check_in_bind by (by apply (Hv hu)).
  destruct d as [[|p l]|[|p l]|[|p l]]; try discriminate Hne;
    destruct d' as [l'|l'|l']; try done; cbn [alet_nodes] in Hn; cbn [alet_declared] in Hd.
  - subst l'. by apply Hgo.
  - rewrite (bind_ok _ _ _ _ _ (mapM_nodes a _ _ Hn)). apply Hgo. cbn [let_ok].
    by apply (let_ok_nodes a (p :: l)).
  - subst l'. by apply Hgo.
Qed.

(** [let({}, u)] returns the very same [Function] *)
Theorem a_let_empty d hu a r a' :
  alet_empty d = true → a_let d hu a = (r, a') →
  a' = a ∧ (r = Ok hu ∨ r = Err EKey ∨ r = Err EValue).
Proof.
  intros He. unfold a_let. rewrite node_of_bind.
  destruct (handles a !! hu) as [u|]; [|intros [= <- <-]; auto].
  unfold check_in, bind, get. destruct (mem u (mgr a)); cbn [ensure ret raise];
    [|intros [= <- <-]; auto].
  destruct d as [[|p l]|[|p l]|[|p l]]; try discriminate He; intros [= <- <-]; auto.
Qed.

(** *** Switching dynamic reordering on and off *)
Lemma AInvD_same a s' : AInvD a → same_tables (mgr a) s' → refc s' = refc (mgr a) →
  rctx s' = false → AInvD (a <| mgr := s' |>) ∧ AKeepAll a (a <| mgr := s' |>).
Proof.
  intros (HI&Hr&HC&Hv&Hf) Hs Hrf Hr'. pose proof Hs as (E1&_&_&_&_&E6&E7).
  assert (Hv' : ∀ h u, handles a !! h = Some u → valid s' u).
  { intros h u Hu. specialize (Hv h u Hu). unfold valid in *. by rewrite E1. }
  split.
  - split; [by apply (Inv_same (mgr a))|]. split; [done|].
    split; [by apply (Counts_same (mgr a))|]. split; [exact Hv'|done].
  - intros h u Hu. split; [done|]. split; [by apply (Hv' h)|]. intros ρ. by apply denv_same.
Qed.

Theorem configure_dyn w b a r a' :
  AInvD a → run_aop w (AConfigure b) a = (r, a') →
  AInvD a' ∧ AKeepAll a a' ∧
  r = Ok (VB (bool_decide (is_Some (last_len (mgr a))))) ∧
  last_len (mgr a') = match b with
                      | None => last_len (mgr a)
                      | Some true => Some (Nat.max REORDER_STARTS (len (mgr a)))
                      | Some false => None
                      end.
Proof.
  intros HA. cbn [run_aop]. unfold bind, lift, configure, get.
  destruct b as [[|]|]; cbn [modify ret]; intros [= <- <-].
  - destruct (AInvD_same a ((mgr a) <| last_len :=
        Some (Nat.max REORDER_STARTS (len (mgr a))) |>) HA) as [? ?];
      [by repeat split|done|apply HA|done].
  - destruct (AInvD_same a ((mgr a) <| last_len := None |>) HA) as [? ?];
      [by repeat split|done|apply HA|done].
  - destruct (AInvD_same a (mgr a) HA) as [? ?]; [by repeat split|done|apply HA|done].
Qed.

Theorem set_last_len_dyn w l a r a' :
  AInvD a → run_aop w (ASetLastLen l) a = (r, a') →
  AInvD a' ∧ AKeepAll a a' ∧ r = Ok VU ∧ last_len (mgr a') = l.
Proof.
  intros HA. cbn [run_aop]. unfold bind, lift. cbn [modify ret]. intros [= <- <-].
  destruct (AInvD_same a ((mgr a) <| last_len := l |>) HA) as [? ?];
    [by repeat split|done|apply HA|]. done.
Qed.

(** ** Dynamic reordering enabled, TOTAL: any arguments, either outcome.

    [Dynamic3.dsafe] gives, for every decorated operation of [dd.bdd] with
    ARBITRARY arguments and an empty oracle tape: the manager stays well
    formed with the same ledger, every held node keeps number and function,
    and neither the reordering signal nor the oracle error reaches the
    caller.  The nodes of the live handles are held, so the wrapper
    invariant and every live [Function] survive. *)
Definition AInvDT (a : ast) : Prop := AInvD a ∧ tape (mgr a) = [].

Definition AStepD (a a' : ast) : Prop :=
  AInvDT a' ∧ AKeepAll a a' ∧ next_hid a ≤ next_hid a'.

Lemma AKeepAll_refl a : AInvD a → AKeepAll a a.
Proof. intros (_&_&_&Hv&_) h u Hu. split; [done|]. split; [by apply (Hv h)|done]. Qed.
Lemma AKeepAll_trans a1 a2 a3 : AKeepAll a1 a2 → AKeepAll a2 a3 → AKeepAll a1 a3.
Proof.
  intros H1 H2 h u Hu. destruct (H1 h u Hu) as (Hu2&_&HD1).
  destruct (H2 h u Hu2) as (?&?&HD2). split; [done|]. split; [done|].
  intros ρ. by rewrite HD2.
Qed.
Lemma AStepD_refl a : AInvDT a → AStepD a a.
Proof. intros HA. split; [done|]. split; [by apply AKeepAll_refl, HA|lia]. Qed.
Lemma AStepD_trans a1 a2 a3 : AStepD a1 a2 → AStepD a2 a3 → AStepD a1 a3.
Proof.
  intros (_&H1&?) (?&H2&?). split; [done|]. split; [by apply (AKeepAll_trans a1 a2)|lia].
Qed.

Definition adsafe {A} (m : MA A) : Prop :=
  ∀ a r a', AInvDT a → m a = (r, a') →
    AStepD a a' ∧ r ≠ Err ENeedsReordering ∧ r ≠ Err EOracle.

Lemma adsafe_ret {A} (x : A) : adsafe (ret x).
Proof. intros a r a' HA [= <- <-]. split; [by apply AStepD_refl|done]. Qed.
Lemma adsafe_raise {A} e : e ≠ ENeedsReordering → e ≠ EOracle → adsafe (raise (A:=A) e).
Proof.
  intros ? ? a r a' HA [= <- <-]. split; [by apply AStepD_refl|]. split; congruence.
Qed.
Lemma adsafe_get : adsafe (get (S:=ast)).
Proof. intros a r a' HA [= <- <-]. split; [by apply AStepD_refl|done]. Qed.
Lemma adsafe_ensure e b : e ≠ ENeedsReordering → e ≠ EOracle → adsafe (ensure (S:=ast) e b).
Proof. intros. destruct b; [apply adsafe_ret|by apply adsafe_raise]. Qed.
Lemma adsafe_of_opt {A} e (o : option A) :
  e ≠ ENeedsReordering → e ≠ EOracle → adsafe (of_opt (S:=ast) e o).
Proof. intros. destruct o; [apply adsafe_ret|by apply adsafe_raise]. Qed.
Lemma adsafe_bind {A B} (m : MA A) (f : A → MA B) :
  adsafe m → (∀ x, adsafe (f x)) → adsafe (bind m f).
Proof.
  intros Hm Hf a r a' HA. unfold bind. destruct (m a) as [[x|e] a1] eqn:E.
  - destruct (Hm _ _ _ HA E) as (H1&_&_). intros H2.
    destruct (Hf x a1 r a' (proj1 H1) H2) as (H3&?&?).
    split; [by apply (AStepD_trans a a1)|done].
  - intros [= <- <-]. destruct (Hm _ _ _ HA E) as (?&H1&H2).
    split; [done|]. split; [intros [= ->]; by apply H1|intros [= ->]; by apply H2].
Qed.
Lemma adsafe_mapM {A B} (f : A → MA B) (l : list A) : (∀ x, adsafe (f x)) → adsafe (mapM f l).
Proof.
  intros Hf. induction l as [|x l IH]; cbn [mapM]; [apply adsafe_ret|].
  apply adsafe_bind; [apply Hf|intros b].
  apply adsafe_bind; [done|intros bs; apply adsafe_ret].
Qed.

Lemma adsafe_lift {A} (m : MS A) : dsafe m → adsafe (lift m).
Proof.
  intros Hm a r a' ((HI&Hr&HC&Hv&Hf)&Ht). unfold lift.
  destruct (m (mgr a)) as [r0 s'] eqn:E. intros [= <- <-].
  destruct (Hm _ (hledger a) _ _ HI HC Hr Ht E) as (HI'&HC'&Hr'&Ht'&_&_&[_ Hk]&Hn1&Hn2).
  assert (Hk' : ∀ h u, handles a !! h = Some u →
            valid s' u ∧ ∀ ρ, denv s' u ρ = denv (mgr a) u ρ).
  { intros h u Hu. pose proof (Hv h u Hu) as Hu0.
    apply Hk; [apply Hu0|by apply (held_handle a h)|done]. }
  split; [|done]. split; [|split; [|done]].
  - split; [|done]. split; [done|]. split; [done|]. split; [done|]. split; [|done].
    intros h u Hu. by apply (Hk' h).
  - intros h u Hu. split; [done|]. by apply (Hk' h).
Qed.

(** a computation on the manager that only touches the harness fields *)
Lemma adsafe_lift_tables {A} (m : MS A) :
  (∀ s r s', m s = (r, s') →
     same_tables s s' ∧ refc s' = refc s ∧ rctx s' = rctx s ∧ tape s' = tape s ∧
     r ≠ Err ENeedsReordering ∧ r ≠ Err EOracle) →
  adsafe (lift m).
Proof.
  intros Hm a r a' (HA&Ht). unfold lift. destruct (m (mgr a)) as [r0 s'] eqn:E.
  intros [= <- <-]. destruct (Hm _ _ _ E) as (Hs&Hrf&Hrc&Htp&?&?).
  destruct (AInvD_same a s' HA Hs Hrf) as [? ?]; [rewrite Hrc; apply HA|].
  split; [|done]. split; [split; [done|cbn; congruence]|]. split; [done|cbn; lia].
Qed.

Lemma adsafe_wrap u : adsafe (wrap u).
Proof.
  intros a r a' HA. pose proof HA as ((HI&Hr&HC&Hv&Hf)&Ht). unfold wrap. cbn [bind get].
  destruct (mem u (mgr a)) eqn:Hm; cbn [ensure bind ret raise]; cycle 1.
  { intros [= <- <-]. split; [by apply AStepD_refl|done]. }
  apply mem_valid in Hm. unfold bind at 1. unfold lift.
  rewrite (incref_ok (mgr a) u HI Hm). cbn [bind modify ret]. intros [= <- <-].
  assert (Hfresh : handles a !! next_hid a = None).
  { destruct (handles a !! next_hid a) as [x|] eqn:E; [|done]. specialize (Hf _ _ E). lia. }
  split; [|done]. split; [|split; [|cbn; lia]].
  - split; [|done]. split; [by apply Inv_bump|]. split; [done|]. split.
    { apply (Counts_ext _ (ledger_inc (hl (handles a)) (absn u))).
      + intros n. unfold hledger. cbn. by rewrite hl_insert.
      + by apply Counts_bump. }
    split.
    + intros h x. cbn. intros Hx. apply lookup_insert_Some in Hx as [[_ <-]|[_ Hx]].
      * exact Hm.
      * exact (Hv h x Hx).
    + intros h x. cbn. intros Hx. apply lookup_insert_Some in Hx as [[<- _]|[_ Hx]]; [lia|].
      specialize (Hf h x Hx). lia.
  - intros h x Hx. cbn. split.
    + rewrite lookup_insert_ne; [done|]. specialize (Hf h x Hx). lia.
    + split; [exact (Hv h x Hx)|]. intros ρ. by apply denv_same.
Qed.

Lemma adsafe_node_of h : adsafe (node_of h).
Proof.
  unfold node_of. apply adsafe_bind; [apply adsafe_get|intros a; by apply adsafe_of_opt].
Qed.
Lemma adsafe_check_in u : adsafe (check_in u).
Proof.
  unfold check_in. apply adsafe_bind; [apply adsafe_get|intros a; by apply adsafe_ensure].
Qed.
Lemma adsafe_onode_of h : adsafe (onode_of h).
Proof.
  unfold onode_of. destruct h as [h|]; [|apply adsafe_ret].
  apply adsafe_bind; [apply adsafe_node_of|intros u; apply adsafe_ret].
Qed.

Ltac adsafe_step :=
  lazymatch goal with
  | |- adsafe (ret _) => apply adsafe_ret
  | |- adsafe (raise _) => apply adsafe_raise; discriminate
  | |- adsafe get => apply adsafe_get
  | |- adsafe (ensure _ _) => apply adsafe_ensure; discriminate
  | |- adsafe (of_opt _ _) => apply adsafe_of_opt; discriminate
  | |- adsafe (node_of _) => apply adsafe_node_of
  | |- adsafe (onode_of _) => apply adsafe_onode_of
  | |- adsafe (check_in _) => apply adsafe_check_in
  | |- adsafe (wrap _) => apply adsafe_wrap
  | |- adsafe (bind _ _) => apply adsafe_bind; [|intros ?]
  | |- adsafe (mapM _ _) => apply adsafe_mapM; intros ?
  | |- adsafe (if ?b then _ else _) => destruct b
  | |- adsafe (match ?x with _ => _ end) => destruct x
  | |- adsafe (let '(_, _) := ?x in _) => destruct x
  end.
Ltac adsafe := repeat first [assumption | adsafe_step].
Ltac adlift := apply adsafe_lift;
  first [ apply dsafe_var | apply dsafe_apply | apply dsafe_ite | apply dsafe_let
        | apply dsafe_quantify | apply dsafe_cube
        | apply dsafe_quiet; first [ apply quiet_support | apply quiet_getsuccZ
                                   | apply quiet_var_at_level | apply quiet_ref ] ].

Lemma adsafe_a_var v : adsafe (a_var v).
Proof. unfold a_var. adsafe. adlift. Qed.
Lemma adsafe_a_apply op hu hv hw : adsafe (a_apply op hu hv hw).
Proof. unfold a_apply. adsafe; adlift. Qed.
Lemma adsafe_a_ite hg hu hv : adsafe (a_ite hg hu hv).
Proof. unfold a_ite. adsafe. adlift. Qed.
Lemma adsafe_a_let d hu : adsafe (a_let d hu).
Proof. unfold a_let. adsafe; adlift. Qed.
Lemma adsafe_a_quantify hu q fa : adsafe (a_quantify hu q fa).
Proof. unfold a_quantify. adsafe. adlift. Qed.
Lemma adsafe_a_cube d : adsafe (a_cube d).
Proof. unfold a_cube. adsafe. adlift. Qed.
Lemma adsafe_a_support hu : adsafe (a_support hu).
Proof. unfold a_support. adsafe. adlift. Qed.
Lemma adsafe_f_apply op hu hv : adsafe (f_apply op hu hv).
Proof. unfold f_apply. adsafe. adlift. Qed.
Lemma adsafe_f_eq hu hv : adsafe (f_eq hu hv).
Proof. unfold f_eq. adsafe. Qed.
Lemma adsafe_f_child hi hu : adsafe (f_child hi hu).
Proof. unfold f_child. adsafe. adlift. Qed.
Lemma adsafe_a_succ hu : adsafe (a_succ hu).
Proof. unfold a_succ. adsafe. adlift. Qed.
Lemma adsafe_f_level hu : adsafe (f_level hu).
Proof. unfold f_level. adsafe. adlift. Qed.
Lemma adsafe_f_var hu : adsafe (f_var hu).
Proof. unfold f_var. adsafe; adlift. Qed.
Lemma adsafe_f_ref hu : adsafe (f_ref hu).
Proof. unfold f_ref. adsafe. adlift. Qed.
Lemma adsafe_f_negated hu : adsafe (f_negated hu).
Proof. unfold f_negated. adsafe. Qed.

(** [collect_garbage()], [declare], [configure], the harness setters *)
Lemma adsafe_gc : adsafe (lift (collect_garbage None)).
Proof.
  intros a r a' ((HI&Hr&HC&Hv&Hf)&Ht). unfold lift.
  destruct (collect_garbage None (mgr a)) as [r0 s'] eqn:E. intros [= <- <-].
  destruct (collect_garbage_total None _ _ r0 s' HI HC E)
    as (HI'&HC'&_&El&(_&Erc&_&Etp&_)&_&[(->&_)|(_&_&Hno)]); [|by destruct Hno].
  assert (Hk' : ∀ h u, handles a !! h = Some u →
            valid s' u ∧ ∀ ρ, denv s' u ρ = denv (mgr a) u ρ).
  { intros h u Hu. destruct (Hv h u Hu) as [Hu0 Hus].
    destruct (gc_preserves_den None _ _ _ s' u HI HC I E Hu0) as (?&_&HD).
    { right. apply reach_root; [by apply (hl_pos _ h)|by apply elem_of_dom]. }
    split; [done|]. intros ρ. unfold denv. rewrite El. apply HD. }
  split; [|done]. split; [|split; [|done]].
  - split; [|cbn; congruence]. split; [done|]. split; [cbn; congruence|]. split; [done|].
    split; [|done]. intros h u Hu. by apply (Hk' h).
  - intros h u Hu. split; [done|]. by apply (Hk' h).
Qed.

Lemma adsafe_declare vs : adsafe (lift (declare vs)).
Proof.
  intros a r a' ((HI&Hr&HC&Hv&Hf)&Ht). unfold lift.
  destruct (declare vs (mgr a)) as [r0 s'] eqn:E. intros [= <- <-].
  destruct (declare_total _ _ _ _ HI E) as (->&HI'&(_&Erc&_&Etp&_)&HC'&Hk).
  split; [|done]. split; [|split; [|done]].
  - split; [|cbn; congruence]. split; [done|]. split; [cbn; congruence|].
    split; [by apply HC'|]. split; [|done]. intros h u Hu. by apply Hk, (Hv h).
  - intros h u Hu. destruct (Hk u (Hv h u Hu)) as (?&_&?). done.
Qed.

Lemma adsafe_configure b : adsafe (lift (configure b)).
Proof.
  apply adsafe_lift_tables. intros s r s'. unfold configure, bind, get.
  destruct b as [[|]|]; cbn [modify ret]; intros [= <- <-]; by repeat split.
Qed.
Lemma adsafe_set_last_len l : adsafe (lift (modify (fun s => s <| last_len := l |>))).
Proof. apply adsafe_lift_tables. intros s r s' [= <- <-]. by repeat split. Qed.
Lemma adsafe_set_trig k : adsafe (lift (modify (fun s => s <| trig := k |>))).
Proof. apply adsafe_lift_tables. intros s r s' [= <- <-]. by repeat split. Qed.
(** [bdd._bdd.max_nodes = n] *)
Lemma adsafe_set_max_nodes n : adsafe (lift (modify (fun s => s <| max_nodes := n |>))).
Proof. apply adsafe_lift_tables. intros s r s' [= <- <-]. by repeat split. Qed.

(** [Function.__del__] *)
Lemma drop_specD h a r a' : AInvDT a → Autoref.drop h a = (r, a') →
  (∃ u, handles a !! h = Some u ∧ r = Ok tt ∧ AInvDT a' ∧ extends (mgr a) (mgr a') ∧
        handles a' = delete h (handles a) ∧ next_hid a' = next_hid a) ∨
  (handles a !! h = None ∧ r = Err EKey ∧ a' = a).
Proof.
  intros ((HI&Hr&HC&Hv&Hf)&Ht). unfold Autoref.drop. cbn [bind get].
  destruct (handles a !! h) as [u|] eqn:Eu; cycle 1.
  { intros [= <- <-]. by right. }
  cbn [bind modify]. unfold lift.
  change (mgr (a <| handles ::= delete h |>)) with (mgr a).
  destruct (decref u (mgr a)) as [r0 s'] eqn:E. intros [= <- <-].
  pose proof (Hv h u Eu) as Hu.
  destruct (decref_total _ _ _ _ HI E) as (HI'&He&(_&Erc&_&Etp&_)&Hok&_).
  destruct (Hok Hu) as [-> HC']. left. exists u.
  split; [done|]. split; [done|]. split; [|done].
  split; [|cbn; congruence]. split; [done|]. split; [cbn; congruence|]. split.
  - apply (Counts_ext _ (ledger_dec (hl (handles a)) (absn u))).
    + intros n. unfold hledger. cbn. by rewrite (hl_delete _ h u).
    + apply HC'; [done|]. by apply (hl_pos _ h).
  - split.
    + intros h' x. cbn. intros Hx. apply lookup_delete_Some in Hx as [_ Hx].
      apply (valid_extends (mgr a)); [done|by apply (Hv h')].
    + intros h' x. cbn. intros Hx. apply lookup_delete_Some in Hx as [_ Hx].
      by apply (Hf h' x).
Qed.

(** the alphabet with dynamic reordering possibly enabled: the decorated
    methods, the operators and the read-only views of [Function], [drop],
    [collect_garbage], [declare], [configure] with ANY argument, the setters
    of the threshold and of the forced trigger, the assignment of the node
    limit [max_nodes] (any value) *)
Definition a_allowedD (o : aop) : bool :=
  match o with
  | ADeclare _ | AVar _ | ATrue | AFalse | AApply _ _ _ _ | AIte _ _ _ | ALet _ _
  | AQuantify _ _ _ | ACube _ | ASupport _ | AFApply _ _ _ | AEq _ _ | ANe _ _
  | AChild _ _ | ASucc _ | ALevel _ | AVarOf _ | ARef _ | ANegated _ | AInt _
  | ADrop _ | AGc | AConfigure _ | ASetLastLen _ | ASetTrig _ | ASetMaxNodes _ => true
  | _ => false
  end.

Lemma run_aop_adsafe w o : a_allowedD o = true → (∀ h, o ≠ ADrop h) → adsafe (run_aop w o).
Proof.
  intros Ho Hd. destruct o; try discriminate Ho; cbn [run_aop];
    try (apply adsafe_bind;
         [first [ apply adsafe_declare | apply adsafe_a_var | apply adsafe_wrap
                | apply adsafe_a_apply | apply adsafe_a_ite | apply adsafe_a_let
                | apply adsafe_a_quantify | apply adsafe_a_cube | apply adsafe_a_support
                | apply adsafe_f_apply | apply adsafe_f_eq | apply adsafe_f_child
                | apply adsafe_a_succ | apply adsafe_f_level | apply adsafe_f_var
                | apply adsafe_f_ref | apply adsafe_f_negated | apply adsafe_node_of
                | apply adsafe_gc | apply adsafe_configure | apply adsafe_set_last_len
                | apply adsafe_set_trig | apply adsafe_set_max_nodes ]
         |intros ?; adsafe]).
  by destruct (Hd hu).
Qed.

(** MAIN THEOREM, dynamic reordering possibly ENABLED: any allowed call, any
    arguments, either outcome *)
Theorem run_aop_AInvD w o a r a' :
  a_allowedD o = true → AInvDT a → run_aop w o a = (r, a') →
  AInvDT a' ∧ AKeep o a a' ∧ r ≠ Err ENeedsReordering ∧ r ≠ Err EOracle.
Proof.
  intros Ho HA H.
  assert (Hgen : (∀ h, o ≠ ADrop h) →
    AInvDT a' ∧ AKeep o a a' ∧ r ≠ Err ENeedsReordering ∧ r ≠ Err EOracle).
  { intros Hd. destruct (run_aop_adsafe w o Ho Hd a r a' HA H) as ((?&Hk&_)&?&?).
    split; [done|]. split; [|done]. intros h u Hu. left. by apply Hk. }
  destruct o; try (apply Hgen; by intros ?). clear Hgen.
  cbn [run_aop] in H. apply bind_ret_st in H as (r0&H&->).
  destruct (drop_specD hu a r0 a' HA H) as [(u&Eu&->&HA'&He&Hh&_)|(_&->&->)].
  - split; [done|]. split; [|done]. intros h x Hx. destruct (decide (h = hu)) as [->|Hne].
    + right. split; [done|]. rewrite Hh. apply lookup_delete.
    + left. rewrite Hh, lookup_delete_ne by done. split; [done|].
      destruct HA as ((HI&_&_&Hv&_)&_). specialize (Hv h x Hx).
      split; [by apply (valid_extends (mgr a))|]. intros ρ. by apply denv_grow.
  - split; [done|]. split; [|done]. intros h x Hx. left.
    by apply (AKeepAll_refl a (proj1 HA)).
Qed.

(** histories with dynamic reordering: [astep] empties the tape *)
Theorem astep_AInvD w m o :
  a_allowedD o = true → AInvDT (aworld_get w m) →
  AInvDT (aworld_get (fst (astep w m o)) m) ∧
  AKeep o (aworld_get w m) (aworld_get (fst (astep w m o)) m) ∧
  snd (astep w m o) ≠ Err ENeedsReordering ∧ snd (astep w m o) ≠ Err EOracle.
Proof.
  intros Ha HA. destruct (astep_spec w m o) as (r&a'&E&->&->).
  set (a := aworld_get w m) in *.
  rewrite run_aop'_not_copy in E by (intros src hu ->; discriminate Ha).
  destruct (run_aop_AInvD w o a r a' Ha HA E) as ((HA'&Ht')&Hk&?&?).
  assert (H2 : AInvDT (a' <| mgr := (mgr a') <| tape := [] |> |>) ∧
               AKeep o a (a' <| mgr := (mgr a') <| tape := [] |> |>)).
  { split; [|by apply AKeep_tape].
    destruct (AInvD_same a' ((mgr a') <| tape := [] |>) HA') as [? _];
      [by repeat split|done|apply HA'|]. by split. }
  destruct o; try discriminate Ha; by destruct H2.
Qed.

Definition ahist_okD (ops : list aop) : Prop := Forall (fun o => a_allowedD o = true) ops.

Theorem arun_AInvD ops : ∀ w m,
  AInvDT (aworld_get w m) → ahist_okD ops → AInvDT (aworld_get (arun w m ops) m).
Proof.
  induction ops as [|o ops IH]; intros w m HA Hh; [done|].
  apply Forall_cons in Hh as [Ha Hh]. cbn [arun fold_left]. apply IH; [|done].
  by apply astep_AInvD.
Qed.

(** a live [Function] that is not dropped keeps its node and its function
    while dynamic reordering sifts in the middle of the operations *)
Theorem arun_keepsD ops : ∀ w m h u,
  AInvDT (aworld_get w m) → ahist_okD ops → Forall (fun o => o ≠ ADrop h) ops →
  handles (aworld_get w m) !! h = Some u →
  handles (aworld_get (arun w m ops) m) !! h = Some u ∧
  valid (mgr (aworld_get (arun w m ops) m)) u ∧
  ∀ ρ, denv (mgr (aworld_get (arun w m ops) m)) u ρ = denv (mgr (aworld_get w m)) u ρ.
Proof.
  induction ops as [|o ops IH]; intros w m h u HA Hh Hf Hu.
  { cbn. split; [done|]. split; [|done]. destruct HA as ((_&_&_&Hv&_)&_). by apply (Hv h). }
  apply Forall_cons in Hh as [Ha Hh]. apply Forall_cons in Hf as [Hd Hf].
  destruct (astep_AInvD w m o Ha HA) as (HA1&Hk&_).
  destruct (Hk h u Hu) as [(Hu1&_&HD1)|[-> _]]; [|done].
  cbn [arun fold_left].
  destruct (IH (fst (astep w m o)) m h u HA1 Hh Hf Hu1) as (?&?&HD).
  split; [done|]. split; [done|]. intros ρ. by rewrite HD.
Qed.

(** entering the dynamic mode from a state of the static histories *)
Lemma AInvDT_of_AInvT a : AInvT a → rctx (mgr a) = false → AInvDT a.
Proof. intros [HA Ht] Hr. split; [by apply AInvD_of_AInv|done]. Qed.
