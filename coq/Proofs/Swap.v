(** * Swap: correctness of the adjacent-level swap (property C07) *)
From DD Require Export SwapI.

(** levels of the nodes after the last loop, relative to the original manager *)
Lemma lvl_class s0 x s6 n t : Mid s0 x s6 ∅ → succ s6 !! n = Some t →
  (succ s0 !! n = None ∧ t_lvl t = x + 1) ∨
  (∃ t0, succ s0 !! n = Some t0 ∧
     ((t_lvl t0 = x + 1 ∧ t_lvl t = x) ∨
      (t_lvl t0 = x ∧ (t_lvl t = x ∨ t_lvl t = x + 1)) ∨
      (t_lvl t0 ≠ x ∧ t_lvl t0 ≠ x + 1 ∧ t = t0))).
Proof.
  intros HM Hn. destruct (succ s0 !! n) as [t0|] eqn:H0.
  - right. exists t0. split; [done|].
    destruct (m_old _ _ _ _ HM n t0 H0 ltac:(set_solver)) as (t'&Ht'&Himg).
    rewrite Hn in Ht'. injection Ht' as <-. unfold mid_img in Himg.
    case_decide as E1; [left; by subst|]. right.
    case_decide as E2; [left|right; by subst].
    split; [done|]. case_decide; [right; by subst|left].
    by destruct Himg as (p&q&->&_).
  - left. split; [done|]. by apply (m_new _ _ _ _ HM n).
Qed.


(** ** the pre-check of [swap]: the count of the x-nodes that depend on [x + 1] *)
Definition isdepb (s : st) (x : nat) (n : positive) : bool :=
  match succ s !! n with
  | Some t => bool_decide (t_lvl t = x ∧ ¬ indepS s (x + 1) (t_lo t) (t_hi t))
  | None => false
  end.
Lemma isdepb_spec s x n : isdepb s x n = true ↔ isdep s x n.
Proof.
  unfold isdepb, isdep. destruct (succ s !! n) as [t|]; split.
  - intros H%bool_decide_eq_true. exists t. by split.
  - intros (t'&[= <-]&?&?). by apply bool_decide_eq_true.
  - done.
  - by intros (?&?&_).
Qed.

Lemma child_level_ok s v : valid s v → child_level v s = (Ok (lvl_of s v), s).
Proof.
  intros [Hv [t Ht]]. unfold child_level. rewrite decide_False by done.
  unfold bind, getsucc, lvl_of. by rewrite Ht.
Qed.

Lemma dep_count_body s x u k : Inv s → (∃ t, succ s !! u = Some t ∧ t_lvl t = x) → x < nvars s →
  (t <- getsucc u ;;
   iv <- child_level (t_lo t) ;;
   if decide (iv = x + 1) then ret (S k) else
   iw <- child_level (t_hi t) ;;
   if decide (iw = x + 1) then ret (S k) else ret k) s
  = (Ok (if isdepb s x u then S k else k), s).
Proof.
  intros HI (t&Ht&Hl) Hx.
  assert (Hu1 : u ≠ 1%positive).
  { intros ->. rewrite (inv_term _ HI) in Ht. injection Ht as <-. cbn in Hl. lia. }
  destruct (inv_node _ HI _ _ Ht Hu1) as (_&Hvl&_&Hvh&Hll&Hlh&_).
  unfold isdepb. rewrite Ht.
  assert (Hg : getsucc u s = (Ok t, s)) by (unfold getsucc; by rewrite Ht).
  rewrite (bind_ok _ _ _ _ _ Hg).
  rewrite (bind_ok _ _ _ _ _ (child_level_ok s _ Hvl)).
  unfold indepS. case_decide as E1.
  { rewrite bool_decide_eq_true_2; [done|]. split; [done|]. lia. }
  rewrite (bind_ok _ _ _ _ _ (child_level_ok s _ Hvh)).
  case_decide as E2.
  { rewrite bool_decide_eq_true_2; [done|]. split; [done|]. lia. }
  rewrite bool_decide_eq_false_2; [done|]. intros [_ Hn]. apply Hn. lia.
Qed.

Lemma dep_count_ok s x (Sx : gset positive) : Inv s → x < nvars s →
  (∀ n, n ∈ Sx ↔ ∃ t, succ s !! n = Some t ∧ t_lvl t = x) →
  ∃ k, dep_count (x + 1) Sx s = (Ok k, s) ∧
       ∀ T : gset positive, (∀ n, n ∈ T ↔ isdep s x n) → size T = k.
Proof.
  intros HI Hx HSx.
  assert (Hfold : ∀ (l : list positive) k0, NoDup l → (∀ n, n ∈ l → n ∈ Sx) →
    foldM (fun (k : nat) u =>
      t <- getsucc u ;;
      iv <- child_level (t_lo t) ;;
      if decide (iv = x + 1) then ret (S k) else
      iw <- child_level (t_hi t) ;;
      if decide (iw = x + 1) then ret (S k) else ret k) k0 l s
    = (Ok (k0 + length (filter (fun n => isdepb s x n = true) l)), s)).
  { induction l as [|u l IH]; intros k0 Hnd Hl.
    - cbn. by rewrite Nat.add_0_r.
    - apply NoDup_cons in Hnd as [Hu Hnd]. cbn [foldM].
      rewrite (bind_ok _ _ _ _ _ (dep_count_body s x u k0 HI
                 (proj1 (HSx u) (Hl u ltac:(left))) Hx)).
      rewrite IH; [|done|intros n Hn; apply Hl; by right].
      rewrite filter_cons. destruct (isdepb s x u) eqn:E.
      + rewrite decide_True by done. cbn [length]. do 2 f_equal. lia.
      + rewrite decide_False by done. done. }
  eexists. split.
  - unfold dep_count. apply Hfold; [apply NoDup_elements|]. intros n. by rewrite elem_of_elements.
  - intros T HT. cbn.
    assert (T = list_to_set (filter (fun n => isdepb s x n = true) (elements Sx))) as ->.
    { apply stdpp.sets.set_eq. intros n. rewrite HT, elem_of_list_to_set, elem_of_list_filter,
        elem_of_elements, isdepb_spec. split; [|tauto].
      intros Hd. split; [done|]. apply HSx. destruct Hd as (t&?&?&_). eauto. }
    rewrite size_list_to_set; [done|]. apply NoDup_filter, NoDup_elements.
Qed.

Lemma swap_fits_room s k : swap_fits (max_nodes s) (len s) k = true → room s (2 * k).
Proof.
  unfold swap_fits, room, len. destruct (max_nodes s); [|done].
  intros H%bool_decide_eq_true. lia.
Qed.
Lemma swap_fits_false s k : swap_fits (max_nodes s) (len s) k = false → is_Some (max_nodes s).
Proof. unfold swap_fits. destruct (max_nodes s); [eauto|done]. Qed.


Theorem swap_correct s x al L r s' :
  Inv s → Counts s L → last_len s = None →
  x + 1 < nvars s →
  levels_ok s al →
  swap x (x + 1) (Some al) s = (r, s') →
  r = Err EOracle ∨
  (r = Err ERuntime ∧ s' = s ∧ is_Some (max_nodes s)) ∨
  ∃ oldn newn al', r = Ok ((oldn, newn), al') ∧
    Inv s' ∧ Counts s' L ∧ levels_ok s' al' ∧ oldn = len s ∧ newn = len s' ∧
    (∀ v l, vars s !! v = Some l →
       vars s' !! v = Some (if decide (l = x) then x + 1
                            else if decide (l = x + 1) then x else l)) ∧
    (∀ u, valid s u → valid s' u → ∀ ρ, denv s' u ρ = denv s u ρ) ∧
    (∀ n, n = 1%positive ∨ 0 < L n → n ∈ dom (succ s')) ∧
    (∀ n t, succ s !! n = Some t → t_lvl t ≠ x + 1 → n ∈ dom (succ s')) ∧
    last_len s' = None.
Proof.
  intros HI HC Hll Hy Hal. unfold swap.
  rewrite (bind_ok _ _ s al s) by done. cbn [bind get].
  unfold ensure. rewrite !bool_decide_eq_true_2 by lia. cbn [bind ret].
  rewrite decide_False by lia.
  rewrite !bool_decide_eq_true_2 by lia. cbn [bind ret].
  destruct (Hal x ltac:(lia)) as (Sx&HSx&HSxs).
  destruct (Hal (x + 1) Hy) as (Sy&HSy&HSys).
  rewrite HSx. cbn [of_opt]. rewrite (bind_ok _ _ s Sx s) by done.
  (* the pre-check *)
  destruct (dep_count_ok s x Sx HI ltac:(lia) HSxs) as (k&Hdc&Hk).
  rewrite (bind_ok _ _ _ _ _ Hdc).
  destruct (swap_fits (max_nodes s) (len s) k) eqn:Hfit; cbn [ensure]; cycle 1.
  { cbn [bind raise]. intros [= <- <-]. right. left. split_and!; try done.
    by apply (swap_fits_false s k). }
  rewrite (bind_ok _ _ s tt s) by done.
  assert (Hroom : dep_room s x).
  { intros T HT. rewrite (Hk T HT). by apply swap_fits_room. }
  (* first oracle *)
  destruct (pop_order Sx s) as [ro sA] eqn:Epo.
  destruct (pop_order_spec Sx s ro sA Epo) as (EsA&EpA&HkA&Hro).
  destruct Hro as [->|(ox&->&Hndx&Hoxs)].
  { rewrite (bind_err _ _ _ _ _ Epo). intros [= <- <-]. by left. }
  rewrite (bind_ok _ _ _ _ _ Epo).
  assert (Hox : ∀ n, n ∈ ox ↔ ∃ t, succ s !! n = Some t ∧ t_lvl t = x).
  { intros n. by rewrite Hoxs, HSxs. }
  destruct (collect_x s HI x ox Hndx Hox sA EsA EpA HkA) as (sB&HrB&EsB&HkB&HpB).
  rewrite (bind_ok _ _ _ _ _ HrB).
  rewrite HSy. cbn [of_opt]. rewrite (bind_ok _ _ sB Sy sB) by done.
  (* second oracle *)
  destruct (pop_order Sy sB) as [ro sC] eqn:Epo2.
  destruct (pop_order_spec Sy sB ro sC Epo2) as (EsC&EpC&HkC&Hro).
  destruct Hro as [->|(oy&->&Hndy&Hoys)].
  { rewrite (bind_err _ _ _ _ _ Epo2). intros [= <- <-]. by left. }
  rewrite (bind_ok _ _ _ _ _ Epo2).
  assert (Hoy : ∀ n, n ∈ oy ↔ ∃ t, succ s !! n = Some t ∧ t_lvl t = x + 1).
  { intros n. by rewrite Hoys, HSys. }
  destruct (swap_loops s HI x Hy L HC Hll ox oy Hndx Hndy Hox Hoy sC)
    as (sD&sE&sF&dn&s6&G&XF&HrD&HrE&HrF&Hr6&HD).
  { done. }
  { congruence. }
  { by etrans. }
  { intros t n. rewrite EpC. apply HpB. }
  rewrite (bind_ok _ _ _ _ _ HrD), (bind_ok _ _ _ _ _ HrE), (bind_ok _ _ _ _ _ HrF),
    (bind_ok _ _ _ _ _ Hr6).
  pose proof (di_mid _ _ _ _ _ _ _ HD) as HM.
  (* exchange of the variables *)
  destruct (proj1 (inv_lvls _ HI x) ltac:(lia)) as [vx Hvx].
  destruct (proj1 (inv_lvls _ HI (x + 1)) Hy) as [vy Hvy].
  assert (Hvl : var_at_level x s6 = (Ok vx, s6)).
  { unfold var_at_level. cbn [bind get]. by rewrite (m_l2v _ _ _ _ HM), Hvx. }
  rewrite (bind_ok _ _ _ _ _ Hvl). cbn [bind modify].
  assert (Hvl2 : var_at_level (x + 1) (s6 <| vars ::= <[vx := x + 1]> |>)
                 = (Ok vy, s6 <| vars ::= <[vx := x + 1]> |>)).
  { unfold var_at_level. cbn [bind get]. cbn [lvl2var set]. by rewrite (m_l2v _ _ _ _ HM), Hvy. }
  rewrite (bind_ok _ _ _ _ _ Hvl2). cbn [bind modify].
  fold (swap_vars s6 x vx vy).
  (* the rooted collection *)
  destruct (collect_garbage (Some (Z.pos <$> elements G)) (swap_vars s6 x vx vy))
    as [rg s8] eqn:Egc.
  destruct (swap_gc s HI x Hy L s6 G XF HD vx vy Hvx Hvy rg s8 Egc)
    as (->&HI8&HC8&Hsub&Hv8&Hl8&Hll8&Honly&Hreach).
  rewrite (bind_ok _ _ _ _ _ Egc). cbn [bind get].
  assert (Hnv8 : nvars s8 = nvars s).
  { unfold nvars at 1. rewrite Hv8. apply (swap_vars_nvars s HI x Hy vx vy Hvx Hvy), HM. }
  assert (H86 : ∀ n t, succ s8 !! n = Some t → succ s6 !! n = Some t).
  { intros n t Hn. by apply (lookup_weaken _ _ _ _ Hn Hsub). }
  assert (Hsurv : ∀ n t, succ s6 !! n = Some t →
            (∀ t0, succ s !! n = Some t0 → t_lvl t0 ≠ x + 1) → succ s8 !! n = Some t).
  { intros n t Hn Hlv.
    assert (n ∈ dom (succ s8)) as Hd.
    { apply Honly; [apply elem_of_dom; eauto|]. intros [_ (t0&H0&Hl0)]. by apply (Hlv t0). }
    apply elem_of_dom in Hd as [t' Ht']. pose proof (H86 n t' Ht') as E.
    rewrite Hn in E. by injection E as ->. }
  (* the new level sets *)
  destruct (fold_newxy (succ s8) x (x + 1) s8 ox (∅, ∅)) as (NX1&NY1&Hf1&HNX1&HNY1); [|lia|].
  { intros u t Hu Ht. apply H86 in Ht. apply Hox in Hu as (t0&H0&Hl0).
    destruct (lvl_class s x s6 u t HM Ht) as [[E _]|(t0'&H0'&Hc)]; [congruence|].
    rewrite H0 in H0'. injection H0' as <-. destruct Hc as [[? ?]|[[_ ?]|(?&_)]]; try lia. }
  rewrite (bind_ok _ _ _ _ _ Hf1).
  destruct (fold_xfresh (succ s8) (x + 1) s8 (elements XF) NX1) as (NX&Hf2&HNX).
  { intros u Hu. apply elem_of_elements in Hu.
    destruct (di_XF _ _ _ _ _ _ _ HD u Hu) as [(t&Ht&Hl) _]. exists t. split; [|done].
    apply Hsurv; [done|]. intros t0 H0 Hl0.
    destruct (lvl_class s x s6 u t HM Ht) as [[E _]|(t0'&H0'&Hc)]; [congruence|].
    rewrite H0 in H0'. injection H0' as <-. destruct Hc as [[? ?]|[[? ?]|(?&?&?)]]; lia. }
  rewrite (bind_ok _ _ _ _ _ Hf2).
  destruct (fold_newy (succ s8) x s8 oy NY1) as (NY&Hf3&HNY).
  { intros u t Hu Ht. apply H86 in Ht. apply Hoy in Hu as (t0&H0&Hl0).
    destruct (lvl_class s x s6 u t HM Ht) as [[E _]|(t0'&H0'&Hc)]; [congruence|].
    rewrite H0 in H0'. injection H0' as <-. destruct Hc as [[? ?]|[[? ?]|(?&?&?)]]; lia. }
  rewrite (bind_ok _ _ _ _ _ Hf3).
  intros [= <- <-]. right. right. eexists _, _, _. split; [reflexivity|].
  split; [done|]. split; [done|]. split; [|split; [done|split; [done|]]].
  { (* levels_ok *)
    intros l Hl. rewrite Hnv8 in Hl. unfold levels_t in *.
    destruct (decide (l = x + 1)) as [->|Hl1].
    { exists NX. split; [apply lookup_insert|]. intros n.
      rewrite HNX, HNX1, elem_of_elements. cbn [fst]. split.
      - intros [[Hn|(Hn&Ht)]|Hn]; [by apply elem_of_empty in Hn|done|].
        destruct (di_XF _ _ _ _ _ _ _ HD n Hn) as [(t&Ht&Hlt) _]. exists t. split; [|done].
        apply Hsurv; [done|]. intros t0 H0 Hl0.
        destruct (lvl_class s x s6 n t HM Ht) as [[E _]|(t0'&H0'&Hc)]; [congruence|].
        rewrite H0 in H0'. injection H0' as <-. destruct Hc as [[? ?]|[[? ?]|(?&?&?)]]; lia.
      - intros (t&Ht&Hlt). pose proof (H86 n t Ht) as Ht6.
        destruct (lvl_class s x s6 n t HM Ht6) as [[E _]|(t0&H0&Hc)].
        + right. apply (di_new _ _ _ _ _ _ _ HD n E). eauto.
        + left. right. split; [|eauto]. apply Hox. exists t0. split; [done|].
          destruct Hc as [[? ?]|[[? ?]|(?&?&?)]]; try lia. subst. lia. }
    destruct (decide (l = x)) as [->|Hl2].
    { exists NY. split; [rewrite lookup_insert_ne by lia; apply lookup_insert|].
      intros n. rewrite HNY, HNY1. cbn [snd]. split.
      - intros [[Hn|(Hn&Ht)]|(Hn&[t Ht])]; [by apply elem_of_empty in Hn|done|].
        exists t. split; [done|]. pose proof (H86 n t Ht) as Ht6.
        apply Hoy in Hn as (t0&H0&Hl0).
        destruct (lvl_class s x s6 n t HM Ht6) as [[E _]|(t0'&H0'&Hc)]; [congruence|].
        rewrite H0 in H0'. injection H0' as <-. destruct Hc as [[? ?]|[[? ?]|(?&?&?)]]; lia.
      - intros (t&Ht&Hlt). pose proof (H86 n t Ht) as Ht6.
        destruct (lvl_class s x s6 n t HM Ht6) as [[_ E]|(t0&H0&Hc)]; [lia|].
        destruct Hc as [[? ?]|[[? ?]|(?&?&?)]].
        + right. split; [|eauto]. apply Hoy. eauto.
        + left. right. split; [|eauto]. apply Hox. eauto.
        + subst. lia. }
    destruct (Hal l Hl) as (X&HX&HXs). exists X.
    rewrite !lookup_insert_ne by lia. split; [done|]. intros n. rewrite HXs. split.
    - intros (t0&H0&Hl0). exists t0. split; [|done]. apply Hsurv; [|intros; congruence].
      destruct (m_old _ _ _ _ HM n t0 H0 ltac:(set_solver)) as (t&Ht&Himg).
      unfold mid_img in Himg. rewrite !decide_False in Himg by lia. by subst.
    - intros (t&Ht&Hlt). pose proof (H86 n t Ht) as Ht6.
      destruct (lvl_class s x s6 n t HM Ht6) as [[_ E]|(t0&H0&Hc)]; [lia|].
      destruct Hc as [[? ?]|[[? ?]|(?&?&->)]]; try lia. eauto. }
  split_and!.
  - intros v l Hv. rewrite Hv8.
    by rewrite (swap_vars_vars s HI x Hy vx vy Hvx Hvy s6 v l (m_vars _ _ _ _ HM) Hv).
  - intros u Hu Hu8 ρ. unfold denv.
    rewrite (D_shrink (swap_vars s6 x vx vy) s8 u _ Hsub Hv8 Hl8 HI8 Hu8).
    rewrite (swap_sem s HI x Hy vx vy Hvx Hvy s6 HM u Hu).
    apply (D_indep s HI u); [done|]. intros j _. cbv beta.
    rewrite Hl8, (swap_vars_l2v s x vx vy Hvx Hvy s6 (tr x j) (m_l2v _ _ _ _ HM)).
    by rewrite (tr_tr s x Hy).
  - intros n [->|HL]; [apply Hreach; by left|].
    apply Hreach. right. apply reach_root; [done|].
    apply elem_of_dom. apply (Mid_dom s x s6 ∅ n HM).
    destruct HC as [_ HC2]. destruct (decide (n ∈ dom (succ s))) as [Hd|Hd].
    + by apply elem_of_dom.
    + rewrite (HC2 n Hd) in HL. lia.
  - intros n t Hn Hlt.
    destruct (m_old _ _ _ _ HM n t Hn ltac:(set_solver)) as (t'&Ht'&_).
    apply elem_of_dom. exists t'. apply Hsurv; [done|]. intros t0 H0. congruence.
  - rewrite Hll8. apply HM.
Qed.
