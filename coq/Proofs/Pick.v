(** * Pick: [_sat_iter] enumerates the paths to TRUE, [pick_iter] completes
      them over the care variables, [pick] takes the first (C10, third part). *)
From DD Require Export SatCount.

(** ** Ordered pairs of a list *)
Lemma FOP_app {A} (R : A → A → Prop) l1 l2 :
  ForallOrdPairs R l1 → ForallOrdPairs R l2 →
  (∀ x y, x ∈ l1 → y ∈ l2 → R x y) → ForallOrdPairs R (l1 ++ l2).
Proof.
  induction 1 as [|a l Ha _ IH]; intros H2 Hx; cbn [app]; [done|].
  constructor.
  - apply Forall_app. split; [done|]. apply Forall_forall. intros y Hy.
    apply Hx; [left|done].
  - apply IH; [done|]. intros x y Hx' Hy. apply Hx; [by right|done].
Qed.
Lemma FOP_impl_elem {A} (R R' : A → A → Prop) l :
  (∀ x y, x ∈ l → y ∈ l → R x y → R' x y) →
  ForallOrdPairs R l → ForallOrdPairs R' l.
Proof.
  intros H. induction 1 as [|a l Ha _ IH]; constructor.
  - apply Forall_forall. intros y Hy. apply H; [left|by right|].
    by apply (proj1 (Forall_forall _ _) Ha).
  - apply IH. intros x y Hx Hy. apply H; by right.
Qed.
Lemma FOP_fmap {A B} (f : A → B) (R : B → B → Prop) l :
  ForallOrdPairs (fun x y => R (f x) (f y)) l → ForallOrdPairs R (f <$> l).
Proof.
  induction 1 as [|a l Ha _ IH]; csimpl; constructor; [|done].
  by apply Forall_fmap.
Qed.
Lemma FOP_lookup {A} (R : A → A → Prop) l : ForallOrdPairs R l →
  ∀ i j x y, i < j → l !! i = Some x → l !! j = Some y → R x y.
Proof.
  induction 1 as [|a l Ha _ IH]; intros i j x y Hij Hi Hj; [done|].
  destruct j as [|j]; [lia|]. cbn in Hj. destruct i as [|i]; cbn in Hi.
  - injection Hi as ->. apply (proj1 (Forall_forall _ _) Ha).
    by eapply elem_of_list_lookup_2.
  - apply (IH i j); [lia|done..].
Qed.
Lemma elem_of_concat {A} (x : A) ls : x ∈ concat ls ↔ ∃ l, l ∈ ls ∧ x ∈ l.
Proof.
  induction ls as [|l ls IH]; cbn [concat].
  - split; [by intros ?%elem_of_nil|by intros (?&?%elem_of_nil&_)].
  - rewrite elem_of_app, IH. split.
    + intros [?|(l'&?&?)]; [exists l; split; [left|done]|exists l'; split; [by right|done]].
    + intros (l'&[->|?]%elem_of_cons&?); [by left|right; by exists l'].
Qed.
Lemma FOP_concat {A B} (R : B → B → Prop) (g : A → list B) l :
  (∀ x, x ∈ l → ForallOrdPairs R (g x)) →
  ForallOrdPairs (fun x y => ∀ a b, a ∈ g x → b ∈ g y → R a b) l →
  ForallOrdPairs R (concat (g <$> l)).
Proof.
  intros Hin. induction 1 as [|x l Hx _ IH]; csimpl; [constructor|].
  apply FOP_app.
  - apply Hin. left.
  - apply IH. intros y Hy. apply Hin. by right.
  - intros a b Ha (l'&(y&->&Hy)%elem_of_list_fmap&Hb)%elem_of_concat.
    by apply (proj1 (Forall_forall _ _) Hx y Hy).
Qed.

(** ** The paths of a diagram to the terminal on which the value is [v] *)
Definition vflip (u : Z) (v : bool) : bool :=
  if decide (u < 0)%Z then negb v else v.

Fixpoint paths (fuel : nat) (s : st) (u : Z) (v : bool) : list (list (nat * bool)) :=
  match fuel with
  | O => []
  | S f =>
      if decide (absn u = 1%positive) then (if vflip u v then [[]] else [])
      else match succ s !! absn u with
           | None => []
           | Some t =>
               (cons (t_lvl t, false) <$> paths f s (t_lo t) (vflip u v)) ++
               (cons (t_lvl t, true) <$> paths f s (t_hi t) (vflip u v))
           end
  end.

(** a cube keyed by levels read by names *)
Definition namec (s : st) (c : list (nat * bool)) : list (nat * bool) :=
  (fun '(i, b) => (nm s i, b)) <$> c.

Lemma lvl2var_nm s i : Inv s → i < nvars s → lvl2var s !! i = Some (nm s i).
Proof.
  intros HI Hi. apply (inv_lvls _ HI) in Hi as [w Hw]. unfold nm. by rewrite Hw.
Qed.

Lemma sat_iter_spec s fuel : Inv s → ∀ u cube v r s',
  valid s u → nvars s - lvl_of s u < fuel →
  (∀ i b, (i, b) ∈ cube → i < nvars s) →
  sat_iter fuel u cube v s = (r, s') →
  s' = s ∧ r = Ok ((fun p => namec s (cube ++ p)) <$> paths fuel s u v).
Proof.
  intros HI. induction fuel as [|fu IH]; intros u cube v r s' Hu Hfuel Hc; [lia|].
  cbn [sat_iter paths]. rewrite decide_False by apply Hu. fold (vflip u v).
  destruct (decide (absn u = 1%positive)) as [E1|Hn1].
  { destruct (vflip u v); [|by intros [= <- <-]].
    match goal with |- context [mapM ?F cube] =>
      assert (Hm : mapM F cube s = (Ok (namec s cube), s)) end.
    { apply mapM_pure. intros [i b] Hib. rewrite bind_get.
      by rewrite (lvl2var_nm s i HI (Hc i b Hib)). }
    rewrite (bind_ok _ _ _ _ _ Hm). intros [= <- <-]. split; [done|].
    csimpl. by rewrite app_nil_r. }
  destruct (node_cases s HI u Hu)
    as [[E _]|(t&Ht&_&Hlo&Hlu&Hln&Hvl&Hvh&Hhp&Hll&Hlh&Hne)]; [done|].
  rewrite Ht.
  assert (Egs : getsucc (absn u) s = (Ok t, s)) by (unfold getsucc; by rewrite Ht).
  rewrite (bind_ok _ _ _ _ _ Egs).
  assert (Hnt' : negb (is_term t) = true)
    by (unfold is_term; by rewrite bool_decide_eq_false_2).
  rewrite (bind_ok _ _ s tt s (assert_true _ _ Hnt')).
  assert (Hc' : ∀ x i b, (i, b) ∈ cube ++ [(t_lvl t, x)] → i < nvars s).
  { intros x i b [?|[= -> ->]%elem_of_list_singleton]%elem_of_app; [by eapply Hc|done]. }
  destruct (sat_iter fu (t_lo t) (cube ++ [(t_lvl t, false)]) (vflip u v) s)
    as [r1 s1] eqn:E1. pose proof E1 as E1'.
  apply IH in E1' as [-> ->]; [|done|lia|by apply Hc'].
  rewrite (bind_ok _ _ _ _ _ E1).
  destruct (sat_iter fu (t_hi t) (cube ++ [(t_lvl t, true)]) (vflip u v) s)
    as [r2 s2] eqn:E2. pose proof E2 as E2'.
  apply IH in E2' as [-> ->]; [|done|lia|by apply Hc'].
  rewrite (bind_ok _ _ _ _ _ E2).
  intros [= <- <-]. split; [done|]. f_equal.
  rewrite fmap_app, <- !list_fmap_compose.
  f_equal; apply list_fmap_ext; intros j p _; cbn; by rewrite <- app_assoc.
Qed.

Section paths.
Context (s : st) (HI : Inv s).

Definition consistent (a : nat → bool) (p : list (nat * bool)) : Prop :=
  ∀ i b, (i, b) ∈ p → a i = b.
Definition incomp (p q : list (nat * bool)) : Prop :=
  ∃ i b, (i, b) ∈ p ∧ (i, negb b) ∈ q.

Lemma vflip_term u v a : valid s u → absn u = 1%positive →
  D s u a = v ↔ vflip u v = true.
Proof.
  intros Hu E. rewrite (D_term s HI) by done. unfold vflip.
  case_decide; [rewrite bool_decide_eq_true_2 by done|rewrite bool_decide_eq_false_2 by done];
    destruct v; cbn; split; intros; congruence.
Qed.

Lemma vflip_node u v a t : valid s u → succ s !! absn u = Some t →
  absn u ≠ 1%positive →
  D s u a = v ↔ (if a (t_lvl t) then D s (t_hi t) a else D s (t_lo t) a) = vflip u v.
Proof.
  intros Hu Ht Hn. rewrite (D_step s HI u a t) by done. unfold vflip.
  case_decide; [rewrite bool_decide_eq_true_2 by done|rewrite bool_decide_eq_false_2 by done];
    destruct (if a (t_lvl t) then _ else _), v; cbn; split; intros; congruence.
Qed.

Lemma incomp_cons c p q : incomp p q → incomp (c :: p) (c :: q).
Proof. intros (i&b&?&?). exists i, b. split; by right. Qed.

Lemma paths_spec fuel : ∀ u v, valid s u → nvars s - lvl_of s u < fuel →
  (∀ p, p ∈ paths fuel s u v →
     (∀ i b, (i, b) ∈ p → occurs s u i) ∧ NoDup (p.*1) ∧
     ∀ a, consistent a p → D s u a = v) ∧
  (∀ a, D s u a = v → ∃ p, p ∈ paths fuel s u v ∧ consistent a p) ∧
  ForallOrdPairs incomp (paths fuel s u v).
Proof.
  induction fuel as [|fu IH]; intros u v Hu Hfuel; [lia|].
  cbn [paths].
  destruct (decide (absn u = 1%positive)) as [E1|Hn1].
  { pose proof (fun a => vflip_term u v a Hu E1) as Hv.
    destruct (vflip u v); split_and!.
    - intros p ->%elem_of_list_singleton. split_and!.
      + by intros i b ?%elem_of_nil.
      + constructor.
      + intros a _. by apply Hv.
    - intros a _. exists []. split; [by apply elem_of_list_singleton|].
      by intros i b ?%elem_of_nil.
    - repeat constructor.
    - by intros p ?%elem_of_nil.
    - intros a Ha%Hv. done.
    - constructor. }
  destruct (node_cases s HI u Hu)
    as [[E _]|(t&Ht&_&Hlo&Hlu&Hln&Hvl&Hvh&Hhp&Hll&Hlh&Hne)]; [done|].
  rewrite Ht.
  destruct (IH (t_lo t) (vflip u v) Hvl ltac:(lia)) as (Hs0&Hc0&Hd0).
  destruct (IH (t_hi t) (vflip u v) Hvh ltac:(lia)) as (Hs1&Hc1&Hd1).
  pose proof (fun a => vflip_node u v a t Hu Ht Hn1) as Hv.
  split_and!.
  - intros p [(q&->&Hq)%elem_of_list_fmap|(q&->&Hq)%elem_of_list_fmap]%elem_of_app.
    + destruct (Hs0 q Hq) as (Ho&Hnd&Hsd). split_and!.
      * intros i b [[= -> ->]|Hin]%elem_of_cons;
          [by apply (occ_here s u t)|apply (occ_lo s u t); eauto].
      * rewrite fmap_cons. apply NoDup_cons. split; [|done].
        intros ([i b]&Hy1&Hy)%elem_of_list_fmap. cbn in Hy1. subst i.
        apply Ho, (occurs_ge s HI _ _ Hvl) in Hy. lia.
      * intros a Ha. apply Hv. rewrite (Ha (t_lvl t) false) by left.
        apply Hsd. intros i b Hin. apply Ha. by right.
    + destruct (Hs1 q Hq) as (Ho&Hnd&Hsd). split_and!.
      * intros i b [[= -> ->]|Hin]%elem_of_cons;
          [by apply (occ_here s u t)|apply (occ_hi s u t); eauto].
      * rewrite fmap_cons. apply NoDup_cons. split; [|done].
        intros ([i b]&Hy1&Hy)%elem_of_list_fmap. cbn in Hy1. subst i.
        apply Ho, (occurs_ge s HI _ _ Hvh) in Hy. lia.
      * intros a Ha. apply Hv. rewrite (Ha (t_lvl t) true) by left.
        apply Hsd. intros i b Hin. apply Ha. by right.
  - intros a Ha%Hv. destruct (a (t_lvl t)) eqn:Ea.
    + destruct (Hc1 a Ha) as (q&Hq&Hcq). exists ((t_lvl t, true) :: q). split.
      * apply elem_of_app. right. by apply elem_of_list_fmap_1.
      * intros i b [[= -> ->]|Hin]%elem_of_cons; [done|by apply Hcq].
    + destruct (Hc0 a Ha) as (q&Hq&Hcq). exists ((t_lvl t, false) :: q). split.
      * apply elem_of_app. left. by apply elem_of_list_fmap_1.
      * intros i b [[= -> ->]|Hin]%elem_of_cons; [done|by apply Hcq].
  - apply FOP_app.
    + apply FOP_fmap. eapply FOP_impl_elem; [|exact Hd0].
      intros x y _ _. apply incomp_cons.
    + apply FOP_fmap. eapply FOP_impl_elem; [|exact Hd1].
      intros x y _ _. apply incomp_cons.
    + intros x y (q&->&_)%elem_of_list_fmap (q'&->&_)%elem_of_list_fmap.
      exists (t_lvl t), false. split; left.
Qed.

End paths.

(** ** [_enumerate_minterms] *)
Lemma bitvectors_spec n : ∀ vals, vals ∈ bitvectors n ↔ length vals = n.
Proof.
  induction n as [|n IH]; intros vals; cbn [bitvectors].
  - rewrite elem_of_list_singleton. split; [by intros ->|by intros ?%nil_length_inv].
  - rewrite elem_of_app, !elem_of_list_fmap. split.
    + intros [(l&->&Hl%IH)|(l&->&Hl%IH)]; cbn; lia.
    + destruct vals as [|[] l]; [done|..]; intros [= Hl]; [right|left];
        exists l; (split; [done|by apply IH]).
Qed.
Lemma bitvectors_length n : length (bitvectors n) = 2 ^ n.
Proof.
  induction n as [|n IH]; cbn [bitvectors]; [done|].
  rewrite app_length, !fmap_length, IH. cbn. lia.
Qed.
Definition differ (v1 v2 : list bool) : Prop :=
  ∃ j b, v1 !! j = Some b ∧ v2 !! j = Some (negb b).
Lemma bitvectors_FOP n : ForallOrdPairs differ (bitvectors n).
Proof.
  induction n as [|n IH]; cbn [bitvectors]; [repeat constructor|].
  assert (Hc : ∀ c x y, differ x y → differ (c :: x) (c :: y)).
  { intros c x y (j&b&?&?). by exists (S j), b. }
  apply FOP_app.
  - apply FOP_fmap. eapply FOP_impl_elem; [|exact IH]. intros x y _ _. apply Hc.
  - apply FOP_fmap. eapply FOP_impl_elem; [|exact IH]. intros x y _ _. apply Hc.
  - intros x y (q&->&_)%elem_of_list_fmap (q'&->&_)%elem_of_list_fmap.
    by exists 0, false.
Qed.

Definition free (c : list (nat * bool)) (care : gset nat) : list nat :=
  elements (care ∖ list_to_set (c.*1)).
Definition mk (c : list (nat * bool)) (care : gset nat) (vals : list bool)
  : gmap nat bool := list_to_map (reverse (zip (free c care) vals ++ c)).

Lemma enumerate_minterms_eq c care :
  enumerate_minterms c care = mk c care <$> bitvectors (length (free c care)).
Proof. done. Qed.

Lemma elem_of_free c care k : k ∈ free c care ↔ k ∈ care ∧ k ∉ c.*1.
Proof.
  unfold free. by rewrite elem_of_elements, elem_of_difference, elem_of_list_to_set.
Qed.

Lemma mk_lookup c care vals k b :
  NoDup (c.*1) → length vals = length (free c care) →
  mk c care vals !! k = Some b ↔ (k, b) ∈ zip (free c care) vals ∨ (k, b) ∈ c.
Proof.
  intros Hnd Hlen. unfold mk. rewrite <- elem_of_list_to_map.
  - by rewrite elem_of_reverse, elem_of_app.
  - rewrite fmap_reverse, reverse_Permutation, fmap_app, fst_zip by lia.
    apply NoDup_app. split_and!; [apply NoDup_elements| |done].
    by intros x [_ ?]%elem_of_free.
Qed.

Lemma zip_lookup_elem (l : list nat) (vals : list bool) k b :
  (k, b) ∈ zip l vals ↔ ∃ j, l !! j = Some k ∧ vals !! j = Some b.
Proof.
  rewrite elem_of_lookup_zip_with. split.
  - intros (j&x&y&[= -> ->]&?&?). by exists j.
  - intros (j&?&?). by exists j, k, b.
Qed.

(** ** [pick_iter] *)
Section pick.
Context (s : st) (HI : Inv s) (u : Z) (Hu : valid s u) (C : gset nat).

Definition level_asg (ρ : nat → bool) : nat → bool :=
  fun l => match lvl2var s !! l with Some v => ρ v | None => false end.
Definition agrees (ρ : nat → bool) (m : gmap nat bool) : Prop :=
  ∀ k b, m !! k = Some b → ρ k = b.
Definition incm (m1 m2 : gmap nat bool) : Prop :=
  ∃ k b, m1 !! k = Some b ∧ m2 !! k = Some (negb b).

Let P := paths (S (S (nvars s))) s u true.
Let G (p : list (nat * bool)) := enumerate_minterms (namec s p) C.
Let ms := concat (G <$> P).

Lemma P_spec :
  (∀ p, p ∈ P →
     (∀ i b, (i, b) ∈ p → occurs s u i) ∧ NoDup (p.*1) ∧
     ∀ a, consistent a p → D s u a = true) ∧
  (∀ a, D s u a = true → ∃ p, p ∈ P ∧ consistent a p) ∧
  ForallOrdPairs incomp P.
Proof. apply (paths_spec s HI); [done|lia]. Qed.

Lemma nm_inj i j : i < nvars s → j < nvars s → nm s i = nm s j → i = j.
Proof.
  intros Hi Hj E. pose proof (vars_nm s i HI Hi) as E1.
  pose proof (vars_nm s j HI Hj) as E2. rewrite E in E1. congruence.
Qed.

Lemma elem_of_namec p k b : (k, b) ∈ namec s p ↔ ∃ i, k = nm s i ∧ (i, b) ∈ p.
Proof.
  unfold namec. rewrite elem_of_list_fmap. split.
  - intros ([i b']&[= -> ->]&?). by exists i.
  - intros (i&->&?). by exists (i, b).
Qed.

Lemma namec_NoDup p : p ∈ P → NoDup ((namec s p).*1).
Proof.
  intros Hp. destruct (proj1 P_spec p Hp) as (Ho&Hnd&_).
  unfold namec. rewrite <- list_fmap_compose.
  assert (E : (fst ∘ (fun '(i, b) => (nm s i, b))) <$> p = nm s <$> p.*1).
  { rewrite <- list_fmap_compose. apply list_fmap_ext. by intros j [i b] _. }
  rewrite E. apply NoDup_fmap_2_strong; [|done].
  intros i j ([i' b]&->&Hi)%elem_of_list_fmap ([j' b']&->&Hj)%elem_of_list_fmap.
  apply nm_inj; cbn; [by apply (occurs_lt s u _ HI), (Ho _ b)|
                      by apply (occurs_lt s u _ HI), (Ho _ b')].
Qed.

Lemma elem_of_ms m : m ∈ ms ↔ ∃ p vals, p ∈ P ∧
  length vals = length (free (namec s p) C) ∧ m = mk (namec s p) C vals.
Proof.
  subst ms. rewrite elem_of_concat. split.
  - intros (l&(p&->&Hp)%elem_of_list_fmap&Hm). subst G. cbv beta in Hm.
    rewrite enumerate_minterms_eq in Hm.
    apply elem_of_list_fmap in Hm as (vals&->&Hv%bitvectors_spec).
    by exists p, vals.
  - intros (p&vals&Hp&Hlen&->). exists (G p). split; [by apply elem_of_list_fmap_1|].
    subst G. cbv beta. rewrite enumerate_minterms_eq.
    apply elem_of_list_fmap_1. by apply bitvectors_spec.
Qed.

(** every care variable is mentioned; nothing but care variables and
    variables on the path is *)
Lemma ms_dom m : m ∈ ms →
  (∀ k, k ∈ C → is_Some (m !! k)) ∧
  (∀ k, is_Some (m !! k) → k ∈ C ∨ ∃ l, vars s !! k = Some l ∧ occurs s u l).
Proof.
  intros (p&vals&Hp&Hlen&->)%elem_of_ms.
  pose proof (namec_NoDup p Hp) as Hnd. split.
  - intros k Hk. destruct (decide (k ∈ (namec s p).*1)) as [Hin|Hnin].
    + apply elem_of_list_fmap in Hin as ([k' b]&->&Hin). exists b.
      apply mk_lookup; [done..|]. by right.
    + assert (Hf : k ∈ free (namec s p) C) by (by apply elem_of_free).
      apply elem_of_list_lookup_1 in Hf as [j Hj].
      destruct (lookup_lt_is_Some_2 vals j) as [b Hb].
      { rewrite Hlen. by eapply lookup_lt_Some. }
      exists b. apply mk_lookup; [done..|]. left. apply zip_lookup_elem. by exists j.
  - intros k [b Hb]. apply mk_lookup in Hb as [Hb|Hb]; [| |done..].
    + left. apply elem_of_zip_l in Hb. by apply elem_of_free in Hb as [? _].
    + right. apply elem_of_namec in Hb as (i&->&Hi).
      destruct (proj1 P_spec p Hp) as (Ho&_&_). exists i.
      split; [|by eapply Ho]. apply vars_nm; [done|].
      by apply (occurs_lt s u _ HI), (Ho _ b).
Qed.

(** each assignment forces [u] *)
Lemma ms_sound m ρ : m ∈ ms → agrees ρ m → denv s u ρ = true.
Proof.
  intros (p&vals&Hp&Hlen&->)%elem_of_ms Hag.
  destruct (proj1 P_spec p Hp) as (Ho&_&Hsd). apply Hsd.
  intros i b Hib. rewrite (lvl2var_nm s i HI) by (by apply (occurs_lt s u _ HI), (Ho _ b)).
  apply Hag. apply mk_lookup; [by apply namec_NoDup|done|].
  right. apply elem_of_namec. by exists i.
Qed.

(** the assignments cover the models *)
Lemma ms_complete ρ : denv s u ρ = true → ∃ m, m ∈ ms ∧ agrees ρ m.
Proof.
  intros Hd. destruct (proj1 (proj2 P_spec) _ Hd) as (p&Hp&Hcp).
  destruct (proj1 P_spec p Hp) as (Ho&_&_).
  set (vals := ρ <$> free (namec s p) C).
  assert (Hlen : length vals = length (free (namec s p) C)) by apply fmap_length.
  exists (mk (namec s p) C vals). split; [apply elem_of_ms; by exists p, vals|].
  intros k b [Hb|Hb]%mk_lookup; [| |by apply namec_NoDup|done].
  - apply zip_lookup_elem in Hb as (j&Hj&Hv). subst vals.
    rewrite list_lookup_fmap, Hj in Hv. by injection Hv.
  - apply elem_of_namec in Hb as (i&->&Hi). specialize (Hcp i b Hi). cbv beta in Hcp.
    by rewrite (lvl2var_nm s i HI) in Hcp by (by apply (occurs_lt s u _ HI), (Ho _ b)).
Qed.

(** the assignments never overlap *)
Lemma ms_FOP : ForallOrdPairs incm ms.
Proof.
  subst ms. apply FOP_concat.
  - intros p Hp. subst G. cbv beta. rewrite enumerate_minterms_eq.
    apply FOP_fmap. eapply FOP_impl_elem; [|apply bitvectors_FOP].
    intros v1 v2 Hv1%bitvectors_spec Hv2%bitvectors_spec (j&b&H1&H2).
    destruct (lookup_lt_is_Some_2 (free (namec s p) C) j) as [k Hk].
    { rewrite <- Hv1. by eapply lookup_lt_Some. }
    exists k, b. split; (apply mk_lookup; [by apply namec_NoDup|done|]); left;
      apply zip_lookup_elem; by exists j.
  - eapply FOP_impl_elem; [|exact (proj2 (proj2 P_spec))].
    intros p q Hp Hq (i&b&Hi&Hi') m1 m2 Hm1 Hm2.
    subst G. cbv beta in Hm1, Hm2. rewrite enumerate_minterms_eq in Hm1, Hm2.
    apply elem_of_list_fmap in Hm1 as (v1&->&Hv1%bitvectors_spec).
    apply elem_of_list_fmap in Hm2 as (v2&->&Hv2%bitvectors_spec).
    exists (nm s i), b. split; (apply mk_lookup; [by apply namec_NoDup|done|]); right;
      apply elem_of_namec; by exists i.
Qed.

Lemma incm_sym m1 m2 : incm m1 m2 → incm m2 m1.
Proof. intros (k&b&?&?). exists k, (negb b). by rewrite negb_involutive. Qed.

Lemma ms_disjoint i j m1 m2 : i ≠ j → ms !! i = Some m1 → ms !! j = Some m2 → incm m1 m2.
Proof.
  intros Hij H1 H2. destruct (decide (i < j)).
  - by apply (FOP_lookup incm ms ms_FOP i j).
  - apply incm_sym. apply (FOP_lookup incm ms ms_FOP j i); [lia|done..].
Qed.

(** no assignment exactly for the constant false *)
Lemma ms_nil : ms = [] ↔ u = (-1)%Z.
Proof.
  split.
  - intros Hnil. destruct (decide (u = (-1)%Z)) as [|Hne]; [done|]. exfalso.
    destruct (distinct_witness s HI u (-1) Hu (valid_m1 s HI) Hne) as [a Ha].
    rewrite (D_m1 s HI) in Ha. apply not_false_is_true in Ha.
    destruct (proj1 (proj2 P_spec) _ Ha) as (p&Hp&_).
    assert (Hm : mk (namec s p) C (replicate (length (free (namec s p) C)) false) ∈ ms).
    { apply elem_of_ms. eexists p, _. split_and!; [done| |done]. apply replicate_length. }
    rewrite Hnil in Hm. by apply elem_of_nil in Hm.
  - intros ->. done.
Qed.

End pick.

Theorem pick_iter_spec s u care sup r s' : Inv s → valid s u →
  support u s = (Ok sup, s) →
  pick_iter u care s = (r, s') →
  s' = s ∧ ∃ ms, r = Ok ms ∧
    let C : gset nat := match care with None => sup | Some l => list_to_set l end in
    (∀ m, m ∈ ms →
       (∀ k, k ∈ C → is_Some (m !! k)) ∧
       (∀ k, is_Some (m !! k) → k ∈ C ∨ k ∈ sup) ∧
       (∀ ρ, (∀ k b, m !! k = Some b → ρ k = b) → denv s u ρ = true)) ∧
    (∀ i j m1 m2, i ≠ j → ms !! i = Some m1 → ms !! j = Some m2 →
       ∃ k b, m1 !! k = Some b ∧ m2 !! k = Some (negb b)) ∧
    (∀ ρ, denv s u ρ = true →
       ∃ m, m ∈ ms ∧ ∀ k b, m !! k = Some b → ρ k = b) ∧
    (ms = [] ↔ u = (-1)%Z).
Proof.
  intros HI Hu Hsup. unfold pick_iter. rewrite bind_get.
  assert (Hm : ensure EValue (mem u s) s = (Ok tt, s)).
  { unfold ensure. by rewrite (proj2 (mem_valid s u) Hu). }
  rewrite (bind_ok _ _ _ _ _ Hm). rewrite (bind_ok _ _ _ _ _ Hsup).
  set (C := match care with None => sup | Some l => list_to_set l end).
  destruct (sat_iter (S (S (nvars s))) u [] true s) as [r1 s1] eqn:E1. pose proof E1 as E1'.
  apply (sat_iter_spec s _ HI) in E1' as [-> ->];
    [|done|lia|by intros i b ?%elem_of_nil].
  rewrite (bind_ok _ _ _ _ _ E1). intros [= <- <-]. split; [done|].
  eexists. split; [done|]. cbv zeta.
  rewrite <- list_fmap_compose.
  destruct (support_spec s u _ _ HI Hu Hsup) as (_&sup'&[= <-]&Hsp).
  split_and!.
  - intros m Hmm. destruct (ms_dom s HI u Hu C m Hmm) as [Hd1 Hd2]. split_and!.
    + done.
    + intros k Hk. destruct (Hd2 k Hk) as [?|(l&Hl&Ho)]; [by left|right].
      apply Hsp. exists l. split; [done|]. by apply occurs_depends.
    + intros ρ Hρ. by apply (ms_sound s HI u Hu C m).
  - intros i j m1 m2. apply (ms_disjoint s HI u Hu C).
  - intros ρ Hρ. by apply (ms_complete s HI u Hu C).
  - apply (ms_nil s HI u Hu C).
Qed.

Theorem pick_spec s u care r s' : Inv s → valid s u →
  pick u care s = (r, s') →
  s' = s ∧ ∃ ms, pick_iter u care s = (Ok ms, s) ∧ r = Ok (head ms) ∧
    (head ms = None ↔ u = (-1)%Z).
Proof.
  intros HI Hu. unfold pick.
  destruct (support u s) as [rs ss] eqn:Es.
  destruct (support_spec s u _ _ HI Hu Es) as (->&sup&->&_).
  destruct (pick_iter u care s) as [r1 s1] eqn:E1.
  destruct (pick_iter_spec s u care sup r1 s1 HI Hu Es E1) as (->&ms&->&_&_&_&Hnil).
  rewrite (bind_ok _ _ _ _ _ E1). intros [= <- <-]. split; [done|].
  exists ms. split_and!; [done|done|]. by rewrite head_None.
Qed.

(** ** Counting the assignments of the default call *)
Fixpoint sumw (K : nat) (ps : list (list (nat * bool))) : Z :=
  match ps with
  | [] => 0%Z
  | p :: ps => (2 ^ Z.of_nat (K - length p) + sumw K ps)%Z
  end.

Lemma sumw_app K l1 l2 : sumw K (l1 ++ l2) = (sumw K l1 + sumw K l2)%Z.
Proof. induction l1 as [|p l1 IH]; cbn [app sumw]; [lia|]. rewrite IH. lia. Qed.

Lemma sumw_scale a K ps : (∀ p, p ∈ ps → length p ≤ K) →
  sumw (a + K) ps = (2 ^ Z.of_nat a * sumw K ps)%Z.
Proof.
  induction ps as [|p ps IH]; intros H; cbn [sumw]; [lia|].
  rewrite IH by (intros q Hq; apply H; by right).
  pose proof (H p (elem_of_list_here _ _)).
  replace (a + K - length p) with (a + (K - length p)) by lia.
  rewrite Nat2Z.inj_add, Z.pow_add_r by lia. ring.
Qed.

Lemma sumw_branch K mid Kc (x : nat * bool) ps : K = S (mid + Kc) →
  (∀ p, p ∈ ps → length p ≤ Kc) →
  sumw K (cons x <$> ps) = (2 ^ Z.of_nat mid * sumw Kc ps)%Z.
Proof.
  intros -> H. rewrite <- sumw_scale by done.
  clear H. induction ps as [|p ps IH]; csimpl; [done|]. by rewrite IH.
Qed.

Lemma FOP_NoDup {A} (R : A → A → Prop) l :
  (∀ x, ¬ R x x) → ForallOrdPairs R l → NoDup l.
Proof.
  intros Hirr. induction 1 as [|a l Ha _ IH]; constructor; [|done].
  intros Hin. apply (Hirr a). by apply (proj1 (Forall_forall _ _) Ha).
Qed.

Definition wv (u : Z) (v : bool) : Z := if v then u else (- u)%Z.

Lemma flip_wv c u v : u ≠ 0%Z → flip c (wv u v) = wv c (vflip u v).
Proof.
  intros Hu. unfold flip, wv, vflip.
  destruct v; repeat case_decide; cbn; try done; lia.
Qed.

Section pcount.
Context (s : st) (HI : Inv s) (X : gset nat).

Definition Kc (u : Z) : nat := length (LX X (lvl_of s u) (nvars s - lvl_of s u)).

Lemma Kc_node u t c : succ s !! absn u = Some t → t_lvl t ∈ X →
  t_lvl t < lvl_of s c → lvl_of s c ≤ nvars s →
  Kc u = S (length (LX X (S (t_lvl t)) (lvl_of s c - S (t_lvl t))) + Kc c).
Proof.
  intros Ht HiX Hlt Hle. unfold Kc. unfold lvl_of at 1 2. rewrite Ht.
  replace (nvars s - t_lvl t) with (S (nvars s - S (t_lvl t))) by lia.
  rewrite LX_cons by done. cbn [length]. f_equal.
  replace (nvars s - S (t_lvl t))
    with ((lvl_of s c - S (t_lvl t)) + (nvars s - lvl_of s c)) by lia.
  rewrite LX_app, app_length.
  by replace (S (t_lvl t) + (lvl_of s c - S (t_lvl t))) with (lvl_of s c) by lia.
Qed.

Lemma wv_valid u v : valid s u → valid s (wv u v).
Proof. intros. destruct v; [done|by apply valid_neg]. Qed.

Lemma paths_count fuel : ∀ u v, valid s u → nvars s - lvl_of s u < fuel →
  (∀ l, occurs s u l → l ∈ X) →
  (∀ p, p ∈ paths fuel s u v → length p ≤ Kc u) ∧
  sumw (Kc u) (paths fuel s u v) = Nc s X (wv u v).
Proof.
  induction fuel as [|fu IH]; intros u v Hu Hfuel Hocc; [lia|].
  cbn [paths].
  destruct (decide (absn u = 1%positive)) as [E1|Hn1].
  { assert (HK : Kc u = 0).
    { unfold Kc. by rewrite (lvl_term s HI u E1), Nat.sub_diag. }
    rewrite HK.
    assert (Hcase : (vflip u v = true ∧ wv u v = 1%Z) ∨
                    (vflip u v = false ∧ wv u v = (-1)%Z)).
    { destruct (absn_1 u E1 (proj1 Hu)) as [-> | ->]; destruct v;
        unfold vflip, wv; case_decide; try lia; auto. }
    destruct Hcase as [[-> ->]|[-> ->]].
    - rewrite (Nc_1 s X HI). split; [|done].
      by intros p ->%elem_of_list_singleton.
    - rewrite (Nc_m1 s X HI). split; [|done]. by intros p ?%elem_of_nil. }
  destruct (node_cases s HI u Hu)
    as [[E _]|(t&Ht&_&Hlo&Hlu&Hln&Hvl&Hvh&Hhp&Hll&Hlh&Hne)]; [done|].
  rewrite Ht.
  assert (HiX : t_lvl t ∈ X) by (apply Hocc; by apply (occ_here s u t)).
  destruct (IH (t_lo t) (vflip u v) Hvl ltac:(lia)) as (Hl0&Hs0).
  { intros l Hl. apply Hocc. by apply (occ_lo s u t). }
  destruct (IH (t_hi t) (vflip u v) Hvh ltac:(lia)) as (Hl1&Hs1).
  { intros l Hl. apply Hocc. by apply (occ_hi s u t). }
  pose proof (Kc_node u t (t_lo t) Ht HiX Hll (lvl_le s HI _ Hvl)) as HK0.
  pose proof (Kc_node u t (t_hi t) Ht HiX Hlh (lvl_le s HI _ Hvh)) as HK1.
  split.
  - intros p [(q&->&Hq)%elem_of_list_fmap|(q&->&Hq)%elem_of_list_fmap]%elem_of_app;
      cbn [length]; [specialize (Hl0 q Hq)|specialize (Hl1 q Hq)]; lia.
  - rewrite sumw_app.
    rewrite (sumw_branch _ _ _ _ _ HK0 Hl0), (sumw_branch _ _ _ _ _ HK1 Hl1).
    rewrite Hs0, Hs1.
    rewrite (Nc_node_sgn s X (wv u v) t HI); [| |by (destruct v; cbn [wv]; rewrite ?absn_neg)..|done].
    + rewrite !flip_wv by apply Hu. ring.
    + by apply wv_valid.
Qed.

End pcount.

Section default.
Context (s : st) (HI : Inv s) (u : Z) (Hu : valid s u) (X : gset nat).
Context (HXo : ∀ l, l ∈ X ↔ occurs s u l).

Let sup : gset nat := list_to_set (nm s <$> elements X).
Let P := paths (S (S (nvars s))) s u true.

Lemma HXlt l : l ∈ X → l < nvars s.
Proof. intros Hl%HXo. by apply (occurs_lt s u). Qed.

Lemma nm_NoDup : NoDup (nm s <$> elements X).
Proof.
  apply NoDup_fmap_2_strong; [|apply NoDup_elements].
  intros i j Hi%elem_of_elements Hj%elem_of_elements.
  apply (nm_inj s HI); by apply HXlt.
Qed.

Lemma size_sup : size sup = size X.
Proof. subst sup. by rewrite size_list_to_set, fmap_length by apply nm_NoDup. Qed.

Lemma free_length p : p ∈ P →
  length (free (namec s p) sup) = size X - length p.
Proof.
  intros Hp. destruct (proj1 (P_spec s HI u Hu) p Hp) as (Ho&_&_).
  unfold free. change (length (elements ?Y)) with (size Y).
  rewrite size_difference.
  - rewrite size_sup, size_list_to_set by (by apply (namec_NoDup s HI u Hu)).
    unfold namec. by rewrite !fmap_length.
  - intros k ([k' b]&->&(i&->&Hi)%elem_of_namec)%elem_of_list_to_set%elem_of_list_fmap.
    subst sup. apply elem_of_list_to_set, elem_of_list_fmap. exists i.
    split; [done|]. apply elem_of_elements, HXo. by apply (Ho i b).
Qed.

Lemma ms_length_aux ps : (∀ p, p ∈ ps → p ∈ P) →
  Z.of_nat (length (concat ((fun p => enumerate_minterms (namec s p) sup) <$> ps)))
  = sumw (size X) ps.
Proof.
  induction ps as [|p ps IH]; intros H; csimpl; [done|].
  rewrite app_length, Nat2Z.inj_add, IH by (intros q Hq; apply H; by right).
  f_equal. rewrite enumerate_minterms_eq, fmap_length, bitvectors_length.
  rewrite free_length by (apply H; left). by rewrite Nat2Z.inj_pow.
Qed.

Lemma ms_length :
  Z.of_nat (length (concat ((fun p => enumerate_minterms (namec s p) sup) <$> P)))
  = nsat s u (elements X) a0.
Proof.
  rewrite ms_length_aux by done.
  rewrite (nsat_elements_Nc s X u HI Hu HXlt).
  destruct (paths_count s HI X (S (S (nvars s))) u true Hu) as [Hlen Hsum];
    [lia|by intros l Hl%HXo|].
  fold P in Hlen, Hsum. cbn [wv] in Hsum. rewrite <- Hsum.
  rewrite <- sumw_scale by done. f_equal.
  rewrite <- (rank_size X (nvars s) HXlt).
  rewrite (rank_split X (lvl_of s u) (nvars s)) by (by apply lvl_le). done.
Qed.

End default.

Theorem pick_iter_default s u X r s' : Inv s → valid s u →
  support_levels u s = (Ok X, s) →
  pick_iter u None s = (r, s') →
  s' = s ∧ ∃ ms sup, support u s = (Ok sup, s) ∧ r = Ok ms ∧
    (∀ m, m ∈ ms → dom m = sup) ∧ NoDup ms ∧
    Z.of_nat (length ms) = nsat s u (elements X) (fun _ => false) ∧
    count u None s = (Ok (Z.of_nat (length ms)), s).
Proof.
  intros HI Hu HsX Hrun.
  destruct (support u s) as [rs ss] eqn:Es.
  destruct (support_occ s u rs ss HI Hu Es) as (->&X'&HsX'&HXo&->).
  rewrite HsX in HsX'. injection HsX' as <-.
  set (sup := list_to_set (nm s <$> elements X) : gset nat) in *.
  destruct (pick_iter_spec s u None sup r s' HI Hu Es Hrun)
    as (->&ms&->&Hall&Hdis&_&_).
  cbv zeta in Hall, Hdis. split; [done|]. exists ms, sup.
  assert (Hlen : Z.of_nat (length ms) = nsat s u (elements X) (fun _ => false)).
  { unfold pick_iter in Hrun. rewrite bind_get in Hrun.
    assert (Hm : ensure EValue (mem u s) s = (Ok tt, s)).
    { unfold ensure. by rewrite (proj2 (mem_valid s u) Hu). }
    rewrite (bind_ok _ _ _ _ _ Hm), (bind_ok _ _ _ _ _ Es) in Hrun.
    destruct (sat_iter (S (S (nvars s))) u [] true s) as [r1 s1] eqn:E1. pose proof E1 as E1'.
    apply (sat_iter_spec s _ HI) in E1' as [-> ->];
      [|done|lia|by intros i b ?%elem_of_nil].
    rewrite (bind_ok _ _ _ _ _ E1) in Hrun. injection Hrun as <-.
    rewrite <- list_fmap_compose.
    apply (ms_length s HI u Hu X HXo). }
  split_and!; [done|done| | |done|].
  - intros m Hm. destruct (Hall m Hm) as (H1&H2&_).
    apply stdpp.sets.set_eq. intros k. rewrite elem_of_dom. split.
    + intros Hk. by destruct (H2 k Hk).
    + apply H1.
  - apply (FOP_NoDup (fun m1 m2 => ∃ k b, m1 !! k = Some b ∧ m2 !! k = Some (negb b))).
    + intros m (k&b&H1&H2). rewrite H1 in H2. by destruct b.
    + clear -Hdis. induction ms as [|m ms IH]; constructor.
      * apply Forall_forall. intros m' Hm'.
        apply elem_of_list_lookup_1 in Hm' as [j Hj].
        by apply (Hdis 0 (S j)).
      * apply IH. intros i j m1 m2 Hij H1 H2. apply (Hdis (S i) (S j)); [lia|done..].
  - destruct (count u None s) as [rc sc] eqn:Ec.
    destruct (count_spec s u None rc sc X HI Hu HsX Ec) as [-> ->]. by rewrite Hlen.
Qed.
