(** * AutorefFull: a full table ([max_nodes], [RuntimeError]) met THROUGH
      [dd.autoref] (C08).

    [Driver3.ASetMaxNodes n] is the assignment [bdd._bdd.max_nodes = n] on a
    [dd.autoref.BDD] ([None]: [sys.maxsize]).  Here:

    - the setter changes that field and nothing else;
    - a call that fails with [ERuntime] creates no handle: in every method of
      the wrapper the [Function] objects are created ([wrap]) after the last
      computation of the wrapped manager, and [wrap] itself never raises
      [ERuntime]; together with the total theorems of [AutorefInv],
      [AutorefInv2], [AutorefReorderD] this gives the statements of
      [Properties/C08_full.v]. *)
From DD Require Export AutorefReorderD.
Local Open Scope string_scope.

(** ** 1. The setter *)
Lemma run_aop_set_max_nodes w n a r a' :
  run_aop w (ASetMaxNodes n) a = (r, a') →
  r = Ok VU ∧ a' = a <| mgr := (mgr a) <| max_nodes := n |> |>.
Proof. cbn [run_aop]. unfold bind, lift. cbn [modify ret]. by intros [= <- <-]. Qed.

Lemma denv_set_max_nodes s n u ρ : denv (s <| max_nodes := n |>) u ρ = denv s u ρ.
Proof. by apply denv_same. Qed.

Theorem set_max_nodes_spec w n a r a' :
  run_aop w (ASetMaxNodes n) a = (r, a') →
  r = Ok VU ∧ a' = a <| mgr := (mgr a) <| max_nodes := n |> |> ∧
  (AInv a → AInv a') ∧ (AInvD a → AInvD a') ∧ (AInvDT a → AInvDT a') ∧
  (∀ k, hledger a' k = hledger a k) ∧
  (∀ u ρ, denv (mgr a') u ρ = denv (mgr a) u ρ).
Proof.
  intros H. destruct (run_aop_set_max_nodes w n a r a' H) as [-> ->].
  split; [done|]. split; [done|].
  assert (HD : AInvD a → AInvD (a <| mgr := (mgr a) <| max_nodes := n |> |>)).
  { intros HA. destruct (AInvD_same a ((mgr a) <| max_nodes := n |>) HA) as [? _];
      [by repeat split|done|apply HA|done]. }
  split; [|split; [exact HD|split; [|split; [done|]]]].
  - intros HA. apply (AStep_AInv a). apply AStep_same; [done|by repeat split|done|apply HA].
  - intros [HA Ht]. split; [by apply HD|exact Ht].
  - intros u ρ. apply denv_set_max_nodes.
Qed.

(** the step of the driver: the field, and the oracle tape of the model that
    [astep] empties after every call *)
Theorem astep_set_max_nodes w m n :
  snd (astep w m (ASetMaxNodes n)) = Ok VU ∧
  aworld_get (fst (astep w m (ASetMaxNodes n))) m =
    (aworld_get w m) <| mgr := (mgr (aworld_get w m)) <| max_nodes := n |> <| tape := [] |> |>.
Proof.
  destruct (astep_spec w m (ASetMaxNodes n)) as (r&a'&E&->&->). cbn [run_aop'] in E.
  by destruct (run_aop_set_max_nodes w n _ r a' E) as [-> ->].
Qed.

(** ** 2. A failed call creates no handle *)

(** the computation does not touch the handle table *)
Definition hframe {A} (m : MA A) : Prop :=
  ∀ a r a', m a = (r, a') → handles a' = handles a ∧ next_hid a' = next_hid a.
(** the computation never raises [ERuntime] *)
Definition nort {A} (m : MA A) : Prop := ∀ a r a', m a = (r, a') → r ≠ Err ERuntime.
(** when the computation raises [ERuntime] the handle table is as before *)
Definition hq {A} (m : MA A) : Prop :=
  ∀ a a', m a = (Err ERuntime, a') → handles a' = handles a ∧ next_hid a' = next_hid a.

Lemma hq_hframe {A} (m : MA A) : hframe m → hq m.
Proof. intros Hm a a' H. exact (Hm a _ a' H). Qed.
Lemma hq_nort {A} (m : MA A) : nort m → hq m.
Proof. intros Hm a a' H. by destruct (Hm a _ a' H). Qed.
Lemma hq_bind {A B} (m : MA A) (f : A → MA B) :
  hframe m → (∀ x, hq (f x)) → hq (bind m f).
Proof.
  intros Hm Hf a a'. unfold bind. destruct (m a) as [[x|e] a1] eqn:E.
  - intros H. destruct (Hm _ _ _ E) as [E1 E2]. destruct (Hf x a1 a' H) as [E3 E4].
    split; congruence.
  - intros [= -> <-]. by apply (Hm _ _ _ E).
Qed.

Lemma hframe_ret {A} (x : A) : hframe (ret x).
Proof. by intros a r a' [= <- <-]. Qed.
Lemma hframe_raise {A} e : hframe (raise (A:=A) e).
Proof. by intros a r a' [= <- <-]. Qed.
Lemma hframe_get : hframe (get (S:=ast)).
Proof. by intros a r a' [= <- <-]. Qed.
Lemma hframe_ensure e b : hframe (ensure (S:=ast) e b).
Proof. destruct b; [apply hframe_ret|apply hframe_raise]. Qed.
Lemma hframe_of_opt {A} e (o : option A) : hframe (of_opt (S:=ast) e o).
Proof. destruct o; [apply hframe_ret|apply hframe_raise]. Qed.
Lemma hframe_lift {A} (m : MS A) : hframe (lift m).
Proof. intros a r a'. unfold lift. destruct (m (mgr a)). by intros [= <- <-]. Qed.
Lemma hframe_bind {A B} (m : MA A) (f : A → MA B) :
  hframe m → (∀ x, hframe (f x)) → hframe (bind m f).
Proof.
  intros Hm Hf a r a'. unfold bind. destruct (m a) as [[x|e] a1] eqn:E.
  - intros H. destruct (Hm _ _ _ E) as [E1 E2]. destruct (Hf x a1 r a' H) as [E3 E4].
    split; congruence.
  - intros [= <- <-]. by apply (Hm _ _ _ E).
Qed.
Lemma hframe_catch {A} (m : MA A) : hframe m → hframe (catch m).
Proof.
  intros Hm a r a'. unfold catch. destruct (m a) as [r0 a1] eqn:E. intros [= <- <-].
  by apply (Hm _ _ _ E).
Qed.
Lemma hframe_mapM {A B} (f : A → MA B) (l : list A) :
  (∀ x, hframe (f x)) → hframe (mapM f l).
Proof.
  intros Hf. induction l as [|x l IH]; cbn [mapM]; [apply hframe_ret|].
  apply hframe_bind; [apply Hf|intros b].
  apply hframe_bind; [done|intros bs; apply hframe_ret].
Qed.
Lemma hframe_node_of h : hframe (node_of h).
Proof. unfold node_of. apply hframe_bind; [apply hframe_get|intros a; apply hframe_of_opt]. Qed.
Lemma hframe_check_in u : hframe (check_in u).
Proof. unfold check_in. apply hframe_bind; [apply hframe_get|intros a; apply hframe_ensure]. Qed.
Lemma hframe_onode_of h : hframe (onode_of h).
Proof.
  unfold onode_of. destruct h as [h|]; [|apply hframe_ret].
  apply hframe_bind; [apply hframe_node_of|intros u; apply hframe_ret].
Qed.
Lemma hframe_tmp_new u : hframe (tmp_new u).
Proof.
  unfold tmp_new. apply hframe_bind; [apply hframe_get|intros a].
  apply hframe_bind; [apply hframe_ensure|intros _; apply hframe_lift].
Qed.
Lemma hframe_tmp_del u : hframe (tmp_del u).
Proof. apply hframe_lift. Qed.

Ltac hframe_step :=
  lazymatch goal with
  | |- hframe (ret _) => apply hframe_ret
  | |- hframe (raise _) => apply hframe_raise
  | |- hframe get => apply hframe_get
  | |- hframe (ensure _ _) => apply hframe_ensure
  | |- hframe (of_opt _ _) => apply hframe_of_opt
  | |- hframe (lift _) => apply hframe_lift
  | |- hframe (catch _) => apply hframe_catch
  | |- hframe (node_of _) => apply hframe_node_of
  | |- hframe (onode_of _) => apply hframe_onode_of
  | |- hframe (check_in _) => apply hframe_check_in
  | |- hframe (tmp_new _) => apply hframe_tmp_new
  | |- hframe (tmp_del _) => apply hframe_tmp_del
  | |- hframe (bind _ _) => apply hframe_bind; [|intros ?]
  | |- hframe (mapM _ _) => apply hframe_mapM; intros ?
  | |- hframe (if ?b then _ else _) => destruct b
  | |- hframe (match ?x with _ => _ end) => destruct x
  | |- hframe (let '(_, _) := ?x in _) => destruct x
  | |- hframe (let _ := _ in _) => cbv zeta
  end.
Ltac hframe := repeat hframe_step.

Lemma nort_ret {A} (x : A) : nort (ret (S:=ast) x).
Proof. by intros a r a' [= <- <-]. Qed.
Lemma nort_bind {A B} (m : MA A) (f : A → MA B) :
  nort m → (∀ x, nort (f x)) → nort (bind m f).
Proof.
  intros Hm Hf a r a'. unfold bind. destruct (m a) as [[x|e] a1] eqn:E.
  - apply Hf.
  - intros [= <- <-] [= ->]. by destruct (Hm _ _ _ E).
Qed.
(** [Function(u, bdd)] raises [ValueError] (not a node of the manager) and
    nothing else *)
Lemma nort_wrap u : nort (wrap u).
Proof.
  intros a r a'. unfold wrap. cbn [bind get].
  destruct (mem u (mgr a)); cbn [ensure bind ret raise]; [|by intros [= <- <-]].
  unfold bind at 1. unfold lift, incref. unfold bind at 1.
  destruct (decide (u = 0%Z)); [cbn [raise]; by intros [= <- <-]|].
  unfold getref. destruct (refc (mgr a) !! absn u); [|by intros [= <- <-]].
  cbn [modify bind ret]. by intros [= <- <-].
Qed.

Lemma hq_bind_nort {A B} (m : MA A) (f : A → MA B) :
  hq m → (∀ x, nort (f x)) → hq (bind m f).
Proof.
  intros Hm Hf a a'. unfold bind. destruct (m a) as [[x|e] a1] eqn:E.
  - intros H. by destruct (Hf x a1 _ a' H).
  - intros [= -> <-]. by apply Hm.
Qed.

Ltac nort_step :=
  lazymatch goal with
  | |- nort (ret _) => apply nort_ret
  | |- nort (wrap _) => apply nort_wrap
  | |- nort (bind _ _) => apply nort_bind; [|intros ?]
  | |- nort (match ?x with _ => _ end) => destruct x
  | |- nort (let '(_, _) := ?x in _) => destruct x
  end.
Ltac nort := repeat nort_step.
Ltac hq_step :=
  lazymatch goal with
  | |- hq (let _ := _ in _) => cbv zeta
  | |- hq (bind (wrap _) _) => apply hq_nort; nort
  | |- hq (wrap _) => apply hq_nort; nort
  | |- hq (bind _ _) => apply hq_bind; [hframe|intros ?]
  | |- hq (if ?b then _ else _) => destruct b
  | |- hq (match ?x with _ => _ end) => destruct x
  | |- hq (let '(_, _) := ?x in _) => destruct x
  | |- hq _ => apply hq_hframe; hframe
  end.
Ltac hq := repeat hq_step.

(** every operation except the constructor and [Function.__del__] (which
    removes a handle; it never raises [ERuntime], see below) *)
Lemma run_aop_hq w o : is_anew o = false → (∀ h, o ≠ ADrop h) → hq (run_aop w o).
Proof.
  intros Hn Hd. destruct o; try discriminate Hn; try (by destruct (Hd hu)); cbn [run_aop];
    try (apply hq_bind_nort; [|intros ?; nort]);
    unfold f_lt;
    unfold a_var, a_true, a_false, a_apply, a_ite, a_let, a_quantify, a_cube, a_find_or_add,
      a_support, a_count, a_image, f_apply, f_eq, f_le, f_child, a_succ, f_level, f_var,
      f_ref, f_negated, f_len;
    hq.
Qed.

(** [Function.__del__] never raises [ERuntime] *)
Lemma run_aop_full_handles w o a a' :
  is_anew o = false → AInv a → run_aop w o a = (Err ERuntime, a') →
  handles a' = handles a ∧ next_hid a' = next_hid a.
Proof.
  intros Hn HA H.
  assert (Hgen : (∀ h, o ≠ ADrop h) → handles a' = handles a ∧ next_hid a' = next_hid a).
  { intros Hd. by apply (run_aop_hq w o Hn Hd a a'). }
  destruct o; try (apply Hgen; by intros ?). clear Hgen.
  cbn [run_aop] in H. apply bind_ret_st in H as (r0&H&Hr).
  destruct (drop_spec hu a r0 a' HA H) as [(u&_&->&_)|(_&->&_)]; discriminate Hr.
Qed.
Lemma run_aop_full_handlesD w o a a' :
  is_anew o = false → AInvDT a → run_aop w o a = (Err ERuntime, a') →
  handles a' = handles a ∧ next_hid a' = next_hid a.
Proof.
  intros Hn HA H.
  assert (Hgen : (∀ h, o ≠ ADrop h) → handles a' = handles a ∧ next_hid a' = next_hid a).
  { intros Hd. by apply (run_aop_hq w o Hn Hd a a'). }
  destruct o; try (apply Hgen; by intros ?). clear Hgen.
  cbn [run_aop] in H. apply bind_ret_st in H as (r0&H&Hr).
  destruct (drop_specD hu a r0 a' HA H) as [(u&_&->&_)|(_&->&_)]; discriminate Hr.
Qed.

Lemma AKeep_all o a a' : AKeep o a a' → handles a' = handles a → AKeepAll a a'.
Proof.
  intros Hk Hh h u Hu. destruct (Hk h u Hu) as [?|[_ Hn]]; [done|].
  rewrite Hh in Hn. congruence.
Qed.

(** ** 3. The total theorems, at the [RuntimeError] of a full table *)

(** dynamic reordering disabled ([C08_call]) *)
Theorem run_aop_full w o a a' :
  a_allowed o = true → is_anew o = false → AInv a → a_caller_ok a o →
  run_aop w o a = (Err ERuntime, a') →
  AInv a' ∧ AKeep o a a' ∧ AKeepAll a a' ∧
  handles a' = handles a ∧ next_hid a' = next_hid a.
Proof.
  intros Ha Hn HA Hc H. destruct (run_aop_AInv w o a _ a' Ha Hn HA Hc H) as [HA' Hk].
  destruct (run_aop_full_handles w o a a' Hn HA H) as [Hh Hx].
  split; [done|]. split; [done|]. split; [by apply (AKeep_all o)|done].
Qed.

(** ... with the explicit reorderings ([C08b_call]) *)
Theorem run_aop_full2 w o a a' :
  a_allowed2 o = true → is_anew o = false → AInv a → a_caller_ok a o →
  (is_areorder o = true → tape (mgr a) = []) →
  run_aop w o a = (Err ERuntime, a') →
  AInv a' ∧ AKeep o a a' ∧ AKeepAll a a' ∧
  handles a' = handles a ∧ next_hid a' = next_hid a.
Proof.
  intros Ha Hn HA Hc Ht H. destruct (run_aop_AInv2 w o a _ a' Ha Hn HA Hc Ht H) as [HA' Hk].
  destruct (run_aop_full_handles w o a a' Hn HA H) as [Hh Hx].
  split; [done|]. split; [done|]. split; [by apply (AKeep_all o)|done].
Qed.

(** ... as the driver dispatches it ([C08_copy_call]: a copy into the manager
    of the argument computes nothing and cannot meet a full table) *)
Theorem run_aop'_full w m o a a' :
  a_allowed o = true → is_anew o = false → AInv a → a_caller_ok a o →
  run_aop' w m o a = (Err ERuntime, a') →
  AInv a' ∧ AKeep o a a' ∧ AKeepAll a a' ∧
  handles a' = handles a ∧ next_hid a' = next_hid a.
Proof.
  intros Ha Hn HA Hc H. destruct (run_aop'_cases w m o) as [E|(hu&->&E)]; rewrite E in H.
  - by apply (run_aop_full w o a a').
  - exfalso. revert H. unfold a_copy_same. rewrite node_of_bind.
    destruct (handles a !! hu) as [u|]; [|by intros [=]].
    unfold bind. destruct (wrap u a) as [[h|e] a1] eqn:Ew; [by intros [=]|].
    intros [= -> _]. by destruct (nort_wrap u a _ a1 Ew).
Qed.

(** dynamic reordering possibly enabled ([C08b_call_dynamic],
    [C08_call_dynamic_reorder]) *)
Theorem run_aop_fullDR w o a a' :
  a_allowedDR o = true → AInvDT a → run_aop w o a = (Err ERuntime, a') →
  AInvDT a' ∧ AKeep o a a' ∧ AKeepAll a a' ∧
  handles a' = handles a ∧ next_hid a' = next_hid a.
Proof.
  intros Ha HA H. destruct (run_aop_AInvDR w o a _ a' Ha HA H) as (HA'&Hk&_).
  assert (Hn : is_anew o = false).
  { by destruct o. }
  destruct (run_aop_full_handlesD w o a a' Hn HA H) as [Hh Hx].
  split; [done|]. split; [done|]. split; [by apply (AKeep_all o)|done].
Qed.
Theorem run_aop_fullD w o a a' :
  a_allowedD o = true → AInvDT a → run_aop w o a = (Err ERuntime, a') →
  AInvDT a' ∧ AKeep o a a' ∧ AKeepAll a a' ∧
  handles a' = handles a ∧ next_hid a' = next_hid a.
Proof.
  intros Ha. apply run_aop_fullDR. unfold a_allowedDR. by rewrite Ha.
Qed.

(** ** Example with dynamic reordering ENABLED: [BDD({v0: 0, v1: 1})],
    [x = bdd.var('v0')], [y = bdd.var('v1')] ([ffwS]);
    [bdd.configure(reordering=True)], [bdd._bdd.max_nodes = 4] ([ffwD0]);
    and with the forced trigger, so that the first reordering request of the
    next call fires ([ffwD]).  The hypotheses of [run_aop_fullD] hold in both
    worlds for the call [y | x] (which needs a new node). *)
Definition ffwS : aworld := arun aworld_empty 0 (ANew [(0, 0); (1, 1)] :: [AVar 0; AVar 1]).
Definition ffwD0 : aworld :=
  arun ffwS 0 [AConfigure (Some true); ASetMaxNodes (Some 4%positive)].
Definition ffwD : aworld :=
  arun ffwS 0 [AConfigure (Some true); ASetMaxNodes (Some 4%positive); ASetTrig (Some 1)].

Lemma ffwS_AInvDT : AInvDT (aworld_get ffwS 0).
Proof.
  apply AInvDT_of_AInvT; [|by vm_compute].
  apply (arun_from_new2 [(0, 0); (1, 1)] [AVar 0; AVar 1] 0); [by vm_compute|].
  cbn [ahist_ok2]. repeat (split; [by vm_compute|]). exact I.
Qed.

Example full_dynamic_hypotheses :
  (AInvDT (aworld_get ffwD0 0) ∧ AInvDT (aworld_get ffwD 0)) ∧
  a_allowedD (AApply "or" 1 (Some 0) None) = true ∧
  (∃ a', run_aop aworld_empty (AApply "or" 1 (Some 0) None) (aworld_get ffwD0 0)
         = (Err ERuntime, a')) ∧
  (∃ a', run_aop aworld_empty (AApply "or" 1 (Some 0) None) (aworld_get ffwD 0)
         = (Err ERuntime, a')).
Proof.
  split; [split|split; [done|split; eexists; by vm_compute]].
  - unfold ffwD0. apply (arun_AInvD _ ffwS 0 ffwS_AInvDT).
    repeat (apply Forall_cons; split; [reflexivity|]). by apply Forall_nil.
  - unfold ffwD. apply (arun_AInvD _ ffwS 0 ffwS_AInvDT).
    repeat (apply Forall_cons; split; [reflexivity|]). by apply Forall_nil.
Qed.
