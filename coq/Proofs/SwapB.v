(** * SwapB: the mid-swap invariant and [find_or_add] in a mid-swap state *)
From DD Require Export SwapA.

Definition node_ok (s : st) (t : triple) : Prop :=
  t_lvl t < nvars s ∧ valid s (t_lo t) ∧ (0 < t_hi t)%Z ∧ valid s (t_hi t) ∧
  t_lvl t < lvl_of s (t_lo t) ∧ t_lvl t < lvl_of s (t_hi t) ∧ t_lo t ≠ t_hi t.

(** cofactors of [v] w.r.t. level [y] in the ORIGINAL manager
    (complement pushed to the children) *)
Definition cofs (s0 : st) (y : nat) (v : Z) : Z * Z :=
  match succ s0 !! absn v with
  | Some t => if decide (t_lvl t = y) then (flip (t_lo t) v, flip (t_hi t) v)
              else (v, v)
  | None => (v, v)
  end.

(** [p] is what [find_or_add i v w] returns in a table containing [s] *)
Definition sgn (w : Z) : Z := if decide (w < 0)%Z then (-1)%Z else 1%Z.
Definition foa_res (s : st) (i : nat) (v w p : Z) : Prop :=
  ((sgn w * v = sgn w * w)%Z ∧ p = v) ∨
  ((sgn w * v ≠ sgn w * w)%Z ∧
   ∃ n, succ s !! n = Some (Triple i (sgn w * v) (sgn w * w)) ∧ p = (sgn w * Z.pos n)%Z).

Definition dep_img (s0 s : st) (x : nat) (t0 t : triple) : Prop :=
  ∃ p q, t = Triple x p q ∧
    foa_res s (x + 1) (cofs s0 (x + 1) (t_lo t0)).1 (cofs s0 (x + 1) (t_hi t0)).1 p ∧
    foa_res s (x + 1) (cofs s0 (x + 1) (t_lo t0)).2 (cofs s0 (x + 1) (t_hi t0)).2 q.

Definition mid_img (s0 s : st) (x : nat) (t0 t : triple) : Prop :=
  if decide (t_lvl t0 = x + 1) then t = Triple x (t_lo t0) (t_hi t0)
  else if decide (t_lvl t0 = x) then
    if decide (indepS s0 (x + 1) (t_lo t0) (t_hi t0))
    then t = Triple (x + 1) (t_lo t0) (t_hi t0)
    else dep_img s0 s x t0 t
  else t = t0.

(** the state between two iterations of the last loop of [swap];
    [T] = dependent x-nodes not yet rewritten *)
Record Mid (s0 : st) (x : nat) (s : st) (T : gset positive) : Prop := {
  m_vars : vars s = vars s0;
  m_l2v : lvl2var s = lvl2var s0;
  m_ll : last_len s = None;
  m_term : succ s !! 1%positive = Some (tterm (nvars s0));
  m_free : succ s !! min_free s = None ∧
           ∀ k, (k < min_free s)%positive → is_Some (succ s !! k);
  m_ref : dom (refc s) = dom (succ s);
  m_pred : ∀ t n, pred s !! t = Some n ↔ succ s !! n = Some t ∧ n ∉ T;
  m_T : ∀ n, n ∈ T → ∃ t, succ s0 !! n = Some t ∧ t_lvl t = x ∧
          ¬ indepS s0 (x + 1) (t_lo t) (t_hi t) ∧ succ s !! n = Some t;
  m_old : ∀ n t0, succ s0 !! n = Some t0 → n ∉ T →
          ∃ t, succ s !! n = Some t ∧ mid_img s0 s x t0 t;
  m_new : ∀ n t, succ s !! n = Some t → succ s0 !! n = None → t_lvl t = x + 1;
  m_node : ∀ n t, succ s !! n = Some t → n ≠ 1%positive → n ∉ T → node_ok s t;
}.

Lemma Mid_nvars s0 x s T : Mid s0 x s T → nvars s = nvars s0.
Proof. intros HM. unfold nvars. by rewrite (m_vars _ _ _ _ HM). Qed.

Lemma Mid_dom s0 x s T n : Mid s0 x s T → is_Some (succ s0 !! n) → is_Some (succ s !! n).
Proof.
  intros HM [t0 H0]. destruct (decide (n ∈ T)) as [Hn|Hn].
  - destruct (m_T _ _ _ _ HM n Hn) as (t&_&_&_&Ht). eauto.
  - destruct (m_old _ _ _ _ HM n t0 H0 Hn) as (t&Ht&_). eauto.
Qed.

(** ** monotonicity *)
Lemma valid_mono s s' u : succ s ⊆ succ s' → valid s u → valid s' u.
Proof. intros Hsub [? [t Ht]]. split; [done|]. exists t. by eapply lookup_weaken. Qed.
Lemma lvl_mono s s' u : succ s ⊆ succ s' → valid s u → lvl_of s' u = lvl_of s u.
Proof.
  intros Hsub [? [t Ht]]. unfold lvl_of. by rewrite Ht, (lookup_weaken _ _ _ _ Ht Hsub).
Qed.
Lemma node_ok_mono s s' t : succ s ⊆ succ s' → nvars s' = nvars s →
  node_ok s t → node_ok s' t.
Proof.
  intros Hsub Hn (?&?&?&?&?&?&?). unfold node_ok. rewrite Hn.
  rewrite !(lvl_mono s s') by done. split_and!; try done; by apply (valid_mono s s').
Qed.
Lemma foa_res_mono s s' i v w p :
  (∀ n t, succ s !! n = Some t → t_lvl t = i → succ s' !! n = Some t) →
  foa_res s i v w p → foa_res s' i v w p.
Proof.
  intros Hsub [[? ?]|[? (n&Hn&?)]]; [by left|right]. split; [done|].
  exists n. split; [|done]. by apply Hsub.
Qed.
Lemma mid_img_mono s0 s s' x t0 t :
  (∀ n t, succ s !! n = Some t → t_lvl t = x + 1 → succ s' !! n = Some t) →
  mid_img s0 s x t0 t → mid_img s0 s' x t0 t.
Proof.
  intros Hsub. unfold mid_img. repeat case_decide; try done.
  intros (p&q&->&Hp&Hq). exists p, q. split; [done|].
  split; by apply (foa_res_mono s s').
Qed.

(** [Mid] only looks at the tables *)
Lemma Mid_same s0 x s s' T :
  succ s' = succ s → pred s' = pred s → dom (refc s') = dom (refc s) →
  min_free s' = min_free s → vars s' = vars s → lvl2var s' = lvl2var s →
  last_len s' = last_len s → Mid s0 x s T → Mid s0 x s' T.
Proof.
  intros E1 E2 E3 E4 E5 E6 E7 HM.
  assert (Hnv : nvars s' = nvars s) by (unfold nvars; by rewrite E5).
  assert (Hsub : succ s ⊆ succ s') by (by rewrite E1).
  split.
  - rewrite E5. apply HM.
  - rewrite E6. apply HM.
  - rewrite E7. apply HM.
  - rewrite E1. apply HM.
  - rewrite E1, E4. apply HM.
  - rewrite E1, E3. apply HM.
  - intros t n. rewrite E1, E2. apply HM.
  - intros n Hn. rewrite E1. by apply (m_T _ _ _ _ HM).
  - intros n t0 H0 Hn. destruct (m_old _ _ _ _ HM n t0 H0 Hn) as (t&Ht&Hi).
    exists t. rewrite E1. split; [done|]. apply (mid_img_mono s0 s s'); [|done].
    intros ????. by rewrite E1.
  - intros n t. rewrite E1. apply HM.
  - intros n t Hn Hn1 HnT. rewrite E1 in Hn.
    apply (node_ok_mono s s'); [done|done|]. by apply (m_node _ _ _ _ HM n).
Qed.

(** ** running [find_or_add] without [Inv] *)
Lemma sgn_cases w : (sgn w = 1 ∨ sgn w = -1)%Z.
Proof. unfold sgn. case_decide; auto. Qed.
Lemma sgn_sgn w z : (sgn w * (sgn w * z) = z)%Z.
Proof. destruct (sgn_cases w) as [->| ->]; lia. Qed.
Lemma sgn_inj w a b : (sgn w * a = sgn w * b)%Z → a = b.
Proof. destruct (sgn_cases w) as [->| ->]; lia. Qed.
Lemma sgn_pos w : w ≠ 0%Z → (0 < sgn w * w)%Z.
Proof. unfold sgn. case_decide; lia. Qed.
Lemma absn_sgn w z : absn (sgn w * z) = absn z.
Proof.
  destruct (sgn_cases w) as [->| ->]; [by rewrite Z.mul_1_l|].
  replace (-1 * z)%Z with (- z)%Z by lia. apply absn_neg.
Qed.
Lemma valid_sgn s w z : valid s z → valid s (sgn w * z).
Proof.
  intros [? ?]. split; [destruct (sgn_cases w) as [->| ->]; lia|]. by rewrite absn_sgn.
Qed.
Lemma lvl_sgn s w z : lvl_of s (sgn w * z) = lvl_of s z.
Proof. unfold lvl_of. by rewrite absn_sgn. Qed.

(** ** room below [max_nodes] for [k] more nodes *)
Definition room (s : st) (k : nat) : Prop :=
  match max_nodes s with
  | None => True
  | Some n => size (succ s) + k + 1 < Pos.to_nat n
  end.
Lemma room_le s k k' : k' ≤ k → room s k → room s k'.
Proof. unfold room. destruct (max_nodes s); [lia|done]. Qed.
Lemma room_same s s' k : succ s' = succ s → max_nodes s' = max_nodes s → room s k → room s' k.
Proof. unfold room. by intros -> ->. Qed.
Lemma room_unbounded s k : max_nodes s = None → room s k.
Proof. unfold room. by intros ->. Qed.
Lemma room_fits s t k :
  succ s !! min_free s = None →
  (∀ j, (j < min_free s)%positive → is_Some (succ s !! j)) → room s (S k) →
  fits (max_nodes s)
       (next_free (S (size (<[min_free s := t]> (succ s)))) (<[min_free s := t]> (succ s))
                  (min_free s)) = true.
Proof.
  intros Hf Hb. unfold room, fits. destruct (max_nodes s) as [n|]; [|done].
  intros Hr. apply bool_decide_eq_true. apply find_or_add_room; [done|done|lia].
Qed.
(** one more node *)
Lemma room_add s u t k (f : st → st) :
  succ s !! u = None → succ (f s) = <[u := t]> (succ s) → max_nodes (f s) = max_nodes s →
  room s (S k) → room (f s) k.
Proof.
  intros Hu Es Em. unfold room. rewrite Em, Es. destruct (max_nodes s); [|done].
  rewrite map_size_insert_None by done. lia.
Qed.

Lemma foa_run s i v w :
  last_len s = None → i < nvars s → valid s v → valid s w →
  dom (refc s) = dom (succ s) →
  succ s !! min_free s = None → (1 < min_free s)%positive →
  (∀ j, (j < min_free s)%positive → is_Some (succ s !! j)) → room s 1 →
  find_or_add i v w s =
    if decide (sgn w * v = sgn w * w)%Z then (Ok v, s) else
    match pred s !! Triple i (sgn w * v) (sgn w * w) with
    | Some u => (Ok (sgn w * Z.pos u)%Z, s)
    | None => (Ok (sgn w * Z.pos (min_free s))%Z,
               bump (sgn w * w) (bump (sgn w * v)
                 (add_node s (min_free s) (Triple i (sgn w * v) (sgn w * w)))))
    end.
Proof.
  intros Hll Hi Hv Hw Hrd Hfree Hmf Hbelow Hroom. unfold find_or_add.
  assert (Hrr : request_reordering s = (Ok tt, s)).
  { unfold request_reordering. by rewrite Hll. }
  rewrite (bind_ok _ _ _ _ _ Hrr). cbn [bind get].
  rewrite decide_False by lia.
  rewrite (proj2 (mem_valid s v) Hv), (proj2 (mem_valid s w) Hw). cbn [negb].
  fold (sgn w). set (v' := (sgn w * v)%Z). set (w' := (sgn w * w)%Z).
  case_decide as E.
  { subst v'. by rewrite sgn_sgn. }
  destruct (pred s !! Triple i v' w') as [u|] eqn:Hp; [done|].
  unfold assert. rewrite !bool_decide_eq_true_2 by done. cbn [bind ret modify].
  rewrite (room_fits s (Triple i v' w') 0 Hfree Hbelow Hroom). cbn [ensure bind ret modify].
  fold (add_node s (min_free s) (Triple i v' w')).
  set (s2 := add_node s (min_free s) (Triple i v' w')).
  assert (Hv' : valid s v') by (by apply valid_sgn).
  assert (Hw' : valid s w') by (by apply valid_sgn).
  assert (Hrd2 : ∀ z, valid s z → is_Some (refc s2 !! absn z)).
  { intros z [_ Hz]. apply elem_of_dom. cbn. rewrite dom_insert_L, Hrd.
    apply elem_of_dom in Hz. set_solver. }
  rewrite (bind_ok _ _ _ _ _ (incref_run s2 v' (proj1 Hv') (Hrd2 v' Hv'))).
  erewrite (bind_ok (incref w')); [done|].
  apply incref_run; [apply Hw'|]. cbn. apply lookup_alter_is_Some. by apply Hrd2.
Qed.

Lemma Mid_min_free s0 x s T : Mid s0 x s T → (1 < min_free s)%positive.
Proof.
  intros HM. destruct (m_free _ _ _ _ HM) as [Hf _].
  destruct (decide (min_free s = 1%positive)) as [E|]; [|lia].
  rewrite E, (m_term _ _ _ _ HM) in Hf. done.
Qed.

Lemma Mid_add s0 x s T v w :
  Mid s0 x s T → x + 1 < nvars s0 →
  valid s v → valid s w → (0 < w)%Z → v ≠ w →
  x + 1 < lvl_of s v → x + 1 < lvl_of s w →
  pred s !! Triple (x + 1) v w = None →
  let s' := bump w (bump v (add_node s (min_free s) (Triple (x + 1) v w))) in
  Mid s0 x s' T ∧ succ s ⊆ succ s' ∧
  succ s' !! min_free s = Some (Triple (x + 1) v w).
Proof.
  intros HM Hy Hv Hw Hwp Hne Hlv Hlw Hpred s'.
  set (u := min_free s) in *. set (t := Triple (x + 1) v w) in *.
  destruct (m_free _ _ _ _ HM) as [Hfree Hbelow]. fold u in Hfree.
  pose proof (Mid_min_free _ _ _ _ HM) as Hu1. fold u in Hu1.
  assert (Hsucc : succ s' = <[u := t]> (succ s)) by done.
  assert (Hsub : succ s ⊆ succ s') by (rewrite Hsucc; by apply insert_subseteq).
  assert (Hnv : nvars s' = nvars s) by done.
  assert (HuT : u ∉ T).
  { intros HuT. destruct (m_T _ _ _ _ HM u HuT) as (?&_&_&_&?). congruence. }
  assert (Hmono : ∀ n t', succ s !! n = Some t' → succ s' !! n = Some t').
  { intros n t' Hn. by apply (lookup_weaken _ _ _ _ Hn Hsub). }
  split_and!; [|done|by rewrite Hsucc, lookup_insert].
  split.
  - apply HM.
  - apply HM.
  - apply HM.
  - rewrite Hsucc, lookup_insert_ne by lia. apply HM.
  - rewrite Hsucc. change (min_free s') with (next_free (S (size (<[u:=t]> (succ s)))) (<[u:=t]> (succ s)) u).
    destruct (next_free_fresh (<[u:=t]> (succ s)) u) as (H1&H2&H3).
    split; [done|]. intros k Hk.
    destruct (decide (k < u)%positive).
    + rewrite lookup_insert_ne by lia. by apply Hbelow.
    + apply H3; lia.
  - rewrite Hsucc. cbn. rewrite !dom_alter_L, !dom_insert_L. by rewrite (m_ref _ _ _ _ HM).
  - intros t' n. rewrite Hsucc. change (pred s') with (<[t := u]> (pred s)).
    destruct (decide (n = u)) as [->|Hnu]; destruct (decide (t' = t)) as [->|Htt].
    + rewrite !lookup_insert. tauto.
    + rewrite lookup_insert, lookup_insert_ne by done. split; [|intros [? _]; congruence].
      intros Hp. apply (m_pred _ _ _ _ HM) in Hp as [Hp _]. congruence.
    + rewrite lookup_insert, lookup_insert_ne by done. split; [congruence|].
      intros [Hs HnT]. exfalso.
      assert (pred s !! t = Some n) by (by apply (m_pred _ _ _ _ HM)). congruence.
    + rewrite !lookup_insert_ne by done. apply HM.
  - intros n Hn. destruct (m_T _ _ _ _ HM n Hn) as (t'&?&?&?&?).
    exists t'. split_and!; try done. by apply Hmono.
  - intros n t0 H0 Hn. destruct (m_old _ _ _ _ HM n t0 H0 Hn) as (t'&Ht'&Hi).
    exists t'. split; [by apply Hmono|]. apply (mid_img_mono s0 s s'); [|done].
    intros ????. by apply Hmono.
  - intros n t' Hn H0. rewrite Hsucc in Hn.
    destruct (decide (n = u)) as [->|Hnu].
    + rewrite lookup_insert in Hn. by injection Hn as <-.
    + rewrite lookup_insert_ne in Hn by done. by apply (m_new _ _ _ _ HM n).
  - intros n t' Hn Hn1 HnT. rewrite Hsucc in Hn.
    destruct (decide (n = u)) as [->|Hnu].
    + rewrite lookup_insert in Hn. injection Hn as <-.
      unfold node_ok. rewrite Hnv, (Mid_nvars _ _ _ _ HM).
      rewrite !(lvl_mono s s') by done. cbn [t t_lvl t_lo t_hi].
      split_and!; try done; by apply (valid_mono s s').
    + rewrite lookup_insert_ne in Hn by done.
      apply (node_ok_mono s s'); [done|done|]. by apply (m_node _ _ _ _ HM n).
Qed.

Lemma foa_res_valid s i v w p : valid s v → foa_res s i v w p →
  valid s p ∧ ((p = v ∧ v = w) ∨ (lvl_of s p = i ∧ v ≠ w)).
Proof.
  intros Hv [[E ->]|[Hne (n&Hn&->)]].
  - split; [done|]. left. split; [done|]. by apply (sgn_inj w).
  - split.
    + split; [destruct (sgn_cases w) as [->| ->]; lia|]. rewrite absn_sgn, absn_pos. eauto.
    + right. unfold lvl_of. rewrite absn_sgn, absn_pos, Hn. split; [done|]. congruence.
Qed.

Lemma foa_mid s0 x s T v w :
  Mid s0 x s T → x + 1 < nvars s0 →
  valid s v → valid s w → x + 1 < lvl_of s v → x + 1 < lvl_of s w →
  room s 1 →
  ∃ p s', find_or_add (x + 1) v w s = (Ok p, s') ∧ Mid s0 x s' T ∧
    succ s ⊆ succ s' ∧ foa_res s' (x + 1) v w p ∧
    (∀ n, succ s !! n = None → is_Some (succ s' !! n) →
          n = absn p ∧ lvl_of s' p = x + 1) ∧
    (s' = s ∨
     (sgn w * v ≠ sgn w * w)%Z ∧ succ s !! min_free s = None ∧
     s' = bump (sgn w * w) (bump (sgn w * v)
            (add_node s (min_free s) (Triple (x + 1) (sgn w * v) (sgn w * w))))).
Proof.
  intros HM Hy Hv Hw Hlv Hlw Hroom.
  destruct (m_free _ _ _ _ HM) as [Hfree Hbelow].
  rewrite (foa_run s (x + 1) v w (m_ll _ _ _ _ HM)
             ltac:(rewrite (Mid_nvars _ _ _ _ HM); lia) Hv Hw (m_ref _ _ _ _ HM) Hfree
             (Mid_min_free _ _ _ _ HM) Hbelow Hroom).
  case_decide as E.
  { exists v, s. split_and!; try done; [by left| |by left].
    intros n Hn [? ?]. congruence. }
  destruct (pred s !! Triple (x + 1) (sgn w * v) (sgn w * w)) as [u|] eqn:Hp.
  { exists (sgn w * Z.pos u)%Z, s. split_and!; try done; [| |by left];
      [|intros n Hn [? ?]; congruence].
    right. split; [done|]. exists u. split; [|done]. by apply (m_pred _ _ _ _ HM) in Hp as [? _]. }
  destruct (Mid_add s0 x s T (sgn w * v) (sgn w * w) HM Hy) as (HM'&Hsub&Hnew);
    try done; try (by apply valid_sgn); try (by rewrite lvl_sgn).
  { apply sgn_pos, Hw. }
  eexists _, _. split; [reflexivity|]. split_and!; try done.
  - right. split; [done|]. exists (min_free s). done.
  - intros n Hn Hn'. cbn in Hn'. destruct (decide (n = min_free s)) as [->|Hne].
    + rewrite absn_sgn, absn_pos. split; [done|].
      unfold lvl_of. rewrite absn_sgn, absn_pos, Hnew. done.
    + rewrite lookup_insert_ne in Hn' by done. destruct Hn'. congruence.
  - right. done.
Qed.

(** the room left after one [find_or_add] *)
Lemma foa_room s i v w k s' :
  room s (S k) →
  (s' = s ∨
   (sgn w * v ≠ sgn w * w)%Z ∧ succ s !! min_free s = None ∧
   s' = bump (sgn w * w) (bump (sgn w * v)
          (add_node s (min_free s) (Triple i (sgn w * v) (sgn w * w))))) →
  room s' k.
Proof.
  intros Hr [->|(_&Hf&->)]; [apply (room_le s (S k)); [lia|done]|].
  by apply (room_add s (min_free s) (Triple i (sgn w * v) (sgn w * w)) k
              (fun s => bump (sgn w * w) (bump (sgn w * v)
                 (add_node s (min_free s) (Triple i (sgn w * v) (sgn w * w)))))).
Qed.

(** ** counts while node [u] is detached (its out-edges already decref'd) *)
Definition CountsD (s : st) (L : positive → nat) (u : positive) : Prop :=
  (∀ n, n ∈ dom (succ s) → refc s !! n = Some (indeg (delete u (succ s)) n + L n)) ∧
  (∀ n, n ∉ dom (succ s) → L n = 0).

Lemma Mid_edges s0 x s T n t k : Inv s0 → Mid s0 x s T →
  succ s !! n = Some t → 0 < edges_to t k → k ∈ dom (succ s).
Proof.
  intros HI HM Hn He.
  destruct (decide (n = 1%positive)) as [->|Hn1].
  { rewrite (m_term _ _ _ _ HM) in Hn. injection Hn as <-.
    unfold edges_to, tterm in He. cbn in He. repeat case_decide; try lia; naive_solver. }
  assert (valid s (t_lo t) ∧ valid s (t_hi t)) as [Hl Hh].
  { destruct (decide (n ∈ T)) as [HT|HT].
    - destruct (m_T _ _ _ _ HM n HT) as (t'&H0&_&_&Ht'). assert (t' = t) as -> by congruence.
      destruct (inv_node _ HI _ _ H0 Hn1) as (_&[? Hl]&_&[? Hh]&_).
      split; (split; [done|]); by apply (Mid_dom s0 x s T).
    - destruct (m_node _ _ _ _ HM n t Hn Hn1 HT) as (_&?&_&?&_). done. }
  apply elem_of_dom.
  destruct (edges_to_cases _ _ He) as [[_ <-]|[_ <-]]; [apply Hl|apply Hh].
Qed.

Lemma CountsD_add s L u i v w :
  CountsD s L u → u ∈ dom (succ s) → succ s !! min_free s = None →
  (∀ n t, succ s !! n = Some t → edges_to t (min_free s) = 0) →
  valid s v → valid s w →
  CountsD (bump w (bump v (add_node s (min_free s) (Triple i v w)))) L u.
Proof.
  intros [H1 H2] Hu Hfree Hnone Hv Hw.
  set (k := min_free s) in *. set (t := Triple i v w).
  assert (Hvk : absn v ≠ k) by (intros E; destruct Hv as [_ [? Hx]]; congruence).
  assert (Hwk : absn w ≠ k) by (intros E; destruct Hw as [_ [? Hx]]; congruence).
  assert (Hkd : k ∉ dom (succ s)) by (by apply not_elem_of_dom).
  assert (Huk : u ≠ k) by (intros ->; done).
  split.
  - intros n Hn. cbn in Hn |- *. rewrite delete_insert_ne by done.
    rewrite indeg_insert_fresh by (rewrite lookup_delete_ne by done; done).
    rewrite !lookup_alter_if.
    destruct (decide (n = k)) as [->|Hnk].
    + rewrite lookup_insert. rewrite !decide_False by done. cbn. f_equal.
      rewrite (H2 k Hkd). rewrite indeg_zero.
      * unfold edges_to, t. cbn. rewrite !decide_False; [done|naive_solver..].
      * intros k' t' Hk'. apply lookup_delete_Some in Hk' as [_ Hk']. by apply (Hnone k').
    + rewrite lookup_insert_ne by done.
      rewrite dom_insert_L in Hn. assert (n ∈ dom (succ s)) as Hn' by set_solver.
      rewrite (H1 n Hn'). unfold edges_to, t. cbn [t_lo t_hi].
      destruct Hv as [Hv0 _], Hw as [Hw0 _].
      destruct (decide (absn v = n)), (decide (absn w = n));
        repeat case_decide; try naive_solver; cbn; f_equal; lia.
  - intros n Hn. cbn in Hn. apply H2. rewrite dom_insert_L in Hn. set_solver.
Qed.

Lemma foa_mid_counts s0 x s T L u v w p s' :
  Inv s0 → Mid s0 x s T → x + 1 < nvars s0 →
  valid s v → valid s w → x + 1 < lvl_of s v → x + 1 < lvl_of s w →
  CountsD s L u → u ∈ dom (succ s) → room s 1 →
  find_or_add (x + 1) v w s = (Ok p, s') → CountsD s' L u.
Proof.
  intros HI HM Hy Hv Hw Hlv Hlw HC Hu Hroom Hrun.
  destruct (foa_mid s0 x s T v w HM Hy Hv Hw Hlv Hlw Hroom) as (p'&s''&Hrun'&_&_&_&_&Hs).
  rewrite Hrun in Hrun'. injection Hrun' as -> ->.
  destruct Hs as [->|(_&Hfree&->)]; [done|].
  apply CountsD_add; try done; try (by apply valid_sgn).
  intros n t Hn. destruct (decide (0 < edges_to t (min_free s))) as [He|]; [|lia].
  apply (Mid_edges s0 x s T n t _ HI HM Hn) in He. apply elem_of_dom in He as [? He]. congruence.
Qed.

(** ** cofactors in the original manager *)
Section cofs.
Context (s0 : st) (HI : Inv s0) (y : nat) (Hy : y < nvars s0).

Lemma cofs_spec v : valid s0 v → y ≤ lvl_of s0 v →
  valid s0 (cofs s0 y v).1 ∧ valid s0 (cofs s0 y v).2 ∧
  y < lvl_of s0 (cofs s0 y v).1 ∧ y < lvl_of s0 (cofs s0 y v).2 ∧
  (lvl_of s0 v = y → (cofs s0 y v).1 ≠ (cofs s0 y v).2) ∧
  (lvl_of s0 v ≠ y → cofs s0 y v = (v, v)) ∧
  ((0 < v)%Z → (0 < (cofs s0 y v).2)%Z) ∧
  ∀ a, D s0 v a = if a y then D s0 (cofs s0 y v).2 a else D s0 (cofs s0 y v).1 a.
Proof.
  intros Hv Hl. unfold cofs.
  destruct (node_cases s0 HI v Hv) as [[E El]|(t&Ht&Hn1&Hlo&Hlt&?&Hvl&Hvh&Hhp&Hll&Hlh&Hne)].
  - rewrite E, (inv_term _ HI). cbn [tterm t_lvl]. rewrite decide_False by lia. cbn [fst snd].
    split_and!; try done; try lia. intros a. by destruct (a y).
  - rewrite Ht. case_decide as Ey; cbn [fst snd].
    + unfold flip. destruct (decide (v < 0)%Z) as [Hneg|Hpos].
      * rewrite !lvl_neg. split_and!; try (by apply valid_neg); try lia.
        intros a. rewrite (D_step s0 HI v a t Hv Ht Hn1), !D_neg by done.
        rewrite bool_decide_eq_true_2 by done. rewrite Ey. by destruct (a y).
      * split_and!; try done; try lia.
        intros a. rewrite (D_step s0 HI v a t Hv Ht Hn1).
        rewrite bool_decide_eq_false_2 by done. by rewrite Ey, xorb_false_l.
    + split_and!; try done; try lia. intros a. by destruct (a y).
Qed.

Lemma cofs_inj v v' : valid s0 v → valid s0 v' → y ≤ lvl_of s0 v → y ≤ lvl_of s0 v' →
  cofs s0 y v = cofs s0 y v' → v = v'.
Proof.
  intros Hv Hv' Hl Hl' E.
  destruct (decide (lvl_of s0 v = y)) as [Ey|Ey], (decide (lvl_of s0 v' = y)) as [Ey'|Ey'].
  - destruct (node_cases s0 HI v Hv) as [[? El]|(t&Ht&Hn1&Hlo&Hlt&?&Hvl&Hvh&Hhp&Hll&Hlh&Hne)]; [lia|].
    destruct (node_cases s0 HI v' Hv') as [[? El]|(t'&Ht'&Hn1'&Hlo'&Hlt'&?&Hvl'&Hvh'&Hhp'&Hll'&Hlh'&Hne')]; [lia|].
    unfold cofs in E. rewrite Ht, Ht' in E. rewrite !decide_True in E by lia.
    unfold flip in E. injection E as E1 E2.
    assert (t = t' ∧ ((v < 0)%Z ↔ (v' < 0)%Z)) as [-> Hs].
    { destruct t as [i a b], t' as [i' a' b']. cbn in *.
      repeat case_decide; try lia; (split; [f_equal; lia|lia]). }
    assert (absn v = absn v') as Ea.
    { apply (inv_pred _ HI) in Ht, Ht'. congruence. }
    destruct Hv as [? _], Hv' as [? _]. unfold absn in Ea. lia.
  - exfalso. destruct (cofs_spec v Hv Hl) as (_&_&_&_&Hd&_).
    destruct (cofs_spec v' Hv' Hl') as (_&_&_&_&_&He&_).
    rewrite E, (He Ey') in Hd. by apply Hd.
  - exfalso. destruct (cofs_spec v' Hv' Hl') as (_&_&_&_&Hd&_).
    destruct (cofs_spec v Hv Hl) as (_&_&_&_&_&He&_).
    rewrite <- E, (He Ey) in Hd. by apply Hd.
  - destruct (cofs_spec v' Hv' Hl') as (_&_&_&_&_&He'&_).
    destruct (cofs_spec v Hv Hl) as (_&_&_&_&_&He&_).
    rewrite (He Ey), (He' Ey') in E. congruence.
Qed.
End cofs.

Lemma foa_res_inj s i v w v' w' p :
  foa_res s i v w p → foa_res s i v' w' p →
  i < lvl_of s v → i < lvl_of s v' → v = v' ∧ w = w'.
Proof.
  intros [[E ->]|[Hne (n&Hn&->)]] [[E' Ep]|[Hne' (n'&Hn'&Ep)]] Hl Hl'.
  - subst. apply sgn_inj in E, E'. by subst.
  - subst. exfalso. unfold lvl_of in Hl. rewrite absn_sgn, absn_pos, Hn' in Hl. cbn in Hl. lia.
  - subst. exfalso. unfold lvl_of in Hl'. rewrite absn_sgn, absn_pos, Hn in Hl'. cbn in Hl'. lia.
  - assert (sgn w = sgn w' ∧ n = n') as [Es ->].
    { destruct (sgn_cases w) as [E1|E1], (sgn_cases w') as [E2|E2]; rewrite E1, E2 in *; split; lia. }
    rewrite Hn in Hn'. injection Hn' as E1 E2. rewrite Es in E1, E2.
    apply sgn_inj in E1, E2. done.
Qed.

Section mid.
Context (s0 : st) (HI : Inv s0) (x : nat) (Hy : x + 1 < nvars s0).

(** a node strictly below level [x] in the original manager, seen in a mid state *)
Lemma Mid_child s T z : Mid s0 x s T → valid s0 z → x < lvl_of s0 z →
  valid s z ∧
  (lvl_of s0 z = x + 1 → ∃ t0, succ s0 !! absn z = Some t0 ∧ t_lvl t0 = x + 1 ∧
      succ s !! absn z = Some (Triple x (t_lo t0) (t_hi t0))) ∧
  (lvl_of s0 z ≠ x + 1 → succ s !! absn z = succ s0 !! absn z ∧
      lvl_of s z = lvl_of s0 z).
Proof.
  intros HM [Hz0 [t0 H0]] Hl.
  assert (HzT : absn z ∉ T).
  { intros HT. destruct (m_T _ _ _ _ HM _ HT) as (t&Ht&Hlt&_).
    unfold lvl_of in Hl. rewrite Ht in Hl. lia. }
  destruct (m_old _ _ _ _ HM _ t0 H0 HzT) as (t&Ht&Hi).
  unfold lvl_of in Hl |- *. rewrite H0 in Hl |- *.
  split; [split; [done|eauto]|].
  unfold mid_img in Hi. split.
  - intros E. rewrite decide_True in Hi by done. subst t. eauto.
  - intros E. rewrite decide_False in Hi by done. rewrite decide_False in Hi by lia.
    subst t. by rewrite Ht.
Qed.

Lemma swap_cofactor_mid s T z : Mid s0 x s T → valid s0 z → x < lvl_of s0 z →
  ∃ iz z0 z1, swap_cofactor z (x + 1) s = (Ok (iz, z0, z1), s) ∧
    x + 1 ≤ iz ∧ (x + 1 = iz ↔ lvl_of s0 z = x + 1) ∧
    (if decide ((z < 0)%Z ∧ x + 1 = iz) then (- z0, - z1)%Z else (z0, z1)) = cofs s0 (x + 1) z.
Proof.
  intros HM Hz Hl. destruct (Mid_child s T z HM Hz Hl) as (Hzs&Hy1&Hy2).
  unfold swap_cofactor, cofs.
  destruct (decide (lvl_of s0 z = x + 1)) as [E|E].
  - destruct (Hy1 E) as (t0&H0&Hl0&Ht). rewrite H0.
    rewrite (bind_ok _ _ _ _ _ (getsuccZ_ok s z _ (proj1 Hz) Ht)). cbn [t_lvl t_lo t_hi].
    rewrite decide_False by lia.
    assert (absn z ≠ 1%positive) as Hn1.
    { intros E1. rewrite E1, (inv_term _ HI) in H0. injection H0 as <-. cbn in Hl0. lia. }
    destruct (inv_node _ HI _ _ H0 Hn1) as (_&[Hlo _]&_).
    unfold assert, is_term. cbn [t_lo]. rewrite bool_decide_eq_false_2 by done.
    cbn [negb bind ret].
    eexists _, _, _. split; [reflexivity|]. split; [lia|]. split; [done|].
    rewrite (decide_True (P := t_lvl t0 = x + 1)) by done. unfold flip.
    destruct (decide (z < 0)%Z).
    + by rewrite decide_True.
    + rewrite decide_False by tauto. done.
  - destruct (Hy2 E) as [Ht Hls]. destruct Hz as [Hz0 [t0 H0]]. rewrite H0 in Ht |- *.
    rewrite (bind_ok _ _ _ _ _ (getsuccZ_ok s z _ Hz0 Ht)).
    unfold lvl_of in Hl, E. rewrite H0 in Hl, E.
    rewrite decide_True by lia. rewrite decide_False by done.
    eexists _, _, _. split; [reflexivity|]. split; [lia|].
    split; [unfold lvl_of; rewrite H0; lia|].
    rewrite decide_False; [done|]. lia.
Qed.
End mid.
