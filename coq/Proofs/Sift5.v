(** * Sift5: the number of nodes of a manager without unreferenced nodes is
      determined by the variable order and the functions of the held nodes *)
From DD Require Export Sift4.

(** ** counting through an injective relation *)
Lemma rel_inj_size (X Y : gset positive) (R : positive → positive → Prop) :
  (∀ x, x ∈ X → ∃ y, y ∈ Y ∧ R x y) →
  (∀ x x' y, x ∈ X → x' ∈ X → R x y → R x' y → x = x') →
  size X ≤ size Y.
Proof.
  revert Y. induction X as [|x X Hx IH] using set_ind_L; intros Y Htot Hinj.
  - rewrite size_empty. lia.
  - destruct (Htot x ltac:(set_solver)) as (y&Hy&Hxy).
    rewrite size_union by set_solver. rewrite size_singleton.
    assert (size Y = 1 + size (Y ∖ {[y]})) as ->.
    { rewrite <- (size_singleton (C := gset positive) y), <- size_union by set_solver.
      f_equal. by apply union_difference_singleton_L. }
    apply le_n_S, IH.
    + intros x' Hx'. destruct (Htot x' ltac:(set_solver)) as (y'&Hy'&Hxy').
      exists y'. split; [|done]. apply elem_of_difference. split; [done|].
      rewrite elem_of_singleton. intros ->.
      assert (x' = x) by (apply (Hinj x' x y); [set_solver|set_solver|done|done]). set_solver.
    + intros a b c Ha Hb. apply Hinj; set_solver.
Qed.

(** ** no unreferenced node = every node is reachable from a held one *)
Lemma nozero_reach s L : Inv s → Counts s L → nozero s →
  ∀ n, n ∈ dom (succ s) → n ≠ 1%positive → reach (succ s) (fun k => 0 < L k) n.
Proof.
  intros HI [HC1 HC2] Hnz.
  assert (Hgen : ∀ k n t, succ s !! n = Some t → t_lvl t = k → n ≠ 1%positive →
             reach (succ s) (fun k => 0 < L k) n).
  { intros k. induction (lt_wf k) as [k _ IH]. intros n t Hn Hk Hn1.
    assert (Hnd : n ∈ dom (succ s)) by (apply elem_of_dom; eauto).
    destruct (decide (0 < L n)) as [HL|HL]; [by apply reach_root|].
    pose proof (Hnz n Hnd Hn1) as Hr. rewrite (HC1 n Hnd) in Hr.
    assert (0 < indeg (succ s) n) as Hi.
    { destruct (indeg (succ s) n); [|lia]. exfalso. apply Hr. f_equal. lia. }
    destruct (indeg_pos _ _ Hi) as (p&tp&Hp&He).
    destruct (Inv_edges_dom s p tp n HI Hp He) as [_ Hp1].
    destruct (inv_node _ HI _ _ Hp Hp1) as (_&_&_&_&Hll&Hlh&_).
    destruct (edges_to_cases _ _ He) as [[H0 E]|[H0 E]].
    - unfold lvl_of in Hll. rewrite E, Hn in Hll. rewrite <- E.
      apply (reach_lo _ _ p tp); [|done|done].
      apply (IH (t_lvl tp)) with tp; [lia|done|done|done].
    - unfold lvl_of in Hlh. rewrite E, Hn in Hlh. rewrite <- E.
      apply (reach_hi _ _ p tp); [|done|done].
      apply (IH (t_lvl tp)) with tp; [lia|done|done|done]. }
  intros n Hn Hn1. apply elem_of_dom in Hn as [t Hn]. by apply (Hgen (t_lvl t) n t).
Qed.

(** ** the same function in two managers over the same levels *)
Section two.
Context (s1 s2 : st) (HI1 : Inv s1) (HI2 : Inv s2) (Hn : nvars s1 = nvars s2).

Lemma top_level_lt u1 u2 : valid s1 u1 → valid s2 u2 →
  (∀ a, D s1 u1 a = D s2 u2 a) → ¬ lvl_of s1 u1 < lvl_of s2 u2.
Proof.
  intros Hv1 Hv2 HD Hlt.
  destruct (node_cases s1 HI1 u1 Hv1) as [[E El]|(t&Ht&Hn1&Hlo&Hl&?&Hvl&Hvh&Hhp&Hll&Hlh&Hne)].
  { pose proof (lvl_le s2 HI2 u2 Hv2). lia. }
  apply Hne. apply (canonical_levels s1 HI1); try done. intros a.
  pose proof (HD (upd a (t_lvl t) true)) as HA1.
  pose proof (HD (upd a (t_lvl t) false)) as HA0.
  rewrite (D_step s1 HI1 u1 _ t Hv1 Ht Hn1) in HA1.
  rewrite (D_step s1 HI1 u1 _ t Hv1 Ht Hn1) in HA0. rewrite upd_same in HA1, HA0.
  rewrite (D_upd_above s2 HI2 u2) in HA1 by (done || lia).
  rewrite (D_upd_above s2 HI2 u2) in HA0 by (done || lia).
  rewrite (D_upd_above s1 HI1 (t_hi t)) in HA1 by (done || lia).
  rewrite (D_upd_above s1 HI1 (t_lo t)) in HA0 by (done || lia).
  destruct (D s1 (t_lo t) a), (D s1 (t_hi t) a), (D s2 u2 a), (bool_decide (u1 < 0)%Z); done.
Qed.
End two.

Lemma top_level s1 s2 u1 u2 : Inv s1 → Inv s2 → nvars s1 = nvars s2 →
  valid s1 u1 → valid s2 u2 →
  (∀ a, D s1 u1 a = D s2 u2 a) → lvl_of s1 u1 = lvl_of s2 u2.
Proof.
  intros HI1 HI2 Hn Hv1 Hv2 HD.
  pose proof (top_level_lt s1 s2 HI1 HI2 Hn u1 u2 Hv1 Hv2 HD).
  pose proof (top_level_lt s2 s1 HI2 HI1 (eq_sym Hn) u2 u1 Hv2 Hv1 ltac:(intros; by rewrite HD)). lia.
Qed.

Lemma pos_part s1 s2 c1 c2 : Inv s1 → Inv s2 → valid s1 c1 → valid s2 c2 →
  (∀ a, D s1 c1 a = D s2 c2 a) →
  ∀ a, D s1 (Z.pos (absn c1)) a = D s2 (Z.pos (absn c2)) a.
Proof.
  intros HI1 HI2 Hv1 Hv2 HD a.
  pose proof (HD (fun _ => true)) as Hs.
  rewrite (D_all_true s1 HI1 c1 Hv1), (D_all_true s2 HI2 c2 Hv2) in Hs.
  destruct Hv1 as [H10 Hv1'], Hv2 as [H20 Hv2'].
  destruct (decide (0 < c1)%Z) as [Hp|Hp].
  - rewrite bool_decide_eq_true_2 in Hs by done. symmetry in Hs. apply bool_decide_eq_true in Hs.
    replace (Z.pos (absn c1)) with c1 by (unfold absn; lia).
    replace (Z.pos (absn c2)) with c2 by (unfold absn; lia). apply HD.
  - rewrite bool_decide_eq_false_2 in Hs by done. symmetry in Hs. apply bool_decide_eq_false in Hs.
    assert (valid s1 (Z.pos (absn c1))) as V1 by (split; [done|by rewrite absn_pos]).
    assert (valid s2 (Z.pos (absn c2))) as V2 by (split; [done|by rewrite absn_pos]).
    pose proof (HD a) as E.
    replace c1 with (- Z.pos (absn c1))%Z in E by (unfold absn; lia).
    replace c2 with (- Z.pos (absn c2))%Z in E by (unfold absn; lia).
    rewrite (D_neg s1 HI1 _ a V1), (D_neg s2 HI2 _ a V2) in E.
    by destruct (D s1 (Z.pos (absn c1)) a), (D s2 (Z.pos (absn c2)) a).
Qed.

(** children of counterparts are counterparts *)
Lemma kids_match s1 s2 p1 p2 t1 : Inv s1 → Inv s2 → nvars s1 = nvars s2 →
  succ s1 !! p1 = Some t1 → t_lo t1 ≠ 0%Z → is_Some (succ s2 !! p2) →
  (∀ a, D s1 (Z.pos p1) a = D s2 (Z.pos p2) a) →
  ∃ t2, succ s2 !! p2 = Some t2 ∧ valid s2 (t_lo t2) ∧ valid s2 (t_hi t2) ∧
    (∀ a, D s1 (t_lo t1) a = D s2 (t_lo t2) a) ∧
    (∀ a, D s1 (t_hi t1) a = D s2 (t_hi t2) a).
Proof.
  intros HI1 HI2 Hn Ht1 Hlo1 Hs2 HD.
  assert (V1 : valid s1 (Z.pos p1)) by (split; [done|rewrite absn_pos; eauto]).
  assert (V2 : valid s2 (Z.pos p2)) by (split; [done|by rewrite absn_pos]).
  pose proof (top_level s1 s2 _ _ HI1 HI2 Hn V1 V2 HD) as Hl.
  destruct (node_cases s1 HI1 _ V1) as [[E _]|(t&Ht&Hn1&_&Hl1&Hlt1&Hvl1&Hvh1&_&Hll1&Hlh1&_)].
  { rewrite absn_pos in E. subst p1. rewrite (inv_term _ HI1) in Ht1. injection Ht1 as <-. done. }
  rewrite absn_pos in Ht. rewrite Ht1 in Ht. injection Ht as <-.
  destruct (node_cases s2 HI2 _ V2) as [[_ E]|(t2&Ht2&Hn2&_&Hl2&Hlt2&Hvl2&Hvh2&_&Hll2&Hlh2&_)].
  { lia. }
  rewrite absn_pos in Ht2. exists t2. split_and!; try done.
  - intros a. pose proof (HD (upd a (t_lvl t1) false)) as E.
    rewrite (D_step s1 HI1 _ _ t1 V1) in E by (by rewrite ?absn_pos).
    rewrite (D_step s2 HI2 _ _ t2 V2) in E by (by rewrite ?absn_pos).
    assert (t_lvl t2 = t_lvl t1) as El by lia. rewrite El, !upd_same in E.
    rewrite (D_upd_above s1 HI1 (t_lo t1)) in E by (done || lia).
    rewrite (D_upd_above s2 HI2 (t_lo t2)) in E by (done || lia).
    rewrite !bool_decide_eq_false_2 in E by lia. by rewrite !xorb_false_l in E.
  - intros a. pose proof (HD (upd a (t_lvl t1) true)) as E.
    rewrite (D_step s1 HI1 _ _ t1 V1) in E by (by rewrite ?absn_pos).
    rewrite (D_step s2 HI2 _ _ t2 V2) in E by (by rewrite ?absn_pos).
    assert (t_lvl t2 = t_lvl t1) as El by lia. rewrite El, !upd_same in E.
    rewrite (D_upd_above s1 HI1 (t_hi t1)) in E by (done || lia).
    rewrite (D_upd_above s2 HI2 (t_hi t2)) in E by (done || lia).
    rewrite !bool_decide_eq_false_2 in E by lia. by rewrite !xorb_false_l in E.
Qed.

(** ** every node of a tight manager has a counterpart *)
Definition same_held (L : positive → nat) (s1 s2 : st) : Prop :=
  ∀ u, held L u → ∀ a, D s1 u a = D s2 u a.

Section size.
Context (L : positive → nat) (s1 s2 : st).
Context (HI1 : Inv s1) (HI2 : Inv s2) (HC1 : Counts s1 L) (HC2 : Counts s2 L).
Context (Hn : nvars s1 = nvars s2) (Hheld : same_held L s1 s2).

Lemma counterpart n1 : reach (succ s1) (fun k => 0 < L k) n1 →
  ∃ n2, is_Some (succ s2 !! n2) ∧ ∀ a, D s1 (Z.pos n1) a = D s2 (Z.pos n2) a.
Proof.
  induction 1 as [n HL Hnd|p t Hp IH Ht Hl|p t Hp IH Ht Hh].
  - assert (held L (Z.pos n)) as Hh by (split; [done|right; by rewrite absn_pos]).
    exists n. split; [|by apply Hheld].
    destruct (held_valid L s2 _ HI2 HC2 Hh) as [_ ?]. by rewrite absn_pos in *.
  - destruct IH as (p2&Hp2&HD).
    assert (Hlo : t_lo t ≠ 0%Z) by done.
    destruct (kids_match s1 s2 p p2 t HI1 HI2 Hn Ht Hlo Hp2 HD) as (t2&Ht2&Vl2&Vh2&Dl&Dh).
    assert (p ≠ 1%positive) as Hp1.
    { intros ->. rewrite (inv_term _ HI1) in Ht. injection Ht as <-. done. }
    destruct (inv_node _ HI1 _ _ Ht Hp1) as (_&Vl1&_&Vh1&_).
    exists (absn (t_lo t2)). split; [apply Vl2|]. by apply pos_part.
  - destruct IH as (p2&Hp2&HD).
    assert (p ≠ 1%positive) as Hp1.
    { intros ->. rewrite (inv_term _ HI1) in Ht. injection Ht as <-. done. }
    destruct (inv_node _ HI1 _ _ Ht Hp1) as (_&Vl1&_&Vh1&_).
    assert (Hlo : t_lo t ≠ 0%Z) by apply Vl1.
    destruct (kids_match s1 s2 p p2 t HI1 HI2 Hn Ht Hlo Hp2 HD) as (t2&Ht2&Vl2&Vh2&Dl&Dh).
    exists (absn (t_hi t2)). split; [apply Vh2|]. by apply pos_part.
Qed.

Lemma size_le : nozero s1 → len s1 ≤ len s2.
Proof.
  intros Hnz. unfold len. rewrite <- !size_dom.
  apply (rel_inj_size _ _ (fun x y => ∀ a, D s1 (Z.pos x) a = D s2 (Z.pos y) a)).
  - intros x Hx. destruct (decide (x = 1%positive)) as [->|Hx1].
    + exists 1%positive. split.
      * apply elem_of_dom. rewrite (inv_term _ HI2). eauto.
      * intros a. by rewrite (D_1 s1 HI1), (D_1 s2 HI2).
    + destruct (counterpart x (nozero_reach s1 L HI1 HC1 Hnz x Hx Hx1)) as (y&Hy&HD).
      exists y. split; [by apply elem_of_dom|done].
  - intros x x' y Hx Hx' H1 H2.
    assert (Z.pos x = Z.pos x') as E; [|by injection E].
    apply (canonical_levels s1 HI1).
    + split; [done|]. rewrite absn_pos. by apply elem_of_dom.
    + split; [done|]. rewrite absn_pos. by apply elem_of_dom.
    + intros a. by rewrite H1, H2.
Qed.
End size.

Theorem size_determined L s1 s2 :
  Inv s1 → Inv s2 → Counts s1 L → Counts s2 L → nozero s1 → nozero s2 →
  nvars s1 = nvars s2 → same_held L s1 s2 → len s1 = len s2.
Proof.
  intros HI1 HI2 HC1 HC2 Hz1 Hz2 Hn Hh.
  pose proof (size_le L s1 s2 HI1 HI2 HC1 HC2 Hn Hh Hz1).
  pose proof (size_le L s2 s1 HI2 HI1 HC2 HC1 (eq_sym Hn)
                ltac:(intros u Hu a; by rewrite (Hh u Hu a)) Hz2). lia.
Qed.

(** by variable names *)
Lemma l2v_of_vars s1 s2 : Inv s1 → Inv s2 → vars s1 = vars s2 → lvl2var s1 = lvl2var s2.
Proof.
  intros HI1 HI2 E. apply map_eq. intros l. apply option_eq. intros v.
  by rewrite <- (inv_vars _ HI1), <- (inv_vars _ HI2), E.
Qed.

Lemma denv_D s1 s2 u : Inv s1 → Inv s2 → vars s1 = vars s2 → valid s1 u → valid s2 u →
  (∀ ρ, denv s1 u ρ = denv s2 u ρ) → ∀ a, D s1 u a = D s2 u a.
Proof.
  intros HI1 HI2 E Hv1 Hv2 HD a.
  pose proof (l2v_of_vars s1 s2 HI1 HI2 E) as El.
  set (ρ := fun x => match vars s1 !! x with Some l => a l | None => false end).
  specialize (HD ρ). unfold denv in HD.
  assert (Hn : nvars s1 = nvars s2) by (unfold nvars; by rewrite E).
  rewrite (D_indep_lt s1 HI1 u a (fun l => match lvl2var s1 !! l with Some x => ρ x | None => false end)); [|done|].
  rewrite (D_indep_lt s2 HI2 u a (fun l => match lvl2var s2 !! l with Some x => ρ x | None => false end)); [done|done|].
  all: intros j Hj.
  - rewrite <- Hn in Hj. rewrite <- El. apply (inv_lvls _ HI1) in Hj as [x Hx]. rewrite Hx. subst ρ. cbn.
    apply (inv_vars _ HI1) in Hx. by rewrite Hx.
  - apply (inv_lvls _ HI1) in Hj as [x Hx]. rewrite Hx. subst ρ. cbn.
    apply (inv_vars _ HI1) in Hx. by rewrite Hx.
Qed.

(** two states reached from a common one with the same variable order *)
Theorem size_same_order L s0 sa sb :
  Stp L s0 sa → Stp L s0 sb → nozero s0 → vars sa = vars sb → len sa = len sb.
Proof.
  intros ((HIa&HCa&_)&Hna&Hka&Hza) ((HIb&HCb&_)&Hnb&Hkb&Hzb) Hz0 Ev.
  apply (size_determined L); auto; [congruence|].
  intros u Hu. destruct (Hka u Hu) as (_&Va&Da), (Hkb u Hu) as (_&Vb&Db).
  apply denv_D; try done. intros ρ. by rewrite Da, Db.
Qed.
