(** * Sift5: the number of nodes of a manager without unreferenced nodes is
      determined by the variable order and the functions of the held nodes *)
From DD Require Export Sift4.

(** ** counting through an injective relation *)
Lemma rel_inj_size (X Y : gset positive) (R : positive → positive → Prop) :
  (∀ x, x ∈ X → ∃ y, y ∈ Y ∧ R x y) →
  (∀ x x' y, x ∈ X → x' ∈ X → R x y → R x' y → x = x') →
  size X ≤ size Y.
Proof.
  revert Y. induction X as [|x X Hx IH] using set_ind_L; intros Y Htot Hinj.
  - rewrite size_empty. lia.
  - destruct (Htot x ltac:(set_solver)) as (y&Hy&Hxy).
    rewrite size_union by set_solver. rewrite size_singleton.
    assert (size Y = 1 + size (Y ∖ {[y]})) as ->.
    { rewrite <- (size_singleton y), <- size_union by set_solver. f_equal.
      apply leibniz_equiv. rewrite <- union_difference_singleton_L; [done|done]. }
    apply le_n_S, IH.
    + intros x' Hx'. destruct (Htot x' ltac:(set_solver)) as (y'&Hy'&Hxy').
      exists y'. split; [|done]. apply elem_of_difference. split; [done|].
      rewrite elem_of_singleton. intros ->.
      assert (x' = x) by (apply (Hinj x' x y); [set_solver|set_solver|done|done]). set_solver.
    + intros a b c Ha Hb. apply Hinj; set_solver.
Qed.

(** ** no unreferenced node = every node is reachable from a held one *)
Lemma nozero_reach s L : Inv s → Counts s L → nozero s →
  ∀ n, n ∈ dom (succ s) → n ≠ 1%positive → reach (succ s) (fun k => 0 < L k) n.
Proof.
  intros HI [HC1 HC2] Hnz.
  assert (Hgen : ∀ k n t, succ s !! n = Some t → t_lvl t = k → n ≠ 1%positive →
             reach (succ s) (fun k => 0 < L k) n).
  { intros k. induction (lt_wf k) as [k _ IH]. intros n t Hn Hk Hn1.
    assert (Hnd : n ∈ dom (succ s)) by (apply elem_of_dom; eauto).
    destruct (decide (0 < L n)) as [HL|HL]; [by apply reach_root|].
    pose proof (Hnz n Hnd Hn1) as Hr. rewrite (HC1 n Hnd) in Hr.
    assert (0 < indeg (succ s) n) as Hi.
    { destruct (indeg (succ s) n); [|lia]. exfalso. apply Hr. f_equal. lia. }
    destruct (indeg_pos _ _ Hi) as (p&tp&Hp&He).
    destruct (Inv_edges_dom s p tp n HI Hp He) as [_ Hp1].
    destruct (inv_node _ HI _ _ Hp Hp1) as (_&_&_&_&Hll&Hlh&_).
    destruct (edges_to_cases _ _ He) as [[H0 E]|[H0 E]].
    - unfold lvl_of in Hll. rewrite E, Hn in Hll. rewrite <- E.
      apply (reach_lo _ _ p tp); [|done|done].
      apply (IH (t_lvl tp)) with tp; [lia|done|done|done].
    - unfold lvl_of in Hlh. rewrite E, Hn in Hlh. rewrite <- E.
      apply (reach_hi _ _ p tp); [|done|done].
      apply (IH (t_lvl tp)) with tp; [lia|done|done|done]. }
  intros n Hn Hn1. apply elem_of_dom in Hn as [t Hn]. by apply (Hgen (t_lvl t) n t).
Qed.
