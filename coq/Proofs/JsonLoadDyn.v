(** * JsonLoadDyn: [dd._copy.load_json(..., load_order=False)] through
      [dd.autoref] into a receiver whose dynamic reordering may be ENABLED
      (C09 for the multi-step loader, C12).

    Every intermediate result of the loader is a live [Function] (the memo
    holds an explicit reference, [low], [high], [g], [u] are locals): counted
    temporaries of the model.  The operands of the decorated calls [var] and
    [ite] are therefore HELD in the ledger of the moment and
    [CopyFnDyn.var_dyn] / [ite_dyn] apply: a sifting pass in the middle keeps
    every held node with its function by variable NAME ([CopyFnDyn.DStep]).
    The variable ORDER of the receiver may change. *)
From DD Require Export CopyFnDyn JsonLoad2.

(** ** 1. The decorated part of one line: [g = var(v)], then
    [ite(g, high, low)] under the temporary [g]; [low] and [high] are held *)
Lemma node_core r H n L l low high v :
  DynSt r → Counts r (ledger_add L l) → low ∈ l → high ∈ l →
  valid r low → valid r high → is_Some (vars r !! v) →
  ∃ u r',
    (g <- lift (var v) ;;
     with_tmp g (check_in g ;;; check_in high ;;; check_in low ;;;
                 lift (ite g high low))) (ASt r H n) = (Ok u, ASt r' H n) ∧
    DStep (heldn (ledger_add L l)) r r' ∧ Counts r' (ledger_add L l) ∧ valid r' u ∧
    ∀ ρ, denv r' u ρ = if ρ v then denv r high ρ else denv r low ρ.
Proof.
  intros HD HC Hlo Hhi Hvl Hvh Hv.
  assert (K : ∀ y, y ∈ l → heldn (ledger_add L l) (absn y))
    by (intros y Hy; by apply heldn_add_in).
  destruct (var v r) as [rg r3] eqn:Eg.
  destruct (var_dyn r (ledger_add L l) v rg r3 HD HC Hv Eg) as (g&->&HS3&HC3&Hvg&HDg).
  pose proof HS3 as (HD3&_&_). pose proof (dy_inv r3 HD3) as HI3.
  assert (Hvl3 : valid r3 low) by (by apply (DStep_valid _ r r3 low HS3 (K _ Hlo))).
  assert (Hvh3 : valid r3 high) by (by apply (DStep_valid _ r r3 high HS3 (K _ Hhi))).
  set (r4 := bump g r3).
  assert (HD4 : DynSt r4) by (by apply DynSt_bump).
  pose proof (dy_inv r4 HD4) as HI4.
  assert (HC4 : Counts r4 (ledger_add L (g :: l))) by (by apply Counts_bump_add).
  assert (Hvg4 : valid r4 g) by done.
  assert (Hvl4 : valid r4 low) by done.
  assert (Hvh4 : valid r4 high) by done.
  destruct (ite g high low r4) as [rx r5] eqn:Ex.
  destruct (ite_dyn r4 (ledger_add L (g :: l)) g high low rx r5 HD4 HC4 Hvg4 Hvh4 Hvl4)
    as (u&->&HS5&HC5&Hvu&HDu); [apply heldn_add_in; lmem..|done|].
  pose proof HS5 as (HD5&_&_). pose proof (dy_inv r5 HD5) as HI5.
  assert (Hvg5 : valid r5 g).
  { apply (DStep_valid _ r4 r5 g HS5); [apply heldn_add_in; lmem|done]. }
  set (r6 := unbump g r5).
  assert (HI6 : Inv r6) by (by apply Inv_unbump).
  exists u, r6. split.
  { step (lift_run _ _ H n _ _ Eg).
    apply (with_tmp_ok g _ r3 H n u r5 HI3 Hvg); [|done|done].
    step (check_in_ok r4 H n g Hvg4). step (check_in_ok r4 H n high Hvh4).
    step (check_in_ok r4 H n low Hvl4). exact (lift_run _ _ H n _ _ Ex). }
  split.
  { apply (DStep_trans _ r r3 r6); [done|]. apply (DStep_trans _ r3 r4 r6).
    - apply DStep_grows; [done|done|apply grows_bump].
    - apply (DStep_trans _ r4 r5 r6).
      + apply (DStep_mono _ (heldn (ledger_add L (g :: l)))); [|done].
        intros m. apply heldn_sub. intros y. lmem.
      + apply DStep_grows; [done|done|apply grows_unbump]. }
  split; [by apply (Counts_unbump_add r5 _ _ g Hvg5)|]. split; [done|].
  intros ρ. rewrite (denv_tables r5 r6) by done. rewrite HDu.
  rewrite (denv_tables r3 r4 g) by done. rewrite HDg.
  rewrite (denv_tables r3 r4 high), (denv_tables r3 r4 low) by done.
  rewrite (DStep_denv _ r r3 high ρ HS3 (K _ Hhi) Hvh).
  by rewrite (DStep_denv _ r r3 low ρ HS3 (K _ Hlo) Hvl).
Qed.

(** ** 2. One line of a well-formed file *)
Section node_dyn.
Context (s : st) (HIs : Inv s) (vl : list (nat * nat)) (Hvl : vars_file s vl).

Lemma make_node_dyn cache k t r H n L :
  DynSt r → Counts r (ledger_add L (cvals cache)) →
  (∀ v l, vars s !! v = Some l → is_Some (vars r !! v)) →
  jcache_ok s r cache → cache !! k = None →
  succ s !! k = Some t → k ≠ 1%positive →
  (absn (t_lo t) = 1%positive ∨ is_Some (cache !! absn (t_lo t))) →
  (absn (t_hi t) = 1%positive ∨ is_Some (cache !! absn (t_hi t))) →
  ∃ u r', make_node (jvat vl) false cache
            (k, (t_lvl t, jenc (t_lo t), jenc (t_hi t))) (ASt r H n)
          = (Ok (<[k := u]> cache), ASt r' H n) ∧
    DStep (heldn L) r r' ∧ Counts r' (ledger_add L (cvals (<[k := u]> cache))) ∧
    jcache_ok s r' (<[k := u]> cache).
Proof.
  intros HD HC Hdecl Hc Hk Ht Hk1 Hlo Hhi.
  pose proof (dy_inv r HD) as HIr.
  destruct (inv_node _ HIs _ _ Ht Hk1) as (Hl&Hvlo&Hhp&Hvhi&_).
  destruct (node_has_var s (Z.pos k) t HIs Ht Hk1) as (v&Hlv&Hv).
  destruct (nfi_same s r cache (t_lo t) HIs HIr Hc Hvlo Hlo) as [Hvl0 HDl].
  destruct (nfi_same s r cache (t_hi t) HIs HIr Hc Hvhi Hhi) as [Hvh0 HDh].
  pose proof (nfi_run s r cache (t_lo t) H n HIs HIr Hc Hvlo Hlo) as Enl.
  set (low := nfi_val cache (t_lo t)) in *.
  set (r1 := bump low r).
  assert (HI1 : Inv r1) by (by apply Inv_bump).
  assert (Hc1 : jcache_ok s r1 cache)
    by (apply (jcache_ok_grows s r); [done|apply grows_bump|done]).
  pose proof (nfi_run s r1 cache (t_hi t) H n HIs HI1 Hc1 Hvhi Hhi) as Enh.
  set (high := nfi_val cache (t_hi t)) in *.
  assert (Hvh1 : valid r1 high) by done.
  set (r2 := bump high r1).
  assert (HD2 : DynSt r2) by (by apply DynSt_bump, DynSt_bump).
  pose proof (dy_inv r2 HD2) as HI2.
  assert (G02 : grows r r2) by (by repeat split).
  set (l2 := high :: low :: cvals cache).
  assert (HC2 : Counts r2 (ledger_add L l2)).
  { apply Counts_bump_add; [done|]. by apply Counts_bump_add. }
  assert (Hc2 : jcache_ok s r2 cache) by (by apply (jcache_ok_grows s r)).
  destruct (node_core r2 H n L l2 low high v HD2 HC2) as (u&r6&Eu&HS6&HC6&Hvu&HDu);
    [unfold l2; lmem|unfold l2; lmem|done|done| |].
  { destruct (Hdecl v _ Hv) as [j Hj]. by exists j. }
  pose proof HS6 as (HD6&_&_). pose proof (dy_inv r6 HD6) as HI6.
  assert (K2 : ∀ y, y ∈ l2 → heldn (ledger_add L l2) (absn y))
    by (intros y Hy; by apply heldn_add_in).
  assert (Hvh6 : valid r6 high).
  { apply (DStep_valid _ r2 r6 high HS6); [apply K2; unfold l2; lmem|done]. }
  assert (Hvl6 : valid r6 low).
  { apply (DStep_valid _ r2 r6 low HS6); [apply K2; unfold l2; lmem|done]. }
  (* the meaning of [u] *)
  assert (Hvk : valid s (Z.pos k)) by (split; [done|by eexists]).
  assert (HDu6 : ∀ ρ, denv r6 u ρ = denv s (Z.pos k) ρ).
  { intros ρ. rewrite HDu.
    rewrite (grows_denv r r2 high ρ G02 HIr Hvh0), (grows_denv r r2 low ρ G02 HIr Hvl0).
    rewrite HDh, HDl.
    rewrite (shannon_handle s (Z.pos k) t v HIs Hvk Hk1 Ht Hlv ρ).
    rewrite bool_decide_eq_false_2 by lia. by rewrite xorb_false_l. }
  assert (Hup : (0 < u)%Z).
  { pose proof (denv_all_true r6 u HI6 Hvu) as E. rewrite HDu6 in E.
    rewrite (denv_all_true s (Z.pos k) HIs Hvk) in E.
    rewrite bool_decide_eq_true_2 in E by lia. symmetry in E.
    by apply bool_decide_eq_true in E. }
  set (r7 := bump u r6).
  assert (HI7 : Inv r7) by (by apply Inv_bump).
  assert (Hvu7 : valid r7 u) by done.
  set (r8 := bump u r7).
  assert (HI8 : Inv r8) by (by apply Inv_bump).
  assert (Hvu8 : valid r8 u) by done.
  set (r9 := unbump u r8).
  assert (HI9 : Inv r9) by (by apply Inv_unbump).
  assert (Hvh9 : valid r9 high) by done.
  set (r10 := unbump high r9).
  assert (HI10 : Inv r10) by (by apply Inv_unbump).
  assert (Hvl10 : valid r10 low) by done.
  set (r11 := unbump low r10).
  assert (HI11 : Inv r11) by (by apply Inv_unbump).
  assert (G611 : grows r6 r11) by (by repeat split).
  assert (HS211 : DStep (heldn (ledger_add L l2)) r2 r11).
  { apply (DStep_trans _ r2 r6 r11); [done|]. by apply DStep_grows. }
  exists u, r11. split.
  { unfold make_node. rewrite decide_False by (rewrite Hk; by intros [? ?]).
    step Enl. apply (with_tmp_ok low _ r H n _ r10 HIr Hvl0); [|done|done].
    step Enh. apply (with_tmp_ok high _ r1 H n _ r9 HI1 Hvh1); [|done|done].
    rewrite (jvat_file s vl v (t_lvl t) HIs Hvl Hv). cbn [of_opt].
    rewrite (bind_ok _ _ _ v (ASt r2 H n)) by done.
    step Eu.
    apply (with_tmp_ok u _ r6 H n _ r8 HI6 Hvu); [|done|done].
    rewrite bool_decide_eq_true_2 by done. cbn [assert].
    rewrite (bind_ok _ _ _ tt (ASt r7 H n)) by done.
    by step (lift_run _ _ H n _ _ (incref_ok r7 u HI7 Hvu7)). }
  split.
  { apply (DStep_trans _ r r2 r11); [by apply DStep_grows|].
    apply (DStep_mono _ (heldn (ledger_add L l2))); [intros m; apply heldn_add|done]. }
  split.
  { pose proof (Counts_bump_add r6 _ _ u Hvu HC6) as HCa. fold r7 in HCa.
    pose proof (Counts_bump_add r7 _ _ u Hvu7 HCa) as HCb. fold r8 in HCb.
    pose proof (Counts_unbump_add r8 _ _ u Hvu8 HCb) as HCc. fold r9 in HCc.
    assert (HCd : Counts r10 (ledger_add L (low :: u :: cvals cache))).
    { apply (Counts_unbump_add r9 _ _ high Hvh9). eapply Counts_ext; [|exact HCc].
      unfold l2. ladd. }
    pose proof (Counts_unbump_add r10 _ _ low Hvl10 HCd) as HCe. fold r11 in HCe.
    eapply Counts_ext; [|exact HCe]. intros m. unfold cvals.
    rewrite (ledger_add_insert L cache k u m Hk). by rewrite ledger_add_cons. }
  intros k' x. rewrite lookup_insert_Some. intros [[<- <-]|[_ Hx]].
  - split; [done|]. split; [done|]. split; [by apply (grows_valid r6 r11)|].
    intros ρ. rewrite (grows_denv r6 r11 u ρ G611 HI6 Hvu). apply HDu6.
  - revert k' x Hx. apply (jcache_ok_DStep s _ r2 r11 cache HS211); [|done].
    intros y Hy. apply K2. unfold l2. lmem.
Qed.

End node_dyn.

(** ** 3. The loop over the lines of a well-formed file *)
Lemma load_nodes_dyn s vl r H n L nodes :
  Inv s → vars_file s vl → DynSt r → Counts r L →
  (∀ v l, vars s !! v = Some l → is_Some (vars r !! v)) →
  jwf s nodes →
  ∃ cache r', make_nodes (jvat vl) false ∅ nodes (ASt r H n)
              = (Ok (cache, None), ASt r' H n) ∧
    DStep (heldn L) r r' ∧ jcache_ok s r' cache ∧
    (∀ k, is_Some (cache !! k) ↔ k ∈ nodes.*1) ∧
    Counts r' (ledger_add L (cvals cache)).
Proof.
  intros HIs Hvl HD HC Hdecl Hwf.
  induction Hwf as [|acc k t Hwf IH Hk Ht Hk1 Hlo Hhi].
  { exists ∅, r. split; [done|]. split; [by apply DStep_refl|].
    split; [intros k x Hx; by rewrite lookup_empty in Hx|]. split.
    - intros k. rewrite lookup_empty. split; [by intros [? ?]|]. intros Hx. by apply elem_of_nil in Hx.
    - unfold cvals. rewrite map_to_list_empty. by apply Counts_add_nil. }
  destruct IH as (cache&r1&E1&HS1&Hc1&Hdom&HC1).
  pose proof HS1 as (HD1&_&_).
  assert (Hck : cache !! k = None).
  { apply eq_None_not_Some. intros Hs. by apply Hdom in Hs. }
  assert (Hch : ∀ c, JsonLoad.child_ok acc c → absn c = 1%positive ∨ is_Some (cache !! absn c)).
  { intros c [?|Hc]; [by left|right]. by apply Hdom. }
  destruct (make_node_dyn s HIs vl Hvl cache k t r1 H n L HD1 HC1)
    as (u&r2&E2&HS2&HC2&Hc2); try done; try (by apply Hch).
  { intros v l Hv. apply (DStep_vars _ r r1 v HS1). by apply (Hdecl v l). }
  exists (<[k := u]> cache), r2. rewrite (make_nodes_app _ _ _ _ _ _ _ _ E1).
  split; [by apply make_nodes_one|]. split; [by apply (DStep_trans _ r r1 r2)|].
  split; [done|]. split; [|done].
  intros k'. rewrite fmap_app, elem_of_app. cbn. rewrite elem_of_list_singleton.
  rewrite <- Hdom. destruct (decide (k' = k)) as [->|Hne].
  - rewrite lookup_insert. split; [by right|by eexists].
  - rewrite lookup_insert_ne by done. split; [by left|]. by intros [?|?].
Qed.

(** ** 4. The whole loader on explicit states, a file with the properties of
    [dump_json] (J0), any ledger [L] of external references *)
Lemma DynSt_frame r r' : DynSt r → Inv r' → frame r r' → DynSt r'.
Proof. intros [HI Hc Ht Hm] HI' (El&Ec&_&Et&Em). split; [done|congruence..]. Qed.

Theorem json_load_dyn s roots vorder jf r0 H n L :
  Inv s → json_file s roots vorder jf → roots ≠ RNone →
  Forall (valid s) (roots_values roots) →
  DynSt r0 → Counts r0 L →
  ∃ r1 r' us,
    declare (jf_levels jf).*1 r0 = (Ok tt, r1) ∧
    a_load_json jf false (ASt r0 H n)
      = (Ok (hroots_of roots n), ASt r' (hins H n us) (n + length us)) ∧
    (* the variables *)
    DynSt r1 ∧ frame r0 r1 ∧ vars r0 ⊆ vars r1 ∧ Counts r1 L ∧
    (∀ v, is_Some (vars r1 !! v) ↔ is_Some (vars r0 !! v) ∨ is_Some (vars s !! v)) ∧
    ((∀ v, is_Some (vars s !! v) → is_Some (vars r0 !! v)) → r1 = r0) ∧
    (∀ u, valid r0 u → valid r1 u ∧ ∀ ρ, denv r1 u ρ = denv r0 u ρ) ∧
    (* the nodes *)
    DStep (heldn L) r1 r' ∧
    Forall2 (same_fun s r') (roots_values roots) us ∧
    Counts r' (ledger_add L us).
Proof.
  intros HIs (Eroots&Evo&Hvl&Hwf&Hrc&_) Hnone Hr HD0 HC0.
  pose proof (dy_inv r0 HD0) as HI0.
  destruct (declare (jf_levels jf).*1 r0) as [rd r1] eqn:Ed.
  destruct (declare_run _ r0 rd r1 HI0 Ed) as (->&HI1&Hf1&HC1&Hd1&Hsub1&Hin1&Hsame1).
  assert (HD1 : DynSt r1) by (by apply (DynSt_frame r0)).
  assert (Hdecl : ∀ v l, vars s !! v = Some l → is_Some (vars r1 !! v)).
  { intros v l Hv. apply Hin1. apply elem_of_list_fmap. exists (v, l). split; [done|].
    by apply Hvl. }
  destruct (load_nodes_dyn s (jf_levels jf) r1 H n L (jf_nodes jf) HIs Hvl HD1
              (HC1 _ HC0) Hdecl Hwf) as (cache&r2&E2&HS2&Hc2&Hdom&HC2).
  pose proof HS2 as (HD2&_&_). pose proof (dy_inv r2 HD2) as HI2.
  assert (Hroot : ∀ c, c ∈ roots_values roots →
            valid s c ∧ (absn c = 1%positive ∨ is_Some (cache !! absn c))).
  { intros c Hc. split; [by eapply Forall_forall in Hr|].
    destruct (Hrc c Hc) as [?|?]; [by left|right]. by apply Hdom. }
  set (us := nfi_val cache <$> roots_values roots).
  destruct (load_roots_run cache roots r2 H n _ Hnone HI2 HC2 (jcache_cvalid s r2 cache Hc2))
    as (r3&Ern&E3&HI3&G3&HC3).
  { intros c Hc. destruct (Hroot c Hc) as [[? _] ?]. by split. }
  fold us in E3, HC3.
  assert (Hc3 : jcache_ok s r3 cache) by (by apply (jcache_ok_grows s r2 r3)).
  destruct (release_gen false (map_to_list cache) r3 (hins H n us) (n + length us)
              (ledger_add L us) HI3) as (r'&E4&HI4&G4&_&HC4); [| |done|].
  { by apply cvalid_list, (jcache_cvalid s). }
  { eapply Counts_ext; [|exact HC3]. intros m. unfold ledger_add, cvals. lia. }
  assert (G2' : grows r2 r') by (by etrans).
  exists r1, r', us. split; [done|]. split.
  { unfold a_load_json. cbn [bind ret]. step (lift_run _ _ H n _ _ Ed). cbn [bind ret].
    step E2. rewrite Eroots. step (catch_ok _ _ _ _ Ern). step E3. step E4.
    by cbn [bind ret]. }
  split; [done|]. split; [done|]. split; [done|]. split; [by apply HC1|]. split.
  { intros v. split.
    - intros Hv. destruct (declare_dom _ r0 _ r1 HI0 Ed v Hv) as [?|Hin]; [by left|right].
      apply elem_of_list_fmap in Hin as ([v' l]&->&Hin). exists l. by apply Hvl.
    - intros [[l Hl]|[l Hl]].
      + exists l. by apply (lookup_weaken _ _ _ _ Hl Hsub1).
      + by apply (Hdecl v l). }
  split.
  { intros Hall. apply Hsame1. intros v Hv.
    apply elem_of_list_fmap in Hv as ([v' l]&->&Hv). apply Hall. exists l. by apply Hvl. }
  split; [done|]. split.
  { apply (DStep_trans _ r1 r2 r'); [done|]. by apply DStep_grows. }
  split; [|done].
  apply Forall2_fmap_r, Forall_Forall2_diag, Forall_forall. intros c Hc.
  destruct (Hroot c Hc) as [Hv Hin].
  apply (same_fun_grows s r3 r'); [done..|]. by apply nfi_same.
Qed.

(** the statement with [DynSt] and [DStep] spelled out *)
Theorem json_load_dyn_ledger s roots vorder jf r0 H n L :
  Inv s → json_file s roots vorder jf → roots ≠ RNone →
  Forall (valid s) (roots_values roots) →
  Inv r0 → rctx r0 = false → tape r0 = [] → max_nodes r0 = None → Counts r0 L →
  ∃ r1 r' us,
    declare (jf_levels jf).*1 r0 = (Ok tt, r1) ∧
    a_load_json jf false (ASt r0 H n)
      = (Ok (hroots_of roots n), ASt r' (hins H n us) (n + length us)) ∧
    (* the variables: [declare] adds the missing names at the bottom *)
    Inv r1 ∧ frame r0 r1 ∧ vars r0 ⊆ vars r1 ∧ Counts r1 L ∧
    (∀ v, is_Some (vars r1 !! v) ↔ is_Some (vars r0 !! v) ∨ is_Some (vars s !! v)) ∧
    ((∀ v, is_Some (vars s !! v) → is_Some (vars r0 !! v)) → r1 = r0) ∧
    (∀ u, valid r0 u → valid r1 u ∧ ∀ ρ, denv r1 u ρ = denv r0 u ρ) ∧
    (* the nodes: from [r1] on, whatever [L] holds is kept by name *)
    Inv r' ∧ rctx r' = false ∧ tape r' = [] ∧ max_nodes r' = None ∧
    keeps (heldn L) r1 r' ∧
    (last_len r0 = None → last_len r' = None) ∧
    (is_Some (last_len r0) → is_Some (last_len r')) ∧
    Forall2 (same_fun s r') (roots_values roots) us ∧
    Counts r' (ledger_add L us).
Proof.
  intros HIs Hjf Hnone Hr HI0 Hc Ht Hmx HC.
  destruct (json_load_dyn s roots vorder jf r0 H n L HIs Hjf Hnone Hr (Build_DynSt r0 HI0 Hc Ht Hmx) HC)
    as (r1&r'&us&Ed&E&HD1&Hf1&Hsub&HC1&Hdom&Hsame&Hold&([HI' Hc' Ht' Hmx']&Hk&[Hm1 Hm2])&HF&HC').
  pose proof Hf1 as (El&_).
  exists r1, r', us. split_and!; try done; [apply HD1|..]; rewrite <- El; done.
Qed.

(** ** 5. Dump, then load into ANY receiver under the dynamic invariant *)
Lemma AInvDT_hins r0 H n r' us :
  AInvDT (ASt r0 H n) → DynSt r' →
  (∀ h u, H !! h = Some u → valid r' u) → Forall (valid r') us →
  Counts r' (ledger_add (hl H) us) →
  AInvDT (ASt r' (hins H n us) (n + length us)).
Proof.
  intros [(_&_&_&_&Hb) _] HD' Hold Hnew HC'. cbn [mgr handles next_hid] in *.
  split; [|apply HD']. split; [apply HD'|]. split; [apply HD'|]. split.
  { unfold hledger. cbn [handles mgr].
    eapply Counts_ext; [|exact HC']. intros m. symmetry. by apply hl_hins. }
  cbn [mgr handles next_hid]. split.
  - intros h u Hu. apply hins_lookup in Hu as [[Hu _]|(j&->&Hj)].
    + by apply (Hold h).
    + exact (proj1 (Forall_lookup _ _) Hnew j u Hj).
  - intros h u Hu. apply hins_lookup in Hu as [[Hu _]|(j&->&Hj)].
    + specialize (Hb _ _ Hu). lia.
    + apply lookup_lt_Some in Hj. lia.
Qed.

Theorem json_roundtrip_dynamic s roots vorder jf sd b :
  Inv s → Forall (valid s) (roots_values roots) →
  dump_json roots vorder s = (Ok jf, sd) →
  AInvDT b → max_nodes (mgr b) = None →
  sd = s ∧
  ∃ b' us,
    a_load_json jf false b = (Ok (hroots_of roots (next_hid b)), b') ∧
    (* the receiver *)
    AInvDT b' ∧ max_nodes (mgr b') = None ∧ AKeepAll b b' ∧
    (∀ v, is_Some (vars (mgr b') !! v) ↔
          is_Some (vars (mgr b) !! v) ∨ is_Some (vars s !! v)) ∧
    (last_len (mgr b) = None → last_len (mgr b') = None) ∧
    (is_Some (last_len (mgr b)) → is_Some (last_len (mgr b'))) ∧
    (* the handles *)
    next_hid b' = next_hid b + length (roots_values roots) ∧
    (∀ h, h < next_hid b ∨ next_hid b' ≤ h → handles b' !! h = handles b !! h) ∧
    (∀ i u', us !! i = Some u' → handles b' !! (next_hid b + i) = Some u') ∧
    Forall2 (same_fun s (mgr b')) (roots_values roots) us ∧
    (* the reference counts *)
    Counts (mgr b') (ledger_add (hledger b) us).
Proof.
  intros HIs Hr Hd HA Hmx.
  assert (Hnone : roots ≠ RNone).
  { intros ->. by apply dump_json_none in Hd. }
  destruct (dump_json_spec s HIs roots vorder jf sd Hr Hd) as [-> Hjf].
  split; [done|]. destruct b as [r0 H n]. pose proof HA as [(HIb&Hrc&HC&Hv&Hb) Ht].
  cbn [mgr handles next_hid] in *. unfold hledger in *. cbn [handles] in *.
  assert (HD0 : DynSt r0) by (by split).
  destruct (json_load_dyn s roots vorder jf r0 H n (hl H) HIs Hjf Hnone Hr HD0 HC)
    as (r1&r'&us&Ed&E&HD1&Hf1&Hsub&HC1&Hdom&Hsame&Hold&HS&HF&HC').
  pose proof HS as (HD'&[Edom _]&[Hm1 Hm2]). pose proof Hf1 as (El&_).
  assert (Hlen : length us = length (roots_values roots))
    by (symmetry; by eapply Forall2_length).
  assert (Hold' : ∀ h u, H !! h = Some u →
            valid r' u ∧ ∀ ρ, denv r' u ρ = denv r0 u ρ).
  { intros h u Hu. destruct (Hold u (Hv h u Hu)) as [Hu1 HD1u].
    assert (Hk : heldn (hl H) (absn u)) by (right; by apply (hl_pos H h)).
    split; [by apply (DStep_valid _ r1 r' u HS Hk)|].
    intros ρ. by rewrite (DStep_denv _ r1 r' u ρ HS Hk Hu1). }
  assert (Hnew : Forall (valid r') us).
  { apply Forall_forall. intros u' Hin. apply elem_of_list_lookup in Hin as [i Hi].
    destruct (Forall2_lookup_r _ _ _ _ _ HF Hi) as (c&_&[Hvu _]). done. }
  exists (ASt r' (hins H n us) (n + length us)), us. cbn [mgr handles next_hid].
  split; [done|]. split.
  { apply (AInvDT_hins r0); [done|done| |done|done]. intros h u Hu. by apply (Hold' h). }
  split; [apply HD'|]. split.
  { intros h u Hu. cbn [mgr handles] in *. split.
    - rewrite hins_old; [done|]. left. by apply (Hb h u).
    - by apply (Hold' h). }
  split.
  { intros v. rewrite <- Hdom. rewrite <- !elem_of_dom. by rewrite Edom. }
  split; [intros Hn; apply Hm1; by rewrite El|].
  split; [intros Hn; apply Hm2; by rewrite El|].
  split; [by rewrite Hlen|]. split; [intros h Hh; by apply hins_old|].
  split; [intros i u' Hi; by apply hins_new|]. done.
Qed.

(** ** 6. ANY file (well formed or not): either handles are returned and the
    ledger gains exactly one reference per handle, or the call raises,
    creates no handle and leaks no reference.  The decorated calls cannot
    fail here ([v] comes from the "level_of_var" line, which [declare] has
    just processed; the operands are held temporaries; the table is
    unbounded); what can fail is a lookup ([KeyError]) or the assertion on
    the sign of the new node. *)
Definition cnz (c : gmap positive Z) : Prop := ∀ k x, c !! k = Some x → x ≠ 0%Z.

Lemma cnz_cvalid r L c : Inv r → Counts r (ledger_add L (cvals c)) → cnz c → cvalid r c.
Proof.
  intros HI HC Hnz k x Hx. apply (heldn_valid _ r x HI HC (Hnz k x Hx)).
  by apply heldn_add_in, (cvals_in c k).
Qed.

Lemma cvals_insert_perm (c : gmap positive Z) k u : c !! k = None →
  cvals (<[k := u]> c) ≡ₚ u :: cvals c.
Proof. intros Hk. unfold cvals. by rewrite (map_to_list_insert c k u Hk). Qed.

(** a temporary around a body of which we know the outcome: [Q res] lists
    what the body leaves held (besides [u]), [P] is any state-independent
    fact about the result *)
Lemma with_tmp_dyn {A} u (body : MA A) r H n L l (Q : res A → list Z) (P : res A → Prop) :
  DynSt r → valid r u →
  (∃ res r2, body (ASt (bump u r) H n) = (res, ASt r2 H n) ∧
     DStep (heldn (ledger_add L (u :: l))) (bump u r) r2 ∧
     Counts r2 (ledger_add L (u :: Q res)) ∧ P res) →
  ∃ res r', with_tmp u body (ASt r H n) = (res, ASt r' H n) ∧
     DStep (heldn (ledger_add L l)) r r' ∧ Counts r' (ledger_add L (Q res)) ∧ P res.
Proof.
  intros HD Hv (res&r2&Eb&HS&HC&HP).
  pose proof (dy_inv r HD) as HI. pose proof HS as (HD2&_&_). pose proof (dy_inv r2 HD2) as HI2.
  assert (Hv2 : valid r2 u).
  { apply (DStep_valid _ (bump u r) r2 u HS); [apply heldn_add_in; lmem|done]. }
  exists res, (unbump u r2). split; [by apply with_tmp_run|]. split.
  { apply (DStep_trans _ r (bump u r)).
    - apply DStep_grows; [done|by apply Inv_bump|apply grows_bump].
    - apply (DStep_trans _ (bump u r) r2).
      + apply (DStep_mono _ (heldn (ledger_add L (u :: l)))); [|done].
        intros m. apply heldn_sub. intros y. lmem.
      + apply DStep_grows; [done|by apply Inv_unbump|apply grows_unbump]. }
  split; [by apply Counts_unbump_add|done].
Qed.

Definition mn_held (cache : gmap positive Z) (res : res (gmap positive Z)) : list Z :=
  match res with Ok c' => cvals c' | Err _ => cvals cache end.
Definition mn_post (cache : gmap positive Z) (k : positive) (res : res (gmap positive Z)) : Prop :=
  match res with
  | Ok c' => c' = cache ∨ ∃ u, cache !! k = None ∧ c' = <[k := u]> cache ∧ u ≠ 0%Z
  | Err _ => True
  end.

Lemma make_node_any vat cache k lv lo hi r H n L :
  DynSt r → Counts r (ledger_add L (cvals cache)) →
  (∀ l v, vat l = Some v → is_Some (vars r !! v)) →
  ∃ res r', make_node vat false cache (k, (lv, lo, hi)) (ASt r H n) = (res, ASt r' H n) ∧
    DStep (heldn (ledger_add L (cvals cache))) r r' ∧
    Counts r' (ledger_add L (mn_held cache res)) ∧ mn_post cache k res.
Proof.
  intros HD HC Hvat. pose proof (dy_inv r HD) as HI. unfold make_node. case_decide as Hk.
  { exists (Ok cache), r. split; [done|]. split; [by apply DStep_refl|]. split; [done|by left]. }
  assert (Hk' : cache !! k = None) by (by apply eq_None_not_Some).
  (* low *)
  destruct (nfi_pure cache (jref_id lo) (ASt r H n)) as ([low|e]&El&Hvl); cycle 1.
  { rewrite (bind_err _ _ _ _ _ El). exists (Err e), r. split; [done|].
    split; [by apply DStep_refl|]. by split. }
  step El. specialize (Hvl low eq_refl HI). cbn [mgr] in Hvl.
  apply (with_tmp_dyn low _ r H n L (cvals cache) (mn_held cache) (mn_post cache k) HD Hvl).
  set (r1 := bump low r).
  assert (HD1 : DynSt r1) by (by apply DynSt_bump).
  pose proof (dy_inv r1 HD1) as HI1.
  set (l1 := low :: cvals cache).
  assert (HC1 : Counts r1 (ledger_add L l1)) by (by apply Counts_bump_add).
  (* high *)
  destruct (nfi_pure cache (jref_id hi) (ASt r1 H n)) as ([high|e]&Eh&Hvh); cycle 1.
  { rewrite (bind_err _ _ _ _ _ Eh). exists (Err e), r1. split; [done|].
    split; [by apply DStep_refl|]. by split. }
  step Eh. specialize (Hvh high eq_refl HI1). cbn [mgr] in Hvh.
  apply (with_tmp_dyn high _ r1 H n L l1 (fun res => low :: mn_held cache res)
           (mn_post cache k) HD1 Hvh).
  set (r2 := bump high r1).
  assert (HD2 : DynSt r2) by (by apply DynSt_bump).
  pose proof (dy_inv r2 HD2) as HI2.
  set (l2 := high :: l1).
  assert (HC2 : Counts r2 (ledger_add L l2)) by (by apply Counts_bump_add).
  (* the variable of the level *)
  destruct (vat lv) as [v|] eqn:Ev; cbn [of_opt]; cycle 1.
  { exists (Err EKey), r2. split; [done|]. split; [by apply DStep_refl|]. by split. }
  rewrite (bind_ok _ _ _ v (ASt r2 H n)) by done.
  destruct (node_core r2 H n L l2 low high v HD2 HC2) as (u&r6&Eu&HS6&HC6&Hvu&_);
    [unfold l2, l1; lmem|unfold l2; lmem|done|done|by apply (Hvat lv)|].
  step Eu.
  pose proof HS6 as (HD6&_&_). pose proof (dy_inv r6 HD6) as HI6.
  (* the new node under its temporary *)
  destruct (with_tmp_dyn u
              (assert (bool_decide (0 < u)%Z) ;;; lift (incref u) ;;; ret (<[k := u]> cache))
              r6 H n L l2 (fun res => high :: low :: mn_held cache res) (mn_post cache k) HD6 Hvu)
    as (res&r'&E&HS'&HC'&HP).
  { set (r7 := bump u r6).
    assert (HD7 : DynSt r7) by (by apply DynSt_bump).
    pose proof (dy_inv r7 HD7) as HI7.
    assert (HC7 : Counts r7 (ledger_add L (u :: l2))) by (by apply Counts_bump_add).
    destruct (bool_decide (0 < u)%Z); cbn [assert].
    - rewrite (bind_ok _ _ _ tt (ASt r7 H n)) by done.
      assert (Hvu7 : valid r7 u) by done.
      step (lift_run _ _ H n _ _ (incref_ok r7 u HI7 Hvu7)).
      exists (Ok (<[k := u]> cache)), (bump u r7). split; [done|]. split.
      { apply DStep_grows; [done|by apply Inv_bump|apply grows_bump]. }
      split.
      + eapply Counts_ext; [|apply (Counts_bump_add r7 _ _ u Hvu7 HC7)].
        intros m. cbn [mn_held]. apply ledger_add_perm. unfold l2, l1.
        rewrite (cvals_insert_perm cache k u Hk').
        apply Permutation_skip.
        etrans; [apply Permutation_swap|]. apply Permutation_skip.
        apply Permutation_swap.
      + right. exists u. split; [done|]. split; [done|]. apply Hvu.
    - exists (Err EAssert), r7. split; [done|]. split; [by apply DStep_refl|]. by split. }
  exists res, r'. split; [done|]. split; [|by split].
  by apply (DStep_trans _ r2 r6 r').
Qed.

Lemma make_nodes_any vat lines : ∀ cache r H n L,
  DynSt r → cnz cache → Counts r (ledger_add L (cvals cache)) →
  (∀ l v, vat l = Some v → is_Some (vars r !! v)) →
  ∃ cache' failed r',
    make_nodes vat false cache lines (ASt r H n) = (Ok (cache', failed), ASt r' H n) ∧
    DStep (heldn L) r r' ∧ cnz cache' ∧ Counts r' (ledger_add L (cvals cache')).
Proof.
  induction lines as [|[k [[lv lo] hi]] lines IH]; intros cache r H n L HD Hnz HC Hvat.
  { exists cache, None, r. split; [done|]. split; [by apply DStep_refl|]. by split. }
  cbn [make_nodes].
  destruct (make_node_any vat cache k lv lo hi r H n L HD HC Hvat) as (res&r1&E&HS&HC1&HP).
  unfold bind at 1. unfold catch. rewrite E.
  assert (HS1 : DStep (heldn L) r r1).
  { apply (DStep_mono _ _ r r1 (fun m => heldn_add L (cvals cache) m) HS). }
  destruct res as [c'|e].
  - cbn [mn_held mn_post] in *.
    assert (Hnz' : cnz c').
    { destruct HP as [->|(u&Hk&->&Hu)]; [done|].
      intros k' x. rewrite lookup_insert_Some. intros [[_ <-]|[_ Hx]]; [done|by eapply Hnz]. }
    destruct (IH c' r1 H n L (proj1 HS) Hnz' HC1) as (c2&fl&r2&E2&HS2&Hnz2&HC2).
    { intros l v Hv. apply (DStep_vars _ r r1 v HS1). by apply (Hvat l). }
    exists c2, fl, r2. split; [exact E2|]. split; [by apply (DStep_trans _ r r1 r2)|]. by split.
  - exists cache, (Some e), r1. split; [done|]. split; [done|]. by split.
Qed.

Theorem json_load_dyn_total jf r0 H n L :
  DynSt r0 → Counts r0 L →
  ∃ res r1 r' H' n',
    declare (jf_levels jf).*1 r0 = (Ok tt, r1) ∧
    a_load_json jf false (ASt r0 H n) = (res, ASt r' H' n') ∧
    DynSt r1 ∧ frame r0 r1 ∧ vars r0 ⊆ vars r1 ∧ Counts r1 L ∧
    (∀ v, is_Some (vars r1 !! v) ↔ is_Some (vars r0 !! v) ∨ v ∈ (jf_levels jf).*1) ∧
    (∀ u, valid r0 u → valid r1 u ∧ ∀ ρ, denv r1 u ρ = denv r0 u ρ) ∧
    DStep (heldn L) r1 r' ∧
    match res with
    | Err e => H' = H ∧ n' = n ∧ Counts r' L
    | Ok hroots => ∃ us, H' = hins H n us ∧ n' = n + length us ∧
                         Forall (valid r') us ∧ Counts r' (ledger_add L us)
    end.
Proof.
  intros HD0 HC0. pose proof (dy_inv r0 HD0) as HI0.
  destruct (declare (jf_levels jf).*1 r0) as [rd r1] eqn:Ed.
  destruct (declare_run _ r0 rd r1 HI0 Ed) as (->&HI1&Hf1&HC1&Hd1&Hsub1&Hin1&_).
  assert (HD1 : DynSt r1) by (by apply (DynSt_frame r0)).
  set (vat := fun l => match list_find (fun vl : nat * nat => bool_decide (vl.2 = l))
                               (reverse (jf_levels jf)) with
                       | Some (_, (v, _)) => Some v | None => None end).
  assert (Hvat : ∀ l v, vat l = Some v → is_Some (vars r1 !! v)).
  { intros l v. unfold vat.
    destruct (list_find _ _) as [[i [v' l']]|] eqn:Ef; [|done]. intros [= ->].
    apply list_find_Some in Ef as (Hi&_&_). apply Hin1.
    apply elem_of_list_fmap. exists (v, l'). split; [done|].
    apply elem_of_reverse. by apply elem_of_list_lookup_2 in Hi. }
  destruct (make_nodes_any vat (jf_nodes jf) ∅ r1 H n L HD1)
    as (cache&failed&r2&E2&HS2&Hnz2&HC2); [| |done|].
  { intros k x Hx. by rewrite lookup_empty in Hx. }
  { unfold cvals. rewrite map_to_list_empty. by apply Counts_add_nil, HC1. }
  pose proof HS2 as (HD2&_&_). pose proof (dy_inv r2 HD2) as HI2.
  pose proof (cnz_cvalid r2 L cache HI2 HC2 Hnz2) as Hcv2.
  assert (Hvars : ∀ v, is_Some (vars r1 !! v) ↔ is_Some (vars r0 !! v) ∨ v ∈ (jf_levels jf).*1).
  { intros v. split.
    - intros Hv. by apply (declare_dom _ r0 _ r1 HI0 Ed v Hv).
    - intros [[l Hl]|Hin]; [exists l; by apply (lookup_weaken _ _ _ _ Hl Hsub1)|by apply Hin1]. }
  assert (Hstep : ∀ r', Inv r' → grows r2 r' → DStep (heldn L) r1 r').
  { intros r' HI' G'. apply (DStep_trans _ r1 r2 r'); [done|]. by apply DStep_grows. }
  (* releasing after a failure *)
  assert (Hfail : ∀ e,
    ∃ r', (forM (map_to_list cache) (fun '(_, u) => lift (decref u)) ;;; raise e)
            (ASt r2 H n) = (Err e : res rootsH, ASt r' H n) ∧
      Inv r' ∧ grows r2 r' ∧ Counts r' L).
  { intros e. destruct (release_fail (map_to_list cache) r2 H n L HI2 (cvalid_list r2 cache Hcv2) HC2)
      as (r'&E&HI'&G'&HC'). exists r'. step E. by split. }
  assert (Hhead : ∀ (k : gmap positive Z * option err → MA rootsH),
    a_load_json jf false (ASt r0 H n)
    = (let '(cache, failed) := (cache, failed) in
       nodes <- match failed with
                | Some e => ret (Err e)
                | None => catch (root_nodes cache (jf_roots jf))
                end ;;
       match nodes with
       | Err e => forM (map_to_list cache) (fun '(_, u) => lift (decref u)) ;;; raise e
       | Ok nodes =>
           hroots <- wrap_roots nodes ;;
           forM (map_to_list cache) (fun '(_, u) =>
             tmp_new u ;;;
             r <- lift (ref u) ;;
             assert (bool_decide (2 <= r)) ;;;
             (if false then assert (bool_decide (3 <= r)) else ret tt) ;;;
             lift (decref u) ;;;
             tmp_del u) ;;;
           (if false then lift (configure (Some true)) ;;; ret tt else ret tt) ;;;
           ret hroots
       end) (ASt r2 H n)).
  { intros _. unfold a_load_json. cbn [bind ret]. step (lift_run _ _ H n _ _ Ed).
    cbn [bind ret]. fold vat. by step E2. }
  rewrite (Hhead (fun _ => ret (HList []))). clear Hhead. cbv beta iota.
  destruct failed as [e|].
  { destruct (Hfail e) as (r'&E&HI'&G'&HC').
    exists (Err e), r1, r', H, n. split; [done|]. split.
    { rewrite (bind_ok _ _ _ (Err e) (ASt r2 H n)) by done. exact E. }
    split_and!; try done; [by apply HC1|by apply Hstep]. }
  destruct (root_nodes_pure cache (jf_roots jf) (ASt r2 H n) HI2) as (rn&Ern&Hrn).
  assert (Ecatch : catch (root_nodes cache (jf_roots jf)) (ASt r2 H n) = (Ok rn, ASt r2 H n)).
  { unfold catch. by rewrite Ern. }
  step Ecatch. destruct rn as [nodes|e]; cycle 1.
  { destruct (Hfail e) as (r'&E&HI'&G'&HC').
    exists (Err e), r1, r', H, n. split; [done|]. split; [exact E|].
    split_and!; try done; [by apply HC1|by apply Hstep]. }
  destruct (Hrn nodes eq_refl) as [Hnone Hvn]. cbn [mgr] in Hvn.
  destruct (wrap_roots_ok nodes r2 H n _ Hnone HI2 HC2 Hvn) as (r3&E3&HI3&G3&HC3).
  set (us := roots_values nodes) in *.
  destruct (release_gen false (map_to_list cache) r3 (hins H n us) (n + length us)
              (ledger_add L us) HI3) as (r'&E4&HI4&G4&_&HC4); [| |done|].
  { apply cvalid_list. by apply (cvalid_grows r2 r3). }
  { eapply Counts_ext; [|exact HC3]. intros m. unfold ledger_add, cvals. lia. }
  assert (G' : grows r2 r') by (by etrans).
  exists (Ok (hroots_of nodes n)), r1, r', (hins H n us), (n + length us).
  split; [done|]. split.
  { step E3. step E4. by cbn [bind ret]. }
  split_and!; try done; [by apply HC1|by apply Hstep|].
  exists us. split; [done|]. split; [done|]. split; [|done].
  eapply Forall_impl; [exact Hvn|]. intros x Hx. by apply (grows_valid r2 r' x).
Qed.

(** the statement with [DynSt] and [DStep] spelled out *)
Theorem json_load_any_file_dyn_ledger jf r0 H n L :
  Inv r0 → rctx r0 = false → tape r0 = [] → max_nodes r0 = None → Counts r0 L →
  ∃ res r1 r' H' n',
    declare (jf_levels jf).*1 r0 = (Ok tt, r1) ∧
    a_load_json jf false (ASt r0 H n) = (res, ASt r' H' n') ∧
    Inv r1 ∧ frame r0 r1 ∧ vars r0 ⊆ vars r1 ∧ Counts r1 L ∧
    (∀ v, is_Some (vars r1 !! v) ↔ is_Some (vars r0 !! v) ∨ v ∈ (jf_levels jf).*1) ∧
    (∀ u, valid r0 u → valid r1 u ∧ ∀ ρ, denv r1 u ρ = denv r0 u ρ) ∧
    Inv r' ∧ rctx r' = false ∧ tape r' = [] ∧ max_nodes r' = None ∧
    keeps (heldn L) r1 r' ∧
    (last_len r0 = None → last_len r' = None) ∧
    (is_Some (last_len r0) → is_Some (last_len r')) ∧
    match res with
    | Err e => H' = H ∧ n' = n ∧ Counts r' L
    | Ok hroots => ∃ us, H' = hins H n us ∧ n' = n + length us ∧
                         Forall (valid r') us ∧ Counts r' (ledger_add L us)
    end.
Proof.
  intros HI0 Hc Ht Hmx HC.
  destruct (json_load_dyn_total jf r0 H n L (Build_DynSt r0 HI0 Hc Ht Hmx) HC)
    as (res&r1&r'&H'&n'&Ed&E&HD1&Hf1&Hsub&HC1&Hdom&Hold&([HI' Hc' Ht' Hmx']&Hk&[Hm1 Hm2])&Hres).
  pose proof Hf1 as (El&_).
  exists res, r1, r', H', n'. split_and!; try done; [apply HD1|..]; rewrite <- El; done.
Qed.

Lemma AInvDT_same r0 H n r' :
  AInvDT (ASt r0 H n) → DynSt r' →
  (∀ h u, H !! h = Some u → valid r' u) → Counts r' (hl H) →
  AInvDT (ASt r' H n).
Proof.
  intros [(_&_&_&_&Hb) _] HD' Hold HC'. cbn [mgr handles next_hid] in *.
  split; [|apply HD']. split; [apply HD'|]. split; [apply HD'|]. by split.
Qed.

Theorem json_load_any_file_dynamic jf b :
  AInvDT b → max_nodes (mgr b) = None →
  ∃ res b',
    a_load_json jf false b = (res, b') ∧
    AInvDT b' ∧ max_nodes (mgr b') = None ∧ AKeepAll b b' ∧
    (∀ v, is_Some (vars (mgr b') !! v) ↔
          is_Some (vars (mgr b) !! v) ∨ v ∈ (jf_levels jf).*1) ∧
    (last_len (mgr b) = None → last_len (mgr b') = None) ∧
    (is_Some (last_len (mgr b)) → is_Some (last_len (mgr b'))) ∧
    match res with
    | Err e => handles b' = handles b ∧ next_hid b' = next_hid b ∧
               Counts (mgr b') (hledger b)
    | Ok hroots => ∃ us, handles b' = hins (handles b) (next_hid b) us ∧
                         next_hid b' = next_hid b + length us ∧
                         Forall (valid (mgr b')) us ∧
                         Counts (mgr b') (ledger_add (hledger b) us)
    end.
Proof.
  intros HA Hmx. destruct b as [r0 H n]. pose proof HA as [(HIb&Hrc&HC&Hv&Hb) Ht].
  cbn [mgr handles next_hid] in *. unfold hledger in *. cbn [handles] in *.
  assert (HD0 : DynSt r0) by (by split).
  destruct (json_load_dyn_total jf r0 H n (hl H) HD0 HC)
    as (res&r1&r'&H'&n'&Ed&E&HD1&Hf1&Hsub&HC1&Hdom&Hold&HS&Hres).
  pose proof HS as (HD'&[Edom _]&[Hm1 Hm2]). pose proof Hf1 as (El&_).
  assert (Hold' : ∀ h u, H !! h = Some u →
            valid r' u ∧ ∀ ρ, denv r' u ρ = denv r0 u ρ).
  { intros h u Hu. destruct (Hold u (Hv h u Hu)) as [Hu1 HD1u].
    assert (Hk : heldn (hl H) (absn u)) by (right; by apply (hl_pos H h)).
    split; [by apply (DStep_valid _ r1 r' u HS Hk)|].
    intros ρ. by rewrite (DStep_denv _ r1 r' u ρ HS Hk Hu1). }
  exists res, (ASt r' H' n'). cbn [mgr handles next_hid].
  split; [done|].
  assert (Hcommon : max_nodes r' = None ∧
    (∀ v, is_Some (vars r' !! v) ↔ is_Some (vars r0 !! v) ∨ v ∈ (jf_levels jf).*1) ∧
    (last_len r0 = None → last_len r' = None) ∧
    (is_Some (last_len r0) → is_Some (last_len r'))).
  { split; [apply HD'|]. split.
    - intros v. rewrite <- Hdom. rewrite <- !elem_of_dom. by rewrite Edom.
    - split; [intros Hn; apply Hm1; by rewrite El|intros Hn; apply Hm2; by rewrite El]. }
  destruct Hcommon as (Hc1&Hc2&Hc3&Hc4).
  destruct res as [hroots|e].
  - destruct Hres as (us&->&->&Hvus&HC').
    split; [apply (AInvDT_hins r0); [done|done| |done|done]; intros h u Hu; by apply (Hold' h)|].
    split; [done|]. split.
    { intros h u Hu. cbn [mgr handles] in *. split.
      - rewrite hins_old; [done|]. left. by apply (Hb h u).
      - by apply (Hold' h). }
    split; [done|]. split; [done|]. split; [done|]. by exists us.
  - destruct Hres as (->&->&HC').
    split; [apply (AInvDT_same r0); [done|done| |done]; intros h u Hu; by apply (Hold' h)|].
    split; [done|]. split.
    { intros h u Hu. cbn [mgr handles] in *. split; [done|]. by apply (Hold' h). }
    by split_and!.
Qed.

(** worlds written with [fold_left] are [arun]s *)
Lemma fold_arun w m ops : fold_left (fun w o => fst (astep w m o)) ops w = arun w m ops.
Proof. reflexivity. Qed.
Lemma arun_cons w m o ops : arun w m (o :: ops) = arun (fst (astep w m o)) m ops.
Proof. reflexivity. Qed.
