(** * JsonLoadDyn: [dd._copy.load_json(..., load_order=False)] through
      [dd.autoref] into a receiver whose dynamic reordering may be ENABLED
      (C09 for the multi-step loader, C12).

    Every intermediate result of the loader is a live [Function] (the memo
    holds an explicit reference, [low], [high], [g], [u] are locals): counted
    temporaries of the model.  The operands of the decorated calls [var] and
    [ite] are therefore HELD in the ledger of the moment and
    [CopyFnDyn.var_dyn] / [ite_dyn] apply: a sifting pass in the middle keeps
    every held node with its function by variable NAME ([CopyFnDyn.DStep]).
    The variable ORDER of the receiver may change. *)
From DD Require Export CopyFnDyn JsonLoad2.

(** ** 1. The decorated part of one line: [g = var(v)], then
    [ite(g, high, low)] under the temporary [g]; [low] and [high] are held *)
Lemma node_core r H n L l low high v :
  DynSt r → Counts r (ledger_add L l) → low ∈ l → high ∈ l →
  valid r low → valid r high → is_Some (vars r !! v) →
  ∃ u r',
    (g <- lift (var v) ;;
     with_tmp g (check_in g ;;; check_in high ;;; check_in low ;;;
                 lift (ite g high low))) (ASt r H n) = (Ok u, ASt r' H n) ∧
    DStep (heldn (ledger_add L l)) r r' ∧ Counts r' (ledger_add L l) ∧ valid r' u ∧
    ∀ ρ, denv r' u ρ = if ρ v then denv r high ρ else denv r low ρ.
Proof.
  intros HD HC Hlo Hhi Hvl Hvh Hv.
  assert (K : ∀ y, y ∈ l → heldn (ledger_add L l) (absn y))
    by (intros y Hy; by apply heldn_add_in).
  destruct (var v r) as [rg r3] eqn:Eg.
  destruct (var_dyn r (ledger_add L l) v rg r3 HD HC Hv Eg) as (g&->&HS3&HC3&Hvg&HDg).
  pose proof HS3 as (HD3&_&_). pose proof (dy_inv r3 HD3) as HI3.
  assert (Hvl3 : valid r3 low) by (by apply (DStep_valid _ r r3 low HS3 (K _ Hlo))).
  assert (Hvh3 : valid r3 high) by (by apply (DStep_valid _ r r3 high HS3 (K _ Hhi))).
  set (r4 := bump g r3).
  assert (HD4 : DynSt r4) by (by apply DynSt_bump).
  pose proof (dy_inv r4 HD4) as HI4.
  assert (HC4 : Counts r4 (ledger_add L (g :: l))) by (by apply Counts_bump_add).
  assert (Hvg4 : valid r4 g) by done.
  assert (Hvl4 : valid r4 low) by done.
  assert (Hvh4 : valid r4 high) by done.
  destruct (ite g high low r4) as [rx r5] eqn:Ex.
  destruct (ite_dyn r4 (ledger_add L (g :: l)) g high low rx r5 HD4 HC4 Hvg4 Hvh4 Hvl4)
    as (u&->&HS5&HC5&Hvu&HDu); [apply heldn_add_in; lmem..|done|].
  pose proof HS5 as (HD5&_&_). pose proof (dy_inv r5 HD5) as HI5.
  assert (Hvg5 : valid r5 g).
  { apply (DStep_valid _ r4 r5 g HS5); [apply heldn_add_in; lmem|done]. }
  set (r6 := unbump g r5).
  assert (HI6 : Inv r6) by (by apply Inv_unbump).
  exists u, r6. split.
  { step (lift_run _ _ H n _ _ Eg).
    apply (with_tmp_ok g _ r3 H n u r5 HI3 Hvg); [|done|done].
    step (check_in_ok r4 H n g Hvg4). step (check_in_ok r4 H n high Hvh4).
    step (check_in_ok r4 H n low Hvl4). exact (lift_run _ _ H n _ _ Ex). }
  split.
  { apply (DStep_trans _ r r3 r6); [done|]. apply (DStep_trans _ r3 r4 r6).
    - apply DStep_grows; [done|done|apply grows_bump].
    - apply (DStep_trans _ r4 r5 r6).
      + apply (DStep_mono _ (heldn (ledger_add L (g :: l)))); [|done].
        intros m. apply heldn_sub. intros y. lmem.
      + apply DStep_grows; [done|done|apply grows_unbump]. }
  split; [by apply (Counts_unbump_add r5 _ _ g Hvg5)|]. split; [done|].
  intros ρ. rewrite (denv_tables r5 r6) by done. rewrite HDu.
  rewrite (denv_tables r3 r4 g) by done. rewrite HDg.
  rewrite (denv_tables r3 r4 high), (denv_tables r3 r4 low) by done.
  rewrite (DStep_denv _ r r3 high ρ HS3 (K _ Hhi) Hvh).
  by rewrite (DStep_denv _ r r3 low ρ HS3 (K _ Hlo) Hvl).
Qed.

(** ** 2. One line of a well-formed file *)
Section node_dyn.
Context (s : st) (HIs : Inv s) (vl : list (nat * nat)) (Hvl : vars_file s vl).

Lemma make_node_dyn cache k t r H n L :
  DynSt r → Counts r (ledger_add L (cvals cache)) →
  (∀ v l, vars s !! v = Some l → is_Some (vars r !! v)) →
  jcache_ok s r cache → cache !! k = None →
  succ s !! k = Some t → k ≠ 1%positive →
  (absn (t_lo t) = 1%positive ∨ is_Some (cache !! absn (t_lo t))) →
  (absn (t_hi t) = 1%positive ∨ is_Some (cache !! absn (t_hi t))) →
  ∃ u r', make_node (jvat vl) false cache
            (k, (t_lvl t, jenc (t_lo t), jenc (t_hi t))) (ASt r H n)
          = (Ok (<[k := u]> cache), ASt r' H n) ∧
    DStep (heldn L) r r' ∧ Counts r' (ledger_add L (cvals (<[k := u]> cache))) ∧
    jcache_ok s r' (<[k := u]> cache).
Proof.
  intros HD HC Hdecl Hc Hk Ht Hk1 Hlo Hhi.
  pose proof (dy_inv r HD) as HIr.
  destruct (inv_node _ HIs _ _ Ht Hk1) as (Hl&Hvlo&Hhp&Hvhi&_).
  destruct (node_has_var s (Z.pos k) t HIs Ht Hk1) as (v&Hlv&Hv).
  destruct (nfi_same s r cache (t_lo t) HIs HIr Hc Hvlo Hlo) as [Hvl0 HDl].
  destruct (nfi_same s r cache (t_hi t) HIs HIr Hc Hvhi Hhi) as [Hvh0 HDh].
  pose proof (nfi_run s r cache (t_lo t) H n HIs HIr Hc Hvlo Hlo) as Enl.
  set (low := nfi_val cache (t_lo t)) in *.
  set (r1 := bump low r).
  assert (HI1 : Inv r1) by (by apply Inv_bump).
  assert (Hc1 : jcache_ok s r1 cache)
    by (apply (jcache_ok_grows s r); [done|apply grows_bump|done]).
  pose proof (nfi_run s r1 cache (t_hi t) H n HIs HI1 Hc1 Hvhi Hhi) as Enh.
  set (high := nfi_val cache (t_hi t)) in *.
  assert (Hvh1 : valid r1 high) by done.
  set (r2 := bump high r1).
  assert (HD2 : DynSt r2) by (by apply DynSt_bump, DynSt_bump).
  pose proof (dy_inv r2 HD2) as HI2.
  assert (G02 : grows r r2) by (by repeat split).
  set (l2 := high :: low :: cvals cache).
  assert (HC2 : Counts r2 (ledger_add L l2)).
  { apply Counts_bump_add; [done|]. by apply Counts_bump_add. }
  assert (Hc2 : jcache_ok s r2 cache) by (by apply (jcache_ok_grows s r)).
  destruct (node_core r2 H n L l2 low high v HD2 HC2) as (u&r6&Eu&HS6&HC6&Hvu&HDu);
    [unfold l2; lmem|unfold l2; lmem|done|done| |].
  { destruct (Hdecl v _ Hv) as [j Hj]. by exists j. }
  pose proof HS6 as (HD6&_&_). pose proof (dy_inv r6 HD6) as HI6.
  assert (K2 : ∀ y, y ∈ l2 → heldn (ledger_add L l2) (absn y))
    by (intros y Hy; by apply heldn_add_in).
  assert (Hvh6 : valid r6 high).
  { apply (DStep_valid _ r2 r6 high HS6); [apply K2; unfold l2; lmem|done]. }
  assert (Hvl6 : valid r6 low).
  { apply (DStep_valid _ r2 r6 low HS6); [apply K2; unfold l2; lmem|done]. }
  (* the meaning of [u] *)
  assert (Hvk : valid s (Z.pos k)) by (split; [done|by eexists]).
  assert (HDu6 : ∀ ρ, denv r6 u ρ = denv s (Z.pos k) ρ).
  { intros ρ. rewrite HDu.
    rewrite (grows_denv r r2 high ρ G02 HIr Hvh0), (grows_denv r r2 low ρ G02 HIr Hvl0).
    rewrite HDh, HDl.
    rewrite (shannon_handle s (Z.pos k) t v HIs Hvk Hk1 Ht Hlv ρ).
    rewrite bool_decide_eq_false_2 by lia. by rewrite xorb_false_l. }
  assert (Hup : (0 < u)%Z).
  { pose proof (denv_all_true r6 u HI6 Hvu) as E. rewrite HDu6 in E.
    rewrite (denv_all_true s (Z.pos k) HIs Hvk) in E.
    rewrite bool_decide_eq_true_2 in E by lia. symmetry in E.
    by apply bool_decide_eq_true in E. }
  set (r7 := bump u r6).
  assert (HI7 : Inv r7) by (by apply Inv_bump).
  assert (Hvu7 : valid r7 u) by done.
  set (r8 := bump u r7).
  assert (HI8 : Inv r8) by (by apply Inv_bump).
  assert (Hvu8 : valid r8 u) by done.
  set (r9 := unbump u r8).
  assert (HI9 : Inv r9) by (by apply Inv_unbump).
  assert (Hvh9 : valid r9 high) by done.
  set (r10 := unbump high r9).
  assert (HI10 : Inv r10) by (by apply Inv_unbump).
  assert (Hvl10 : valid r10 low) by done.
  set (r11 := unbump low r10).
  assert (HI11 : Inv r11) by (by apply Inv_unbump).
  assert (G611 : grows r6 r11) by (by repeat split).
  assert (HS211 : DStep (heldn (ledger_add L l2)) r2 r11).
  { apply (DStep_trans _ r2 r6 r11); [done|]. by apply DStep_grows. }
  exists u, r11. split.
  { unfold make_node. rewrite decide_False by (rewrite Hk; by intros [? ?]).
    step Enl. apply (with_tmp_ok low _ r H n _ r10 HIr Hvl0); [|done|done].
    step Enh. apply (with_tmp_ok high _ r1 H n _ r9 HI1 Hvh1); [|done|done].
    rewrite (jvat_file s vl v (t_lvl t) HIs Hvl Hv). cbn [of_opt].
    rewrite (bind_ok _ _ _ v (ASt r2 H n)) by done.
    step Eu.
    apply (with_tmp_ok u _ r6 H n _ r8 HI6 Hvu); [|done|done].
    rewrite bool_decide_eq_true_2 by done. cbn [assert].
    rewrite (bind_ok _ _ _ tt (ASt r7 H n)) by done.
    by step (lift_run _ _ H n _ _ (incref_ok r7 u HI7 Hvu7)). }
  split.
  { apply (DStep_trans _ r r2 r11); [by apply DStep_grows|].
    apply (DStep_mono _ (heldn (ledger_add L l2))); [intros m; apply heldn_add|done]. }
  split.
  { pose proof (Counts_bump_add r6 _ _ u Hvu HC6) as HCa. fold r7 in HCa.
    pose proof (Counts_bump_add r7 _ _ u Hvu7 HCa) as HCb. fold r8 in HCb.
    pose proof (Counts_unbump_add r8 _ _ u Hvu8 HCb) as HCc. fold r9 in HCc.
    assert (HCd : Counts r10 (ledger_add L (low :: u :: cvals cache))).
    { apply (Counts_unbump_add r9 _ _ high Hvh9). eapply Counts_ext; [|exact HCc].
      unfold l2. ladd. }
    pose proof (Counts_unbump_add r10 _ _ low Hvl10 HCd) as HCe. fold r11 in HCe.
    eapply Counts_ext; [|exact HCe]. intros m. unfold cvals.
    rewrite (ledger_add_insert L cache k u m Hk). by rewrite ledger_add_cons. }
  intros k' x. rewrite lookup_insert_Some. intros [[<- <-]|[_ Hx]].
  - split; [done|]. split; [done|]. split; [by apply (grows_valid r6 r11)|].
    intros ρ. rewrite (grows_denv r6 r11 u ρ G611 HI6 Hvu). apply HDu6.
  - revert k' x Hx. apply (jcache_ok_DStep s _ r2 r11 cache HS211); [|done].
    intros y Hy. apply K2. unfold l2. lmem.
Qed.

End node_dyn.

(** ** 3. The loop over the lines of a well-formed file *)
Lemma load_nodes_dyn s vl r H n L nodes :
  Inv s → vars_file s vl → DynSt r → Counts r L →
  (∀ v l, vars s !! v = Some l → is_Some (vars r !! v)) →
  jwf s nodes →
  ∃ cache r', make_nodes (jvat vl) false ∅ nodes (ASt r H n)
              = (Ok (cache, None), ASt r' H n) ∧
    DStep (heldn L) r r' ∧ jcache_ok s r' cache ∧
    (∀ k, is_Some (cache !! k) ↔ k ∈ nodes.*1) ∧
    Counts r' (ledger_add L (cvals cache)).
Proof.
  intros HIs Hvl HD HC Hdecl Hwf.
  induction Hwf as [|acc k t Hwf IH Hk Ht Hk1 Hlo Hhi].
  { exists ∅, r. split; [done|]. split; [by apply DStep_refl|].
    split; [intros k x Hx; by rewrite lookup_empty in Hx|]. split.
    - intros k. rewrite lookup_empty. split; [by intros [? ?]|]. intros Hx. by apply elem_of_nil in Hx.
    - unfold cvals. rewrite map_to_list_empty. by apply Counts_add_nil. }
  destruct IH as (cache&r1&E1&HS1&Hc1&Hdom&HC1).
  pose proof HS1 as (HD1&_&_).
  assert (Hck : cache !! k = None).
  { apply eq_None_not_Some. intros Hs. by apply Hdom in Hs. }
  assert (Hch : ∀ c, JsonLoad.child_ok acc c → absn c = 1%positive ∨ is_Some (cache !! absn c)).
  { intros c [?|Hc]; [by left|right]. by apply Hdom. }
  destruct (make_node_dyn s HIs vl Hvl cache k t r1 H n L HD1 HC1)
    as (u&r2&E2&HS2&HC2&Hc2); try done; try (by apply Hch).
  { intros v l Hv. apply (DStep_vars _ r r1 v HS1). by apply (Hdecl v l). }
  exists (<[k := u]> cache), r2. rewrite (make_nodes_app _ _ _ _ _ _ _ _ E1).
  split; [by apply make_nodes_one|]. split; [by apply (DStep_trans _ r r1 r2)|].
  split; [done|]. split; [|done].
  intros k'. rewrite fmap_app, elem_of_app. cbn. rewrite elem_of_list_singleton.
  rewrite <- Hdom. destruct (decide (k' = k)) as [->|Hne].
  - rewrite lookup_insert. split; [by right|by eexists].
  - rewrite lookup_insert_ne by done. split; [by left|]. by intros [?|?].
Qed.

(** ** 4. The whole loader on explicit states, a file with the properties of
    [dump_json] (J0), any ledger [L] of external references *)
Lemma DynSt_frame r r' : DynSt r → Inv r' → frame r r' → DynSt r'.
Proof. intros [HI Hc Ht Hm] HI' (El&Ec&_&Et&Em). split; [done|congruence..]. Qed.

Theorem json_load_dyn s roots vorder jf r0 H n L :
  Inv s → json_file s roots vorder jf → roots ≠ RNone →
  Forall (valid s) (roots_values roots) →
  DynSt r0 → Counts r0 L →
  ∃ r1 r' us,
    declare (jf_levels jf).*1 r0 = (Ok tt, r1) ∧
    a_load_json jf false (ASt r0 H n)
      = (Ok (hroots_of roots n), ASt r' (hins H n us) (n + length us)) ∧
    (* the variables *)
    DynSt r1 ∧ frame r0 r1 ∧ vars r0 ⊆ vars r1 ∧ Counts r1 L ∧
    (∀ v, is_Some (vars r1 !! v) ↔ is_Some (vars r0 !! v) ∨ is_Some (vars s !! v)) ∧
    ((∀ v, is_Some (vars s !! v) → is_Some (vars r0 !! v)) → r1 = r0) ∧
    (∀ u, valid r0 u → valid r1 u ∧ ∀ ρ, denv r1 u ρ = denv r0 u ρ) ∧
    (* the nodes *)
    DStep (heldn L) r1 r' ∧
    Forall2 (same_fun s r') (roots_values roots) us ∧
    Counts r' (ledger_add L us).
Proof.
  intros HIs (Eroots&Evo&Hvl&Hwf&Hrc&_) Hnone Hr HD0 HC0.
  pose proof (dy_inv r0 HD0) as HI0.
  destruct (declare (jf_levels jf).*1 r0) as [rd r1] eqn:Ed.
  destruct (declare_run _ r0 rd r1 HI0 Ed) as (->&HI1&Hf1&HC1&Hd1&Hsub1&Hin1&Hsame1).
  assert (HD1 : DynSt r1) by (by apply (DynSt_frame r0)).
  assert (Hdecl : ∀ v l, vars s !! v = Some l → is_Some (vars r1 !! v)).
  { intros v l Hv. apply Hin1. apply elem_of_list_fmap. exists (v, l). split; [done|].
    by apply Hvl. }
  destruct (load_nodes_dyn s (jf_levels jf) r1 H n L (jf_nodes jf) HIs Hvl HD1
              (HC1 _ HC0) Hdecl Hwf) as (cache&r2&E2&HS2&Hc2&Hdom&HC2).
  pose proof HS2 as (HD2&_&_). pose proof (dy_inv r2 HD2) as HI2.
  assert (Hroot : ∀ c, c ∈ roots_values roots →
            valid s c ∧ (absn c = 1%positive ∨ is_Some (cache !! absn c))).
  { intros c Hc. split; [by eapply Forall_forall in Hr|].
    destruct (Hrc c Hc) as [?|?]; [by left|right]. by apply Hdom. }
  set (us := nfi_val cache <$> roots_values roots).
  destruct (load_roots_run cache roots r2 H n _ Hnone HI2 HC2 (jcache_cvalid s r2 cache Hc2))
    as (r3&Ern&E3&HI3&G3&HC3).
  { intros c Hc. destruct (Hroot c Hc) as [[? _] ?]. by split. }
  fold us in E3, HC3.
  assert (Hc3 : jcache_ok s r3 cache) by (by apply (jcache_ok_grows s r2 r3)).
  destruct (release_gen false (map_to_list cache) r3 (hins H n us) (n + length us)
              (ledger_add L us) HI3) as (r'&E4&HI4&G4&_&HC4); [| |done|].
  { by apply cvalid_list, (jcache_cvalid s). }
  { eapply Counts_ext; [|exact HC3]. intros m. unfold ledger_add, cvals. lia. }
  assert (G2' : grows r2 r') by (by etrans).
  exists r1, r', us. split; [done|]. split.
  { unfold a_load_json. cbn [bind ret]. step (lift_run _ _ H n _ _ Ed). cbn [bind ret].
    step E2. rewrite Eroots. step (catch_ok _ _ _ _ Ern). step E3. step E4.
    by cbn [bind ret]. }
  split; [done|]. split; [done|]. split; [done|]. split; [by apply HC1|]. split.
  { intros v. split.
    - intros Hv. destruct (declare_dom _ r0 _ r1 HI0 Ed v Hv) as [?|Hin]; [by left|right].
      apply elem_of_list_fmap in Hin as ([v' l]&->&Hin). exists l. by apply Hvl.
    - intros [[l Hl]|[l Hl]].
      + exists l. by apply (lookup_weaken _ _ _ _ Hl Hsub1).
      + by apply (Hdecl v l). }
  split.
  { intros Hall. apply Hsame1. intros v Hv.
    apply elem_of_list_fmap in Hv as ([v' l]&->&Hv). apply Hall. exists l. by apply Hvl. }
  split; [done|]. split.
  { apply (DStep_trans _ r1 r2 r'); [done|]. by apply DStep_grows. }
  split; [|done].
  apply Forall2_fmap_r, Forall_Forall2_diag, Forall_forall. intros c Hc.
  destruct (Hroot c Hc) as [Hv Hin].
  apply (same_fun_grows s r3 r'); [done..|]. by apply nfi_same.
Qed.

(** the statement with [DynSt] and [DStep] spelled out *)
Theorem json_load_dyn_ledger s roots vorder jf r0 H n L :
  Inv s → json_file s roots vorder jf → roots ≠ RNone →
  Forall (valid s) (roots_values roots) →
  Inv r0 → rctx r0 = false → tape r0 = [] → max_nodes r0 = None → Counts r0 L →
  ∃ r1 r' us,
    declare (jf_levels jf).*1 r0 = (Ok tt, r1) ∧
    a_load_json jf false (ASt r0 H n)
      = (Ok (hroots_of roots n), ASt r' (hins H n us) (n + length us)) ∧
    (* the variables: [declare] adds the missing names at the bottom *)
    Inv r1 ∧ frame r0 r1 ∧ vars r0 ⊆ vars r1 ∧ Counts r1 L ∧
    (∀ v, is_Some (vars r1 !! v) ↔ is_Some (vars r0 !! v) ∨ is_Some (vars s !! v)) ∧
    ((∀ v, is_Some (vars s !! v) → is_Some (vars r0 !! v)) → r1 = r0) ∧
    (∀ u, valid r0 u → valid r1 u ∧ ∀ ρ, denv r1 u ρ = denv r0 u ρ) ∧
    (* the nodes: from [r1] on, whatever [L] holds is kept by name *)
    Inv r' ∧ rctx r' = false ∧ tape r' = [] ∧ max_nodes r' = None ∧
    keeps (heldn L) r1 r' ∧
    (last_len r0 = None → last_len r' = None) ∧
    (is_Some (last_len r0) → is_Some (last_len r')) ∧
    Forall2 (same_fun s r') (roots_values roots) us ∧
    Counts r' (ledger_add L us).
Proof.
  intros HIs Hjf Hnone Hr HI0 Hc Ht Hmx HC.
  destruct (json_load_dyn s roots vorder jf r0 H n L HIs Hjf Hnone Hr (Build_DynSt r0 HI0 Hc Ht Hmx) HC)
    as (r1&r'&us&Ed&E&HD1&Hf1&Hsub&HC1&Hdom&Hsame&Hold&([HI' Hc' Ht' Hmx']&Hk&[Hm1 Hm2])&HF&HC').
  pose proof Hf1 as (El&_).
  exists r1, r', us. split_and!; try done; [apply HD1|..]; rewrite <- El; done.
Qed.

(** ** 5. Dump, then load into ANY receiver under the dynamic invariant *)
Lemma AInvDT_hins r0 H n r' us :
  AInvDT (ASt r0 H n) → DynSt r' →
  (∀ h u, H !! h = Some u → valid r' u) → Forall (valid r') us →
  Counts r' (ledger_add (hl H) us) →
  AInvDT (ASt r' (hins H n us) (n + length us)).
Proof.
  intros [(_&_&_&_&Hb) _] HD' Hold Hnew HC'. cbn [mgr handles next_hid] in *.
  split; [|apply HD']. split; [apply HD'|]. split; [apply HD'|]. split.
  { unfold hledger. cbn [handles mgr].
    eapply Counts_ext; [|exact HC']. intros m. symmetry. by apply hl_hins. }
  cbn [mgr handles next_hid]. split.
  - intros h u Hu. apply hins_lookup in Hu as [[Hu _]|(j&->&Hj)].
    + by apply (Hold h).
    + exact (proj1 (Forall_lookup _ _) Hnew j u Hj).
  - intros h u Hu. apply hins_lookup in Hu as [[Hu _]|(j&->&Hj)].
    + specialize (Hb _ _ Hu). lia.
    + apply lookup_lt_Some in Hj. lia.
Qed.

Theorem json_roundtrip_dynamic s roots vorder jf sd b :
  Inv s → Forall (valid s) (roots_values roots) →
  dump_json roots vorder s = (Ok jf, sd) →
  AInvDT b → max_nodes (mgr b) = None →
  sd = s ∧
  ∃ b' us,
    a_load_json jf false b = (Ok (hroots_of roots (next_hid b)), b') ∧
    (* the receiver *)
    AInvDT b' ∧ max_nodes (mgr b') = None ∧ AKeepAll b b' ∧
    (∀ v, is_Some (vars (mgr b') !! v) ↔
          is_Some (vars (mgr b) !! v) ∨ is_Some (vars s !! v)) ∧
    (last_len (mgr b) = None → last_len (mgr b') = None) ∧
    (is_Some (last_len (mgr b)) → is_Some (last_len (mgr b'))) ∧
    (* the handles *)
    next_hid b' = next_hid b + length (roots_values roots) ∧
    (∀ h, h < next_hid b ∨ next_hid b' ≤ h → handles b' !! h = handles b !! h) ∧
    (∀ i u', us !! i = Some u' → handles b' !! (next_hid b + i) = Some u') ∧
    Forall2 (same_fun s (mgr b')) (roots_values roots) us ∧
    (* the reference counts *)
    Counts (mgr b') (ledger_add (hledger b) us).
Proof.
  intros HIs Hr Hd HA Hmx.
  assert (Hnone : roots ≠ RNone).
  { intros ->. by apply dump_json_none in Hd. }
  destruct (dump_json_spec s HIs roots vorder jf sd Hr Hd) as [-> Hjf].
  split; [done|]. destruct b as [r0 H n]. pose proof HA as [(HIb&Hrc&HC&Hv&Hb) Ht].
  cbn [mgr handles next_hid] in *. unfold hledger in *. cbn [handles] in *.
  assert (HD0 : DynSt r0) by (by split).
  destruct (json_load_dyn s roots vorder jf r0 H n (hl H) HIs Hjf Hnone Hr HD0 HC)
    as (r1&r'&us&Ed&E&HD1&Hf1&Hsub&HC1&Hdom&Hsame&Hold&HS&HF&HC').
  pose proof HS as (HD'&[Edom _]&[Hm1 Hm2]). pose proof Hf1 as (El&_).
  assert (Hlen : length us = length (roots_values roots))
    by (symmetry; by eapply Forall2_length).
  assert (Hold' : ∀ h u, H !! h = Some u →
            valid r' u ∧ ∀ ρ, denv r' u ρ = denv r0 u ρ).
  { intros h u Hu. destruct (Hold u (Hv h u Hu)) as [Hu1 HD1u].
    assert (Hk : heldn (hl H) (absn u)) by (right; by apply (hl_pos H h)).
    split; [by apply (DStep_valid _ r1 r' u HS Hk)|].
    intros ρ. by rewrite (DStep_denv _ r1 r' u ρ HS Hk Hu1). }
  assert (Hnew : Forall (valid r') us).
  { apply Forall_forall. intros u' Hin. apply elem_of_list_lookup in Hin as [i Hi].
    destruct (Forall2_lookup_r _ _ _ _ _ HF Hi) as (c&_&[Hvu _]). done. }
  exists (ASt r' (hins H n us) (n + length us)), us. cbn [mgr handles next_hid].
  split; [done|]. split.
  { apply (AInvDT_hins r0); [done|done| |done|done]. intros h u Hu. by apply (Hold' h). }
  split; [apply HD'|]. split.
  { intros h u Hu. cbn [mgr handles] in *. split.
    - rewrite hins_old; [done|]. left. by apply (Hb h u).
    - by apply (Hold' h). }
  split.
  { intros v. rewrite <- Hdom. rewrite <- !elem_of_dom. by rewrite Edom. }
  split; [intros Hn; apply Hm1; by rewrite El|].
  split; [intros Hn; apply Hm2; by rewrite El|].
  split; [by rewrite Hlen|]. split; [intros h Hh; by apply hins_old|].
  split; [intros i u' Hi; by apply hins_new|]. done.
Qed.

(** ** 6. ANY file (well formed or not), any node limit: see
    [Proofs/JsonLoadDynAny.v] ([json_load_any_file_dynamic_any]); here only
    two facts about the memo that it uses. *)
Definition cnz (c : gmap positive Z) : Prop := ∀ k x, c !! k = Some x → x ≠ 0%Z.

Lemma cnz_cvalid r L c : Inv r → Counts r (ledger_add L (cvals c)) → cnz c → cvalid r c.
Proof.
  intros HI HC Hnz k x Hx. apply (heldn_valid _ r x HI HC (Hnz k x Hx)).
  by apply heldn_add_in, (cvals_in c k).
Qed.

Lemma cvals_insert_perm (c : gmap positive Z) k u : c !! k = None →
  cvals (<[k := u]> c) ≡ₚ u :: cvals c.
Proof. intros Hk. unfold cvals. by rewrite (map_to_list_insert c k u Hk). Qed.

(** worlds written with [fold_left] are [arun]s *)
Lemma fold_arun w m ops : fold_left (fun w o => fst (astep w m o)) ops w = arun w m ops.
Proof. reflexivity. Qed.
Lemma arun_cons w m o ops : arun w m (o :: ops) = arun (fst (astep w m o)) m ops.
Proof. reflexivity. Qed.
