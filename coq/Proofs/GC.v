(** * GC: [collect_garbage] frees exactly the unreachable nodes and keeps the
      reference counts exact *)
From DD Require Export Counts.

Inductive reach (m : gmap positive triple) (R : positive → Prop) : positive → Prop :=
  | reach_root n : R n → n ∈ dom m → reach m R n
  | reach_lo p t : reach m R p → m !! p = Some t → t_lo t ≠ 0%Z → reach m R (absn (t_lo t))
  | reach_hi p t : reach m R p → m !! p = Some t → t_hi t ≠ 0%Z → reach m R (absn (t_hi t)).

(** ** The invariant without the computed table.  In the middle of a
    collection the entries of [_ite_table] may mention removed nodes (the
    table is cleared only at the end), every other clause of [Inv] holds
    after each single removal. *)
Definition clr (s : st) : st := s <| ite_tab := ∅ |>.
Definition W (s : st) : Prop := Inv (clr s).

Lemma Inv_W s : Inv s → W s.
Proof.
  intros HI. split; [apply HI|apply HI|apply HI|apply HI|apply HI| |apply HI|apply HI].
  intros g u v w Hi. cbn in Hi. by rewrite lookup_empty in Hi.
Qed.

Lemma W_intro s :
  succ s !! 1%positive = Some (tterm (nvars s)) →
  (∀ n t, succ s !! n = Some t → n ≠ 1%positive →
     t_lvl t < nvars s ∧ valid s (t_lo t) ∧ (0 < t_hi t)%Z ∧ valid s (t_hi t) ∧
     t_lvl t < lvl_of s (t_lo t) ∧ t_lvl t < lvl_of s (t_hi t) ∧ t_lo t ≠ t_hi t) →
  (∀ n t, succ s !! n = Some t ↔ pred s !! t = Some n) →
  (succ s !! min_free s = None ∧
   ∀ k, (k < min_free s)%positive → is_Some (succ s !! k)) →
  dom (refc s) = dom (succ s) →
  (∀ v l, vars s !! v = Some l ↔ lvl2var s !! l = Some v) →
  (∀ l, l < nvars s ↔ is_Some (lvl2var s !! l)) →
  W s.
Proof.
  intros H1 H2 H3 H4 H5 H6 H7. split; try assumption.
  intros g u v w Hi. cbn in Hi. by rewrite lookup_empty in Hi.
Qed.

Section W.
Context (s : st) (HW : W s).
Lemma W_term : succ s !! 1%positive = Some (tterm (nvars s)).
Proof. exact (inv_term _ HW). Qed.
Lemma W_node n t : succ s !! n = Some t → n ≠ 1%positive →
  t_lvl t < nvars s ∧ valid s (t_lo t) ∧ (0 < t_hi t)%Z ∧ valid s (t_hi t) ∧
  t_lvl t < lvl_of s (t_lo t) ∧ t_lvl t < lvl_of s (t_hi t) ∧ t_lo t ≠ t_hi t.
Proof. exact (inv_node _ HW n t). Qed.
Lemma W_pred n t : succ s !! n = Some t ↔ pred s !! t = Some n.
Proof. exact (inv_pred _ HW n t). Qed.
Lemma W_free : succ s !! min_free s = None ∧
  ∀ k, (k < min_free s)%positive → is_Some (succ s !! k).
Proof. exact (inv_free _ HW). Qed.
Lemma W_ref : dom (refc s) = dom (succ s).
Proof. exact (inv_ref _ HW). Qed.
Lemma W_vars v l : vars s !! v = Some l ↔ lvl2var s !! l = Some v.
Proof. exact (inv_vars _ HW v l). Qed.
Lemma W_lvls l : l < nvars s ↔ is_Some (lvl2var s !! l).
Proof. exact (inv_lvls _ HW l). Qed.

(** the facts about a stored non-terminal node that the loop needs *)
Lemma node_facts u t : succ s !! u = Some t → u ≠ 1%positive →
  t_lo t ≠ 0%Z ∧ (0 < t_hi t)%Z ∧
  is_Some (succ s !! absn (t_lo t)) ∧ is_Some (succ s !! absn (t_hi t)) ∧
  absn (t_lo t) ≠ u ∧ absn (t_hi t) ≠ u.
Proof.
  intros Ht Hu1. destruct (W_node u t Ht Hu1) as (_&[Hl0 Hl]&Hhp&[_ Hh]&Hll&Hlh&_).
  split_and!; try done.
  - intros E. unfold lvl_of in Hll. rewrite E, Ht in Hll. lia.
  - intros E. unfold lvl_of in Hlh. rewrite E, Ht in Hlh. lia.
Qed.

Lemma W_edges_dom k t n : succ s !! k = Some t → 0 < edges_to t n →
  n ∈ dom (succ s) ∧ k ≠ 1%positive.
Proof. exact (Inv_edges_dom (clr s) k t n HW). Qed.
End W.

Lemma absn_to_pos w : (0 < w)%Z → absn w = Z.to_pos w.
Proof. intros. unfold absn. by rewrite Z.abs_eq by lia. Qed.

Lemma reach_dom s R n : Inv s → reach (succ s) R n → n ∈ dom (succ s).
Proof.
  intros HI. induction 1 as [n _ Hn|p t _ IH Hp Hl|p t _ IH Hp Hh]; [done|..].
  - apply (Inv_edges_dom s p t _ HI Hp). by apply edges_to_lo.
  - apply (Inv_edges_dom s p t _ HI Hp). by apply edges_to_hi.
Qed.

(** ** One removal *)
Definition gc_del (s : st) (u : positive) (t : triple) : st :=
  s <| succ ::= delete u |> <| pred ::= delete t |>
    <| refc ::= delete u |> <| min_free ::= Pos.min u |>
    <| refc ::= alter Nat.pred (absn (t_lo t)) |>
    <| refc ::= alter Nat.pred (absn (t_hi t)) |>.

Definition gc_next (U : gset positive) (u : positive) (t : triple) (rv rw : nat)
  : gset positive :=
  let U0 := U ∖ {[u]} in
  let U1 := if decide (rv = 0 ∧ absn (t_lo t) ≠ 1%positive)
            then U0 ∪ {[absn (t_lo t)]} else U0 in
  if decide (rw = 0 ∧ t_hi t ≠ 1%Z) then U1 ∪ {[Z.to_pos (t_hi t)]} else U1.

Lemma getsucc_ok s n t : succ s !! n = Some t → getsucc n s = (Ok t, s).
Proof. intros H. unfold getsucc. by rewrite H. Qed.
Lemma getref_ok s n c : refc s !! n = Some c → getref n s = (Ok c, s).
Proof. intros H. unfold getref. by rewrite H. Qed.

Lemma refc_gc_del s u t n : n ≠ u →
  refc (gc_del s u t) !! n =
  (if decide (absn (t_hi t) = n) then Nat.pred else id) <$>
  ((if decide (absn (t_lo t) = n) then Nat.pred else id) <$> refc s !! n).
Proof. intros Hn. cbn. by rewrite !lookup_alter_if, lookup_delete_ne. Qed.

(** executing one iteration of the worklist loop *)
Lemma gc_loop_unfold f U s u l t :
  elements U = u :: l → u ≠ 1%positive → succ s !! u = Some t →
  t_lo t ≠ 0%Z → (0 < t_hi t)%Z → pred s !! t = Some u → refc s !! u = Some 0 →
  (1 < Pos.min u (min_free s))%positive →
  absn (t_lo t) ≠ u → absn (t_hi t) ≠ u →
  is_Some (refc s !! absn (t_lo t)) → is_Some (refc s !! absn (t_hi t)) →
  ∃ rv rw, refc (gc_del s u t) !! absn (t_lo t) = Some rv ∧
           refc (gc_del s u t) !! absn (t_hi t) = Some rw ∧
           gc_loop (S f) U s = gc_loop f (gc_next U u t rv rw) (gc_del s u t).
Proof.
  intros Hel Hu1 Ht Hl0 Hhp Hp Hr Hmf Hlu Hhu [a Ha] [b Hb].
  assert (is_Some (refc (gc_del s u t) !! absn (t_lo t))) as [rv Hrv].
  { rewrite refc_gc_del by done. rewrite Ha. by eexists. }
  assert (is_Some (refc (gc_del s u t) !! absn (t_hi t))) as [rw Hrw].
  { rewrite refc_gc_del by done. rewrite Hb. by eexists. }
  exists rv, rw. split; [done|split; [done|]].
  cbn [gc_loop]. rewrite Hel. unfold assert.
  rewrite bool_decide_eq_true_2 by done. cbn [bind ret].
  rewrite (bind_ok _ _ _ _ _ (getsucc_ok s u t Ht)). cbn [bind modify].
  unfold is_term. rewrite bool_decide_eq_false_2 by done. cbn [negb bind ret get].
  cbn [pred set]. rewrite Hp. cbn [of_opt bind ret modify].
  erewrite (bind_ok (getref u)) by (apply getref_ok; exact Hr).
  cbn [bind modify]. rewrite !bool_decide_eq_true_2 by done. cbn [bind ret get].
  rewrite bool_decide_eq_true_2 by exact Hmf. cbn [bind ret].
  erewrite (bind_ok (decref (t_lo t)));
    [|apply decref_run; [done|cbn; rewrite lookup_delete_ne by done; eauto]].
  erewrite (bind_ok (decref (t_hi t)));
    [|apply decref_run; [lia|cbn; apply lookup_alter_is_Some; rewrite lookup_delete_ne by done; eauto]].
  erewrite (bind_ok (getref _)) by (apply getref_ok; exact Hrv).
  rewrite decide_True by done.
  erewrite (bind_ok (getref _)) by (apply getref_ok; rewrite <- absn_to_pos by done; exact Hrw).
  reflexivity.
Qed.


Lemma dec_edges t n k : t_lo t ≠ 0%Z → t_hi t ≠ 0%Z →
  (if decide (absn (t_hi t) = n) then Nat.pred else id)
    ((if decide (absn (t_lo t) = n) then Nat.pred else id) (edges_to t n + k)) = k.
Proof.
  intros Hl Hh. unfold edges_to.
  destruct (decide (absn (t_lo t) = n)) as [E1|E1];
  destruct (decide (absn (t_hi t) = n)) as [E2|E2].
  - rewrite !decide_True by done. done.
  - rewrite decide_True, decide_False by tauto. done.
  - rewrite decide_False, decide_True by tauto. done.
  - rewrite !decide_False by tauto. done.
Qed.

(** ** What one removal preserves *)
Lemma W_gc_del s u t : W s → succ s !! u = Some t → u ≠ 1%positive →
  indeg (succ s) u = 0 → W (gc_del s u t).
Proof.
  intros HW Ht Hu1 Hin.
  assert (Hnop : ∀ n t', succ s !! n = Some t' → n ≠ 1%positive →
            absn (t_lo t') ≠ u ∧ absn (t_hi t') ≠ u).
  { intros n t' Hn Hn1. destruct (W_node s HW n t' Hn Hn1) as (_&[Hl0 _]&Hhp&_).
    pose proof (indeg_ge (succ s) n t' u Hn) as Hle. rewrite Hin in Hle.
    split; intros E.
    - pose proof (edges_to_lo t' Hl0) as H. rewrite E in H. lia.
    - pose proof (edges_to_hi t' ltac:(lia)) as H. rewrite E in H. lia. }
  assert (Hval : ∀ x, valid s x → absn x ≠ u → valid (gc_del s u t) x).
  { intros x [Hx0 Hx] Hxu. split; [done|]. cbn. by rewrite lookup_delete_ne. }
  assert (Hlvl : ∀ x, absn x ≠ u → lvl_of (gc_del s u t) x = lvl_of s x).
  { intros x Hxu. unfold lvl_of. cbn. by rewrite lookup_delete_ne. }
  destruct (W_free s HW) as [Hfree Hbelow].
  apply W_intro.
  - cbn. rewrite lookup_delete_ne by done. apply (W_term s HW).
  - intros n t' Hn Hn1. cbn in Hn. apply lookup_delete_Some in Hn as [Hnu Hn].
    destruct (W_node s HW n t' Hn Hn1) as (?&?&?&?&?&?&?).
    destruct (Hnop n t' Hn Hn1) as [? ?].
    rewrite !Hlvl by done. split_and!; try done; by apply Hval.
  - intros n t'. cbn. rewrite !lookup_delete_Some. rewrite <- (W_pred s HW). split.
    + intros [Hnu Hn]. split; [|done]. intros <-. apply (W_pred s HW) in Ht, Hn. congruence.
    + intros [Htt Hn]. split; [|done]. intros <-. congruence.
  - cbn. split.
    + destruct (Pos.min_spec u (min_free s)) as [[_ ->]|[_ ->]].
      * apply lookup_delete.
      * rewrite lookup_delete_ne; [done|]. intros ->. congruence.
    + intros k Hk. rewrite lookup_delete_ne by lia. apply Hbelow. lia.
  - cbn. rewrite !dom_alter_L, !dom_delete_L. by rewrite (W_ref s HW).
  - apply (W_vars s HW).
  - apply (W_lvls s HW).
Qed.

Lemma Counts_gc_del s L u t : W s → Counts s L → succ s !! u = Some t →
  u ≠ 1%positive → refc s !! u = Some 0 → Counts (gc_del s u t) L.
Proof.
  intros HW [H1 H2] Ht Hu1 Hr.
  destruct (node_facts s HW u t Ht Hu1) as (Hv0&Hwp&Hvd&Hwd&Hvu&Hwu).
  assert (Hud : u ∈ dom (succ s)) by (apply elem_of_dom; eauto).
  pose proof (H1 u Hud) as Hu. rewrite Hr in Hu. injection Hu as Hu.
  split.
  - intros n Hn. cbn [succ gc_del set] in Hn. cbn in Hn. rewrite dom_delete_L in Hn.
    assert (n ≠ u ∧ n ∈ dom (succ s)) as [Hnu Hnd] by set_solver.
    rewrite refc_gc_del by done. rewrite (H1 n Hnd).
    change (succ (gc_del s u t)) with (delete u (succ s)).
    rewrite (indeg_delete (succ s) u t n Ht). cbn [fmap option_fmap option_map].
    f_equal. rewrite <- Nat.add_assoc. apply dec_edges; [done|lia].
  - intros n Hn. change (succ (gc_del s u t)) with (delete u (succ s)) in Hn.
    rewrite dom_delete_L in Hn.
    destruct (decide (n = u)) as [->|]; [lia|]. apply H2. set_solver.
Qed.

(** ** The loop invariant.  [C] selects the completeness clause (every
    zero-count node is in the worklist), which holds for [roots=None]. *)
Record J (C : Prop) (s0 : st) (L : positive → nat) (s : st) (U : gset positive)
  : Prop := {
  j_inv : W s;
  j_counts : Counts s L;
  j_sub : succ s ⊆ succ s0;
  j_vars : vars s = vars s0;
  j_l2v : lvl2var s = lvl2var s0;
  j_frame : frame s0 s;
  j_unused : ∀ n, n ∈ U →
     n ≠ 1%positive ∧ n ∈ dom (succ s) ∧ refc s !! n = Some 0;
  j_reach : ∀ n, reach (succ s0) (fun k => 0 < L k) n → n ∈ dom (succ s);
  j_complete : C → ∀ n, n ∈ dom (succ s) → n ≠ 1%positive →
     refc s !! n = Some 0 → n ∈ U;
}.

Lemma J_step C s0 L s U u t rv rw :
  J C s0 L s U → u ∈ U → succ s !! u = Some t →
  refc (gc_del s u t) !! absn (t_lo t) = Some rv →
  refc (gc_del s u t) !! absn (t_hi t) = Some rw →
  J C s0 L (gc_del s u t) (gc_next U u t rv rw).
Proof.
  intros HJ HuU Ht Hrv Hrw.
  destruct (j_unused _ _ _ _ _ HJ u HuU) as (Hu1&Hud&Hr).
  pose proof (j_inv _ _ _ _ _ HJ) as HW.
  pose proof (j_counts _ _ _ _ _ HJ) as HC.
  destruct (node_facts s HW u t Ht Hu1) as (Hv0&Hwp&Hvd&Hwd&Hvu&Hwu).
  assert (Hin : indeg (succ s) u = 0 ∧ L u = 0).
  { destruct HC as [H1 _]. specialize (H1 u Hud). rewrite Hr in H1.
    injection H1 as H1. lia. }
  destruct Hin as [Hin HLu].
  assert (Hw' : Z.to_pos (t_hi t) = absn (t_hi t)) by (by rewrite absn_to_pos).
  assert (Hdom : dom (succ (gc_del s u t)) = dom (succ s) ∖ {[u]})
    by apply dom_delete_L.
  split.
  - by apply W_gc_del.
  - by apply Counts_gc_del.
  - etrans; [apply delete_subseteq|]. apply (j_sub _ _ _ _ _ HJ).
  - apply (j_vars _ _ _ _ _ HJ).
  - apply (j_l2v _ _ _ _ _ HJ).
  - destruct (j_frame _ _ _ _ _ HJ) as (?&?&?&?&?). by split_and!.
  - (* worklist members are zero-count nodes *)
    assert (Hold : ∀ n, n ∈ U ∖ {[u]} →
              n ≠ 1%positive ∧ n ∈ dom (succ (gc_del s u t)) ∧
              refc (gc_del s u t) !! n = Some 0).
    { intros n Hn. apply elem_of_difference in Hn as [Hn Hnu].
      rewrite elem_of_singleton in Hnu.
      destruct (j_unused _ _ _ _ _ HJ n Hn) as (?&?&Hrn).
      rewrite Hdom. split_and!; [done|set_solver|].
      rewrite refc_gc_del by done. rewrite Hrn. by repeat case_decide. }
    assert (Hlo : ∀ n, n ∈ (if decide (rv = 0 ∧ absn (t_lo t) ≠ 1%positive)
                            then U ∖ {[u]} ∪ {[absn (t_lo t)]} else U ∖ {[u]}) →
              n ≠ 1%positive ∧ n ∈ dom (succ (gc_del s u t)) ∧
              refc (gc_del s u t) !! n = Some 0).
    { intros n Hn. case_decide as Hd; [|by apply Hold].
      apply elem_of_union in Hn as [Hn|Hn]; [by apply Hold|].
      apply elem_of_singleton in Hn as ->. destruct Hd as [-> ?].
      rewrite Hdom. apply elem_of_dom in Hvd. split_and!; [done|set_solver|done]. }
    intros n Hn. unfold gc_next in Hn. cbv zeta in Hn.
    case_decide as Hd; [|by apply Hlo].
    apply elem_of_union in Hn as [Hn|Hn]; [by apply Hlo|].
    apply elem_of_singleton in Hn as ->. destruct Hd as [-> Hw1].
    rewrite Hw', Hdom. apply elem_of_dom in Hwd. split_and!; [|set_solver|done].
    intros E. rewrite <- Hw' in E. apply Hw1. rewrite <- (Z2Pos.id (t_hi t)) by done.
    by rewrite E.
  - (* reachable nodes are not removed *)
    intros n Hn. rewrite Hdom.
    pose proof (j_reach _ _ _ _ _ HJ n Hn) as Hnd.
    apply elem_of_difference. split; [done|]. rewrite elem_of_singleton. intros ->.
    assert (Hpar : ∀ p tp, reach (succ s0) (λ k, 0 < L k) p → succ s0 !! p = Some tp →
              0 < edges_to tp u → False).
    { intros p tp Hp Hsp He.
      pose proof (j_reach _ _ _ _ _ HJ p Hp) as Hpd.
      apply elem_of_dom in Hpd as [tp' Hp'].
      pose proof (lookup_weaken _ _ _ _ Hp' (j_sub _ _ _ _ _ HJ)) as Hp''.
      assert (tp' = tp) as -> by congruence.
      pose proof (indeg_ge (succ s) p tp u Hp'). lia. }
    inversion Hn as [n' HR _ E|p tp Hp Hsp Hl E|p tp Hp Hsp Hh E].
    + lia.
    + apply (Hpar p tp Hp Hsp). rewrite <- E. by apply edges_to_lo.
    + apply (Hpar p tp Hp Hsp). rewrite <- E. by apply edges_to_hi.
  - (* completeness *)
    intros HCc n Hn Hn1 Hrn. rewrite Hdom in Hn.
    apply elem_of_difference in Hn as [Hn Hnu]. rewrite elem_of_singleton in Hnu.
    unfold gc_next. cbv zeta.
    destruct (decide (absn (t_hi t) = n)) as [Eh|Eh].
    { rewrite <- Eh, Hrw in Hrn. injection Hrn as ->.
      rewrite decide_True; [rewrite Hw'; set_solver|].
      split; [done|]. intros E. rewrite E in Eh. by rewrite <- Eh in Hn1. }
    destruct (decide (absn (t_lo t) = n)) as [El|El].
    { rewrite <- El, Hrv in Hrn. injection Hrn as ->.
      rewrite (decide_True (P := 0 = 0 ∧ _)) by (by rewrite El).
      case_decide; set_solver. }
    rewrite refc_gc_del in Hrn by done.
    rewrite !decide_False in Hrn by done.
    assert (refc s !! n = Some 0) as Hrn' by (by destruct (refc s !! n)).
    pose proof (j_complete _ _ _ _ _ HJ HCc n Hn Hn1 Hrn') as HnU.
    repeat case_decide; set_solver.
Qed.

(** ** The loop *)
Lemma gc_loop_spec C s0 L fuel : ∀ U s r s',
  J C s0 L s U → size (succ s) < fuel → gc_loop fuel U s = (r, s') →
  r = Ok tt ∧ J C s0 L s' ∅.
Proof.
  induction fuel as [|f IH]; intros U s r s' HJ Hsz; [lia|].
  destruct (elements U) as [|u l] eqn:Hel.
  { cbn [gc_loop]. rewrite Hel. intros [= <- <-]. split; [done|].
    apply elements_empty_inv, leibniz_equiv in Hel. by subst. }
  assert (HuU : u ∈ U) by (apply elem_of_elements; rewrite Hel; left).
  destruct (j_unused _ _ _ _ _ HJ u HuU) as (Hu1&Hud&Hr).
  pose proof (j_inv _ _ _ _ _ HJ) as HW.
  pose proof (j_counts _ _ _ _ _ HJ) as HC.
  apply elem_of_dom in Hud as [t Ht].
  destruct (node_facts s HW u t Ht Hu1) as (Hv0&Hwp&Hvd&Hwd&Hvu&Hwu).
  destruct (W_free s HW) as [Hfree _].
  destruct (gc_loop_unfold f U s u l t Hel Hu1 Ht Hv0 Hwp) as (rv&rw&Hrv&Hrw&->);
    try done.
  - by apply (W_pred s HW).
  - assert (min_free s ≠ 1%positive); [|lia].
    intros E. rewrite E, (W_term s HW) in Hfree. done.
  - apply (Counts_ref s L _ HC). by apply elem_of_dom.
  - apply (Counts_ref s L _ HC). by apply elem_of_dom.
  - apply IH.
    + by apply J_step.
    + change (succ (gc_del s u t)) with (delete u (succ s)).
      rewrite map_size_delete, Ht.
      assert (size (succ s) ≠ 0); [|lia].
      intros E. apply map_size_empty_inv in E. rewrite E in Ht. done.
Qed.

(** ** At exit every remaining node is reachable from an external reference *)
Lemma exit_reach s0 L s : J True s0 L s ∅ →
  ∀ n, n ∈ dom (succ s) → n ≠ 1%positive → reach (succ s0) (fun k => 0 < L k) n.
Proof.
  intros HJ.
  pose proof (j_inv _ _ _ _ _ HJ) as HW.
  pose proof (j_counts _ _ _ _ _ HJ) as [HC1 HC2].
  assert (Hgen : ∀ k n t, succ s !! n = Some t → t_lvl t = k → n ≠ 1%positive →
             reach (succ s0) (fun k => 0 < L k) n).
  { intros k. induction (lt_wf k) as [k _ IH]. intros n t Hn Hk Hn1.
    assert (Hnd : n ∈ dom (succ s)) by (apply elem_of_dom; eauto).
    pose proof (HC1 n Hnd) as Hrn.
    destruct (decide (0 < L n)) as [HL|HL].
    { apply reach_root; [done|]. apply elem_of_dom. exists t.
      apply (lookup_weaken _ _ _ _ Hn (j_sub _ _ _ _ _ HJ)). }
    destruct (decide (0 < indeg (succ s) n)) as [Hi|Hi]; cycle 1.
    { exfalso. apply (not_elem_of_empty (C := gset positive) n).
      apply (j_complete _ _ _ _ _ HJ I n Hnd Hn1). rewrite Hrn. f_equal. lia. }
    destruct (indeg_pos _ _ Hi) as (p&tp&Hp&He).
    destruct (W_edges_dom s HW p tp n Hp He) as [_ Hp1].
    destruct (W_node s HW p tp Hp Hp1) as (_&_&_&_&Hll&Hlh&_).
    pose proof (lookup_weaken _ _ _ _ Hp (j_sub _ _ _ _ _ HJ)) as Hp0.
    destruct (edges_to_cases _ _ He) as [[H0 E]|[H0 E]].
    - unfold lvl_of in Hll. rewrite E, Hn in Hll. rewrite <- E.
      apply (reach_lo _ _ p tp); [|done|done].
      apply (IH (t_lvl tp)) with tp; [lia|done|done|done].
    - unfold lvl_of in Hlh. rewrite E, Hn in Hlh. rewrite <- E.
      apply (reach_hi _ _ p tp); [|done|done].
      apply (IH (t_lvl tp)) with tp; [lia|done|done|done]. }
  intros n Hn Hn1. apply elem_of_dom in Hn as [t Hn]. by apply (Hgen (t_lvl t) n t).
Qed.

(** ** The initial scan of the counters *)
Lemma gc_scan s (l : list Z) : ∀ acc : gset positive,
  (∀ u, u ∈ l → u ≠ 0%Z ∧ is_Some (refc s !! absn u)) →
  ∃ X : gset positive,
    foldM (fun (acc : gset positive) (u : Z) =>
              r <- ref u ;;
              if decide (r = 0) then ret (acc ∪ {[absn u]}) else ret acc)
          acc l s = (Ok X, s) ∧
    ∀ n, n ∈ X ↔ n ∈ acc ∨ ∃ u, u ∈ l ∧ absn u = n ∧ refc s !! n = Some 0.
Proof.
  induction l as [|u l IH]; intros acc Hl.
  - exists acc. split; [done|]. intros n. split; [by left|].
    intros [?|(u&Hu&_)]; [done|]. by apply elem_of_nil in Hu.
  - destruct (Hl u ltac:(left)) as [Hu0 [c Hc]].
    assert (Href : ref u s = (Ok c, s)).
    { unfold ref. rewrite decide_False by done. by apply getref_ok. }
    assert (Hbody : (r <- ref u ;;
              if decide (r = 0) then ret (acc ∪ {[absn u]}) else ret acc) s
            = (Ok (if decide (c = 0) then acc ∪ {[absn u]} else acc), s)).
    { rewrite (bind_ok _ _ _ _ _ Href). by case_decide. }
    cbn [foldM]. rewrite (bind_ok _ _ _ _ _ Hbody).
    destruct (IH (if decide (c = 0) then acc ∪ {[absn u]} else acc)) as (X&HX&HXs).
    { intros x Hx. apply Hl. by right. }
    exists X. split; [done|]. intros n. rewrite HXs.
    destruct (decide (c = 0)) as [->|Hc0].
    + rewrite elem_of_union, elem_of_singleton. split.
      * intros [[?| ->]|(x&Hx&?&?)]; [by left|right; exists u; split_and!; [left|done..]|].
        right. exists x. split_and!; [by right|done..].
      * intros [?|(x&Hx&E&Hr)]; [by left; left|].
        apply elem_of_cons in Hx as [->|Hx]; [left; right; done|].
        right. exists x. done.
    + split.
      * intros [?|(x&Hx&?&?)]; [by left|]. right. exists x. split_and!; [by right|done..].
      * intros [?|(x&Hx&E&Hr)]; [by left|].
        apply elem_of_cons in Hx as [->|Hx]; [congruence|].
        right. exists x. done.
Qed.

(** ** [collect_garbage] *)
Definition roots_ok (s : st) (roots : option (list Z)) : Prop :=
  match roots with None => True | Some l => ∀ u, u ∈ l → valid s u end.

Lemma gc_run (C : Prop) roots s L r s' :
  Inv s → Counts s L → roots_ok s roots → (C → roots = None) →
  collect_garbage roots s = (r, s') →
  r = Ok tt ∧ ite_tab s' = ∅ ∧ Inv s' ∧ J C s L s' ∅.
Proof.
  intros HI HC Hroots HCr. unfold collect_garbage. cbn [bind get].
  set (l := match roots with
            | None => Z.pos <$> elements (dom (refc s)) | Some l => l end).
  assert (Hl : ∀ u, u ∈ l → u ≠ 0%Z ∧ is_Some (refc s !! absn u)).
  { intros u Hu. subst l. destruct roots as [l|].
    - destruct (Hroots u Hu) as [? Hs]. split; [done|].
      apply elem_of_dom. rewrite (inv_ref _ HI). by apply elem_of_dom.
    - apply elem_of_list_fmap in Hu as (p&->&Hp). apply elem_of_elements in Hp.
      split; [done|]. rewrite absn_pos. by apply elem_of_dom. }
  destruct (gc_scan s l ∅ Hl) as (X&HX&HXs).
  rewrite (bind_ok _ _ _ _ _ HX).
  destruct (gc_loop (S (len s)) (X ∖ {[1%positive]}) s) as [r1 s1] eqn:Eloop.
  pose proof Eloop as Eloop'.
  apply (gc_loop_spec C s L) in Eloop' as [-> HJ]; [| |unfold len; lia].
  2:{ split.
      - by apply Inv_W.
      - done.
      - done.
      - done.
      - done.
      - reflexivity.
      - intros n Hn. apply elem_of_difference in Hn as [Hn Hn1].
        rewrite elem_of_singleton in Hn1.
        apply HXs in Hn as [Hn|(u&Hu&E&Hr)]; [by apply elem_of_empty in Hn|].
        split_and!; [done| |done]. rewrite <- (inv_ref _ HI). apply elem_of_dom. eauto.
      - intros n Hn. by apply (reach_dom s (fun k => 0 < L k) n HI).
      - intros HCc n Hn Hn1 Hr. apply elem_of_difference.
        split; [|by rewrite elem_of_singleton].
        apply HXs. right. exists (Z.pos n). split_and!; [|done|done].
        subst l. rewrite (HCr HCc). apply elem_of_list_fmap. exists n. split; [done|].
        apply elem_of_elements. by rewrite (inv_ref _ HI). }
  rewrite (bind_ok _ _ _ _ _ Eloop). cbn [bind modify get].
  assert (Hsz : size (succ s1) ≤ size (succ s)).
  { assert (dom (succ s1) ⊆ dom (succ s)) as Hd
      by (apply subseteq_dom, (j_sub _ _ _ _ _ HJ)).
    apply subseteq_size in Hd. by rewrite !size_dom in Hd. }
  unfold assert. rewrite bool_decide_eq_true_2 by exact Hsz.
  intros [= <- <-]. split; [done|split; [done|split; [exact (j_inv _ _ _ _ _ HJ)|]]].
  destruct HJ. by split.
Qed.

(** safety, for both calling conventions *)
Theorem gc_safe roots s L r s' :
  Inv s → Counts s L → roots_ok s roots →
  collect_garbage roots s = (r, s') →
  r = Ok tt ∧ Inv s' ∧ Counts s' L ∧ ite_tab s' = ∅ ∧
  vars s' = vars s ∧ lvl2var s' = lvl2var s ∧ frame s s' ∧
  succ s' ⊆ succ s ∧
  (∀ n, n = 1%positive ∨ reach (succ s) (fun k => 0 < L k) n → n ∈ dom (succ s')).
Proof.
  intros HI HC Hr Hrun.
  destruct (gc_run False roots s L r s' HI HC Hr ltac:(done) Hrun) as (->&Hite&HI'&HJ).
  split_and!; try done; try apply HJ.
  intros n [->|Hn]; [|by apply (j_reach _ _ _ _ _ HJ)].
  apply elem_of_dom. rewrite (inv_term _ HI'). by eexists.
Qed.

Theorem gc_rooted_safe (roots : list Z) s L r s' :
  Inv s → Counts s L → (∀ u, u ∈ roots → valid s u) →
  collect_garbage (Some roots) s = (r, s') →
  r = Ok tt ∧ Inv s' ∧ Counts s' L ∧ ite_tab s' = ∅ ∧
  vars s' = vars s ∧ lvl2var s' = lvl2var s ∧ frame s s' ∧
  succ s' ⊆ succ s ∧
  (∀ n, n = 1%positive ∨ reach (succ s) (fun k => 0 < L k) n → n ∈ dom (succ s')).
Proof. intros HI HC Hr. by apply gc_safe. Qed.

(** exactness, for [collect_garbage()] *)
Theorem gc_exact s L r s' :
  Inv s → Counts s L →
  collect_garbage None s = (r, s') →
  r = Ok tt ∧ Inv s' ∧ Counts s' L ∧ ite_tab s' = ∅ ∧
  vars s' = vars s ∧ lvl2var s' = lvl2var s ∧ last_len s' = last_len s ∧
  (∀ n, n ∈ dom (succ s') ↔ n = 1%positive ∨ reach (succ s) (fun k => 0 < L k) n) ∧
  (∀ n t, succ s' !! n = Some t → succ s !! n = Some t).
Proof.
  intros HI HC Hrun.
  destruct (gc_run True None s L r s' HI HC I ltac:(done) Hrun) as (->&Hite&HI'&HJ).
  split_and!; try done; try apply HJ.
  - intros n. split.
    + intros Hn. destruct (decide (n = 1%positive)) as [|Hn1]; [by left|right].
      by apply (exit_reach s L s' HJ).
    + intros [->|Hn]; [|by apply (j_reach _ _ _ _ _ HJ)].
      apply elem_of_dom. rewrite (inv_term _ HI'). by eexists.
  - intros n t Hn. apply (lookup_weaken _ _ _ _ Hn (j_sub _ _ _ _ _ HJ)).
Qed.

(** ** Meaning of the surviving references *)
Lemma D_shrink s s' u a :
  succ s' ⊆ succ s → vars s' = vars s → lvl2var s' = lvl2var s →
  Inv s' → valid s' u → D s' u a = D s u a.
Proof.
  intros Hsub Hv Hl HI' Hu. symmetry. apply (D_extends s' s); [|done|done].
  by split_and!.
Qed.

Theorem gc_preserves_den roots s L r s' u :
  Inv s → Counts s L → roots_ok s roots →
  collect_garbage roots s = (r, s') →
  u ≠ 0%Z →
  absn u = 1%positive ∨ reach (succ s) (fun k => 0 < L k) (absn u) →
  valid s' u ∧ valid s u ∧ ∀ a, D s' u a = D s u a.
Proof.
  intros HI HC Hr Hrun Hu0 Hu.
  destruct (gc_safe roots s L r s' HI HC Hr Hrun)
    as (_&HI'&_&_&Hv&Hl&_&Hsub&Hkeep).
  assert (Hvu : valid s' u) by (split; [done|]; apply elem_of_dom, Hkeep, Hu).
  split; [done|]. split.
  - apply (valid_extends s' s); [by split_and!|done].
  - intros a. by apply D_shrink.
Qed.
