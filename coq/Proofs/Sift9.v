(** * Sift9: the premise of the decorator holds; conclusions in the shapes
      used by the other developments (autoref handles, JSON loader) *)
From DD Require Export Sift8.

(** ** the premise of [Proofs/Dynamic.v] *)
Lemma keepsH_keeps L s s' : dom (vars s') = dom (vars s) → keepsH L s s' →
  keeps (heldn L) s s'.
Proof.
  intros Hd Hk. split; [done|]. intros u Hu0 Hh _.
  destruct (Hk u (conj Hu0 Hh)) as (_&?&?). done.
Qed.

Theorem sifting_ok'_holds : sifting_ok'.
Proof.
  intros s L r s' HI HC Hll Hrun.
  pose proof (nft_reorder None s r s') as Hnft.
  cbn [reorder] in Hrun.
  destruct (apply_sifting_safe s L r s' ltac:(by split_and!) Hrun)
    as [?|(((HI'&HC'&Hll')&_&Hk&_)&Hd&Hr)]; [by left|].
  destruct (apply_sifting_spec s L r s' HI HC Hll Hrun) as [?|[->|(->&_)]]; [by left|right..].
  - split_and!; try done.
    + right. split; [done|]. destruct (max_nodes s) eqn:E; [by eexists|].
      by destruct (Hnft eq_refl Hrun) as [_ ?].
    + unfold rr in Hr. congruence.
    + by apply rr_max_nodes.
    + by apply keepsH_keeps.
  - split_and!; try done.
    + by left.
    + unfold rr in Hr. congruence.
    + by apply rr_max_nodes.
    + by apply keepsH_keeps.
Qed.

(** ** with an unbounded table there is no full-table error *)
Lemma nft_guarded {A} (m : MS A) : nft m → nft (guarded m).
Proof.
  intros Hm s r s' Ht Hrun.
  apply guarded_run in Hrun as [[_ Hrun]|(ll&s1&_&Hrun&->)].
  - by apply (Hm s).
  - set (s0 := s <| last_len := None |>) in *.
    assert (max_nodes s0 = None) as Ht0 by done.
    destruct (Hm s0 r s1 Ht0 Hrun) as [? ?]. done.
Qed.
Lemma nft_reorder_pub o : nft (reorder_pub o).
Proof. apply nft_guarded, nft_reorder. Qed.
Lemma nft_swap_pub x y : nft (swap_pub x y).
Proof. apply nft_guarded, nft_swap. Qed.
Lemma nft_reorder_to_pairs_pub p : nft (reorder_to_pairs_pub p).
Proof. apply nft_guarded, nft_reorder_to_pairs. Qed.

(** ** with an empty tape there is no oracle error *)
Lemma nt_guarded {A} (m : MS A) : nt m → nt (guarded m).
Proof.
  intros Hm s r s' Ht Hrun.
  apply guarded_run in Hrun as [[_ Hrun]|(ll&s1&_&Hrun&->)].
  - by apply (Hm s).
  - set (s0 := s <| last_len := None |>) in *.
    assert (tape s0 = []) as Ht0 by done.
    destruct (Hm s0 r s1 Ht0 Hrun) as [? ?]. done.
Qed.
Lemma nt_reorder_pub o : nt (reorder_pub o).
Proof. apply nt_guarded, nt_reorder. Qed.
Lemma nt_swap_pub x y : nt (swap_pub x y).
Proof. apply nt_guarded, nt_swap. Qed.
Lemma nt_reorder_to_pairs_pub p : nt (reorder_to_pairs_pub p).
Proof. apply nt_guarded, nt_reorder_to_pairs. Qed.

(** ** the shape of [keeps_refs] (Proofs/AutorefInv.v), for HELD nodes.
    [keeps_refs] itself quantifies over the nodes reachable from a held one
    and is false of [reorder] for the same reason as the refuted clause of
    C07: an inner node that nobody holds may be freed and its number reused. *)
Definition keeps_held (s : st) (L : positive → nat) (s' : st) : Prop :=
  Inv s' ∧ last_len s' = None ∧ Counts s' L ∧
  ∀ u, u ≠ 0%Z → 0 < L (absn u) →
    valid s' u ∧ ∀ ρ, denv s' u ρ = denv s u ρ.

Theorem reorder_pub_keeps_held o s L r s' :
  Inv s → last_len s = None → Counts s L → reorder_pub o s = (r, s') →
  r = Err EOracle ∨ keeps_held s L s'.
Proof.
  intros HI Hll HC Hrun.
  destruct (reorder_pub_safe o s L r s' HI HC Hrun) as [?|(?&?&E&_&Hk&_)]; [by left|right].
  split_and!; try done; [congruence|]. intros u Hu0 Hu.
  destruct (Hk u (conj Hu0 (or_intror Hu))) as (_&?&?). done.
Qed.

Corollary reorder_pub_keeps_held_notape o s L r s' :
  Inv s → last_len s = None → Counts s L → tape s = [] →
  reorder_pub o s = (r, s') → keeps_held s L s'.
Proof.
  intros HI Hll HC Ht Hrun.
  destruct (reorder_pub_keeps_held o s L r s' HI Hll HC Hrun) as [->|?]; [|done].
  by destruct (nt_reorder_pub o s _ s' Ht Hrun) as [_ ?].
Qed.

(** ** [reorder(order)] succeeds (shape of the premise of the JSON loader) *)
Theorem reorder_order_ok order s L :
  Inv s → Counts s L → last_len s = None → tape s = [] → max_nodes s = None →
  dom order = dom (vars s) →
  (∀ v v' l, order !! v = Some l → order !! v' = Some l → v = v') →
  (∀ v l, order !! v = Some l → l < nvars s) →
  (∀ u, u ∈ roots s → held L u) →
  ∃ s', reorder (Some order) s = (Ok tt, s') ∧
    Inv s' ∧ vars s' = order ∧ last_len s' = None ∧ Counts s' L ∧ keepsH L s s' ∧
    rr s' = rr s ∧ tape s' = [].
Proof.
  intros HI HC Hll Ht Hmx Hd Hinj Hb Hroots.
  destruct (reorder (Some order) s) as [r s'] eqn:Hrun. exists s'.
  destruct (nt_reorder (Some order) s r s' Ht Hrun) as [Ht' Hne].
  destruct (nft_reorder (Some order) s r s' Hmx Hrun) as [_ Hnf].
  cbn [reorder] in Hrun.
  destruct (sort_to_order_correct order s L r s' ltac:(by split_and!) Hd Hinj Hb Hroots Hrun)
    as [?|[?|(->&((?&?&?)&_&?&_)&?&?)]]; [done|done|]. by split_and!.
Qed.

(** sifting with an empty tape succeeds *)
Theorem sifting_ok_notape s L :
  Inv s → Counts s L → last_len s = None → tape s = [] → max_nodes s = None →
  ∃ s', reorder None s = (Ok tt, s') ∧ Inv s' ∧ Counts s' L ∧ last_len s' = None ∧
    nozero s' ∧ rr s' = rr s ∧ dom (vars s') = dom (vars s) ∧ keepsH L s s' ∧
    len s' ≤ len s ∧ tape s' = [].
Proof.
  intros HI HC Hll Ht Hmx.
  destruct (reorder None s) as [r s'] eqn:Hrun. exists s'.
  destruct (nt_reorder None s r s' Ht Hrun) as [Ht' Hne].
  destruct (nft_reorder None s r s' Hmx Hrun) as [_ Hnf]. cbn [reorder] in Hrun.
  destruct (apply_sifting_spec s L r s' HI HC Hll Hrun)
    as [?|[?|(->&(?&?&?)&?&?&?&?&?)]]; [done|done|]. by split_and!.
Qed.
