(** * Views: the structural views of a diagram are faithful (C18).
      [Function.low/high/var/negated] (Shannon expansion through handles),
      [descendants], [to_nx], [_to_dot]. *)
From DD Require Export GC Subst Driver2 Autoref.

(** ** 1. Shannon expansion on the stored components *)

Theorem shannon_handle s u t v :
  Inv s → valid s u → absn u ≠ 1%positive →
  succ s !! absn u = Some t → lvl2var s !! t_lvl t = Some v →
  ∀ ρ, denv s u ρ =
       xorb (bool_decide (u < 0)%Z)
            (if ρ v then denv s (t_hi t) ρ else denv s (t_lo t) ρ).
Proof.
  intros HI Hv Hn Ht Hl ρ. unfold denv.
  rewrite (D_step s HI u _ t Hv Ht Hn). by rewrite Hl.
Qed.

(** a non-terminal node always has a variable at its level *)
Lemma node_has_var s u t :
  Inv s → succ s !! absn u = Some t → absn u ≠ 1%positive →
  ∃ v, lvl2var s !! t_lvl t = Some v ∧ vars s !! v = Some (t_lvl t).
Proof.
  intros HI Ht Hn. destruct (inv_node _ HI _ _ Ht Hn) as (Hl&_).
  apply (inv_lvls _ HI) in Hl as [v Hv]. exists v. split; [done|].
  by apply (inv_vars _ HI).
Qed.

(** *** Through the autoref model *)
Definition abump (u : Z) (a : ast) : ast :=
  a <| mgr := bump u (mgr a) |>
    <| handles ::= <[next_hid a := u]> |> <| next_hid := S (next_hid a) |>.

Lemma lift_ok {A} (m : MS A) a r s' :
  m (mgr a) = (r, s') → lift m a = (r, a <| mgr := s' |>).
Proof. unfold lift. by intros ->. Qed.

Lemma node_of_ok a h u : handles a !! h = Some u → node_of h a = (Ok u, a).
Proof. intros H. unfold node_of. cbn [bind get]. by rewrite H. Qed.

Lemma wrap_ok a u : Inv (mgr a) → valid (mgr a) u →
  wrap u a = (Ok (next_hid a), abump u a).
Proof.
  intros HI Hv. unfold wrap. cbn [bind get].
  rewrite (proj2 (mem_valid _ _) Hv). cbn [ensure bind ret].
  rewrite (bind_ok _ _ _ _ _ (lift_ok _ _ _ _ (incref_ok _ _ HI Hv))).
  done.
Qed.

Lemma Inv_abump a u : Inv (mgr a) → Inv (mgr (abump u a)).
Proof. apply Inv_bump. Qed.
Lemma denv_bump s u x ρ : denv (bump u s) x ρ = denv s x ρ.
Proof. unfold denv. by apply D_same. Qed.

(** [u.low] / [u.high]: a new handle on the STORED edge (not flipped by the
    sign of [u]); [None] for the terminal *)
Theorem f_child_node (hi : bool) a hu u t :
  Inv (mgr a) → handles a !! hu = Some u → valid (mgr a) u →
  succ (mgr a) !! absn u = Some t → absn u ≠ 1%positive →
  let c := if hi then t_hi t else t_lo t in
  f_child hi hu a = (Ok (Some (next_hid a)), abump c a) ∧
  handles (abump c a) !! next_hid a = Some c ∧ valid (mgr a) c.
Proof.
  intros HI Hh Hv Ht Hn c. unfold f_child.
  rewrite (bind_ok _ _ _ _ _ (node_of_ok a hu u Hh)).
  rewrite (bind_ok _ _ _ _ _ (lift_ok _ _ _ _ (getsuccZ_ok _ u t (proj1 Hv) Ht))).
  destruct (inv_node _ HI _ _ Ht Hn) as (_&Hvl&_&Hvh&_).
  assert (Hlo : t_lo t ≠ 0%Z) by apply Hvl.
  unfold is_term. rewrite bool_decide_eq_false_2 by done.
  assert (Hc : valid (mgr a) c) by (subst c; by destruct hi).
  assert (E : a <| mgr := mgr a |> = a) by (by destruct a).
  rewrite E. fold c.
  rewrite (bind_ok _ _ _ _ _ (wrap_ok a c HI Hc)).
  split; [done|]. split; [|done]. cbn. by rewrite lookup_insert.
Qed.

Theorem f_child_term hi a hu u :
  Inv (mgr a) → handles a !! hu = Some u → valid (mgr a) u →
  absn u = 1%positive → f_child hi hu a = (Ok None, a).
Proof.
  intros HI Hh Hv E1. unfold f_child.
  rewrite (bind_ok _ _ _ _ _ (node_of_ok a hu u Hh)).
  assert (Ht : succ (mgr a) !! absn u = Some (tterm (nvars (mgr a))))
    by (rewrite E1; apply HI).
  rewrite (bind_ok _ _ _ _ _ (lift_ok _ _ _ _ (getsuccZ_ok _ u _ (proj1 Hv) Ht))).
  cbn. by destruct a.
Qed.

(** [u.var] *)
Theorem f_var_node a hu u t v :
  handles a !! hu = Some u → u ≠ 0%Z →
  succ (mgr a) !! absn u = Some t → t_lo t ≠ 0%Z →
  lvl2var (mgr a) !! t_lvl t = Some v →
  f_var hu a = (Ok (Some v), a).
Proof.
  intros Hh Hu Ht Hlo Hl. unfold f_var.
  rewrite (bind_ok _ _ _ _ _ (node_of_ok a hu u Hh)).
  rewrite (bind_ok _ _ _ _ _ (lift_ok _ _ _ _ (getsuccZ_ok _ u t Hu Ht))).
  unfold is_term. rewrite bool_decide_eq_false_2 by done.
  assert (E : a <| mgr := mgr a |> = a) by (by destruct a). rewrite E.
  erewrite (bind_ok (lift _)); [|apply lift_ok; unfold var_at_level; cbn [bind get];
    rewrite Hl; reflexivity].
  by rewrite E.
Qed.

Theorem f_var_term a hu u :
  Inv (mgr a) → handles a !! hu = Some u → valid (mgr a) u →
  absn u = 1%positive → f_var hu a = (Ok None, a).
Proof.
  intros HI Hh Hv E1. unfold f_var.
  rewrite (bind_ok _ _ _ _ _ (node_of_ok a hu u Hh)).
  assert (Ht : succ (mgr a) !! absn u = Some (tterm (nvars (mgr a))))
    by (rewrite E1; apply HI).
  rewrite (bind_ok _ _ _ _ _ (lift_ok _ _ _ _ (getsuccZ_ok _ u _ (proj1 Hv) Ht))).
  cbn. by destruct a.
Qed.

(** [u.negated] *)
Theorem f_negated_ok a hu u : handles a !! hu = Some u →
  f_negated hu a = (Ok (bool_decide (u < 0)%Z), a).
Proof.
  intros Hh. unfold f_negated. by rewrite (bind_ok _ _ _ _ _ (node_of_ok a hu u Hh)).
Qed.

(** handle identifiers are allocated increasingly: live ones are below
    [next_hid] (true of every state reached from the empty store) *)
Definition awf (a : ast) : Prop := ∀ h u, handles a !! h = Some u → h < next_hid a.

Lemma awf_abump a c : awf a → awf (abump c a).
Proof.
  intros Hw h u. cbn. destruct (decide (h = next_hid a)) as [-> | Hn].
  - intros _. lia.
  - rewrite lookup_insert_ne by done. intros H. apply Hw in H. lia.
Qed.
Lemma handles_abump a c h u : awf a → handles a !! h = Some u →
  handles (abump c a) !! h = Some u.
Proof.
  intros Hw H. cbn. rewrite lookup_insert_ne; [done|]. apply Hw in H. lia.
Qed.

(** The expansion read through the interface: [var], [high], [low],
    [negated] of a handle of a non-terminal node reproduce the handle. *)
Theorem shannon_autoref a hu u :
  Inv (mgr a) → awf a → handles a !! hu = Some u → valid (mgr a) u →
  absn u ≠ 1%positive →
  ∃ t v hh a1 hl a2,
    succ (mgr a) !! absn u = Some t ∧ lvl2var (mgr a) !! t_lvl t = Some v ∧
    f_var hu a = (Ok (Some v), a) ∧
    f_child true hu a = (Ok (Some hh), a1) ∧
    f_child false hu a1 = (Ok (Some hl), a2) ∧
    f_negated hu a2 = (Ok (bool_decide (u < 0)%Z), a2) ∧
    handles a2 !! hu = Some u ∧ handles a2 !! hh = Some (t_hi t) ∧
    handles a2 !! hl = Some (t_lo t) ∧ Inv (mgr a2) ∧ awf a2 ∧
    succ (mgr a2) = succ (mgr a) ∧
    (∀ x ρ, denv (mgr a2) x ρ = denv (mgr a) x ρ) ∧
    ∀ ρ, denv (mgr a2) u ρ =
         xorb (bool_decide (u < 0)%Z)
              (if ρ v then denv (mgr a2) (t_hi t) ρ else denv (mgr a2) (t_lo t) ρ).
Proof.
  intros HI Hw Hh Hv Hn. destruct Hv as [Hu0 [t Ht]].
  assert (Hv : valid (mgr a) u) by (split; [done|by eexists]).
  destruct (node_has_var _ u t HI Ht Hn) as (v&Hl&_).
  destruct (inv_node _ HI _ _ Ht Hn) as (_&Hvl&_&Hvh&_).
  destruct (f_child_node true a hu u t HI Hh Hv Ht Hn) as (E1&Hh1&_).
  cbv zeta in E1, Hh1. set (a1 := abump (t_hi t) a) in *.
  assert (HI1 : Inv (mgr a1)) by (by apply Inv_abump).
  assert (Hw1 : awf a1) by (by apply awf_abump).
  assert (Hhu1 : handles a1 !! hu = Some u) by (by apply handles_abump).
  destruct (f_child_node false a1 hu u t HI1 Hhu1 Hv Ht Hn) as (E2&Hh2&_).
  cbv zeta in E2, Hh2. set (a2 := abump (t_lo t) a1) in *.
  assert (HD : ∀ x ρ, denv (mgr a2) x ρ = denv (mgr a) x ρ).
  { intros x ρ. subst a2 a1. cbn. by rewrite !denv_bump. }
  exists t, v, (next_hid a), a1, (next_hid a1), a2.
  split_and!; try done.
  - apply (f_var_node a hu u t v); try done. apply Hvl.
  - by apply f_negated_ok, handles_abump.
  - by apply handles_abump.
  - by apply handles_abump.
  - by apply Inv_abump.
  - by apply awf_abump.
  - intros ρ. rewrite !HD. by apply shannon_handle.
Qed.

(** ** 2. [descendants] computes exactly the reachable nodes *)

Lemma reach_mono m (R R' : positive → Prop) n :
  (∀ k, R k → R' k) → reach m R n → reach m R' n.
Proof.
  intros HR. induction 1 as [n Hn Hd|p t _ IH Hp Hl|p t _ IH Hp Hh].
  - apply reach_root; auto.
  - by eapply reach_lo.
  - by eapply reach_hi.
Qed.
Lemma reach_trans m (R : positive → Prop) p n :
  reach m R p → reach m (eq p) n → reach m R n.
Proof.
  intros Hp. induction 1 as [n Hn Hd|q t _ IH Hq Hl|q t _ IH Hq Hh].
  - by subst.
  - by eapply reach_lo.
  - by eapply reach_hi.
Qed.
Lemma reach_inh m (R : positive → Prop) n : reach m R n → ∃ k, R k.
Proof. induction 1; eauto. Qed.

(** roots given as references *)
Definition rootsR (roots : list Z) : positive → Prop :=
  fun k => ∃ u, u ∈ roots ∧ absn u = k.

Section desc.
Context (s : st) (HI : Inv s).

(** a visited set is closed: the children of a visited node are visited
    (nodes are marked after their children) or the terminal *)
Definition closed (V : gset positive) : Prop :=
  ∀ n t, n ∈ V → n ≠ 1%positive → succ s !! n = Some t →
    (absn (t_lo t) = 1%positive ∨ absn (t_lo t) ∈ V) ∧
    (absn (t_hi t) = 1%positive ∨ absn (t_hi t) ∈ V).

Lemma or_in_mono (V V' : gset positive) (k : positive) :
  V ⊆ V' → k = 1%positive ∨ k ∈ V → k = 1%positive ∨ k ∈ V'.
Proof. intros HS [?|?]; [by left|right; by apply HS]. Qed.

Lemma closed_add1 V : closed V → closed (V ∪ {[1%positive]}).
Proof.
  intros Hc n t Hn Hn1 Ht. apply elem_of_union in Hn as [Hn|Hn]; [|set_solver].
  destruct (Hc n t Hn Hn1 Ht) as [[?|?] [?|?]]; split; set_solver.
Qed.

Lemma reach_closed V (R : positive → Prop) n :
  closed V → (∀ k, R k → k = 1%positive ∨ k ∈ V) →
  reach (succ s) R n → n = 1%positive ∨ n ∈ V.
Proof.
  intros Hc HR. induction 1 as [n Hn Hd|p t _ IH Hp Hl|p t _ IH Hp Hh]; [by auto|..].
  - destruct IH as [->|Hin].
    + rewrite (inv_term _ HI) in Hp. by simplify_eq.
    + destruct (decide (p = 1%positive)) as [->|Hp1].
      { rewrite (inv_term _ HI) in Hp. by simplify_eq. }
      by destruct (Hc p t Hin Hp1 Hp) as [? _].
  - destruct IH as [->|Hin].
    + rewrite (inv_term _ HI) in Hp. by simplify_eq.
    + destruct (decide (p = 1%positive)) as [->|Hp1].
      { rewrite (inv_term _ HI) in Hp. by simplify_eq. }
      by destruct (Hc p t Hin Hp1 Hp) as [_ ?].
Qed.

Lemma valid_dom u : valid s u → absn u ∈ dom (succ s).
Proof. intros [_ ?]. by apply elem_of_dom. Qed.

(** every node leads to the terminal *)
Lemma reach_term u : valid s u → reach (succ s) (eq (absn u)) 1%positive.
Proof.
  remember (nvars s - lvl_of s u) as k eqn:Hk. revert u Hk.
  induction (lt_wf k) as [k _ IH]. intros u Hk Hv.
  destruct (node_cases s HI u Hv) as [[E _]|(t&Ht&Hn&Hlo&Hl&?&Hvl&Hvh&?&Hll&Hlh&?)].
  - apply reach_root; [done|]. rewrite <- E. by apply valid_dom.
  - apply (reach_trans _ _ (absn (t_hi t))).
    + eapply reach_hi; [|done|lia]. apply reach_root; [done|by apply valid_dom].
    + eapply (IH (nvars s - lvl_of s (t_hi t))); try done. lia.
Qed.

Lemma descendants_rec_spec fuel : ∀ u V,
  valid s u → closed V → nvars s - lvl_of s u < fuel →
  ∃ V', descendants_rec fuel u V s = (Ok V', s) ∧ V ⊆ V' ∧ closed V' ∧
    (absn u = 1%positive ∨ absn u ∈ V') ∧
    ∀ n, n ∈ V' → n ∈ V ∨ (n ≠ 1%positive ∧ reach (succ s) (eq (absn u)) n).
Proof.
  induction fuel as [|f IH]; intros u V Hv Hc Hf; [lia|].
  cbn [descendants_rec]. rewrite decide_False by apply Hv.
  destruct (decide (absn u = 1%positive ∨ absn u ∈ V)) as [Hin|Hnin].
  { exists V. split_and!; try done. by left. }
  destruct (node_cases s HI u Hv) as [[E _]|(t&Ht&Hn&Hlo&Hl&?&Hvl&Hvh&Hhp&Hll&Hlh&?)];
    [tauto|].
  rewrite (bind_ok _ _ _ _ _ (getsucc_ok s _ t Ht)).
  unfold is_term, assert. rewrite bool_decide_eq_false_2 by done. cbn [negb].
  rewrite (bind_ok _ _ s tt s) by done.
  destruct (IH (t_lo t) V Hvl Hc ltac:(lia)) as (V1&E1&S1&C1&I1&R1).
  rewrite (bind_ok _ _ _ _ _ E1).
  destruct (IH (t_hi t) V1 Hvh C1 ltac:(lia)) as (V2&E2&S2&C2&I2&R2).
  rewrite (bind_ok _ _ _ _ _ E2).
  assert (Hru : reach (succ s) (eq (absn u)) (absn u))
    by (apply reach_root; [done|by apply valid_dom]).
  assert (S3 : V2 ⊆ V2 ∪ {[absn u]}) by apply union_subseteq_l.
  exists (V2 ∪ {[absn u]}). split_and!; [done|by do 2 (etrans; [eassumption|])| |
    right; apply elem_of_union; right; by apply elem_of_singleton|].
  - intros n t' Hn' Hn1 Ht'. apply elem_of_union in Hn' as [Hn'|Hn'].
    + destruct (C2 n t' Hn' Hn1 Ht') as [Ha Hb].
      split; by apply (or_in_mono V2).
    + apply elem_of_singleton in Hn'. subst n. simplify_eq.
      split; [apply (or_in_mono V1); [by etrans|done]|by apply (or_in_mono V2)].
  - intros n Hn'. apply elem_of_union in Hn' as [Hn'|Hn'].
    + destruct (R2 n Hn') as [Hn1|[Hn1 Hr]].
      * destruct (R1 n Hn1) as [?|[Hn1' Hr]]; [by left|right]. split; [done|].
        apply (reach_trans _ _ (absn (t_lo t))); [|done]. by eapply reach_lo.
      * right. split; [done|].
        apply (reach_trans _ _ (absn (t_hi t))); [|done]. eapply reach_hi; [done..|lia].
    + apply elem_of_singleton in Hn'. subst n. right. split; [tauto|done].
Qed.

Lemma rootsR_cons u l k : rootsR (u :: l) k ↔ absn u = k ∨ rootsR l k.
Proof.
  unfold rootsR. split.
  - intros (x&Hx&<-). apply elem_of_cons in Hx as [->|Hx]; [by left|right; eauto].
  - intros [<-|(x&Hx&<-)]; [exists u|exists x]; split; try done; set_solver.
Qed.

Lemma reach_root_in m u l n : reach m (eq (absn u)) n → reach m (rootsR (u :: l)) n.
Proof. apply reach_mono. intros k <-. exists u. split; [apply elem_of_list_here|done]. Qed.
Lemma reach_roots_tail m u l n : reach m (rootsR l) n → reach m (rootsR (u :: l)) n.
Proof.
  apply reach_mono. intros k (x&Hx&<-). exists x. split; [by apply elem_of_list_further|done].
Qed.

Lemma descendants_fold fuel (l : list Z) : ∀ V,
  nvars s < fuel → Forall (valid s) l → closed V →
  ∃ V', foldM (fun (visited : gset positive) u =>
            descendants_rec fuel u (visited ∪ {[1%positive]})) V l s = (Ok V', s) ∧
    V ⊆ V' ∧ closed V' ∧ (l ≠ [] → 1%positive ∈ V') ∧
    (∀ u, u ∈ l → absn u = 1%positive ∨ absn u ∈ V') ∧
    ∀ n, n ∈ V' → n ∈ V ∨ reach (succ s) (rootsR l) n.
Proof.
  induction l as [|u l IH]; intros V Hf Hl Hc.
  { exists V. cbn. split_and!; try done; [set_solver|by left]. }
  apply Forall_cons in Hl as [Hu Hl]. cbn [foldM].
  destruct (descendants_rec_spec fuel u (V ∪ {[1%positive]}) Hu (closed_add1 V Hc) ltac:(lia))
    as (V1&E1&S1&C1&I1&R1).
  rewrite (bind_ok _ _ _ _ _ E1).
  destruct (IH V1 Hf Hl C1) as (V2&E2&S2&C2&N2&I2&R2). rewrite E2.
  assert (S0 : V ⊆ V ∪ {[1%positive]}) by apply union_subseteq_l.
  exists V2. split_and!; [done|by do 2 (etrans; [eassumption|])|done| | |].
  - intros _. apply S2, S1, elem_of_union. right. by apply elem_of_singleton.
  - intros x Hx. apply elem_of_cons in Hx as [->|Hx]; [|by apply I2].
    by apply (or_in_mono V1).
  - intros n Hn. destruct (R2 n Hn) as [Hn1|Hr].
    + destruct (R1 n Hn1) as [Hn0|[_ Hr]].
      * apply elem_of_union in Hn0 as [?|Hn0]; [by left|right].
        apply elem_of_singleton in Hn0. subst n.
        eapply reach_mono; [|by apply (reach_term u)].
        intros k <-. apply rootsR_cons. by left.
      * right. eapply reach_mono; [|done]. intros k <-. apply rootsR_cons. by left.
    + right. eapply reach_mono; [|done]. intros k ?. apply rootsR_cons. by right.
Qed.

Theorem descendants_exact (roots : list Z) :
  Forall (valid s) roots →
  ∃ X, descendants roots s = (Ok X, s) ∧
    ∀ n, n ∈ X ↔ reach (succ s) (rootsR roots) n.
Proof.
  intros Hr. unfold descendants. cbn [bind get].
  assert (Hc0 : closed ∅) by (intros n t Hn; set_solver).
  destruct (descendants_fold (S (S (nvars s))) roots ∅ ltac:(lia) Hr Hc0)
    as (X&E&_&C&N&I&R).
  rewrite (bind_ok _ _ _ _ _ E). unfold assert.
  rewrite bool_decide_eq_true_2.
  2:{ apply Forall_forall. intros u Hu. destruct (I u Hu) as [-> | ?]; [|done].
      apply N. intros ->. set_solver. }
  cbn [bind ret]. exists X. split; [done|]. intros n. split.
  - intros Hn. destruct (R n Hn) as [?|?]; [set_solver|done].
  - intros Hn. pose proof (reach_inh _ _ _ Hn) as (k&u&Hu&_).
    assert (N1 : 1%positive ∈ X) by (apply N; intros ->; set_solver).
    destruct (reach_closed X (rootsR roots) n C) as [-> | ?]; try done.
    intros k' (u'&Hu'&<-). by apply I.
Qed.

(** [reach] from roots contains the terminal as soon as there is a root *)
Lemma reach_roots_term (roots : list Z) :
  Forall (valid s) roots → roots ≠ [] → reach (succ s) (rootsR roots) 1%positive.
Proof.
  intros Hr Hne. destruct roots as [|u l]; [done|].
  apply Forall_cons in Hr as [Hu _].
  eapply reach_mono; [|by apply (reach_term u)]. intros k <-. apply rootsR_cons. by left.
Qed.

End desc.

(** the statement with the state threaded explicitly *)
Theorem descendants_exact' s roots r s' :
  Inv s → (∀ u, u ∈ roots → valid s u) → descendants roots s = (r, s') →
  s' = s ∧ ∃ X, r = Ok X ∧ ∀ n, n ∈ X ↔ reach (succ s) (rootsR roots) n.
Proof.
  intros HI Hr Hd. apply Forall_forall in Hr.
  destruct (descendants_exact s HI roots Hr) as (X&E&HX).
  rewrite E in Hd. injection Hd as <- <-. eauto.
Qed.

(** [len(u)] of a handle: the number of reachable nodes (terminal included) *)
Theorem f_len_exact a hu u :
  Inv (mgr a) → handles a !! hu = Some u → valid (mgr a) u →
  ∃ X : gset positive, f_len hu a = (Ok (size X), a) ∧
    ∀ n, n ∈ X ↔ reach (succ (mgr a)) (eq (absn u)) n.
Proof.
  intros HI Hh Hv. unfold f_len.
  rewrite (bind_ok _ _ _ _ _ (node_of_ok a hu u Hh)).
  destruct (descendants_exact _ HI [u]) as (X&E&HX); [by apply Forall_singleton|].
  rewrite (bind_ok _ _ _ _ _ (lift_ok _ _ _ _ E)).
  exists X. split; [by destruct a|]. intros n. rewrite HX. split; apply reach_mono.
  - intros k (x&Hx&<-). apply elem_of_list_singleton in Hx. by subst.
  - intros k <-. exists u. split; [set_solver|done].
Qed.

(** ** 3. The exported graphs *)

(** *** An evaluator of exported graphs.  It only reads the graph: the level
    (or the label) of a node tells which variable is tested, the [value]
    mark of an edge which branch it is, the [complement] mark whether the
    target is negated; a node without outgoing edges is the terminal (true). *)
Definition ekey (e : positive * positive * bool * bool)
  : (positive * bool) * (positive * bool) :=
  let '(u, v, b, c) := e in ((u, b), (v, c)).
Definition g_level (g : xgraph) (n : positive) : option nat :=
  (list_to_map (x_nodes g) : gmap positive nat) !! n.
Definition g_edge (g : xgraph) (n : positive) (b : bool) : option (positive * bool) :=
  (list_to_map (ekey <$> x_edges g) : gmap (positive * bool) (positive * bool)) !! (n, b).
Definition g_label (g : xgraph) (n : positive) : option (option nat) :=
  (list_to_map (x_labels g) : gmap positive (option nat)) !! n.

Fixpoint gwalk (fuel : nat) (key : positive → option bool)
    (edge : positive → bool → option (positive * bool)) (n : positive) : bool :=
  match fuel with
  | O => false
  | S f =>
      match key n with
      | None => false
      | Some b =>
          match edge n b with
          | None => true
          | Some (m, c) => xorb c (gwalk f key edge m)
          end
      end
  end.

(** enough fuel: one more than the largest level written in the graph *)
Definition gfuel (g : xgraph) : nat := S (max_list (x_nodes g).*2).
(** evaluation under an assignment to levels (both exports) *)
Definition geval (g : xgraph) (n : positive) (a : nat → bool) : bool :=
  gwalk (gfuel g) (fun n => a <$> g_level g n) (g_edge g) n.
(** evaluation under an assignment to variable names, reading the labels
    (DOT only) *)
Definition gevaln (g : xgraph) (n : positive) (ρ : nat → bool) : bool :=
  gwalk (gfuel g)
    (fun n => (fun o : option nat => match o with Some v => ρ v | None => false end)
                <$> g_label g n) (g_edge g) n.

Definition lo_edge (n : positive) (t : triple) : positive * positive * bool * bool :=
  (n, absn (t_lo t), false, bool_decide (t_lo t < 0)%Z).
Definition hi_edge (n : positive) (t : triple) : positive * positive * bool * bool :=
  (n, absn (t_hi t), true, false).

(** what "the graph is the diagram restricted to [X]" means *)
Record graph_of (s : st) (X : gset positive) (g : xgraph) : Prop := {
  go_nodes : ∀ n l, (n, l) ∈ x_nodes g ↔ n ∈ X ∧ (t_lvl <$> succ s !! n) = Some l;
  go_edges : ∀ e, e ∈ x_edges g ↔
     ∃ n t, n ∈ X ∧ succ s !! n = Some t ∧ n ≠ 1%positive ∧
            (e = lo_edge n t ∨ e = hi_edge n t);
}.

Lemma D_abs s u a : Inv s → valid s u →
  D s u a = xorb (bool_decide (u < 0)%Z) (D s (Z.pos (absn u)) a).
Proof.
  intros HI Hv. destruct u as [|p|p]; [by destruct Hv| |].
  - rewrite absn_pos, bool_decide_eq_false_2 by lia. by destruct (D s _ a).
  - rewrite absn_negp, bool_decide_eq_true_2 by lia.
    change (Z.neg p) with (- Z.pos p)%Z. rewrite D_neg; [done|done|].
    split; [done|]. destruct Hv as [_ H]. by rewrite absn_negp in H.
Qed.

Section graph.
Context (s : st) (HI : Inv s) (X : gset positive).
Context (HXdom : ∀ n, n ∈ X → n ∈ dom (succ s)).
Context (HXcl : ∀ n t, n ∈ X → n ≠ 1%positive → succ s !! n = Some t →
                  absn (t_lo t) ∈ X ∧ absn (t_hi t) ∈ X).

Lemma is_term_iff n t : succ s !! n = Some t → is_term t = true ↔ n = 1%positive.
Proof.
  intros Ht. unfold is_term. rewrite bool_decide_eq_true. split.
  - intros E. destruct (decide (n = 1%positive)) as [|Hn]; [done|].
    destruct (inv_node _ HI _ _ Ht Hn) as (_&[? _]&_). done.
  - intros ->. rewrite (inv_term _ HI) in Ht. by simplify_eq.
Qed.

Lemma elem_levels_of n l :
  (n, l) ∈ levels_of s (elements X) ↔ n ∈ X ∧ (t_lvl <$> succ s !! n) = Some l.
Proof.
  unfold levels_of. rewrite elem_of_list_omap. split.
  - intros (x&Hx&E). apply elem_of_elements in Hx.
    destruct (succ s !! x) as [t|] eqn:Ht; [|done]. cbn in E. simplify_eq.
    rewrite Ht. done.
  - intros (Hn&E). exists n. split; [by apply elem_of_elements|].
    destruct (succ s !! n) as [t|]; [|done]. cbn in *. by simplify_eq.
Qed.

Lemma elem_edges_of e :
  e ∈ edges_of s (elements X) ↔
  ∃ n t, n ∈ X ∧ succ s !! n = Some t ∧ n ≠ 1%positive ∧
         (e = lo_edge n t ∨ e = hi_edge n t).
Proof.
  unfold edges_of. rewrite elem_of_list_bind. split.
  - intros (n&He&Hn). apply elem_of_elements in Hn.
    destruct (succ s !! n) as [t|] eqn:Ht; [|by apply elem_of_nil in He].
    destruct (is_term t) eqn:Et; [by apply elem_of_nil in He|].
    exists n, t. split_and!; try done.
    + intros ->. assert (is_term t = true) by (by apply (is_term_iff _ _ Ht)).
      congruence.
    + apply elem_of_cons in He as [->|He]; [by left|].
      apply elem_of_list_singleton in He. by right.
  - intros (n&t&Hn&Ht&Hn1&He). exists n. split; [|by apply elem_of_elements].
    rewrite Ht. destruct (is_term t) eqn:Et.
    { by apply (is_term_iff _ _ Ht) in Et. }
    destruct He as [-> | ->]; [apply elem_of_list_here|apply elem_of_list_further, elem_of_list_here].
Qed.

Lemma graph_of_intro g :
  x_nodes g = levels_of s (elements X) → x_edges g = edges_of s (elements X) →
  graph_of s X g.
Proof.
  intros E1 E2. split; intros; rewrite ?E1, ?E2; [apply elem_levels_of|apply elem_edges_of].
Qed.

Context (g : xgraph) (Hg : graph_of s X g).

Lemma g_level_ok n t : n ∈ X → succ s !! n = Some t → g_level g n = Some (t_lvl t).
Proof.
  intros Hn Ht. unfold g_level. apply elem_of_list_to_map_1'.
  - intros y Hy. apply (go_nodes _ _ _ Hg) in Hy as [_ Hy]. rewrite Ht in Hy.
    cbn in Hy. congruence.
  - apply (go_nodes _ _ _ Hg). by rewrite Ht.
Qed.

Lemma g_edge_term b : g_edge g 1 b = None.
Proof.
  unfold g_edge. apply not_elem_of_list_to_map_1. intros Hin.
  apply elem_of_list_fmap in Hin as ([k y]&Ek&Hin). cbn in Ek. subst k.
  apply elem_of_list_fmap in Hin as (e&Ee&Hin).
  apply (go_edges _ _ _ Hg) in Hin as (n&t&_&_&Hn1&[-> | ->]); cbn in Ee; congruence.
Qed.

Lemma g_edge_ok n t : n ∈ X → succ s !! n = Some t → n ≠ 1%positive →
  g_edge g n true = Some (absn (t_hi t), false) ∧
  g_edge g n false = Some (absn (t_lo t), bool_decide (t_lo t < 0)%Z).
Proof.
  intros Hn Ht Hn1. unfold g_edge. split; apply elem_of_list_to_map_1'.
  - intros y Hy. apply elem_of_list_fmap in Hy as (e&Ee&Hin).
    apply (go_edges _ _ _ Hg) in Hin as (n'&t'&_&Ht'&_&[-> | ->]); cbn in Ee;
      simplify_eq; done.
  - apply elem_of_list_fmap. exists (hi_edge n t). split; [done|].
    apply (go_edges _ _ _ Hg). exists n, t. by eauto 6.
  - intros y Hy. apply elem_of_list_fmap in Hy as (e&Ee&Hin).
    apply (go_edges _ _ _ Hg) in Hin as (n'&t'&_&Ht'&_&[-> | ->]); cbn in Ee;
      simplify_eq; done.
  - apply elem_of_list_fmap. exists (lo_edge n t). split; [done|].
    apply (go_edges _ _ _ Hg). exists n, t. by eauto 6.
Qed.

Lemma gwalk_D key a :
  (∀ n t, n ∈ X → succ s !! n = Some t → n ≠ 1%positive → key n = Some (a (t_lvl t))) →
  is_Some (key 1%positive) →
  ∀ fuel n, n ∈ X → nvars s - lvl_of s (Z.pos n) < fuel →
    gwalk fuel key (g_edge g) n = D s (Z.pos n) a.
Proof.
  intros Hkey [b1 Hk1]. induction fuel as [|f IH]; intros n Hn Hf; [lia|].
  assert (Hv : valid s (Z.pos n)).
  { split; [done|]. rewrite absn_pos. apply elem_of_dom. by apply HXdom. }
  cbn [gwalk].
  destruct (node_cases s HI _ Hv) as [[E _]|(t&Ht&Hn1&Hlo&Hl&?&Hvl&Hvh&Hhp&Hll&Hlh&?)];
    rewrite absn_pos in *.
  - subst n. rewrite Hk1, g_edge_term. by rewrite D_1.
  - rewrite (Hkey n t Hn Ht Hn1).
    destruct (g_edge_ok n t Hn Ht Hn1) as [Eh El].
    destruct (HXcl n t Hn Hn1 Ht) as [Xl Xh].
    rewrite (D_step s HI _ a t Hv Ht Hn1).
    rewrite bool_decide_eq_false_2 by lia. rewrite xorb_false_l.
    destruct (a (t_lvl t)).
    + rewrite Eh. rewrite IH; [|done|].
      * rewrite xorb_false_l. rewrite (D_abs s (t_hi t) a HI Hvh).
        rewrite bool_decide_eq_false_2 by lia. by rewrite xorb_false_l.
      * change (lvl_of s (Z.pos (absn (t_hi t)))) with (lvl_of s (t_hi t)). lia.
    + rewrite El. rewrite IH; [|done|].
      * by rewrite (D_abs s (t_lo t) a HI Hvl).
      * change (lvl_of s (Z.pos (absn (t_lo t)))) with (lvl_of s (t_lo t)). lia.
Qed.

Context (H1X : 1%positive ∈ X).

Lemma gfuel_ok n : nvars s - lvl_of s (Z.pos n) < gfuel g.
Proof.
  unfold gfuel. assert (nvars s ≤ max_list (x_nodes g).*2); [|lia].
  apply max_list_elem_of_le. apply elem_of_list_fmap.
  exists (1%positive, nvars s). split; [done|].
  apply (go_nodes _ _ _ Hg). split; [done|]. by rewrite (inv_term _ HI).
Qed.

(** evaluating the exported graph from a node gives the function of that
    node (as a positive reference) *)
Theorem geval_D n a : n ∈ X → geval g n a = D s (Z.pos n) a.
Proof.
  intros Hn. unfold geval. apply gwalk_D; [| |done|apply gfuel_ok].
  - intros m t Hm Ht _. by rewrite (g_level_ok m t Hm Ht).
  - rewrite (g_level_ok 1 _ H1X (inv_term _ HI)). by eexists.
Qed.

(** … and a reference, through its sign *)
Corollary geval_ref u a : valid s u → absn u ∈ X →
  D s u a = xorb (bool_decide (u < 0)%Z) (geval g (absn u) a).
Proof. intros Hv Hn. rewrite geval_D by done. by apply D_abs. Qed.

End graph.

(** [faithful s P g]: [g] has exactly the nodes satisfying [P] with their
    levels; every non-terminal one has exactly its "else" edge (value false,
    complement mark = sign of the stored low edge) and its "then" edge
    (value true, never complemented); evaluating [g] from any of its nodes
    gives the function of that node. *)
Definition faithful (s : st) (P : positive → Prop) (g : xgraph) : Prop :=
  (∀ n l, (n, l) ∈ x_nodes g ↔ P n ∧ (t_lvl <$> succ s !! n) = Some l) ∧
  (∀ e, e ∈ x_edges g ↔
     ∃ n t, P n ∧ succ s !! n = Some t ∧ n ≠ 1%positive ∧
            (e = lo_edge n t ∨ e = hi_edge n t)) ∧
  (∀ n a, P n → geval g n a = D s (Z.pos n) a).

Lemma faithful_intro s (X : gset positive) (P : positive → Prop) g :
  Inv s → (∀ n, n ∈ X ↔ P n) →
  (∀ n, n ∈ X → n ∈ dom (succ s)) →
  (∀ n t, n ∈ X → n ≠ 1%positive → succ s !! n = Some t →
     absn (t_lo t) ∈ X ∧ absn (t_hi t) ∈ X) →
  (∀ n, n ∈ X → 1%positive ∈ X) →
  x_nodes g = levels_of s (elements X) → x_edges g = edges_of s (elements X) →
  faithful s P g.
Proof.
  intros HI HP Hd Hc H1 E1 E2.
  pose proof (graph_of_intro s HI X g E1 E2) as Hg.
  split; [|split].
  - intros n l. rewrite <- HP. apply (go_nodes _ _ _ Hg).
  - intros e. rewrite (go_edges _ _ _ Hg). by setoid_rewrite HP.
  - intros n a Hn. apply HP in Hn. apply (geval_D s HI X Hd Hc g Hg); [|done]. eauto.
Qed.

Section export.
Context (s : st) (HI : Inv s).

Lemma closed_add V u : closed s V → (absn u = 1%positive ∨ absn u ∈ V) →
  closed s (V ∪ {[absn u]}).
Proof.
  intros Hc Hu n t Hn Hn1 Ht.
  assert (Hn' : n ∈ V).
  { apply elem_of_union in Hn as [?|Hn]; [done|]. apply elem_of_singleton in Hn.
    subst n. by destruct Hu. }
  destruct (Hc n t Hn' Hn1 Ht) as [Ha Hb].
  split; apply (or_in_mono V); try done; apply union_subseteq_l.
Qed.

Lemma reach_from_fold fuel (l : list Z) : ∀ V,
  nvars s < fuel → Forall (valid s) l → closed s V →
  ∃ V', foldM (fun (visited : gset positive) u =>
            ensure EValue (mem u s) ;;;
            v <- descendants_rec fuel u visited ;;
            ret (v ∪ {[absn u]})) V l s = (Ok V', s) ∧
    V ⊆ V' ∧ closed s V' ∧ (∀ u, u ∈ l → absn u ∈ V') ∧
    ∀ n, n ∈ V' → n ∈ V ∨ reach (succ s) (rootsR l) n.
Proof.
  induction l as [|u l IH]; intros V Hf Hl Hc.
  { exists V. cbn. split_and!; try done; [set_solver|by left]. }
  apply Forall_cons in Hl as [Hu Hl]. cbn [foldM].
  destruct (descendants_rec_spec s HI fuel u V Hu Hc ltac:(lia)) as (V1&E1&S1&C1&I1&R1).
  assert (Estep : (ensure EValue (mem u s) ;;;
                   v <- descendants_rec fuel u V ;; ret (v ∪ {[absn u]})) s
                  = (Ok (V1 ∪ {[absn u]}), s)).
  { rewrite (proj2 (mem_valid s u) Hu). cbn [ensure].
    rewrite (bind_ok _ _ s tt s) by done. by rewrite (bind_ok _ _ _ _ _ E1). }
  rewrite (bind_ok _ _ _ _ _ Estep).
  destruct (IH (V1 ∪ {[absn u]}) Hf Hl (closed_add V1 u C1 I1)) as (V2&E2&S2&C2&I2&R2).
  rewrite E2.
  assert (S3 : V1 ⊆ V1 ∪ {[absn u]}) by apply union_subseteq_l.
  assert (Hru : reach (succ s) (rootsR (u :: l)) (absn u)).
  { apply reach_root; [|by apply valid_dom]. exists u. split; [apply elem_of_list_here|done]. }
  exists V2. split_and!; [done|by do 2 (etrans; [eassumption|])|done| |].
  - intros x Hx. apply elem_of_cons in Hx as [->|Hx]; [|by apply I2].
    apply S2, elem_of_union. right. by apply elem_of_singleton.
  - intros n Hn. destruct (R2 n Hn) as [Hn1|Hr].
    + apply elem_of_union in Hn1 as [Hn1|Hn1].
      * destruct (R1 n Hn1) as [?|[_ Hr]]; [by left|right]. by apply reach_root_in.
      * apply elem_of_singleton in Hn1. subst n. by right.
    + right. by apply reach_roots_tail.
Qed.

(** the node set of [to_nx] *)
Lemma reach_from_exact (roots : list Z) :
  Forall (valid s) roots →
  ∃ X, reach_from roots s = (Ok X, s) ∧
    ∀ n, n ∈ X ∪ {[1%positive]} ↔ n = 1%positive ∨ reach (succ s) (rootsR roots) n.
Proof.
  intros Hr. unfold reach_from. cbn [bind get].
  assert (Hc0 : closed s ∅) by (intros n t Hn; set_solver).
  destruct (reach_from_fold (S (S (nvars s))) roots ∅ ltac:(lia) Hr Hc0)
    as (X&E&_&C&I&R).
  exists X. split; [done|]. intros n. rewrite elem_of_union, elem_of_singleton. split.
  - intros [Hn | ->]; [|by left]. destruct (R n Hn) as [?|?]; [set_solver|by right].
  - intros [-> | Hn]; [by right|].
    destruct (reach_closed s HI X (rootsR roots) n C) as [-> | ?]; try done; [|by right|by left].
    intros k' (u'&Hu'&<-). right. by apply I.
Qed.

Lemma reach_set_closed (R : positive → Prop) (X : gset positive) :
  (∀ n, n ∈ X ↔ reach (succ s) R n) →
  (∀ n, n ∈ X → n ∈ dom (succ s)) ∧
  (∀ n t, n ∈ X → n ≠ 1%positive → succ s !! n = Some t →
     absn (t_lo t) ∈ X ∧ absn (t_hi t) ∈ X).
Proof.
  intros HX. split.
  - intros n Hn. apply HX in Hn. by eapply reach_dom.
  - intros n t Hn Hn1 Ht. apply HX in Hn.
    destruct (inv_node _ HI _ _ Ht Hn1) as (_&[? _]&?&_).
    split; apply HX; [by eapply reach_lo|eapply reach_hi; [done..|lia]].
Qed.

Theorem to_nx_faithful (roots : list Z) :
  Forall (valid s) roots →
  ∃ g, to_nx roots s = (Ok g, s) ∧ x_refs g = [] ∧ x_labels g = [] ∧
    faithful s (reach (succ s) (rootsR roots)) g ∧
    ∀ u a, u ∈ roots →
      D s u a = xorb (bool_decide (u < 0)%Z) (geval g (absn u) a).
Proof.
  intros Hr. unfold to_nx.
  destruct (reach_from_exact roots Hr) as (X0&E&HX0).
  rewrite (bind_ok _ _ _ _ _ E). cbn [bind get ret].
  set (X := match roots with [] => ∅ | _ :: _ => X0 ∪ {[1%positive]} end).
  assert (HX : ∀ n, n ∈ X ↔ reach (succ s) (rootsR roots) n).
  { intros n. subst X. destruct roots as [|u l] eqn:El.
    - split; [set_solver|]. intros Hn. apply reach_inh in Hn as (k&x&Hx&_). set_solver.
    - rewrite <- El in *. rewrite HX0. split; [|by right].
      intros [-> | ?]; [|done]. apply (reach_roots_term s HI); [done|by rewrite El]. }
  destruct (reach_set_closed _ X HX) as [Hd Hc].
  eexists. split; [reflexivity|]. split; [done|]. split; [done|].
  assert (Hf : faithful s (reach (succ s) (rootsR roots))
                 (XGraph (levels_of s (elements X)) (edges_of s (elements X)) [] [])).
  { apply (faithful_intro s X); try done.
    intros n Hn. apply HX. apply HX in Hn. apply reach_inh in Hn as (k&x&Hx&_).
    apply (reach_roots_term s HI); [done|]. intros ->. set_solver. }
  split; [done|]. intros u a Hu.
  assert (Hv : valid s u) by (by eapply Forall_forall in Hr).
  destruct Hf as (_&_&Hev). rewrite Hev; [by apply D_abs|].
  apply reach_root; [by exists u|by apply valid_dom].
Qed.

(** *** DOT *)
Definition label_of (n : positive) : option nat :=
  match succ s !! n with
  | Some t => if is_term t then None else lvl2var s !! t_lvl t
  | None => None
  end.

Lemma to_dot_run (roots : option (list Z)) (X : gset positive) :
  (match roots with
   | None => X = dom (succ s)
   | Some rs => descendants rs s = (Ok X, s)
   end) →
  Forall (valid s) (default [] roots) →
  1%positive ∈ X → (∀ n, n ∈ X → n ∈ dom (succ s)) →
  to_dot roots s =
    (Ok (XGraph (levels_of s (elements X)) (edges_of s (elements X))
                (default [] roots) ((fun n => (n, label_of n)) <$> elements X)), s).
Proof.
  intros HXr Hr H1 Hd. unfold to_dot. cbn [bind get].
  assert (En : (match roots with
                | None => ret (dom (succ s))
                | Some rs => descendants rs
                end) s = (Ok X, s)).
  { destruct roots; [done|]. by subst X. }
  rewrite (bind_ok _ _ _ _ _ En).
  rewrite (bind_ok _ _ _ _ _ (getsucc_ok s _ _ (inv_term _ HI))).
  unfold assert. rewrite bool_decide_eq_true_2.
  2:{ apply Exists_exists. exists 1%positive. split; [by apply elem_of_elements|].
      by rewrite (inv_term _ HI). }
  rewrite (bind_ok _ _ s tt s) by done.
  replace (forallb _ (elements X)) with true.
  2:{ symmetry. apply forallb_forall. intros n Hn. apply elem_of_list_In, elem_of_elements in Hn.
      destruct (succ s !! n) as [t|] eqn:Ht; [|done].
      destruct (is_term t) eqn:Et; [done|]. cbn. apply bool_decide_eq_true.
      assert (Hn1 : n ≠ 1%positive).
      { intros ->. rewrite (inv_term _ HI) in Ht. by simplify_eq. }
      destruct (inv_node _ HI _ _ Ht Hn1) as (Hl&_). by apply (inv_lvls _ HI). }
  rewrite (bind_ok _ _ s tt s) by done.
  assert (Ef : forM (default [] roots) (fun u => getsuccZ u ;;; ret tt) s = (Ok tt, s)).
  { induction Hr as [|u l [Hu0 [t Ht]] _ IH]; [done|]. cbn [forM].
    rewrite (bind_ok _ _ s tt s); [done|].
    by rewrite (bind_ok _ _ _ _ _ (getsuccZ_ok s u t Hu0 Ht)). }
  rewrite (bind_ok _ _ _ _ _ Ef). unfold ret. f_equal. f_equal. f_equal.
  apply list_fmap_ext. intros _ n _. unfold label_of.
  destruct (succ s !! n) as [t|]; [|done]. destruct (is_term t); [done|].
  by destruct (lvl2var s !! t_lvl t).
Qed.

(** the labels give the tested variable: evaluation by names *)
Lemma gevaln_D (X : gset positive) g ρ :
  (∀ n, n ∈ X → n ∈ dom (succ s)) →
  (∀ n t, n ∈ X → n ≠ 1%positive → succ s !! n = Some t →
     absn (t_lo t) ∈ X ∧ absn (t_hi t) ∈ X) →
  1%positive ∈ X →
  x_nodes g = levels_of s (elements X) → x_edges g = edges_of s (elements X) →
  x_labels g = (fun n => (n, label_of n)) <$> elements X →
  ∀ n, n ∈ X → gevaln g n ρ = denv s (Z.pos n) ρ.
Proof.
  intros Hd Hc H1 E1 E2 E3 n Hn.
  pose proof (graph_of_intro s HI X g E1 E2) as Hg.
  assert (Hlab : ∀ m, m ∈ X → g_label g m = Some (label_of m)).
  { intros m Hm. unfold g_label. rewrite E3. apply elem_of_list_to_map_1'.
    - intros y Hy. apply elem_of_list_fmap in Hy as (k&Ek&_). by simplify_eq.
    - apply elem_of_list_fmap. exists m. split; [done|by apply elem_of_elements]. }
  unfold gevaln, denv. apply (gwalk_D s HI X Hd Hc g Hg); [| |done|apply (gfuel_ok s HI X g Hg H1)].
  - intros m t Hm Ht Hm1. rewrite (Hlab m Hm). unfold label_of. rewrite Ht.
    destruct (is_term t) eqn:Et; [|done].
    apply (is_term_iff s HI _ _ Ht) in Et. done.
  - rewrite (Hlab _ H1). by eexists.
Qed.

Theorem to_dot_faithful (roots : option (list Z)) :
  Forall (valid s) (default [] roots) → roots ≠ Some [] →
  let P := match roots with
           | None => fun n => n ∈ dom (succ s)
           | Some rs => reach (succ s) (rootsR rs)
           end in
  ∃ g, to_dot roots s = (Ok g, s) ∧ x_refs g = default [] roots ∧
    faithful s P g ∧
    (∀ n o, (n, o) ∈ x_labels g ↔ P n ∧ o = label_of n) ∧
    (∀ n ρ, P n → gevaln g n ρ = denv s (Z.pos n) ρ) ∧
    ∀ u, u ∈ x_refs g → P (absn u) ∧
      (∀ a, D s u a = xorb (bool_decide (u < 0)%Z) (geval g (absn u) a)) ∧
      (∀ ρ, denv s u ρ = xorb (bool_decide (u < 0)%Z) (gevaln g (absn u) ρ)).
Proof.
  intros Hr Hne P.
  assert (∃ X : gset positive, (∀ n, n ∈ X ↔ P n) ∧
            match roots with
            | None => X = dom (succ s)
            | Some rs => descendants rs s = (Ok X, s)
            end ∧ 1%positive ∈ X ∧
            (∀ n, n ∈ X → n ∈ dom (succ s)) ∧
            (∀ n t, n ∈ X → n ≠ 1%positive → succ s !! n = Some t →
               absn (t_lo t) ∈ X ∧ absn (t_hi t) ∈ X)) as (X&HX&HXr&H1&Hd&Hc).
  { subst P. destruct roots as [rs|].
    - destruct (descendants_exact s HI rs Hr) as (X&E&HX). exists X.
      destruct (reach_set_closed _ X HX) as [Hd Hc].
      split_and!; try done. apply HX. apply (reach_roots_term s HI); [done|congruence].
    - exists (dom (succ s)). split_and!; try done.
      + apply elem_of_dom. rewrite (inv_term _ HI). by eexists.
      + intros n t Hn Hn1 Ht.
        destruct (inv_node _ HI _ _ Ht Hn1) as (_&[_ ?]&_&[_ ?]&_).
        split; by apply elem_of_dom. }
  eexists. split; [by apply (to_dot_run roots X)|]. split; [done|].
  assert (Hf : faithful s P
     (XGraph (levels_of s (elements X)) (edges_of s (elements X))
             (default [] roots) ((fun n => (n, label_of n)) <$> elements X))).
  { by apply (faithful_intro s X). }
  assert (Hn : ∀ n ρ, P n →
     gevaln (XGraph (levels_of s (elements X)) (edges_of s (elements X))
               (default [] roots) ((fun n => (n, label_of n)) <$> elements X)) n ρ
     = denv s (Z.pos n) ρ).
  { intros n ρ Hp. apply (gevaln_D X); try done. by apply HX. }
  split; [done|]. split; [|split; [done|]].
  - intros n o. cbn [x_labels]. rewrite elem_of_list_fmap. split.
    + intros (k&Ek&Hk). simplify_eq. apply elem_of_elements, HX in Hk. done.
    + intros [Hp ->]. exists n. split; [done|]. by apply elem_of_elements, HX.
  - cbn [x_refs]. intros u Hu.
    assert (Hv : valid s u) by (by eapply Forall_forall in Hr).
    assert (Hp : P (absn u)).
    { subst P. destruct roots as [rs|]; [|by apply valid_dom].
      apply reach_root; [by exists u|by apply valid_dom]. }
    split; [done|]. destruct Hf as (_&_&Hev). split.
    + intros a. rewrite Hev by done. by apply D_abs.
    + intros ρ. rewrite Hn by done. unfold denv. by apply D_abs.
Qed.

(** [_to_dot] of an empty collection of roots fails (the level of node 1 is
    missing), as in the implementation *)
Lemma to_dot_empty : to_dot (Some []) s = (Err EAssert, s).
Proof.
  unfold to_dot. cbn [bind get].
  destruct (descendants_exact s HI []) as (X&E&HX); [done|].
  rewrite (bind_ok _ _ _ _ _ E).
  rewrite (bind_ok _ _ _ _ _ (getsucc_ok s _ _ (inv_term _ HI))).
  assert (X = ∅) as ->.
  { apply elem_of_equiv_empty_L. intros n Hn. apply HX in Hn.
    apply reach_inh in Hn as (k&x&Hx&_). by apply elem_of_nil in Hx. }
  by rewrite elements_empty.
Qed.

End export.
