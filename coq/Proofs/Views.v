(** * Views: the structural views of a diagram are faithful (C18).
      [Function.low/high/var/negated] (Shannon expansion through handles),
      [descendants], [to_nx], [_to_dot]. *)
From DD Require Export GC Subst Driver2 Autoref.

(** ** 1. Shannon expansion on the stored components *)

Theorem shannon_handle s u t v :
  Inv s → valid s u → absn u ≠ 1%positive →
  succ s !! absn u = Some t → lvl2var s !! t_lvl t = Some v →
  ∀ ρ, denv s u ρ =
       xorb (bool_decide (u < 0)%Z)
            (if ρ v then denv s (t_hi t) ρ else denv s (t_lo t) ρ).
Proof.
  intros HI Hv Hn Ht Hl ρ. unfold denv.
  rewrite (D_step s HI u _ t Hv Ht Hn). by rewrite Hl.
Qed.

(** a non-terminal node always has a variable at its level *)
Lemma node_has_var s u t :
  Inv s → succ s !! absn u = Some t → absn u ≠ 1%positive →
  ∃ v, lvl2var s !! t_lvl t = Some v ∧ vars s !! v = Some (t_lvl t).
Proof.
  intros HI Ht Hn. destruct (inv_node _ HI _ _ Ht Hn) as (Hl&_).
  apply (inv_lvls _ HI) in Hl as [v Hv]. exists v. split; [done|].
  by apply (inv_vars _ HI).
Qed.

(** *** Through the autoref model *)
Definition abump (u : Z) (a : ast) : ast :=
  a <| mgr := bump u (mgr a) |>
    <| handles ::= <[next_hid a := u]> |> <| next_hid := S (next_hid a) |>.

Lemma lift_ok {A} (m : MS A) a r s' :
  m (mgr a) = (r, s') → lift m a = (r, a <| mgr := s' |>).
Proof. unfold lift. by intros ->. Qed.

Lemma node_of_ok a h u : handles a !! h = Some u → node_of h a = (Ok u, a).
Proof. intros H. unfold node_of. cbn [bind get]. by rewrite H. Qed.

Lemma wrap_ok a u : Inv (mgr a) → valid (mgr a) u →
  wrap u a = (Ok (next_hid a), abump u a).
Proof.
  intros HI Hv. unfold wrap. cbn [bind get].
  rewrite (proj2 (mem_valid _ _) Hv). cbn [ensure bind ret].
  rewrite (bind_ok _ _ _ _ _ (lift_ok _ _ _ _ (incref_ok _ _ HI Hv))).
  done.
Qed.

Lemma Inv_abump a u : Inv (mgr a) → Inv (mgr (abump u a)).
Proof. apply Inv_bump. Qed.
Lemma denv_bump s u x ρ : denv (bump u s) x ρ = denv s x ρ.
Proof. unfold denv. by apply D_same. Qed.

(** [u.low] / [u.high]: a new handle on the STORED edge (not flipped by the
    sign of [u]); [None] for the terminal *)
Theorem f_child_node (hi : bool) a hu u t :
  Inv (mgr a) → handles a !! hu = Some u → valid (mgr a) u →
  succ (mgr a) !! absn u = Some t → absn u ≠ 1%positive →
  let c := if hi then t_hi t else t_lo t in
  f_child hi hu a = (Ok (Some (next_hid a)), abump c a) ∧
  handles (abump c a) !! next_hid a = Some c ∧ valid (mgr a) c.
Proof.
  intros HI Hh Hv Ht Hn c. unfold f_child.
  rewrite (bind_ok _ _ _ _ _ (node_of_ok a hu u Hh)).
  rewrite (bind_ok _ _ _ _ _ (lift_ok _ _ _ _ (getsuccZ_ok _ u t (proj1 Hv) Ht))).
  destruct (inv_node _ HI _ _ Ht Hn) as (_&Hvl&_&Hvh&_).
  assert (Hlo : t_lo t ≠ 0%Z) by apply Hvl.
  unfold is_term. rewrite bool_decide_eq_false_2 by done.
  assert (Hc : valid (mgr a) c) by (subst c; by destruct hi).
  assert (E : a <| mgr := mgr a |> = a) by (by destruct a).
  rewrite E. fold c.
  rewrite (bind_ok _ _ _ _ _ (wrap_ok a c HI Hc)).
  split; [done|]. split; [|done]. cbn. by rewrite lookup_insert.
Qed.

Theorem f_child_term hi a hu u :
  Inv (mgr a) → handles a !! hu = Some u → valid (mgr a) u →
  absn u = 1%positive → f_child hi hu a = (Ok None, a).
Proof.
  intros HI Hh Hv E1. unfold f_child.
  rewrite (bind_ok _ _ _ _ _ (node_of_ok a hu u Hh)).
  assert (Ht : succ (mgr a) !! absn u = Some (tterm (nvars (mgr a))))
    by (rewrite E1; apply HI).
  rewrite (bind_ok _ _ _ _ _ (lift_ok _ _ _ _ (getsuccZ_ok _ u _ (proj1 Hv) Ht))).
  cbn. by destruct a.
Qed.

(** [u.var] *)
Theorem f_var_node a hu u t v :
  handles a !! hu = Some u → u ≠ 0%Z →
  succ (mgr a) !! absn u = Some t → t_lo t ≠ 0%Z →
  lvl2var (mgr a) !! t_lvl t = Some v →
  f_var hu a = (Ok (Some v), a).
Proof.
  intros Hh Hu Ht Hlo Hl. unfold f_var.
  rewrite (bind_ok _ _ _ _ _ (node_of_ok a hu u Hh)).
  rewrite (bind_ok _ _ _ _ _ (lift_ok _ _ _ _ (getsuccZ_ok _ u t Hu Ht))).
  unfold is_term. rewrite bool_decide_eq_false_2 by done.
  assert (E : a <| mgr := mgr a |> = a) by (by destruct a). rewrite E.
  erewrite (bind_ok (lift _)); [|apply lift_ok; unfold var_at_level; cbn [bind get];
    rewrite Hl; reflexivity].
  by rewrite E.
Qed.

Theorem f_var_term a hu u :
  Inv (mgr a) → handles a !! hu = Some u → valid (mgr a) u →
  absn u = 1%positive → f_var hu a = (Ok None, a).
Proof.
  intros HI Hh Hv E1. unfold f_var.
  rewrite (bind_ok _ _ _ _ _ (node_of_ok a hu u Hh)).
  assert (Ht : succ (mgr a) !! absn u = Some (tterm (nvars (mgr a))))
    by (rewrite E1; apply HI).
  rewrite (bind_ok _ _ _ _ _ (lift_ok _ _ _ _ (getsuccZ_ok _ u _ (proj1 Hv) Ht))).
  cbn. by destruct a.
Qed.

(** [u.negated] *)
Theorem f_negated_ok a hu u : handles a !! hu = Some u →
  f_negated hu a = (Ok (bool_decide (u < 0)%Z), a).
Proof.
  intros Hh. unfold f_negated. by rewrite (bind_ok _ _ _ _ _ (node_of_ok a hu u Hh)).
Qed.

(** handle identifiers are allocated increasingly: live ones are below
    [next_hid] (true of every state reached from the empty store) *)
Definition awf (a : ast) : Prop := ∀ h u, handles a !! h = Some u → h < next_hid a.

Lemma awf_abump a c : awf a → awf (abump c a).
Proof.
  intros Hw h u. cbn. destruct (decide (h = next_hid a)) as [->|Hn].
  - intros _. lia.
  - rewrite lookup_insert_ne by done. intros H. apply Hw in H. lia.
Qed.
Lemma handles_abump a c h u : awf a → handles a !! h = Some u →
  handles (abump c a) !! h = Some u.
Proof.
  intros Hw H. cbn. rewrite lookup_insert_ne; [done|]. apply Hw in H. lia.
Qed.

(** The expansion read through the interface: [var], [high], [low],
    [negated] of a handle of a non-terminal node reproduce the handle. *)
Theorem shannon_autoref a hu u :
  Inv (mgr a) → awf a → handles a !! hu = Some u → valid (mgr a) u →
  absn u ≠ 1%positive →
  ∃ t v hh a1 hl a2,
    succ (mgr a) !! absn u = Some t ∧ lvl2var (mgr a) !! t_lvl t = Some v ∧
    f_var hu a = (Ok (Some v), a) ∧
    f_child true hu a = (Ok (Some hh), a1) ∧
    f_child false hu a1 = (Ok (Some hl), a2) ∧
    f_negated hu a2 = (Ok (bool_decide (u < 0)%Z), a2) ∧
    handles a2 !! hu = Some u ∧ handles a2 !! hh = Some (t_hi t) ∧
    handles a2 !! hl = Some (t_lo t) ∧ Inv (mgr a2) ∧ awf a2 ∧
    succ (mgr a2) = succ (mgr a) ∧
    (∀ x ρ, denv (mgr a2) x ρ = denv (mgr a) x ρ) ∧
    ∀ ρ, denv (mgr a2) u ρ =
         xorb (bool_decide (u < 0)%Z)
              (if ρ v then denv (mgr a2) (t_hi t) ρ else denv (mgr a2) (t_lo t) ρ).
Proof.
  intros HI Hw Hh Hv Hn. destruct Hv as [Hu0 [t Ht]].
  assert (Hv : valid (mgr a) u) by (split; [done|by eexists]).
  destruct (node_has_var _ u t HI Ht Hn) as (v&Hl&_).
  destruct (inv_node _ HI _ _ Ht Hn) as (_&Hvl&_&Hvh&_).
  destruct (f_child_node true a hu u t HI Hh Hv Ht Hn) as (E1&Hh1&_).
  cbv zeta in E1, Hh1. set (a1 := abump (t_hi t) a) in *.
  assert (HI1 : Inv (mgr a1)) by (by apply Inv_abump).
  assert (Hw1 : awf a1) by (by apply awf_abump).
  assert (Hhu1 : handles a1 !! hu = Some u) by (by apply handles_abump).
  destruct (f_child_node false a1 hu u t HI1 Hhu1 Hv Ht Hn) as (E2&Hh2&_).
  cbv zeta in E2, Hh2. set (a2 := abump (t_lo t) a1) in *.
  assert (HD : ∀ x ρ, denv (mgr a2) x ρ = denv (mgr a) x ρ).
  { intros x ρ. subst a2 a1. cbn. by rewrite !denv_bump. }
  exists t, v, (next_hid a), a1, (next_hid a1), a2.
  split_and!; try done.
  - apply (f_var_node a hu u t v); try done. apply Hvl.
  - by apply f_negated_ok, handles_abump.
  - by apply handles_abump.
  - by apply handles_abump.
  - by apply Inv_abump.
  - by apply awf_abump.
  - intros ρ. rewrite !HD. by apply shannon_handle.
Qed.

(** ** 2. [descendants] computes exactly the reachable nodes *)

Lemma reach_mono m (R R' : positive → Prop) n :
  (∀ k, R k → R' k) → reach m R n → reach m R' n.
Proof.
  intros HR. induction 1 as [n Hn Hd|p t _ IH Hp Hl|p t _ IH Hp Hh].
  - apply reach_root; auto.
  - by eapply reach_lo.
  - by eapply reach_hi.
Qed.
Lemma reach_trans m (R : positive → Prop) p n :
  reach m R p → reach m (eq p) n → reach m R n.
Proof.
  intros Hp. induction 1 as [n Hn Hd|q t _ IH Hq Hl|q t _ IH Hq Hh].
  - by subst.
  - by eapply reach_lo.
  - by eapply reach_hi.
Qed.
Lemma reach_inh m (R : positive → Prop) n : reach m R n → ∃ k, R k.
Proof. induction 1; eauto. Qed.

(** roots given as references *)
Definition rootsR (roots : list Z) : positive → Prop :=
  fun k => ∃ u, u ∈ roots ∧ absn u = k.

Section desc.
Context (s : st) (HI : Inv s).

(** a visited set is closed: the children of a visited node are visited
    (nodes are marked after their children) or the terminal *)
Definition closed (V : gset positive) : Prop :=
  ∀ n t, n ∈ V → n ≠ 1%positive → succ s !! n = Some t →
    (absn (t_lo t) = 1%positive ∨ absn (t_lo t) ∈ V) ∧
    (absn (t_hi t) = 1%positive ∨ absn (t_hi t) ∈ V).

Lemma closed_add1 V : closed V → closed (V ∪ {[1%positive]}).
Proof.
  intros Hc n t Hn Hn1 Ht. apply elem_of_union in Hn as [Hn|Hn]; [|set_solver].
  destruct (Hc n t Hn Hn1 Ht) as [[?|?] [?|?]]; split; set_solver.
Qed.

Lemma reach_closed V (R : positive → Prop) n :
  closed V → (∀ k, R k → k = 1%positive ∨ k ∈ V) →
  reach (succ s) R n → n = 1%positive ∨ n ∈ V.
Proof.
  intros Hc HR. induction 1 as [n Hn Hd|p t _ IH Hp Hl|p t _ IH Hp Hh]; [by auto|..].
  - destruct IH as [->|Hin].
    + rewrite (inv_term _ HI) in Hp. by simplify_eq.
    + destruct (decide (p = 1%positive)) as [->|Hp1].
      { rewrite (inv_term _ HI) in Hp. by simplify_eq. }
      by destruct (Hc p t Hin Hp1 Hp) as [? _].
  - destruct IH as [->|Hin].
    + rewrite (inv_term _ HI) in Hp. by simplify_eq.
    + destruct (decide (p = 1%positive)) as [->|Hp1].
      { rewrite (inv_term _ HI) in Hp. by simplify_eq. }
      by destruct (Hc p t Hin Hp1 Hp) as [_ ?].
Qed.

Lemma valid_dom u : valid s u → absn u ∈ dom (succ s).
Proof. intros [_ ?]. by apply elem_of_dom. Qed.

(** every node leads to the terminal *)
Lemma reach_term u : valid s u → reach (succ s) (eq (absn u)) 1%positive.
Proof.
  remember (nvars s - lvl_of s u) as k eqn:Hk. revert u Hk.
  induction (lt_wf k) as [k _ IH]. intros u Hk Hv.
  destruct (node_cases s HI u Hv) as [[E _]|(t&Ht&Hn&Hlo&Hl&?&Hvl&Hvh&?&Hll&Hlh&?)].
  - apply reach_root; [done|]. rewrite <- E. by apply valid_dom.
  - apply (reach_trans _ _ (absn (t_hi t))).
    + eapply reach_hi; [|done|lia]. apply reach_root; [done|by apply valid_dom].
    + eapply (IH (nvars s - lvl_of s (t_hi t))); try done. lia.
Qed.

Lemma descendants_rec_spec fuel : ∀ u V,
  valid s u → closed V → nvars s - lvl_of s u < fuel →
  ∃ V', descendants_rec fuel u V s = (Ok V', s) ∧ V ⊆ V' ∧ closed V' ∧
    (absn u = 1%positive ∨ absn u ∈ V') ∧
    ∀ n, n ∈ V' → n ∈ V ∨ (n ≠ 1%positive ∧ reach (succ s) (eq (absn u)) n).
Proof.
  induction fuel as [|f IH]; intros u V Hv Hc Hf; [lia|].
  cbn [descendants_rec]. rewrite decide_False by apply Hv.
  destruct (decide (absn u = 1%positive ∨ absn u ∈ V)) as [Hin|Hnin].
  { exists V. split_and!; try done. by left. }
  destruct (node_cases s HI u Hv) as [[E _]|(t&Ht&Hn&Hlo&Hl&?&Hvl&Hvh&Hhp&Hll&Hlh&?)];
    [tauto|].
  rewrite (bind_ok _ _ _ _ _ (getsucc_ok s _ t Ht)).
  unfold is_term, assert. rewrite bool_decide_eq_false_2 by done. cbn [negb].
  rewrite (bind_ok _ _ s tt s) by done.
  destruct (IH (t_lo t) V Hvl Hc ltac:(lia)) as (V1&E1&S1&C1&I1&R1).
  rewrite (bind_ok _ _ _ _ _ E1).
  destruct (IH (t_hi t) V1 Hvh C1 ltac:(lia)) as (V2&E2&S2&C2&I2&R2).
  rewrite (bind_ok _ _ _ _ _ E2).
  assert (Hru : reach (succ s) (eq (absn u)) (absn u))
    by (apply reach_root; [done|by apply valid_dom]).
  exists (V2 ∪ {[absn u]}). split_and!; [done|set_solver| |right; set_solver|].
  - intros n t' Hn' Hn1 Ht'. apply elem_of_union in Hn' as [Hn'|Hn'].
    + destruct (C2 n t' Hn' Hn1 Ht') as [[?|?] [?|?]]; split; set_solver.
    + apply elem_of_singleton in Hn'. subst n. simplify_eq.
      split; [destruct I1; set_solver|destruct I2; set_solver].
  - intros n Hn'. apply elem_of_union in Hn' as [Hn'|Hn'].
    + destruct (R2 n Hn') as [Hn1|[Hn1 Hr]].
      * destruct (R1 n Hn1) as [?|[Hn1' Hr]]; [by left|right]. split; [done|].
        apply (reach_trans _ _ (absn (t_lo t))); [|done]. by eapply reach_lo.
      * right. split; [done|].
        apply (reach_trans _ _ (absn (t_hi t))); [|done]. eapply reach_hi; [done..|lia].
    + apply elem_of_singleton in Hn'. subst n. right. split; [tauto|done].
Qed.

Lemma rootsR_cons u l k : rootsR (u :: l) k ↔ absn u = k ∨ rootsR l k.
Proof.
  unfold rootsR. split.
  - intros (x&Hx&<-). apply elem_of_cons in Hx as [->|Hx]; [by left|right; eauto].
  - intros [<-|(x&Hx&<-)]; [exists u|exists x]; split; try done; set_solver.
Qed.

Lemma descendants_fold fuel (l : list Z) : ∀ V,
  nvars s < fuel → Forall (valid s) l → closed V →
  ∃ V', foldM (fun (visited : gset positive) u =>
            descendants_rec fuel u (visited ∪ {[1%positive]})) V l s = (Ok V', s) ∧
    V ⊆ V' ∧ closed V' ∧ (l ≠ [] → 1%positive ∈ V') ∧
    (∀ u, u ∈ l → absn u = 1%positive ∨ absn u ∈ V') ∧
    ∀ n, n ∈ V' → n ∈ V ∨ reach (succ s) (rootsR l) n.
Proof.
  induction l as [|u l IH]; intros V Hf Hl Hc.
  { exists V. cbn. split_and!; try done; [set_solver|by left]. }
  apply Forall_cons in Hl as [Hu Hl]. cbn [foldM].
  destruct (descendants_rec_spec fuel u (V ∪ {[1%positive]}) Hu (closed_add1 V Hc) ltac:(lia))
    as (V1&E1&S1&C1&I1&R1).
  rewrite (bind_ok _ _ _ _ _ E1).
  destruct (IH V1 Hf Hl C1) as (V2&E2&S2&C2&N2&I2&R2). rewrite E2.
  exists V2. split_and!; [done|set_solver|done|set_solver| |].
  - intros x Hx. apply elem_of_cons in Hx as [->|Hx]; [|by apply I2].
    destruct I1; [by left|right; set_solver].
  - intros n Hn. destruct (R2 n Hn) as [Hn1|Hr].
    + destruct (R1 n Hn1) as [Hn0|[_ Hr]].
      * apply elem_of_union in Hn0 as [?|Hn0]; [by left|right].
        apply elem_of_singleton in Hn0. subst n.
        eapply reach_mono; [|by apply (reach_term u)].
        intros k <-. apply rootsR_cons. by left.
      * right. eapply reach_mono; [|done]. intros k <-. apply rootsR_cons. by left.
    + right. eapply reach_mono; [|done]. intros k ?. apply rootsR_cons. by right.
Qed.

Theorem descendants_exact (roots : list Z) :
  Forall (valid s) roots →
  ∃ X, descendants roots s = (Ok X, s) ∧
    ∀ n, n ∈ X ↔ reach (succ s) (rootsR roots) n.
Proof.
  intros Hr. unfold descendants. cbn [bind get].
  assert (Hc0 : closed ∅) by (intros n t Hn; set_solver).
  destruct (descendants_fold (S (S (nvars s))) roots ∅ ltac:(lia) Hr Hc0)
    as (X&E&_&C&N&I&R).
  rewrite (bind_ok _ _ _ _ _ E). unfold assert.
  rewrite bool_decide_eq_true_2.
  2:{ apply Forall_forall. intros u Hu. destruct (I u Hu) as [->|?]; [|done].
      apply N. intros ->. set_solver. }
  cbn [bind ret]. exists X. split; [done|]. intros n. split.
  - intros Hn. destruct (R n Hn) as [?|?]; [set_solver|done].
  - intros Hn. pose proof (reach_inh _ _ _ Hn) as (k&u&Hu&_).
    assert (N1 : 1%positive ∈ X) by (apply N; intros ->; set_solver).
    destruct (reach_closed X (rootsR roots) n C) as [->|?]; try done.
    intros k' (u'&Hu'&<-). by apply I.
Qed.

(** [reach] from roots contains the terminal as soon as there is a root *)
Lemma reach_roots_term (roots : list Z) :
  Forall (valid s) roots → roots ≠ [] → reach (succ s) (rootsR roots) 1%positive.
Proof.
  intros Hr Hne. destruct roots as [|u l]; [done|].
  apply Forall_cons in Hr as [Hu _].
  eapply reach_mono; [|by apply (reach_term u)]. intros k <-. apply rootsR_cons. by left.
Qed.

End desc.

(** the statement with the state threaded explicitly *)
Theorem descendants_exact' s roots r s' :
  Inv s → (∀ u, u ∈ roots → valid s u) → descendants roots s = (r, s') →
  s' = s ∧ ∃ X, r = Ok X ∧ ∀ n, n ∈ X ↔ reach (succ s) (rootsR roots) n.
Proof.
  intros HI Hr Hd. apply Forall_forall in Hr.
  destruct (descendants_exact s HI roots Hr) as (X&E&HX).
  rewrite E in Hd. injection Hd as <- <-. eauto.
Qed.

(** [len(u)] of a handle: the number of reachable nodes (terminal included) *)
Theorem f_len_exact a hu u :
  Inv (mgr a) → handles a !! hu = Some u → valid (mgr a) u →
  ∃ X : gset positive, f_len hu a = (Ok (size X), a) ∧
    ∀ n, n ∈ X ↔ reach (succ (mgr a)) (eq (absn u)) n.
Proof.
  intros HI Hh Hv. unfold f_len.
  rewrite (bind_ok _ _ _ _ _ (node_of_ok a hu u Hh)).
  destruct (descendants_exact _ HI [u]) as (X&E&HX); [by apply Forall_singleton|].
  rewrite (bind_ok _ _ _ _ _ (lift_ok _ _ _ _ E)).
  exists X. split; [by destruct a|]. intros n. rewrite HX. split; apply reach_mono.
  - intros k (x&Hx&<-). apply elem_of_list_singleton in Hx. by subst.
  - intros k <-. exists u. split; [set_solver|done].
Qed.
