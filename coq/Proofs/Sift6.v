(** * Sift6: [_reorder_var] (sifting of one variable) and [_apply_sifting] *)
From DD Require Export Sift5.

Lemma mv_mv a b c l : mv b c (mv a b l) = mv a c l.
Proof. unfold mv. repeat case_decide; lia. Qed.

Lemma argmin_spec (l : list (nat * nat)) k v : argmin l = Some (k, v) →
  (k, v) ∈ l ∧ ∀ k' v', (k', v') ∈ l → v ≤ v'.
Proof.
  revert k v. induction l as [|[k0 v0] l IH]; intros k v; [done|].
  cbn [argmin]. destruct (argmin l) as [[k1 v1]|] eqn:E.
  - destruct (IH k1 v1 eq_refl) as [Hin Hmin]. case_decide as Hlt; intros [= <- <-].
    + split; [by right|]. intros k' v' H. apply elem_of_cons in H as [[= -> ->]|H]; [lia|].
      by apply (Hmin k').
    + split; [left|]. intros k' v' H. apply elem_of_cons in H as [[= -> ->]|H]; [lia|].
      pose proof (Hmin k' v' H). lia.
  - intros [= <- <-]. destruct l as [|[k2 v2] l].
    + split; [left|]. intros k' v' H. apply elem_of_list_singleton in H. injection H as -> ->. lia.
    + cbn [argmin] in E. destruct (argmin l) as [[? ?]|]; [case_decide|]; done.
Qed.
Lemma argmin_none (l : list (nat * nat)) : argmin l = None → l = [].
Proof.
  destruct l as [|[k v] l]; [done|]. cbn [argmin].
  destruct (argmin l) as [[? ?]|]; [case_decide|]; done.
Qed.

(** two states reached from a common one by level permutations that agree *)
Lemma size_same_perm L s0 sa sb πa πb :
  Stp L s0 sa → Stp L s0 sb → nozero s0 → Inv s0 →
  vperm πa s0 sa → vperm πb s0 sb → (∀ l, l < nvars s0 → πa l = πb l) →
  len sa = len sb.
Proof.
  intros HSa HSb Hz HI Hpa Hpb He. apply (size_same_order L s0); try done.
  rewrite (vperm_fmap πb s0 sb Hpb (proj1 (proj2 HSb))).
  apply (vperm_fmap πb s0 sa); [|apply HSa].
  by apply (vperm_ext πa).
Qed.

Theorem reorder_var_spec L s var al r s' :
  Gd L s → nozero s → levels_ok s al → is_Some (vars s !! var) →
  reorder_var var al s = (r, s') →
  r = Err EOracle ∨ r = Err ERuntime ∨
  ∃ k al' lv, r = Ok (k, al') ∧ vars s !! var = Some lv ∧
    Stp L s s' ∧ levels_ok s' al' ∧ vperm (mv lv k) s s' ∧ len s' ≤ len s.
Proof.
  intros HG Hz Hal [lv Hlv]. pose proof HG as (HI&HC&Hll).
  assert (Hlvn : lv < nvars s) by (apply (inv_lvls _ HI); exists var; by apply (inv_vars _ HI)).
  unfold reorder_var. cbn [bind get]. rewrite Hlv.
  rewrite bool_decide_eq_true_2 by eauto. cbn [ensure]. rewrite (bind_ok _ _ s tt s) by done.
  unfold assert. rewrite bool_decide_eq_true_2 by lia. rewrite (bind_ok _ _ s tt s) by done.
  rewrite (bind_ok _ _ _ _ _ (level_of_var_ok s var lv Hlv)).
  set (n := nvars s - 1).
  assert (Hgen : ∀ start end_, start ≤ n → end_ ≤ n → between start end_ lv →
    (start = end_ → n = 0) →
    bind (shift lv start al)
      (λ '(_, al0),
         bind (shift start end_ al0)
           (λ '(sizes, al1),
              if decide (sizes = [])
              then ret (lv, al1)
              else
               bind (of_opt EValue (argmin sizes))
                 (λ '(k, mk),
                    bind (shift end_ k al1)
                      (λ '(_, al2),
                         bind get
                           (λ s'0 : st,
                              bind
                                (if bool_decide (mk = len s'0)
                                 then ret ()
                                 else raise EAssert)
                                (λ _ : (),
                                   bind
                                     (if bool_decide (len s'0 ≤ len s)
                                      then ret ()
                                      else raise EAssert)
                                     (λ _ : (), ret (k, al2)))))))) s = (r, s') →
    r = Err EOracle ∨ r = Err ERuntime ∨
    ∃ k al' lv0, r = Ok (k, al') ∧ Some lv = Some lv0 ∧ Stp L s s' ∧
      levels_ok s' al' ∧ vperm (mv lv0 k) s s' ∧ len s' ≤ len s).
  { intros start end_ Hs He Hbt Hse.
    (* first shift: to the nearer end *)
    destruct (shift lv start al s) as [r1 sA] eqn:E1.
    destruct (shift_spec L s lv start al r1 sA HG Hal Hlvn ltac:(lia) E1)
      as [->|[->|(sz1&alA&->&HSA&HalA&HpA&_)]].
    { rewrite (bind_err _ _ _ _ _ E1). intros [= <- <-]. by left. }
    { rewrite (bind_err _ _ _ _ _ E1). intros [= <- <-]. by right; left. }
    rewrite (bind_ok _ _ _ _ _ E1). cbv beta iota.
    pose proof HSA as (HGA&HnA&_).
    (* second shift: the full sweep *)
    destruct (shift start end_ alA sA) as [r2 sB] eqn:E2.
    destruct (shift_spec L sA start end_ alA r2 sB HGA HalA ltac:(lia) ltac:(lia) E2)
      as [->|[->|(sizes&alB&->&HSB&HalB&HpB&HVis&Hkeys&Hnil)]].
    { rewrite (bind_err _ _ _ _ _ E2). intros [= <- <-]. by left. }
    { rewrite (bind_err _ _ _ _ _ E2). intros [= <- <-]. by right; left. }
    rewrite (bind_ok _ _ _ _ _ E2). cbv beta iota.
    pose proof HSB as (HGB&HnB&_).
    assert (HSsB : Stp L s sB) by (by apply (Stp_trans L s sA sB)).
    assert (HpsB : vperm (fun l => mv start end_ (mv lv start l)) s sB)
      by (by apply (vperm_comp _ _ s sA sB)).
    case_decide as Hsz.
    { (* a single variable *)
      intros [= <- <-]. right. right. exists lv, alB, lv.
      assert (start = end_) as Ese.
      { destruct (decide (start = end_)) as [|Hne]; [done|exfalso].
        pose proof (Hkeys Hne lv Hbt) as Hk. rewrite Hsz in Hk. by apply elem_of_nil in Hk. }
      assert (lv = start) by (unfold between in Hbt; lia).
      split_and!; try done.
      - apply (vperm_ext (fun l => mv start end_ (mv lv start l))); [done| |done].
        intros l _. rewrite mv_mv. by subst.
      - rewrite (size_same_perm L s sB s _ (fun l => l) HSsB (Stp_refl L s HG) Hz HI HpsB
                   (vperm_id s)); [done|].
        intros l _. rewrite mv_mv. subst. apply mv_id. }
    destruct (argmin sizes) as [[k mk]|] eqn:Eam; [|by apply argmin_none in Eam].
    cbn [of_opt]. rewrite (bind_ok _ _ sB (k, mk) sB) by done. cbv beta iota.
    destruct (argmin_spec sizes k mk Eam) as [Hkin Hmin].
    destruct (HVis k mk Hkin) as (sp&HSp&Hpp&->).
    assert (Hkn : k < nvars s).
    { destruct (proj1 (inv_lvls _ (proj1 HGA) start) ltac:(lia)) as [v Hv].
      apply (inv_vars _ (proj1 HGA)) in Hv. pose proof (Hpp v start Hv) as Hv'.
      assert (mv start k start = k) as Ek by (unfold mv; by rewrite decide_True).
      rewrite Ek in Hv'. destruct HSp as ((HIp&_)&Hnp&_).
      rewrite <- HnA, <- Hnp. apply (inv_lvls _ HIp). exists v. by apply (inv_vars _ HIp). }
    (* third shift: back to the best position *)
    destruct (shift end_ k alB sB) as [r3 sC] eqn:E3.
    destruct (shift_spec L sB end_ k alB r3 sC HGB HalB ltac:(lia) ltac:(lia) E3)
      as [->|[->|(sz3&alC&->&HSC&HalC&HpC&_)]].
    { rewrite (bind_err _ _ _ _ _ E3). intros [= <- <-]. by left. }
    { rewrite (bind_err _ _ _ _ _ E3). intros [= <- <-]. by right; left. }
    rewrite (bind_ok _ _ _ _ _ E3). cbv beta iota. cbn [bind get].
    assert (HSsC : Stp L s sC) by (by apply (Stp_trans L s sB sC)).
    assert (HpsC : vperm (fun l => mv end_ k (mv start end_ (mv lv start l))) s sC)
      by (by apply (vperm_comp _ _ s sB sC)).
    assert (HSsp : Stp L s sp) by (by apply (Stp_trans L s sA sp)).
    assert (Hpsp : vperm (fun l => mv start k (mv lv start l)) s sp)
      by (by apply (vperm_comp _ _ s sA sp)).
    assert (Elen : len sp = len sC).
    { apply (size_same_perm L s sp sC _ _ HSsp HSsC Hz HI Hpsp HpsC).
      intros l _. by rewrite !mv_mv. }
    rewrite bool_decide_eq_true_2 by done. rewrite (bind_ok _ _ sC tt sC) by done.
    assert (Hle : len sC ≤ len s).
    { assert (start ≠ end_) as Hne by (intros E; by apply Hsz, Hnil).
      pose proof (Hkeys Hne lv Hbt) as Hk.
      apply elem_of_list_fmap in Hk as ([lv' v]&Elv&Hin). cbn in Elv. subst lv'.
      destruct (HVis lv v Hin) as (sq&HSq&Hpq&->).
      pose proof (Hmin lv _ Hin) as Hmk.
      assert (len sq = len s) as <-; [|lia].
      apply (size_same_perm L s sq s (fun l => mv start lv (mv lv start l)) (fun l => l));
        [by apply (Stp_trans L s sA sq)|by apply Stp_refl|done|done
        |by apply (vperm_comp _ _ s sA sq)|apply vperm_id|].
      intros l0 _. rewrite mv_mv. apply mv_id. }
    rewrite bool_decide_eq_true_2 by done. rewrite (bind_ok _ _ sC tt sC) by done.
    intros [= <- <-]. right. right. exists k, alC, lv. split_and!; try done.
    apply (vperm_ext (fun l => mv end_ k (mv start end_ (mv lv start l)))); [done| |done].
    intros l _. by rewrite !mv_mv. }
  case_decide as Hd; apply Hgen; unfold between; try lia.
Qed.

(** ** [_apply_sifting] *)
Lemma gc_nozero s L r s' : Inv s → Counts s L →
  collect_garbage None s = (r, s') → nozero s'.
Proof.
  intros HI HC Hrun.
  destruct (gc_run True None s L r s' HI HC I ltac:(done) Hrun) as (_&_&_&HJ).
  intros n Hn Hn1 Hr.
  apply (not_elem_of_empty (C := gset positive) n).
  by apply (j_complete _ _ _ _ _ HJ I n Hn Hn1).
Qed.

Lemma Stp_dom L π s s' : Stp L s s' → vperm π s s' → dom (vars s') = dom (vars s).
Proof. intros (_&Hn&_) Hp. by rewrite (vperm_fmap π s s' Hp Hn), dom_fmap_L. Qed.

Definition sift_body (al : levels_t) (p : positive) : MS levels_t :=
  r <- reorder_var (Nat.pred (Pos.to_nat p)) al ;; ret (snd r).

Lemma sift_fold L s0 : ∀ (names : list positive) s al r s',
  Stp L s0 s → nozero s → levels_ok s al → dom (vars s) = dom (vars s0) →
  len s ≤ len s0 →
  (∀ p, p ∈ names → Nat.pred (Pos.to_nat p) ∈ dom (vars s0)) →
  foldM sift_body al names s = (r, s') →
  r = Err EOracle ∨ r = Err ERuntime ∨
  ∃ al', r = Ok al' ∧ Stp L s0 s' ∧ nozero s' ∧ levels_ok s' al' ∧
         dom (vars s') = dom (vars s0) ∧ len s' ≤ len s0.
Proof.
  induction names as [|p names IH]; intros s al r s' HS Hz Hal Hd Hle Hn.
  - cbn [foldM]. intros [= <- <-]. right. right. by exists al.
  - cbn [foldM]. unfold sift_body at 1.
    destruct (reorder_var (Nat.pred (Pos.to_nat p)) al s) as [r1 s1] eqn:E1.
    destruct (reorder_var_spec L s (Nat.pred (Pos.to_nat p)) al r1 s1 (proj1 HS) Hz Hal) as [->|[->|(k&al1&lv&->&_&HS1&Hal1&Hp1&Hle1)]];
      [|exact E1| | |].
    + apply elem_of_dom. rewrite Hd. apply Hn. left.
    + rewrite (bind_err _ _ _ _ _ (bind_err _ _ _ _ _ E1)). intros [= <- <-]. by left.
    + rewrite (bind_err _ _ _ _ _ (bind_err _ _ _ _ _ E1)). intros [= <- <-]. by right; left.
    + rewrite (bind_ok _ _ s (k, al1).2 s1) by (by rewrite (bind_ok _ _ _ _ _ E1)).
      cbn [snd]. apply IH.
      * by apply (Stp_trans L s0 s s1).
      * by apply HS1.
      * done.
      * rewrite (Stp_dom L _ s s1 HS1 Hp1). done.
      * lia.
      * intros q Hq. apply Hn. by right.
Qed.

Theorem apply_sifting_spec s L r s' :
  Inv s → Counts s L → last_len s = None →
  apply_sifting s = (r, s') →
  r = Err EOracle ∨ r = Err ERuntime ∨
  (r = Ok tt ∧ Gd L s' ∧ nozero s' ∧ rr s' = rr s ∧
   dom (vars s') = dom (vars s) ∧ keepsH L s s' ∧ len s' ≤ len s).
Proof.
  intros HI HC Hll Hrun.
  pose proof (pres_apply_sifting s r s' Hrun) as Hrr.
  revert Hrun. unfold apply_sifting.
  destruct (collect_garbage None s) as [rg s1] eqn:Egc.
  pose proof (gc_nozero s L rg s1 HI HC Egc) as Hz1.
  destruct (gc_exact s L rg s1 HI HC Egc) as (->&HI1&HC1&_&Hv1&Hl1&Hll1&Hdom1&Hsub1).
  rewrite (bind_ok _ _ _ _ _ Egc). cbn [bind get].
  destruct (levels_spec s1 HI1) as (al&Hlev&Hal). rewrite (bind_ok _ _ _ _ _ Hlev).
  assert (HG1 : Gd L s1) by (split_and!; [done|done|congruence]).
  assert (Hk1 : keepsH L s s1).
  { intros u [Hu0 Hu].
    destruct (gc_preserves_den None s L (Ok tt) s1 u HI HC I Egc Hu0) as (V1&V&HD).
    { destruct Hu as [?|Hu]; [by left|right]. apply reach_root; [done|].
      destruct HC as [_ HC2]. destruct (decide (absn u ∈ dom (succ s))) as [|Hd]; [done|].
      rewrite (HC2 _ Hd) in Hu. lia. }
    split_and!; try done. intros ρ. unfold denv. rewrite Hl1. apply HD. }
  assert (Hlen1 : len s1 ≤ len s).
  { assert (dom (succ s1) ⊆ dom (succ s)) as Hd.
    { intros n Hn. apply elem_of_dom in Hn as [t Ht]. apply elem_of_dom. eauto. }
    apply subseteq_size in Hd. by rewrite !size_dom in Hd. }
  destruct (pop_order (set_map Pos.of_succ_nat (dom (vars s1))) s1) as [ro sP] eqn:Epo.
  destruct (pop_order_spec _ s1 ro sP Epo) as (EsP&EpP&HkP&Hro).
  destruct Hro as [->|(names&->&_&Hnames)].
  { rewrite (bind_err _ _ _ _ _ Epo). intros [= <- <-]. by left. }
  rewrite (bind_ok _ _ _ _ _ Epo).
  destruct HkP as (Er&Em&Ei&Ev&El&Ell&_).
  assert (HGP : Gd L sP).
  { split_and!.
    - apply (Inv_same s1); [|done]. split_and!; try done. by rewrite Er.
    - by apply (Counts_same s1).
    - congruence. }
  assert (HzP : nozero sP) by (intros n; rewrite EsP, Er; apply Hz1).
  assert (HalP : levels_ok sP al).
  { intros l Hl. unfold nvars in Hl. rewrite Ev in Hl. destruct (Hal l Hl) as (X&?&HX).
    exists X. split; [done|]. intros n. by rewrite EsP. }
  change (foldM _ al names) with (foldM sift_body al names).
  destruct (foldM sift_body al names sP) as [rf sF] eqn:Ef.
  destruct (sift_fold L sP names sP al rf sF (Stp_refl L sP HGP) HzP HalP eq_refl (le_n _))
    as [->|[->|(alF&->&HSF&HzF&HalF&HdF&HleF)]]; [|exact Ef| | |].
  - intros p Hp. apply Hnames in Hp. apply elem_of_map in Hp as (v&->&Hv).
    rewrite SuccNat2Pos.id_succ. cbn. by rewrite Ev.
  - rewrite (bind_err _ _ _ _ _ Ef). intros [= <- <-]. by left.
  - rewrite (bind_err _ _ _ _ _ Ef). intros [= <- <-]. by right; left.
  - rewrite (bind_ok _ _ _ _ _ Ef). cbn [bind get]. unfold assert.
    assert (len sF ≤ len s1) as HleF1 by (unfold len in *; rewrite EsP in HleF; done).
    rewrite bool_decide_eq_true_2 by done. intros [= <- <-]. right. right.
    destruct HSF as (HGF&HnF&HkF&_). split_and!; try done.
    + rewrite HdF, Ev. by rewrite Hv1.
    + intros u Hu. destruct (Hk1 u Hu) as (V&V1&D1).
      destruct (HkF u Hu) as (VP&VF&DF). split_and!; try done.
      intros ρ. rewrite DF. rewrite <- D1. unfold denv. rewrite El.
      apply D_same; done.
    + lia.
Qed.
