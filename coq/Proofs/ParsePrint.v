(** * ParsePrint: printing a syntax tree (with minimal, or with redundant
      parentheses) and parsing the tokens gives the tree back — for every
      tree, unbounded, generic in the precedence table. *)
From stdpp Require Import strings pretty.
From DD Require Export ParserTablesOk.
Local Open Scope string_scope.

(** ** numerals *)
Lemma pretty_N_char_val d : (d < 10)%N →
  Z.of_nat (Ascii.nat_of_ascii (pretty_N_char d) - 48) = Z.of_N d.
Proof.
  intros Hd.
  assert (d = 0 ∨ d = 1 ∨ d = 2 ∨ d = 3 ∨ d = 4 ∨ d = 5 ∨ d = 6 ∨ d = 7 ∨ d = 8 ∨ d = 9)%N
    as H by lia.
  destruct_or!; subst; reflexivity.
Qed.

Lemma digits_val_pretty_go x s :
  digits_val (pretty_N_go x s) 0 = digits_val s (Z.of_N x).
Proof.
  revert s. induction (N.lt_wf_0 x) as [x _ IH]; intros s.
  assert (x = 0 ∨ 0 < x)%N as [->|Hx] by lia; [by rewrite pretty_N_go_0|].
  rewrite pretty_N_go_step by done. rewrite IH by (by apply N.div_lt).
  cbn [digits_val]. rewrite pretty_N_char_val by (by apply N.mod_lt).
  f_equal. pose proof (N.div_mod x 10). lia.
Qed.

Lemma digits_val_pretty (x : N) : digits_val (pretty x) 0 = Z.of_N x.
Proof.
  unfold pretty, pretty_N. case_decide as Hx; [by subst|].
  by rewrite digits_val_pretty_go.
Qed.

Section pp.
Context (P : prec_table).

Notation bpP := (bp P).

(** ** one step of the parser on each concrete head token *)
Lemma pe_name f minbp n rest :
  parse_expr P (S f) minbp (Tok "NAME" n :: rest) = parse_binary P f minbp (AVar n) rest.
Proof. reflexivity. Qed.
Lemma pe_true f minbp x rest :
  parse_expr P (S f) minbp (Tok "TRUE" x :: rest) = parse_binary P f minbp (ABool true) rest.
Proof. reflexivity. Qed.
Lemma pe_false f minbp x rest :
  parse_expr P (S f) minbp (Tok "FALSE" x :: rest) = parse_binary P f minbp (ABool false) rest.
Proof. reflexivity. Qed.
Lemma pe_num f minbp x n rest :
  parse_expr P (S f) minbp (Tok "AT" x :: Tok "NUMBER" n :: rest)
  = parse_binary P f minbp (ANum (digits_val n 0)) rest.
Proof. reflexivity. Qed.
Lemma pe_negnum f minbp x y n rest :
  parse_expr P (S f) minbp (Tok "AT" x :: Tok "MINUS" y :: Tok "NUMBER" n :: rest)
  = parse_binary P f minbp (ANum (- digits_val n 0)) rest.
Proof. reflexivity. Qed.
Lemma pe_not f minbp v rest e rest' :
  parse_expr P f (bpP "NOT") rest = Some (e, rest') →
  parse_expr P (S f) minbp (Tok "NOT" v :: rest) = parse_binary P f minbp (AOp1 v e) rest'.
Proof. intros H. simpl. rewrite H. reflexivity. Qed.
Lemma pe_paren f minbp x y rest e rest' :
  parse_expr P f 0 rest = Some (e, Tok "RPAREN" y :: rest') →
  parse_expr P (S f) minbp (Tok "LPAREN" x :: rest) = parse_binary P f minbp e rest'.
Proof. intros H. simpl. rewrite H. reflexivity. Qed.
Lemma pe_ite f minbp x y c1 c2 z r0 r1 r2 r3 a b c :
  parse_expr P f 0 r0 = Some (a, Tok "COMMA" c1 :: r1) →
  parse_expr P f 0 r1 = Some (b, Tok "COMMA" c2 :: r2) →
  parse_expr P f 0 r2 = Some (c, Tok "RPAREN" z :: r3) →
  parse_expr P (S f) minbp (Tok "ITE" x :: Tok "LPAREN" y :: r0)
  = parse_binary P f minbp (AIte a b c) r3.
Proof. intros H0 H1 H2. simpl. rewrite H0, H1, H2. reflexivity. Qed.
Lemma pe_exists f minbp v rest ns c rest1 e rest2 :
  parse_names (S (length rest)) rest = Some (ns, Tok "COLON" c :: rest1) →
  parse_expr P f (bpP "COLON") rest1 = Some (e, rest2) →
  parse_expr P (S f) minbp (Tok "EXISTS" v :: rest) = parse_binary P f minbp (AQuant v ns e) rest2.
Proof. intros H0 H1. simpl. simpl in H0. rewrite H0, H1. reflexivity. Qed.
Lemma pe_forall f minbp v rest ns c rest1 e rest2 :
  parse_names (S (length rest)) rest = Some (ns, Tok "COLON" c :: rest1) →
  parse_expr P f (bpP "COLON") rest1 = Some (e, rest2) →
  parse_expr P (S f) minbp (Tok "FORALL" v :: rest) = parse_binary P f minbp (AQuant v ns e) rest2.
Proof. intros H0 H1. simpl. simpl in H0. rewrite H0, H1. reflexivity. Qed.
Lemma pe_rename f minbp v rest ss c rest1 e rest2 :
  parse_subs (S (length rest)) rest = Some (ss, Tok "COLON" c :: rest1) →
  parse_expr P f (bpP "COLON") rest1 = Some (e, rest2) →
  parse_expr P (S f) minbp (Tok "RENAME" v :: rest) = parse_binary P f minbp (ASubst ss e) rest2.
Proof. intros H0 H1. simpl. simpl in H0. rewrite H0, H1. reflexivity. Qed.

Lemma pb_step f minbp lhs t v rest rhs rest' :
  t ∈ binary_types → minbp ≤ bpP t →
  parse_expr P f (S (bpP t)) rest = Some (rhs, rest') →
  parse_binary P (S f) minbp lhs (Tok t v :: rest)
  = parse_binary P f minbp (AOp2 v lhs rhs) rest'.
Proof.
  intros Ht Hm H. simpl. rewrite bool_decide_true by done.
  rewrite decide_False by lia. rewrite H. reflexivity.
Qed.

(** ** when the binary loop stops *)
Definition stops (k : nat) (ts : list token) : Prop :=
  match ts with
  | [] => True
  | t :: _ => ty t ∈ binary_types → bpP (ty t) < k
  end.

Lemma pb_stop f k lhs rest : stops k rest → parse_binary P (S f) k lhs rest = Some (lhs, rest).
Proof.
  destruct rest as [|[t v] rest]; simpl; [done|]. intros H.
  case_bool_decide; [|done]. rewrite decide_True; [done|]. by apply H.
Qed.
Lemma stops_mono k k' ts : stops k ts → k ≤ k' → stops k' ts.
Proof. destruct ts as [|t ts]; [done|]. simpl. intros H ? Ht. specialize (H Ht). lia. Qed.
Lemma stops_nonbin k t ts : bool_decide (ty t ∈ binary_types) = false → stops k (t :: ts).
Proof. intros H Ht. apply bool_decide_eq_false in H. done. Qed.

(** ** name lists *)
Fixpoint print_names (ns : list string) : list token :=
  match ns with
  | [] => []
  | n :: ns' =>
      match ns' with
      | [] => [Tok "NAME" n]
      | _ => Tok "NAME" n :: Tok "COMMA" "," :: print_names ns'
      end
  end.
Fixpoint print_subs (ss : list (string * string)) : list token :=
  match ss with
  | [] => []
  | (old, new) :: ss' =>
      match ss' with
      | [] => [Tok "NAME" new; Tok "DIV" "/"; Tok "NAME" old]
      | _ => Tok "NAME" new :: Tok "DIV" "/" :: Tok "NAME" old :: Tok "COMMA" ","
             :: print_subs ss'
      end
  end.

Lemma parse_names_print ns fuel c rest : ns ≠ [] → length ns ≤ fuel →
  parse_names fuel (print_names ns ++ Tok "COLON" c :: rest) = Some (ns, Tok "COLON" c :: rest).
Proof.
  revert fuel. induction ns as [|n ns IH]; intros fuel Hne Hf; [done|].
  destruct fuel as [|fuel]; [simpl in Hf; lia|].
  destruct ns as [|n' ns]; [reflexivity|].
  change (print_names (n :: n' :: ns)) with
    (Tok "NAME" n :: Tok "COMMA" "," :: print_names (n' :: ns)).
  simpl app. simpl parse_names at 1.
  rewrite IH; [done|done|simpl in *; lia].
Qed.
Lemma parse_subs_print ss fuel c rest : ss ≠ [] → length ss ≤ fuel →
  parse_subs fuel (print_subs ss ++ Tok "COLON" c :: rest) = Some (ss, Tok "COLON" c :: rest).
Proof.
  revert fuel. induction ss as [|[o n] ss IH]; intros fuel Hne Hf; [done|].
  destruct fuel as [|fuel]; [simpl in Hf; lia|].
  destruct ss as [|[o' n'] ss]; [reflexivity|].
  change (print_subs ((o, n) :: (o', n') :: ss)) with
    (Tok "NAME" n :: Tok "DIV" "/" :: Tok "NAME" o :: Tok "COMMA" ","
       :: print_subs ((o', n') :: ss)).
  simpl app. simpl parse_subs at 1.
  rewrite IH; [done|done|simpl in *; lia].
Qed.
Lemma print_names_length ns : length ns ≤ length (print_names ns).
Proof.
  induction ns as [|n ns IH]; [done|]. destruct ns as [|n' ns]; [done|].
  change (print_names (n :: n' :: ns)) with
    (Tok "NAME" n :: Tok "COMMA" "," :: print_names (n' :: ns)).
  simpl in *. lia.
Qed.
Lemma print_subs_length ss : length ss ≤ length (print_subs ss).
Proof.
  induction ss as [|[o n] ss IH]; [done|]. destruct ss as [|[o' n'] ss]; [simpl; lia|].
  change (print_subs ((o, n) :: (o', n') :: ss)) with
    (Tok "NAME" n :: Tok "DIV" "/" :: Tok "NAME" o :: Tok "COMMA" ","
       :: print_subs ((o', n') :: ss)).
  simpl in *. lia.
Qed.

(** ** the printer, generic in the type of an operator value [tyof] and in
      the parenthesisation policy [par k a]: "parenthesise the tree [a] in a
      position that requires printing level [k]". *)
Context (tyof : string → string) (par : nat → ast → bool).

(** printing level: binders lowest, then the binary levels of the table,
    atoms / negations / [ite(...)] on top *)
Definition plev (a : ast) : nat :=
  match a with
  | AOp2 v _ _ => S (bpP (tyof v))
  | AQuant _ _ _ | ASubst _ _ => 0
  | _ => S (bpP "NOT")
  end.

Definition wrap (b : bool) (ts : list token) : list token :=
  if b then Tok "LPAREN" "(" :: ts ++ [Tok "RPAREN" ")"] else ts.

Definition print_num (z : Z) : list token :=
  if decide (z < 0)%Z
  then [Tok "AT" "@"; Tok "MINUS" "-"; Tok "NUMBER" (pretty (Z.to_N (- z)))]
  else [Tok "AT" "@"; Tok "NUMBER" (pretty (Z.to_N z))].

Fixpoint pr (a : ast) : list token :=
  match a with
  | ABool b => [if b then Tok "TRUE" "TRUE" else Tok "FALSE" "FALSE"]
  | AVar n => [Tok "NAME" n]
  | ANum z => print_num z
  | AOp1 v a => Tok "NOT" v :: wrap (par (S (bpP "NOT")) a) (pr a)
  | AOp2 v a b =>
      wrap (par (S (bpP (tyof v))) a) (pr a) ++
      Tok (tyof v) v :: wrap (par (S (S (bpP (tyof v)))) b) (pr b)
  | AIte a b c =>
      Tok "ITE" "ite" :: Tok "LPAREN" "(" :: wrap (par 0 a) (pr a) ++
      Tok "COMMA" "," :: wrap (par 0 b) (pr b) ++
      Tok "COMMA" "," :: wrap (par 0 c) (pr c) ++ [Tok "RPAREN" ")"]
  | AQuant v ns a =>
      Tok (tyof v) v :: print_names ns ++ Tok "COLON" ":" :: wrap (par 0 a) (pr a)
  | ASubst ss a =>
      Tok "RENAME" "\S" :: print_subs ss ++ Tok "COLON" ":" :: wrap (par 0 a) (pr a)
  end.

Definition print_gen (a : ast) : list token := wrap (par 0 a) (pr a).

(** trees the printer is meant for *)
Fixpoint wf_ast (a : ast) : Prop :=
  match a with
  | ABool _ | AVar _ | ANum _ => True
  | AOp1 _ a => wf_ast a
  | AOp2 v a b => tyof v ∈ binary_types ∧ wf_ast a ∧ wf_ast b
  | AIte a b c => wf_ast a ∧ wf_ast b ∧ wf_ast c
  | AQuant v ns a => (tyof v = "EXISTS" ∨ tyof v = "FORALL") ∧ ns ≠ [] ∧ wf_ast a
  | ASubst ss a => ss ≠ [] ∧ wf_ast a
  end.

(** the precedence table: the binder colon below, negation above every
    binary operator *)
Definition wf_prec : Prop :=
  ∀ t, t ∈ binary_types → bpP "COLON" ≤ bpP t ∧ bpP t < bpP "NOT".

(** a policy may leave out parentheses only where the level allows *)
Definition par_ok : Prop :=
  ∀ k a, k ≤ S (bpP "NOT") → par k a = false → k ≤ plev a.

(** fuel the parser needs *)
Fixpoint cost (a : ast) : nat :=
  match a with
  | ABool _ | AVar _ | ANum _ => 1
  | AOp1 _ a => (if par (S (bpP "NOT")) a then 2 else 0) + cost a + 2
  | AOp2 v a b =>
      ((if par (S (bpP (tyof v))) a then 2 else 0) + cost a) +
      ((if par (S (S (bpP (tyof v)))) b then 2 else 0) + cost b) + 2
  | AIte a b c =>
      ((if par 0 a then 2 else 0) + cost a) + ((if par 0 b then 2 else 0) + cost b) +
      ((if par 0 c then 2 else 0) + cost c) + 2
  | AQuant _ _ a | ASubst _ a => (if par 0 a then 2 else 0) + cost a + 2
  end.
Definition wcost (k : nat) (a : ast) : nat := (if par k a then 2 else 0) + cost a.

Definition PrSpec (a : ast) : Prop :=
  ∀ minbp rest r F,
    (plev a = 0 ∨ minbp < plev a) → stops (plev a) rest →
    (∀ f, F ≤ f → parse_binary P f minbp a rest = Some r) →
    ∀ f, cost a + F ≤ f → parse_expr P f minbp (pr a ++ rest) = Some r.

Definition WrapSpec (a : ast) : Prop :=
  ∀ k minbp rest r F,
    (par k a = false → (plev a = 0 ∨ minbp < plev a) ∧ stops (plev a) rest) →
    (∀ f, F ≤ f → parse_binary P f minbp a rest = Some r) →
    ∀ f, wcost k a + F ≤ f →
      parse_expr P f minbp (wrap (par k a) (pr a) ++ rest) = Some r.

Lemma wrap_of_pr a : PrSpec a → WrapSpec a.
Proof.
  intros HP k minbp rest r F Hside Hr f Hf. unfold wcost in Hf.
  destruct (par k a) eqn:Hpar; cycle 1.
  { destruct Hside as [H1 H2]; [done|]. apply (HP minbp rest r F); [done|done|done|simpl in Hf; lia]. }
  unfold wrap. destruct f as [|f]; [lia|].
  rewrite <- app_comm_cons, <- app_assoc. simpl app.
  rewrite (pe_paren f minbp "(" ")" _ a rest).
  - apply Hr. lia.
  - apply (HP 0 (Tok "RPAREN" ")" :: rest) (a, Tok "RPAREN" ")" :: rest) 1).
    + destruct (plev a); [by left|right; lia].
    + by apply stops_nonbin.
    + intros f' Hf'. destruct f' as [|f']; [lia|]. apply pb_stop. by apply stops_nonbin.
    + lia.
Qed.

Lemma plev_colon a : wf_prec → wf_ast a → plev a = 0 ∨ bpP "COLON" < plev a.
Proof.
  intros HP Hwf.
  assert (bpP "COLON" < S (bpP "NOT")) as Hc.
  { destruct (HP "AND") as [? ?]; [unfold binary_types; set_solver|]. lia. }
  destruct a; simpl; try (by right); try (by left).
  destruct Hwf as (Ht&_). destruct (HP _ Ht). right. lia.
Qed.

Lemma pr_spec a : wf_prec → par_ok → wf_ast a → PrSpec a.
Proof.
  intros HP Hpar. induction a as [b|n|z|v a IH|v a1 IH1 a2 IH2|a IHa b IHb c IHc|v ns a IH|ss a IH];
    intros Hwf minbp rest r F Hmin Hstop Hr f Hf; simpl in Hf.
  - (* ABool *)
    destruct f as [|f]; [lia|]. destruct b; simpl pr; simpl app.
    + rewrite pe_true. apply Hr. lia.
    + rewrite pe_false. apply Hr. lia.
  - destruct f as [|f]; [lia|]. simpl pr; simpl app. rewrite pe_name. apply Hr. lia.
  - destruct f as [|f]; [lia|]. simpl pr. unfold print_num.
    destruct (decide (z < 0)%Z); simpl app.
    + rewrite pe_negnum, digits_val_pretty.
      replace (- Z.of_N (Z.to_N (- z)))%Z with z by lia. apply Hr. lia.
    + rewrite pe_num, digits_val_pretty.
      replace (Z.of_N (Z.to_N z))%Z with z by lia. apply Hr. lia.
  - (* AOp1 *)
    simpl in Hwf. specialize (IH Hwf). apply wrap_of_pr in IH.
    destruct f as [|f]; [lia|]. simpl pr. rewrite <- app_comm_cons.
    assert (Hst : stops (bpP "NOT") rest).
    { destruct rest as [|t rest]; [done|]. intros Ht. by destruct (HP _ Ht). }
    rewrite (pe_not f minbp v _ a rest).
    + apply Hr. lia.
    + apply (IH (S (bpP "NOT")) (bpP "NOT") rest (a, rest) 1).
      * intros Hp. apply Hpar in Hp; [|lia]. split; [right; lia|].
        apply (stops_mono (bpP "NOT")); [done|lia].
      * intros f' Hf'. destruct f' as [|f']; [lia|]. by apply pb_stop.
      * unfold wcost. lia.
  - (* AOp2 *)
    simpl in Hwf. destruct Hwf as (Ht&Hw1&Hw2).
    specialize (IH1 Hw1). specialize (IH2 Hw2).
    apply wrap_of_pr in IH1. apply wrap_of_pr in IH2.
    simpl plev in Hmin, Hstop. set (t := tyof v) in *. set (L := bpP t) in *.
    destruct (HP _ Ht) as [HcL HLn]. fold L in HcL, HLn.
    simpl pr. fold t. fold L. rewrite <- app_assoc, <- app_comm_cons.
    apply (IH1 (S L) minbp _ r (S (wcost (S (S L)) a2 + 1 + F))).
    + intros Hp. apply Hpar in Hp; [|lia]. split; [right; lia|].
      intros _. simpl. fold L. lia.
    + intros f1 Hf1. destruct f1 as [|f1]; [lia|].
      rewrite (pb_step f1 minbp a1 t v _ a2 rest); [|done|fold L; lia|].
      * apply Hr. lia.
      * fold L. apply (IH2 (S (S L)) (S L) rest (a2, rest) 1).
        -- intros Hp. apply Hpar in Hp; [|lia]. split; [right; lia|].
           apply (stops_mono (S L)); [done|lia].
        -- intros f' Hf'. destruct f' as [|f']; [lia|]. by apply pb_stop.
        -- lia.
    + unfold wcost in *. lia.
  - (* AIte *)
    simpl in Hwf. destruct Hwf as (Hwa&Hwb&Hwc).
    specialize (IHa Hwa). specialize (IHb Hwb). specialize (IHc Hwc).
    apply wrap_of_pr in IHa. apply wrap_of_pr in IHb. apply wrap_of_pr in IHc.
    destruct f as [|f]; [lia|]. simpl pr.
    rewrite <- !app_comm_cons. rewrite <- !app_assoc. rewrite <- !app_comm_cons.
    rewrite <- !app_assoc. rewrite <- !app_comm_cons. rewrite <- !app_assoc. simpl app.
    assert (Hgen : ∀ x tk rest', bool_decide (ty tk ∈ binary_types) = false →
              WrapSpec x → wcost 0 x + 1 ≤ f →
              parse_expr P f 0 (wrap (par 0 x) (pr x) ++ tk :: rest') = Some (x, tk :: rest')).
    { intros x tk rest' Htk Hx Hfx. apply (Hx 0 0 (tk :: rest') (x, tk :: rest') 1).
      - intros _. split; [destruct (plev x); [by left|right; lia]|]. by apply stops_nonbin.
      - intros f' Hf'. destruct f' as [|f']; [lia|]. apply pb_stop. by apply stops_nonbin.
      - done. }
    rewrite (pe_ite f minbp "ite" "(" "," "," ")" _
      (wrap (par 0 b) (pr b) ++ Tok "COMMA" "," :: wrap (par 0 c) (pr c) ++ Tok "RPAREN" ")" :: rest)
      (wrap (par 0 c) (pr c) ++ Tok "RPAREN" ")" :: rest) rest a b c).
    + apply Hr. lia.
    + apply Hgen; [done|done|unfold wcost; lia].
    + apply Hgen; [done|done|unfold wcost; lia].
    + apply Hgen; [done|done|unfold wcost; lia].
  - (* AQuant *)
    simpl in Hwf. destruct Hwf as (Ht&Hns&Hwa).
    specialize (IH Hwa). apply wrap_of_pr in IH.
    simpl plev in Hstop.
    destruct f as [|f]; [lia|]. simpl pr.
    rewrite <- !app_comm_cons. rewrite <- !app_assoc. rewrite <- !app_comm_cons.
    assert (Hbody : parse_expr P f (bpP "COLON") (wrap (par 0 a) (pr a) ++ rest) = Some (a, rest)).
    { apply (IH 0 (bpP "COLON") rest (a, rest) 1).
      - intros _. split; [by apply plev_colon|]. apply (stops_mono 0); [done|lia].
      - intros f' Hf'. destruct f' as [|f']; [lia|]. apply pb_stop.
        apply (stops_mono 0); [done|lia].
      - unfold wcost. lia. }
    assert (Hnames : ∀ rest0 : list token, rest0 = (print_names ns ++ Tok "COLON" ":" :: wrap (par 0 a) (pr a) ++ rest)%list →
              parse_names (S (length rest0)) rest0
              = Some (ns, Tok "COLON" ":" :: wrap (par 0 a) (pr a) ++ rest)).
    { intros rest0 ->. apply parse_names_print; [done|].
      rewrite app_length. pose proof (print_names_length ns). lia. }
    destruct Ht as [-> | ->].
    + rewrite (pe_exists f minbp v _ ns ":" _ a rest (Hnames _ eq_refl) Hbody). apply Hr. lia.
    + rewrite (pe_forall f minbp v _ ns ":" _ a rest (Hnames _ eq_refl) Hbody). apply Hr. lia.
  - (* ASubst *)
    simpl in Hwf. destruct Hwf as (Hss&Hwa).
    specialize (IH Hwa). apply wrap_of_pr in IH.
    simpl plev in Hstop.
    destruct f as [|f]; [lia|]. simpl pr.
    rewrite <- !app_comm_cons. rewrite <- !app_assoc. rewrite <- !app_comm_cons.
    assert (Hbody : parse_expr P f (bpP "COLON") (wrap (par 0 a) (pr a) ++ rest) = Some (a, rest)).
    { apply (IH 0 (bpP "COLON") rest (a, rest) 1).
      - intros _. split; [by apply plev_colon|]. apply (stops_mono 0); [done|lia].
      - intros f' Hf'. destruct f' as [|f']; [lia|]. apply pb_stop.
        apply (stops_mono 0); [done|lia].
      - unfold wcost. lia. }
    assert (Hsubs : ∀ rest0 : list token, rest0 = (print_subs ss ++ Tok "COLON" ":" :: wrap (par 0 a) (pr a) ++ rest)%list →
              parse_subs (S (length rest0)) rest0
              = Some (ss, Tok "COLON" ":" :: wrap (par 0 a) (pr a) ++ rest)).
    { intros rest0 ->. apply parse_subs_print; [done|].
      rewrite app_length. pose proof (print_subs_length ss). lia. }
    rewrite (pe_rename f minbp _ _ ss ":" _ a rest (Hsubs _ eq_refl) Hbody). apply Hr. lia.
Qed.

Lemma wrap_length b ts : length (wrap b ts) = (if b then 2 else 0) + length ts.
Proof. destruct b; simpl; [|done]. rewrite app_length. simpl. lia. Qed.

Lemma cost_le a : cost a ≤ 2 * length (pr a).
Proof.
  induction a as [b|n|z|v a IH|v a1 IH1 a2 IH2|a IHa b IHb c IHc|v ns a IH|ss a IH];
    simpl cost; simpl pr; try (simpl; lia).
  - unfold print_num. destruct (decide _); simpl; lia.
  - simpl length. rewrite wrap_length. destruct (par _ a); lia.
  - rewrite app_length. simpl length. rewrite !wrap_length.
    destruct (par _ a1), (par _ a2); lia.
  - simpl length. rewrite !app_length. simpl length. rewrite !app_length. simpl length.
    rewrite !app_length. simpl length. rewrite !wrap_length.
    destruct (par 0 a), (par 0 b), (par 0 c); lia.
  - simpl length. rewrite !app_length. simpl length. rewrite !wrap_length.
    destruct (par 0 a); lia.
  - simpl length. rewrite !app_length. simpl length. rewrite !wrap_length.
    destruct (par 0 a); lia.
Qed.

(** the parser's own fuel [S (2 * length ts)] suffices *)
Theorem parse_print_gen a :
  wf_prec → par_ok → wf_ast a → parse P (print_gen a) = Some a.
Proof.
  intros HP Hpar Hwf. unfold parse, print_gen.
  pose proof (wrap_of_pr a (pr_spec a HP Hpar Hwf)) as HW.
  specialize (HW 0 0 [] (a, []) 1).
  rewrite app_nil_r in HW. rewrite HW; [done| | |].
  - intros _. split; [destruct (plev a); [by left|right; lia]|done].
  - intros f Hf. destruct f as [|f]; [lia|]. by apply pb_stop.
  - unfold wcost. rewrite wrap_length. pose proof (cost_le a). destruct (par 0 a); lia.
Qed.

End pp.

(** ** the two printers *)

(** minimal parentheses: a child is parenthesised iff its level is below
    the level its position requires (left operand of a binary operator: the
    operator's level; right operand: one more, i.e. left associativity;
    operand of a negation: above every binary operator; bodies of binders,
    arguments of [ite(...)]: never; a binder in operand position: always) *)
Definition par_min (P : prec_table) (tyof : string → string) (k : nat) (a : ast) : bool :=
  bool_decide (plev P tyof a < k).
(** redundant parentheses: every compound tree *)
Definition par_full (k : nat) (a : ast) : bool :=
  match a with
  | AOp1 _ _ | AOp2 _ _ _ | AQuant _ _ _ | ASubst _ _ => true
  | _ => false
  end.

Definition print_ast (P : prec_table) (tyof : string → string) : ast → list token :=
  print_gen P tyof (par_min P tyof).
Definition print_full (P : prec_table) (tyof : string → string) : ast → list token :=
  print_gen P tyof par_full.

Theorem parse_print P tyof a :
  wf_prec P → wf_ast tyof a → parse P (print_ast P tyof a) = Some a.
Proof.
  intros HP Hwf. apply parse_print_gen; [done| |done].
  intros k x _ Hp. unfold par_min in Hp. apply bool_decide_eq_false in Hp. lia.
Qed.

Theorem parse_print_full P tyof a :
  wf_prec P → wf_ast tyof a → parse P (print_full P tyof a) = Some a.
Proof.
  intros HP Hwf. apply parse_print_gen; [done| |done].
  intros k x Hk Hp. destruct x; simpl in *; try done.
Qed.

(** ** instantiation at the tables of dd/_parser.py *)

(** type of an operator value, read off the lexer table *)
Definition code_tyof (v : string) : string :=
  default "" ((fun e => e.2.2.1) <$> list_find (fun e => bool_decide (e.2.2 = v)) lex_alias).

Definition wf_precb (P : prec_table) : bool :=
  forallb (fun t => bool_decide (bp P "COLON" ≤ bp P t ∧ bp P t < bp P "NOT")) binary_types.
Lemma wf_precb_ok P : wf_precb P = true → wf_prec P.
Proof.
  intros H t Ht. unfold wf_precb in H. rewrite forallb_forall in H.
  apply elem_of_list_In in Ht. apply H in Ht. by apply bool_decide_eq_true in Ht.
Qed.

Lemma code_prec_wf : wf_prec code_prec.
Proof. apply wf_precb_ok. by vm_compute. Qed.

(** the operator values of well-formed trees are the canonical values of
    the lexer *)
Lemma code_tyof_values :
  (fun v => (v, code_tyof v)) <$> ["&"; "|"; "#"; "^"; "=>"; "<->"; "="; "-"; "!"; "\A"; "\E"] =
  [("&", "AND"); ("|", "OR"); ("#", "XOR"); ("^", "XOR"); ("=>", "IMPLIES");
   ("<->", "EQUIV"); ("=", "EQUALS"); ("-", "MINUS"); ("!", "NOT");
   ("\A", "FORALL"); ("\E", "EXISTS")].
Proof. by vm_compute. Qed.

Theorem parse_print_code a :
  wf_ast code_tyof a → parse code_prec (print_ast code_prec code_tyof a) = Some a.
Proof. apply parse_print, code_prec_wf. Qed.

Theorem parse_print_full_code a :
  wf_ast code_tyof a → parse code_prec (print_full code_prec code_tyof a) = Some a.
Proof. apply parse_print_full, code_prec_wf. Qed.
