(** * Sift10: [reorder(order)] through the reference-counting wrapper
      (autoref): the invariant and every live [Function] survive *)
From DD Require Export Sift9 AutorefInv.

Lemma lift_keeps_held {A} (m : MS A) o a r a' :
  AInv a → lift m a = (r, a') → keeps_held (mgr a) (hledger a) (mgr a') →
  AInv a' ∧ AKeep o a a' ∧ next_hid a' = next_hid a.
Proof.
  intros (HI&Hl&HC&Hv&Hf). unfold lift. destruct (m (mgr a)) as [r0 s'] eqn:E.
  intros [= <- <-]. cbn [mgr set]. intros (HI'&Hl'&HC'&Hk).
  assert (Hk' : ∀ h u, handles a !! h = Some u →
            valid s' u ∧ ∀ ρ, denv s' u ρ = denv (mgr a) u ρ).
  { intros h u Hu. destruct (Hv h u Hu) as [Hu0 Hus]. apply Hk; [done|].
    by apply (hl_pos _ h). }
  split; [|split; [|done]].
  - split; [done|]. split; [done|]. split; [done|]. split; [|done].
    intros h u Hu. by apply (Hk' h).
  - intros h u Hu. left. destruct (Hk' h u Hu) as [? ?]. done.
Qed.

(** unconditional when the oracle tape is empty (as between two operations
    of the driver); otherwise up to the oracle error of the model *)
Theorem run_aop_reorder_correct w order a r a' :
  AInv a → run_aop w (AReorder order) a = (r, a') →
  r = Err EOracle ∨ (AInv a' ∧ AKeep (AReorder order) a a').
Proof.
  intros HA H. cbn [run_aop] in H.
  set (o := (λ l : list (nat * nat), list_to_map (reverse l)) <$> order) in *.
  unfold bind at 1 in H.
  destruct (lift (reorder_pub o) a) as [r0 a0] eqn:E.
  pose proof HA as (HI&Hl&HC&_).
  assert (Hcase : r0 = Err EOracle ∨ keeps_held (mgr a) (hledger a) (mgr a0)).
  { revert E. unfold lift. destruct (reorder_pub o (mgr a)) as [r1 s1] eqn:E1.
    intros [= <- <-]. cbn [mgr set].
    apply (reorder_pub_keeps_held o (mgr a) (hledger a) r1 s1 HI Hl HC E1). }
  destruct Hcase as [->|Hk].
  { injection H as <- <-. by left. }
  destruct (lift_keeps_held _ (AReorder order) a r0 a0 HA E Hk) as (?&?&_).
  right. destruct r0; injection H as <- <-; done.
Qed.

Corollary run_aop_reorder_notape w order a r a' :
  AInv a → tape (mgr a) = [] → run_aop w (AReorder order) a = (r, a') →
  AInv a' ∧ AKeep (AReorder order) a a'.
Proof.
  intros HA Ht H.
  destruct (run_aop_reorder_correct w order a r a' HA H) as [->|?]; [exfalso|done].
  cbn [run_aop] in H.
  set (o := (λ l : list (nat * nat), list_to_map (reverse l)) <$> order) in *.
  unfold bind at 1 in H. destruct (lift (reorder_pub o) a) as [r0 a0] eqn:E.
  revert E. unfold lift. destruct (reorder_pub o (mgr a)) as [r1 s1] eqn:E1.
  intros [= <- <-]. destruct (nt_reorder_pub o (mgr a) r1 s1 Ht E1) as [_ Hne].
  destruct r1; [done|]. injection H as H _. congruence.
Qed.
