(** * Sift7: with an empty oracle tape (the state between two operations of
      the driver) the reordering functions never raise [EOracle] and leave
      the tape empty (a syntactic pass, for every outcome) *)
From DD Require Export Sift6.

Definition nt {A} (m : MS A) : Prop :=
  ∀ s r s', tape s = [] → m s = (r, s') → tape s' = [] ∧ r ≠ Err EOracle.

Lemma nt_ret {A} (a : A) : nt (ret a).
Proof. by intros s r s' Ht [= <- <-]. Qed.
Lemma nt_raise {A} e : e ≠ EOracle → nt (raise e : MS A).
Proof. intros He s r s' Ht [= <- <-]. split; [done|congruence]. Qed.
Lemma nt_get : nt (get : MS st).
Proof. by intros s r s' Ht [= <- <-]. Qed.
Lemma nt_modify f : (∀ s, tape (f s) = tape s) → nt (modify f).
Proof. intros Hf s r s' Ht [= <- <-]. by rewrite Hf. Qed.
Lemma nt_bind {A B} (m : MS A) (f : A → MS B) :
  nt m → (∀ a, nt (f a)) → nt (bind m f).
Proof.
  intros Hm Hf s r s' Ht. unfold bind. destruct (m s) as [[a|e] s1] eqn:E.
  - destruct (Hm s _ s1 Ht E) as [Ht1 _]. apply (Hf a _ _ _ Ht1).
  - intros [= <- <-]. destruct (Hm s _ s1 Ht E) as [? Hne]. split; [done|].
    intros [= ->]. by apply Hne.
Qed.
Lemma nt_assert b : nt (assert b).
Proof. unfold assert. destruct b; [apply nt_ret|by apply nt_raise]. Qed.
Lemma nt_ensure e b : e ≠ EOracle → nt (ensure e b).
Proof. intros. unfold ensure. destruct b; [apply nt_ret|by apply nt_raise]. Qed.
Lemma nt_of_opt {A} e (o : option A) : e ≠ EOracle → nt (of_opt e o).
Proof. intros. destruct o; [apply nt_ret|by apply nt_raise]. Qed.
Lemma nt_foldM {A B} (f : B → A → MS B) l b : (∀ b a, nt (f b a)) → nt (foldM f b l).
Proof.
  intros Hf. revert b. induction l as [|a l IH]; intros b; [apply nt_ret|].
  cbn [foldM]. apply nt_bind; [apply Hf|]. intros b'. apply IH.
Qed.
Lemma nt_mapM {A B} (f : A → MS B) l : (∀ a, nt (f a)) → nt (mapM f l).
Proof.
  intros Hf. induction l as [|a l IH]; [apply nt_ret|].
  cbn [mapM]. apply nt_bind; [apply Hf|]. intros b.
  apply nt_bind; [apply IH|]. intros bs. apply nt_ret.
Qed.
Lemma nt_forM {A} (f : A → MS unit) l : (∀ a, nt (f a)) → nt (forM l f).
Proof.
  intros Hf. induction l as [|a l IH]; [apply nt_ret|].
  cbn [forM]. apply nt_bind; [apply Hf|]. intros _. apply IH.
Qed.
Lemma nt_getsucc n : nt (getsucc n).
Proof. intros s r s' Ht. unfold getsucc. destruct (succ s !! n); by intros [= <- <-]. Qed.
Lemma nt_getref n : nt (getref n).
Proof. intros s r s' Ht. unfold getref. destruct (refc s !! n); by intros [= <- <-]. Qed.
Lemma nt_rr : nt request_reordering.
Proof.
  intros s r s' Ht. unfold request_reordering.
  destruct (last_len s); [|by intros [= <- <-]].
  destruct (trig s) as [[|[|k]]|]; try case_decide; by intros [= <- <-].
Qed.
Lemma nt_pop_order X : nt (pop_order X).
Proof. intros s r s' Ht. unfold pop_order. cbn [bind get]. rewrite Ht. by intros [= <- <-]. Qed.

Ltac nt1 :=
  first
    [ apply nt_ret | (apply nt_raise; discriminate) | apply nt_get | apply nt_assert
    | (apply nt_ensure; discriminate) | (apply nt_of_opt; discriminate)
    | apply nt_getsucc | apply nt_getref | apply nt_rr | apply nt_pop_order
    | (apply nt_modify; intros; reflexivity)
    | (apply nt_bind; [|intros ?])
    | (apply nt_foldM; intros ? ?)
    | (apply nt_mapM; intros ?)
    | (apply nt_forM; intros ?)
    | case_decide | case_match ].

Lemma nt_getsuccZ u : nt (getsuccZ u).
Proof. unfold getsuccZ. repeat nt1. Qed.
Lemma nt_level_of u : nt (level_of u).
Proof. unfold level_of. repeat first [apply nt_getsuccZ | nt1]. Qed.
Lemma nt_incref u : nt (incref u).
Proof. unfold incref. repeat nt1. Qed.
Lemma nt_decref u : nt (decref u).
Proof. unfold decref. repeat nt1. Qed.
Lemma nt_ref u : nt (ref u).
Proof. unfold ref. repeat nt1. Qed.
Lemma nt_find_or_add i v w : nt (find_or_add i v w).
Proof. unfold find_or_add. repeat first [apply nt_incref | nt1]. Qed.
Ltac nt2 :=
  first [ apply nt_getsuccZ | apply nt_level_of | apply nt_incref | apply nt_decref
        | apply nt_ref | apply nt_find_or_add | nt1 ].
Lemma nt_levels : nt levels_.
Proof. unfold levels_. repeat nt2. Qed.
Lemma nt_low_high u : nt (low_high u).
Proof. unfold low_high. repeat nt2. Qed.
Lemma nt_swap_cofactor u y : nt (swap_cofactor u y).
Proof. unfold swap_cofactor. repeat nt2. Qed.
Lemma nt_set_node u t : nt (set_node u t).
Proof. unfold set_node. repeat nt2. Qed.
Ltac nt3 :=
  first [ apply nt_low_high | apply nt_swap_cofactor | apply nt_set_node | nt2 ].
Lemma nt_swap_collect j o : nt (swap_collect j o).
Proof. unfold swap_collect. repeat nt3. Qed.
Lemma nt_swap_up x y l : nt (swap_up x y l).
Proof. unfold swap_up. repeat nt3. Qed.
Lemma nt_swap_indep x y l : nt (swap_indep x y l).
Proof. unfold swap_indep. repeat nt3. Qed.
Lemma nt_swap_dep x y d l : nt (swap_dep x y d l).
Proof. unfold swap_dep. repeat nt3. Qed.
Lemma nt_var_at_level l : nt (var_at_level l).
Proof. unfold var_at_level. repeat nt3. Qed.
Lemma nt_level_of_var v : nt (level_of_var v).
Proof. unfold level_of_var. repeat nt3. Qed.
Lemma nt_gc_loop fuel : ∀ U, nt (gc_loop fuel U).
Proof.
  induction fuel as [|f IH]; intros U; cbn [gc_loop]; [by apply nt_raise|].
  destruct (elements U) as [|u l]; [apply nt_ret|].
  repeat nt3; apply IH.
Qed.
Lemma nt_collect_garbage roots : nt (collect_garbage roots).
Proof. unfold collect_garbage. repeat first [apply nt_gc_loop | nt3]. Qed.
Lemma nt_child_level v : nt (child_level v).
Proof. unfold child_level. repeat nt3. Qed.
Lemma nt_dep_count y X : nt (dep_count y X).
Proof. unfold dep_count. repeat first [apply nt_child_level | nt3]. Qed.
Ltac nt4 :=
  first [ apply nt_dep_count | apply nt_levels | apply nt_swap_collect | apply nt_swap_up | apply nt_swap_indep
        | apply nt_swap_dep | apply nt_var_at_level | apply nt_level_of_var
        | apply nt_collect_garbage | nt1 ].
Lemma nt_swap x y al : nt (swap x y al).
Proof. unfold swap. repeat nt4. Qed.
Lemma nt_shift_loop n : ∀ i d al sz, nt (shift_loop n i d al sz).
Proof.
  induction n as [|n IH]; intros i d al sz; cbn [shift_loop]; [apply nt_ret|].
  apply nt_bind; [apply nt_swap|]. intros [[o nn] al']. apply IH.
Qed.
Lemma nt_shift a e al : nt (shift a e al).
Proof. unfold shift. repeat first [apply nt_shift_loop | nt4]. Qed.
Ltac nt5 := first [ apply nt_swap | apply nt_shift | nt4 ].
Lemma nt_reorder_var v al : nt (reorder_var v al).
Proof. unfold reorder_var. repeat nt5. Qed.
Lemma nt_apply_sifting : nt apply_sifting.
Proof. unfold apply_sifting. repeat first [apply nt_reorder_var | nt5]. Qed.
Lemma nt_sort_to_order o : nt (sort_to_order o).
Proof. unfold sort_to_order. repeat nt5. Qed.
Lemma nt_reorder_to_pairs p : nt (reorder_to_pairs p).
Proof. unfold reorder_to_pairs. repeat nt5. Qed.
Lemma nt_reorder o : nt (reorder o).
Proof. destruct o; [apply nt_sort_to_order|apply nt_apply_sifting]. Qed.

(** ** with an unbounded table ([max_nodes = None]) the reordering functions
    never raise the full-table error and leave [max_nodes] alone *)
Definition nft {A} (m : MS A) : Prop :=
  ∀ s r s', max_nodes s = None → m s = (r, s') → max_nodes s' = None ∧ r ≠ Err ERuntime.

Lemma nft_ret {A} (a : A) : nft (ret a).
Proof. by intros s r s' Ht [= <- <-]. Qed.
Lemma nft_raise {A} e : e ≠ ERuntime → nft (raise e : MS A).
Proof. intros He s r s' Ht [= <- <-]. split; [done|congruence]. Qed.
Lemma nft_get : nft (get : MS st).
Proof. by intros s r s' Ht [= <- <-]. Qed.
Lemma nft_modify f : (∀ s, max_nodes (f s) = max_nodes s) → nft (modify f).
Proof. intros Hf s r s' Ht [= <- <-]. by rewrite Hf. Qed.
Lemma nft_bind {A B} (m : MS A) (f : A → MS B) :
  nft m → (∀ a, nft (f a)) → nft (bind m f).
Proof.
  intros Hm Hf s r s' Ht. unfold bind. destruct (m s) as [[a|e] s1] eqn:E.
  - destruct (Hm s _ s1 Ht E) as [Ht1 _]. apply (Hf a _ _ _ Ht1).
  - intros [= <- <-]. destruct (Hm s _ s1 Ht E) as [? Hne]. split; [done|].
    intros [= ->]. by apply Hne.
Qed.
Lemma nft_assert b : nft (assert b).
Proof. unfold assert. destruct b; [apply nft_ret|by apply nft_raise]. Qed.
Lemma nft_ensure e b : e ≠ ERuntime → nft (ensure e b).
Proof. intros. unfold ensure. destruct b; [apply nft_ret|by apply nft_raise]. Qed.
Lemma nft_of_opt {A} e (o : option A) : e ≠ ERuntime → nft (of_opt e o).
Proof. intros. destruct o; [apply nft_ret|by apply nft_raise]. Qed.
Lemma nft_foldM {A B} (f : B → A → MS B) l b : (∀ b a, nft (f b a)) → nft (foldM f b l).
Proof.
  intros Hf. revert b. induction l as [|a l IH]; intros b; [apply nft_ret|].
  cbn [foldM]. apply nft_bind; [apply Hf|]. intros b'. apply IH.
Qed.
Lemma nft_mapM {A B} (f : A → MS B) l : (∀ a, nft (f a)) → nft (mapM f l).
Proof.
  intros Hf. induction l as [|a l IH]; [apply nft_ret|].
  cbn [mapM]. apply nft_bind; [apply Hf|]. intros b.
  apply nft_bind; [apply IH|]. intros bs. apply nft_ret.
Qed.
Lemma nft_forM {A} (f : A → MS unit) l : (∀ a, nft (f a)) → nft (forM l f).
Proof.
  intros Hf. induction l as [|a l IH]; [apply nft_ret|].
  cbn [forM]. apply nft_bind; [apply Hf|]. intros _. apply IH.
Qed.
Lemma nft_getsucc n : nft (getsucc n).
Proof. intros s r s' Ht. unfold getsucc. destruct (succ s !! n); by intros [= <- <-]. Qed.
Lemma nft_getref n : nft (getref n).
Proof. intros s r s' Ht. unfold getref. destruct (refc s !! n); by intros [= <- <-]. Qed.
Lemma nft_rr : nft request_reordering.
Proof.
  intros s r s' Ht. unfold request_reordering.
  destruct (last_len s); [|by intros [= <- <-]].
  destruct (trig s) as [[|[|k]]|]; try case_decide; by intros [= <- <-].
Qed.
Lemma nft_pop_order X : nft (pop_order X).
Proof.
  intros s r s' Ht. unfold pop_order. cbn [bind get]. destruct (tape s); [by intros [= <- <-]|].
  cbn [bind modify]. case_decide; by intros [= <- <-].
Qed.

Ltac nft1 :=
  first
    [ apply nft_ret | (apply nft_raise; discriminate) | apply nft_get | apply nft_assert
    | (apply nft_ensure; discriminate) | (apply nft_of_opt; discriminate)
    | apply nft_getsucc | apply nft_getref | apply nft_rr | apply nft_pop_order
    | (apply nft_modify; intros; reflexivity)
    | (apply nft_bind; [|intros ?])
    | (apply nft_foldM; intros ? ?)
    | (apply nft_mapM; intros ?)
    | (apply nft_forM; intros ?)
    | case_decide | case_match ].

Lemma nft_getsuccZ u : nft (getsuccZ u).
Proof. unfold getsuccZ. repeat nft1. Qed.
Lemma nft_level_of u : nft (level_of u).
Proof. unfold level_of. repeat first [apply nft_getsuccZ | nft1]. Qed.
Lemma nft_incref u : nft (incref u).
Proof. unfold incref. repeat nft1. Qed.
Lemma nft_decref u : nft (decref u).
Proof. unfold decref. repeat nft1. Qed.
Lemma nft_ref u : nft (ref u).
Proof. unfold ref. repeat nft1. Qed.
Lemma nft_bind_get {B} (f : st → MS B) :
  (∀ s, max_nodes s = None → nft (f s)) → nft (bind get f).
Proof. intros Hf s r s' Ht. cbn [bind get]. by apply Hf. Qed.
Lemma nft_find_or_add i v w : nft (find_or_add i v w).
Proof.
  unfold find_or_add. apply nft_bind; [apply nft_rr|]. intros _.
  apply nft_bind_get. intros s Hs. rewrite Hs. cbn [fits ensure].
  repeat first [apply nft_incref | nft1].
Qed.
Ltac nft2 :=
  first [ apply nft_getsuccZ | apply nft_level_of | apply nft_incref | apply nft_decref
        | apply nft_ref | apply nft_find_or_add | nft1 ].
Lemma nft_levels : nft levels_.
Proof. unfold levels_. repeat nft2. Qed.
Lemma nft_low_high u : nft (low_high u).
Proof. unfold low_high. repeat nft2. Qed.
Lemma nft_swap_cofactor u y : nft (swap_cofactor u y).
Proof. unfold swap_cofactor. repeat nft2. Qed.
Lemma nft_set_node u t : nft (set_node u t).
Proof. unfold set_node. repeat nft2. Qed.
Ltac nft3 :=
  first [ apply nft_low_high | apply nft_swap_cofactor | apply nft_set_node | nft2 ].
Lemma nft_swap_collect j o : nft (swap_collect j o).
Proof. unfold swap_collect. repeat nft3. Qed.
Lemma nft_swap_up x y l : nft (swap_up x y l).
Proof. unfold swap_up. repeat nft3. Qed.
Lemma nft_swap_indep x y l : nft (swap_indep x y l).
Proof. unfold swap_indep. repeat nft3. Qed.
Lemma nft_swap_dep x y d l : nft (swap_dep x y d l).
Proof. unfold swap_dep. repeat nft3. Qed.
Lemma nft_var_at_level l : nft (var_at_level l).
Proof. unfold var_at_level. repeat nft3. Qed.
Lemma nft_level_of_var v : nft (level_of_var v).
Proof. unfold level_of_var. repeat nft3. Qed.
Lemma nft_gc_loop fuel : ∀ U, nft (gc_loop fuel U).
Proof.
  induction fuel as [|f IH]; intros U; cbn [gc_loop]; [by apply nft_raise|].
  destruct (elements U) as [|u l]; [apply nft_ret|].
  repeat nft3; apply IH.
Qed.
Lemma nft_collect_garbage roots : nft (collect_garbage roots).
Proof. unfold collect_garbage. repeat first [apply nft_gc_loop | nft3]. Qed.
Lemma nft_child_level v : nft (child_level v).
Proof. unfold child_level. repeat nft3. Qed.
Lemma nft_dep_count y X : nft (dep_count y X).
Proof. unfold dep_count. repeat first [apply nft_child_level | nft3]. Qed.
Ltac nft4 :=
  first [ apply nft_dep_count | apply nft_levels | apply nft_swap_collect | apply nft_swap_up | apply nft_swap_indep
        | apply nft_swap_dep | apply nft_var_at_level | apply nft_level_of_var
        | apply nft_collect_garbage | nft1 ].
Lemma nft_swap x y al : nft (swap x y al).
Proof.
  unfold swap. apply nft_bind; [repeat nft4|]. intros al'.
  apply nft_bind_get. intros s Hs. rewrite Hs. cbn [swap_fits ensure].
  repeat nft4.
Qed.
Lemma nft_shift_loop n : ∀ i d al sz, nft (shift_loop n i d al sz).
Proof.
  induction n as [|n IH]; intros i d al sz; cbn [shift_loop]; [apply nft_ret|].
  apply nft_bind; [apply nft_swap|]. intros [[o nn] al']. apply IH.
Qed.
Lemma nft_shift a e al : nft (shift a e al).
Proof. unfold shift. repeat first [apply nft_shift_loop | nft4]. Qed.
Ltac nft5 := first [ apply nft_swap | apply nft_shift | nft4 ].
Lemma nft_reorder_var v al : nft (reorder_var v al).
Proof. unfold reorder_var. repeat nft5. Qed.
Lemma nft_apply_sifting : nft apply_sifting.
Proof. unfold apply_sifting. repeat first [apply nft_reorder_var | nft5]. Qed.
Lemma nft_sort_to_order o : nft (sort_to_order o).
Proof. unfold sort_to_order. repeat nft5. Qed.
Lemma nft_reorder_to_pairs p : nft (reorder_to_pairs p).
Proof. unfold reorder_to_pairs. repeat nft5. Qed.
Lemma nft_reorder o : nft (reorder o).
Proof. destruct o; [apply nft_sort_to_order|apply nft_apply_sifting]. Qed.
