(** * Sift7: with an empty oracle tape (the state between two operations of
      the driver) the reordering functions never raise [EOracle] and leave
      the tape empty (a syntactic pass, for every outcome) *)
From DD Require Export Sift6.

Definition nt {A} (m : MS A) : Prop :=
  ∀ s r s', tape s = [] → m s = (r, s') → tape s' = [] ∧ r ≠ Err EOracle.

Lemma nt_ret {A} (a : A) : nt (ret a).
Proof. by intros s r s' Ht [= <- <-]. Qed.
Lemma nt_raise {A} e : e ≠ EOracle → nt (raise e : MS A).
Proof. intros He s r s' Ht [= <- <-]. split; [done|congruence]. Qed.
Lemma nt_get : nt (get : MS st).
Proof. by intros s r s' Ht [= <- <-]. Qed.
Lemma nt_modify f : (∀ s, tape (f s) = tape s) → nt (modify f).
Proof. intros Hf s r s' Ht [= <- <-]. by rewrite Hf. Qed.
Lemma nt_bind {A B} (m : MS A) (f : A → MS B) :
  nt m → (∀ a, nt (f a)) → nt (bind m f).
Proof.
  intros Hm Hf s r s' Ht. unfold bind. destruct (m s) as [[a|e] s1] eqn:E.
  - destruct (Hm s _ s1 Ht E) as [Ht1 _]. apply (Hf a _ _ _ Ht1).
  - intros [= <- <-]. destruct (Hm s _ s1 Ht E) as [? Hne]. split; [done|].
    intros [= ->]. by apply Hne.
Qed.
Lemma nt_assert b : nt (assert b).
Proof. unfold assert. destruct b; [apply nt_ret|by apply nt_raise]. Qed.
Lemma nt_ensure e b : e ≠ EOracle → nt (ensure e b).
Proof. intros. unfold ensure. destruct b; [apply nt_ret|by apply nt_raise]. Qed.
Lemma nt_of_opt {A} e (o : option A) : e ≠ EOracle → nt (of_opt e o).
Proof. intros. destruct o; [apply nt_ret|by apply nt_raise]. Qed.
Lemma nt_foldM {A B} (f : B → A → MS B) l b : (∀ b a, nt (f b a)) → nt (foldM f b l).
Proof.
  intros Hf. revert b. induction l as [|a l IH]; intros b; [apply nt_ret|].
  cbn [foldM]. apply nt_bind; [apply Hf|]. intros b'. apply IH.
Qed.
Lemma nt_mapM {A B} (f : A → MS B) l : (∀ a, nt (f a)) → nt (mapM f l).
Proof.
  intros Hf. induction l as [|a l IH]; [apply nt_ret|].
  cbn [mapM]. apply nt_bind; [apply Hf|]. intros b.
  apply nt_bind; [apply IH|]. intros bs. apply nt_ret.
Qed.
Lemma nt_forM {A} (f : A → MS unit) l : (∀ a, nt (f a)) → nt (forM l f).
Proof.
  intros Hf. induction l as [|a l IH]; [apply nt_ret|].
  cbn [forM]. apply nt_bind; [apply Hf|]. intros _. apply IH.
Qed.
Lemma nt_getsucc n : nt (getsucc n).
Proof. intros s r s' Ht. unfold getsucc. destruct (succ s !! n); by intros [= <- <-]. Qed.
Lemma nt_getref n : nt (getref n).
Proof. intros s r s' Ht. unfold getref. destruct (refc s !! n); by intros [= <- <-]. Qed.
Lemma nt_rr : nt request_reordering.
Proof.
  intros s r s' Ht. unfold request_reordering.
  destruct (last_len s); [|by intros [= <- <-]].
  destruct (trig s) as [[|[|k]]|]; try case_decide; by intros [= <- <-].
Qed.
Lemma nt_pop_order X : nt (pop_order X).
Proof. intros s r s' Ht. unfold pop_order. cbn [bind get]. rewrite Ht. by intros [= <- <-]. Qed.

Ltac nt1 :=
  first
    [ apply nt_ret | (apply nt_raise; discriminate) | apply nt_get | apply nt_assert
    | (apply nt_ensure; discriminate) | (apply nt_of_opt; discriminate)
    | apply nt_getsucc | apply nt_getref | apply nt_rr | apply nt_pop_order
    | (apply nt_modify; intros; reflexivity)
    | (apply nt_bind; [|intros ?])
    | (apply nt_foldM; intros ? ?)
    | (apply nt_mapM; intros ?)
    | (apply nt_forM; intros ?)
    | case_decide | case_match ].

Lemma nt_getsuccZ u : nt (getsuccZ u).
Proof. unfold getsuccZ. repeat nt1. Qed.
Lemma nt_level_of u : nt (level_of u).
Proof. unfold level_of. repeat first [apply nt_getsuccZ | nt1]. Qed.
Lemma nt_incref u : nt (incref u).
Proof. unfold incref. repeat nt1. Qed.
Lemma nt_decref u : nt (decref u).
Proof. unfold decref. repeat nt1. Qed.
Lemma nt_ref u : nt (ref u).
Proof. unfold ref. repeat nt1. Qed.
Lemma nt_find_or_add i v w : nt (find_or_add i v w).
Proof. unfold find_or_add. repeat first [apply nt_incref | nt1]. Qed.
Ltac nt2 :=
  first [ apply nt_getsuccZ | apply nt_level_of | apply nt_incref | apply nt_decref
        | apply nt_ref | apply nt_find_or_add | nt1 ].
Lemma nt_levels : nt levels_.
Proof. unfold levels_. repeat nt2. Qed.
Lemma nt_low_high u : nt (low_high u).
Proof. unfold low_high. repeat nt2. Qed.
Lemma nt_swap_cofactor u y : nt (swap_cofactor u y).
Proof. unfold swap_cofactor. repeat nt2. Qed.
Lemma nt_set_node u t : nt (set_node u t).
Proof. unfold set_node. repeat nt2. Qed.
Ltac nt3 :=
  first [ apply nt_low_high | apply nt_swap_cofactor | apply nt_set_node | nt2 ].
Lemma nt_swap_collect j o : nt (swap_collect j o).
Proof. unfold swap_collect. repeat nt3. Qed.
Lemma nt_swap_up x y l : nt (swap_up x y l).
Proof. unfold swap_up. repeat nt3. Qed.
Lemma nt_swap_indep x y l : nt (swap_indep x y l).
Proof. unfold swap_indep. repeat nt3. Qed.
Lemma nt_swap_dep x y d l : nt (swap_dep x y d l).
Proof. unfold swap_dep. repeat nt3. Qed.
Lemma nt_var_at_level l : nt (var_at_level l).
Proof. unfold var_at_level. repeat nt3. Qed.
Lemma nt_level_of_var v : nt (level_of_var v).
Proof. unfold level_of_var. repeat nt3. Qed.
Lemma nt_gc_loop fuel : ∀ U, nt (gc_loop fuel U).
Proof.
  induction fuel as [|f IH]; intros U; cbn [gc_loop]; [by apply nt_raise|].
  destruct (elements U) as [|u l]; [apply nt_ret|].
  repeat nt3; apply IH.
Qed.
Lemma nt_collect_garbage roots : nt (collect_garbage roots).
Proof. unfold collect_garbage. repeat first [apply nt_gc_loop | nt3]. Qed.
Ltac nt4 :=
  first [ apply nt_levels | apply nt_swap_collect | apply nt_swap_up | apply nt_swap_indep
        | apply nt_swap_dep | apply nt_var_at_level | apply nt_level_of_var
        | apply nt_collect_garbage | nt1 ].
Lemma nt_swap x y al : nt (swap x y al).
Proof. unfold swap. repeat nt4. Qed.
Lemma nt_shift_loop n : ∀ i d al sz, nt (shift_loop n i d al sz).
Proof.
  induction n as [|n IH]; intros i d al sz; cbn [shift_loop]; [apply nt_ret|].
  apply nt_bind; [apply nt_swap|]. intros [[o nn] al']. apply IH.
Qed.
Lemma nt_shift a e al : nt (shift a e al).
Proof. unfold shift. repeat first [apply nt_shift_loop | nt4]. Qed.
Ltac nt5 := first [ apply nt_swap | apply nt_shift | nt4 ].
Lemma nt_reorder_var v al : nt (reorder_var v al).
Proof. unfold reorder_var. repeat nt5. Qed.
Lemma nt_apply_sifting : nt apply_sifting.
Proof. unfold apply_sifting. repeat first [apply nt_reorder_var | nt5]. Qed.
Lemma nt_sort_to_order o : nt (sort_to_order o).
Proof. unfold sort_to_order. repeat nt5. Qed.
Lemma nt_reorder_to_pairs p : nt (reorder_to_pairs p).
Proof. unfold reorder_to_pairs. repeat nt5. Qed.
Lemma nt_reorder o : nt (reorder o).
Proof. destruct o; [apply nt_sort_to_order|apply nt_apply_sifting]. Qed.
